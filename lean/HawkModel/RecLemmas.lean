import HawkModel.Rec
/-! helper lemmas for Props/C03 -/
namespace Hawk.Rec

/-! ## slices -/

theorem slice_append_left (pre t rest : Str) :
    slice (pre ++ t ++ rest) pre.length t.length = t := by
  simp [slice, List.append_assoc]

theorem slice_length_le (b : Str) (off len : Nat) (h : off + len ≤ b.length) :
    (slice b off len).length = len := by
  simp [slice]; omega

theorem slice_eq_of_take_eq {a b : Str} {k off len : Nat} (h : a.take k = b.take k)
    (hk : off + len ≤ k) : slice a off len = slice b off len := by
  have e : ∀ l : Str, slice l off len = slice (l.take k) off len := by
    intro l
    simp only [slice, List.drop_take, List.take_take]
    congr 1; omega
  rw [e a, e b, h]

/-! ## joinSep and the layout of spans -/

theorem joinSep_cons_cons (sep t u : Str) (ts : List Str) :
    joinSep sep (t :: u :: ts) = t ++ sep ++ joinSep sep (u :: ts) := rfl

theorem joinSep_eq_intercalate (sep : Str) (ts : List Str) :
    joinSep sep ts = sep.intercalate ts := by
  induction ts with
  | nil => simp [joinSep, List.intercalate]
  | cons t ts ih =>
    cases ts with
    | nil => simp [joinSep, List.intercalate]
    | cons u us =>
      rw [joinSep_cons_cons, ih]
      simp [List.intercalate, List.intersperse, List.append_assoc]

/-- spans laid out one after the other from offset `o`, `ol` characters apart -/
def Laid (ol : Nat) : Nat → List Fld → Prop
  | _, [] => True
  | o, f :: fs => f.off = o ∧ Laid ol (o + f.len + ol) fs

theorem relayout_texts (ol o : Nat) (fs : List Fld) :
    (relayout ol o fs).map Fld.text = fs.map Fld.text := by
  induction fs generalizing o with
  | nil => rfl
  | cons f fs ih => simp [relayout, ih]

theorem relayout_lens (ol o : Nat) (fs : List Fld) :
    (relayout ol o fs).map Fld.len = fs.map Fld.len := by
  induction fs generalizing o with
  | nil => rfl
  | cons f fs ih => simp [relayout, ih]

theorem relayout_length (ol o : Nat) (fs : List Fld) : (relayout ol o fs).length = fs.length := by
  induction fs generalizing o with
  | nil => rfl
  | cons f fs ih => simp [relayout, ih]

theorem relayout_laid (ol o : Nat) (fs : List Fld) : Laid ol o (relayout ol o fs) := by
  induction fs generalizing o with
  | nil => trivial
  | cons f fs ih => exact ⟨rfl, ih _⟩

theorem relayout_lenok (ol o : Nat) (fs : List Fld) (h : ∀ f ∈ fs, f.len = f.text.length) :
    ∀ f ∈ relayout ol o fs, f.len = f.text.length := by
  induction fs generalizing o with
  | nil => intro f hf; cases hf
  | cons g fs ih =>
    intro f hf
    simp only [relayout, List.mem_cons] at hf
    rcases hf with rfl | hf
    · exact h g (List.mem_cons_self ..)
    · exact ih _ (fun f hf => h f (List.mem_cons_of_mem _ hf)) f hf

theorem relayout_getElem? (ol o : Nat) (fs : List Fld) (i : Nat) :
    ((relayout ol o fs)[i]?).map Fld.text = (fs[i]?).map Fld.text := by
  have := relayout_texts ol o fs
  have h2 := congrArg (fun l => l[i]?) this
  simpa [List.getElem?_map] using h2

/-- the key layout fact: spans laid out from `pre.length` with gaps of `sep.length` read back
    exactly the texts that were joined with `sep` -/
theorem laid_slices (sep pre : Str) (fs : List Fld)
    (hl : Laid sep.length pre.length fs) (hlen : ∀ f ∈ fs, f.len = f.text.length) (post : Str) :
    ∀ f ∈ fs, slice (pre ++ joinSep sep (fs.map Fld.text) ++ post) f.off f.len = f.text := by
  induction fs generalizing pre with
  | nil => intro f hf; cases hf
  | cons g fs ih =>
    obtain ⟨hoff, hrest⟩ := hl
    have hg := hlen g (List.mem_cons_self ..)
    cases fs with
    | nil =>
      intro f hf
      simp only [List.mem_singleton] at hf
      subst hf
      simp only [List.map, joinSep]
      rw [hoff, hg]
      exact slice_append_left pre f.text post
    | cons h fs =>
      intro f hf
      simp only [List.map, joinSep_cons_cons]
      rcases List.mem_cons.mp hf with rfl | hf
      · rw [hoff, hg]
        have := slice_append_left pre f.text (sep ++ joinSep sep (h.text :: fs.map Fld.text) ++ post)
        simpa [List.append_assoc] using this
      · have hpre : (pre ++ g.text ++ sep).length = pre.length + g.len + sep.length := by
          simp [hg]; omega
        have := ih (pre ++ g.text ++ sep) (by rw [hpre]; exact hrest)
          (fun f hf => hlen f (List.mem_cons_of_mem _ hf)) f hf
        simpa [List.append_assoc] using this

theorem laid_slices' (sep : Str) (fs : List Fld)
    (hl : Laid sep.length 0 fs) (hlen : ∀ f ∈ fs, f.len = f.text.length) :
    ∀ f ∈ fs, slice (joinSep sep (fs.map Fld.text)) f.off f.len = f.text := by
  have := laid_slices sep [] fs (by simpa using hl) hlen []
  simpa using this

/-! ## recompTexts -/

theorem recompTexts_length (flds : List Fld) (lv : Nat) (s : Str) :
    (recompTexts flds lv s).length = max flds.length (lv + 1) := by
  simp [recompTexts]; omega

theorem recompTexts_at (flds : List Fld) (lv : Nat) (s : Str) :
    (recompTexts flds lv s)[lv]? = some s := by
  unfold recompTexts
  rw [List.getElem?_set_self (by simp; omega)]

theorem recompTexts_other (flds : List Fld) (lv j : Nat) (s : Str) (h : j ≠ lv) :
    (recompTexts flds lv s)[j]? =
      if j < flds.length then (flds[j]?).map Fld.text
      else if j < lv then some [] else none := by
  unfold recompTexts
  rw [List.getElem?_set_ne (Ne.symm h)]
  by_cases hj : j < flds.length
  · simp [hj, List.getElem?_append_left]
  · simp only [hj, if_false]
    rw [List.getElem?_append_right (by simp; omega)]
    simp only [List.length_map, List.getElem?_replicate]
    by_cases h2 : j < lv
    · simp [h2]; omega
    · simp [h2]; omega

/-! ## the tokenisers stay inside the buffer and make progress -/

/-- what split_record relies on: the token lies in `[p, n]`, ends before the next start, and
    the next start is beyond `p` and inside the buffer -/
structure TokOK (n p : Nat) (t : Tok) : Prop where
  le_off : p ≤ t.off
  end_le : t.off + t.len ≤ n
  next_ge : ∀ p', t.next = some p' → t.off + t.len ≤ p'
  next_gt : ∀ p', t.next = some p' → p < p' ∧ p' ≤ n

theorem length_takeWhile_add_dropWhile (q : Char → Bool) (s : Str) :
    (s.takeWhile q).length + (s.dropWhile q).length = s.length := by
  rw [← List.length_append, List.takeWhile_append_dropWhile]

theorem length_dropWhile_le (q : Char → Bool) (s : Str) : (s.dropWhile q).length ≤ s.length := by
  have := length_takeWhile_add_dropWhile q s; omega

theorem length_takeWhile_le (q : Char → Bool) (s : Str) : (s.takeWhile q).length ≤ s.length := by
  have := length_takeWhile_add_dropWhile q s; omega

theorem tokBlank_ok (line : Str) (p : Nat) (hp : p ≤ line.length) :
    TokOK line.length p (tokBlank line p) := by
  have hs : (line.drop p).length = line.length - p := by simp
  unfold tokBlank
  generalize line.drop p = s at hs
  have h1 := length_takeWhile_add_dropWhile isSpace s
  have h2 := length_takeWhile_add_dropWhile (fun c => !isSpace c) (s.dropWhile isSpace)
  have h3 := length_dropWhile_le isSpace ((s.dropWhile isSpace).dropWhile (fun c => !isSpace c))
  -- progress: something is consumed whenever the rest is not empty
  have hprog : (((s.dropWhile isSpace).dropWhile (fun c => !isSpace c)).dropWhile isSpace).length < s.length
      ∨ ((s.dropWhile isSpace).dropWhile (fun c => !isSpace c)).dropWhile isSpace = [] := by
    cases s with
    | nil => right; rfl
    | cons c r =>
      left
      by_cases hc : isSpace c
      · have : ((c :: r).takeWhile isSpace).length ≥ 1 := by simp [List.takeWhile, hc]
        omega
      · have e : (c :: r).dropWhile isSpace = c :: r := by simp [List.dropWhile, hc]
        rw [e] at h2 h3 ⊢
        have : ((c :: r).takeWhile (fun c => !isSpace c)).length ≥ 1 := by simp [List.takeWhile, hc]
        omega
  constructor
  · dsimp only; omega
  · dsimp only; omega
  · intro p' h
    dsimp only at h ⊢
    split at h
    · cases h
    · cases h; omega
  · intro p' h
    dsimp only at h
    split at h
    · cases h
    · rename_i hne
      cases h
      rcases hprog with hlt | he
      · omega
      · exact absurd (by simp [he]) hne

theorem tokCharP_ok (q : Char → Bool) (line : Str) (p : Nat) (hp : p ≤ line.length) :
    TokOK line.length p (tokCharP q line p) := by
  have hs : (line.drop p).length = line.length - p := by simp
  unfold tokCharP
  generalize line.drop p = s at hs
  have h1 := length_takeWhile_le q s
  constructor
  · dsimp only; omega
  · dsimp only; omega
  · intro p' h
    dsimp only at h ⊢
    split at h
    · cases h
    · cases h; omega
  · intro p' h
    dsimp only at h
    split at h
    · cases h
    · cases h; omega

theorem tokChar_ok (c : Char) (line : Str) (p : Nat) (hp : p ≤ line.length) :
    TokOK line.length p (tokChar c line p) := tokCharP_ok _ line p hp

theorem tokCharI_ok (c : Char) (line : Str) (p : Nat) (hp : p ≤ line.length) :
    TokOK line.length p (tokCharI c line p) := tokCharP_ok _ line p hp

theorem tokEach_ok (line : Str) (p : Nat) (hp : p ≤ line.length) :
    TokOK line.length p (tokEach line p) := by
  have hs : (line.drop p).length = line.length - p := by simp
  unfold tokEach
  generalize line.drop p = s at hs
  cases s with
  | nil => exact ⟨by simp, by simp; omega, by simp, by simp⟩
  | cons c r =>
    simp only [List.length_cons] at hs
    constructor
    · simp
    · dsimp only; omega
    · intro p' h
      dsimp only at h ⊢
      split at h
      · cases h
      · cases h; omega
    · intro p' h
      dsimp only at h
      split at h
      · cases h
      · rename_i hne
        cases h
        have : r.length ≠ 0 := by
          intro h0; exact hne (by simp [List.length_eq_zero_iff.mp h0])
        omega

/-- every match the regex oracle reports lies inside the text, at or after the search start -/
def SaneOn (mt : Str → Nat → Option (Nat × Nat)) : Prop :=
  ∀ line start ms ml, mt line start = some (ms, ml) → start ≤ ms ∧ ms + ml ≤ line.length

def Sane (m : Matcher) : Prop := ∀ ic fs, SaneOn (m ic fs)

theorem rexScan_ok (mt : Str → Nat → Option (Nat × Nat)) (hm : SaneOn mt) (strip : Bool)
    (line : Str) (sub cur real : Nat) (h1 : sub ≤ real) (h2 : real ≤ cur) (h3 : cur ≤ line.length) :
    match rexScan mt strip line sub cur real with
    | .whole r => sub ≤ r ∧ r ≤ line.length
    | .found r ms ml => sub ≤ r ∧ r ≤ ms ∧ ms + ml ≤ line.length ∧ 0 < ml := by
  fun_induction rexScan mt strip line sub cur real with
  | case1 cur real hlt hnone => exact ⟨h1, by omega⟩
  | case2 cur real hlt ms hsome ih =>
    exact ih h1 (by omega) (by omega)
  | case3 cur real hlt ml hz hstrip hsome hall ih =>
    have := hm _ _ _ _ hsome
    exact ih (by omega) (by omega) (by omega)
  | case4 cur real hlt ml hz hstrip hsome hall =>
    have := hm _ _ _ _ hsome
    exact ⟨h1, by omega, this.2, by omega⟩
  | case5 cur real hlt ms ml hsome hz hstrip hms =>
    have := hm _ _ _ _ hsome
    exact ⟨h1, by omega, this.2, by omega⟩
  | case6 cur real hlt ms ml hsome hz hstrip =>
    have := hm _ _ _ _ hsome
    exact ⟨h1, by omega, this.2, by omega⟩
  | case7 cur real hge => exact ⟨h1, by omega⟩

local macro "qarith" : tactic =>
  `(tactic| first | omega | (dsimp only; omega) | (dsimp only; split <;> omega) | (dsimp only at *; omega))

theorem tokRex_ok (mt : Str → Nat → Option (Nat × Nat)) (hm : SaneOn mt) (strip : Bool)
    (line : Str) (p : Nat) (hp : p ≤ line.length) :
    TokOK line.length p (tokRex mt strip line p) := by
  have h := rexScan_ok mt hm strip line p p p (Nat.le_refl _) (Nat.le_refl _) hp
  unfold tokRex
  split
  · rename_i real heq
    rw [heq] at h
    exact ⟨h.1, (by dsimp only; omega), (by intro p' h'; cases h'), (by intro p' h'; cases h')⟩
  · rename_i real ms ml heq
    rw [heq] at h
    obtain ⟨a, b, c, d⟩ := h
    split
    · exact ⟨a, (by dsimp only; omega), (by intro p' h'; cases h'; dsimp only; omega),
        (by intro p' h'; cases h'; omega)⟩
    · split
      · refine ⟨a, (by dsimp only; omega), ?_, ?_⟩
        · intro p' h'; dsimp only at h' ⊢; split at h'
          · cases h'
          · cases h'; omega
        · intro p' h'; dsimp only at h'; split at h'
          · cases h'
          · cases h'; omega
      · refine ⟨a, (by dsimp only; omega), ?_, ?_⟩
        · intro p' h'; dsimp only at h' ⊢; split at h'
          · cases h'
          · cases h'; omega
        · intro p' h'; dsimp only at h'; split at h'
          · cases h'
          · cases h'; omega

/-! ### the '?'-quoted splitter rewrites only its own part of the buffer -/

theorem tokQLoop_ok (fs ec lq rq : Char) (ts : Nat) (st : QSt) (p : Nat) (n : Nat)
    (hn : st.buf.length = n) (h1 : ts ≤ st.xp) (h2 : st.xp ≤ st.tp) (h3 : st.tp ≤ p) (h4 : p ≤ n)
    (h5 : st.esc = true → st.tp < p) :
    (tokQLoop fs ec lq rq ts st p).1.length = n ∧
    (tokQLoop fs ec lq rq ts st p).1.take ts = st.buf.take ts ∧
    (tokQLoop fs ec lq rq ts st p).2.off = ts ∧
    ts + (tokQLoop fs ec lq rq ts st p).2.len ≤ n ∧
    (∀ p', (tokQLoop fs ec lq rq ts st p).2.next = some p' →
        ts + (tokQLoop fs ec lq rq ts st p).2.len ≤ p' ∧ p < p' ∧ p' ≤ n) := by
  fun_induction tokQLoop fs ec lq rq ts st p with
  | case1 st p hlt c hesc ih =>
    have h5' := h5 hesc
    have := ih (by simp [hn]) (by qarith) (by qarith) (by qarith) (by qarith) (by simp)
    obtain ⟨a, b, c', d, e⟩ := this
    refine ⟨a, ?_, c', d, fun p' hp' => ?_⟩
    · rw [b]; exact List.take_set_of_le (by omega)
    · have := e p' hp'; omega
  | case2 st p hlt c hesc hec ih =>
    have := ih hn h1 h2 (by qarith) (by qarith) (by intro _; qarith)
    obtain ⟨a, b, c', d, e⟩ := this
    exact ⟨a, b, c', d, fun p' hp' => by have := e p' hp'; omega⟩
  | case3 st p hlt c hesc hec hquo hrq ih =>
    have := ih hn h1 h2 (by qarith) (by qarith) (by intro h; simp [hesc] at h)
    obtain ⟨a, b, c', d, e⟩ := this
    exact ⟨a, b, c', d, fun p' hp' => by have := e p' hp'; omega⟩
  | case4 st p hlt c hesc hec hquo hrq ih =>
    have := ih (by simp [hn]) (by qarith) (by qarith) (by qarith) (by qarith) (by intro h; simp [hesc] at h)
    obtain ⟨a, b, c', d, e⟩ := this
    refine ⟨a, ?_, c', d, fun p' hp' => ?_⟩
    · rw [b]; exact List.take_set_of_le (by omega)
    · have := e p' hp'; omega
  | case5 st p hlt c hesc hec hquo hfs hsp p2 =>
    have hp2 : p + 1 ≤ p2 := by simp [p2, skipEq]
    refine ⟨hn, rfl, rfl, (by dsimp only; omega), fun p' hp' => ?_⟩
    dsimp only at hp' ⊢
    split at hp'
    · cases hp'
    · cases hp'; omega
  | case6 st p hlt c hesc hec hquo hfs hsp =>
    refine ⟨hn, rfl, rfl, (by dsimp only; omega), fun p' hp' => ?_⟩
    cases hp'; dsimp only; omega
  | case7 st p hlt c hesc hec hquo hfs hlq ih =>
    have := ih hn h1 h2 (by qarith) (by qarith) (by intro h; simp [hesc] at h)
    obtain ⟨a, b, c', d, e⟩ := this
    exact ⟨a, b, c', d, fun p' hp' => by have := e p' hp'; omega⟩
  | case8 st p hlt c hesc hec hquo hfs hlq hsp ih =>
    have := ih (by simp [hn]) (by qarith) (by qarith) (by qarith) (by qarith) (by intro h; simp [hesc] at h)
    obtain ⟨a, b, c', d, e⟩ := this
    refine ⟨a, ?_, c', d, fun p' hp' => ?_⟩
    · rw [b]; exact List.take_set_of_le (by omega)
    · have := e p' hp'; omega
  | case9 st p hlt c hesc hec hquo hfs hlq hsp ih =>
    have := ih (by simp [hn]) (by qarith) (by qarith) (by qarith) (by qarith) (by intro h; simp [hesc] at h)
    obtain ⟨a, b, c', d, e⟩ := this
    refine ⟨a, ?_, c', d, fun p' hp' => ?_⟩
    · rw [b]; exact List.take_set_of_le (by omega)
    · have := e p' hp'; omega
  | case10 st p hge hesc =>
    have := h5 hesc
    exact ⟨by simp [hn], List.take_set_of_le (by omega), rfl, (by dsimp only; omega), fun p' hp' => by cases hp'⟩
  | case11 st p hge hesc =>
    exact ⟨hn, rfl, rfl, (by dsimp only; omega), fun p' hp' => by cases hp'⟩

/-! ## split_record -/

/-- a tokeniser call keeps the buffer length and everything before its start, and returns a
    token satisfying `TokOK` -/
def StepOK (step : Step) (n : Nat) : Prop :=
  ∀ buf p, buf.length = n → p ≤ n →
    (step buf p).1.length = n ∧ (step buf p).1.take p = buf.take p ∧ TokOK n p (step buf p).2

theorem roStep_ok (tok : Str → Nat → Tok) (n : Nat)
    (h : ∀ line p, line.length = n → p ≤ n → TokOK n p (tok line p)) : StepOK (roStep tok) n := by
  intro buf p hb hp
  exact ⟨hb, rfl, h buf p hb hp⟩

theorem tokQ_ok (fs ec lq rq : Char) (n : Nat) : StepOK (tokQ fs ec lq rq) n := by
  intro buf p hb hp
  have hs : (buf.drop p).length = n - p := by simp [hb]
  have hw := length_takeWhile_le isSpace (buf.drop p)
  unfold tokQ
  dsimp only
  generalize hp0 : p + ((buf.drop p).takeWhile isSpace).length = p0
  have hle : p ≤ p0 := by omega
  have hle2 : p0 ≤ n := by omega
  have := tokQLoop_ok fs ec lq rq p0 { buf := buf, tp := p0, xp := p0, esc := false, quo := false } p0 n
    hb (Nat.le_refl _) (Nat.le_refl _) (Nat.le_refl _) hle2 (by simp)
  obtain ⟨a, b, c, d, e⟩ := this
  refine ⟨a, ?_, ?_⟩
  · have := congrArg (List.take p) b
    simpa [List.take_take, Nat.min_eq_left hle] using this
  · exact ⟨by rw [c]; exact hle, by rw [c]; exact d,
      fun p' hp' => by rw [c]; exact (e p' hp').1,
      fun p' hp' => by have := e p' hp'; omega⟩

theorem roTok_ok (m : Matcher) (hm : Sane m) (e : Env) (n : Nat) :
    StepOK (roStep (roTok m e)) n := by
  apply roStep_ok
  intro line p hl hp
  subst hl
  unfold roTok
  cases fsMode e.fsText with
  | each => exact tokEach_ok line p hp
  | blank => exact tokBlank_ok line p hp
  | char c =>
    dsimp only
    split
    · exact tokCharI_ok _ line p hp
    · exact tokChar_ok _ line p hp
  | regex => exact tokRex_ok _ (hm _ _) _ line p hp
  | quoted a b c d => exact tokBlank_ok line p hp

/-- what the `while (p)` loop of split_record guarantees for every field it creates -/
theorem splitLoop_spec (step : Step) (n : Nat) (hs : StepOK step n) (first : Bool) (buf : Str)
    (p : Nat) (hb : buf.length = n) (hp : p ≤ n) :
    (splitLoop step n first buf p).1.length = n ∧
    (splitLoop step n first buf p).1.take p = buf.take p ∧
    ∀ f ∈ (splitLoop step n first buf p).2,
      p ≤ f.off ∧ f.off + f.len ≤ n ∧
      slice (splitLoop step n first buf p).1 f.off f.len = f.text ∧ f.len = f.text.length := by
  fun_induction splitLoop step n first buf p with
  | case1 first buf p r hempty =>
    obtain ⟨a, b, c⟩ := hs buf p hb hp
    exact ⟨a, b, fun f hf => by cases hf⟩
  | case2 first buf p r hne f hnone =>
    obtain ⟨a, b, c⟩ := hs buf p hb hp
    refine ⟨a, b, fun g hg => ?_⟩
    simp only [List.mem_singleton] at hg
    subst hg
    exact ⟨c.le_off, c.end_le, rfl, (slice_length_le _ _ _ (by rw [a]; exact c.end_le)).symm⟩
  | case3 first buf p r hne f p' hsome hguard rest ih =>
    obtain ⟨a, b, c⟩ := hs buf p hb hp
    obtain ⟨ia, ib, ic⟩ := ih a hguard.2
    refine ⟨ia, ?_, fun g hg => ?_⟩
    · have := congrArg (List.take p) ib
      simp only [List.take_take, Nat.min_eq_left (Nat.le_of_lt hguard.1)] at this
      rw [this]; exact b
    · rcases List.mem_cons.mp hg with rfl | hg
      · refine ⟨c.le_off, c.end_le, ?_, (slice_length_le _ _ _ (by rw [a]; exact c.end_le)).symm⟩
        exact slice_eq_of_take_eq ib (c.next_ge p' hsome)
      · have := ic g hg
        exact ⟨by omega, this.2.1, this.2.2.1, this.2.2.2⟩
  | case4 first buf p r hne f p' hsome hguard =>
    obtain ⟨a, b, c⟩ := hs buf p hb hp
    refine ⟨a, b, fun g hg => ?_⟩
    simp only [List.mem_singleton] at hg
    subst hg
    exact ⟨c.le_off, c.end_le, rfl, (slice_length_le _ _ _ (by rw [a]; exact c.end_le)).symm⟩

/-- the guard in `splitLoop` is never the reason to stop: with a well-behaved tokeniser the
    model's loop is exactly the C's `while (p)` -/
theorem splitLoop_guard (step : Step) (n : Nat) (hs : StepOK step n) (buf : Str) (p p' : Nat)
    (hb : buf.length = n) (hp : p ≤ n) (h : (step buf p).2.next = some p') : p < p' ∧ p' ≤ n :=
  (hs buf p hb hp).2.2.next_gt p' h

theorem splitRecord_flds_dep (m : Matcher) (e : Env) (r : Rec) :
    (splitRecord m e r).flds = (splitRecord m e { line := r.line }).flds := by
  unfold splitRecord
  cases fsMode e.fsText <;> rfl

theorem splitLoop_ro_buf (tok : Str → Nat → Tok) (n : Nat) (first : Bool) (buf : Str) (p : Nat) :
    (splitLoop (roStep tok) n first buf p).1 = buf := by
  fun_induction splitLoop (roStep tok) n first buf p with
  | case1 => rfl
  | case2 => rfl
  | case3 first buf p r hne f p' hsome hguard rest ih => exact ih
  | case4 => rfl


theorem setfld_flds_text (e : Env) (r : Rec) (i : Nat) (s : Str) (k : Nat) :
    ((setfld e r i s).flds[k]?).map Fld.text = (recompTexts r.flds (i - 1) s)[k]? := by
  unfold setfld
  dsimp only
  rw [relayout_getElem?, List.getElem?_map]
  cases (recompTexts r.flds (i - 1) s)[k]? <;> rfl

/-! ## split laws, single-character FS -/

theorem take_length_takeWhile (q : Char → Bool) (s : Str) :
    s.take (s.takeWhile q).length = s.takeWhile q := by
  induction s with
  | nil => rfl
  | cons a r ih =>
    by_cases h : q a
    · simp [List.takeWhile, h, ih]
    · simp [List.takeWhile, h]

theorem takeWhile_split (q : Char → Bool) (s : Str) (h : (s.takeWhile q).length < s.length) :
    ∃ x, q x = false ∧ s = s.takeWhile q ++ x :: s.drop ((s.takeWhile q).length + 1) := by
  induction s with
  | nil => simp at h
  | cons a r ih =>
    by_cases ha : q a
    · have h' : (r.takeWhile q).length < r.length := by
        simp [List.takeWhile, ha] at h; exact h
      obtain ⟨x, hx, e⟩ := ih h'
      refine ⟨x, hx, ?_⟩
      simp only [List.takeWhile, ha, List.length_cons, List.drop_succ_cons, List.cons_append]
      congr 1
    · exact ⟨a, by simpa using ha, by simp [List.takeWhile, ha]⟩

theorem mem_takeWhile_sat (q : Char → Bool) (s : Str) : ∀ x ∈ s.takeWhile q, q x = true := by
  induction s with
  | nil => intro x hx; cases hx
  | cons a r ih =>
    intro x hx
    by_cases ha : q a
    · simp only [List.takeWhile, ha, List.mem_cons] at hx
      rcases hx with rfl | hx
      · exact ha
      · exact ih x hx
    · simp [List.takeWhile, ha] at hx

theorem splitLoop_false_ne_nil (step : Step) (n : Nat) (buf : Str) (p : Nat) :
    (splitLoop step n false buf p).2 ≠ [] := by
  rw [splitLoop]
  simp only [Bool.false_and, Bool.false_eq_true, if_false]
  split
  · simp
  · split <;> simp

/-- single-character FS: the fields joined by that character give back the text, and no field
    contains it (these two facts determine the fields) -/
theorem char_loop_law (c : Char) (n : Nat) (first : Bool) (buf : Str) (p : Nat)
    (hb : buf.length = n) (hp : p ≤ n) :
    joinSep [c] ((splitLoop (roStep (tokChar c)) n first buf p).2.map Fld.text) = buf.drop p ∧
    ∀ f ∈ (splitLoop (roStep (tokChar c)) n first buf p).2, c ∉ f.text := by
  have hslice : ∀ (b : Str) (p : Nat), slice b p ((b.drop p).takeWhile (fun x => x != c)).length
      = (b.drop p).takeWhile (fun x => x != c) := by
    intro b p; unfold slice; exact take_length_takeWhile _ _
  have hnotin : ∀ (b : Str) (p : Nat), c ∉ (b.drop p).takeWhile (fun x => x != c) := by
    intro b p hmem
    have := mem_takeWhile_sat _ _ c hmem
    simp at this
  fun_induction splitLoop (roStep (tokChar c)) n first buf p with
  | case1 first buf p r hempty =>
    simp only [r, roStep, tokChar, tokCharP, Bool.and_eq_true, beq_iff_eq] at hempty
    obtain ⟨⟨_, h2⟩, h3⟩ := hempty
    have hs : (buf.drop p).length = n - p := by simp [hb]
    have : buf.drop p = [] := by
      by_cases hz : (buf.drop p).length = 0
      · exact List.length_eq_zero_iff.mp hz
      · exfalso
        simp only [Option.isNone_iff_eq_none] at h2
        split at h2
        · omega
        · cases h2
    exact ⟨by simp [joinSep, this], fun f hf => by cases hf⟩
  | case2 first buf p r hne f hnone =>
    simp only [r, roStep, tokChar, tokCharP] at hnone
    have hge : ((buf.drop p).takeWhile (fun x => x != c)).length ≥ (buf.drop p).length := by
      split at hnone
      · assumption
      · cases hnone
    have hw : (buf.drop p).takeWhile (fun x => x != c) = buf.drop p := by
      rw [← take_length_takeWhile]; exact List.take_of_length_le hge
    have hft : f.text = buf.drop p := by
      simp only [f, r, roStep, tokChar, tokCharP]; rw [hslice, hw]
    refine ⟨by simp [joinSep, hft], fun g hg => ?_⟩
    simp only [List.mem_singleton] at hg
    subst hg
    rw [hft, ← hw]; exact hnotin buf p
  | case3 first buf p r hne f p' hsome hguard rest ih =>
    simp only [r, roStep, tokChar, tokCharP] at hsome
    have hlt : ((buf.drop p).takeWhile (fun x => x != c)).length < (buf.drop p).length := by
      split at hsome
      · cases hsome
      · omega
    have hp' : p' = p + ((buf.drop p).takeWhile (fun x => x != c)).length + 1 := by
      split at hsome
      · cases hsome
      · cases hsome; rfl
    obtain ⟨x, hx, e⟩ := takeWhile_split _ _ hlt
    have hxc : x = c := by simpa using hx
    have hft : f.text = (buf.drop p).takeWhile (fun x => x != c) := by
      simp only [f, r, roStep, tokChar, tokCharP]; rw [hslice]
    have hr1 : r.1 = buf := rfl
    obtain ⟨ih1, ih2⟩ := ih (by rw [hr1]; exact hb) hguard.2
    have hne' := splitLoop_false_ne_nil (roStep (tokChar c)) n r.1 p'
    refine ⟨?_, fun g hg => ?_⟩
    · show joinSep [c] (f.text :: rest.2.map Fld.text) = _
      cases hrest : rest.2 with
      | nil => exact absurd hrest hne'
      | cons g gs =>
        rw [List.map_cons, joinSep_cons_cons, ← List.map_cons, ← hrest, ih1, hft, hr1]
        have e2 : (buf.drop p).drop (((buf.drop p).takeWhile (fun x => x != c)).length + 1)
            = buf.drop p' := by
          rw [List.drop_drop, hp']; congr 1
        rw [e2, hxc] at e
        have e3 := e.symm
        simpa [List.append_assoc] using e3
    · rcases List.mem_cons.mp hg with rfl | hg
      · rw [hft]; exact hnotin buf p
      · exact ih2 g hg
  | case4 first buf p r hne f p' hsome hguard =>
    exfalso
    have := (roStep_ok (tokChar c) n (fun line p hl hp => by subst hl; exact tokChar_ok c line p hp)
      buf p hb hp).2.2.next_gt p' hsome
    exact hguard this

/-! ## split laws, blank FS -/

def AllSpace (g : Str) : Prop := ∀ x ∈ g, isSpace x = true
def Word (t : Str) : Prop := t ≠ [] ∧ ∀ x ∈ t, isSpace x = false

/-- `Blanked ts s`: the text `s` consists of the words `ts`, in this order, with runs of
    space characters between them (non-empty ones, since a word is followed by the end or by a
    space) and possibly in front and behind.  A complete description of blank-mode splitting:
    `blanked_unique`. -/
def Blanked : List Str → Str → Prop
  | [], s => AllSpace s
  | t :: ts, s => ∃ g rest, s = g ++ t ++ rest ∧ AllSpace g ∧ Word t ∧
      (rest = [] ∨ ∃ y r, rest = y :: r ∧ isSpace y = true) ∧ Blanked ts rest

theorem blanked_prepend (g : Str) (hg : AllSpace g) (ts : List Str) (s : Str) (h : Blanked ts s) :
    Blanked ts (g ++ s) := by
  cases ts with
  | nil =>
    intro x hx
    rcases List.mem_append.mp hx with h1 | h1
    · exact hg x h1
    · exact h x h1
  | cons t ts =>
    obtain ⟨g', rest, e, a, b, c, d⟩ := h
    refine ⟨g ++ g', rest, by rw [e]; simp [List.append_assoc], ?_, b, c, d⟩
    intro x hx
    rcases List.mem_append.mp hx with h1 | h1
    · exact hg x h1
    · exact a x h1

theorem dropWhile_head (q : Char → Bool) (l : Str) (y : Char) (r : Str)
    (h : l.dropWhile q = y :: r) : q y = false := by
  induction l with
  | nil => cases h
  | cons a l ih =>
    by_cases ha : q a
    · simp [List.dropWhile, ha] at h; exact ih h
    · simp [List.dropWhile, ha] at h
      obtain ⟨rfl, _⟩ := h
      simpa using ha

theorem drop_length_takeWhile (q : Char → Bool) (s : Str) :
    s.drop (s.takeWhile q).length = s.dropWhile q := by
  induction s with
  | nil => rfl
  | cons a r ih =>
    by_cases h : q a
    · simp [List.takeWhile, List.dropWhile, h, ih]
    · simp [List.takeWhile, List.dropWhile, h]

theorem allSpace_takeWhile (s : Str) : AllSpace (s.takeWhile isSpace) :=
  fun x hx => mem_takeWhile_sat isSpace s x hx

theorem dropWhile_nil_allSpace (s : Str) (h : s.dropWhile isSpace = []) : AllSpace s := by
  have := List.takeWhile_append_dropWhile (p := isSpace) (l := s)
  rw [h, List.append_nil] at this
  rw [← this]; exact allSpace_takeWhile s

/-- the anatomy of one tokBlank call on the rest `s` of the buffer -/
theorem blank_anatomy (s : Str) :
    let g := s.takeWhile isSpace
    let s1 := s.dropWhile isSpace
    let w := s1.takeWhile (fun c => !isSpace c)
    let s2 := s1.dropWhile (fun c => !isSpace c)
    let gap := s2.takeWhile isSpace
    let s3 := s2.dropWhile isSpace
    s = g ++ w ++ s2 ∧ s2 = gap ++ s3 ∧ AllSpace g ∧ AllSpace gap ∧ (∀ x ∈ w, isSpace x = false) ∧
    (s2 = [] ∨ ∃ y r, s2 = y :: r ∧ isSpace y = true) ∧
    (s1 ≠ [] → w ≠ []) ∧
    (s3 = [] ∨ ∃ y r, s3 = y :: r ∧ isSpace y = false) := by
  intro g s1 w s2 gap s3
  have e1 : s = g ++ s1 := (List.takeWhile_append_dropWhile (p := isSpace) (l := s)).symm
  have e2 : s1 = w ++ s2 := (List.takeWhile_append_dropWhile (p := fun c => !isSpace c) (l := s1)).symm
  have e3 : s2 = gap ++ s3 := (List.takeWhile_append_dropWhile (p := isSpace) (l := s2)).symm
  refine ⟨by rw [List.append_assoc, ← e2, ← e1], e3, allSpace_takeWhile s, allSpace_takeWhile s2, ?_, ?_, ?_, ?_⟩
  · intro x hx
    have := mem_takeWhile_sat (fun c => !isSpace c) s1 x hx
    simpa using this
  · cases h : s2 with
    | nil => left; rfl
    | cons y r =>
      right
      have := dropWhile_head (fun c => !isSpace c) s1 y r h
      exact ⟨y, r, rfl, by simpa using this⟩
  · intro hne
    cases h : s1 with
    | nil => exact absurd h hne
    | cons y r =>
      have hy := dropWhile_head isSpace s y r h
      show List.takeWhile (fun c => !isSpace c) s1 ≠ []
      rw [h]
      simp [List.takeWhile, hy]
  · cases h : s3 with
    | nil => left; rfl
    | cons y r =>
      right
      exact ⟨y, r, rfl, dropWhile_head isSpace s2 y r h⟩

theorem tokBlank_text (buf : Str) (p : Nat) :
    slice buf (tokBlank buf p).off (tokBlank buf p).len
      = ((buf.drop p).dropWhile isSpace).takeWhile (fun c => !isSpace c) := by
  unfold tokBlank slice
  dsimp only
  have h1 := length_takeWhile_add_dropWhile isSpace (buf.drop p)
  have : (buf.drop p).length - ((buf.drop p).dropWhile isSpace).length
      = ((buf.drop p).takeWhile isSpace).length := by omega
  rw [this, ← List.drop_drop, drop_length_takeWhile, take_length_takeWhile]

theorem tokBlank_next (buf : Str) (p p' : Nat) (h : (tokBlank buf p).next = some p') :
    buf.drop p' = (((buf.drop p).dropWhile isSpace).dropWhile (fun c => !isSpace c)).dropWhile isSpace := by
  obtain ⟨e1, e2, _⟩ := blank_anatomy (buf.drop p)
  unfold tokBlank at h
  dsimp only at h
  split at h
  · cases h
  · cases h
    generalize hs3 : (((buf.drop p).dropWhile isSpace).dropWhile (fun c => !isSpace c)).dropWhile isSpace = s3 at *
    generalize hgap : (((buf.drop p).dropWhile isSpace).dropWhile (fun c => !isSpace c)).takeWhile isSpace = gap at *
    generalize hs2 : ((buf.drop p).dropWhile isSpace).dropWhile (fun c => !isSpace c) = s2 at *
    generalize hw : ((buf.drop p).dropWhile isSpace).takeWhile (fun c => !isSpace c) = w at *
    generalize hg : (buf.drop p).takeWhile isSpace = g at *
    generalize hs : buf.drop p = s at *
    rw [← List.drop_drop, hs]
    have e : s = (g ++ w ++ gap) ++ s3 := by rw [e1, e2]; simp [List.append_assoc]
    have hl : s.length - s3.length = (g ++ w ++ gap).length := by
      have := congrArg List.length e
      simp only [List.length_append] at this ⊢
      omega
    rw [hl]
    conv => lhs; arg 2; rw [e]
    exact List.drop_left

theorem blank_loop_law (n : Nat) (first : Bool) (buf : Str) (p : Nat)
    (hb : buf.length = n) (hp : p ≤ n)
    (hpre : first = false → ∃ y r, buf.drop p = y :: r ∧ isSpace y = false) :
    Blanked ((splitLoop (roStep tokBlank) n first buf p).2.map Fld.text) (buf.drop p) := by
  fun_induction splitLoop (roStep tokBlank) n first buf p with
  | case1 first buf p r hempty =>
    simp only [r, roStep, Bool.and_eq_true, beq_iff_eq] at hempty
    obtain ⟨⟨_, _⟩, h3⟩ := hempty
    obtain ⟨e1, e2, a1, a2, a3, a4, a5, a6⟩ := blank_anatomy (buf.drop p)
    have hw : ((buf.drop p).dropWhile isSpace).takeWhile (fun c => !isSpace c) = [] := by
      apply List.length_eq_zero_iff.mp
      simpa [tokBlank] using h3
    have hs1 : (buf.drop p).dropWhile isSpace = [] := by
      by_cases h : (buf.drop p).dropWhile isSpace = []
      · exact h
      · exact absurd hw (a5 h)
    exact dropWhile_nil_allSpace _ hs1
  | case2 first buf p r hne f hnone =>
    obtain ⟨e1, e2, a1, a2, a3, a4, a5, a6⟩ := blank_anatomy (buf.drop p)
    have hft : f.text = ((buf.drop p).dropWhile isSpace).takeWhile (fun c => !isSpace c) := by
      simp only [f, r, roStep]; exact tokBlank_text buf p
    have hs3 : (((buf.drop p).dropWhile isSpace).dropWhile (fun c => !isSpace c)).dropWhile isSpace = [] := by
      simp only [r, roStep, tokBlank] at hnone
      split at hnone
      · rename_i h; simpa using h
      · cases hnone
    have hwne : ((buf.drop p).dropWhile isSpace).takeWhile (fun c => !isSpace c) ≠ [] := by
      cases hfirst : first with
      | false =>
        obtain ⟨y, r', hy, hsp⟩ := hpre hfirst
        apply a5
        rw [hy]; simp [List.dropWhile, hsp]
      | true =>
        intro hw
        apply hne
        have : (tokBlank buf p).len = 0 := by simp [tokBlank, hw]
        have hn2 : (tokBlank buf p).next = none := hnone
        simp [r, roStep, hfirst, hn2, this]
    show Blanked [f.text] (buf.drop p)
    refine ⟨_, _, by rw [hft]; exact e1, a1, ⟨by rw [hft]; exact hwne, by rw [hft]; exact a3⟩, a4, ?_⟩
    exact dropWhile_nil_allSpace _ hs3
  | case3 first buf p r hne f p' hsome hguard rest ih =>
    obtain ⟨e1, e2, a1, a2, a3, a4, a5, a6⟩ := blank_anatomy (buf.drop p)
    have hft : f.text = ((buf.drop p).dropWhile isSpace).takeWhile (fun c => !isSpace c) := by
      simp only [f, r, roStep]; exact tokBlank_text buf p
    have hr1 : r.1 = buf := rfl
    have hdrop := tokBlank_next buf p p' hsome
    have hs3ne : (((buf.drop p).dropWhile isSpace).dropWhile (fun c => !isSpace c)).dropWhile isSpace ≠ [] := by
      simp only [r, roStep, tokBlank] at hsome
      split at hsome
      · cases hsome
      · rename_i h; simpa using h
    have hnext : ∃ y r', buf.drop p' = y :: r' ∧ isSpace y = false := by
      rcases a6 with h | ⟨y, r', h, hy⟩
      · exact absurd h hs3ne
      · exact ⟨y, r', by rw [hdrop, h], hy⟩
    have hwne : ((buf.drop p).dropWhile isSpace).takeWhile (fun c => !isSpace c) ≠ [] := by
      apply a5
      intro h
      apply hs3ne
      simp [h]
    have ihh := ih (by rw [hr1]; exact hb) hguard.2 (fun _ => by rw [hr1]; exact hnext)
    rw [hr1, hdrop] at ihh
    show Blanked (f.text :: rest.2.map Fld.text) (buf.drop p)
    refine ⟨_, _, by rw [hft]; exact e1, a1, ⟨by rw [hft]; exact hwne, by rw [hft]; exact a3⟩, a4, ?_⟩
    rw [e2]
    exact blanked_prepend _ a2 _ _ ihh
  | case4 first buf p r hne f p' hsome hguard =>
    exfalso
    have := (roStep_ok tokBlank n (fun line p hl hp => by subst hl; exact tokBlank_ok line p hp)
      buf p hb hp).2.2.next_gt p' hsome
    exact hguard this

theorem takeWhile_dropWhile_append (q : Char → Bool) (a b : Str) (ha : ∀ x ∈ a, q x = true)
    (hb : b = [] ∨ ∃ y r, b = y :: r ∧ q y = false) :
    (a ++ b).takeWhile q = a ∧ (a ++ b).dropWhile q = b := by
  induction a with
  | nil =>
    rcases hb with rfl | ⟨y, r, rfl, hy⟩
    · exact ⟨rfl, rfl⟩
    · simp [hy]
  | cons x a ih =>
    have hx := ha x (List.mem_cons_self ..)
    obtain ⟨i1, i2⟩ := ih (fun y hy => ha y (List.mem_cons_of_mem _ hy))
    simp [hx, i1, i2]

theorem blanked_unique (ts : List Str) : ∀ (ts' : List Str) (s : Str),
    Blanked ts s → Blanked ts' s → ts = ts' := by
  have contra : ∀ (t : Str) (ts : List Str) (s : Str), AllSpace s → Blanked (t :: ts) s → False := by
    intro t ts s hs hb
    obtain ⟨g, rest, e, _, ⟨hne, hw⟩, _, _⟩ := hb
    cases t with
    | nil => exact hne rfl
    | cons x t =>
      have h1 := hw x (List.mem_cons_self ..)
      have h2 := hs x (by rw [e]; simp)
      rw [h1] at h2; cases h2
  induction ts with
  | nil =>
    intro ts' s h h'
    cases ts' with
    | nil => rfl
    | cons t' ts' => exact (contra t' ts' s h h').elim
  | cons t ts ih =>
    intro ts' s h h'
    cases ts' with
    | nil => exact (contra t ts s h' h).elim
    | cons t' ts' =>
      obtain ⟨g, rest, e, hg, ⟨hne, hw⟩, hr, hb⟩ := h
      obtain ⟨g', rest', e', hg', ⟨hne', hw'⟩, hr', hb'⟩ := h'
      have hd : ∀ (t rest : Str), t ≠ [] → (∀ x ∈ t, isSpace x = false) →
          ∃ y r, t ++ rest = y :: r ∧ isSpace y = false := by
        intro t rest hne hw
        cases t with
        | nil => exact absurd rfl hne
        | cons y t => exact ⟨y, t ++ rest, rfl, hw y (List.mem_cons_self ..)⟩
      have k1 := takeWhile_dropWhile_append isSpace g (t ++ rest) hg (Or.inr (hd t rest hne hw))
      have k1' := takeWhile_dropWhile_append isSpace g' (t' ++ rest') hg' (Or.inr (hd t' rest' hne' hw'))
      rw [← List.append_assoc, ← e] at k1
      rw [← List.append_assoc, ← e'] at k1'
      have etr : t ++ rest = t' ++ rest' := by rw [← k1.2, ← k1'.2]
      have q1 : ∀ x ∈ t, (fun c => !isSpace c) x = true := fun x hx => by simp [hw x hx]
      have q1' : ∀ x ∈ t', (fun c => !isSpace c) x = true := fun x hx => by simp [hw' x hx]
      have cv : ∀ rest : Str, (rest = [] ∨ ∃ y r, rest = y :: r ∧ isSpace y = true) →
          (rest = [] ∨ ∃ y r, rest = y :: r ∧ (fun c => !isSpace c) y = false) := by
        intro rest h
        rcases h with h | ⟨y, r, h, hy⟩
        · exact Or.inl h
        · exact Or.inr ⟨y, r, h, by simp [hy]⟩
      have k2 := takeWhile_dropWhile_append (fun c => !isSpace c) t rest q1 (cv rest hr)
      have k2' := takeWhile_dropWhile_append (fun c => !isSpace c) t' rest' q1' (cv rest' hr')
      rw [etr] at k2
      have et : t = t' := by rw [← k2.1, k2'.1]
      have er : rest = rest' := by rw [← k2.2, k2'.2]
      subst et; subst er
      rw [ih ts' rest hb hb']

theorem allSpace_nil : AllSpace [] := fun x hx => by cases hx

theorem blanked_join (ts : List Str) (h : ∀ t ∈ ts, Word t) : Blanked ts (joinSep [' '] ts) := by
  induction ts with
  | nil => exact allSpace_nil
  | cons t ts ih =>
    have ht := h t (List.mem_cons_self ..)
    cases ts with
    | nil =>
      exact ⟨[], [], (by simp [joinSep]), allSpace_nil, ht, Or.inl rfl, allSpace_nil⟩
    | cons u ts =>
      have ih' := ih (fun x hx => h x (List.mem_cons_of_mem _ hx))
      have hsp : AllSpace [' '] := by
        intro x hx
        simp only [List.mem_singleton] at hx
        subst hx; decide
      refine ⟨[], [' '] ++ joinSep [' '] (u :: ts), (by simp [joinSep_cons_cons]), allSpace_nil, ht,
        Or.inr ⟨' ', joinSep [' '] (u :: ts), rfl, (by decide)⟩, ?_⟩
      exact blanked_prepend [' '] hsp _ _ ih'

theorem blanked_words (ts : List Str) : ∀ (s : Str), Blanked ts s → ∀ t ∈ ts, Word t := by
  induction ts with
  | nil => intro s _ t ht; cases ht
  | cons u ts ih =>
    intro s h t ht
    obtain ⟨g, rest, _, _, hw, _, hb⟩ := h
    rcases List.mem_cons.mp ht with rfl | ht
    · exact hw
    · exact ih rest hb t ht

/-! ## split law, empty FS -/

theorem each_loop_law (n : Nat) (first : Bool) (buf : Str) (p : Nat)
    (hb : buf.length = n) (hp : p ≤ n) (hpre : first = false → buf.drop p ≠ []) :
    (splitLoop (roStep tokEach) n first buf p).2.map Fld.text = (buf.drop p).map (fun c => [c]) := by
  fun_induction splitLoop (roStep tokEach) n first buf p with
  | case1 first buf p r hempty =>
    simp only [r, roStep, tokEach, Bool.and_eq_true, beq_iff_eq] at hempty
    obtain ⟨⟨_, _⟩, h3⟩ := hempty
    cases hd : buf.drop p with
    | nil => rfl
    | cons c rest => rw [hd] at h3; simp at h3
  | case2 first buf p r hne f hnone =>
    cases hd : buf.drop p with
    | nil =>
      exfalso
      cases hfirst : first with
      | false => exact hpre hfirst hd
      | true =>
        apply hne
        simp [r, roStep, tokEach, hd, hfirst]
    | cons c rest =>
      have hrest : rest = [] := by
        simp only [r, roStep, tokEach, hd] at hnone
        split at hnone
        · rename_i h; simpa using h
        · cases hnone
      have : f.text = [c] := by
        simp only [f, r, roStep, tokEach, hd, slice]
        rfl
      simp [this, hrest]
  | case3 first buf p r hne f p' hsome hguard rest ih =>
    cases hd : buf.drop p with
    | nil => simp [r, roStep, tokEach, hd] at hsome
    | cons c tl =>
      have hp' : p' = p + 1 ∧ tl ≠ [] := by
        simp only [r, roStep, tokEach, hd] at hsome
        split at hsome
        · cases hsome
        · rename_i h; cases hsome; exact ⟨rfl, by simpa using h⟩
      have hft : f.text = [c] := by
        simp only [f, r, roStep, tokEach, hd, slice]
        rfl
      have hr1 : r.1 = buf := rfl
      have htl : buf.drop p' = tl := by
        rw [hp'.1, ← List.drop_drop, hd]; rfl
      have := ih (by rw [hr1]; exact hb) hguard.2 (fun _ => by rw [hr1, htl]; exact hp'.2)
      show f.text :: rest.2.map Fld.text = _
      rw [hft, this, hr1, htl]; rfl
  | case4 first buf p r hne f p' hsome hguard =>
    exfalso
    have := (roStep_ok tokEach n (fun line p hl hp => by subst hl; exact tokEach_ok line p hp)
      buf p hb hp).2.2.next_gt p' hsome
    exact hguard this

/-! ## the fields of a split are non-overlapping pieces, in order -/

/-- spans in increasing order, none starting before `lo` or before the end of the previous one -/
def InOrder : Nat → List Fld → Prop
  | _, [] => True
  | lo, f :: fs => lo ≤ f.off ∧ InOrder (f.off + f.len) fs

theorem inOrder_mono (fs : List Fld) (lo lo' : Nat) (h : lo' ≤ lo) (hs : InOrder lo fs) :
    InOrder lo' fs := by
  cases fs with
  | nil => trivial
  | cons f fs => exact ⟨Nat.le_trans h hs.1, hs.2⟩

theorem splitLoop_inOrder (step : Step) (n : Nat) (hs : StepOK step n) (first : Bool) (buf : Str)
    (p : Nat) (hb : buf.length = n) (hp : p ≤ n) :
    InOrder p (splitLoop step n first buf p).2 := by
  fun_induction splitLoop step n first buf p with
  | case1 => trivial
  | case2 first buf p r hne f hnone =>
    obtain ⟨a, b, c⟩ := hs buf p hb hp
    exact ⟨c.le_off, trivial⟩
  | case3 first buf p r hne f p' hsome hguard rest ih =>
    obtain ⟨a, b, c⟩ := hs buf p hb hp
    exact ⟨c.le_off, inOrder_mono _ _ _ (c.next_ge p' hsome) (ih a hguard.2)⟩
  | case4 first buf p r hne f p' hsome hguard =>
    obtain ⟨a, b, c⟩ := hs buf p hb hp
    exact ⟨c.le_off, trivial⟩

end Hawk.Rec
