import HawkModel.Deparse
import HawkModel.Gen.Keywords
/-!
  Statement level of the hawk deparser and parser (token level, on top of `HawkModel/Deparse.lean`).

  * `Stmt` / `StmtL`   statement trees: the node kinds lib/tree.c `print_stmt` switches over (NULL, BLK with its
                       `org_nlcls` count - `outer_nlcls` is threaded, as the parser computes it -, IF with and without else,
                       WHILE, DOWHILE, FOR, FORIN, BREAK, CONTINUE, RETURN, EXIT/@abort, NEXT, NEXTFILE/NEXTOFILE, DELETE,
                       RESET, PRINT/PRINTF with argument list and redirection, expression statement).
  * `printS`           `print_stmt`, case by case: tabs, keyword (spelling from the generated `kwtab`), blanks, braces,
                       semicolons and newlines exactly as the C writes them; `renderS` = the text, `toksS` = its tokens.
  * `parseStmt`        lib/parse.c `parse_statement` / `parse_statement_nb` / `parse_block` / `parse_if` / `parse_while` /
                       `parse_for` / `parse_dowhile` / `parse_return` / `parse_exit` / `parse_delete` / `parse_print`
                       for that sub-language; expressions by `parseLv ladder` (parse_expr_withdc).
  Not modelled: getline in all forms (HAWK_NDE_GETLINE is an expression node; the expression model answers
  `unsupported`), @include, the top level (globals, functions, BEGIN/pattern/END chains), regular expression literals.
-/
namespace Hawk.Deparse
open Hawk.Gen.Precedence Hawk.Gen.Keywords

/-- hawk_out_type_t without CONSOLE -/
inductive Redir where
  | pipe | rwpipe | file | apfile
deriving DecidableEq, Repr

def Redir.cname : Redir → String
  | .pipe => "PIPE" | .rwpipe => "RWPIPE" | .file => "FILE" | .apfile => "APFILE"

/-- print_outop_str[out_type] (generated table) -/
def Redir.str (r : Redir) : String := (printOutop.lookup r.cname).getD "?"

mutual
inductive Stmt where
  | null
  | blk (nl : Nat) (body : StmtL)
  | ift (c : Ast) (t : Stmt)
  | ife (c : Ast) (t e : Stmt)
  | whl (c : Ast) (b : Stmt)
  | dowhl (b : Stmt) (c : Ast)
  | for_ (i t u : Option Ast) (b : Stmt)
  | forin (x : Ast) (b : Stmt)
  | brk
  | cont
  | ret (v : Option Ast)
  | exit_ (abort : Bool) (v : Option Ast)
  | next
  | nextfile (out : Bool)
  | del (v : Ast)
  | reset (v : Ast)
  | prt (f : Bool) (args : AstL) (out : Option (Redir × Ast))
  | expr (e : Ast)
inductive StmtL where
  | nil
  | cons (s : Stmt) (t : StmtL)
end

def Stmt.isBlk : Stmt → Bool
  | .blk _ _ => true
  | _ => false

/-- parse_block drops null statements and blocks with an empty body from a block body -/
def Stmt.dropped : Stmt → Bool
  | .null => true
  | .blk _ .nil => true
  | _ => false

/-! ### the printer -/

/-- printed item of a statement: an item of an expression (token or blank), a newline, a tab -/
inductive SP where
  | p (x : PT)
  | nl
  | tab
deriving DecidableEq, Repr

/-- the spelling of a keyword: hawk_getkwname = the entry of kwtab[] (generated) -/
def kwSpelling (k : TK) : String :=
  match kwtab.find? (fun e => e.2 == k) with
  | some e => e.1
  | none => "?"

def kwTok (k : TK) : Tok := { k := k, s := kwSpelling k }
def kw (k : TK) : SP := .p (.t (kwTok k))
def sym (s : String) : SP := .p (.t (symTok s))
def blank : SP := .p .sp
def tabs (d : Nat) : List SP := List.replicate d .tab
def ex (a : Ast) : List SP := (printP a).map .p

/-- print_operand: an assignment is enclosed in parentheses -/
def opndP (a : Ast) : List PT := if a.isAss then [.t tLP] ++ printP a ++ [.t tRP] else printP a
def opx (a : Ast) : List SP := (opndP a).map .p

def lclTok (i : Nat) : Tok := { k := .IDENT, s := "__l" ++ toString i }

/-- `__l<outer>, __l<outer+1>, ...` (`n` names) -/
def lclList (outer : Nat) : Nat → List SP
  | 0 => []
  | 1 => [.p (.t (lclTok outer))]
  | n + 2 => [.p (.t (lclTok outer)), sym ",", blank] ++ lclList (outer + 1) (n + 1)

/-- print_printx: the arguments, by print_operand, separated by `,` -/
def argList : AstL → List SP
  | .nil => []
  | .cons a .nil => opx a
  | .cons a (.cons b t) => opx a ++ [sym ","] ++ argList (.cons b t)

def optEx : Option Ast → List SP
  | none => []
  | some a => ex a

mutual
/-- print_stmt (`outer` = number of locals declared in the enclosing blocks, `d` = depth) -/
def printS (outer d : Nat) : Stmt → List SP
  | .null => tabs d ++ [sym ";", .nl]
  | .blk nl body =>
    tabs d ++ [sym "{", .nl]
      ++ (if nl > 0 then tabs (d + 1) ++ [kw .XLOCAL, blank] ++ lclList outer nl ++ [sym ";", .nl] else [])
      ++ printSL (outer + nl) (d + 1) body ++ tabs d ++ [sym "}", .nl]
  | .ift c t =>
    tabs d ++ [kw .IF, blank, sym "("] ++ ex c ++ [sym ")", .nl] ++ printS outer (if t.isBlk then d else d + 1) t
  | .ife c t e =>
    tabs d ++ [kw .IF, blank, sym "("] ++ ex c ++ [sym ")", .nl] ++ printS outer (if t.isBlk then d else d + 1) t
      ++ tabs d ++ [kw .ELSE, .nl] ++ printS outer (if e.isBlk then d else d + 1) e
  | .whl c b =>
    tabs d ++ [kw .WHILE, blank, sym "("] ++ ex c ++ [sym ")", .nl] ++ printS outer (if b.isBlk then d else d + 1) b
  | .dowhl b c =>
    tabs d ++ [kw .DO, .nl] ++ printS outer (if b.isBlk then d else d + 1) b
      ++ tabs d ++ [kw .WHILE, blank, sym "("] ++ ex c ++ [sym ")", sym ";", .nl]
  | .for_ i t u b =>
    tabs d ++ [kw .FOR, blank, sym "("] ++ optEx i ++ [sym ";", blank] ++ optEx t ++ [sym ";", blank] ++ optEx u ++ [sym ")", .nl]
      ++ printS outer (if b.isBlk then d else d + 1) b
  | .forin x b =>
    tabs d ++ [kw .FOR, blank] ++ ex x ++ [.nl] ++ printS outer (if b.isBlk then d else d + 1) b
  | .brk => tabs d ++ [kw .BREAK, sym ";", .nl]
  | .cont => tabs d ++ [kw .CONTINUE, sym ";", .nl]
  | .ret none => tabs d ++ [kw .RETURN, sym ";", .nl]
  | .ret (some v) => tabs d ++ [kw .RETURN, blank] ++ ex v ++ [sym ";", .nl]
  | .exit_ ab none => tabs d ++ [kw (if ab then .XABORT else .EXIT), sym ";", .nl]
  | .exit_ ab (some v) => tabs d ++ [kw (if ab then .XABORT else .EXIT), blank] ++ ex v ++ [sym ";", .nl]
  | .next => tabs d ++ [kw .NEXT, sym ";", .nl]
  | .nextfile out => tabs d ++ [kw (if out then .NEXTOFILE else .NEXTFILE), sym ";", .nl]
  | .del v => tabs d ++ [kw .DELETE, blank] ++ ex v ++ [sym ";", .nl]
  | .reset v => tabs d ++ [kw .XRESET, blank] ++ ex v ++ [sym ";", .nl]
  | .prt f args out =>
    tabs d ++ [kw (if f then .PRINTF else .PRINT)]
      ++ (match args with | .nil => [] | .cons a t => blank :: argList (.cons a t))
      ++ (match out with | none => [] | some (r, o) => [blank, sym r.str, blank] ++ opx o)
      ++ [sym ";", .nl]
  | .expr e => tabs d ++ ex e ++ [sym ";", .nl]
/-- print_stmts -/
def printSL (outer d : Nat) : StmtL → List SP
  | .nil => []
  | .cons s t => printS outer d s ++ printSL outer d t
end

def nlTok : Tok := { k := .NEWLINE, s := "\n" }

def toksS : List SP → List Tok
  | [] => []
  | .p (.t x) :: r => x :: toksS r
  | .p .sp :: r => toksS r
  | .nl :: r => nlTok :: toksS r
  | .tab :: r => toksS r

def renderS : List SP → String
  | [] => ""
  | .p (.t x) :: r => x.s ++ renderS r
  | .p .sp :: r => " " ++ renderS r
  | .nl :: r => "\n" ++ renderS r
  | .tab :: r => "\t" ++ renderS r

/-! ### the parser -/

abbrev SRes := Except Err (Stmt × List Tok)

/-- `while (MATCH(hawk,TOK_NEWLINE)) get_token` -/
def dropNl : List Tok → List Tok
  | [] => []
  | t :: r => if t.k == .NEWLINE then dropNl r else t :: r

/-- parse_expr_withdc on the rest of the input -/
def pExpr (ts : List Tok) : Res := parseLv ladder (ts.length + 1) ladder ts

/-- MATCH_TERMINATOR -/
def isTermK (k : TK) : Bool := k == .NEWLINE || k == .SEMICOLON || k == .RBRACE

/-- the end of parse_statement_nb: a newline or semicolon is consumed, a right brace is left alone -/
def endStmt (x : Stmt) (ts : List Tok) : SRes :=
  match ts with
  | t :: r => if t.k == .NEWLINE || t.k == .SEMICOLON then .ok (x, r) else if t.k == .RBRACE then .ok (x, ts) else .error .syntax
  | [] => .error .syntax

/-- parse_return / parse_exit: no value before a terminator -/
def optVal (ts : List Tok) : Except Err (Option Ast × List Tok) :=
  match ts with
  | t :: _ =>
    if isTermK t.k then .ok (none, ts) else
    match pExpr ts with
    | .error e => .error e
    | .ok (a, r) => .ok (some a, r)
  | [] => .error .syntax

/-- collect_locals: `name (, name)* ;` -/
def collectLocals : Nat → List Tok → Nat → Except Err (Nat × List Tok)
  | 0, _, _ => .error .fuel
  | n + 1, ts, cnt =>
    match ts with
    | a :: b :: r =>
      if a.k != .IDENT then .error .syntax
      else if b.k == .SEMICOLON then .ok (cnt + 1, r)
      else if b.k == .COMMA then collectLocals n (dropNl r) (cnt + 1)
      else .error .syntax
    | _ => .error .syntax

/-- the declaration loop of parse_block: `@local ...;` lines, newlines skipped -/
def blockLocals : Nat → List Tok → Nat → Except Err (Nat × List Tok)
  | 0, _, _ => .error .fuel
  | n + 1, ts, cnt =>
    match dropNl ts with
    | t :: r =>
      if t.k == .XLOCAL then
        match collectLocals n r cnt with
        | .error e => .error e
        | .ok (c, r') => blockLocals n r' c
      else .ok (cnt, t :: r)
    | [] => .ok (cnt, [])

/-- does the token list `(` … end with the parenthesis that closes the first one?  (`d` = open parentheses so far;
    parse_print: `ptok` is a TOK_FLAGS_LPAREN_CLOSER and `lparen_last_closed == opening_lparen_seq`) -/
def closesAtEnd : Nat → List Tok → Bool
  | _, [] => false
  | d, t :: r =>
    if t.k == .LPAREN then closesAtEnd (d + 1) r
    else if t.k == .RPAREN then
      match d with
      | 0 => false
      | 1 => r.isEmpty
      | d' + 2 => closesAtEnd (d' + 1) r
    else closesAtEnd d r

/-- the tokens an expression consumed -/
def consumed (ts rest : List Tok) : List Tok := ts.take (ts.length - rest.length)

def inParens (ts rest : List Tok) : Bool :=
  match consumed ts rest with
  | t :: r => t.k == .LPAREN && closesAtEnd 1 r
  | [] => false

/-- parse_print's table `tab[]`: the binary operator that is taken for a redirection -/
def redirOfBin : BinOp → Option Redir
  | .GT => some .file
  | .RS => some .apfile
  | .BOR => some .pipe
  | .LOR => if rwpipe then some .rwpipe else none
  | _ => none

def redirOfTok (k : TK) : Option Redir :=
  if k == .GT then some .file else if k == .RS then some .apfile else if k == .BOR then some .pipe
  else if rwpipe && k == .LOR then some .rwpipe else none

/-- the 2nd and later arguments of print: returns them, and for the last one whether it is confirmed in parentheses -/
def printMore : Nat → List Tok → Except Err (AstL × Bool × List Tok)
  | 0, _ => .error .fuel
  | n + 1, ts =>
    match ts with
    | c :: r =>
      if c.k != .COMMA then .ok (.nil, false, ts) else
      let r1 := dropNl r
      match pExpr r1 with
      | .error e => .error e
      | .ok (a, r2) =>
        match printMore n r2 with
        | .error e => .error e
        | .ok (.nil, _, r3) => .ok (.cons a .nil, inParens r1 r2, r3)
        | .ok (l, gm, r3) => .ok (.cons a l, gm, r3)
    | [] => .ok (.nil, false, ts)

/-- the last argument split at a redirection operator -/
def splitLast : AstL → Option (AstL × Redir × Ast)
  | .nil => none
  | .cons (.bin op l r) .nil =>
    match redirOfBin op with
    | some rd => some (.cons l .nil, rd, r)
    | none => none
  | .cons _ .nil => none
  | .cons a (.cons b t) =>
    match splitLast (.cons b t) with
    | some (l, rd, o) => some (.cons a l, rd, o)
    | none => none

def isGrp : Ast → Bool
  | .grp _ => true
  | _ => false

/-- parse_print's `in_parens == 2`: the first argument is the only one and it is confirmed in parentheses -/
def inpFlag (l : AstL) (ts r1 : List Tok) : Bool :=
  match l with
  | .nil => inParens ts r1
  | _ => false

/-- parse_print (the token after `print` / `printf` is the head of `ts`) -/
def parsePrint (f : Bool) (ts : List Tok) : SRes :=
  let noArgs : Bool := match ts with
    | t :: _ => isTermK t.k || (redirOfTok t.k).isSome || t.k == .LOR
    | [] => true
  let step1 : Except Err (AstL × Option (Redir × Ast) × List Tok) :=
    if noArgs then .ok (.nil, none, ts) else
    match pExpr ts with
    | .error e => .error e
    | .ok (a, r1) =>
      let more : Except Err (AstL × Bool × List Tok) := if isGrp a then .ok (.nil, false, r1) else printMore (r1.length + 1) r1
      match more with
      | .error e => .error e
      | .ok (l, gm, r2) =>
        let args := AstL.cons a l
        let inp : Bool := inpFlag l ts r1
        if !inp && !gm then
          match splitLast args with
          | some (args', rd, o) => .ok (args', some (rd, o), r2)
          | none => .ok (args, none, r2)
        else .ok (args, none, r2)
  match step1 with
  | .error e => .error e
  | .ok (args, out, r) =>
    let step2 : Except Err (Option (Redir × Ast) × List Tok) :=
      match out with
      | some o => .ok (some o, r)
      | none =>
        match r with
        | t :: r' =>
          match redirOfTok t.k with
          | some rd =>
            match pExpr r' with
            | .error e => .error e
            | .ok (o, r'') => .ok (some (rd, o), r'')
          | none => .ok (none, r)
        | [] => .ok (none, r)
    match step2 with
    | .error e => .error e
    | .ok (out', r') =>
      match f, args with
      | true, .nil => .error .syntax
      | _, _ => endStmt (.prt f args out') r'

/-- parse_delete: optional parentheses, parse_primary_ident, a variable (plain for @reset) -/
def parseDelete (rs : Bool) (r : List Tok) : SRes :=
  let (inp, r0) : Bool × List Tok := match r with
    | lp :: r' => if lp.k == .LPAREN then (true, r') else (false, r)
    | [] => (false, r)
  match r0 with
  | t :: r1 =>
    if t.k != .IDENT then .error .syntax else
    match primNoPipe ladder (r1.length + 1) .IDENT t r1 with
    | .error e => .error e
    | .ok (v, r2) =>
      let okv : Bool := match v with | .var _ => true | .idx _ _ => !rs | _ => false
      if !okv then .error .notvar else
      if inp then
        match r2 with
        | rp :: r3 => if rp.k != .RPAREN then .error .rparen else endStmt (if rs then .reset v else .del v) r3
        | [] => .error .rparen
      else endStmt (if rs then .reset v else .del v) r2
  | [] => .error .syntax


def isForinHead : Ast → Bool
  | .bin .IN l _ => l.isVar
  | _ => false

/-- parse_for: the init part, or the head of for-in (`no_forin` = the part starts with a parenthesis) -/
def forHead (r1 : List Tok) : Except Err (Option Ast × Bool × List Tok) :=
  if headIs .SEMICOLON r1 then .ok (none, false, r1) else
  match pExpr r1 with
  | .error e => .error e
  | .ok (i, r2) => .ok (some i, !headIs .LPAREN r1 && isForinHead i, r2)

/-- parse_for: the test (before `;`) and the increment (before `)`) may be empty -/
def forOpt (stop : TK) (r : List Tok) : Except Err (Option Ast × List Tok) :=
  if headIs stop r then .ok (none, r) else
  match pExpr r with
  | .error e => .error e
  | .ok (a, r') => .ok (some a, r')

mutual
/-- parse_statement (newlines before a statement are skipped) -/
def parseStmt (n outer : Nat) (ts0 : List Tok) : SRes :=
  match n with
  | 0 => .error .fuel
  | n + 1 =>
    match dropNl ts0 with
    | [] => .error .syntax
    | t :: r =>
      match t.k with
      | .SEMICOLON => .ok (.null, r)
      | .LBRACE =>
        -- parse_block: declarations, then the body up to the right brace
        match blockLocals (r.length + 1) r 0 with
        | .error e => .error e
        | .ok (nl, r1) =>
          match parseBody n (outer + nl) r1 with
          | .error e => .error e
          | .ok (body, r2) => .ok (.blk nl body, r2)
      | .IF =>
        -- parse_if (an else-if arm is the statement after `else`; the C loops instead of recursing)
        match r with
        | lp :: r1 =>
          if lp.k != .LPAREN then .error .syntax else
          match pExpr r1 with
          | .error e => .error e
          | .ok (c, r2) =>
            match r2 with
            | rp :: r3 =>
              if rp.k != .RPAREN then .error .rparen else
              match parseStmt n outer r3 with
              | .error e => .error e
              | .ok (th, r4) =>
                match dropNl r4 with
                | el :: r5 =>
                  if el.k == .ELSE then
                    match parseStmt n outer r5 with
                    | .error e => .error e
                    | .ok (els, r6) => .ok (.ife c th els, r6)
                  else .ok (.ift c th, el :: r5)
                | [] => .ok (.ift c th, [])
            | [] => .error .rparen
        | [] => .error .syntax
      | .WHILE =>
        match r with
        | lp :: r1 =>
          if lp.k != .LPAREN then .error .syntax else
          match pExpr r1 with
          | .error e => .error e
          | .ok (c, r2) =>
            match r2 with
            | rp :: r3 =>
              if rp.k != .RPAREN then .error .rparen else
              match parseStmt n outer r3 with
              | .error e => .error e
              | .ok (b, r4) => .ok (.whl c b, r4)
            | [] => .error .rparen
        | [] => .error .syntax
      | .DO =>
        match parseStmt n outer r with
        | .error e => .error e
        | .ok (b, r1) =>
          match dropNl r1 with
          | w :: lp :: r2 =>
            if w.k != .WHILE || lp.k != .LPAREN then .error .syntax else
            match pExpr r2 with
            | .error e => .error e
            | .ok (c, r3) =>
              match r3 with
              | rp :: r4 => if rp.k != .RPAREN then .error .rparen else endStmt (.dowhl b c) r4
              | [] => .error .rparen
          | _ => .error .syntax
      | .FOR =>
        match r with
        | lp :: r1 =>
          if lp.k != .LPAREN then .error .syntax else
          match forHead r1 with
          | .error e => .error e
          | .ok (some i, true, r2) =>
            match r2 with
            | rp :: r3 =>
              if rp.k != .RPAREN then .error .rparen else
              match parseStmt n outer r3 with
              | .error e => .error e
              | .ok (b, r4) => .ok (.forin i b, r4)
            | [] => .error .rparen
          | .ok (i, _, r2) =>
            match r2 with
            | s1 :: r3 =>
              if s1.k != .SEMICOLON then .error .syntax else
              match forOpt .SEMICOLON (dropNl r3) with
              | .error e => .error e
              | .ok (t', r5) =>
                match r5 with
                | s2 :: r6 =>
                  if s2.k != .SEMICOLON then .error .syntax else
                  match forOpt .RPAREN (dropNl r6) with
                  | .error e => .error e
                  | .ok (u, r8) =>
                    match r8 with
                    | rp :: r9 =>
                      if rp.k != .RPAREN then .error .rparen else
                      match parseStmt n outer r9 with
                      | .error e => .error e
                      | .ok (b, r10) => .ok (.for_ i t' u b, r10)
                    | [] => .error .rparen
                | [] => .error .syntax
            | [] => .error .syntax
        | [] => .error .syntax
      | .BREAK => endStmt .brk r
      | .CONTINUE => endStmt .cont r
      | .RETURN =>
        match optVal r with
        | .error e => .error e
        | .ok (v, r1) => endStmt (.ret v) r1
      | .EXIT =>
        match optVal r with
        | .error e => .error e
        | .ok (v, r1) => endStmt (.exit_ false v) r1
      | .XABORT =>
        match optVal r with
        | .error e => .error e
        | .ok (v, r1) => endStmt (.exit_ true v) r1
      | .NEXT => endStmt .next r
      | .NEXTFILE => endStmt (.nextfile false) r
      | .NEXTOFILE => endStmt (.nextfile true) r
      | .DELETE => parseDelete false r
      | .XRESET => parseDelete true r
      | .PRINT => parsePrint false r
      | .PRINTF => parsePrint true r
      | _ =>
        match pExpr (t :: r) with
        | .error e => .error e
        | .ok (a, r1) => endStmt (.expr a) r1
/-- the body loop of parse_block -/
def parseBody (n outer : Nat) (ts : List Tok) : Except Err (StmtL × List Tok) :=
  match n with
  | 0 => .error .fuel
  | n + 1 =>
    match dropNl ts with
    | [] => .error .syntax
    | t :: r =>
      if t.k == .RBRACE then .ok (.nil, r) else
      match parseStmt n outer (t :: r) with
      | .error e => .error e
      | .ok (s, r1) =>
        match parseBody n outer r1 with
        | .error e => .error e
        | .ok (l, r2) => .ok (if s.dropped then l else .cons s l, r2)
end
/-- a whole `{ ... }` text: the block, nothing but newlines after it -/
def parseBlockText (ts : List Tok) : Except Err Stmt :=
  match parseStmt (ts.length + 1) 0 ts with
  | .error e => .error e
  | .ok (s, r) => if (dropNl r).isEmpty then .ok s else .error .syntax

/-! ### the top level: lib/parse.c `deparse` / `deparse_func` and `parse_progunit` -/

/-- program units as `deparse` writes them: the `@global` line (`n` globals numbered from `b` = `tree.ngbls_base`), a function
    (`np` parameters `__p0 ...`; by-reference marks and `...` are not modelled), BEGIN / END blocks, a pattern-less action,
    a pattern or a range of two with or without an action -/
inductive Item where
  | glob (b n : Nat)
  | func (name : String) (np : Nat) (body : Stmt)
  | begin_ (body : Stmt)
  | end_ (body : Stmt)
  | act (body : Stmt)
  | pat (p : Ast) (q : Option Ast) (act : Option Stmt)

def canonTok (pre : String) (i : Nat) : Tok := { k := .IDENT, s := pre ++ toString i }

/-- `<pre><b>, <pre><b+1>, ...` (`n` names) -/
def canonList (pre : String) (b : Nat) : Nat → List SP
  | 0 => []
  | 1 => [.p (.t (canonTok pre b))]
  | n + 2 => [.p (.t (canonTok pre b)), sym ",", blank] ++ canonList pre (b + 1) (n + 1)

/-- hawk_prnptnpt: the second pattern of a range after a comma -/
def printSecond : Option Ast → List SP
  | none => []
  | some q => sym "," :: ex q

/-- a unit without an action ends the line (and the empty line follows); else a blank and the action block -/
def printAct : Option Stmt → List SP
  | none => [.nl, .nl]
  | some b => blank :: (printS 0 0 b ++ [.nl])

/-- `deparse` (one unit) -/
def printItem : Item → List SP
  | .glob b n => [kw .XGLOBAL, blank] ++ canonList "__g" b n ++ [sym ";", .nl, .nl]
  | .func name np body =>
    [kw .FUNCTION, blank, .p (.t { k := .IDENT, s := name }), blank, sym "("] ++ canonList "__p" 0 np ++ [sym ")", .nl]
      ++ printS 0 0 body ++ [.nl]
  | .begin_ body => [kw .BEGIN, blank] ++ printS 0 0 body ++ [.nl]
  | .end_ body => [kw .END, blank] ++ printS 0 0 body      -- (the newline after an END block is commented out in deparse)
  | .act body => printS 0 0 body ++ [.nl]
  | .pat p q a => ex p ++ printSecond q ++ printAct a

def printProg : List Item → List SP
  | [] => []
  | i :: r => printItem i ++ printProg r

/-- the parameter list of parse_function after `(`: `)` or `name (, name)* )` -/
def collectParams : Nat → List Tok → Nat → Except Err (Nat × List Tok)
  | 0, _, _ => .error .fuel
  | n + 1, ts, cnt =>
    match ts with
    | a :: b :: r =>
      if a.k != .IDENT then .error .syntax
      else if b.k == .RPAREN then .ok (cnt + 1, r)
      else if b.k == .COMMA then collectParams n (dropNl r) (cnt + 1)
      else .error .syntax
    | _ => .error .syntax

/-- parse_progunit, pattern case: an optional second pattern after a comma -/
def patSecond (r1 : List Tok) : Except Err (Option Ast × List Tok) :=
  if headIs .COMMA r1 then
    match pExpr r1.tail with
    | .error e => .error e
    | .ok (q, r2) => .ok (some q, r2)
  else .ok (none, r1)

/-- parse_progunit, pattern case: no action before a newline / semicolon / the end, else the action block -/
def patTail (n : Nat) (p : Ast) (q : Option Ast) (r2 : List Tok) : Except Err (Item × List Tok) :=
  match r2 with
  | [] => .ok (.pat p q none, [])
  | u :: r3 =>
    if u.k == .NEWLINE || u.k == .SEMICOLON then .ok (.pat p q none, r3)
    else if u.k != .LBRACE then .error .syntax
    else
      match parseStmt n 0 (u :: r3) with
      | .error e => .error e
      | .ok (b, r4) => .ok (.pat p q (some b), r4)

/-- one turn of parse_progunit (`gb` = number of built-in globals; the head of `ts` is not a newline) -/
def parseItem (n gb : Nat) (ts : List Tok) : Except Err (Item × List Tok) :=
  match ts with
  | [] => .error .syntax
  | t :: r =>
    match t.k with
    | .XGLOBAL =>
      match collectLocals (r.length + 1) r 0 with
      | .error e => .error e
      | .ok (cnt, r') => .ok (.glob gb cnt, r')
    | .FUNCTION =>
      match r with
      | nm :: lp :: r1 =>
        if nm.k != .IDENT || lp.k != .LPAREN then .error .syntax else
        let ps : Except Err (Nat × List Tok) :=
          match r1 with
          | rp :: r2 => if rp.k == .RPAREN then .ok (0, r2) else collectParams (r1.length + 1) r1 0
          | [] => .error .syntax
        match ps with
        | .error e => .error e
        | .ok (np, r2) =>
          match dropNl r2 with
          | lb :: r3 =>
            if lb.k != .LBRACE then .error .syntax else
            match parseStmt n 0 (lb :: r3) with
            | .error e => .error e
            | .ok (b, r4) => .ok (.func nm.s np b, r4)
          | [] => .error .syntax
      | _ => .error .syntax
    | .BEGIN =>
      if !headIs .LBRACE r then .error .syntax else
      match parseStmt n 0 r with
      | .error e => .error e
      | .ok (b, r1) => .ok (.begin_ b, r1)
    | .END =>
      if !headIs .LBRACE r then .error .syntax else
      match parseStmt n 0 r with
      | .error e => .error e
      | .ok (b, r1) => .ok (.end_ b, r1)
    | .LBRACE =>
      match parseStmt n 0 (t :: r) with
      | .error e => .error e
      | .ok (b, r1) => .ok (.act b, r1)
    | _ =>
      match pExpr (t :: r) with
      | .error e => .error e
      | .ok (p, r1) =>
        match patSecond r1 with
        | .error e => .error e
        | .ok (q, r2) => patTail n p q r2

/-- the loop around parse_progunit: newlines (and a stray `;`) between the units are skipped -/
def parseProg : Nat → Nat → List Tok → Except Err (List Item)
  | 0, _, _ => .error .fuel
  | n + 1, gb, ts =>
    match dropNl ts with
    | [] => .ok []
    | t :: r =>
      match parseItem n gb (t :: r) with
      | .error e => .error e
      | .ok (i, r1) =>
        match parseProg n gb r1 with
        | .error e => .error e
        | .ok l => .ok (i :: l)

end Hawk.Deparse
