import HawkModel.Xma
/-! helper lemmas for the C20 proofs (core Lean only) -/
namespace Hawk.Xma

/-! ### constants: what the proofs need from the extracted layout -/

theorem consts_ok :
    0 < HDR ∧ 0 < ALIGN ∧ HDR % ALIGN = 0 ∧ MINALLOC % ALIGN = 0 ∧ 0 < MINALLOC ∧ MINALLOC ≤ ALIGN ∧
    FBLKMIN = HDR + MINALLOC ∧ FBLKMIN % ALIGN = 0 ∧ 0 < NCLS ∧ FIXED < NCLS := by decide

theorem HDR_pos : 0 < HDR := by decide

/-! ### total / append -/

@[simp] theorem total_nil : total [] = 0 := rfl
@[simp] theorem total_cons (b : Blk) (r : List Blk) : total (b :: r) = HDR + b.size + total r := rfl

@[simp] theorem total_append (A B : List Blk) : total (A ++ B) = total A + total B := by
  induction A with
  | nil => simp
  | cons a A ih => simp [ih]; omega

@[simp] theorem total_setPrevHd (v : Nat) (l : List Blk) : total (setPrevHd v l) = total l := by
  cases l <;> simp [setPrevHd]

/-! ### findBlk -/

theorem findBlk_spec (o : Nat) : ∀ (l : List Blk) (cur : Nat) (rp rp' : List Blk) (b : Blk) (q : List Blk),
    findBlk o cur rp l = some (rp', b, q) →
    ∃ p, l = p ++ b :: q ∧ rp' = p.reverse ++ rp ∧ cur + total p = o := by
  intro l
  induction l with
  | nil => intro cur rp rp' b q h; simp [findBlk] at h
  | cons a l ih =>
    intro cur rp rp' b q h
    unfold findBlk at h
    split at h
    · rename_i hc
      simp only [Option.some.injEq, Prod.mk.injEq] at h
      obtain ⟨h1, h2, h3⟩ := h
      exact ⟨[], by simp [h2, h3], by simp [h1], by simpa using hc⟩
    · split at h
      · simp at h
      · obtain ⟨p, hp1, hp2, hp3⟩ := ih _ _ _ _ _ h
        refine ⟨a :: p, by simp [hp1], by simp [hp2], ?_⟩
        simp; omega

/-- the decomposition delivered by a successful lookup from the zone start -/
theorem findBlk_split {o : Nat} {l rp : List Blk} {b : Blk} {q : List Blk}
    (h : findBlk o 0 [] l = some (rp, b, q)) : l = rp.reverse ++ b :: q ∧ total rp.reverse = o := by
  obtain ⟨p, h1, h2, h3⟩ := findBlk_spec o l 0 [] rp b q h
  simp at h2
  subst h2
  simp at h3 ⊢
  exact ⟨h1, h3⟩

/-! ### ChainOK -/

def lastSz (ps : Nat) : List Blk → Nat
  | [] => ps
  | b :: r => lastSz b.size r

def lastFr (pf : Bool) : List Blk → Bool
  | [] => pf
  | b :: r => lastFr b.free r

@[simp] theorem lastSz_nil (ps : Nat) : lastSz ps [] = ps := rfl
@[simp] theorem lastSz_cons (ps : Nat) (b : Blk) (r : List Blk) : lastSz ps (b :: r) = lastSz b.size r := rfl
@[simp] theorem lastFr_nil (pf : Bool) : lastFr pf [] = pf := rfl
@[simp] theorem lastFr_cons (pf : Bool) (b : Blk) (r : List Blk) : lastFr pf (b :: r) = lastFr b.free r := rfl

@[simp] theorem lastSz_append_cons (ps : Nat) (A : List Blk) (b : Blk) (r : List Blk) :
    lastSz ps (A ++ b :: r) = lastSz b.size r := by
  induction A generalizing ps with
  | nil => rfl
  | cons a A ih => simp [ih]

@[simp] theorem lastFr_append_cons (pf : Bool) (A : List Blk) (b : Blk) (r : List Blk) :
    lastFr pf (A ++ b :: r) = lastFr b.free r := by
  induction A generalizing pf with
  | nil => rfl
  | cons a A ih => simp [ih]

theorem chainOK_append (A B : List Blk) (c ps : Nat) (pf : Bool) :
    ChainOK c ps pf (A ++ B) ↔ ChainOK c ps pf A ∧ ChainOK (c + total A) (lastSz ps A) (lastFr pf A) B := by
  induction A generalizing c ps pf with
  | nil => simp [ChainOK]
  | cons a A ih =>
    have e : c + HDR + a.size + total A = c + (HDR + a.size + total A) := by omega
    simp [ChainOK, ih, and_assoc, e]

/-- the suffix after a rewritten segment: its head gets the new predecessor size -/
theorem chainOK_setPrevHd {c c' a v : Nat} {f f' : Bool} {R : List Blk}
    (h : ChainOK c a f R) (hcc : c' = c) (hf : f' = true → f = true ∨ ∀ y ∈ R.head?, y.free = false) :
    ChainOK c' v f' (setPrevHd v R) := by
  subst hcc
  cases R with
  | nil => simp [setPrevHd, ChainOK]
  | cons y R =>
    simp only [setPrevHd, ChainOK] at h ⊢
    obtain ⟨h1, h2, h3, h4, h5⟩ := h
    refine ⟨trivial, ?_, h3, h4, h5⟩
    intro ⟨hf', hy⟩
    rcases hf hf' with h | h
    · exact h2 ⟨h, hy⟩
    · simp [hy] at h

/-! ### freeOffs / liveOffs -/

@[simp] theorem freeOffs_nil (c : Nat) : freeOffs c [] = [] := rfl
@[simp] theorem liveOffs_nil (c : Nat) : liveOffs c [] = [] := rfl

theorem freeOffs_cons (c : Nat) (b : Blk) (r : List Blk) :
    freeOffs c (b :: r) = (if b.free then [(c, b.size)] else []) ++ freeOffs (c + HDR + b.size) r := by
  simp only [freeOffs]; split <;> simp

theorem liveOffs_cons (c : Nat) (b : Blk) (r : List Blk) :
    liveOffs c (b :: r) = (if b.free then [] else [(c, b.size, b.data)]) ++ liveOffs (c + HDR + b.size) r := by
  simp only [liveOffs]; split <;> simp

theorem freeOffs_append (A B : List Blk) (c : Nat) :
    freeOffs c (A ++ B) = freeOffs c A ++ freeOffs (c + total A) B := by
  induction A generalizing c with
  | nil => simp
  | cons a A ih =>
    have e : c + HDR + a.size + total A = c + (HDR + a.size + total A) := by omega
    simp [freeOffs_cons, ih, e]

theorem liveOffs_append (A B : List Blk) (c : Nat) :
    liveOffs c (A ++ B) = liveOffs c A ++ liveOffs (c + total A) B := by
  induction A generalizing c with
  | nil => simp
  | cons a A ih =>
    have e : c + HDR + a.size + total A = c + (HDR + a.size + total A) := by omega
    simp [liveOffs_cons, ih, e]

@[simp] theorem freeOffs_setPrevHd (v c : Nat) (l : List Blk) : freeOffs c (setPrevHd v l) = freeOffs c l := by
  cases l <;> simp [setPrevHd, freeOffs]

@[simp] theorem liveOffs_setPrevHd (v c : Nat) (l : List Blk) : liveOffs c (setPrevHd v l) = liveOffs c l := by
  cases l <;> simp [setPrevHd, liveOffs]

theorem freeOffs_bounds {c : Nat} {l : List Blk} {p : Nat × Nat} (h : p ∈ freeOffs c l) :
    c ≤ p.1 ∧ p.1 + HDR + p.2 ≤ c + total l := by
  induction l generalizing c with
  | nil => simp at h
  | cons a l ih =>
    rw [freeOffs_cons] at h
    simp only [List.mem_append] at h
    rcases h with h | h
    · split at h
      · simp at h; subst h; simp; omega
      · simp at h
    · have := ih h
      simp; omega

theorem liveOffs_bounds {c : Nat} {l : List Blk} {p : Nat × Nat × List Nat} (h : p ∈ liveOffs c l) :
    c ≤ p.1 ∧ p.1 + HDR + p.2.1 ≤ c + total l := by
  induction l generalizing c with
  | nil => simp at h
  | cons a l ih =>
    rw [liveOffs_cons] at h
    simp only [List.mem_append] at h
    rcases h with h | h
    · split at h
      · simp at h
      · simp at h; subst h; simp; omega
    · have := ih h
      simp; omega


theorem freeOffs_fun {c : Nat} {l : List Blk} {o s1 s2 : Nat} (h1 : (o, s1) ∈ freeOffs c l) (h2 : (o, s2) ∈ freeOffs c l) :
    s1 = s2 := by
  induction l generalizing c with
  | nil => simp at h1
  | cons a l ih =>
    rw [freeOffs_cons] at h1 h2
    simp only [List.mem_append] at h1 h2
    have hp := HDR_pos
    rcases h1 with h1 | h1 <;> rcases h2 with h2 | h2
    · split at h1 <;> simp at h1 h2; omega
    · have := freeOffs_bounds h2
      split at h1 <;> simp at h1 this; omega
    · have := freeOffs_bounds h1
      split at h2 <;> simp at h2 this; omega
    · exact ih h1 h2

theorem freeOffs_fst_nodup (c : Nat) (l : List Blk) : ((freeOffs c l).map Prod.fst).Nodup := by
  induction l generalizing c with
  | nil => simp
  | cons a l ih =>
    rw [freeOffs_cons]
    split
    · simp only [List.singleton_append, List.map_cons, List.nodup_cons]
      refine ⟨?_, ih _⟩
      intro hm
      simp only [List.mem_map] at hm
      obtain ⟨p, hp, hpe⟩ := hm
      have := freeOffs_bounds hp
      have := HDR_pos
      omega
    · simpa using ih _

/-! ### free lists -/

theorem getxfi_lt (sz : Nat) : getxfi sz < NCLS := by
  unfold getxfi
  simp only [XFIMAX]
  have : 0 < NCLS := by decide
  split <;> split <;> omega

theorem fl_set_eq {xf : List (List Nat)} {i : Nat} (l : List Nat) (h : i < xf.length) : fl (xf.set i l) i = l := by
  simp [fl, List.getD_eq_getElem?_getD, h]

theorem fl_set_ne {xf : List (List Nat)} {i j : Nat} (l : List Nat) (h : i ≠ j) : fl (xf.set i l) j = fl xf j := by
  simp [fl, List.getD_eq_getElem?_getD, List.getElem?_set_ne h]

/-- the free lists hold, without duplicates, exactly the (offset,size) pairs described by `S`, each in the chain of its class -/
def FLInv (xf : List (List Nat)) (S : Nat → Nat → Prop) : Prop :=
  xf.length = NCLS ∧ (∀ i, (fl xf i).Nodup) ∧ ∀ i o, o ∈ fl xf i ↔ ∃ sz, S o sz ∧ getxfi sz = i

theorem FLInv.congr {xf : List (List Nat)} {S S' : Nat → Nat → Prop} (h : FLInv xf S) (e : ∀ o s, S o s ↔ S' o s) :
    FLInv xf S' := by
  obtain ⟨h1, h2, h3⟩ := h
  refine ⟨h1, h2, ?_⟩
  intro i o
  rw [h3]
  constructor
  · intro ⟨sz, a, b⟩; exact ⟨sz, (e _ _).1 a, b⟩
  · intro ⟨sz, a, b⟩; exact ⟨sz, (e _ _).2 a, b⟩

theorem FLInv.detach {xf : List (List Nat)} {S : Nat → Nat → Prop} {o sz : Nat} (h : FLInv xf S)
    (hfun : ∀ s2, S o s2 → s2 = sz) : FLInv (detach xf o sz) (fun o' s' => S o' s' ∧ o' ≠ o) := by
  obtain ⟨h1, h2, h3⟩ := h
  have hi : getxfi sz < xf.length := by rw [h1]; exact getxfi_lt sz
  refine ⟨by simp [Hawk.Xma.detach, h1], ?_, ?_⟩
  · intro j
    by_cases hj : getxfi sz = j
    · subst hj; unfold Hawk.Xma.detach; rw [fl_set_eq _ hi]; exact (h2 _).erase _
    · unfold Hawk.Xma.detach; rw [fl_set_ne _ hj]; exact h2 j
  · intro j o'
    by_cases hj : getxfi sz = j
    · subst hj; unfold Hawk.Xma.detach; rw [fl_set_eq _ hi, (h2 _).mem_erase_iff, h3]
      constructor
      · intro ⟨hne, s', a, b⟩; exact ⟨s', ⟨a, hne⟩, b⟩
      · intro ⟨s', ⟨a, hne⟩, b⟩; exact ⟨hne, s', a, b⟩
    · unfold Hawk.Xma.detach; rw [fl_set_ne _ hj, h3]
      constructor
      · intro ⟨s', a, b⟩
        refine ⟨s', ⟨a, ?_⟩, b⟩
        intro he; subst he
        have := hfun _ a; subst this; exact hj b
      · intro ⟨s', ⟨a, _⟩, b⟩; exact ⟨s', a, b⟩

theorem FLInv.attach {xf : List (List Nat)} {S : Nat → Nat → Prop} {o sz : Nat} (h : FLInv xf S)
    (hnew : ∀ s2, ¬ S o s2) : FLInv (attach xf o sz) (fun o' s' => S o' s' ∨ (o' = o ∧ s' = sz)) := by
  obtain ⟨h1, h2, h3⟩ := h
  have hi : getxfi sz < xf.length := by rw [h1]; exact getxfi_lt sz
  refine ⟨by simp [Hawk.Xma.attach, h1], ?_, ?_⟩
  · intro j
    by_cases hj : getxfi sz = j
    · subst hj; unfold Hawk.Xma.attach; rw [fl_set_eq _ hi]
      refine List.nodup_cons.2 ⟨?_, h2 _⟩
      intro hm
      obtain ⟨s', a, _⟩ := (h3 _ _).1 hm
      exact hnew _ a
    · unfold Hawk.Xma.attach; rw [fl_set_ne _ hj]; exact h2 j
  · intro j o'
    by_cases hj : getxfi sz = j
    · subst hj; unfold Hawk.Xma.attach; rw [fl_set_eq _ hi, List.mem_cons, h3]
      constructor
      · rintro (he | ⟨s', a, b⟩)
        · exact ⟨sz, Or.inr ⟨he, rfl⟩, rfl⟩
        · exact ⟨s', Or.inl a, b⟩
      · rintro ⟨s', (a | ⟨a1, a2⟩), b⟩
        · exact Or.inr ⟨s', a, b⟩
        · exact Or.inl a1
    · unfold Hawk.Xma.attach; rw [fl_set_ne _ hj, h3]
      constructor
      · intro ⟨s', a, b⟩; exact ⟨s', Or.inl a, b⟩
      · rintro ⟨s', (a | ⟨_, a2⟩), b⟩
        · exact ⟨s', a, b⟩
        · subst a2; exact absurd b hj

def detachAll (xf : List (List Nat)) (D : List (Nat × Nat)) : List (List Nat) :=
  D.foldl (fun xf p => detach xf p.1 p.2) xf

def attachAll (xf : List (List Nat)) (A : List (Nat × Nat)) : List (List Nat) :=
  A.foldl (fun xf p => attach xf p.1 p.2) xf

@[simp] theorem detachAll_nil (xf : List (List Nat)) : detachAll xf [] = xf := rfl
@[simp] theorem detachAll_cons (xf : List (List Nat)) (p : Nat × Nat) (D : List (Nat × Nat)) :
    detachAll xf (p :: D) = detachAll (detach xf p.1 p.2) D := rfl
@[simp] theorem attachAll_nil (xf : List (List Nat)) : attachAll xf [] = xf := rfl
@[simp] theorem attachAll_cons (xf : List (List Nat)) (p : Nat × Nat) (A : List (Nat × Nat)) :
    attachAll xf (p :: A) = attachAll (attach xf p.1 p.2) A := rfl

theorem FLInv.detachAll {S : Nat → Nat → Prop} (hS : ∀ o s1 s2, S o s1 → S o s2 → s1 = s2) :
    ∀ (D : List (Nat × Nat)) (xf : List (List Nat)), FLInv xf S → (∀ p ∈ D, S p.1 p.2) → (D.map Prod.fst).Nodup →
    FLInv (Hawk.Xma.detachAll xf D) (fun o s => S o s ∧ ∀ p ∈ D, p.1 ≠ o) := by
  intro D
  induction D generalizing S with
  | nil => intro xf h _ _; simpa using h
  | cons p D ih =>
    intro xf h hD hnd
    simp only [List.map_cons, List.nodup_cons, List.mem_map] at hnd
    have h1 := h.detach (o := p.1) (sz := p.2) (fun s2 hs => hS _ _ _ hs (hD p (by simp)))
    have h2 := ih (S := fun o' s' => S o' s' ∧ o' ≠ p.1) (fun o s1 s2 a b => hS o s1 s2 a.1 b.1) _ h1
      (fun q hq => ⟨hD q (by simp [hq]), fun he => hnd.1 ⟨q, hq, he⟩⟩) hnd.2
    simp only [detachAll_cons]
    refine h2.congr ?_
    intro o s
    simp only [List.mem_cons, forall_eq_or_imp]
    constructor
    · intro ⟨⟨a, b⟩, c⟩; exact ⟨a, fun he => b he.symm, c⟩
    · intro ⟨a, b, c⟩; exact ⟨⟨a, fun he => b he.symm⟩, c⟩

theorem FLInv.attachAll :
    ∀ (A : List (Nat × Nat)) (xf : List (List Nat)) (S : Nat → Nat → Prop), FLInv xf S → (∀ p ∈ A, ∀ s2, ¬ S p.1 s2) →
    (A.map Prod.fst).Nodup → FLInv (Hawk.Xma.attachAll xf A) (fun o s => S o s ∨ (o, s) ∈ A) := by
  intro A
  induction A with
  | nil => intro xf S h _ _; simpa using h
  | cons p A ih =>
    intro xf S h hA hnd
    simp only [List.map_cons, List.nodup_cons, List.mem_map] at hnd
    have h1 := h.attach (o := p.1) (sz := p.2) (hA p (by simp))
    have h2 := ih _ _ h1 (fun q hq s2 hs => by
      rcases hs with hs | ⟨hs, _⟩
      · exact hA q (by simp [hq]) s2 hs
      · exact hnd.1 ⟨q, hq, hs⟩) hnd.2
    simp only [attachAll_cons]
    refine h2.congr ?_
    intro o s
    simp only [List.mem_cons, Prod.ext_iff]
    constructor
    · rintro ((a | a) | a)
      · exact Or.inl a
      · exact Or.inr (Or.inl a)
      · exact Or.inr (Or.inr a)
    · rintro (a | a | a)
      · exact Or.inl (Or.inl a)
      · exact Or.inl (Or.inr a)
      · exact Or.inr a

/-- replacing a segment `mid` of the chain by `mid'` of the same extent, while the free lists drop the free
    blocks of `mid` and then receive those of `mid'`, keeps the free lists exact -/
theorem seg_FL {P mid mid' R R' : List Blk} {xf : List (List Nat)}
    (h : FLInv xf (fun o sz => (o, sz) ∈ freeOffs 0 (P ++ mid ++ R)))
    (ht : total mid' = total mid) (hR : ∀ c, freeOffs c R' = freeOffs c R) :
    FLInv (attachAll (detachAll xf (freeOffs (total P) mid)) (freeOffs (total P) mid'))
      (fun o sz => (o, sz) ∈ freeOffs 0 (P ++ mid' ++ R')) := by
  have hp := HDR_pos
  have e0 : ∀ o sz, (o, sz) ∈ freeOffs 0 (P ++ mid ++ R) ↔
      (o, sz) ∈ freeOffs 0 P ∨ (o, sz) ∈ freeOffs (total P) mid ∨ (o, sz) ∈ freeOffs (total P + total mid) R := by
    intro o sz; simp [freeOffs_append]
  have e1 : ∀ o sz, (o, sz) ∈ freeOffs 0 (P ++ mid' ++ R') ↔
      (o, sz) ∈ freeOffs 0 P ∨ (o, sz) ∈ freeOffs (total P) mid' ∨ (o, sz) ∈ freeOffs (total P + total mid) R := by
    intro o sz; simp [freeOffs_append, hR, ht]
  have d := FLInv.detachAll (S := fun o sz => (o, sz) ∈ freeOffs 0 (P ++ mid ++ R))
    (fun o s1 s2 a b => freeOffs_fun a b) (freeOffs (total P) mid) xf h
    (fun p hp => (e0 _ _).2 (Or.inr (Or.inl hp))) (freeOffs_fst_nodup _ _)
  have a := FLInv.attachAll (freeOffs (total P) mid') _ _ d (by
    intro p hpm s2 ⟨hs, hall⟩
    have b1 := freeOffs_bounds hpm
    rcases (e0 _ _).1 hs with hs | hs | hs
    · have := freeOffs_bounds hs; simp at this; omega
    · exact hall _ hs rfl
    · have := freeOffs_bounds hs; simp at this; omega) (freeOffs_fst_nodup _ _)
  refine a.congr ?_
  intro o sz
  rw [e1]
  constructor
  · rintro (⟨hs, hall⟩ | hm)
    · rcases (e0 _ _).1 hs with hs | hs | hs
      · exact Or.inl hs
      · exact absurd rfl (hall _ hs)
      · exact Or.inr (Or.inr hs)
    · exact Or.inr (Or.inl hm)
  · rintro (hs | hs | hs)
    · refine Or.inl ⟨(e0 _ _).2 (Or.inl hs), ?_⟩
      intro p hpm
      have := freeOffs_bounds hs; have := freeOffs_bounds hpm; simp at *; omega
    · exact Or.inr hs
    · refine Or.inl ⟨(e0 _ _).2 (Or.inr (Or.inr hs)), ?_⟩
      intro p hpm
      have := freeOffs_bounds hs; have := freeOffs_bounds hpm; simp at *; omega


/-! ### WF and segment replacement -/

theorem chainOK_weaken {c c' ps : Nat} {pf pf' : Bool} {l : List Blk} (h : ChainOK c ps pf l) (hcc : c' = c)
    (hf : pf' = true → pf = true) : ChainOK c' ps pf' l := by
  subst hcc
  cases l with
  | nil => trivial
  | cons a l =>
    simp only [ChainOK] at h ⊢
    exact ⟨h.1, fun ⟨a1, a2⟩ => h.2.1 ⟨hf a1, a2⟩, h.2.2⟩

theorem WF_iff (s : Xma) : WF s ↔ total s.blks = s.zone ∧ ChainOK 0 0 false s.blks ∧
    FLInv s.xfree (fun o sz => (o, sz) ∈ freeOffs 0 s.blks) := by
  constructor
  · intro h; exact ⟨h.tile, h.chain, h.len, h.nodup, h.mem⟩
  · intro ⟨a, b, c, d, e⟩; exact ⟨a, b, c, d, e⟩

theorem seg_WF {s : Xma} {P mid mid' R R' : List Blk} (h : WF s) (hb : s.blks = P ++ (mid ++ R))
    (ht : total mid' = total mid) (htR : total R' = total R) (hR : ∀ c, freeOffs c R' = freeOffs c R)
    (hc : ChainOK 0 0 false P → ChainOK (total P) (lastSz 0 P) (lastFr false P) (mid ++ R) →
          ChainOK (total P) (lastSz 0 P) (lastFr false P) (mid' ++ R')) :
    WF { s with blks := P ++ (mid' ++ R'),
                xfree := attachAll (detachAll s.xfree (freeOffs (total P) mid)) (freeOffs (total P) mid') } := by
  rw [WF_iff] at h ⊢
  obtain ⟨h1, h2, h3⟩ := h
  rw [hb] at h1 h2 h3
  refine ⟨?_, ?_, ?_⟩
  · simp at h1 ⊢; omega
  · rw [chainOK_append] at h2 ⊢
    exact ⟨h2.1, by simpa using hc h2.1 (by simpa using h2.2)⟩
  · rw [← List.append_assoc] at h3 ⊢
    exact seg_FL h3 ht hR

/-- what a successful lookup of a free-list entry tells about the block -/
theorem findBlk_free {o sz : Nat} {l rp : List Blk} {b : Blk} {q : List Blk}
    (h : findBlk o 0 [] l = some (rp, b, q)) (hm : (o, sz) ∈ freeOffs 0 l) : b.free = true ∧ b.size = sz := by
  obtain ⟨h1, h2⟩ := findBlk_split h
  rw [h1, freeOffs_append, freeOffs_cons] at hm
  simp only [List.mem_append] at hm
  have hp := HDR_pos
  rcases hm with hm | hm | hm
  · have := freeOffs_bounds hm; simp at this; omega
  · split at hm
    · simp at hm; rename_i hf; exact ⟨hf, hm.2.symm⟩
    · simp at hm
  · have := freeOffs_bounds hm; simp at this; omega

theorem findBlk_exists {o sz : Nat} : ∀ (l : List Blk) (cur : Nat) (rp : List Blk), (o, sz) ∈ freeOffs cur l →
    ∃ r, findBlk o cur rp l = some r := by
  intro l
  induction l with
  | nil => intro cur rp h; simp at h
  | cons a l ih =>
    intro cur rp h
    unfold findBlk
    split
    · exact ⟨_, rfl⟩
    · rename_i hne
      rw [freeOffs_cons] at h
      simp only [List.mem_append] at h
      rcases h with h | h
      · split at h <;> simp at h; omega
      · have := freeOffs_bounds h
        simp at this
        split
        · omega
        · exact ih _ _ h

theorem findBlk_live_exists {o : Nat} {x : Nat × List Nat} : ∀ (l : List Blk) (cur : Nat) (rp : List Blk),
    (o, x) ∈ liveOffs cur l → ∃ r, findBlk o cur rp l = some r := by
  intro l
  induction l with
  | nil => intro cur rp h; simp at h
  | cons a l ih =>
    intro cur rp h
    unfold findBlk
    split
    · exact ⟨_, rfl⟩
    · rename_i hne
      rw [liveOffs_cons] at h
      simp only [List.mem_append] at h
      rcases h with h | h
      · split at h <;> simp at h; omega
      · have := liveOffs_bounds h
        simp at this
        split
        · omega
        · exact ih _ _ h

theorem findBlk_live {o sz : Nat} {d : List Nat} {l rp : List Blk} {b : Blk} {q : List Blk}
    (h : findBlk o 0 [] l = some (rp, b, q)) (hm : (o, sz, d) ∈ liveOffs 0 l) :
    b.free = false ∧ b.size = sz ∧ b.data = d := by
  obtain ⟨h1, h2⟩ := findBlk_split h
  rw [h1, liveOffs_append, liveOffs_cons] at hm
  simp only [List.mem_append] at hm
  have hp := HDR_pos
  rcases hm with hm | hm | hm
  · have := liveOffs_bounds hm; simp at this; omega
  · split at hm
    · simp at hm
    · simp at hm; rename_i hf; exact ⟨by simpa using hf, hm.2.1.symm, hm.2.2.symm⟩
  · have := liveOffs_bounds hm; simp at this; omega

/-! ### alloc -/

theorem takeWhole_wf {s : Xma} {o : Nat} {rp : List Blk} {b : Blk} {q : List Blk} (h : WF s)
    (hf : findBlk o 0 [] s.blks = some (rp, b, q)) (hbf : b.free = true) : WF (takeWhole s o rp b q) := by
  obtain ⟨hb, ho⟩ := findBlk_split hf
  have := seg_WF (P := rp.reverse) (mid := [b]) (mid' := [{ b with free := false, data := [] }]) (R := q) (R' := q)
    h hb (by simp) rfl (fun _ => rfl) (by
      intro _ hc
      simp only [List.cons_append, List.nil_append, ChainOK] at hc ⊢
      exact ⟨hc.1, by simp, hc.2.2.1, hc.2.2.2.1, chainOK_weaken hc.2.2.2.2 rfl (by simp)⟩)
  simpa [freeOffs_cons, hbf, ho, takeWhole, plug] using this


theorem takeSplit_wf {s : Xma} {size o : Nat} {rp : List Blk} {b : Blk} {q : List Blk} (h : WF s)
    (hf : findBlk o 0 [] s.blks = some (rp, b, q)) (hbf : b.free = true)
    (hs1 : size % ALIGN = 0) (hs2 : MINALLOC ≤ size) (hrem : b.size - size ≥ FBLKMIN) :
    WF (takeSplit s size o rp b q) := by
  obtain ⟨hb, ho⟩ := findBlk_split hf
  have := seg_WF (P := rp.reverse) (mid := [b])
    (mid' := [{ b with size := size, free := false, data := [] }, { size := b.size - size - HDR, free := true, prev := size }])
    (R := q) (R' := setPrevHd (b.size - size - HDR) q)
    h hb (by simp [FBLKMIN, HDR, MINALLOC] at *; omega) (by simp) (fun _ => by simp) (by
      intro _ hc
      simp only [List.cons_append, List.nil_append, ChainOK] at hc ⊢
      obtain ⟨c1, c2, c3, c4, c5⟩ := hc
      refine ⟨c1, by simp, c3, hs2, trivial, by simp, ?_, ?_, ?_⟩
      · simp only [FBLKMIN, HDR, MINALLOC, ALIGN] at *; omega
      · simp only [FBLKMIN, HDR, MINALLOC, ALIGN] at *; omega
      · exact chainOK_setPrevHd c5 (by simp only [FBLKMIN, HDR, MINALLOC] at *; omega) (fun _ => Or.inl hbf))
  simpa [freeOffs_cons, hbf, ho, takeSplit, plug] using this

theorem takeBlk_wf {s : Xma} {size o : Nat} {rp : List Blk} {b : Blk} {q : List Blk} (h : WF s)
    (hf : findBlk o 0 [] s.blks = some (rp, b, q)) (hbf : b.free = true)
    (hs1 : size % ALIGN = 0) (hs2 : MINALLOC ≤ size) : WF (takeBlk s size o rp b q) := by
  unfold takeBlk
  split
  · exact takeSplit_wf h hf hbf hs1 hs2 (by assumption)
  · exact takeWhole_wf h hf hbf

theorem scan_spec {blks : List Blk} {size : Nat} : ∀ (l : List Nat) {o : Nat} {rp : List Blk} {b : Blk} {q : List Blk},
    scan blks size l = .ok (some (o, rp, b, q)) → o ∈ l ∧ findBlk o 0 [] blks = some (rp, b, q) ∧ size ≤ b.size := by
  intro l
  induction l with
  | nil => intro o rp b q h; simp [scan] at h
  | cons a l ih =>
    intro o rp b q h
    unfold scan at h
    split at h
    · simp at h
    · rename_i rp' b' q' hfb
      split at h
      · simp only [Except.ok.injEq, Option.some.injEq, Prod.mk.injEq] at h
        obtain ⟨h1, h2, h3, h4⟩ := h
        subst h1 h2 h3 h4
        exact ⟨by simp, hfb, by assumption⟩
      · have := ih h
        exact ⟨by simp [this.1], this.2⟩

/-- a free-list entry of a well-formed state addresses a free block -/
theorem wf_entry {s : Xma} (h : WF s) {i o : Nat} (hm : o ∈ fl s.xfree i) {rp : List Blk} {b : Blk} {q : List Blk}
    (hf : findBlk o 0 [] s.blks = some (rp, b, q)) : b.free = true ∧ getxfi b.size = i := by
  obtain ⟨sz, h1, h2⟩ := (h.mem i o).1 hm
  have := findBlk_free hf h1
  exact ⟨this.1, by rw [this.2]; exact h2⟩

theorem allocFrom_wf {s s' : Xma} {i size o : Nat} (h : WF s) (hs1 : size % ALIGN = 0) (hs2 : MINALLOC ≤ size)
    (ha : allocFrom s i size = .ok (some (o, s'))) : WF s' := by
  unfold allocFrom at ha
  split at ha
  · simp at ha
  · simp at ha
  · rename_i o' rp b q hsc
    simp only [Except.ok.injEq, Option.some.injEq, Prod.mk.injEq] at ha
    obtain ⟨_, rfl⟩ := ha
    obtain ⟨hm, hf, _⟩ := scan_spec _ hsc
    exact takeBlk_wf h hf (wf_entry h hm hf).1 hs1 hs2

theorem sweep_wf {s s' : Xma} {size o : Nat} (h : WF s) (hs1 : size % ALIGN = 0) (hs2 : MINALLOC ≤ size) :
    ∀ (cls : List Nat), sweep s size cls = .ok (some (o, s')) → WF s' := by
  intro cls
  induction cls with
  | nil => intro ha; simp [sweep] at ha
  | cons i cls ih =>
    intro ha
    unfold sweep at ha
    split at ha
    · simp at ha
    · rename_i x hx
      simp only [Except.ok.injEq, Option.some.injEq] at ha
      subst ha
      exact allocFrom_wf h hs1 hs2 hx
    · exact ih ha

theorem roundReq_ok {n : Nat} (h : ¬ roundReq n < ALIGN) : roundReq n % ALIGN = 0 ∧ MINALLOC ≤ roundReq n := by
  unfold roundReq at *
  simp only [ALIGN, MINALLOC, WORD, BITS] at *
  omega


/-- how a successful allocation changed the state: the block at `o`, found through chain `i`, was taken
    (split or whole) by alloc_from_freelist, or whole by the best-fit branch -/
def Took (s : Xma) (size : Nat) (o : Nat) (s' : Xma) : Prop :=
  ∃ rp b q i, o ∈ fl s.xfree i ∧ findBlk o 0 [] s.blks = some (rp, b, q) ∧
    ((s' = takeBlk s size o rp b q ∧ size ≤ b.size) ∨ (s' = takeWhole s o rp b q ∧ i = getxfi size ∧ i < FIXED))

theorem allocFrom_took {s s' : Xma} {i size o : Nat} (ha : allocFrom s i size = .ok (some (o, s'))) : Took s size o s' := by
  unfold allocFrom at ha
  split at ha
  · simp at ha
  · simp at ha
  · rename_i o' rp b q hsc
    simp only [Except.ok.injEq, Option.some.injEq, Prod.mk.injEq] at ha
    obtain ⟨rfl, rfl⟩ := ha
    obtain ⟨hm, hf, hle⟩ := scan_spec _ hsc
    exact ⟨rp, b, q, i, hm, hf, Or.inl ⟨rfl, hle⟩⟩

theorem sweep_took {s s' : Xma} {size o : Nat} : ∀ (cls : List Nat), sweep s size cls = .ok (some (o, s')) → Took s size o s' := by
  intro cls
  induction cls with
  | nil => intro ha; simp [sweep] at ha
  | cons i cls ih =>
    intro ha
    unfold sweep at ha
    split at ha
    · simp at ha
    · rename_i x hx
      simp only [Except.ok.injEq, Option.some.injEq] at ha
      subst ha
      exact allocFrom_took hx
    · exact ih ha

theorem allocFirst_took {s s' : Xma} {xfi size o k : Nat} (ha : allocFirst s xfi size = .ok (some (o, s'), k)) :
    Took s size o s' := by
  unfold allocFirst at ha
  split at ha
  · split at ha
    · simp at ha
    · rename_i x hx
      simp only [Except.ok.injEq, Prod.mk.injEq, Option.some.injEq] at ha
      obtain ⟨rfl, _⟩ := ha
      exact allocFrom_took hx
    · split at ha
      · simp at ha
      · rename_i r hx
        simp only [Except.ok.injEq, Prod.mk.injEq] at ha
        obtain ⟨rfl, _⟩ := ha
        exact allocFrom_took hx
  · split at ha
    · simp at ha
    · rename_i x hx
      simp only [Except.ok.injEq, Prod.mk.injEq, Option.some.injEq] at ha
      obtain ⟨rfl, _⟩ := ha
      exact allocFrom_took hx
    · simp at ha

theorem alloc_cases {s s' : Xma} {n : Nat} {r : Option Nat} (ha : alloc s n = .ok (r, s')) :
    (r = none ∧ s' = s) ∨ (∃ o, r = some o ∧ ¬ roundReq n < ALIGN ∧ Took s (roundReq n) o s') := by
  unfold alloc at ha
  simp only at ha
  split at ha
  · simp only [Except.ok.injEq, Prod.mk.injEq] at ha; exact Or.inl ⟨ha.1.symm, ha.2.symm⟩
  · rename_i hsz
    split at ha
    · rename_i hfix
      split at ha
      · simp only [Except.ok.injEq, Prod.mk.injEq] at ha; exact Or.inl ⟨ha.1.symm, ha.2.symm⟩
      · rename_i o l hl
        split at ha
        · simp at ha
        · rename_i rp b q hf
          simp only [Except.ok.injEq, Prod.mk.injEq] at ha
          obtain ⟨rfl, rfl⟩ := ha
          exact Or.inr ⟨o, rfl, hsz, rp, b, q, _, by rw [hl]; simp, hf, Or.inr ⟨rfl, rfl, hfix.1⟩⟩
    · split at ha
      · split at ha
        · simp at ha
        · simp only [Except.ok.injEq, Prod.mk.injEq] at ha; exact Or.inl ⟨ha.1.symm, ha.2.symm⟩
        · rename_i o s'' hx
          simp only [Except.ok.injEq, Prod.mk.injEq] at ha
          obtain ⟨rfl, rfl⟩ := ha
          exact Or.inr ⟨o, rfl, hsz, allocFrom_took hx⟩
      · split at ha
        · simp at ha
        · rename_i o s'' k hx
          simp only [Except.ok.injEq, Prod.mk.injEq] at ha
          obtain ⟨rfl, rfl⟩ := ha
          exact Or.inr ⟨o, rfl, hsz, allocFirst_took hx⟩
        · split at ha
          · simp at ha
          · simp only [Except.ok.injEq, Prod.mk.injEq] at ha; exact Or.inl ⟨ha.1.symm, ha.2.symm⟩
          · rename_i o s'' hx
            simp only [Except.ok.injEq, Prod.mk.injEq] at ha
            obtain ⟨rfl, rfl⟩ := ha
            exact Or.inr ⟨o, rfl, hsz, sweep_took _ hx⟩

theorem took_wf {s s' : Xma} {size o : Nat} (h : WF s) (hs1 : size % ALIGN = 0) (hs2 : MINALLOC ≤ size)
    (ht : Took s size o s') : WF s' := by
  obtain ⟨rp, b, q, i, hm, hf, hc⟩ := ht
  have hbf := (wf_entry h hm hf).1
  rcases hc with ⟨rfl, _⟩ | ⟨rfl, _⟩
  · exact takeBlk_wf h hf hbf hs1 hs2
  · exact takeWhole_wf h hf hbf

theorem alloc_wf' {s s' : Xma} {n : Nat} {r : Option Nat} (h : WF s) (ha : alloc s n = .ok (r, s')) : WF s' := by
  rcases alloc_cases ha with ⟨_, rfl⟩ | ⟨o, _, hsz, ht⟩
  · exact h
  · exact took_wf h (roundReq_ok hsz).1 (roundReq_ok hsz).2 ht


/-! ### free -/

theorem chainOK_of_head_notfree {c c' ps : Nat} {pf pf' : Bool} {l : List Blk} (h : ChainOK c ps pf l) (hcc : c' = c)
    (hh : ∀ y ∈ l.head?, y.free = false) : ChainOK c' ps pf' l := by
  subst hcc
  cases l with
  | nil => trivial
  | cons a l =>
    simp only [ChainOK] at h ⊢
    have : a.free = false := hh a (by simp)
    exact ⟨h.1, by simp [this], h.2.2⟩

@[simp] theorem lastFr_reverse_cons (pf : Bool) (x : Blk) (rp : List Blk) : lastFr pf (x :: rp).reverse = x.free := by
  simp

@[simp] theorem lastSz_reverse_cons (ps : Nat) (x : Blk) (rp : List Blk) : lastSz ps (x :: rp).reverse = x.size := by
  simp

/-- shape A: both neighbours free -/
theorem freeA_wf {s : Xma} {o : Nat} {rp' : List Blk} {x b y : Blk} {q' : List Blk} (h : WF s)
    (hb : s.blks = (x :: rp').reverse ++ b :: y :: q') (ho : total (x :: rp').reverse = o)
    (hbf : b.free = false) (hxf : x.free = true) (hyf : y.free = true) :
    WF { s with blks := plug rp' ({ x with size := x.size + ((HDR + b.size + HDR) + y.size), data := [] } ::
                          setPrevHd (x.size + ((HDR + b.size + HDR) + y.size)) q'),
                xfree := attach (detach (detach s.xfree (o - (HDR + b.prev)) x.size) (o + HDR + b.size) y.size)
                          (o - (HDR + b.prev)) (x.size + ((HDR + b.size + HDR) + y.size)) } := by
  have hb' : s.blks = rp'.reverse ++ ([x, b, y] ++ q') := by simp [hb]
  have hbp : b.prev = x.size := by
    have := h.chain; rw [hb', chainOK_append] at this
    simp only [List.cons_append, List.nil_append, ChainOK] at this
    exact this.2.2.2.2.2.1
  have key := seg_WF (P := rp'.reverse) (mid := [x, b, y])
    (mid' := [{ x with size := x.size + ((HDR + b.size + HDR) + y.size), data := [] }])
    (R := q') (R' := setPrevHd (x.size + ((HDR + b.size + HDR) + y.size)) q')
    h hb' (by simp; omega) (by simp) (fun _ => by simp) (by
      intro _ hc
      simp only [List.cons_append, List.nil_append, ChainOK] at hc ⊢
      obtain ⟨c1, c2, c3, c4, c5, c6, c7, c8, c9, c10, c11, c12, c13⟩ := hc
      refine ⟨c1, c2, ?_, ?_, ?_⟩
      · simp only [HDR, ALIGN] at *; omega
      · omega
      · exact chainOK_setPrevHd c13 (by simp only [FBLKMIN, HDR, MINALLOC] at *; omega) (fun _ => Or.inl hyf))
  have e1 : o - (HDR + b.prev) = total rp'.reverse := by simp at ho; omega
  have e2 : o + HDR + b.size = total rp'.reverse + HDR + x.size + HDR + b.size := by simp at ho; omega
  rw [e1, e2]
  simpa [freeOffs_cons, hbf, hxf, hyf, plug] using key

/-- shape B: only the next block is free -/
theorem freeB_wf {s : Xma} {o : Nat} {rp : List Blk} {b y : Blk} {q' : List Blk} (h : WF s)
    (hb : s.blks = rp.reverse ++ b :: y :: q') (ho : total rp.reverse = o)
    (hbf : b.free = false) (hpf : lastFr false rp.reverse = false) (hyf : y.free = true) :
    WF { s with blks := plug rp ({ b with free := true, size := b.size + (HDR + y.size), data := [] } ::
                          setPrevHd (b.size + (HDR + y.size)) q'),
                xfree := attach (detach s.xfree (o + HDR + b.size) y.size) o (b.size + (HDR + y.size)) } := by
  have hb' : s.blks = rp.reverse ++ ([b, y] ++ q') := by simp [hb]
  have key := seg_WF (P := rp.reverse) (mid := [b, y])
    (mid' := [{ b with free := true, size := b.size + (HDR + y.size), data := [] }])
    (R := q') (R' := setPrevHd (b.size + (HDR + y.size)) q')
    h hb' (by simp; omega) (by simp) (fun _ => by simp) (by
      intro _ hc
      simp only [List.cons_append, List.nil_append, ChainOK] at hc ⊢
      obtain ⟨c1, c2, c3, c4, c5, c6, c7, c8, c9⟩ := hc
      refine ⟨c1, by simp [hpf], ?_, ?_, ?_⟩
      · simp only [HDR, ALIGN] at *; omega
      · omega
      · exact chainOK_setPrevHd c9 (by simp only [FBLKMIN, HDR, MINALLOC] at *; omega) (fun _ => Or.inl hyf))
  subst ho
  simpa [freeOffs_cons, hbf, hyf, plug] using key

/-- shape C: only the previous block is free -/
theorem freeC_wf {s : Xma} {o : Nat} {rp' : List Blk} {x b : Blk} {q : List Blk} (h : WF s)
    (hb : s.blks = (x :: rp').reverse ++ b :: q) (ho : total (x :: rp').reverse = o)
    (hbf : b.free = false) (hxf : x.free = true) (hq : ∀ y ∈ q.head?, y.free = false) :
    WF { s with blks := plug rp' ({ x with size := x.size + (HDR + b.size), data := [] } ::
                          setPrevHd (x.size + (HDR + b.size)) q),
                xfree := attach (detach s.xfree (o - (HDR + b.prev)) x.size) (o - (HDR + b.prev)) (x.size + (HDR + b.size)) } := by
  have hb' : s.blks = rp'.reverse ++ ([x, b] ++ q) := by simp [hb]
  have hbp : b.prev = x.size := by
    have := h.chain; rw [hb', chainOK_append] at this
    simp only [List.cons_append, List.nil_append, ChainOK] at this
    exact this.2.2.2.2.2.1
  have key := seg_WF (P := rp'.reverse) (mid := [x, b])
    (mid' := [{ x with size := x.size + (HDR + b.size), data := [] }])
    (R := q) (R' := setPrevHd (x.size + (HDR + b.size)) q)
    h hb' (by simp; omega) (by simp) (fun _ => by simp) (by
      intro _ hc
      simp only [List.cons_append, List.nil_append, ChainOK] at hc ⊢
      obtain ⟨c1, c2, c3, c4, c5, c6, c7, c8, c9⟩ := hc
      refine ⟨c1, c2, ?_, ?_, ?_⟩
      · simp only [HDR, ALIGN] at *; omega
      · omega
      · exact chainOK_setPrevHd c9 (by simp only [FBLKMIN, HDR, MINALLOC] at *; omega) (fun _ => Or.inr hq))
  have e1 : o - (HDR + b.prev) = total rp'.reverse := by simp at ho; omega
  rw [e1]
  simpa [freeOffs_cons, hbf, hxf, plug] using key

/-- shape D: no free neighbour -/
theorem freeD_wf {s : Xma} {o : Nat} {rp : List Blk} {b : Blk} {q : List Blk} (h : WF s)
    (hb : s.blks = rp.reverse ++ b :: q) (ho : total rp.reverse = o)
    (hbf : b.free = false) (hpf : lastFr false rp.reverse = false) (hq : ∀ y ∈ q.head?, y.free = false) :
    WF { s with blks := plug rp ({ b with free := true, data := [] } :: q), xfree := attach s.xfree o b.size } := by
  have hb' : s.blks = rp.reverse ++ ([b] ++ q) := by simp [hb]
  have key := seg_WF (P := rp.reverse) (mid := [b]) (mid' := [{ b with free := true, data := [] }]) (R := q) (R' := q)
    h hb' (by simp) rfl (fun _ => rfl) (by
      intro _ hc
      simp only [List.cons_append, List.nil_append, ChainOK] at hc ⊢
      obtain ⟨c1, c2, c3, c4, c5⟩ := hc
      exact ⟨c1, by simp [hpf], c3, c4, chainOK_of_head_notfree c5 rfl hq⟩)
  subst ho
  simpa [freeOffs_cons, hbf, plug] using key

theorem freeCore_wf {s : Xma} {o : Nat} {rp : List Blk} {b : Blk} {q : List Blk} (h : WF s)
    (hf : findBlk o 0 [] s.blks = some (rp, b, q)) (hbf : b.free = false) : WF (freeCore s o rp b q) := by
  obtain ⟨hb, ho⟩ := findBlk_split hf
  unfold freeCore
  split
  · rename_i x rp' y q'
    simp only
    split
    · rename_i hxy; exact freeA_wf h hb ho hbf hxy.1 hxy.2
    · rename_i hxy
      split
      · rename_i hy
        have hx : x.free = false := by cases hxf : x.free <;> simp_all
        exact freeB_wf h hb ho hbf (by simp [hx]) hy
      · rename_i hy
        split
        · rename_i hx; exact freeC_wf h hb ho hbf hx (by simpa using hy)
        · rename_i hx; exact freeD_wf h hb ho hbf (by simpa using hx) (by simpa using hy)
  · rename_i y q'
    simp only
    split
    · rename_i hy; exact freeB_wf h hb ho hbf (by simp) hy
    · rename_i hy; exact freeD_wf h hb ho hbf (by simp) (by simpa using hy)
  · rename_i x rp'
    simp only
    split
    · rename_i hx; exact freeC_wf h hb ho hbf hx (by simp)
    · rename_i hx; exact freeD_wf h hb ho hbf (by simpa using hx) (by simp)
  · exact freeD_wf h hb ho hbf (by simp) (by simp)

theorem free_wf' {s s' : Xma} {o : Nat} (h : WF s) (hf : free s o = .ok s') : WF s' := by
  unfold free at hf
  split at hf
  · simp at hf
  · rename_i rp b q hfb
    split at hf
    · simp at hf
    · rename_i hbf
      simp only [Except.ok.injEq] at hf
      subst hf
      exact freeCore_wf h hfb (by simpa using hbf)


/-! ### realloc -/

/-- grow, the rest of the next block stays a free block -/
theorem growSplit_wf {s : Xma} {o size : Nat} {rp : List Blk} {b nb : Blk} {q' : List Blk} (h : WF s)
    (hb : s.blks = rp.reverse ++ b :: nb :: q') (ho : total rp.reverse = o)
    (hbf : b.free = false) (hnf : nb.free = true) (hs1 : size % ALIGN = 0) (hgt : size > b.size)
    (hreq : ¬ size - b.size > nb.size) (hrem : (HDR + nb.size) - (size - b.size) ≥ FBLKMIN) :
    WF { s with blks := plug rp ({ b with size := b.size + (size - b.size) } ::
                          { size := (HDR + nb.size) - (size - b.size) - HDR, free := true, prev := b.size + (size - b.size) } ::
                          setPrevHd ((HDR + nb.size) - (size - b.size) - HDR) q'),
                xfree := attach (detach s.xfree (o + HDR + b.size) nb.size) (o + HDR + (b.size + (size - b.size)))
                          ((HDR + nb.size) - (size - b.size) - HDR) } := by
  have hb' : s.blks = rp.reverse ++ ([b, nb] ++ q') := by simp [hb]
  have key := seg_WF (P := rp.reverse) (mid := [b, nb])
    (mid' := [{ b with size := b.size + (size - b.size) },
              { size := (HDR + nb.size) - (size - b.size) - HDR, free := true, prev := b.size + (size - b.size) }])
    (R := q') (R' := setPrevHd ((HDR + nb.size) - (size - b.size) - HDR) q')
    h hb' (by simp [FBLKMIN, HDR, MINALLOC] at *; omega) (by simp) (fun _ => by simp) (by
      intro _ hc
      simp only [List.cons_append, List.nil_append, ChainOK] at hc ⊢
      obtain ⟨c1, c2, c3, c4, c5, c6, c7, c8, c9⟩ := hc
      refine ⟨c1, by simp [hbf], ?_, ?_, trivial, by simp [hbf], ?_, ?_, ?_⟩
      · simp only [FBLKMIN, HDR, MINALLOC, ALIGN] at *; omega
      · omega
      · simp only [FBLKMIN, HDR, MINALLOC, ALIGN] at *; omega
      · simp only [FBLKMIN, HDR, MINALLOC, ALIGN] at *; omega
      · exact chainOK_setPrevHd c9 (by simp only [FBLKMIN, HDR, MINALLOC] at *; omega) (fun _ => Or.inl hnf))
  subst ho
  simpa [freeOffs_cons, hbf, hnf, plug] using key

/-- grow, the next block is absorbed whole -/
theorem growWhole_wf {s : Xma} {o : Nat} {rp : List Blk} {b nb : Blk} {q' : List Blk} (h : WF s)
    (hb : s.blks = rp.reverse ++ b :: nb :: q') (ho : total rp.reverse = o)
    (hbf : b.free = false) (hnf : nb.free = true) :
    WF { s with blks := plug rp ({ b with size := b.size + (HDR + nb.size) } :: setPrevHd (b.size + (HDR + nb.size)) q'),
                xfree := detach s.xfree (o + HDR + b.size) nb.size } := by
  have hb' : s.blks = rp.reverse ++ ([b, nb] ++ q') := by simp [hb]
  have key := seg_WF (P := rp.reverse) (mid := [b, nb]) (mid' := [{ b with size := b.size + (HDR + nb.size) }])
    (R := q') (R' := setPrevHd (b.size + (HDR + nb.size)) q')
    h hb' (by simp; omega) (by simp) (fun _ => by simp) (by
      intro _ hc
      simp only [List.cons_append, List.nil_append, ChainOK] at hc ⊢
      obtain ⟨c1, c2, c3, c4, c5, c6, c7, c8, c9⟩ := hc
      refine ⟨c1, by simp [hbf], ?_, ?_, ?_⟩
      · simp only [HDR, ALIGN] at *; omega
      · omega
      · exact chainOK_setPrevHd c9 (by simp only [FBLKMIN, HDR, MINALLOC] at *; omega) (fun hh => by simp [hbf] at hh))
  subst ho
  simpa [freeOffs_cons, hbf, hnf, plug] using key

/-- shrink, the leftover joins the free next block -/
theorem shrinkMerge_wf {s : Xma} {o size : Nat} {rp : List Blk} {b nb : Blk} {q' : List Blk} {d : List Nat} (h : WF s)
    (hb : s.blks = rp.reverse ++ b :: nb :: q') (ho : total rp.reverse = o)
    (hbf : b.free = false) (hnf : nb.free = true) (hs1 : size % ALIGN = 0) (hs2 : MINALLOC ≤ size)
    (hrem : b.size - size ≥ FBLKMIN) :
    WF { s with blks := plug rp ({ b with size := size, data := d } ::
                          { size := b.size - size + nb.size, free := true, prev := size } ::
                          setPrevHd (b.size - size + nb.size) q'),
                xfree := attach (detach s.xfree (o + HDR + b.size) nb.size) (o + HDR + size) (b.size - size + nb.size) } := by
  have hb' : s.blks = rp.reverse ++ ([b, nb] ++ q') := by simp [hb]
  have key := seg_WF (P := rp.reverse) (mid := [b, nb])
    (mid' := [{ b with size := size, data := d }, { size := b.size - size + nb.size, free := true, prev := size }])
    (R := q') (R' := setPrevHd (b.size - size + nb.size) q')
    h hb' (by simp [FBLKMIN, HDR, MINALLOC] at *; omega) (by simp) (fun _ => by simp) (by
      intro _ hc
      simp only [List.cons_append, List.nil_append, ChainOK] at hc ⊢
      obtain ⟨c1, c2, c3, c4, c5, c6, c7, c8, c9⟩ := hc
      refine ⟨c1, by simp [hbf], c3, hs2, trivial, by simp [hbf], ?_, ?_, ?_⟩
      · simp only [FBLKMIN, HDR, MINALLOC, ALIGN] at *; omega
      · simp only [FBLKMIN, HDR, MINALLOC, ALIGN] at *; omega
      · exact chainOK_setPrevHd c9 (by simp only [FBLKMIN, HDR, MINALLOC] at *; omega) (fun _ => Or.inl hnf))
  subst ho
  simpa [freeOffs_cons, hbf, hnf, plug] using key

/-- shrink, the leftover becomes a free block of its own -/
theorem shrinkSplit_wf {s : Xma} {o size : Nat} {rp : List Blk} {b : Blk} {q : List Blk} {d : List Nat} (h : WF s)
    (hb : s.blks = rp.reverse ++ b :: q) (ho : total rp.reverse = o)
    (hbf : b.free = false) (hq : ∀ y ∈ q.head?, y.free = false) (hs1 : size % ALIGN = 0) (hs2 : MINALLOC ≤ size)
    (hrem : b.size - size ≥ FBLKMIN) :
    WF { s with blks := plug rp ({ b with size := size, data := d } ::
                          { size := b.size - size - HDR, free := true, prev := size } ::
                          setPrevHd (b.size - size - HDR) q),
                xfree := attach s.xfree (o + HDR + size) (b.size - size - HDR) } := by
  have hb' : s.blks = rp.reverse ++ ([b] ++ q) := by simp [hb]
  have key := seg_WF (P := rp.reverse) (mid := [b])
    (mid' := [{ b with size := size, data := d }, { size := b.size - size - HDR, free := true, prev := size }])
    (R := q) (R' := setPrevHd (b.size - size - HDR) q)
    h hb' (by simp [FBLKMIN, HDR, MINALLOC] at *; omega) (by simp) (fun _ => by simp) (by
      intro _ hc
      simp only [List.cons_append, List.nil_append, ChainOK] at hc ⊢
      obtain ⟨c1, c2, c3, c4, c5⟩ := hc
      refine ⟨c1, by simp [hbf], c3, hs2, trivial, by simp [hbf], ?_, ?_, ?_⟩
      · simp only [FBLKMIN, HDR, MINALLOC, ALIGN] at *; omega
      · simp only [FBLKMIN, HDR, MINALLOC, ALIGN] at *; omega
      · exact chainOK_setPrevHd c5 (by simp only [FBLKMIN, HDR, MINALLOC] at *; omega) (fun _ => Or.inr hq))
  subst ho
  simpa [freeOffs_cons, hbf, plug] using key

theorem reallocMerge_wf' {s s' : Xma} {o n : Nat} (h : WF s) (hr : reallocMerge s o n = .ok (some s')) : WF s' := by
  unfold reallocMerge at hr
  split at hr
  · simp at hr
  · rename_i rp b q hfb
    obtain ⟨hb, ho⟩ := findBlk_split hfb
    split at hr
    · simp at hr
    · rename_i hbf
      have hbf : b.free = false := by simpa using hbf
      simp only at hr
      split at hr
      · simp at hr
      · rename_i hsz
        have hs := roundReq_ok hsz
        split at hr
        · rename_i hgt
          split at hr
          · simp at hr
          · rename_i nb q'
            split at hr
            · simp at hr
            · rename_i hc
              simp only [Bool.not_eq_eq_eq_not, Bool.not_true, not_or, Bool.not_eq_false] at hc
              split at hr
              · simp only [Except.ok.injEq, Option.some.injEq] at hr; subst hr
                exact growSplit_wf h hb ho hbf (by simpa using hc.1) hs.1 hgt hc.2 (by assumption)
              · simp only [Except.ok.injEq, Option.some.injEq] at hr; subst hr
                exact growWhole_wf h hb ho hbf (by simpa using hc.1)
        · split at hr
          · split at hr
            · rename_i hrem
              split at hr
              · rename_i nb q'
                split at hr
                · rename_i hnf
                  simp only [Except.ok.injEq, Option.some.injEq] at hr; subst hr
                  exact shrinkMerge_wf h hb ho hbf hnf hs.1 hs.2 hrem
                · rename_i hnf
                  simp only [Except.ok.injEq, Option.some.injEq] at hr; subst hr
                  exact shrinkSplit_wf h hb ho hbf (by simpa using hnf) hs.1 hs.2 hrem
              · simp only [Except.ok.injEq, Option.some.injEq] at hr; subst hr
                exact shrinkSplit_wf h hb ho hbf (by simp) hs.1 hs.2 hrem
            · simp only [Except.ok.injEq, Option.some.injEq] at hr; subst hr; exact h
          · simp only [Except.ok.injEq, Option.some.injEq] at hr; subst hr; exact h


theorem setData_wf {s : Xma} {o : Nat} {d : List Nat} (h : WF s) : WF (setData s o d) := by
  unfold setData
  split
  · exact h
  · rename_i rp b q hfb
    obtain ⟨hb, ho⟩ := findBlk_split hfb
    rw [WF_iff] at h ⊢
    obtain ⟨h1, h2, h3⟩ := h
    rw [hb] at h1 h2 h3
    refine ⟨?_, ?_, ?_⟩
    · simpa [plug] using h1
    · simp only [plug]
      rw [chainOK_append] at h2 ⊢
      refine ⟨h2.1, ?_⟩
      have := h2.2
      simp only [ChainOK] at this ⊢
      exact this
    · simp only [plug]
      have e : ∀ c, freeOffs c (rp.reverse ++ { b with data := d } :: q) = freeOffs c (rp.reverse ++ b :: q) := by
        intro c; simp [freeOffs_append, freeOffs_cons]
      simpa [e] using h3

theorem realloc_wf' {s s' : Xma} {o n : Nat} {r : Option Nat} (h : WF s) (hr : realloc s o n = .ok (r, s')) : WF s' := by
  unfold realloc at hr
  split at hr
  · simp at hr
  · rename_i s1 hm
    simp only [Except.ok.injEq, Prod.mk.injEq] at hr
    obtain ⟨_, rfl⟩ := hr
    exact reallocMerge_wf' h hm
  · split at hr
    · simp at hr
    · rename_i s1 ha
      simp only [Except.ok.injEq, Prod.mk.injEq] at hr
      obtain ⟨_, rfl⟩ := hr
      exact alloc_wf' h ha
    · rename_i o' s1 ha
      split at hr
      · simp at hr
      · rename_i ob hob
        simp only at hr
        split at hr
        · simp at hr
        · rename_i s3 hfr
          simp only [Except.ok.injEq, Prod.mk.injEq] at hr
          obtain ⟨_, rfl⟩ := hr
          exact free_wf' (setData_wf (alloc_wf' h ha)) hfr

theorem calloc_wf' {s s' : Xma} {n : Nat} {r : Option Nat} (h : WF s) (hc : calloc s n = .ok (r, s')) : WF s' := by
  unfold calloc at hc
  split at hc
  · simp at hc
  · rename_i s1 ha
    simp only [Except.ok.injEq, Prod.mk.injEq] at hc
    obtain ⟨_, rfl⟩ := hc
    exact alloc_wf' h ha
  · rename_i o s1 ha
    simp only [Except.ok.injEq, Prod.mk.injEq] at hc
    obtain ⟨_, rfl⟩ := hc
    exact setData_wf (alloc_wf' h ha)

theorem step_wf {s : Xma} (h : WF s) (op : Op) : WF (step s op) := by
  cases op with
  | calloc n =>
    simp only [step]
    split
    · rename_i r s' ha; exact calloc_wf' h ha
    · exact h
  | alloc n =>
    simp only [step]
    split
    · rename_i r s' ha; exact alloc_wf' h ha
    · exact h
  | realloc o n =>
    simp only [step]
    split
    · rename_i r s' ha; exact realloc_wf' h ha
    · exact h
  | free o =>
    simp only [step]
    split
    · rename_i s' ha; exact free_wf' h ha
    · exact h
  | write o d =>
    simp only [step]
    split
    · split
      · exact setData_wf h
      · exact h
    · exact h

theorem run_wf {s : Xma} (h : WF s) (ops : List Op) : WF (run s ops) := by
  induction ops generalizing s with
  | nil => exact h
  | cons op ops ih => exact ih (step_wf h op)

/-! ### init -/

theorem initx_wf {z : Nat} (hz2 : FBLKMIN ≤ z) :
    ∃ s, initx z = some s ∧ WF s ∧ s.zone = z ∧ s.blks = [{ size := z - HDR, free := true, prev := 0 }] := by
  unfold initx
  rw [if_neg (by omega)]
  refine ⟨_, rfl, ?_, rfl, rfl⟩
  have hi : getxfi (z - HDR) < (List.replicate NCLS ([] : List Nat)).length := by simp [getxfi_lt]
  have hrep : ∀ j, fl (List.replicate NCLS ([] : List Nat)) j = [] := by
    intro j; simp only [fl, List.getD_eq_getElem?_getD, List.getElem?_replicate]; split <;> rfl
  constructor
  · simp only [total_cons, total_nil, FBLKMIN, HDR, MINALLOC] at *; omega
  · simp only [ChainOK, FBLKMIN, HDR, MINALLOC, ALIGN] at *
    refine ⟨trivial, by simp, trivial, by omega, trivial⟩
  · simp
  · intro i
    by_cases hj : getxfi (z - HDR) = i
    · subst hj; simp only; rw [fl_set_eq _ hi]; simp
    · simp only; rw [fl_set_ne _ hj, hrep]; simp
  · intro i o
    simp only [freeOffs, if_true, List.mem_singleton, Prod.mk.injEq]
    by_cases hj : getxfi (z - HDR) = i
    · subst hj; rw [fl_set_eq _ hi]
      constructor
      · intro hm; simp at hm; exact ⟨z - HDR, ⟨hm, rfl⟩, rfl⟩
      · intro ⟨sz, ⟨a, _⟩, _⟩; simp [a]
    · rw [fl_set_ne _ hj, hrep]
      constructor
      · intro hm; simp at hm
      · intro ⟨sz, ⟨_, a⟩, b⟩; subst a; exact absurd b hj

theorem initSize_ok (z : Nat) : initSize z % ALIGN = 0 ∧ FBLKMIN ≤ initSize z := by
  unfold initSize
  simp only
  split
  · exact ⟨by decide, Nat.le_refl _⟩
  · rename_i h
    simp only [FBLKMIN, HDR, MINALLOC, ALIGN, WORD, BITS] at h ⊢; omega


/-! ### the live blocks -/

theorem liveOffs_fst_nodup (c : Nat) (l : List Blk) : ((liveOffs c l).map (·.1)).Nodup := by
  induction l generalizing c with
  | nil => simp
  | cons a l ih =>
    rw [liveOffs_cons]
    split
    · simpa using ih _
    · simp only [List.singleton_append, List.map_cons, List.nodup_cons]
      refine ⟨?_, ih _⟩
      intro hm
      simp only [List.mem_map] at hm
      obtain ⟨p, hp, hpe⟩ := hm
      have := liveOffs_bounds hp
      have := HDR_pos
      omega

/-- two different live blocks of a chain occupy disjoint byte ranges (header included) -/
theorem live_disjoint {c : Nat} {l : List Blk} {x y : Nat × Nat × List Nat} (hx : x ∈ liveOffs c l) (hy : y ∈ liveOffs c l)
    (hne : x.1 ≠ y.1) : x.1 + HDR + x.2.1 ≤ y.1 ∨ y.1 + HDR + y.2.1 ≤ x.1 := by
  induction l generalizing c with
  | nil => simp at hx
  | cons a l ih =>
    rw [liveOffs_cons] at hx hy
    simp only [List.mem_append] at hx hy
    rcases hx with hx | hx <;> rcases hy with hy | hy
    · split at hx <;> simp_all
    · have := liveOffs_bounds hy
      split at hx <;> simp at hx; subst hx; simp at this ⊢; omega
    · have := liveOffs_bounds hx
      split at hy <;> simp at hy; subst hy; simp at this ⊢; omega
    · exact ih hx hy

/-- a live block of a well-formed chain starts at a multiple of ALIGN and has at least MINALLOCSIZE bytes -/
theorem live_aligned {ps : Nat} {pf : Bool} {l : List Blk} {c : Nat} {x : Nat × Nat × List Nat} (h : ChainOK c ps pf l)
    (hx : x ∈ liveOffs c l) : x.1 % ALIGN = 0 ∧ MINALLOC ≤ x.2.1 := by
  induction l generalizing c ps pf with
  | nil => simp at hx
  | cons a l ih =>
    rw [liveOffs_cons] at hx
    simp only [List.mem_append, ChainOK] at hx h
    rcases hx with hx | hx
    · split at hx <;> simp at hx; subst hx; exact ⟨h.2.2.1, h.2.2.2.1⟩
    · exact ih h.2.2.2.2 hx

/-- a live block ends at a multiple of ALIGN or at the end of the chain -/
theorem live_end {ps : Nat} {pf : Bool} {l : List Blk} {c : Nat} {x : Nat × Nat × List Nat} (h : ChainOK c ps pf l)
    (hx : x ∈ liveOffs c l) : (x.1 + HDR + x.2.1) % ALIGN = 0 ∨ x.1 + HDR + x.2.1 = c + total l := by
  induction l generalizing c ps pf with
  | nil => simp at hx
  | cons a l ih =>
    rw [liveOffs_cons] at hx
    simp only [List.mem_append, ChainOK] at hx h
    rcases hx with hx | hx
    · split at hx <;> simp at hx; subst hx
      cases l with
      | nil => right; simp; omega
      | cons b l => left; have := h.2.2.2.2; simp only [ChainOK] at this; exact this.2.2.1
    · rcases ih h.2.2.2.2 hx with e | e
      · exact Or.inl e
      · right; simp; omega

/-- an offset cannot address a free and a live block at once -/
theorem free_live_offsets {c : Nat} {l : List Blk} {p : Nat × Nat} {x : Nat × Nat × List Nat}
    (hp : p ∈ freeOffs c l) (hx : x ∈ liveOffs c l) : p.1 ≠ x.1 := by
  induction l generalizing c with
  | nil => simp at hx
  | cons a l ih =>
    rw [liveOffs_cons] at hx
    rw [freeOffs_cons] at hp
    simp only [List.mem_append] at hx hp
    have := HDR_pos
    rcases hx with hx | hx <;> rcases hp with hp | hp
    · split at hx <;> simp_all
    · have := freeOffs_bounds hp
      split at hx <;> simp at hx; subst hx; simp at this ⊢; omega
    · have := liveOffs_bounds hx
      split at hp <;> simp at hp; subst hp; simp at this ⊢; omega
    · exact ih hp hx

/-- the live blocks of `blks'` are those of `blks` with the entries `rem` replaced (in place) by `add` -/
def LiveStep (blks blks' : List Blk) (rem add : List (Nat × Nat × List Nat)) : Prop :=
  ∃ L1 L2, liveOffs 0 blks = L1 ++ (rem ++ L2) ∧ liveOffs 0 blks' = L1 ++ (add ++ L2)

theorem seg_live {blks P mid mid' R R' : List Blk} (hb : blks = P ++ (mid ++ R)) (ht : total mid' = total mid)
    (hR : ∀ c, liveOffs c R' = liveOffs c R) :
    LiveStep blks (P ++ (mid' ++ R')) (liveOffs (total P) mid) (liveOffs (total P) mid') := by
  refine ⟨liveOffs 0 P, liveOffs (total P + total mid) R, ?_, ?_⟩
  · rw [hb]; simp [liveOffs_append]
  · simp [liveOffs_append, hR, ht]

theorem nodup_mid {α β : Type} (f : α → β) (r : α) (L2 : List α) : ∀ (L1 : List α), ((L1 ++ r :: L2).map f).Nodup →
    (∀ x ∈ L1, f x ≠ f r) ∧ (∀ x ∈ L2, f x ≠ f r) := by
  intro L1
  induction L1 with
  | nil =>
    intro nd
    simp only [List.nil_append, List.map_cons, List.nodup_cons, List.mem_map, not_exists, not_and] at nd
    exact ⟨by simp, fun x hx => nd.1 x hx⟩
  | cons a L1 ih =>
    intro nd
    simp only [List.cons_append, List.map_cons, List.nodup_cons, List.mem_map, not_exists, not_and] at nd
    obtain ⟨i1, i2⟩ := ih nd.2
    refine ⟨?_, i2⟩
    intro x hx
    simp only [List.mem_cons] at hx
    rcases hx with rfl | hx
    · exact fun he => nd.1 r (by simp) he.symm
    · exact i1 x hx

theorem liveStep_add {blks blks' : List Blk} {a : Nat × Nat × List Nat} (h : LiveStep blks blks' [] [a]) :
    (∀ x, x ∈ liveOffs 0 blks' ↔ x ∈ liveOffs 0 blks ∨ x = a) ∧ (∀ x ∈ liveOffs 0 blks, x.1 ≠ a.1) := by
  obtain ⟨L1, L2, h1, h2⟩ := h
  have nd := liveOffs_fst_nodup 0 blks'
  rw [h2] at nd
  obtain ⟨n1, n2⟩ := nodup_mid (·.1) a L2 L1 nd
  rw [h1, h2]
  simp only [List.nil_append, List.singleton_append, List.mem_append, List.mem_cons]
  constructor
  · intro x
    constructor
    · rintro (a1 | a1 | a1)
      · exact Or.inl (Or.inl a1)
      · exact Or.inr a1
      · exact Or.inl (Or.inr a1)
    · rintro ((a1 | a1) | a1)
      · exact Or.inl a1
      · exact Or.inr (Or.inr a1)
      · exact Or.inr (Or.inl a1)
  · intro x hx
    rcases hx with hx | hx
    · exact n1 x hx
    · exact n2 x hx

theorem liveStep_del {blks blks' : List Blk} {r : Nat × Nat × List Nat} (h : LiveStep blks blks' [r] []) :
    r ∈ liveOffs 0 blks ∧ ∀ x, x ∈ liveOffs 0 blks' ↔ x ∈ liveOffs 0 blks ∧ x.1 ≠ r.1 := by
  obtain ⟨L1, L2, h1, h2⟩ := h
  have nd := liveOffs_fst_nodup 0 blks
  rw [h1] at nd
  obtain ⟨n1, n2⟩ := nodup_mid (·.1) r L2 L1 nd
  rw [h1, h2]
  simp only [List.nil_append, List.singleton_append, List.mem_append, List.mem_cons]
  refine ⟨Or.inr (Or.inl trivial), ?_⟩
  intro x
  constructor
  · rintro (a1 | a1)
    · exact ⟨Or.inl a1, n1 x a1⟩
    · exact ⟨Or.inr (Or.inr a1), n2 x a1⟩
  · rintro ⟨(a1 | a1 | a1), hne⟩
    · exact Or.inl a1
    · subst a1; exact absurd rfl hne
    · exact Or.inr a1

theorem liveStep_repl {blks blks' : List Blk} {r a : Nat × Nat × List Nat} (h : LiveStep blks blks' [r] [a]) :
    r ∈ liveOffs 0 blks ∧ ∀ x, x ∈ liveOffs 0 blks' ↔ (x ∈ liveOffs 0 blks ∧ x.1 ≠ r.1) ∨ x = a := by
  obtain ⟨L1, L2, h1, h2⟩ := h
  have nd := liveOffs_fst_nodup 0 blks
  rw [h1] at nd
  obtain ⟨n1, n2⟩ := nodup_mid (·.1) r L2 L1 nd
  rw [h1, h2]
  simp only [List.singleton_append, List.mem_append, List.mem_cons]
  refine ⟨Or.inr (Or.inl trivial), ?_⟩
  intro x
  constructor
  · rintro (a1 | a1 | a1)
    · exact Or.inl ⟨Or.inl a1, n1 x a1⟩
    · exact Or.inr a1
    · exact Or.inl ⟨Or.inr (Or.inr a1), n2 x a1⟩
  · rintro (⟨(a1 | a1 | a1), hne⟩ | a1)
    · exact Or.inl a1
    · subst a1; exact absurd rfl hne
    · exact Or.inr (Or.inr a1)
    · exact Or.inr (Or.inl a1)

end Hawk.Xma
