import HawkModel.RexParse
/-! the union-building loop of `tre_parse_bracket` for a NEGATED bracket expression computes the complement of the
union of its (sorted) items — for every item list -/
namespace Hawk.Rex.Tre
open Hawk.Rex

/-- code ranges of the literal leaves of a union tree -/
def leafRanges : Ast → List (Nat × Option Nat)
  | .leaf (.lit l) _ _ => [(l.lo, l.hi)]
  | .leaf _ _ _ => []
  | .union a b _ _ => leafRanges a ++ leafRanges b
  | .cat _ _ _ _ => []
  | .iter _ _ _ _ _ _ => []

def optRanges : Option Ast → List (Nat × Option Nat)
  | none => []
  | some a => leafRanges a

/-- `d` lies in one of the ranges (`none` = up to TRE_CHAR_MAX) -/
def inRanges (l : List (Nat × Option Nat)) (d : Nat) : Prop := ∃ r ∈ l, r.1 ≤ d ∧ ∀ h, r.2 = some h → d ≤ h

/-- `d` lies in the item's range -/
def Item.has (it : Item) (d : Nat) : Prop := it.lo ≤ d ∧ ∀ h, it.hi = some h → d ≤ h

theorem optRanges_addNode (node : Option Ast) (l : Lit) :
    optRanges (addNode node (.leaf (.lit l) none 0)) = optRanges node ++ [(l.lo, l.hi)] := by
  cases node <;> simp [addNode, optRanges, leafRanges, mkUnion]

theorem inRanges_append (a b : List (Nat × Option Nat)) (d : Nat) :
    inRanges (a ++ b) d ↔ inRanges a d ∨ inRanges b d := by
  simp only [inRanges, List.mem_append]
  constructor
  · rintro ⟨r, hr | hr, h⟩
    · exact Or.inl ⟨r, hr, h⟩
    · exact Or.inr ⟨r, hr, h⟩
  · rintro (⟨r, hr, h⟩ | ⟨r, hr, h⟩)
    · exact ⟨r, Or.inl hr, h⟩
    · exact ⟨r, Or.inr hr, h⟩

theorem inRanges_single (a : Nat) (b : Option Nat) (d : Nat) :
    inRanges [(a, b)] d ↔ a ≤ d ∧ ∀ h, b = some h → d ≤ h := by
  simp [inRanges]

/-- invariant of the loop: started at `curr_min = curr_max = c`, the new leaves are exactly the codes from `c` up to
the final `curr_min` that lie in no item, and every item lies below the final `curr_min` -/
theorem bracketBuild_neg (pos : Nat) (negs : List CClass) : ∀ (items : List Item) (node : Option Ast) (c : Int),
    0 ≤ c → items.Pairwise (fun x y => x.lo ≤ y.lo) → (∀ it ∈ items, ∃ h, it.hi = some h ∧ it.lo ≤ h) →
    c ≤ (bracketBuild true pos negs items node c c).2 ∧
    (∀ it ∈ items, ∀ d : Nat, it.has d → (d : Int) < (bracketBuild true pos negs items node c c).2) ∧
    ∀ d : Nat, inRanges (optRanges (bracketBuild true pos negs items node c c).1) d ↔
      inRanges (optRanges node) d ∨
        (c ≤ (d : Int) ∧ (d : Int) < (bracketBuild true pos negs items node c c).2 ∧ ¬ ∃ it ∈ items, it.has d)
  | [], node, c, hc, _, _ => by
    simp only [bracketBuild]
    refine ⟨Int.le_refl _, by simp, fun d => ?_⟩
    constructor
    · intro h; exact Or.inl h
    · rintro (h | ⟨h1, h2, _⟩)
      · exact h
      · omega
  | it :: rest, node, c, hc, hs, hh => by
    obtain ⟨h, hhi, hlo⟩ := hh it (List.mem_cons_self ..)
    have hs' := (List.pairwise_cons.1 hs)
    have hh' : ∀ x ∈ rest, ∃ h, x.hi = some h ∧ x.lo ≤ h := fun x hx => hh x (List.mem_cons_of_mem _ hx)
    simp only [bracketBuild, hhi, Option.getD_some, if_true]
    by_cases hov : (it.lo : Int) < c
    · -- overlap
      simp only [hov, if_true]
      have hc1 : 0 ≤ max ((h : Int) + 1) c := by omega
      obtain ⟨i1, i2, i3⟩ := bracketBuild_neg pos negs rest node (max ((h : Int) + 1) c) hc1 hs'.2 hh'
      refine ⟨by omega, ?_, fun d => ?_⟩
      · intro x hx d hd
        rcases List.mem_cons.1 hx with rfl | hx
        · have := hd.2 h hhi; omega
        · exact i2 x hx d hd
      · rw [i3 d]
        constructor
        · rintro (hn | ⟨h1, h2, h3⟩)
          · exact Or.inl hn
          · refine Or.inr ⟨by omega, h2, ?_⟩
            rintro ⟨x, hx, hd⟩
            rcases List.mem_cons.1 hx with rfl | hx
            · have := hd.2 h hhi; omega
            · exact h3 ⟨x, hx, hd⟩
        · rintro (hn | ⟨h1, h2, h3⟩)
          · exact Or.inl hn
          · refine Or.inr ⟨?_, h2, fun ⟨x, hx, hd⟩ => h3 ⟨x, List.mem_cons_of_mem _ hx, hd⟩⟩
            -- `d` is not in `it`, so it is above `h`
            by_cases hlt : (d : Int) < max ((h : Int) + 1) c
            · exfalso
              apply h3
              refine ⟨it, List.mem_cons_self .., ?_, ?_⟩
              · show it.lo ≤ d; omega
              · intro h' hh'; rw [hhi] at hh'; cases hh'; omega
            · omega
    · -- no overlap
      simp only [hov, if_false]
      have hc1 : (0 : Int) ≤ (h : Int) + 1 := by omega
      have hnotit : ∀ d : Nat, (h : Int) + 1 ≤ d → ¬ it.has d := fun d hd hi => by have := hi.2 h hhi; omega
      by_cases hroom : (it.lo : Int) - 1 ≥ c
      · simp only [hroom, if_true]
        obtain ⟨i1, i2, i3⟩ := bracketBuild_neg pos negs rest
          (addNode node (.leaf (.lit ⟨c.toNat, some ((it.lo : Int) - 1).toNat, pos, none, negs⟩) none 0)) ((h : Int) + 1) hc1 hs'.2 hh'
        have hleaf : ∀ d : Nat, (c.toNat ≤ d ∧ ∀ h', some ((it.lo : Int) - 1).toNat = some h' → d ≤ h') ↔ (c ≤ (d : Int) ∧ (d : Int) < it.lo) := by
          intro d
          constructor
          · rintro ⟨a, b⟩
            have := b _ rfl
            omega
          · rintro ⟨a, b⟩
            refine ⟨by omega, fun h' hh => ?_⟩
            injection hh with hh
            omega
        refine ⟨by omega, ?_, fun d => ?_⟩
        · intro x hx d hd
          rcases List.mem_cons.1 hx with rfl | hx
          · have := hd.2 h hhi; omega
          · exact i2 x hx d hd
        · rw [i3 d, optRanges_addNode, inRanges_append, inRanges_single, hleaf]
          constructor
          · rintro ((hn | ⟨h1, h2⟩) | ⟨h1, h2, h3⟩)
            · exact Or.inl hn
            · refine Or.inr ⟨h1, by omega, ?_⟩
              rintro ⟨x, hx, hd⟩
              rcases List.mem_cons.1 hx with rfl | hx
              · have := hd.1; omega
              · have := hs'.1 x hx; have := hd.1; omega
            · refine Or.inr ⟨by omega, h2, ?_⟩
              rintro ⟨x, hx, hd⟩
              rcases List.mem_cons.1 hx with rfl | hx
              · exact hnotit d h1 hd
              · exact h3 ⟨x, hx, hd⟩
          · rintro (hn | ⟨h1, h2, h3⟩)
            · exact Or.inl (Or.inl hn)
            · by_cases hlt : (d : Int) < it.lo
              · exact Or.inl (Or.inr ⟨h1, hlt⟩)
              · refine Or.inr ⟨?_, h2, fun ⟨x, hx, hd⟩ => h3 ⟨x, List.mem_cons_of_mem _ hx, hd⟩⟩
                by_cases hle : (d : Int) ≤ h
                · exfalso
                  apply h3
                  refine ⟨it, List.mem_cons_self .., ?_, ?_⟩
                  · show it.lo ≤ d; omega
                  · intro h' hh'; rw [hhi] at hh'; cases hh'; omega
                · omega
      · simp only [hroom, if_false]
        obtain ⟨i1, i2, i3⟩ := bracketBuild_neg pos negs rest node ((h : Int) + 1) hc1 hs'.2 hh'
        refine ⟨by omega, ?_, fun d => ?_⟩
        · intro x hx d hd
          rcases List.mem_cons.1 hx with rfl | hx
          · have := hd.2 h hhi; omega
          · exact i2 x hx d hd
        · rw [i3 d]
          constructor
          · rintro (hn | ⟨h1, h2, h3⟩)
            · exact Or.inl hn
            · refine Or.inr ⟨by omega, h2, ?_⟩
              rintro ⟨x, hx, hd⟩
              rcases List.mem_cons.1 hx with rfl | hx
              · exact hnotit d h1 hd
              · exact h3 ⟨x, hx, hd⟩
          · rintro (hn | ⟨h1, h2, h3⟩)
            · exact Or.inl hn
            · refine Or.inr ⟨?_, h2, fun ⟨x, hx, hd⟩ => h3 ⟨x, List.mem_cons_of_mem _ hx, hd⟩⟩
              by_cases hle : (d : Int) ≤ h
              · exfalso
                apply h3
                refine ⟨it, List.mem_cons_self .., ?_, ?_⟩
                · show it.lo ≤ d; omega
                · intro h' hh'; rw [hhi] at hh'; cases hh'; omega
              · omega

/-- **a negated bracket expression is the complement of its items**: the leaves `tre_parse_bracket` builds for
`[^…]` from the sorted item array, together with the final `curr_min .. TRE_CHAR_MAX` literal, contain a code `d`
exactly when no item contains it — for every list of items (sorted by `code_min`, as `hawk_qsort` leaves them) -/
theorem negated_bracket_is_complement (pos : Nat) (negs : List CClass) (items : List Item)
    (hs : items.Pairwise (fun x y => x.lo ≤ y.lo)) (hh : ∀ it ∈ items, ∃ h, it.hi = some h ∧ it.lo ≤ h) (d : Nat) :
    let r := bracketBuild true pos negs items none 0 0
    inRanges (optRanges (addNode r.1 (.leaf (.lit ⟨r.2.toNat, none, pos, none, negs⟩) none 0))) d ↔
      ¬ ∃ it ∈ items, it.has d := by
  intro r
  obtain ⟨i1, i2, i3⟩ := bracketBuild_neg pos negs items none 0 (Int.le_refl 0) hs hh
  rw [optRanges_addNode, inRanges_append, inRanges_single, i3 d]
  simp only [optRanges, inRanges, List.not_mem_nil, false_and, exists_false, false_or]
  constructor
  · rintro (⟨_, _, h3⟩ | ⟨h1, _⟩)
    · exact h3
    · rintro ⟨x, hx, hd⟩
      have := i2 x hx d hd
      have h1' : r.2.toNat ≤ d := h1
      have : r.2 = (bracketBuild true pos negs items none 0 0).2 := rfl
      omega
  · intro h3
    by_cases hlt : (d : Int) < (bracketBuild true pos negs items none 0 0).2
    · exact Or.inl ⟨by omega, hlt, h3⟩
    · refine Or.inr ⟨?_, by simp⟩
      show r.2.toNat ≤ d
      have : r.2 = (bracketBuild true pos negs items none 0 0).2 := rfl
      omega

/-- insertion keeps a list sorted by `code_min`, so `sortItems` (the model of `hawk_qsort` + `tre_compare_items`)
returns a sorted list -/
theorem insertItem_sorted (x : Item) : ∀ (l : List Item), l.Pairwise (fun a b => a.lo ≤ b.lo) →
    (insertItem x l).Pairwise (fun a b => a.lo ≤ b.lo) ∧ ∀ y ∈ insertItem x l, y = x ∨ y ∈ l
  | [], _ => by simp [insertItem]
  | y :: l, h => by
    have h' := List.pairwise_cons.1 h
    unfold insertItem
    by_cases hxy : x.lo < y.lo
    · simp only [hxy, if_true]
      refine ⟨List.pairwise_cons.2 ⟨?_, h⟩, ?_⟩
      · intro z hz
        rcases List.mem_cons.1 hz with rfl | hz
        · omega
        · have := h'.1 z hz; omega
      · intro z hz
        rcases List.mem_cons.1 hz with rfl | hz
        · exact Or.inl rfl
        · exact Or.inr hz
    · simp only [hxy, if_false]
      obtain ⟨ih1, ih2⟩ := insertItem_sorted x l h'.2
      refine ⟨List.pairwise_cons.2 ⟨?_, ih1⟩, ?_⟩
      · intro z hz
        rcases ih2 z hz with rfl | hz
        · omega
        · exact h'.1 z hz
      · intro z hz
        rcases List.mem_cons.1 hz with rfl | hz
        · exact Or.inr (List.mem_cons_self ..)
        · rcases ih2 z hz with rfl | hz
          · exact Or.inl rfl
          · exact Or.inr (List.mem_cons_of_mem _ hz)

theorem insertItem_mem (x y : Item) : ∀ (l : List Item), y ∈ insertItem x l ↔ y = x ∨ y ∈ l
  | [] => by simp [insertItem]
  | z :: l => by
    unfold insertItem
    by_cases hxz : x.lo < z.lo
    · simp [hxz]
    · simp only [hxz, if_false, List.mem_cons, insertItem_mem x y l]
      constructor
      · rintro (h | h | h)
        · exact Or.inr (Or.inl h)
        · exact Or.inl h
        · exact Or.inr (Or.inr h)
      · rintro (h | h | h)
        · exact Or.inr (Or.inl h)
        · exact Or.inl h
        · exact Or.inr (Or.inr h)

theorem foldl_insert_sorted : ∀ (l acc : List Item), acc.Pairwise (fun a b => a.lo ≤ b.lo) →
    (l.foldl (fun acc x => insertItem x acc) acc).Pairwise (fun a b => a.lo ≤ b.lo) ∧
    ∀ y, y ∈ l.foldl (fun acc x => insertItem x acc) acc ↔ y ∈ acc ∨ y ∈ l
  | [], acc, h => by simp [h]
  | x :: l, acc, h => by
    simp only [List.foldl_cons]
    obtain ⟨i1, i2⟩ := foldl_insert_sorted l (insertItem x acc) (insertItem_sorted x acc h).1
    refine ⟨i1, fun y => ?_⟩
    rw [i2 y, insertItem_mem, List.mem_cons]
    constructor
    · rintro ((h | h) | h)
      · exact Or.inr (Or.inl h)
      · exact Or.inl h
      · exact Or.inr (Or.inr h)
    · rintro (h | h | h)
      · exact Or.inl (Or.inr h)
      · exact Or.inl (Or.inl h)
      · exact Or.inr h

/-- the model of `hawk_qsort(items, …, tre_compare_items)`: sorted by `code_min`, same items -/
theorem sortItems_spec (l : List Item) :
    (sortItems l).Pairwise (fun a b => a.lo ≤ b.lo) ∧ ∀ y, y ∈ sortItems l ↔ y ∈ l := by
  obtain ⟨h1, h2⟩ := foldl_insert_sorted l [] List.Pairwise.nil
  exact ⟨h1, fun y => by rw [sortItems, h2 y]; simp⟩

end Hawk.Rex.Tre
