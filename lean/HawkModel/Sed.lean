/-
  Reference executor for hawk-sed (lib/sed.c), at command granularity.

  What is transcribed from the C, branch by branch:
    * `match_a` / `match_address`  (the a1_matched / c_ready range machine incl. the two
      line-number special cases)                                  -> `matchA`, `rangeStep`, `matchAddress`
    * `exec_cmd`                                                  -> `execCmd`
    * `do_subst` (occurrence, g, p, w, empty-regex reuse, empty-match stepping,
      `&` and `\1`..`\9` in the replacement)                      -> `substLoop`, `doSubst`
    * `emit_output`, `emit_appends`, `read_line`, the main loop of `hawk_sed_exec`
                                                                  -> `emitOutput`, `cycleRun`, `execLoop`, `exec`
    * `{`/`}`/label resolution of `get_command` + `init_command_block_for_exec` -> `compile`
    * `write_str_clearly` (the `l` command)                        -> `clearly`

  Representation (same as the C): pattern space and hold space are strings that INCLUDE the
  trailing newline of the line (`read_line` keeps it), the hold space starts as "\n", the last
  input line may lack the newline.  `G`/`H`/`N` therefore are plain concatenations.

  The regex engine is a PARAMETER (`Matcher`): `m pat subject start` returns the leftmost match
  at or after `start` in `subject` (with `^` anchored at offset 0 only = HAWK_TRE_NOTBOL for
  start > 0).  The model only ever calls it through `Matcher.at`, which discards answers that
  violate the interface law (start ≤ match start, match inside the subject), so every theorem
  holds for every matcher.

  Branch loops: `cycleRun` takes a fuel argument bounding the number of command steps per cycle
  (a `D` restart stays in the same cycle) and reports `Status.outOfFuel` explicitly; a backward jump
  taken while the buffers exceed `cap` characters is reported the same way (a loop blowing the buffers up).

  Behaviour repaired in /repo by this work (the model follows the repaired code; see patches/ of the
  verification tree): c with -n, c with a negated range, addr,$ beginning on the last line, `l` on a
  1-char unterminated line, N at end of input (POSIX: no print), missing newline of the last input line
  (output glue, G/H separator).
  The script-text compiler (hawk_sed_comp, pickup_rex, get_text ...) is transcribed in HawkModel/SedParse.lean.
  Not modelled in the executor: R/W/Q/z/C commands, the k flag,
  the I modifier, -b extended addresses (first~step, addr,+N, addr,~N, 0,/re/).  CR-LF stripping IS
  modelled (`trimLine`).  The fields `ropened`, `rline`, `unspec` of the state are bookkeeping for the
  evidence (they mark POSIX-unspecified situations) and are never read by the executor.
-/
namespace Hawk.Sed

abbrev Str := List Char

/-! ## regex interface -/

structure MatchRes where
  start : Nat
  len : Nat
  /-- `\1`..`\9` as (start,len) in the subject; a missing group is (0,0) like the zeroed `submat` -/
  groups : List (Nat × Nat)
deriving Repr, DecidableEq

/-- `m pattern subject start` -/
abbrev Matcher := Str → Str → Nat → Option MatchRes

/-- the matcher as the model uses it: answers violating the interface law are dropped -/
def Matcher.at (m : Matcher) (p s : Str) (pos : Nat) : Option MatchRes :=
  match m p s pos with
  | some r => if pos ≤ r.start ∧ r.start + r.len ≤ s.length then some r else none
  | none => none

/-! ## scripts -/

inductive Addr where
  | none
  | line (n : Nat)
  | last
  | re (p : Str)
deriving Repr, DecidableEq

inductive Op where
  | noop
  | quit
  | append (t : Str)
  | insert (t : Str)
  | change (t : Str)
  | deleteFirst
  | delete
  | lineno
  | print
  | printFirst
  | list
  | hold
  | holdAppend
  | get
  | getAppend
  | xchg
  | next
  | nextAppend
  | wfile (f : Str)
  /-- `r file`: the file as it is found when the queue is flushed (`none` = cannot be opened: silently nothing).
      The file system is not part of the state: read files are never written by the script (the generator keeps
      `r` and `w` names apart), so the content is fixed for the run and travels with the command. -/
  | readFile (f : Str) (content : Option Str)
  | branch (target : Nat)
  | tbranch (target : Nat)
  | subst (re rpl : Str) (g : Bool) (occ : Nat) (p : Bool) (w : Option Str)
  | trans (pairs : List (Char × Char))
deriving Repr, DecidableEq

structure Cmd where
  a1 : Addr := .none
  a2 : Addr := .none
  neg : Bool := false
  op : Op
deriving Repr, DecidableEq

abbrev Prog := List Cmd

/-! ### source-level commands and the label / block resolution of the compiler -/

inductive SOp where
  | label (name : Str)
  | lbrace
  | rbrace
  | b (label : Option Str)
  | t (label : Option Str)
  | op (o : Op)
deriving Repr, DecidableEq

structure SCmd where
  a1 : Addr := .none
  a2 : Addr := .none
  neg : Bool := false
  op : SOp
deriving Repr, DecidableEq

inductive CompErr where
  | addrOnLabel      -- HAWK_SED_EA1PHB
  | unbalanced       -- HAWK_SED_EGRNBA
  | dupLabel         -- HAWK_SED_ELABDU
  | noLabel          -- HAWK_SED_ELABNF (detected by init_command_block_for_exec before any input is read)
  | badAddr          -- HAWK_SED_EA1MOI / EA2MOI (line 0, second address without first)
  | badOcc           -- HAWK_SED_EOCSZE
deriving Repr, DecidableEq

/-- index of the `}` matching a `{` whose body starts at `rest` (first index `idx`) -/
def matchBrace : List SCmd → Nat → Nat → Option Nat
  | [], _, _ => none
  | c :: rest, depth, idx =>
    match c.op with
    | .lbrace => matchBrace rest (depth + 1) (idx + 1)
    | .rbrace => if depth = 0 then some idx else matchBrace rest (depth - 1) (idx + 1)
    | _ => matchBrace rest depth (idx + 1)

def findLabel : List SCmd → Str → Nat → Option Nat
  | [], _, _ => none
  | c :: rest, name, idx =>
    match c.op with
    | .label n => if n = name then some idx else findLabel rest name (idx + 1)
    | _ => findLabel rest name (idx + 1)

def countLabel (src : List SCmd) (name : Str) : Nat :=
  (src.filter fun c => c.op = .label name).length

/-- group nesting never goes negative and ends at 0 -/
def balanced : List SCmd → Nat → Bool
  | [], d => d = 0
  | c :: rest, d =>
    match c.op with
    | .lbrace => balanced rest (d + 1)
    | .rbrace => d > 0 && balanced rest (d - 1)
    | _ => balanced rest d

def addrOk (c : SCmd) : Bool :=
  (match c.a1 with | .line 0 => false | _ => true) &&
  (match c.a1, c.a2 with | .none, .none => true | .none, _ => false | _, _ => true)

/-- one command; `rest` = the commands after it, `idx` its index, `all` the whole script -/
def compileOne (all : List SCmd) (c : SCmd) (rest : List SCmd) (idx : Nat) : Except CompErr Cmd :=
  if !addrOk c then .error .badAddr else
  match c.op with
  | .label name =>
    if c.a1 ≠ .none then .error .addrOnLabel
    else if name ≠ [] ∧ countLabel all name > 1 then .error .dupLabel
    else .ok { op := .noop }
  | .rbrace =>
    if c.a1 ≠ .none then .error .addrOnLabel else .ok { op := .noop }
  | .lbrace =>
    match matchBrace rest 0 (idx + 1) with
    | some j => .ok { a1 := c.a1, a2 := c.a2, neg := !c.neg, op := .branch j }
    | none => .error .unbalanced
  | .b none => .ok { a1 := c.a1, a2 := c.a2, neg := c.neg, op := .branch all.length }
  | .t none => .ok { a1 := c.a1, a2 := c.a2, neg := c.neg, op := .tbranch all.length }
  | .b (some l) =>
    match findLabel all l 0 with
    | some j => .ok { a1 := c.a1, a2 := c.a2, neg := c.neg, op := .branch j }
    | none => .error .noLabel
  | .t (some l) =>
    match findLabel all l 0 with
    | some j => .ok { a1 := c.a1, a2 := c.a2, neg := c.neg, op := .tbranch j }
    | none => .error .noLabel
  | .op (.subst re rpl g occ p w) =>
    -- get_subst: `if (g == 0 && occ == 0) occ = 1`
    .ok { a1 := c.a1, a2 := c.a2, neg := c.neg, op := .subst re rpl g (if !g ∧ occ = 0 then 1 else occ) p w }
  | .op o => .ok { a1 := c.a1, a2 := c.a2, neg := c.neg, op := o }

def compileGo (all : List SCmd) : List SCmd → Nat → Except CompErr Prog
  | [], _ => .ok []
  | c :: rest, idx =>
    match compileOne all c rest idx with
    | .error e => .error e
    | .ok k =>
      match compileGo all rest (idx + 1) with
      | .error e => .error e
      | .ok ks => .ok (k :: ks)

def compile (src : List SCmd) : Except CompErr Prog :=
  if !balanced src 0 then .error .unbalanced else compileGo src src 0

/-! ## execution state -/

structure St where
  /-- remaining input lines, each with its '\n' (the last one possibly without) -/
  input : List Str
  ps : Str := []
  hold : Str := ['\n']
  lineno : Nat := 0
  substDone : Bool := false
  lastRe : Option Str := none
  /-- queued `a` texts -/
  appq : List Str := []
  out : Str := []
  files : List (Str × Str) := []
  /-- `cmd->state.a1_matched`, per command index -/
  rstate : List Bool := []
  /-- bookkeeping for the evidence only (never read by the executor): has the range of command i ever opened -/
  ropened : List Bool := []
  /-- bookkeeping for the evidence only: input line number at which the range of command i was last evaluated -/
  rline : List Nat := []
  /-- POSIX-unspecified situations met (1 = numeric addr1 of a range skipped, 2 = `l` on a non-printable
      character / embedded newline, 3 = `w` after an unterminated line, 4 = see noteCollision, 5 = q while the output ends in an unterminated line,
      6 = a range evaluated twice on one input line after a D restart / backward branch); never read by the executor -/
  unspec : List Nat := []
deriving Repr, DecidableEq

def endsNl (s : Str) : Bool := s.getLast? = some '\n'

/-- write to a stream whose last line may be unterminated (the last input line without newline):
    the missing newline is supplied before anything else is written (GNU `output_missing_newline`) -/
def emit (out s : Str) : Str :=
  if s = [] then out
  else if out = [] ∨ endsNl out then out ++ s
  else out ++ '\n' :: s

/-- a buffer that is about to get something appended by G / H -/
def termin (s : Str) : Str := if endsNl s then s else s ++ ['\n']

/-- `trim_line`: the line body and its terminator ("\n", "\r\n" or nothing) -/
def trimLine (s : Str) : Str × Str :=
  if endsNl s then
    let b := s.dropLast
    if b.getLast? = some '\r' then (b.dropLast, ['\r', '\n']) else (b, ['\n'])
  else (s, [])

def slice (s : Str) (st len : Nat) : Str := (s.drop st).take len

/-! ## substitution (`do_subst`) -/

def groupText (s : Str) (r : MatchRes) (i : Nat) : Str :=
  match r.groups[i]? with
  | some (st, len) => slice s st len
  | none => []

/-- the replacement loop of do_subst: `\1`..`\9`, `\c` = c, `&` = the match -/
def expandRpl (s : Str) (r : MatchRes) : Str → Str
  | [] => []
  | '\\' :: nc :: rest =>
    (if '1' ≤ nc ∧ nc ≤ '9' then groupText s r (nc.toNat - '1'.toNat) else [nc]) ++ expandRpl s r rest
  | c :: rest =>
    (if c = '&' then slice s r.start r.len else [c]) ++ expandRpl s r rest

/-- the `while (cur.ptr <= str_end)` loop; returns the text produced for `s[pos..]` and whether a
    replacement was made.  `cnt` = sub_count, `pm` = end of the previous match (pmat), `maxc` = max_count. -/
def substLoop (m : Matcher) (re rpl : Str) (maxc : Nat) (s : Str) (pos cnt : Nat) (pm : Option Nat) : Str × Bool :=
  if hpos : pos ≤ s.length then
    if maxc = 0 ∨ cnt < maxc then
      match hm : m.at re s pos with
      | none => (s.drop pos, false)                   -- no more match: copy the remaining portion
      | some r =>
        have hlaw : pos ≤ r.start ∧ r.start + r.len ≤ s.length := by
          unfold Matcher.at at hm
          split at hm
          · split at hm
            · cases hm; assumption
            · cases hm
          · cases hm
        if r.len = 0 ∧ pm = some r.start then
          -- empty match at the end of the previous match: skip_one_char
          let rest := substLoop m re rpl maxc s (pos + 1) cnt pm
          (slice s pos 1 ++ rest.1, rest.2)
        else
          let e := r.start + r.len
          let adv := if r.len = 0 then 1 else 0
          let rest := substLoop m re rpl maxc s (e + adv) (cnt + 1) (some e)
          let skipped := if r.len = 0 then slice s e 1 else []
          if maxc > 0 ∧ cnt + 1 ≠ maxc then
            -- not the wanted occurrence yet: copy unmatched and matched portion
            (slice s pos (r.start - pos + r.len) ++ skipped ++ rest.1, rest.2)
          else
            (slice s pos (r.start - pos) ++ expandRpl s r rpl ++ skipped ++ rest.1, true)
    else (s.drop pos, false)                           -- occurrence already substituted
  else ([], false)
termination_by s.length + 1 - pos
decreasing_by
  all_goals simp_wf
  all_goals (try split) <;> omega

/-- do_subst on the pattern space: (new pattern space, replacement made) -/
def doSubst (m : Matcher) (re rpl : Str) (g : Bool) (occ : Nat) (ps : Str) : Str × Bool :=
  let bt := trimLine ps
  let r := substLoop m re rpl (if g then 0 else occ) bt.1 0 0 none
  (r.1 ++ bt.2, r.2)

/-! ## `y` -/

def transChar (pairs : List (Char × Char)) (c : Char) : Char :=
  match pairs with
  | [] => c
  | (a, b) :: rest => if c = a then b else transChar rest c

def doTrans (pairs : List (Char × Char)) (ps : Str) : Str :=
  let bt := trimLine ps
  bt.1.map (transChar pairs) ++ bt.2

/-! ## `l` (write_str_clearly) -/

def hexDigit (n : Nat) : Char := "0123456789ABCDEF".toList.getD n '0'

def hex4 (n : Nat) : Str :=
  [hexDigit (n / 4096 % 16), hexDigit (n / 256 % 16), hexDigit (n / 16 % 16), hexDigit (n % 16)]

def isPrint (c : Char) : Bool := (32 ≤ c.toNat ∧ c.toNat < 127) ∨ 160 ≤ c.toNat

def clearly1 (c : Char) : Str :=
  if c = '\\' then ['\\', '\\']
  else if c = '\n' then ['$', '\n']
  else if c = '\x07' then ['\\', 'a']
  else if c = '\x08' then ['\\', 'b']
  else if c = '\x0c' then ['\\', 'f']
  else if c = '\r' then ['\\', 'r']
  else if c = '\t' then ['\\', 't']
  else if c = '\x0b' then ['\\', 'v']
  else if isPrint c then [c]
  else '\\' :: 'u' :: hex4 c.toNat

def clearly (s : Str) : Str :=
  s.flatMap clearly1 ++ (if endsNl s then [] else ['$', '\n'])

/-- is `l` on this pattern space inside the property ("short printable lines")? -/
def listSpecified (ps : Str) : Bool :=
  (trimLine ps).1.all fun c => (32 ≤ c.toNat ∧ c.toNat < 127) ∨ (7 ≤ c.toNat ∧ c.toNat ≤ 9) ∨ c.toNat = 11 ∨ c.toNat = 12

/-! ## addresses -/

/-- `match_a`; none = HAWK_SED_ENPREX (empty regex with no previous regex) -/
def matchA (m : Matcher) (a : Addr) (st : St) : Option (St × Bool) :=
  match a with
  | .none => some (st, true)
  | .line n => some (st, st.lineno = n)
  | .last => some (st, st.input.isEmpty)
  | .re p =>
    let line := (trimLine st.ps).1
    if p = [] then
      match st.lastRe with
      | none => none
      | some q => some (st, (m.at q line 0).isSome)
    else some ({ st with lastRe := some p }, (m.at p line 0).isSome)

/-- what the range machine needs to know about the second address -/
inductive A2Kind where
  | line (n : Nat)
  | last
  | other
deriving Repr, DecidableEq

def Addr.kind : Addr → A2Kind
  | .line n => .line n
  | .last => .last
  | _ => .other

/-- one evaluation of a two-address command: the current line number, whether addr1 / addr2 match the
    pattern space, and whether this is the last input line -/
structure RangeObs where
  lineno : Nat
  m1 : Bool
  m2 : Bool
  isLast : Bool
deriving Repr, DecidableEq

/-- a range that begins here ends here as well: addr2 is a line number ≤ the current line, or `$` on the last line -/
def oneLine (k : A2Kind) (o : RangeObs) : Bool :=
  match k with
  | .line n => decide (o.lineno ≥ n)
  | .last => o.isLast
  | .other => false

/-- a line-number addr2 that has been passed without being seen (e.g. consumed by N) -/
def passed (k : A2Kind) (o : RangeObs) : Bool :=
  match k with
  | .line n => decide (o.lineno > n)
  | _ => false

/-- the two-address branch of `match_address` as a pure step: (a1_matched', selected, c_ready) -/
def rangeStep (k : A2Kind) (active : Bool) (o : RangeObs) : Bool × Bool × Bool :=
  if active then
    if o.m2 then (false, true, true)                       -- exit the range
    else if passed k o then (false, false, false)          -- second address skipped: leave, not selected
    else (true, true, false)                               -- still in the range
  else
    if !o.m1 then (false, false, false)
    else if oneLine k o then (false, true, true)           -- one-line range
    else (true, true, false)

/-- `match_address`: (state, selected, c_ready); none = error -/
def matchAddress (m : Matcher) (c : Cmd) (pc : Nat) (st : St) : Option (St × Bool × Bool) :=
  if c.a1 = .none then some (st, true, true)
  else if c.a2 = .none then
    -- single address
    match matchA m c.a1 st with
    | none => none
    | some (st', b) => some (st', b, true)
  else
    -- two addresses
    let active := st.rstate.getD pc false
    match matchA m (if active then c.a2 else c.a1) st with
    | none => none
    | some (st', b) =>
      let r := rangeStep c.a2.kind active ⟨st.lineno, b, b, st.input.isEmpty⟩
      let skipped := !active && !b && !(st.ropened.getD pc false) &&
                     (match c.a1 with | .line n => decide (st.lineno > n) | _ => false)
      let again := st.rline.getD pc 0 = st.lineno
      some ({ st' with rstate := st'.rstate.set pc r.1,
                       ropened := if !active && b then st'.ropened.set pc true else st'.ropened,
                       rline := st'.rline.set pc st.lineno,
                       unspec := st'.unspec ++ (if skipped then [1] else []) ++ (if again then [6] else []) }, r.2.1, r.2.2)

/-! ## commands -/

inductive Jump where
  | next
  | goto (i : Nat)
  | over
  | again
  | quit
  | fail
deriving Repr, DecidableEq

/-- `emit_output`: autoprint (unless skipped or -n), then the append queue -/
def emitOutput (quiet : Bool) (st : St) (skipline : Bool) : St :=
  let out1 := if !skipline && !quiet then emit st.out st.ps else st.out
  { st with out := st.appq.foldl emit out1, appq := [] }

def firstLine : Str → Str
  | [] => []
  | c :: rest => if c = '\n' then [c] else c :: firstLine rest

/-- text after the first newline, if there is a newline -/
def afterFirstNl : Str → Option Str
  | [] => none
  | c :: rest => if c = '\n' then some rest else afterFirstNl rest

def writeFile (st : St) (f s : Str) : St :=
  match st.files.lookup f with
  | some old =>
    { st with files := (st.files.filter fun e => e.1 ≠ f) ++ [(f, old ++ s)],
              unspec := if old ≠ [] ∧ !endsNl old ∧ s ≠ [] then st.unspec ++ [3] else st.unspec }
  | none => { st with files := st.files ++ [(f, s)] }

/-- evidence only: an unterminated last line that s / y empties or makes end in a newline can no longer be told
    from a terminated line in hawk-sed's buffers (unspec 4) -/
def noteCollision (st : St) (newPs : Str) : List Nat :=
  if !endsNl st.ps ∧ (newPs = [] ∨ endsNl newPs) then st.unspec ++ [4] else st.unspec

/-- `exec_cmd` (`cready` = cmd->state.c_ready as left by match_address) -/
def execCmd (m : Matcher) (quiet : Bool) (op : Op) (cready : Bool) (st : St) : St × Jump :=
  match op with
  | .noop => (st, .next)
  | .quit => (st, .quit)
  | .append t => ({ st with appq := st.appq ++ [t] }, .next)
  | .insert t => ({ st with out := emit st.out t }, .next)
  | .change t =>
    (if cready then { st with out := emit st.out t, ps := [] } else { st with ps := [] }, .over)
  | .deleteFirst =>
    match afterFirstNl st.ps with
    | some rest => if rest ≠ [] then ({ st with ps := rest }, .again) else ({ st with ps := [] }, .over)
    | none => ({ st with ps := [] }, .over)
  | .delete => ({ st with ps := [] }, .over)
  | .lineno => ({ st with out := emit st.out (toString st.lineno).toList ++ ['\n'] }, .next)
  | .print => ({ st with out := emit st.out st.ps }, .next)
  | .printFirst => ({ st with out := emit st.out (firstLine st.ps) }, .next)
  | .list =>
    ({ st with out := emit st.out (clearly st.ps),
               unspec := if listSpecified st.ps then st.unspec else st.unspec ++ [2] }, .next)
  | .hold => ({ st with hold := st.ps }, .next)
  | .holdAppend => ({ st with hold := termin st.hold ++ st.ps }, .next)
  | .get => ({ st with ps := st.hold }, .next)
  | .getAppend => ({ st with ps := termin st.ps ++ st.hold }, .next)
  | .xchg => ({ st with ps := st.hold, hold := st.ps }, .next)
  | .next =>
    let st := emitOutput quiet st false
    match st.input with
    | [] => ({ st with ps := [] }, .over)
    | l :: r => ({ st with input := r, ps := l, lineno := st.lineno + 1, substDone := false }, .next)
  | .nextAppend =>
    let st := emitOutput quiet st true
    match st.input with
    | [] => ({ st with ps := [] }, .over)      -- POSIX: quit without copying the pattern space to the output
    | l :: r => ({ st with input := r, ps := st.ps ++ l, lineno := st.lineno + 1, substDone := false }, .next)
  | .wfile f => (writeFile st f st.ps, .next)
  -- link_append; emit_append/write_file copy the file at the end of the cycle, nothing if it cannot be opened
  | .readFile _ content => ({ st with appq := st.appq ++ [content.getD []] }, .next)
  | .branch t => (st, .goto t)
  | .tbranch t => if st.substDone then ({ st with substDone := false }, .goto t) else (st, .next)
  | .subst re rpl g occ p w =>
    let rex? : Option Str := if re = [] then st.lastRe else some re
    match rex? with
    | none => (st, .fail)
    | some rex =>
      let r := doSubst m rex rpl g occ st.ps
      let st := { st with ps := r.1, lastRe := some rex, unspec := noteCollision st r.1 }
      if r.2 then
        let st := if p then { st with out := emit st.out st.ps } else st
        let st := match w with | some f => writeFile st f st.ps | none => st
        ({ st with substDone := true }, .next)
      else (st, .next)
  | .trans pairs => ({ st with ps := doTrans pairs st.ps, unspec := noteCollision st (doTrans pairs st.ps) }, .next)

/-! ## the cycle -/

inductive CycleEnd where
  | over (st : St)
  | quit (st : St)
  | fail (st : St)
  | outOfFuel (st : St)
deriving Repr, DecidableEq

def CycleEnd.st : CycleEnd → St
  | .over s | .quit s | .fail s | .outOfFuel s => s

def tooBig (cap : Nat) (st : St) : Bool := st.ps.length + st.hold.length + st.out.length > cap

/-- the `while (c != &sed->cmd.over)` loop; a pc at or beyond the end of the program is `cmd.over` -/
def cycleRun (m : Matcher) (prog : Prog) (quiet : Bool) (cap : Nat) : Nat → Nat → St → CycleEnd
  | 0, _, st => .outOfFuel st
  | fuel + 1, pc, st =>
    match prog[pc]? with
    | none => .over st
    | some c =>
      match matchAddress m c pc st with
      | none => .fail st
      | some (st1, sel, cready) =>
        -- `if (c->negated) { n = !n; c->state.c_ready = 1; }`
        if (if c.neg then !sel else sel) then
          match execCmd m quiet c.op (cready || c.neg) st1 with
          | (st2, .next) => cycleRun m prog quiet cap fuel (pc + 1) st2
          | (st2, .goto i) =>
            -- resource bound of the model (not in the C): a loop that blows the buffers up counts as divergence
            if i ≤ pc ∧ tooBig cap st2 then .outOfFuel st2 else cycleRun m prog quiet cap fuel i st2
          | (st2, .over) => .over st2
          | (st2, .again) => if tooBig cap st2 then .outOfFuel st2 else cycleRun m prog quiet cap fuel 0 st2
          | (st2, .quit) => .quit st2
          | (st2, .fail) => .fail st2
        else cycleRun m prog quiet cap fuel (pc + 1) st1

inductive Status where
  | ok
  | error
  | outOfFuel
deriving Repr, DecidableEq

structure Result where
  out : Str
  files : List (Str × Str)
  status : Status
  unspec : List Nat
  /-- final hold space (observed by theorems only) -/
  hold : Str
deriving Repr, DecidableEq

def finish (st : St) (s : Status) : Result :=
  { out := st.out, files := st.files, status := s, unspec := st.unspec, hold := st.hold }

/-- the `while (!haltreq)` loop of hawk_sed_exec.  `budget` bounds the number of cycles; every cycle
    consumes at least one input line, so `budget = number of input lines` never cuts anything off. -/
def execLoop (m : Matcher) (prog : Prog) (quiet : Bool) (cap fuel : Nat) : Nat → St → Result
  | 0, st => finish st .ok
  | budget + 1, st =>
    match st.input with
    | [] => finish st .ok
    | l :: rest =>
      let st1 := { st with input := rest, ps := l, lineno := st.lineno + 1, substDone := false }
      match cycleRun m prog quiet cap fuel 0 st1 with
      | .over st2 => execLoop m prog quiet cap fuel budget (emitOutput quiet st2 false)
      | .quit st2 =>
        let st3 := emitOutput quiet st2 false
        -- evidence only (unspec 5): GNU sed supplies a missing final newline when it quits
        finish (if st3.out ≠ [] ∧ !endsNl st3.out then { st3 with unspec := st3.unspec ++ [5] } else st3) .ok
      | .fail st2 => finish st2 .error
      | .outOfFuel st2 => finish st2 .outOfFuel

def wfilesOf : Prog → List Str
  | [] => []
  | c :: rest =>
    match c.op with
    | .wfile f => f :: wfilesOf rest
    | .subst _ _ _ _ _ (some f) => f :: wfilesOf rest
    | _ => wfilesOf rest

/-- output files are opened (created empty) before the first line is read -/
def initFiles (names : List Str) : List (Str × Str) :=
  names.eraseDups.map fun n => (n, [])

def initSt (prog : Prog) (input : List Str) : St :=
  { input := input, files := initFiles (wfilesOf prog),
    rstate := List.replicate prog.length false, ropened := List.replicate prog.length false,
    rline := List.replicate prog.length 0 }

/-- `Sed.exec script opts(-n) cap fuel input`: `fuel` = command steps per cycle, `cap` = buffer size beyond which a
    backward jump is reported as out of fuel -/
def exec (m : Matcher) (prog : Prog) (quiet : Bool) (cap fuel : Nat) (input : List Str) : Result :=
  execLoop m prog quiet cap fuel input.length (initSt prog input)

/-- from source-level commands: rejected at compile time, or executed -/
def run (m : Matcher) (src : List SCmd) (quiet : Bool) (cap fuel : Nat) (input : List Str) : Except CompErr Result :=
  match compile src with
  | .error e => .error e
  | .ok prog => .ok (exec m prog quiet cap fuel input)

/-- split a text into lines, each keeping its '\n' -/
def splitLines : Str → List Str
  | [] => []
  | c :: rest =>
    if c = '\n' then ['\n'] :: splitLines rest
    else
      match splitLines rest with
      | [] => [[c]]
      | l :: ls => (c :: l) :: ls

end Hawk.Sed
