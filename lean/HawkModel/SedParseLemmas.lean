import HawkModel.SedParse
/-!
  Lemmas about the script compiler (HawkModel/SedParse.lean) and the label / brace resolution (`compile`).
-/
namespace Hawk.Sed

theorem Except.map_eq_ok {ε α β : Type} {f : α → β} {x : Except ε α} {b : β} :
    Except.map f x = .ok b ↔ ∃ a, x = .ok a ∧ f a = b := by
  cases x <;> simp [Except.map]

/-! ## `compile`: lengths and branch targets -/

theorem findLabel_range (l : List SCmd) (name : Str) (idx j : Nat) (h : findLabel l name idx = some j) :
    idx ≤ j ∧ j < idx + l.length := by
  induction l generalizing idx with
  | nil => simp [findLabel] at h
  | cons c rest ih =>
    unfold findLabel at h
    split at h
    · split at h
      · cases h; simp
      · have := ih _ h; simp; omega
    · have := ih _ h; simp; omega

theorem matchBrace_range (l : List SCmd) (d idx j : Nat) (h : matchBrace l d idx = some j) :
    idx ≤ j ∧ j < idx + l.length := by
  induction l generalizing d idx with
  | nil => simp [matchBrace] at h
  | cons c rest ih =>
    unfold matchBrace at h
    split at h
    · have := ih _ _ h; simp; omega
    · split at h
      · cases h; simp
      · have := ih _ _ h; simp; omega
    · have := ih _ _ h; simp; omega

/-- the labels found by `findLabel` are label commands -/
theorem findLabel_is_label (l : List SCmd) (name : Str) (idx j : Nat) (h : findLabel l name idx = some j) :
    ∃ c, l[j - idx]? = some c ∧ c.op = .label name := by
  induction l generalizing idx with
  | nil => simp [findLabel] at h
  | cons c rest ih =>
    unfold findLabel at h
    split at h
    · rename_i n hn
      split at h
      · cases h; subst_vars; exact ⟨c, by simp, hn⟩
      · obtain ⟨c', h1, h2⟩ := ih _ h
        have := findLabel_range _ _ _ _ h
        refine ⟨c', ?_, h2⟩
        have e : j - idx = (j - (idx + 1)) + 1 := by omega
        rw [e]; simpa using h1
    · obtain ⟨c', h1, h2⟩ := ih _ h
      have := findLabel_range _ _ _ _ h
      refine ⟨c', ?_, h2⟩
      have e : j - idx = (j - (idx + 1)) + 1 := by omega
      rw [e]; simpa using h1

/-- ... and the command found by `matchBrace` is a `}` -/
theorem matchBrace_is_rbrace (l : List SCmd) (d idx j : Nat) (h : matchBrace l d idx = some j) :
    ∃ c, l[j - idx]? = some c ∧ c.op = .rbrace := by
  induction l generalizing d idx with
  | nil => simp [matchBrace] at h
  | cons c rest ih =>
    have step : ∀ d', matchBrace rest d' (idx + 1) = some j → ∃ x, (c :: rest)[j - idx]? = some x ∧ x.op = .rbrace := by
      intro d' h'
      obtain ⟨c', h1, h2⟩ := ih _ _ h'
      have := matchBrace_range _ _ _ _ h'
      refine ⟨c', ?_, h2⟩
      have e : j - idx = (j - (idx + 1)) + 1 := by omega
      rw [e]; simpa using h1
    unfold matchBrace at h
    split at h
    · exact step _ h
    · rename_i hr
      split at h
      · cases h; exact ⟨c, by simp, hr⟩
      · exact step _ h
    · exact step _ h

/-- source commands that come out of the text compiler never carry a resolved branch (`Op.branch` is made by `compile` only) -/
def SCmd.noRawBranch (c : SCmd) : Prop := ∀ t, c.op ≠ .op (.branch t) ∧ c.op ≠ .op (.tbranch t)

theorem compileOne_target (all pre : List SCmd) (c : SCmd) (rest : List SCmd) (k : Cmd)
    (hall : all = pre ++ c :: rest) (hraw : c.noRawBranch)
    (h : compileOne all c rest pre.length = .ok k) (t : Nat) (ht : k.op = .branch t ∨ k.op = .tbranch t) :
    t = all.length ∨ ∃ c', all[t]? = some c' ∧ ((∃ n, c'.op = .label n) ∨ c'.op = .rbrace) := by
  unfold compileOne at h
  split at h
  · cases h
  · split at h
    · -- label
      split at h
      · cases h
      · split at h
        · cases h
        · cases h; simp at ht
    · split at h
      · cases h
      · cases h; simp at ht
    · -- lbrace
      split at h
      · rename_i j hj
        cases h
        simp at ht
        subst ht
        have hr := matchBrace_range _ _ _ _ hj
        obtain ⟨c', h1, h2⟩ := matchBrace_is_rbrace _ _ _ _ hj
        right
        refine ⟨c', ?_, Or.inr h2⟩
        have e : all = (pre ++ [c]) ++ rest := by simp [hall]
        rw [e, List.getElem?_append_right (by simp; omega)]
        simpa using h1
      · cases h
    · cases h; simp at ht; left; exact ht.symm
    · cases h; simp at ht; left; exact ht.symm
    · split at h
      · rename_i j hj
        cases h; simp at ht; subst ht
        obtain ⟨c', h1, h2⟩ := findLabel_is_label _ _ _ _ hj
        exact Or.inr ⟨c', by simpa using h1, Or.inl ⟨_, h2⟩⟩
      · cases h
    · split at h
      · rename_i j hj
        cases h; simp at ht; subst ht
        obtain ⟨c', h1, h2⟩ := findLabel_is_label _ _ _ _ hj
        exact Or.inr ⟨c', by simpa using h1, Or.inl ⟨_, h2⟩⟩
      · cases h
    · cases h; simp at ht
    · rename_i o _ hop
      cases h
      simp at ht
      rcases ht with ht | ht
      · exact absurd (by rw [hop, ht]) (hraw t).1
      · exact absurd (by rw [hop, ht]) (hraw t).2

theorem compileGo_spec (all : List SCmd) (l : List SCmd) :
    ∀ (pre : List SCmd) (p : Prog), all = pre ++ l → (∀ c ∈ l, c.noRawBranch) → compileGo all l pre.length = .ok p →
      p.length = l.length ∧ ∀ k ∈ p, ∀ t, (k.op = .branch t ∨ k.op = .tbranch t) →
        t = all.length ∨ ∃ c', all[t]? = some c' ∧ ((∃ n, c'.op = .label n) ∨ c'.op = .rbrace) := by
  induction l with
  | nil => intro pre p _ _ h; simp [compileGo] at h; subst h; simp
  | cons c rest ih =>
    intro pre p hall hraw h
    unfold compileGo at h
    split at h
    · cases h
    · rename_i k hk
      split at h
      · cases h
      · rename_i ks hks
        cases h
        have hall' : all = (pre ++ [c]) ++ rest := by simp [hall]
        have hlen : (pre ++ [c]).length = pre.length + 1 := by simp
        obtain ⟨h1, h2⟩ := ih (pre ++ [c]) ks hall' (fun x hx => hraw x (List.mem_cons_of_mem _ hx)) (by rw [hlen]; exact hks)
        refine ⟨by simp [h1], ?_⟩
        intro k' hk' t ht
        rcases List.mem_cons.mp hk' with e | e
        · subst e; exact compileOne_target all pre c rest _ hall (hraw c (List.mem_cons_self ..)) hk t ht
        · exact h2 k' e t ht

/-- every branch of a compiled program goes to the end of the script or to a label / `}` command inside it -/
theorem compile_targets (src : List SCmd) (p : Prog) (hraw : ∀ c ∈ src, c.noRawBranch) (h : compile src = .ok p) :
    p.length = src.length ∧ ∀ k ∈ p, ∀ t, (k.op = .branch t ∨ k.op = .tbranch t) →
      t = src.length ∨ ∃ c', src[t]? = some c' ∧ ((∃ n, c'.op = .label n) ∨ c'.op = .rbrace) := by
  unfold compile at h
  split at h
  · cases h
  · exact compileGo_spec src src [] p (by simp) hraw h

def Op.isBranch : Op → Bool
  | .branch _ => true
  | .tbranch _ => true
  | _ => false

theorem simpleOp_isBranch (c : Char) : (simpleOp c).isBranch = false := by
  unfold simpleOp
  simp only [apply_ite Op.isBranch]
  simp [Op.isBranch]

theorem simpleOp_noBranch (c : Char) (t : Nat) : simpleOp c ≠ .branch t ∧ simpleOp c ≠ .tbranch t := by
  have := simpleOp_isBranch c
  constructor <;> (intro h; rw [h] at this; simp [Op.isBranch] at this)

theorem toS_noRawBranch (c : PCmd) : c.toS.noRawBranch := by
  intro t
  cases c with | mk a1 a2 neg op =>
  cases op with
  | simple ch => simpa [PCmd.toS, POp.toSOp] using simpleOp_noBranch ch t
  | text ch tx => simp only [PCmd.toS, POp.toSOp]; repeat' split
                  all_goals simp
  | file ch f => simp only [PCmd.toS, POp.toSOp]; repeat' split
                 all_goals simp
  | branch ch l => simp only [PCmd.toS, POp.toSOp]; repeat' split
                   all_goals simp
  | _ => simp [PCmd.toS, POp.toSOp]

/-! ## the text compiler -/

theorem compLoop_forall (P : PCmd → Prop) (tr : Traits)
    (hP : ∀ s cmd s', parseCmd tr s = .ok (cmd, s') → P cmd) (s : Str) (lvl : Nat) (labs : List Str) :
    ∀ cs, compLoop tr s lvl labs = .ok cs → ∀ c ∈ cs, P c := by
  fun_induction compLoop tr s lvl labs <;> intro cs h
  all_goals (try (simp at h))
  all_goals (try (subst h; simp))
  all_goals (try (rename_i ih; exact ih cs h))
  all_goals (try simp_all [Except.map_eq_ok])
  all_goals (try (rw [if_neg (by omega)] at h; cases h))
  all_goals (try (split at h <;> try (cases h)))
  all_goals (try (rw [Except.map_eq_ok] at h))
  all_goals (
    obtain ⟨a, ha, rfl⟩ := h
    intro c hc
    rcases List.mem_cons.mp hc with e | e
    · subst e; exact hP _ _ _ (by assumption)
    · first | (rename_i ih; exact ih a ha c e) | (rename_i ih _; exact ih a ha c e))

theorem balanced_cons (c : SCmd) (rest : List SCmd) (d : Nat) :
    balanced (c :: rest) d =
      (if c.op = .lbrace then balanced rest (d + 1)
       else if c.op = .rbrace then (decide (d > 0) && balanced rest (d - 1)) else balanced rest d) := by
  rw [balanced]
  split <;> simp_all

theorem toSOp_eq_lbrace (op : POp) : op.toSOp = .lbrace ↔ op = .lbrace := by
  cases op <;> simp [POp.toSOp]
  split <;> simp

theorem toSOp_eq_rbrace (op : POp) : op.toSOp = .rbrace ↔ op = .rbrace := by
  cases op <;> simp [POp.toSOp]
  split <;> simp

theorem toSOp_eq_label (op : POp) (n : Str) : op.toSOp = .label n ↔ op = .label n := by
  cases op <;> simp [POp.toSOp]
  split <;> simp

/-- the group level of hawk_sed_comp: the command list it accepts is balanced from the level it started at -/
theorem compLoop_balanced (tr : Traits) (s : Str) (lvl : Nat) (labs : List Str) :
    ∀ cs, compLoop tr s lvl labs = .ok cs → balanced (cs.map PCmd.toS) lvl = true := by
  fun_induction compLoop tr s lvl labs <;> intro cs h
  all_goals (try (simp at h))
  all_goals (try (subst h; simp [balanced]))
  all_goals (try (rename_i ih; exact ih cs h))
  all_goals (try simp_all [Except.map_eq_ok])
  all_goals (try (rw [if_neg (by omega)] at h; cases h))
  all_goals (try (split at h <;> try (cases h)))
  all_goals (try (rw [Except.map_eq_ok] at h))
  all_goals (
    obtain ⟨a, ha, rfl⟩ := h
    simp only [List.map_cons, balanced_cons, PCmd.toS, toSOp_eq_lbrace, toSOp_eq_rbrace]
    simp_all
    try omega)

theorem countLabel_cons (c : SCmd) (rest : List SCmd) (name : Str) :
    countLabel (c :: rest) name = (if c.op = .label name then 1 else 0) + countLabel rest name := by
  unfold countLabel
  by_cases h : c.op = .label name <;> simp [List.filter_cons, h] <;> omega

/-- tmp.labs of hawk_sed_comp: no non-empty label is defined twice, and none that was already in the table -/
theorem compLoop_labels (tr : Traits) (s : Str) (lvl : Nat) (labs : List Str) :
    ∀ cs, compLoop tr s lvl labs = .ok cs →
      ∀ name, name ≠ [] → countLabel (cs.map PCmd.toS) name + (if name ∈ labs then 1 else 0) ≤ 1 := by
  fun_induction compLoop tr s lvl labs <;> intro cs h
  all_goals (try (simp at h))
  all_goals (try (subst h; intro name _; simp [countLabel]; split <;> omega))
  all_goals (try (rename_i ih; exact ih cs h))
  all_goals (try simp_all [Except.map_eq_ok])
  all_goals (try (rw [if_neg (by omega)] at h; cases h))
  all_goals (try (split at h <;> try (cases h)))
  all_goals (try (rw [Except.map_eq_ok] at h))
  all_goals (
    obtain ⟨a, ha, rfl⟩ := h
    intro name hname
    simp only [List.map_cons, countLabel_cons, PCmd.toS, toSOp_eq_label])
  case case13.isFalse =>
    rename_i labs _ _ _ _ nm _ _ _ _ hop hlab _ ih _
    have key := ih a ha name hname
    by_cases hn : name = nm
    · subst hn
      have hmem : name ∉ labs := fun hm => hlab hname hm
      simp [hname] at key
      simp [hop, hmem]; omega
    · have hne : ¬ (POp.label nm = POp.label name) := fun e => hn (by injection e with e; exact e.symm)
      by_cases he : nm = []
      · simp [he] at key; simp [hop, hne]; omega
      · have : (name ∈ nm :: labs) ↔ name ∈ labs := by simp [hn]
        simp [he, this] at key; simp [hop, hne]; omega
  all_goals (
    first
    | (rename_i ih; have key := ih a ha name hname; rw [if_neg (by simp_all)]; omega)
    | (rename_i ih _; have key := ih a ha name hname; rw [if_neg (by simp_all)]; omega))

/-- label or `}`: the commands that take no address -/
def POp.isMark : POp → Bool
  | .label _ => true
  | .rbrace => true
  | _ => false

theorem getTextCmd_mark (tr : Traits) (c : Char) (r : Str) (op : POp) (r' : Str)
    (h : getTextCmd tr c r = .ok (op, r')) : op.isMark = false := by
  simp only [getTextCmd] at h
  repeat' split at h
  all_goals (first | (cases h; rfl) | cases h)

theorem getSubst_mark (s : Str) (op : POp) (r' : Str) (h : getSubst s = .ok (op, r')) : op.isMark = false := by
  simp only [getSubst] at h
  repeat' split at h
  all_goals (first | (cases h; rfl) | cases h)

theorem getTranset_mark (s : Str) (op : POp) (r' : Str) (h : getTranset s = .ok (op, r')) : op.isMark = false := by
  simp only [getTranset] at h
  repeat' split at h
  all_goals (first | (cases h; rfl) | cases h)

theorem getCommand_mark (tr : Traits) (hasA1 hasA2 : Bool) (s : Str) (op : POp) (r' : Str)
    (h : getCommand tr hasA1 hasA2 s = .ok (op, r')) (hm : op.isMark = true) : hasA1 = false := by
  cases s with
  | nil => simp [getCommand] at h
  | cons c r =>
    simp only [getCommand] at h
    by_cases h1 : c = '\n'
    · simp [h1] at h
    simp only [h1, ↓reduceIte] at h
    by_cases h2 : c = ':'
    · simp only [h2, ↓reduceIte] at h
      cases hasA1 with
      | false => rfl
      | true => simp at h
    simp only [h2, ↓reduceIte] at h
    by_cases h3 : c = '{'
    · simp only [h3, ↓reduceIte] at h; cases h; simp [POp.isMark] at hm
    simp only [h3, ↓reduceIte] at h
    by_cases h4 : c = '}'
    · simp only [h4, ↓reduceIte] at h
      cases hasA1 with
      | false => rfl
      | true => simp at h
    simp only [h4, ↓reduceIte] at h
    exfalso
    have : op.isMark = false := by
      repeat' split at h
      all_goals (
        first
        | (cases h; rfl)
        | cases h
        | exact getTextCmd_mark _ _ _ _ _ h
        | exact getSubst_mark _ _ _ h
        | exact getTranset_mark _ _ _ h)
    simp [this] at hm

theorem toAddr_line0 (a : PAddr) : a.toAddr = .line 0 ↔ a = .line 0 := by
  cases a <;> simp [PAddr.toAddr]

theorem toAddr_none (a : PAddr) : a.toAddr = .none ↔ a = .none := by
  cases a <;> simp [PAddr.toAddr]

/-- what hawk_sed_comp guarantees about the addresses of every command it accepts -/
def PCmd.wellAddressed (c : PCmd) : Prop :=
  c.a1 ≠ .line 0 ∧ (c.a1 = .none → c.a2 = .none) ∧ (c.op.isMark = true → c.a1 = .none)

theorem parseAddrs_facts (s : Str) (a1 a2 : PAddr) (s2 : Str) (h : parseAddrs s = .ok (a1, a2, s2)) :
    a1 ≠ .line 0 ∧ (a1 = .none → a2 = .none) := by
  simp only [parseAddrs, getAddr2] at h
  repeat' split at h
  all_goals (try (cases h; done))
  all_goals (
    cases h
    refine ⟨by assumption, ?_⟩
    intro e; simp_all)

theorem parseBody_facts (tr : Traits) (a1 a2 : PAddr) (s2 : Str) (cmd : PCmd) (s' : Str)
    (h : parseBody tr a1 a2 s2 = .ok (cmd, s')) :
    cmd.a1 = a1 ∧ cmd.a2 = a2 ∧ (cmd.op.isMark = true → a1 = .none) := by
  simp only [parseBody] at h
  repeat' split at h
  all_goals (try (cases h; done))
  all_goals (
    cases h
    refine ⟨rfl, rfl, ?_⟩
    intro hm
    have := getCommand_mark _ _ _ _ _ _ (by assumption) hm
    simpa using this)

theorem parseCmd_wellAddressed (tr : Traits) (s : Str) (cmd : PCmd) (s' : Str)
    (h : parseCmd tr s = .ok (cmd, s')) : cmd.wellAddressed := by
  simp only [parseCmd] at h
  split at h
  · cases h
  · rename_i a1 a2 s2 ha
    obtain ⟨h1, h2⟩ := parseAddrs_facts _ _ _ _ ha
    obtain ⟨e1, e2, h3⟩ := parseBody_facts _ _ _ _ _ _ h
    exact ⟨by rw [e1]; exact h1, by rw [e1, e2]; exact h2, by rw [e1]; exact h3⟩

/-! ## after the text compiler, label / brace resolution can only fail for a missing label -/

theorem balanced_matchBrace (l : List SCmd) :
    ∀ depth d idx, balanced l (d + depth + 1) = true → (matchBrace l depth idx).isSome = true := by
  induction l with
  | nil => intro depth d idx h; simp [balanced] at h
  | cons c rest ih =>
    intro depth d idx h
    rw [balanced_cons] at h
    unfold matchBrace
    split
    · rename_i hop
      simp [hop] at h
      have e : d + (depth + 1) + 1 = d + depth + 1 + 1 := by omega
      exact ih (depth + 1) d (idx + 1) (by rw [e]; exact h)
    · rename_i hop
      simp [hop] at h
      split
      · simp
      · rename_i hd
        have e : d + (depth - 1) + 1 = d + depth := by omega
        exact ih (depth - 1) d (idx + 1) (by rw [e]; exact h)
    · rename_i h1 h2
      have e1 : ¬ c.op = .lbrace := fun e => h1 e
      have e2 : ¬ c.op = .rbrace := fun e => h2 e
      simp [e1, e2] at h
      exact ih depth d (idx + 1) h

def SCmd.good (c : SCmd) : Prop :=
  addrOk c = true ∧ (((∃ n, c.op = .label n) ∨ c.op = .rbrace) → c.a1 = .none)

theorem compileOne_ok_or_noLabel (all : List SCmd) (c : SCmd) (rest : List SCmd) (idx : Nat)
    (hgood : c.good) (hbal : ∃ d, balanced (c :: rest) d = true)
    (hlab : ∀ name, name ≠ [] → countLabel all name ≤ 1) :
    (∃ k, compileOne all c rest idx = .ok k) ∨ compileOne all c rest idx = .error .noLabel := by
  obtain ⟨hok, hmark⟩ := hgood
  obtain ⟨d, hd⟩ := hbal
  unfold compileOne
  rw [if_neg (by simp [hok])]
  split
  · rename_i name hop
    rw [if_neg (by simp [hmark (Or.inl ⟨name, hop⟩)])]
    by_cases hn : name = []
    · simp [hn]
    · have := hlab name hn
      rw [if_neg (by omega)]; simp
  · rename_i hop
    rw [if_neg (by simp [hmark (Or.inr hop)])]; simp
  · rename_i hop
    rw [balanced_cons] at hd
    simp [hop] at hd
    have := balanced_matchBrace rest 0 d (idx + 1) (by simpa using hd)
    split
    · simp
    · rename_i hnone; simp [hnone] at this
  · simp
  · simp
  · split <;> simp
  · split <;> simp
  · simp
  · simp

theorem compileGo_ok_or_noLabel (all : List SCmd) (l : List SCmd) :
    ∀ idx, (∀ c ∈ l, c.good) → (∃ d, balanced l d = true) → (∀ name, name ≠ [] → countLabel all name ≤ 1) →
      (∃ p, compileGo all l idx = .ok p) ∨ compileGo all l idx = .error .noLabel := by
  induction l with
  | nil => intro idx _ _ _; simp [compileGo]
  | cons c rest ih =>
    intro idx hgood hbal hlab
    have hrest : ∃ d, balanced rest d = true := by
      obtain ⟨d, hd⟩ := hbal
      rw [balanced_cons] at hd
      split at hd
      · exact ⟨_, hd⟩
      · split at hd
        · simp at hd; exact ⟨_, hd.2⟩
        · exact ⟨_, hd⟩
    unfold compileGo
    rcases compileOne_ok_or_noLabel all c rest idx (hgood c (List.mem_cons_self ..)) hbal hlab with ⟨k, hk⟩ | hk
    · rw [hk]
      rcases ih (idx + 1) (fun x hx => hgood x (List.mem_cons_of_mem _ hx)) hrest hlab with ⟨p, hp⟩ | hp
      · rw [hp]; simp
      · rw [hp]; simp
    · rw [hk]; simp

end Hawk.Sed
