import HawkModel.Arr
/-! helper lemmas for the sparse-array model -/
namespace Hawk.Arr

theorem dblLoop_gt (c bound : Nat) (hc : 0 < c) : bound < dblLoop c bound := by
  fun_induction dblLoop c bound with
  | case1 c h ih => exact ih (by omega)
  | case2 c h => omega

theorem align64_ge (x : Nat) : x ≤ align64 x := by
  unfold align64; omega

theorem minCapa_le_wantCapa (a : Arr) (pos : Nat) (h : a.size ≤ a.capa) :
    minCapa a pos ≤ wantCapa a pos := by
  unfold minCapa wantCapa
  by_cases hc : a.capa = 0
  · have hs : a.size = 0 := by omega
    have := align64_ge (pos + 1)
    simp only [hc, if_true, hs]; split <;> omega
  · simp only [hc, if_false]
    split
    · have := dblLoop_gt a.capa pos (by omega); omega
    · have := dblLoop_gt a.capa a.size (by omega); omega

theorem retryCapa_some (capa mincapa : Nat) (o : Oracle) (c : Nat) (o' : Oracle)
    (hle : mincapa ≤ capa) (h : retryCapa capa mincapa o = (some c, o')) : mincapa ≤ c ∧ c ≤ capa := by
  fun_induction retryCapa capa mincapa o with
  | case1 capa o o1 hn => simp at h; omega
  | case2 capa o o1 hn hc => simp at h
  | case3 capa o o1 hn hc ih => have := ih (by omega) h; omega

/-- with an allocator that never refuses, the first request is granted -/
theorem retryCapa_nil (capa mincapa : Nat) : retryCapa capa mincapa [] = (some capa, []) := by
  unfold retryCapa; simp [Oracle.next]

theorem occupied_append (a b : List (Option Nat)) : occupied (a ++ b) = occupied a + occupied b := by
  simp [occupied]

theorem occupied_replicate_none (n : Nat) : occupied (List.replicate n none) = 0 := by
  induction n with
  | zero => simp [occupied]
  | succ n ih => simp [occupied, List.replicate_succ] at *

theorem occupied_take_drop (s : List (Option Nat)) (n : Nat) :
    occupied (s.take n) + occupied (s.drop n) = occupied s := by
  rw [← occupied_append, List.take_append_drop]

theorem occupied_insSlots (s : List (Option Nat)) (pos v : Nat) :
    occupied (insSlots s pos v) = occupied s + 1 := by
  unfold insSlots
  split
  · simp [occupied_append, occupied_replicate_none]; simp [occupied]
  · rw [occupied_append, occupied_append]
    have := occupied_take_drop s pos
    simp [occupied] at *; omega

theorem length_insSlots (s : List (Option Nat)) (pos v : Nat) :
    (insSlots s pos v).length = if pos > s.length then pos + 1 else s.length + 1 := by
  unfold insSlots
  split
  · simp; split <;> omega
  · simp; split <;> omega

theorem occupied_le_length (s : List (Option Nat)) : occupied s ≤ s.length := by
  simp [occupied]; exact List.length_filter_le _ _

theorem occupied_set_some_of_none (s : List (Option Nat)) (i v : Nat) (hi : i < s.length)
    (hn : s.getD i none = none) : occupied (s.set i (some v)) = occupied s + 1 := by
  induction s generalizing i with
  | nil => simp at hi
  | cons x xs ih =>
    cases i with
    | zero => simp [List.getD] at hn; subst hn; simp [occupied]
    | succ i =>
      simp [List.getD] at hn hi
      have := ih i hi (by simpa [List.getD] using hn)
      cases x <;> simp [occupied] at * <;> omega

theorem occupied_set_some_of_some (s : List (Option Nat)) (i v c : Nat) (hi : i < s.length)
    (hn : s.getD i none = some c) : occupied (s.set i (some v)) = occupied s := by
  induction s generalizing i with
  | nil => simp at hi
  | cons x xs ih =>
    cases i with
    | zero => simp [List.getD] at hn; subst hn; simp [occupied]
    | succ i =>
      simp [List.getD] at hn hi
      have := ih i hi (by simpa [List.getD] using hn)
      cases x <;> simp [occupied] at * <;> omega

theorem occupied_split3 (s : List (Option Nat)) (i n : Nat) :
    occupied s = occupied (s.take i) + occupied ((s.drop i).take n) + occupied (s.drop (i + n)) := by
  have h1 := occupied_take_drop s i
  have h2 := occupied_take_drop (s.drop i) n
  rw [List.drop_drop] at h2
  omega

theorem update_wf (a : Arr) (pos v : Nat) (o : Oracle) (h : WF a) : WF (update a pos v o).arr := by
  unfold update
  by_cases hp : pos ≥ a.size
  · simp [hp]; exact h
  · simp only [hp, if_false]
    have hl : pos < a.slots.length := by have := h.size_eq; omega
    cases hc : a.slots.getD pos none with
    | none =>
      simp only
      cases o.next with
      | mk b o1 =>
        cases b
        · exact h
        · exact ⟨by simp [h.size_eq], by simp [occupied_set_some_of_none _ _ _ hl hc, h.tally_eq], by simp [h.size_le_capa]⟩
    | some c =>
      simp only
      by_cases hcv : c = v
      · simp [hcv]; exact h
      · simp only [hcv, if_false]
        cases o.next with
        | mk b o1 =>
          cases b
          · exact h
          · exact ⟨by simp [h.size_eq], by simp [occupied_set_some_of_some _ _ _ _ hl hc, h.tally_eq], by simp [h.size_le_capa]⟩

theorem delete_wf (a : Arr) (index count : Nat) (h : WF a) : WF (delete a index count).1 := by
  unfold delete
  by_cases hi : index ≥ a.size
  · simp [hi]; exact h
  · simp only [hi, if_false]
    have hs := h.size_eq
    generalize hn : (if count > a.size - index then a.size - index else count) = n
    have hnle : index + n ≤ a.slots.length := by split at hn <;> omega
    by_cases hz : n = 0
    · simp [hz]; exact h
    · simp only [hz, if_false]
      refine ⟨?_, ?_, ?_⟩
      · simp; omega
      · simp only
        have := occupied_split3 a.slots index n
        rw [occupied_append, h.tally_eq]; omega
      · simp only; have := h.size_le_capa; omega

theorem uplete_wf (a : Arr) (index count : Nat) (h : WF a) : WF (uplete a index count).1 := by
  unfold uplete
  by_cases hi : index ≥ a.size
  · simp [hi]; exact h
  · simp only [hi, if_false]
    have hs := h.size_eq
    generalize hn : (if count > a.size - index then a.size - index else count) = n
    have hnle : index + n ≤ a.slots.length := by split at hn <;> omega
    refine ⟨?_, ?_, ?_⟩
    · simp; omega
    · simp only
      have := occupied_split3 a.slots index n
      rw [occupied_append, occupied_append, occupied_replicate_none, h.tally_eq]; omega
    · exact h.size_le_capa

theorem clear_wf (a : Arr) : WF (clear a).1 := by
  unfold clear; exact ⟨rfl, by simp [occupied], by simp⟩

theorem setcapa_wf (a : Arr) (capa : Nat) (o : Oracle) (h : WF a) : WF (setcapa a capa o).1 := by
  unfold setcapa
  by_cases hc : capa = a.capa
  · simp [hc]; exact h
  · simp only [hc, if_false]
    -- the state after the optional truncation
    have h1 : ∀ a1, a1 = (if capa < a.size then delete a capa (a.size - capa) else (a, 0, [])).1 →
        WF a1 ∧ a1.size ≤ capa ∧ a1.capa = a.capa := by
      intro a1 ha1
      by_cases hlt : capa < a.size
      · simp only [hlt, if_true] at ha1
        refine ⟨ha1 ▸ delete_wf a capa _ h, ?_, ?_⟩
        · subst ha1; unfold delete
          have : ¬ capa ≥ a.size := by omega
          simp only [this, if_false]
          have hnz : ¬ (a.size - capa = 0) := by omega
          split <;> simp [hnz] <;> omega
        · subst ha1; unfold delete
          have : ¬ capa ≥ a.size := by omega
          simp only [this, if_false]
          split <;> split <;> rfl
      · simp only [hlt, if_false] at ha1; subst ha1; exact ⟨h, by omega, rfl⟩
    generalize hd : (if capa < a.size then delete a capa (a.size - capa) else (a, 0, [])) = d
    obtain ⟨a1, n1, ev1⟩ := d
    have := h1 a1 (by rw [hd])
    obtain ⟨hw, hsz, hcp⟩ := this
    simp only
    by_cases hpos : capa > 0
    · simp only [hpos, if_true]
      cases o.next with
      | mk b o1 =>
        cases b
        · exact hw
        · exact ⟨hw.size_eq, hw.tally_eq, hsz⟩
    · simp only [hpos, if_false]
      exact ⟨rfl, by simp [clear, occupied], by simp [clear]⟩

end Hawk.Arr
