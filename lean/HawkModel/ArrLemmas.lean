import HawkModel.Arr
/-! helper lemmas for the sparse-array model -/
namespace Hawk.Arr

theorem dblLoop_gt (c bound : Nat) (hc : 0 < c) : bound < dblLoop c bound := by
  fun_induction dblLoop c bound with
  | case1 c h ih => exact ih (by omega)
  | case2 c h => omega

theorem align64_ge (x : Nat) : x ≤ align64 x := by
  unfold align64; omega

theorem minCapa_le_wantCapa (a : Arr) (pos : Nat) (h : a.size ≤ a.capa) :
    minCapa a pos ≤ wantCapa a pos := by
  unfold minCapa wantCapa
  by_cases hc : a.capa = 0
  · have hs : a.size = 0 := by omega
    have := align64_ge (pos + 1)
    simp only [hc, if_true, hs]; split <;> omega
  · simp only [hc, if_false]
    split
    · have := dblLoop_gt a.capa pos (by omega); omega
    · have := dblLoop_gt a.capa a.size (by omega); omega

theorem setcapaAsk_true (capa : Nat) (o o' : Oracle) (h : setcapaAsk capa o = (true, o')) : capa ≤ maxCapa := by
  unfold setcapaAsk at h
  split at h
  · simp at h
  · omega

theorem setcapaAsk_len (capa : Nat) (o : Oracle) : o.length ≤ (setcapaAsk capa o).2.length + 1 := by
  unfold setcapaAsk
  split
  · simp
  · cases o <;> simp [Oracle.next]

theorem setcapaAsk_nil (capa : Nat) : setcapaAsk capa [] = (decide (capa ≤ maxCapa), []) := by
  unfold setcapaAsk
  split
  · rename_i h; simp; omega
  · rename_i h; simp [Oracle.next]; omega

theorem retryCapa_some (capa mincapa : Nat) (o : Oracle) (c : Nat) (o' : Oracle)
    (hle : mincapa ≤ capa) (h : retryCapa capa mincapa o = (some c, o')) :
    mincapa ≤ c ∧ c ≤ capa ∧ c ≤ maxCapa := by
  fun_induction retryCapa capa mincapa o with
  | case1 capa o o1 hn =>
    have := setcapaAsk_true _ _ _ hn
    simp at h; omega
  | case2 capa o o1 hn hc => simp at h
  | case3 capa o o1 hn hc ih => have := ih (by omega) h; omega

/-- with an allocator that never refuses, a request is granted as soon as the table size fits the word: the loop
    cannot give up while the minimum capacity itself fits -/
theorem retryCapa_nil (capa mincapa : Nat) (hm : mincapa ≤ maxCapa) (hle : mincapa ≤ capa) :
    ∃ c, retryCapa capa mincapa [] = (some c, []) := by
  generalize ho : ([] : Oracle) = o
  fun_induction retryCapa capa mincapa o with
  | case1 capa o o1 hn =>
    subst ho
    rw [setcapaAsk_nil] at hn
    simp at hn
    exact ⟨capa, by rw [hn.2]⟩
  | case2 capa o o1 hn hc =>
    subst ho
    rw [setcapaAsk_nil] at hn
    simp at hn
    omega
  | case3 capa o o1 hn hc ih =>
    subst ho
    rw [setcapaAsk_nil] at hn
    simp at hn
    rw [← hn.2]
    exact ih (by omega) hn.2.symm

/-- the number of allocator requests the retry loop makes is logarithmic in the distance between the wished and the
    minimum capacity (it was linear before the repair: one failing request per slot of the gap) -/
theorem retryCapa_requests' (capa mincapa : Nat) (o : Oracle) :
    o.length ≤ (retryCapa capa mincapa o).2.length +
      (if capa - mincapa = 0 then 1 else Nat.log2 (capa - mincapa) + 2) := by
  fun_induction retryCapa capa mincapa o with
  | case1 capa o o1 hn =>
    have := setcapaAsk_len capa o; rw [hn] at this
    simp only at this ⊢; split <;> omega
  | case2 capa o o1 hn hc =>
    have := setcapaAsk_len capa o; rw [hn] at this
    simp only at this ⊢; split <;> omega
  | case3 capa o o1 hn hc ih =>
    have h1 := setcapaAsk_len capa o; rw [hn] at h1
    simp only at h1
    have e : mincapa + (capa - mincapa) / 2 - mincapa = (capa - mincapa) / 2 := by omega
    rw [e] at ih
    have hne : ¬ (capa - mincapa = 0) := by omega
    rw [if_neg hne]
    by_cases h2 : 2 ≤ capa - mincapa
    · have hlog : Nat.log2 (capa - mincapa) = Nat.log2 ((capa - mincapa) / 2) + 1 := by
        rw [Nat.log2_def (capa - mincapa)]; simp [h2]
      have : ¬ ((capa - mincapa) / 2 = 0) := by omega
      rw [if_neg this] at ih
      omega
    · have h1' : capa - mincapa = 1 := by omega
      have : (capa - mincapa) / 2 = 0 := by omega
      rw [if_pos this] at ih
      omega

theorem retryCapa_requests (capa mincapa : Nat) (o : Oracle) :
    o.length ≤ (retryCapa capa mincapa o).2.length + (Nat.log2 (capa - mincapa) + 2) := by
  have := retryCapa_requests' capa mincapa o
  split at this <;> omega

theorem occupied_append (a b : List (Option Nat)) : occupied (a ++ b) = occupied a + occupied b := by
  simp [occupied]

theorem occupied_replicate_none (n : Nat) : occupied (List.replicate n none) = 0 := by
  induction n with
  | zero => simp [occupied]
  | succ n ih => simp [occupied, List.replicate_succ] at *

theorem occupied_take_drop (s : List (Option Nat)) (n : Nat) :
    occupied (s.take n) + occupied (s.drop n) = occupied s := by
  rw [← occupied_append, List.take_append_drop]

theorem occupied_insSlots (s : List (Option Nat)) (pos v : Nat) :
    occupied (insSlots s pos v) = occupied s + 1 := by
  unfold insSlots
  split
  · simp [occupied_append, occupied_replicate_none]; simp [occupied]
  · rw [occupied_append, occupied_append]
    have := occupied_take_drop s pos
    simp [occupied] at *; omega

theorem length_insSlots (s : List (Option Nat)) (pos v : Nat) :
    (insSlots s pos v).length = if pos > s.length then pos + 1 else s.length + 1 := by
  unfold insSlots
  split
  · simp; split <;> omega
  · simp; split <;> omega

theorem occupied_le_length (s : List (Option Nat)) : occupied s ≤ s.length := by
  simp [occupied]; exact List.length_filter_le _ _

theorem occupied_set_some_of_none (s : List (Option Nat)) (i v : Nat) (hi : i < s.length)
    (hn : s.getD i none = none) : occupied (s.set i (some v)) = occupied s + 1 := by
  induction s generalizing i with
  | nil => simp at hi
  | cons x xs ih =>
    cases i with
    | zero => simp [List.getD] at hn; subst hn; simp [occupied]
    | succ i =>
      simp [List.getD] at hn hi
      have := ih i hi (by simpa [List.getD] using hn)
      cases x <;> simp [occupied] at * <;> omega

theorem occupied_set_some_of_some (s : List (Option Nat)) (i v c : Nat) (hi : i < s.length)
    (hn : s.getD i none = some c) : occupied (s.set i (some v)) = occupied s := by
  induction s generalizing i with
  | nil => simp at hi
  | cons x xs ih =>
    cases i with
    | zero => simp [List.getD] at hn; subst hn; simp [occupied]
    | succ i =>
      simp [List.getD] at hn hi
      have := ih i hi (by simpa [List.getD] using hn)
      cases x <;> simp [occupied] at * <;> omega

theorem occupied_split3 (s : List (Option Nat)) (i n : Nat) :
    occupied s = occupied (s.take i) + occupied ((s.drop i).take n) + occupied (s.drop (i + n)) := by
  have h1 := occupied_take_drop s i
  have h2 := occupied_take_drop (s.drop i) n
  rw [List.drop_drop] at h2
  omega

theorem update_wf (a : Arr) (pos v : Nat) (o : Oracle) (h : WF a) : WF (update a pos v o).arr := by
  unfold update
  by_cases hp : pos ≥ a.size
  · simp [hp]; exact h
  · simp only [hp, if_false]
    have hl : pos < a.slots.length := by have := h.size_eq; omega
    cases hc : a.slots.getD pos none with
    | none =>
      simp only
      cases o.next with
      | mk b o1 =>
        cases b
        · exact h
        · exact ⟨by simp [h.size_eq], by simp [occupied_set_some_of_none _ _ _ hl hc, h.tally_eq], by simp [h.size_le_capa]⟩
    | some c =>
      simp only
      by_cases hcv : c = v
      · simp [hcv]; exact h
      · simp only [hcv, if_false]
        cases o.next with
        | mk b o1 =>
          cases b
          · exact h
          · exact ⟨by simp [h.size_eq], by simp [occupied_set_some_of_some _ _ _ _ hl hc, h.tally_eq], by simp [h.size_le_capa]⟩

theorem delete_wf (a : Arr) (index count : Nat) (h : WF a) : WF (delete a index count).1 := by
  unfold delete
  by_cases hi : index ≥ a.size
  · simp [hi]; exact h
  · simp only [hi, if_false]
    have hs := h.size_eq
    generalize hn : (if count > a.size - index then a.size - index else count) = n
    have hnle : index + n ≤ a.slots.length := by split at hn <;> omega
    by_cases hz : n = 0
    · simp [hz]; exact h
    · simp only [hz, if_false]
      refine ⟨?_, ?_, ?_⟩
      · simp; omega
      · simp only
        have := occupied_split3 a.slots index n
        rw [occupied_append, h.tally_eq]; omega
      · simp only; have := h.size_le_capa; omega

theorem uplete_wf (a : Arr) (index count : Nat) (h : WF a) : WF (uplete a index count).1 := by
  unfold uplete
  by_cases hi : index ≥ a.size
  · simp [hi]; exact h
  · simp only [hi, if_false]
    have hs := h.size_eq
    generalize hn : (if count > a.size - index then a.size - index else count) = n
    have hnle : index + n ≤ a.slots.length := by split at hn <;> omega
    refine ⟨?_, ?_, ?_⟩
    · simp; omega
    · simp only
      have := occupied_split3 a.slots index n
      rw [occupied_append, occupied_append, occupied_replicate_none, h.tally_eq]; omega
    · exact h.size_le_capa

theorem clear_wf (a : Arr) : WF (clear a).1 := by
  unfold clear; exact ⟨rfl, by simp [occupied], by simp⟩

theorem setcapa_wf (a : Arr) (capa : Nat) (o : Oracle) (h : WF a) : WF (setcapa a capa o).1 := by
  unfold setcapa
  by_cases hc : capa = a.capa
  · simp [hc]; exact h
  · simp only [hc, if_false]
    -- the state after the optional truncation
    have h1 : ∀ a1, a1 = (if capa < a.size then delete a capa (a.size - capa) else (a, 0, [])).1 →
        WF a1 ∧ a1.size ≤ capa ∧ a1.capa = a.capa := by
      intro a1 ha1
      by_cases hlt : capa < a.size
      · simp only [hlt, if_true] at ha1
        refine ⟨ha1 ▸ delete_wf a capa _ h, ?_, ?_⟩
        · subst ha1; unfold delete
          have : ¬ capa ≥ a.size := by omega
          simp only [this, if_false]
          have hnz : ¬ (a.size - capa = 0) := by omega
          split <;> simp [hnz] <;> omega
        · subst ha1; unfold delete
          have : ¬ capa ≥ a.size := by omega
          simp only [this, if_false]
          split <;> split <;> rfl
      · simp only [hlt, if_false] at ha1; subst ha1; exact ⟨h, by omega, rfl⟩
    generalize hd : (if capa < a.size then delete a capa (a.size - capa) else (a, 0, [])) = d
    obtain ⟨a1, n1, ev1⟩ := d
    have := h1 a1 (by rw [hd])
    obtain ⟨hw, hsz, hcp⟩ := this
    simp only
    by_cases hpos : capa > 0
    · simp only [hpos, if_true]
      cases setcapaAsk capa o with
      | mk b o1 =>
        cases b
        · exact hw
        · exact ⟨hw.size_eq, hw.tally_eq, hsz⟩
    · simp only [hpos, if_false]
      exact ⟨rfl, by simp [clear, occupied], by simp [clear]⟩

/-! ### the capacity stays one whose table size fits the machine word -/

/-- the slot table's size in bytes fits a 64-bit word -/
def Fits (a : Arr) : Prop := a.capa ≤ maxCapa

theorem insert_fits (a : Arr) (pos v : Nat) (o : Oracle) (hw : WF a) (h : Fits a) : Fits (insert a pos v o).arr := by
  unfold insert
  split
  · exact h
  · cases o.next with
    | mk b o1 =>
      cases b with
      | false => exact h
      | true =>
        simp only
        split
        · cases hr : retryCapa (wantCapa a pos) (minCapa a pos) o1 with
          | mk rc o2 =>
            cases rc with
            | none => exact h
            | some c =>
              have hb := retryCapa_some _ _ _ _ _ (minCapa_le_wantCapa a pos hw.size_le_capa) hr
              simp only
              split
              · exact hb.2.2
              · exact hb.2.2
        · exact h

theorem update_capa (a : Arr) (pos v : Nat) (o : Oracle) : (update a pos v o).arr.capa = a.capa := by
  unfold update
  split
  · rfl
  · split
    · cases o.next with
      | mk b o1 => cases b <;> rfl
    · split
      · rfl
      · cases o.next with
        | mk b o1 => cases b <;> rfl

theorem delete_capa (a : Arr) (i c : Nat) : (delete a i c).1.capa = a.capa := by
  unfold delete; split
  · rfl
  · simp only; split <;> split <;> rfl

theorem uplete_capa (a : Arr) (i c : Nat) : (uplete a i c).1.capa = a.capa := by
  unfold uplete; split <;> rfl

theorem setcapa_fits (a : Arr) (capa : Nat) (o : Oracle) (h : Fits a) : Fits (setcapa a capa o).1 := by
  unfold setcapa
  split
  · exact h
  · generalize hd : (if capa < a.size then delete a capa (a.size - capa) else (a, 0, [])) = d
    have hcap : d.1.capa = a.capa := by
      rw [← hd]; split
      · exact delete_capa _ _ _
      · rfl
    obtain ⟨a1, n1, ev1⟩ := d
    simp only at hcap ⊢
    split
    · cases hs : setcapaAsk capa o with
      | mk b o1 =>
        cases b with
        | false => simp only [Fits]; rw [hcap]; exact h
        | true => simp only [Fits]; exact setcapaAsk_true _ _ _ hs
    · simp [Fits, maxCapa]


end Hawk.Arr
