import HawkModel.DeparseTables
/-! the round trip `parse (print a) = norm a`, by recursion on the tree -/
namespace Hawk.Deparse
open Hawk.Gen.Precedence

theorem skipNl_id (sk : Bool) (ts : List Tok) (h : k1 ts ≠ some .NEWLINE) : skipNl sk ts = ts := by
  unfold skipNl
  split
  · cases ts with
    | nil => rfl
    | cons t r =>
      have : (t.k == TK.NEWLINE) = false := by simpa [k1] using h
      simp [List.dropWhile, this]
  · rfl

theorem foldBinInt_none (op : BinOp) (a b : Int) (h : foldable op = false) : foldBinInt op a b = FoldRes.none := by
  cases op <;> simp [foldable] at h <;> simp [foldBinInt]

theorem mkBin_nofold (op : BinOp) (l r : Ast)
    (h : ¬ (foldable op = true ∧ l.isNum = true ∧ r.isNum = true)) : mkBin op l r = .ok (.bin op l r) := by
  by_cases hf : foldable op = true
  · have hn : ¬ (l.isNum = true ∧ r.isNum = true) := fun hh => h ⟨hf, hh⟩
    unfold mkBin
    split
    · exact absurd ⟨by simp [Ast.isNum, Ast.isInt], by simp [Ast.isNum, Ast.isInt]⟩ hn
    · simp only [hf, Bool.true_and]
      split
      · next hh => simp only [Bool.and_eq_true] at hh; exact absurd hh hn
      · rfl
  · have hf' : foldable op = false := by simpa using hf
    unfold mkBin
    split
    · next a _ b _ => simp [foldBinInt_none op a b hf']
    · simp [hf']

/-- one round of the level that handles the operator of `( l op r )` -/
theorem binLevel (n : Nat) (L : Level) (below : List Level) (op : BinOp) (t f : Tok) (tsl tsr rest : List Tok) (xl xr : Ast)
    (hh : handlesK L t.k op = true)
    (hl : parseLv ladder (n + 1) below (tsl ++ t :: (tsr ++ f :: rest)) = .ok (xl, t :: (tsr ++ f :: rest)))
    (hr : parseLv ladder n (rightLevels L below) (tsr ++ f :: rest) = .ok (xr, f :: rest))
    (hnl : k1 (tsr ++ f :: rest) ≠ some .NEWLINE)
    (hm : mkBin op xl xr = .ok (.bin op xl xr))
    (hin : op = .IN → xr.isVar = true)
    (hstop : noContK L (some f.k) (k1 rest) = true) :
    parseLv ladder (n + 1) (L :: below) (tsl ++ t :: (tsr ++ f :: rest)) = .ok (.bin op xl xr, f :: rest) := by
  cases L with
  | binary fn sk ra map =>
    have hk : map.lookup t.k = some op := by simpa [handlesK] using hh
    have hs : map.lookup f.k = none := by simpa [noContK] using hstop
    cases ra
    · simp only [rightLevels, isRassoc, Bool.false_eq_true, if_false] at hr
      rw [parseLv, hl]; simp only []
      rw [binLoop]; simp only [hk, skipNl_id sk _ hnl, Bool.false_eq_true, if_false, hr, hm]
      rw [binLoop]; simp only [hs]
    · simp only [rightLevels, isRassoc, if_true] at hr
      rw [parseLv, hl]; simp only []
      rw [binLoop]; simp only [hk, skipNl_id sk _ hnl, if_true, hr, hm]
      rw [binLoop]; simp only [hs]
  | inLv =>
    have hk : t.k = .IN ∧ op = .IN := by simpa [handlesK] using hh
    have hs : f.k ≠ .IN := by simpa [noContK] using hstop
    simp only [rightLevels, isRassoc, Bool.false_eq_true, if_false] at hr
    rw [parseLv, hl]; simp only []
    rw [inLoop.eq_def]; simp only [hk.1, hr, hin hk.2]
    rw [inLoop.eq_def]; simp [hs, hk.2]
  | concatLv =>
    have hk : t.k = concatTok ∧ op = .CONCAT := by simpa [handlesK] using hh
    have hs : (f.k == concatTok || isStarterK f.k) = false := by simpa [noContK] using hstop
    have hs' : (f.k == concatTok) = false ∧ isStarter f = false := by simpa [isStarter] using hs
    simp only [rightLevels, isRassoc, Bool.false_eq_true, if_false] at hr
    rw [parseLv, hl]; simp only []
    rw [concatLoop.eq_def]; simp only [hk.1, hr, beq_self_eq_true, if_true]
    rw [concatLoop.eq_def]; cases n <;> simp [hs'.1, hs'.2, hk.2]
  | assLv => simp [handlesK] at hh
  | cndLv => simp [handlesK] at hh
  | unaryLv => simp [handlesK] at hh
  | unaryExpLv => simp [handlesK] at hh
  | incLv => simp [handlesK] at hh
  | primLv => simp [handlesK] at hh


/-! ### the three statements proved together -/

/-- `a` printed as an operand is read back by every suffix of the ladder that still contains parse_increment -/
def OStmt (a : Ast) : Prop := ∀ (n : Nat) (pre : List Level) (rest : List Tok),
  (opnd a).length ≤ n → opOK pre (k1 rest) (k2 rest) = true →
  parseLv ladder n (pre ++ [.incLv, .primLv]) (opnd a ++ rest) = .ok (norm a, rest)

/-- `a` printed bare is read back by parse_expr -/
def EStmt (a : Ast) : Prop := ∀ (n : Nat) (rest : List Tok),
  (print a).length ≤ n → opOK ladderPre (k1 rest) (k2 rest) = true →
  parseLv ladder n ladder (print a ++ rest) = .ok (norm a, rest)

/-- a printed comma list followed by its closing token -/
def LStmt (l : AstL) : Prop := ∀ (n : Nat) (sk : Bool) (c : Tok) (rest : List Tok),
  (printLT l).length ≤ n → l ≠ .nil → c.k ≠ .COMMA → opOK ladderPre (some c.k) (k1 rest) = true →
  parseList ladder n sk (printLT l ++ c :: rest) = .ok (normL l, c :: rest)

theorem opnd_nonass (a : Ast) (h : a.isAss = false) : opnd a = print a := by simp [opnd, h]

/-- from the two bottom levels to any suffix -/
theorem O_of_base (a : Ast) (hw : WFparse a)
    (hb : ∀ (n : Nat) (rest : List Tok), (opnd a).length ≤ n → noContK .incLv (k1 rest) (k2 rest) = true →
      noContK .primLv (k1 rest) (k2 rest) = true →
      parseLv ladder n [.incLv, .primLv] (opnd a ++ rest) = .ok (norm a, rest)) : OStmt a := by
  intro n pre rest hn hok
  obtain ⟨t, r, e, hk⟩ := opnd_head a hw
  apply climb ladder n pre [.incLv, .primLv] (opnd a ++ rest) rest (norm a) (hb n rest hn (opOK_inc hok) (opOK_prim hok))
  rw [e]; exact opOK_pass hok hk

theorem E_of_O (a : Ast) (h : a.isAss = false) (ho : OStmt a) : EStmt a := by
  intro n rest hn hok
  have := ho n ladderPre rest (by rw [opnd_nonass a h]; exact hn) hok
  rw [opnd_nonass a h, ← ladder_split] at this
  exact this

/-- parse_increment passes what parse_primary returns when no increment operator is around -/
theorem base_of_prim (n : Nat) (ts rest : List Tok) (x : Ast) (s : TK)
    (h : parseLv ladder n [.primLv] ts = .ok (x, rest)) (hs : k1 ts = some s) (hi : incToks.lookup s = none)
    (hc : noContK .incLv (k1 rest) (k2 rest) = true) :
    parseLv ladder n [.incLv, .primLv] ts = .ok (x, rest) := by
  apply climb ladder n [.incLv] [.primLv] ts rest x h
  simp [passK, noPrefixK, hs, hi, hc]


theorem passK_indep (pre : List Level) (s a b b' : Option TK) (h1 : a ≠ some .BOR) (h2 : a ≠ some .LOR) :
    passK pre s a b = passK pre s a b' := by
  simp only [passK, noContK_indep _ a b b' h1 h2]

theorem stop_RPAREN' (b : Option TK) : opOK ladderPre (some .RPAREN) b = true := by
  rw [opOK_indep _ _ b none (by decide) (by decide)]; exact stop_RPAREN
theorem stop_RBRACK' (b : Option TK) : opOK ladderPre (some .RBRACK) b = true := by
  rw [opOK_indep _ _ b none (by decide) (by decide)]; exact stop_RBRACK
theorem stop_COMMA' (b : Option TK) : opOK ladderPre (some .COMMA) b = true := by
  rw [opOK_indep _ _ b none (by decide) (by decide)]; exact stop_COMMA
theorem stop_COLON' (b : Option TK) : opOK ladderPre (some .COLON) b = true := by
  rw [opOK_indep _ _ b none (by decide) (by decide)]; exact stop_COLON

theorem norm_isVar (a : Ast) : (norm a).isVar = a.isVar := by
  cases a with
  | int v t =>
    cases t with
    | none => by_cases hv : v < 0 <;> simp [norm, hv, Ast.isVar]
    | some t => rfl
  | unr op e => simp only [norm]; split <;> rfl
  | _ => simp [norm, Ast.isVar]

theorem norm_isPos (a : Ast) : (norm a).isPos = a.isPos := by
  cases a with
  | int v t =>
    cases t with
    | none => by_cases hv : v < 0 <;> simp [norm, hv, Ast.isPos]
    | some t => rfl
  | unr op e => simp only [norm]; split <;> rfl
  | _ => simp [norm, Ast.isPos]

/-! ### one lemma per node kind -/

theorem case_int_some (v : Int) (t : String) (h : 0 ≤ v) (h2 : v < 9223372036854775808) : OStmt (.int v (some t)) := by
  apply O_of_base _ (by simp only [WFparse]; exact ⟨h, h2⟩)
  intro n rest hn hi hp
  rw [opnd_nonass _ rfl, print_int_some] at hn ⊢
  obtain ⟨m, rfl⟩ : ∃ m, n = m + 1 := ⟨n - 1, by simp at hn; omega⟩
  apply base_of_prim _ _ _ _ .INT _ rfl (by decide) hi
  apply prim_of_noPipe m _ rest rest _ _ hp
  show primNoPipe ladder m TK.INT _ _ = _
  rw [primNoPipe]; simp [norm, Int.toNat_of_nonneg h]

theorem prim_nat (m : Nat) (k : Nat) (rest : List Tok) (hp : noContK .primLv (k1 rest) (k2 rest) = true) :
    parseLv ladder (m + 1) [.primLv] (natTok k :: rest) = .ok (.int (Int.ofNat k) (some (toString k)), rest) := by
  apply prim_of_noPipe m _ rest rest _ _ hp
  show primNoPipe ladder m TK.INT _ _ = _
  rw [primNoPipe]; rfl

theorem case_lit (k : TK) (s : String) (h : k ∈ litKinds) : OStmt (.lit k s) := by
  apply O_of_base _ (by simpa [WFparse] using h)
  intro n rest hn hi hp
  rw [opnd_nonass _ rfl, print_lit] at hn ⊢
  obtain ⟨m, rfl⟩ : ∃ m, n = m + 1 := ⟨n - 1, by simp at hn; omega⟩
  simp only [litKinds, List.mem_cons, List.not_mem_nil, or_false] at h
  rcases h with h | h | h | h | h | h <;> subst h
  · apply base_of_prim _ _ _ _ .FLT _ rfl (by decide) hi
    apply prim_of_noPipe m _ rest rest _ _ hp
    show primNoPipe ladder m TK.FLT _ _ = _
    rw [primNoPipe]; simp [norm]
  · apply base_of_prim _ _ _ _ .STR _ rfl (by decide) hi
    apply prim_of_noPipe m _ rest rest _ _ hp
    show primNoPipe ladder m TK.STR _ _ = _
    rw [primNoPipe]; simp [norm]
  · apply base_of_prim _ _ _ _ .MBS _ rfl (by decide) hi
    apply prim_of_noPipe m _ rest rest _ _ hp
    show primNoPipe ladder m TK.MBS _ _ = _
    rw [primNoPipe]; simp [norm]
  · apply base_of_prim _ _ _ _ .CHAR _ rfl (by decide) hi
    apply prim_of_noPipe m _ rest rest _ _ hp
    show primNoPipe ladder m TK.CHAR _ _ = _
    rw [primNoPipe]; simp [norm]
  · apply base_of_prim _ _ _ _ .BCHR _ rfl (by decide) hi
    apply prim_of_noPipe m _ rest rest _ _ hp
    show primNoPipe ladder m TK.BCHR _ _ = _
    rw [primNoPipe]; simp [norm]
  · apply base_of_prim _ _ _ _ .XNIL _ rfl (by decide) hi
    apply prim_of_noPipe m _ rest rest _ _ hp
    show primNoPipe ladder m TK.XNIL _ _ = _
    rw [primNoPipe]; simp [norm]

theorem case_var (nm : String) : OStmt (.var nm) := by
  apply O_of_base _ (by simp [WFparse])
  intro n rest hn hi hp
  rw [opnd_nonass _ rfl, print_var] at hn ⊢
  obtain ⟨m, rfl⟩ : ∃ m, n = m + 1 := ⟨n - 1, by simp at hn; omega⟩
  apply base_of_prim _ _ _ _ .IDENT _ rfl (by decide) hi
  apply prim_of_noPipe m _ rest rest _ _ hp
  show primNoPipe ladder m TK.IDENT _ _ = _
  cases rest with
  | nil => rw [primNoPipe.eq_def]; simp [norm]
  | cons u r =>
    have := headIs_LBRACK_false _ hp
    simp only [headIs] at this
    rw [primNoPipe.eq_def]; simp [norm, this]


theorem k2_cons (t : Tok) (r : List Tok) : k2 (t :: r) = k1 r := by cases r <;> rfl
theorem k1_cons (t : Tok) (r : List Tok) : k1 (t :: r) = some t.k := rfl

theorem rp_prim (rest : List Tok) : noContK .primLv (k1 (tRP :: rest)) (k2 (tRP :: rest)) = true := by
  rw [k1_cons, k2_cons, tRP_k]; exact opOK_prim (stop_RPAREN' _)
theorem rp_inc (rest : List Tok) : noContK .incLv (k1 (tRP :: rest)) (k2 (tRP :: rest)) = true := by
  rw [k1_cons, k2_cons, tRP_k]; exact opOK_inc (stop_RPAREN' _)
theorem rp_stop (rest : List Tok) : opOK ladderPre (k1 (tRP :: rest)) (k2 (tRP :: rest)) = true := by
  rw [k1_cons, k2_cons, tRP_k]; exact stop_RPAREN' _

/-- `op X )` read by parse_expr, where `X` is read by the two bottom levels: parse_unary applies (folds) the operator -/
theorem unary_apply (m : Nat) (op : UnrOp) (t : Tok) (ht : unaryToks.lookup t.k = some op)
    (hpass : passK unPre (some t.k) (some .RPAREN) none = true)
    (ts rest : List Tok) (x y : Ast) (s : TK) (hs : k1 (ts ++ tRP :: rest) = some s) (hsk : s ∈ startKs)
    (hop : parseLv ladder m [.incLv, .primLv] (ts ++ tRP :: rest) = .ok (x, tRP :: rest))
    (hy : mkUnr op x = .ok y) :
    parseLv ladder (m + 1) ladder (t :: (ts ++ tRP :: rest)) = .ok (y, tRP :: rest) := by
  rw [ladder_split, ladderPre_unary, List.append_assoc]
  apply climb ladder (m + 1) unPre
  · show parseLv ladder (m + 1) (.unaryLv :: (unBelowPre ++ [.incLv, .primLv])) (t :: (ts ++ tRP :: rest)) = _
    rw [parseLv]; simp only [ht]
    have hin : parseLv ladder m (.unaryLv :: (unBelowPre ++ [.incLv, .primLv])) (ts ++ tRP :: rest) = .ok (x, tRP :: rest) := by
      have := climb ladder m (.unaryLv :: unBelowPre) [.incLv, .primLv] (ts ++ tRP :: rest) (tRP :: rest) x hop (by
        rw [hs, k1_cons, k2_cons, tRP_k, passK_indep _ _ _ _ none (by decide) (by decide)]
        have := unBelow_pass; simp only [List.all_eq_true] at this; exact this s hsk)
      simpa using this
    rw [hin]; simp only [hy]
  · rw [k1_cons, k1_cons, k2_cons, tRP_k, passK_indep _ _ _ _ none (by decide) (by decide)]; exact hpass

theorem case_int_none (v : Int) (hw : WFparse (.int v none)) : OStmt (.int v none) := by
  apply O_of_base _ hw
  intro n rest hn hi hp
  rw [opnd_nonass _ rfl] at hn ⊢
  by_cases hv : v < 0
  · rw [print_int_neg v hv] at hn ⊢
    obtain ⟨m, rfl⟩ : ∃ m, n = m + 3 := ⟨n - 3, by simp at hn; omega⟩
    apply base_of_prim _ _ _ _ .LPAREN _ (by simp [k1, tLP_k]) (by decide) hi
    have hE : parseLv ladder (m + 1 + 1) ladder (tMINUS :: ([natTok v.natAbs] ++ tRP :: rest)) = .ok (.int v none, tRP :: rest) := by
      apply unary_apply (m + 1) .MINUS tMINUS minus_lookup unPre_pass_minus [natTok v.natAbs] rest
        (.int (Int.ofNat v.natAbs) (some (toString v.natAbs))) (.int v none) .INT rfl (by decide)
      · exact base_of_prim _ _ _ _ .INT (prim_nat m _ _ (rp_prim rest)) rfl (by decide) (rp_inc rest)
      · simp only [WFparse] at hw
        simp only [mkUnr, foldUnrInt, wrap64, Int.ofNat_eq_natCast]
        congr 2; omega
    have hnorm : norm (.int v none) = .int v none := by simp [norm, hv]
    rw [hnorm]
    exact prim_paren (m + 1 + 1) [tMINUS, natTok v.natAbs] rest _ (by simpa using hE) hp
  · rw [print_int_nonneg v hv] at hn ⊢
    obtain ⟨m, rfl⟩ : ∃ m, n = m + 1 := ⟨n - 1, by simp at hn; omega⟩
    apply base_of_prim _ _ _ _ .INT _ rfl (by decide) hi
    have := prim_nat m v.toNat rest hp
    have e : Int.ofNat v.toNat = v := Int.toNat_of_nonneg (by omega)
    rw [e] at this
    simpa [norm, hv] using this


theorem lp_k1 (ts : List Tok) : k1 (tLP :: ts) = some .LPAREN := by rw [k1_cons, tLP_k]

/-- `( e )` read by the two bottom levels -/
theorem base_paren (m : Nat) (e : Ast) (he : EStmt e) (rest : List Tok) (hm : (print e).length ≤ m)
    (hi : noContK .incLv (k1 rest) (k2 rest) = true) (hp : noContK .primLv (k1 rest) (k2 rest) = true) :
    parseLv ladder (m + 1) [.incLv, .primLv] (tLP :: (print e ++ tRP :: rest)) = .ok (norm e, rest) :=
  base_of_prim _ _ _ _ .LPAREN (prim_paren m (print e) rest (norm e) (he m (tRP :: rest) hm (rp_stop rest)) hp)
    (lp_k1 _) (by decide) hi

theorem case_pos (e : Ast) (hw : WFparse e) (he : EStmt e) : OStmt (.pos e) := by
  apply O_of_base _ (by simpa [WFparse] using hw)
  intro n rest hn hi hp
  rw [opnd_nonass _ rfl, print_pos] at hn ⊢
  obtain ⟨m, rfl⟩ : ∃ m, n = m + 3 := ⟨n - 3, by simp at hn; omega⟩
  simp only [List.cons_append, List.append_assoc, List.nil_append]
  apply base_of_prim _ _ _ _ .DOLLAR _ (by rw [k1_cons, tDOLLAR_k]) (by decide) hi
  apply prim_of_noPipe (m + 2) _ _ rest _ _ hp
  show primNoPipe ladder (m + 2) tDOLLAR.k _ _ = _
  rw [tDOLLAR_k, primNoPipe.eq_def]
  have := prim_paren (m + 1) (print e) rest (norm e) (he (m + 1) (tRP :: rest) (by simp at hn; omega) (rp_stop rest)) hp
  simp [this, norm]

theorem norm_isFlt (a : Ast) : (norm a).isFlt = a.isFlt := by
  cases a with
  | int v t =>
    cases t with
    | none => by_cases hv : v < 0 <;> simp [norm, hv, Ast.isFlt]
    | some t => rfl
  | unr op e => simp only [norm]; split <;> rfl
  | _ => simp [norm, Ast.isFlt]

theorem mkUnr_norm (op : UnrOp) (e : Ast) (hf : e.isFlt = false) : mkUnr op (norm e) = .ok (norm (.unr op e)) := by
  have hf' : (norm e).isFlt = false := by rw [norm_isFlt]; exact hf
  simp only [norm]
  generalize norm e = x at hf' ⊢
  cases x with
  | lit k s => cases k <;> simp_all [mkUnr, Ast.isFlt]
  | _ => simp [mkUnr]

theorem case_unr (op : UnrOp) (e : Ast) (hw : WFparse e) (hf : e.isFlt = false) (he : EStmt e) : OStmt (.unr op e) := by
  apply O_of_base _ (by simp only [WFparse]; exact ⟨hw, hf⟩)
  intro n rest hn hi hp
  rw [opnd_nonass _ rfl, print_unr] at hn ⊢
  obtain ⟨m, rfl⟩ : ∃ m, n = m + 5 := ⟨n - 5, by simp at hn; omega⟩
  have hlen : (print e).length ≤ m := by simp at hn; omega
  apply base_of_prim _ _ _ _ .LPAREN _ (lp_k1 _) (by decide) hi
  have hE : parseLv ladder (m + 3 + 1) ladder (unrTok op :: ((tLP :: (print e ++ [tRP])) ++ tRP :: rest)) = .ok (norm (.unr op e), tRP :: rest) := by
    apply unary_apply (m + 3) op (unrTok op) (unary_lookup op) (unPre_pass op) (tLP :: (print e ++ [tRP])) rest (norm e) _ .LPAREN
      (by simp [k1, tLP_k]) (by decide)
    · have := base_paren (m + 2) e he (tRP :: rest) (by omega) (rp_inc rest) (rp_prim rest)
      simpa using this
    · exact mkUnr_norm op e hf
  have := prim_paren (m + 4) (unrTok op :: tLP :: (print e ++ [tRP])) rest _ (by simpa using hE) hp
  simpa using this

theorem isAss_of_var (l : Ast) (h : (l.isVar || l.isPos) = true) : l.isAss = false := by
  cases l <;> simp_all [Ast.isVar, Ast.isPos, Ast.isAss]

theorem norm_varpos (e : Ast) (hv : (e.isVar || e.isPos) = true) : ((norm e).isVar || (norm e).isPos) = true := by
  rw [norm_isVar, norm_isPos]; exact hv

theorem case_incpre (op : IncOp) (e : Ast) (hw : WFparse e) (hv : (e.isVar || e.isPos) = true) (he : EStmt e) :
    OStmt (.incpre op e) := by
  apply O_of_base _ (by simp only [WFparse]; exact ⟨hw, hv⟩)
  intro n rest hn hi hp
  rw [opnd_nonass _ rfl, print_incpre] at hn ⊢
  obtain ⟨m, rfl⟩ : ∃ m, n = m + 3 := ⟨n - 3, by simp at hn; omega⟩
  simp only [List.cons_append, List.append_assoc, List.nil_append]
  have this : parseLv ladder (m + 2) [.primLv] (tLP :: (print e ++ tRP :: rest)) = .ok (norm e, rest) :=
    prim_paren (m + 1) (print e) rest (norm e) (he (m + 1) (tRP :: rest) (by simp at hn; omega) (rp_stop rest)) hp
  have hv' := norm_varpos e hv
  rw [parseLv]; simp only [inc_lookup op]
  rw [this]
  simp only [Bool.or_eq_true] at hv'
  simp [blankconcat, norm]
  intro h0; rcases hv' with h1 | h1 <;> simp_all

theorem case_incpst (op : IncOp) (e : Ast) (hw : WFparse e) (hv : (e.isVar || e.isPos) = true) (he : EStmt e) :
    OStmt (.incpst op e) := by
  apply O_of_base _ (by simp only [WFparse]; exact ⟨hw, hv⟩)
  intro n rest hn hi hp
  rw [opnd_nonass _ rfl, print_incpst] at hn ⊢
  obtain ⟨m, rfl⟩ : ∃ m, n = m + 3 := ⟨n - 3, by simp at hn; omega⟩
  simp only [List.cons_append, List.append_assoc, List.nil_append]
  have hp' : noContK .primLv (k1 (incTok op :: rest)) (k2 (incTok op :: rest)) = true := by
    rw [k1_cons, k2_cons]; exact stop_inc' op _
  have this : parseLv ladder (m + 3) [.primLv] (tLP :: (print e ++ tRP :: incTok op :: rest)) = .ok (norm e, incTok op :: rest) :=
    prim_paren (m + 2) (print e) (incTok op :: rest) (norm e)
      (he (m + 2) (tRP :: incTok op :: rest) (by simp at hn; omega) (rp_stop _)) hp'
  have hv' := norm_varpos e hv
  rw [parseLv]; simp only [lp_not_inc]
  rw [this]
  simp only [Bool.or_eq_true] at hv'
  simp [inc_lookup op, norm]
  intro h0; rcases hv' with h1 | h1 <;> simp_all


theorem case_cnd (c l r : Ast) (hwc : WFparse c) (hwl : WFparse l) (hwr : WFparse r)
    (hc : EStmt c) (hl : EStmt l) (hr : EStmt r) : OStmt (.cnd c l r) := by
  apply O_of_base _ (by simp only [WFparse]; exact ⟨hwc, hwl, hwr⟩)
  intro n rest hn hi hp
  rw [opnd_nonass _ rfl, print_cnd] at hn ⊢
  obtain ⟨m, rfl⟩ : ∃ m, n = m + 6 := ⟨n - 6, by simp at hn; omega⟩
  have hlc : (print c).length ≤ m := by simp at hn; omega
  have hll : (print l).length ≤ m := by simp at hn; omega
  have hlr : (print r).length ≤ m := by simp at hn; omega
  apply base_of_prim _ _ _ _ .LPAREN _ (lp_k1 _) (by decide) hi
  -- the tokens between the outer parentheses
  let inner := tLP :: (print c ++ tRP :: tQUEST :: (print l ++ tCOLON :: print r))
  have hE : parseLv ladder (m + 5) ladder (inner ++ tRP :: rest) = .ok (.cnd (norm c) (norm l) (norm r), tRP :: rest) := by
    have hlad : parseLv ladder (m + 5) ladder (inner ++ tRP :: rest)
        = parseLv ladder (m + 5) (.assLv :: .cndLv :: (cndPre ++ [.incLv, .primLv])) (inner ++ tRP :: rest) := by
      rw [← ladder_cnd]
    rw [hlad]
    simp only [inner, List.cons_append, List.append_assoc, List.nil_append]
    -- the test `( c )` below parse_expr_basic, followed by `?`
    have h1 : parseLv ladder (m + 5) (cndPre ++ [.incLv, .primLv])
        (tLP :: (print c ++ tRP :: tQUEST :: (print l ++ tCOLON :: (print r ++ tRP :: rest))))
        = .ok (norm c, tQUEST :: (print l ++ tCOLON :: (print r ++ tRP :: rest))) := by
      apply climb ladder (m + 5) cndPre
      · exact base_paren (m + 4) c hc _ (by omega)
          (by rw [k1_cons, k2_cons, tQUEST_k]; exact opOK_inc (stop_QUEST' _))
          (by rw [k1_cons, k2_cons, tQUEST_k]; exact opOK_prim (stop_QUEST' _))
      · rw [lp_k1, k1_cons, k2_cons, tQUEST_k]; exact opOK_pass (stop_QUEST' _) (by decide)
    have h2 : parseLv ladder (m + 4) ladder (print l ++ tCOLON :: (print r ++ tRP :: rest))
        = .ok (norm l, tCOLON :: (print r ++ tRP :: rest)) :=
      hl (m + 4) _ (by omega) (by rw [k1_cons, k2_cons, tCOLON_k]; exact stop_COLON' _)
    have h3 : parseLv ladder (m + 4) ladder (print r ++ tRP :: rest) = .ok (norm r, tRP :: rest) :=
      hr (m + 4) _ (by omega) (rp_stop rest)
    rw [parseLv, parseLv, h1]
    simp only [tQUEST_k, bne_self_eq_false, Bool.false_eq_true, if_false]
    rw [h2]
    simp only [tCOLON_k, bne_self_eq_false, Bool.false_eq_true, if_false]
    rw [h3]
    simp only [rp_not_assign]
  have := prim_paren (m + 5) inner rest _ hE hp
  simpa [inner, norm] using this

theorem case_ass (op : AssOp) (l r : Ast) (hwl : WFparse l) (hwr : WFparse r) (hv : (l.isVar || l.isPos) = true)
    (ol : OStmt l) (er : EStmt r) : EStmt (.ass op l r) := by
  intro n rest hn hok
  rw [print_ass] at hn ⊢
  obtain ⟨m, rfl⟩ : ∃ m, n = m + 1 := ⟨n - 1, by simp at hn; omega⟩
  have hlr : (print r).length ≤ m := by simp at hn; omega
  have hll : (print l).length ≤ m + 1 := by simp at hn; omega
  have hlad : parseLv ladder (m + 1) ladder ((print l ++ assTok op :: print r) ++ rest)
      = parseLv ladder (m + 1) (.assLv :: (tailPre ++ [.incLv, .primLv])) ((print l ++ assTok op :: print r) ++ rest) := by
    rw [← ladder_ass]
  rw [hlad]
  simp only [List.cons_append, List.append_assoc, List.nil_append]
  obtain ⟨t, r', e, hk⟩ := print_head r hwr
  have h1 : parseLv ladder (m + 1) (tailPre ++ [.incLv, .primLv]) (print l ++ assTok op :: (print r ++ rest))
      = .ok (norm l, assTok op :: (print r ++ rest)) := by
    have := ol (m + 1) tailPre (assTok op :: (print r ++ rest)) (by rw [opnd_nonass l (isAss_of_var l hv)]; exact hll)
      (by
        rw [k1_cons, k2_cons, e]
        have := stop_ass op; simp only [List.all_eq_true] at this
        exact this t.k hk)
    rw [opnd_nonass l (isAss_of_var l hv)] at this
    exact this
  have h2 := er m rest hlr hok
  have hv' := norm_varpos l hv
  rw [parseLv, h1]
  simp only [assign_lookup op, hv', Bool.not_true, Bool.false_eq_true, if_false, h2, norm]

theorem O_of_E_ass (op : AssOp) (l r : Ast) (hw : WFparse (.ass op l r)) (he : EStmt (.ass op l r)) : OStmt (.ass op l r) := by
  apply O_of_base _ hw
  intro n rest hn hi hp
  have ho : opnd (.ass op l r) = tLP :: (print (.ass op l r) ++ [tRP]) := by simp [opnd, Ast.isAss]
  rw [ho] at hn ⊢
  obtain ⟨m, rfl⟩ : ∃ m, n = m + 2 := ⟨n - 2, by simp at hn; omega⟩
  have := base_paren (m + 1) _ he rest (by simp at hn; omega) hi hp
  simpa using this


theorem start_not_newline (s : TK) (h : s ∈ startKs) : s ≠ .NEWLINE := by
  intro e; subst e; revert h; decide

theorem case_bin (op : BinOp) (l r : Ast) (hwl : WFparse l) (hwr : WFparse r)
    (hnf : ¬ (foldable op = true ∧ (norm l).isNum = true ∧ (norm r).isNum = true)) (hin : op = .IN → r.isVar = true)
    (ol : OStmt l) (or : OStmt r) : OStmt (.bin op l r) := by
  apply O_of_base _ (by simp only [WFparse]; exact ⟨hwl, hwr, hnf, hin⟩)
  intro n rest hn hi hp
  rw [opnd_nonass _ rfl, print_bin] at hn ⊢
  obtain ⟨m, rfl⟩ : ∃ m, n = m + 2 := ⟨n - 2, by simp at hn; omega⟩
  have hll : (opnd l).length ≤ m + 1 := by simp at hn; omega
  have hlr : (opnd r).length ≤ m := by simp at hn; omega
  obtain ⟨tl, rl, el, hkl⟩ := opnd_head l hwl
  obtain ⟨tr, rr, er, hkr⟩ := opnd_head r hwr
  apply base_of_prim _ _ _ _ .LPAREN _ (lp_k1 _) (by decide) hi
  have hb := binOK_all op
  unfold binOK at hb
  split at hb
  · simp at hb
  · next pre L bp hs =>
    obtain ⟨hsplit, hh⟩ := splitAtOp_eq _ _ _ _ _ _ hs
    simp only [Bool.and_eq_true, List.all_eq_true] at hb
    obtain ⟨⟨⟨hb1, hb2⟩, hb3⟩, hb4⟩ := hb
    have e : ladder = pre ++ L :: (bp ++ [.incLv, .primLv]) := by rw [ladder_split, hsplit]; simp
    have hE : parseLv ladder (m + 1) ladder ((opnd l ++ binTok op :: opnd r) ++ tRP :: rest)
        = .ok (.bin op (norm l) (norm r), tRP :: rest) := by
      have hlad : parseLv ladder (m + 1) ladder ((opnd l ++ binTok op :: opnd r) ++ tRP :: rest)
          = parseLv ladder (m + 1) (pre ++ L :: (bp ++ [.incLv, .primLv])) ((opnd l ++ binTok op :: opnd r) ++ tRP :: rest) := by
        rw [← e]
      rw [hlad]
      simp only [List.cons_append, List.append_assoc, List.nil_append]
      apply climb ladder (m + 1) pre
      · apply binLevel m L (bp ++ [Level.incLv, Level.primLv]) op (binTok op) tRP (opnd l) (opnd r) rest (norm l) (norm r) hh
        · exact ol (m + 1) bp _ hll (by rw [k1_cons, k2_cons, er, List.cons_append, k1_cons]; exact hb2 tr.k hkr)
        · have e2 : rightLevels L bp ++ [Level.incLv, Level.primLv] = rightLevels L (bp ++ [Level.incLv, Level.primLv]) := by
            simp only [rightLevels]; split <;> rfl
          rw [← e2]
          exact or m (rightLevels L bp) _ hlr (by
            rw [k1_cons, k2_cons, tRP_k, opOK_indep _ _ _ none (by decide) (by decide)]; exact hb3)
        · rw [er, List.cons_append, k1_cons]; intro h; exact start_not_newline _ hkr (by simpa using h)
        · exact mkBin_nofold op _ _ hnf
        · intro h; rw [norm_isVar]; exact hin h
        · rw [tRP_k, noContK_indep _ _ _ none (by decide) (by decide)]; exact hb4
      · rw [el, List.cons_append, k1_cons, k1_cons, k2_cons, tRP_k, passK_indep _ _ _ _ none (by decide) (by decide)]
        exact hb1 tl.k hkl
    have := prim_paren (m + 1) (opnd l ++ binTok op :: opnd r) rest _ hE hp
    simpa [norm] using this


/-- the inside of a printed binary node (between its parentheses), read by parse_expr: used by `case_bin`'s twin below and by the
    statement level (`for (k in a)` is printed without parentheses of its own around the `in` node's) -/
theorem bin_inner (op : BinOp) (l r : Ast) (hwl : WFparse l) (hwr : WFparse r)
    (hnf : ¬ (foldable op = true ∧ (norm l).isNum = true ∧ (norm r).isNum = true)) (hin : op = .IN → r.isVar = true)
    (ol : OStmt l) (or : OStmt r) (m : Nat) (rest : List Tok) (hll : (opnd l).length ≤ m + 1) (hlr : (opnd r).length ≤ m) :
    parseLv ladder (m + 1) ladder ((opnd l ++ binTok op :: opnd r) ++ tRP :: rest) = .ok (.bin op (norm l) (norm r), tRP :: rest) := by
  obtain ⟨tl, rl, el, hkl⟩ := opnd_head l hwl
  obtain ⟨tr, rr, er, hkr⟩ := opnd_head r hwr
  have hb := binOK_all op
  unfold binOK at hb
  split at hb
  · simp at hb
  · next pre L bp hs =>
    obtain ⟨hsplit, hh⟩ := splitAtOp_eq _ _ _ _ _ _ hs
    simp only [Bool.and_eq_true, List.all_eq_true] at hb
    obtain ⟨⟨⟨hb1, hb2⟩, hb3⟩, hb4⟩ := hb
    have e : ladder = pre ++ L :: (bp ++ [.incLv, .primLv]) := by rw [ladder_split, hsplit]; simp
    have hE : parseLv ladder (m + 1) ladder ((opnd l ++ binTok op :: opnd r) ++ tRP :: rest)
        = .ok (.bin op (norm l) (norm r), tRP :: rest) := by
      have hlad : parseLv ladder (m + 1) ladder ((opnd l ++ binTok op :: opnd r) ++ tRP :: rest)
          = parseLv ladder (m + 1) (pre ++ L :: (bp ++ [.incLv, .primLv])) ((opnd l ++ binTok op :: opnd r) ++ tRP :: rest) := by
        rw [← e]
      rw [hlad]
      simp only [List.cons_append, List.append_assoc, List.nil_append]
      apply climb ladder (m + 1) pre
      · apply binLevel m L (bp ++ [Level.incLv, Level.primLv]) op (binTok op) tRP (opnd l) (opnd r) rest (norm l) (norm r) hh
        · exact ol (m + 1) bp _ hll (by rw [k1_cons, k2_cons, er, List.cons_append, k1_cons]; exact hb2 tr.k hkr)
        · have e2 : rightLevels L bp ++ [Level.incLv, Level.primLv] = rightLevels L (bp ++ [Level.incLv, Level.primLv]) := by
            simp only [rightLevels]; split <;> rfl
          rw [← e2]
          exact or m (rightLevels L bp) _ hlr (by
            rw [k1_cons, k2_cons, tRP_k, opOK_indep _ _ _ none (by decide) (by decide)]; exact hb3)
        · rw [er, List.cons_append, k1_cons]; intro h; exact start_not_newline _ hkr (by simpa using h)
        · exact mkBin_nofold op _ _ hnf
        · intro h; rw [norm_isVar]; exact hin h
        · rw [tRP_k, noContK_indep _ _ _ none (by decide) (by decide)]; exact hb4
      · rw [el, List.cons_append, k1_cons, k1_cons, k2_cons, tRP_k, passK_indep _ _ _ _ none (by decide) (by decide)]
        exact hb1 tl.k hkl
    exact hE


/-! ### comma lists -/

theorem printLT_head (l : AstL) (hw : WFparseL l) (hne : l ≠ .nil) : ∃ t r, printLT l = t :: r ∧ t.k ∈ startKs := by
  match l with
  | .nil => exact absurd rfl hne
  | .cons a .nil =>
    rw [printLT_one]; exact print_head a (by simp only [WFparseL] at hw; exact hw.1)
  | .cons a (.cons b t) =>
    obtain ⟨t0, r0, e, hk⟩ := print_head a (by simp only [WFparseL] at hw; exact hw.1)
    exact ⟨t0, r0 ++ tCOMMA :: printLT (.cons b t), by rw [printLT_cons, e]; rfl, hk⟩

theorem case_list_one (a : Ast) (he : EStmt a) : LStmt (.cons a .nil) := by
  intro n sk c rest hn _ hck hok
  rw [printLT_one] at hn ⊢
  have hck' : (c.k != TK.COMMA) = true := by simpa using hck
  rw [parseList, he n (c :: rest) hn (by rw [k1_cons, k2_cons]; exact hok)]
  simp [hck', normL]

theorem case_list_cons (a b : Ast) (t : AstL) (hw : WFparseL (.cons b t)) (he : EStmt a) (hl : LStmt (.cons b t)) :
    LStmt (.cons a (.cons b t)) := by
  intro n sk c rest hn _ hck hok
  rw [printLT_cons] at hn ⊢
  obtain ⟨m, rfl⟩ : ∃ m, n = m + 1 := ⟨n - 1, by simp at hn; omega⟩
  obtain ⟨t0, r0, e, hk⟩ := printLT_head (.cons b t) hw (by simp)
  simp only [List.cons_append, List.append_assoc, List.nil_append]
  have h1 := he (m + 1) (tCOMMA :: (printLT (.cons b t) ++ c :: rest)) (by simp at hn; omega)
    (by rw [k1_cons, k2_cons, tCOMMA_k]; exact stop_COMMA' _)
  have h2 := hl m sk c rest (by simp at hn; omega) (by simp) hck hok
  have h3 : skipNl sk (printLT (.cons b t) ++ c :: rest) = printLT (.cons b t) ++ c :: rest := by
    apply skipNl_id; rw [e, List.cons_append, k1_cons]; intro h; exact start_not_newline _ hk (by simpa using h)
  rw [parseList, h1]
  simp only [tCOMMA_k, bne_self_eq_false, Bool.false_eq_true, if_false, h3, h2, normL]

theorem case_idx (nm : String) (ix : AstL) (hw : WFparseL ix) (hne : ix ≠ .nil) (hl : LStmt ix) : OStmt (.idx nm ix) := by
  apply O_of_base _ (by simp only [WFparse]; exact ⟨hw, hne⟩)
  intro n rest hn hi hp
  rw [opnd_nonass _ rfl, print_idx] at hn ⊢
  obtain ⟨m, rfl⟩ : ∃ m, n = m + 3 := ⟨n - 3, by simp at hn; omega⟩
  simp only [List.cons_append, List.append_assoc, List.nil_append]
  apply base_of_prim _ _ _ _ .IDENT _ rfl (by decide) hi
  apply prim_of_noPipe (m + 2) _ _ rest _ _ hp
  show primNoPipe ladder (m + 2) TK.IDENT _ _ = _
  have h1 := hl (m + 2) false tRB rest (by simp at hn; omega) hne (by rw [tRB_k]; decide) (by rw [tRB_k]; exact stop_RBRACK' _)
  rw [primNoPipe.eq_def]
  simp [tLB_k, h1, tRB_k, headIs_LBRACK_false rest hp, norm]

theorem case_call (nm : String) (args : AstL) (hw : WFparseL args) (hl : LStmt args) : OStmt (.call nm args) := by
  apply O_of_base _ (by simp only [WFparse]; exact hw)
  intro n rest hn hi hp
  rw [opnd_nonass _ rfl, print_call] at hn ⊢
  obtain ⟨m, rfl⟩ : ∃ m, n = m + 3 := ⟨n - 3, by simp at hn; omega⟩
  simp only [List.cons_append, List.append_assoc, List.nil_append]
  apply base_of_prim _ _ _ _ .IDENT _ rfl (by decide) hi
  apply prim_of_noPipe (m + 2) _ _ rest _ _ hp
  show primNoPipe ladder (m + 2) TK.IDENT _ _ = _
  by_cases hne : args = .nil
  · subst hne
    rw [primNoPipe.eq_def]
    simp [printLT_nil, tLP_k, tRP_k, norm, normL]
  · obtain ⟨t0, r0, e, hk⟩ := printLT_head args hw hne
    have h1 := hl (m + 2) true tRP rest (by simp at hn; omega) hne (by rw [tRP_k]; decide) (by rw [tRP_k]; exact stop_RPAREN' _)
    have h0 : (t0.k == TK.RPAREN) = false := by
      have : t0.k ≠ TK.RPAREN := by intro h; rw [h] at hk; revert hk; decide
      simpa using this
    rw [e] at h1 ⊢
    rw [primNoPipe.eq_def]
    simp only [List.cons_append] at h1 ⊢
    simp [tLP_k, h0, h1, tRP_k, norm]

theorem case_grp (b : AstL) (hw : WFparseL b) (h2 : 2 ≤ b.length) (hl : LStmt b) : OStmt (.grp b) := by
  apply O_of_base _ (by simp only [WFparse]; exact ⟨hw, h2⟩)
  intro n rest hn hi hp
  rw [opnd_nonass _ rfl, print_grp] at hn ⊢
  obtain ⟨m, rfl⟩ : ∃ m, n = m + 2 := ⟨n - 2, by simp at hn; omega⟩
  simp only [List.cons_append, List.append_assoc, List.nil_append]
  apply base_of_prim _ _ _ _ .LPAREN _ (lp_k1 _) (by decide) hi
  apply prim_of_noPipe (m + 1) _ _ rest _ _ hp
  show primNoPipe ladder (m + 1) tLP.k _ _ = _
  have hne : b ≠ .nil := by intro h; subst h; simp [AstL.length] at h2
  have h1 := hl (m + 1) true tRP rest (by simp at hn; omega) hne (by rw [tRP_k]; decide) (by rw [tRP_k]; exact stop_RPAREN' _)
  rw [tLP_k, primNoPipe.eq_def]
  match b, h2 with
  | .cons x (.cons y t), _ =>
    simp only [h1]
    simp [tRP_k, normL, tolerant, norm]


/-! ### the recursion over the tree -/

mutual
theorem rtA : (a : Ast) → WFparse a → OStmt a ∧ EStmt a
  | .int v (some t), h => by
    simp only [WFparse] at h
    have o := case_int_some v t h.1 h.2
    exact ⟨o, E_of_O _ rfl o⟩
  | .int v none, h => by
    have o := case_int_none v h
    exact ⟨o, E_of_O _ rfl o⟩
  | .lit k s, h => by
    have o := case_lit k s (by simpa [WFparse] using h)
    exact ⟨o, E_of_O _ rfl o⟩
  | .var nm, _ => by
    have o := case_var nm
    exact ⟨o, E_of_O _ rfl o⟩
  | .idx nm ix, h => by
    simp only [WFparse] at h
    have o := case_idx nm ix h.1 h.2 (rtL ix h.1)
    exact ⟨o, E_of_O _ rfl o⟩
  | .call nm args, h => by
    simp only [WFparse] at h
    have o := case_call nm args h (rtL args h)
    exact ⟨o, E_of_O _ rfl o⟩
  | .grp b, h => by
    simp only [WFparse] at h
    have o := case_grp b h.1 h.2 (rtL b h.1)
    exact ⟨o, E_of_O _ rfl o⟩
  | .pos e, h => by
    simp only [WFparse] at h
    have o := case_pos e h (rtA e h).2
    exact ⟨o, E_of_O _ rfl o⟩
  | .bin op l r, h => by
    simp only [WFparse] at h
    have o := case_bin op l r h.1 h.2.1 h.2.2.1 h.2.2.2 (rtA l h.1).1 (rtA r h.2.1).1
    exact ⟨o, E_of_O _ rfl o⟩
  | .unr op e, h => by
    simp only [WFparse] at h
    have o := case_unr op e h.1 h.2 (rtA e h.1).2
    exact ⟨o, E_of_O _ rfl o⟩
  | .incpre op e, h => by
    simp only [WFparse] at h
    have o := case_incpre op e h.1 h.2 (rtA e h.1).2
    exact ⟨o, E_of_O _ rfl o⟩
  | .incpst op e, h => by
    simp only [WFparse] at h
    have o := case_incpst op e h.1 h.2 (rtA e h.1).2
    exact ⟨o, E_of_O _ rfl o⟩
  | .cnd c l r, h => by
    simp only [WFparse] at h
    have o := case_cnd c l r h.1 h.2.1 h.2.2 (rtA c h.1).2 (rtA l h.2.1).2 (rtA r h.2.2).2
    exact ⟨o, E_of_O _ rfl o⟩
  | .ass op l r, h => by
    have h' := h
    simp only [WFparse] at h'
    have e := case_ass op l r h'.1 h'.2.1 h'.2.2 (rtA l h'.1).1 (rtA r h'.2.1).2
    exact ⟨O_of_E_ass op l r h e, e⟩
theorem rtL : (l : AstL) → WFparseL l → LStmt l
  | .nil, _ => by intro n sk c rest _ hne; exact absurd rfl hne
  | .cons a .nil, h => by
    simp only [WFparseL] at h
    exact case_list_one a (rtA a h.1).2
  | .cons a (.cons b t), h => by
    have h' := h
    simp only [WFparseL] at h'
    exact case_list_cons a b t (by simp only [WFparseL]; exact h'.2) (rtA a h'.1).2 (rtL (.cons b t) (by simp only [WFparseL]; exact h'.2))
end

/-- the round trip on a complete token list -/
theorem parse_print (a : Ast) (h : WFparse a) : parse (print a) = .ok (norm a) := by
  have := (rtA a h).2 ((print a).length + 1) [] (by omega) (by simpa [k1, k2] using stop_end)
  simp only [List.append_nil] at this
  simp [parse, this]

end Hawk.Deparse
