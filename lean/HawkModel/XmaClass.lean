import HawkModel.XmaLemmas
/-! C20 helper lemmas, part 3: szlog2 is the floor of log2 on machine words; the fixed size classes are exact -/
namespace Hawk.Xma

theorem szlog2_unfold (n : Nat) : szlog2 n =
    (szStep 1 (szStep 2 (szStep 4 (szStep 8 (szStep 16 (szStep 32 (63, n % 2^64))))))).1 := by
  rfl

theorem bdec_eq : bdec = 9 := by decide

theorem szStep_cases (k : Nat) (p : Nat × Nat) :
    (p.2 / 2 ^ (64 - k) = 0 ∧ szStep k p = (p.1 - k, (p.2 * 2 ^ k) % 2 ^ 64)) ∨
    (p.2 / 2 ^ (64 - k) ≠ 0 ∧ szStep k p = p) := by
  have hB : (64 : Nat) = BITS := rfl
  have hW : (2 : Nat) ^ 64 = WORD := rfl
  rw [hW, hB]
  unfold szStep
  by_cases h : p.2 / 2 ^ (BITS - k) = 0
  · exact Or.inl ⟨h, by rw [if_pos h]⟩
  · exact Or.inr ⟨h, by rw [if_neg h]⟩

/-- the branchy szlog2() of xma.c computes floor(log2 n) for every non-zero machine word -/
theorem szlog2_spec (n : Nat) (h1 : n < 2^64) (h2 : 1 ≤ n) : 2 ^ szlog2 n ≤ n ∧ n < 2 ^ (szlog2 n + 1) := by
  rw [szlog2_unfold, Nat.mod_eq_of_lt h1]
  have s1 := szStep_cases 32 (63, n)
  have s2 := szStep_cases 16 (szStep 32 (63, n))
  have s3 := szStep_cases 8 (szStep 16 (szStep 32 (63, n)))
  have s4 := szStep_cases 4 (szStep 8 (szStep 16 (szStep 32 (63, n))))
  have s5 := szStep_cases 2 (szStep 4 (szStep 8 (szStep 16 (szStep 32 (63, n)))))
  have s6 := szStep_cases 1 (szStep 2 (szStep 4 (szStep 8 (szStep 16 (szStep 32 (63, n))))))
  generalize szStep 32 (63, n) = p1 at *
  generalize szStep 16 p1 = p2 at *
  generalize szStep 8 p2 = p3 at *
  generalize szStep 4 p3 = p4 at *
  generalize szStep 2 p4 = p5 at *
  generalize szStep 1 p5 = p6 at *
  rcases s1 with ⟨c1, rfl⟩ | ⟨c1, rfl⟩ <;> rcases s2 with ⟨c2, rfl⟩ | ⟨c2, rfl⟩ <;>
  rcases s3 with ⟨c3, rfl⟩ | ⟨c3, rfl⟩ <;> rcases s4 with ⟨c4, rfl⟩ | ⟨c4, rfl⟩ <;>
  rcases s5 with ⟨c5, rfl⟩ | ⟨c5, rfl⟩ <;> rcases s6 with ⟨c6, rfl⟩ | ⟨c6, rfl⟩ <;>
  simp only [Nat.reduceSub, Nat.reduceAdd, Nat.reducePow] at * <;> omega

theorem szlog2_ge (n : Nat) (h1 : n < 2^64) (h2 : 512 ≤ n) : 9 ≤ szlog2 n ∧ szlog2 n ≤ 63 := by
  rw [szlog2_unfold, Nat.mod_eq_of_lt h1]
  have s1 := szStep_cases 32 (63, n)
  have s2 := szStep_cases 16 (szStep 32 (63, n))
  have s3 := szStep_cases 8 (szStep 16 (szStep 32 (63, n)))
  have s4 := szStep_cases 4 (szStep 8 (szStep 16 (szStep 32 (63, n))))
  have s5 := szStep_cases 2 (szStep 4 (szStep 8 (szStep 16 (szStep 32 (63, n)))))
  have s6 := szStep_cases 1 (szStep 2 (szStep 4 (szStep 8 (szStep 16 (szStep 32 (63, n))))))
  generalize szStep 32 (63, n) = p1 at *
  generalize szStep 16 p1 = p2 at *
  generalize szStep 8 p2 = p3 at *
  generalize szStep 4 p3 = p4 at *
  generalize szStep 2 p4 = p5 at *
  generalize szStep 1 p5 = p6 at *
  rcases s1 with ⟨c1, rfl⟩ | ⟨c1, rfl⟩ <;> rcases s2 with ⟨c2, rfl⟩ | ⟨c2, rfl⟩ <;>
  rcases s3 with ⟨c3, rfl⟩ | ⟨c3, rfl⟩ <;> rcases s4 with ⟨c4, rfl⟩ | ⟨c4, rfl⟩ <;>
  rcases s5 with ⟨c5, rfl⟩ | ⟨c5, rfl⟩ <;> rcases s6 with ⟨c6, rfl⟩ | ⟨c6, rfl⟩ <;>
  dsimp only at * <;> omega

/-- a size whose class is one of the FIXED small classes determines the class index exactly -/
theorem getxfi_small {x : Nat} (h2 : ALIGN ≤ x) (h3 : x < WORD) (h4 : getxfi x < FIXED) :
    getxfi x = x / ALIGN - 1 := by
  by_cases c1 : (x / ALIGN + WORD - 1) % WORD ≥ FIXED
  · exfalso
    have hge : getxfi x ≥ FIXED := by
      unfold getxfi
      simp only
      rw [if_pos c1]
      have hx : 512 ≤ x := by simp only [ALIGN, WORD, BITS, FIXED] at *; omega
      have := szlog2_ge x (by simpa [WORD, BITS] using h3) hx
      by_cases c2 : (szlog2 x + WORD - bdec + FIXED) % WORD > XFIMAX
      · rw [if_pos c2]; decide
      · rw [if_neg c2, bdec_eq]; simp only [WORD, BITS, FIXED]; omega
    omega
  · unfold getxfi
    simp only
    rw [if_neg c1]
    by_cases c2 : (x / ALIGN + WORD - 1) % WORD > XFIMAX
    · exfalso; simp only [ALIGN, WORD, BITS, FIXED, XFIMAX, NCLS] at *; omega
    · rw [if_neg c2]; simp only [ALIGN, WORD, BITS] at *; omega

/-- two aligned sizes of the same fixed class are equal: the best-fit branch of hawk_xma_alloc hands out
    a block of exactly the rounded size -/
theorem fixed_class_exact {a b : Nat} (ha1 : a % ALIGN = 0) (ha2 : ALIGN ≤ a) (ha3 : a < WORD)
    (hb1 : b % ALIGN = 0) (hb2 : ALIGN ≤ b) (hb3 : b < WORD) (h : getxfi a = getxfi b) (hf : getxfi b < FIXED) : a = b := by
  have e1 := getxfi_small hb2 hb3 hf
  have e2 := getxfi_small ha2 ha3 (by rw [h]; exact hf)
  rw [e1, e2] at h
  simp only [ALIGN] at *
  omega

/-- a block filed in the fixed class of an aligned request size holds at least that many bytes (the block itself need not
    be aligned: the last block of a caller-supplied zone of odd size is not) -/
theorem fixed_class_ge {a b : Nat} (ha2 : ALIGN ≤ a) (ha3 : a < WORD)
    (hb1 : b % ALIGN = 0) (hb2 : ALIGN ≤ b) (hb3 : b < WORD) (h : getxfi a = getxfi b) (hf : getxfi b < FIXED) : b ≤ a := by
  have e1 := getxfi_small hb2 hb3 hf
  have e2 := getxfi_small ha2 ha3 (by rw [h]; exact hf)
  rw [e1, e2] at h
  simp only [ALIGN] at *
  omega

theorem roundReq_ge {n : Nat} (hn : n < WORD) (h : ¬ roundReq n < ALIGN) : n ≤ roundReq n := by
  unfold roundReq at *
  simp only at *
  by_cases c : n < MINALLOC
  · rw [if_pos c] at h ⊢; simp only [ALIGN, MINALLOC, WORD, BITS] at *; omega
  · rw [if_neg c] at h ⊢; simp only [ALIGN, MINALLOC, WORD, BITS] at *; omega

end Hawk.Xma
