import HawkModel.Depth
/-! helper lemmas for Props/C14 -/
namespace Hawk.Depth

/-! ### Part 1: graph -/

theorem orderedCheck_sound {n : Nat} {es : List Edge} (h : orderedCheck n es = true) : Ordered n es := by
  intro e he
  have := (List.all_eq_true.mp h) e he
  simp only [Bool.and_eq_true, Bool.or_eq_true, decide_eq_true_eq] at this
  refine ⟨this.1.1, this.1.2, ?_⟩
  intro hc
  rcases this.2 with h1 | h1
  · exact absurd hc h1
  · exact h1

theorem Ordered.sublist {n : Nat} {es es' : List Edge} (h : Ordered n es) (hs : ∀ e ∈ es', e ∈ es) : Ordered n es' :=
  fun e he => h e (hs e he)

theorem chain_tail {e : Edge} {s : List Edge} (h : Chain (e :: s)) : Chain s := by
  cases s with
  | nil => trivial
  | cons f r => exact h.2

/-- the key counting lemma: a stack is at most `cutCount * n` long plus the number of its top node -/
theorem chain_len_le {n : Nat} {es : List Edge} (hO : Ordered n es) :
    ∀ s : List Edge, Chain s → (∀ e ∈ s, e ∈ es) → s.length ≤ cutCount s * n + top 0 s := by
  intro s
  induction s with
  | nil => intro _ _; simp [cutCount, top]
  | cons e r ih =>
    intro hc hm
    have he := hO e (hm e (List.mem_cons_self ..))
    cases r with
    | nil =>
      simp only [List.length_cons, List.length_nil, cutCount, top]
      by_cases h0 : e.cls = 0
      · have := he.2.2 h0
        simp [h0]; omega
      · simp [h0]; omega
    | cons f r' =>
      have hcf : Chain (f :: r') := hc.2
      have hsrc : e.src = f.dst := hc.1
      have ih' := ih hcf (fun x hx => hm x (List.mem_cons_of_mem _ hx))
      have hf := hO f (hm f (List.mem_cons_of_mem _ (List.mem_cons_self ..)))
      simp only [List.length_cons, cutCount, top] at ih' ⊢
      by_cases h0 : e.cls = 0
      · have := he.2.2 h0
        simp only [h0, if_true, Nat.zero_add]
        omega
      · simp only [h0, if_false]
        rw [Nat.add_mul, Nat.one_mul]
        omega

theorem top_lt {n : Nat} {es : List Edge} (hO : Ordered n es) {s : List Edge} (hm : ∀ e ∈ s, e ∈ es) (hne : s ≠ []) :
    top 0 s < n := by
  cases s with
  | nil => exact absurd rfl hne
  | cons e r => exact (hO e (hm e (List.mem_cons_self ..))).2.1

theorem chain_len_bound {n : Nat} {es : List Edge} (hO : Ordered n es) (s : List Edge) (hc : Chain s)
    (hm : ∀ e ∈ s, e ∈ es) : s.length ≤ (cutCount s + 1) * n := by
  have h1 := chain_len_le hO s hc hm
  rw [Nat.add_mul, Nat.one_mul]
  by_cases hne : s = []
  · subst hne; simp
  · have := top_lt hO hm hne
    omega

/-- source of the oldest call on the stack -/
def bottom (root : Nat) : List Edge → Nat
  | [] => root
  | [e] => e.src
  | _ :: f :: r => bottom root (f :: r)

/-- along a stack of plain calls the node numbers strictly increase from the oldest caller to the running function -/
theorem plain_chain_increasing {n : Nat} {es : List Edge} (hO : Ordered n es) :
    ∀ s : List Edge, s ≠ [] → Chain s → (∀ e ∈ s, e ∈ es ∧ e.cls = 0) → bottom 0 s < top 0 s := by
  intro s
  induction s with
  | nil => intro h; exact absurd rfl h
  | cons e r ih =>
    intro _ hc hm
    have he := hm e (List.mem_cons_self ..)
    have hlt := (hO e he.1).2.2 he.2
    cases r with
    | nil => simpa [bottom, top] using hlt
    | cons f r' =>
      have := ih (by simp) hc.2 (fun x hx => hm x (List.mem_cons_of_mem _ hx))
      have hsrc : e.src = f.dst := hc.1
      simp only [bottom, top] at this ⊢
      omega

/-! machine invariant -/

structure Inv (g : Graph) (s : St) : Prop where
  chain : Chain s.stack
  mem : ∀ e ∈ s.stack, e ∈ g.edges
  ctr : ∀ c, 2 ≤ c → s.ctr c = clsCount c s.stack
  lim : ∀ c, 2 ≤ c → clsCount c s.stack ≤ g.limit c

theorem inv_init (g : Graph) : Inv g St.init :=
  ⟨trivial, by simp [St.init], by simp [St.init, clsCount], by simp [St.init, clsCount]⟩

theorem chain_cons_top {root : Nat} {e : Edge} {s : List Edge} (hc : Chain s) (h : e.src = top root s) (hne : s ≠ [] ∨ True) :
    Chain (e :: s) := by
  cases s with
  | nil => trivial
  | cons f r => exact ⟨by simpa [top] using h, hc⟩

theorem inv_step {g : Graph} {root : Nat} {s s' : St} {o : Op} (hi : Inv g s) (h : step g root s o = some s') :
    Inv g s' := by
  cases o with
  | call e =>
    simp only [step] at h
    split at h
    · rename_i hcond
      obtain ⟨hmem, hsrc, hguard⟩ := hcond
      cases h
      refine ⟨chain_cons_top hi.chain hsrc (Or.inr trivial), ?_, ?_, ?_⟩
      · intro x hx
        rcases List.mem_cons.mp hx with rfl | hx
        · exact hmem
        · exact hi.mem x hx
      · intro c hc
        simp only [clsCount]
        by_cases hce : e.cls = c
        · subst hce
          simp [hc, hi.ctr _ hc]; omega
        · have : ¬ (c = e.cls ∧ 2 ≤ e.cls) := fun h => hce h.1.symm
          simp [this, hce, hi.ctr c hc]
      · intro c hc
        simp only [clsCount]
        by_cases hce : e.cls = c
        · subst hce
          rcases hguard with h2 | h2
          · omega
          · have := hi.ctr _ hc
            simp; omega
        · simp [hce]; exact hi.lim c hc
    · cases h
  | ret =>
    simp only [step] at h
    cases hs : s.stack with
    | nil => rw [hs] at h; cases h
    | cons e r =>
      rw [hs] at h
      cases h
      have hc := hi.chain
      have hm := hi.mem
      have hctr := hi.ctr
      have hlim := hi.lim
      rw [hs] at hc hm hctr hlim
      refine ⟨chain_tail hc, fun x hx => hm x (List.mem_cons_of_mem _ hx), ?_, ?_⟩
      · intro c hc2
        have := hctr c hc2
        simp only [clsCount] at this
        by_cases hce : e.cls = c
        · subst hce
          simp [hc2]; simp at this; omega
        · have hn : ¬ (c = e.cls ∧ 2 ≤ e.cls) := fun h => hce h.1.symm
          simp [hn]; simp [hce] at this; exact this
      · intro c hc2
        have := hlim c hc2
        simp only [clsCount] at this
        show clsCount c r ≤ g.limit c
        omega

theorem inv_run {g : Graph} {root : Nat} : ∀ (ops : List Op) (s s' : St), Inv g s → run g root s ops = some s' → Inv g s' := by
  intro ops
  induction ops with
  | nil => intro s s' hi h; simp [run] at h; subst h; exact hi
  | cons o os ih =>
    intro s s' hi h
    simp only [run] at h
    cases hst : step g root s o with
    | none => rw [hst] at h; cases h
    | some s1 =>
      rw [hst] at h
      exact ih s1 s' (inv_step hi hst) h

/-- sum over the cut classes of the per-class counts -/
def sumCls (s : List Edge) : Nat → Nat
  | 0 => 0
  | k + 1 => sumCls s k + clsCount (k + 2) s

theorem sumCls_cons (e : Edge) (r : List Edge) : ∀ K, sumCls (e :: r) K = (if 2 ≤ e.cls ∧ e.cls < K + 2 then 1 else 0) + sumCls r K := by
  intro K
  induction K with
  | zero =>
    simp only [sumCls]
    have : ¬ (2 ≤ e.cls ∧ e.cls < 0 + 2) := by omega
    simp [this]
  | succ k ih =>
    simp only [sumCls, clsCount, ih]
    by_cases h1 : e.cls = k + 2
    · have a : ¬ (2 ≤ e.cls ∧ e.cls < k + 2) := by omega
      have b : (2 ≤ e.cls ∧ e.cls < k + 1 + 2) := by omega
      simp [h1]; omega
    · by_cases h2 : 2 ≤ e.cls ∧ e.cls < k + 2
      · have b : (2 ≤ e.cls ∧ e.cls < k + 1 + 2) := by omega
        simp [h2, b, h1]; omega
      · have b : ¬ (2 ≤ e.cls ∧ e.cls < k + 1 + 2) := by omega
        simp [h2, b, h1]

theorem cutCount_eq_sumCls (K : Nat) : ∀ s : List Edge, (∀ e ∈ s, e.cls ≠ 1 ∧ e.cls < K + 2) → cutCount s = sumCls s K := by
  intro s
  induction s with
  | nil =>
    intro _
    have : ∀ K, sumCls [] K = 0 := by
      intro K; induction K with
      | zero => rfl
      | succ k ih => simp [sumCls, ih, clsCount]
    simp [cutCount, this]
  | cons e r ih =>
    intro h
    have he := h e (List.mem_cons_self ..)
    rw [sumCls_cons, cutCount, ih (fun x hx => h x (List.mem_cons_of_mem _ hx))]
    by_cases h0 : e.cls = 0
    · have : ¬ (2 ≤ e.cls ∧ e.cls < K + 2) := by omega
      simp [h0]
    · have : (2 ≤ e.cls ∧ e.cls < K + 2) := by omega
      simp [h0, this]

theorem sumCls_le_sumLimits {limit : Nat → Nat} {s : List Edge} (h : ∀ c, 2 ≤ c → clsCount c s ≤ limit c) :
    ∀ K, sumCls s K ≤ sumLimits limit K := by
  intro K
  induction K with
  | zero => simp [sumCls, sumLimits]
  | succ k ih =>
    simp only [sumCls, sumLimits]
    have := h (k + 2) (by omega)
    omega

/-- well-formedness of a cut graph: certificate + no residual edge + classes in range -/
structure Graph.Good (g : Graph) : Prop where
  ordered : Ordered g.nNodes g.edges
  classes : ∀ e ∈ g.edges, e.cls ≠ 1 ∧ e.cls < g.nClasses + 2

theorem stack_bounded {g : Graph} (hg : g.Good) {root : Nat} {ops : List Op} {s : St}
    (h : run g root St.init ops = some s) :
    s.stack.length ≤ (sumLimits g.limit g.nClasses + 1) * g.nNodes := by
  have hi := inv_run ops St.init s (inv_init g) h
  have h1 := chain_len_bound hg.ordered s.stack hi.chain hi.mem
  have h2 := cutCount_eq_sumCls g.nClasses s.stack (fun e he => hg.classes e (hi.mem e he))
  have h3 := sumCls_le_sumLimits hi.lim g.nClasses
  have : (cutCount s.stack + 1) * g.nNodes ≤ (sumLimits g.limit g.nClasses + 1) * g.nNodes :=
    Nat.mul_le_mul_right _ (by omega)
  omega

theorem mem_dropResidual {es : List Edge} {e : Edge} (h : e ∈ dropResidual es) : e ∈ es ∧ e.cls ≠ 1 := by
  simp only [dropResidual, List.mem_filter, bne_iff_ne, ne_eq] at h
  exact h

/-! closed walks -/

theorem cycEdge_link (w : List Nat) (c k : Nat) : (cycEdge w c (k + 1)).src = (cycEdge w c k).dst := by
  simp only [cycEdge, Edge.src, Edge.dst]
  rw [Nat.mod_add_mod]

theorem spin_chain (w : List Nat) (c : Nat) : ∀ k, Chain (spin w c k) := by
  intro k
  induction k with
  | zero => trivial
  | succ k ih =>
    cases k with
    | zero => trivial
    | succ k' => exact ⟨cycEdge_link w c k', ih⟩

theorem spin_length (w : List Nat) (c : Nat) : ∀ k, (spin w c k).length = k := by
  intro k; induction k with
  | zero => rfl
  | succ k ih => simp [spin, ih]

theorem cycEdge_mem {es : List Edge} {c : Nat} {w : List Nat} (h : closedWalkCheck es c w = true) (i : Nat) :
    cycEdge w c i ∈ es := by
  simp only [closedWalkCheck, Bool.and_eq_true, Bool.not_eq_true', List.all_eq_true, List.mem_range] at h
  obtain ⟨hne, hall⟩ := h
  have hpos : 0 < w.length := by
    cases w with
    | nil => simp at hne
    | cons _ _ => simp
  have := hall (i % w.length) (Nat.mod_lt _ hpos)
  simp only [List.contains_iff_mem] at this
  exact this

theorem spin_mem {es : List Edge} {c : Nat} {w : List Nat} (h : closedWalkCheck es c w = true) :
    ∀ k, ∀ e ∈ spin w c k, e ∈ es ∧ e.cls = c := by
  intro k
  induction k with
  | zero => intro e he; simp [spin] at he
  | succ k ih =>
    intro e he
    simp only [spin, List.mem_cons] at he
    rcases he with rfl | he
    · exact ⟨cycEdge_mem h k, rfl⟩
    · exact ih e he

/-! ### Part 2: counters -/

theorem guardOk_iff (limit c : Nat) : guardOk limit c = true ↔ limit = 0 ∨ c < limit := by
  simp only [guardOk, Bool.not_eq_true', Bool.and_eq_false_iff, decide_eq_false_iff_not]
  omega

theorem descend_iff (limit : Nat) : ∀ n c, descend limit n c = true ↔ n = 0 ∨ limit = 0 ∨ c + n ≤ limit := by
  intro n
  induction n with
  | zero => intro c; simp [descend]
  | succ n ih =>
    intro c
    simp only [descend, Bool.and_eq_true, guardOk_iff, ih]
    omega

theorem stackOk_iff (limit top req : Nat) (h : top ≤ limit) : stackOk limit top req = true ↔ top + req ≤ limit := by
  simp only [stackOk, Bool.not_eq_true', decide_eq_false_iff_not]
  omega

theorem effStack_ge (l : Limits) : stackMin ≤ effStack l := by
  have h : ∀ s : Nat, stackMin ≤ (if s < stackMin then stackMin else s) := by
    intro s; split <;> omega
  exact h _

theorem Req.ok_iff (l : Limits) (r : Req) : r.ok l = true ↔ within l r.kind r.level := by
  obtain ⟨k, lv⟩ := r
  cases k <;> simp only [Req.ok, within, Bool.or_eq_true, decide_eq_true_eq, guardOk_iff] <;> omega

theorem verdict_ok_iff (l : Limits) : ∀ rs : List Req, verdict l rs = .ok ↔ ∀ r ∈ rs, r.ok l = true := by
  intro rs
  induction rs with
  | nil => simp [verdict]
  | cons r rs ih =>
    simp only [verdict, List.mem_cons, forall_eq_or_imp]
    by_cases h : r.ok l = true
    · simp [h, ih]
    · simp [h]

/-- the error reported is the kind of a request that the check refuses -/
theorem verdict_err {l : Limits} {k : Kind} : ∀ rs : List Req, verdict l rs = .err k →
    ∃ r ∈ rs, r.kind = k ∧ r.ok l = false := by
  intro rs
  induction rs with
  | nil => intro h; simp [verdict] at h
  | cons r rs ih =>
    intro h
    simp only [verdict] at h
    by_cases hr : r.ok l = true
    · simp only [hr, if_true] at h
      obtain ⟨x, hx, hk, ho⟩ := ih h
      exact ⟨x, List.mem_cons_of_mem _ hx, hk, ho⟩
    · simp only [hr] at h
      simp at h
      exact ⟨r, List.mem_cons_self .., h, by simpa using hr⟩

theorem verdict_append (l : Limits) : ∀ a b : List Req,
    verdict l (a ++ b) = match verdict l a with | .ok => verdict l b | .err k => .err k := by
  intro a b
  induction a with
  | nil => simp [verdict]
  | cons r a ih =>
    simp only [List.cons_append, verdict]
    by_cases h : r.ok l = true
    · simp [h, ih]
    · simp [h]

theorem verdict_skip (l : Limits) (x y : List Req) (hx : verdict l x = .ok) : verdict l (x ++ y) = verdict l y := by
  rw [verdict_append, hx]

theorem verdict_ok_left (l : Limits) (x y : List Req) (h : verdict l (x ++ y) = .ok) : verdict l x = .ok := by
  rw [verdict_append] at h
  cases hx : verdict l x with
  | ok => rfl
  | err k => rw [hx] at h; cases h

theorem within_mono {l : Limits} {k : Kind} {a b : Nat} (hab : a ≤ b) (h : within l k b) : within l k a := by
  cases k <;> simp only [within] at h ⊢ <;> omega

theorem within_max {l : Limits} {k : Kind} {a b : Nat} : within l k (max a b) ↔ within l k a ∧ within l k b := by
  constructor
  · intro h; exact ⟨within_mono (Nat.le_max_left ..) h, within_mono (Nat.le_max_right ..) h⟩
  · intro ⟨ha, hb⟩
    rcases Nat.le_total a b with h | h
    · rw [Nat.max_eq_right h]; exact hb
    · rw [Nat.max_eq_left h]; exact ha

theorem within_zero (l : Limits) (k : Kind) : within l k 0 := by
  cases k <;> simp [within]

theorem within_peak (l : Limits) (k : Kind) : ∀ rs : List Req,
    within l k (peak k rs) ↔ ∀ r ∈ rs, r.kind = k → within l k r.level := by
  intro rs
  induction rs with
  | nil => simp [peak, within_zero]
  | cons r rs ih =>
    simp only [peak, List.mem_cons, forall_eq_or_imp]
    by_cases h : r.kind = k
    · simp only [h, if_true, within_max, ih, true_imp_iff]
    · simp [h, ih]

theorem verdict_ok_iff_peak (l : Limits) (rs : List Req) :
    verdict l rs = .ok ↔ ∀ k, within l k (peak k rs) := by
  rw [verdict_ok_iff]
  constructor
  · intro h k
    rw [within_peak]
    intro r hr hk
    have := (Req.ok_iff l r).mp (h r hr)
    rw [hk] at this; exact this
  · intro h r hr
    rw [Req.ok_iff]
    exact (within_peak l r.kind rs).mp (h r.kind) r hr rfl

theorem verdict_err_peak {l : Limits} {k : Kind} {rs : List Req} (h : verdict l rs = .err k) :
    ¬ within l k (peak k rs) := by
  obtain ⟨r, hr, hk, ho⟩ := verdict_err rs h
  intro hw
  have := (within_peak l k rs).mp hw r hr hk
  rw [← hk, ← Req.ok_iff] at this
  rw [this] at ho; cases ho

theorem peak_append (k : Kind) (a b : List Req) : peak k (a ++ b) = max (peak k a) (peak k b) := by
  induction a with
  | nil => simp [peak]
  | cons r a ih =>
    simp only [List.cons_append, peak, ih]
    split <;> omega

theorem peak_ramp (k k' : Kind) : ∀ n a, peak k' (ramp k a n) = if k = k' ∧ 0 < n then a + n else 0 := by
  intro n
  induction n with
  | zero => intro a; simp [ramp, peak]
  | succ n ih =>
    intro a
    simp only [ramp, peak, ih]
    by_cases h : k = k'
    · subst h
      simp
      split <;> omega
    · simp [h]

theorem peak_recurFrom (k : Kind) : ∀ more j, peak k (recurFrom more j) =
    match k with
    | .stack => stackBase + 5 * (j + more) + 5
    | .blockRun => 3 + (j + more)
    | .exprRun => 2 * (j + more) + 4
    | _ => 0 := by
  intro more
  induction more with
  | zero => intro j; cases k <;> simp [recurFrom, peak] <;> omega
  | succ m ih =>
    intro j
    cases k <;> simp [recurFrom, peak, ih] <;> omega

theorem peak_padFrom (frame base : Nat) (k : Kind) : ∀ more j, peak k (padFrom frame base more j) =
    match k with
    | .stack => base + frame * (j + more) + frame
    | .blockRun => 3 + (j + more)
    | .exprRun => 2 * (j + more) + 4
    | _ => 0 := by
  intro more
  induction more with
  | zero => intro j; cases k <;> simp [padFrom, peak] <;> omega
  | succ m ih =>
    intro j
    cases k <;> simp [padFrom, peak, ih, Nat.mul_add] <;> omega

theorem peak_callFrom (k : Kind) : ∀ more lv, 1 ≤ lv → peak k (callFrom more lv) =
    match k with
    | .stack => if more = 0 then 0 else stackBase + 4 * (lv + more) - 3
    | .exprRun => if more = 0 then 0 else lv + more
    | _ => 0 := by
  intro more
  induction more with
  | zero => intro lv _; cases k <;> simp [callFrom, peak]
  | succ m ih =>
    intro lv hlv
    cases k <;> simp [callFrom, peak, ih (lv + 1) (by omega), stackBase] <;> (try split) <;> omega

theorem peak_requests (f : Family) (k : Kind) (n : Nat) : peak k (requests f n) = peakOf f k n := by
  cases f <;> cases k <;>
    simp [requests, parseReqs, runReqs, peakOf, peak, peak_append, peak_ramp, peak_recurFrom, peak_padFrom, peak_callFrom, stackBase] <;>
    (try split) <;> omega

theorem peakOf_mono (f : Family) (k : Kind) {m n : Nat} (h : m ≤ n) : peakOf f k m ≤ peakOf f k n := by
  cases f with
  | recurPad a p c =>
    have hm := Nat.mul_le_mul_left (4 + a + p) h
    cases k <;> simp [peakOf] <;> omega
  | _ => cases k <;> simp [peakOf] <;> (try split) <;> (try split) <;> omega

end Hawk.Depth
