import HawkModel.DeparseStmtStable
/-!
  Round trip of the top level: `parseProg (toksS (printProg p)) = p.map normI` for the program units `deparse` writes.
-/
namespace Hawk.Deparse
open Hawk.Gen.Precedence Hawk.Gen.Keywords

def normAct : Option Stmt → Option Stmt
  | none => none
  | some b => some (normS b)

def normI : Item → Item
  | .glob b n => .glob b n
  | .func nm np body => .func nm np (normS body)
  | .begin_ b => .begin_ (normS b)
  | .end_ b => .end_ (normS b)
  | .act b => .act (normS b)
  | .pat p q a => .pat (norm p) (normO q) (normAct a)

def isBlkP (s : Stmt) : Prop := ∃ nl l, s = .blk nl l

def WFact : Option Stmt → Prop
  | none => True
  | some b => isBlkP b ∧ WFS b

/-- the units the parser can return (`gb` = number of built-in globals) -/
def WFI (gb : Nat) : Item → Prop
  | .glob b n => b = gb ∧ 0 < n
  | .func _ _ body => isBlkP body ∧ WFS body
  | .begin_ b => isBlkP b ∧ WFS b
  | .end_ b => isBlkP b ∧ WFS b
  | .act b => isBlkP b ∧ WFS b
  | .pat p q a => WFparse p ∧ WFO q ∧ WFact a

def szAct : Option Stmt → Nat
  | none => 1
  | some b => sz b

def szI : Item → Nat
  | .glob _ _ => 1
  | .func _ _ b => sz b
  | .begin_ b => sz b
  | .end_ b => sz b
  | .act b => sz b
  | .pat _ _ a => szAct a

def szP : List Item → Nat
  | [] => 1
  | i :: r => szI i + szP r + 1

theorem toks_canon_one (pre : String) (b : Nat) : toksS (canonList pre b 1) = [canonTok pre b] := rfl
theorem toks_canon_more (pre : String) (b k : Nat) :
    toksS (canonList pre b (k + 2)) = canonTok pre b :: tCOMMA :: toksS (canonList pre (b + 1) (k + 1)) := by
  simp [canonList, toksS, sym_comma, blank]

theorem canon_head (pre : String) (b k : Nat) : ∃ r, toksS (canonList pre b (k + 1)) = canonTok pre b :: r := by
  cases k with
  | zero => exact ⟨[], rfl⟩
  | succ j => exact ⟨_, toks_canon_more pre b j⟩

theorem cl_canon (pre : String) : ∀ (k b cnt n : Nat) (Y : List Tok), k + 1 ≤ n →
    collectLocals n (toksS (canonList pre b (k + 1)) ++ tSEMI :: Y) cnt = .ok (cnt + (k + 1), Y)
  | 0, b, cnt, n, Y, hn => by
    obtain ⟨m, rfl⟩ : ∃ m, n = m + 1 := ⟨n - 1, by omega⟩
    rw [toks_canon_one]; simp [collectLocals, canonTok, tSEMI_k]
  | k + 1, b, cnt, n, Y, hn => by
    obtain ⟨m, rfl⟩ : ∃ m, n = m + 1 := ⟨n - 1, by omega⟩
    rw [toks_canon_more]
    have ih := cl_canon pre k (b + 1) (cnt + 1) m Y (by omega)
    obtain ⟨r, er⟩ := canon_head pre (b + 1) k
    have hd : dropNl (toksS (canonList pre (b + 1) (k + 1)) ++ tSEMI :: Y) = toksS (canonList pre (b + 1) (k + 1)) ++ tSEMI :: Y := by
      rw [er]; exact dropNl_ne _ _ (by simp [canonTok])
    simp only [List.cons_append, collectLocals]
    simp only [canonTok, tCOMMA_k, hd, ih]
    simp; omega

theorem cp_canon (pre : String) : ∀ (k b cnt n : Nat) (Y : List Tok), k + 1 ≤ n →
    collectParams n (toksS (canonList pre b (k + 1)) ++ tRP :: Y) cnt = .ok (cnt + (k + 1), Y)
  | 0, b, cnt, n, Y, hn => by
    obtain ⟨m, rfl⟩ : ∃ m, n = m + 1 := ⟨n - 1, by omega⟩
    rw [toks_canon_one]; simp [collectParams, canonTok, tRP_k]
  | k + 1, b, cnt, n, Y, hn => by
    obtain ⟨m, rfl⟩ : ∃ m, n = m + 1 := ⟨n - 1, by omega⟩
    rw [toks_canon_more]
    have ih := cp_canon pre k (b + 1) (cnt + 1) m Y (by omega)
    obtain ⟨r, er⟩ := canon_head pre (b + 1) k
    have hd : dropNl (toksS (canonList pre (b + 1) (k + 1)) ++ tRP :: Y) = toksS (canonList pre (b + 1) (k + 1)) ++ tRP :: Y := by
      rw [er]; exact dropNl_ne _ _ (by simp [canonTok])
    simp only [List.cons_append, collectParams]
    simp only [canonTok, tCOMMA_k, hd, ih]
    simp; omega

theorem len_canon (pre : String) : ∀ (k b : Nat), k + 1 ≤ (toksS (canonList pre b (k + 1))).length
  | 0, b => by rw [toks_canon_one]; simp
  | k + 1, b => by rw [toks_canon_more]; have := len_canon pre k (b + 1); simp; omega

theorem blk_toks (outer d nl : Nat) (l : StmtL) : ∃ r0, toksS (printS outer d (.blk nl l)) = tLBR :: r0 :=
  ⟨_, by simp only [printS, toksS_append, toksS_tabs, toksS, sym_lbr, List.nil_append, List.cons_append]; rfl⟩

/-- a printed block, read back by parse_statement, whatever follows -/
theorem blk_rt (b : Stmt) (hb : isBlkP b) (hw : WFS b) (n : Nat) (hn : sz b ≤ n) (rest : List Tok) :
    ∃ r0 r', toksS (printS 0 0 b) = tLBR :: r0 ∧ parseStmt n 0 (tLBR :: (r0 ++ rest)) = .ok (normS b, r') ∧ dropNl r' = dropNl rest := by
  obtain ⟨nl, l, rfl⟩ := hb
  obtain ⟨r0, e0⟩ := blk_toks 0 0 nl l
  obtain ⟨r', h1, h2⟩ := rtS _ hw 0 0 n rest hn (by intro h; simp [openIf] at h)
  rw [e0] at h1
  exact ⟨r0, r', e0, h1, h2⟩

theorem stop_NL (b : Option TK) : opOK ladderPre (some .NEWLINE) b = true := by
  rw [opOK_indep _ _ _ none (by decide) (by decide)]; decide +kernel
theorem stop_LBR (b : Option TK) : opOK ladderPre (some .LBRACE) b = true := by
  rw [opOK_indep _ _ _ none (by decide) (by decide)]; decide +kernel

/-- one unit, printed and followed by anything, is read back as `normI` of it; what is left is `rest` up to leading newlines -/
def RTI (gb : Nat) (i : Item) : Prop := ∀ (n : Nat) (rest : List Tok), szI i ≤ n →
  ∃ r', parseItem n gb (toksS (printItem i) ++ rest) = .ok (normI i, r') ∧ dropNl r' = dropNl rest

local macro "ti_simp" : tactic => `(tactic| simp only [printItem, toksS_append, toksS, toksS_ex, kw, sym_semi, sym_lp, sym_rp, sym_comma,
  blank, List.nil_append, List.cons_append, List.append_assoc, normI])

theorem rti_glob (gb n : Nat) (hn : 0 < n) : RTI gb (.glob gb n) := by
  intro f rest _
  obtain ⟨k, rfl⟩ : ∃ k, n = k + 1 := ⟨n - 1, by omega⟩
  refine ⟨nlTok :: nlTok :: rest, ?_, by rw [dropNl_nl, dropNl_nl]⟩
  ti_simp
  have hl := len_canon "__g" k gb
  simp only [parseItem, kwTok_k]
  rw [cl_canon "__g" k gb 0 _ _ (by simp only [List.length_append, List.length_cons]; omega)]
  simp

theorem rti_begin (gb : Nat) (b : Stmt) (hb : isBlkP b) (hw : WFS b) : RTI gb (.begin_ b) := by
  intro n rest hn
  obtain ⟨r0, r', e0, h1, h2⟩ := blk_rt b hb hw n hn (nlTok :: rest)
  refine ⟨r', ?_, by rw [h2, dropNl_nl]⟩
  ti_simp
  rw [e0]
  simp only [List.cons_append, parseItem, kwTok_k, headIs, tLBR_k, beq_self_eq_true, Bool.not_true, Bool.false_eq_true, if_false, h1]

theorem rti_end (gb : Nat) (b : Stmt) (hb : isBlkP b) (hw : WFS b) : RTI gb (.end_ b) := by
  intro n rest hn
  obtain ⟨r0, r', e0, h1, h2⟩ := blk_rt b hb hw n hn rest
  refine ⟨r', ?_, h2⟩
  ti_simp
  rw [e0]
  simp only [List.cons_append, parseItem, kwTok_k, headIs, tLBR_k, beq_self_eq_true, Bool.not_true, Bool.false_eq_true, if_false, h1]

theorem rti_act (gb : Nat) (b : Stmt) (hb : isBlkP b) (hw : WFS b) : RTI gb (.act b) := by
  intro n rest hn
  obtain ⟨r0, r', e0, h1, h2⟩ := blk_rt b hb hw n hn (nlTok :: rest)
  refine ⟨r', ?_, by rw [h2, dropNl_nl]⟩
  ti_simp
  rw [e0]
  simp only [List.cons_append, parseItem, tLBR_k, h1]

theorem rti_func (gb : Nat) (nm : String) (np : Nat) (b : Stmt) (hb : isBlkP b) (hw : WFS b) : RTI gb (.func nm np b) := by
  intro n rest hn
  obtain ⟨r0, r', e0, h1, h2⟩ := blk_rt b hb hw n hn (nlTok :: rest)
  refine ⟨r', ?_, by rw [h2, dropNl_nl]⟩
  ti_simp
  rw [e0]
  cases np with
  | zero =>
    simp only [canonList, toksS, List.nil_append, List.cons_append, parseItem, kwTok_k, tLP_k, tRP_k, bne_self_eq_false, Bool.or_self,
      Bool.false_eq_true, if_false, beq_self_eq_true, if_true, dropNl_nl]
    rw [dropNl_ne _ _ (by rw [tLBR_k]; decide)]
    simp only [tLBR_k, bne_self_eq_false, Bool.false_eq_true, if_false, h1]
  | succ k =>
    obtain ⟨r, er⟩ := canon_head "__p" 0 k
    have hl := len_canon "__p" k 0
    have hc := cp_canon "__p" k 0 0 ((toksS (canonList "__p" 0 (k + 1)) ++ tRP :: nlTok :: tLBR :: (r0 ++ nlTok :: rest)).length + 1)
      (nlTok :: tLBR :: (r0 ++ nlTok :: rest)) (by simp only [List.length_append, List.length_cons]; omega)
    simp only [List.cons_append, parseItem, kwTok_k, tLP_k, bne_self_eq_false, Bool.or_self, Bool.false_eq_true, if_false]
    rw [er] at hc ⊢
    simp only [List.cons_append, canonTok, show (TK.IDENT == TK.RPAREN) = false by decide, Bool.false_eq_true, if_false] at hc ⊢
    rw [hc]
    simp only [dropNl_nl]
    rw [dropNl_ne _ _ (by rw [tLBR_k]; decide)]
    simp only [tLBR_k, bne_self_eq_false, Bool.false_eq_true, if_false, h1, Nat.zero_add]

/-- parse_progunit's last case: a first token that begins an expression -/
theorem pi_pat (n gb : Nat) (t : Tok) (r r1 r2 : List Tok) (p : Ast) (q : Option Ast) (h : t.k ∈ startKs)
    (he : pExpr (t :: r) = .ok (p, r1)) (hs : patSecond r1 = .ok (q, r2)) :
    parseItem n gb (t :: r) = patTail n p q r2 := by
  simp only [startKs, List.mem_cons, List.not_mem_nil, or_false] at h
  rcases h with h | h | h | h | h | h | h | h | h | h | h | h <;> simp only [parseItem, h, he, hs]

theorem rti_pat (gb : Nat) (p : Ast) (q : Option Ast) (a : Option Stmt) (hp : WFparse p) (hq : WFO q)
    (ha : WFact a) : RTI gb (.pat p q a) := by
  intro n rest hn
  -- the tokens after the pattern(s): a newline, or the action block
  have tail : ∃ (c : Tok) (Y r' : List Tok), (∀ b, opOK ladderPre (some c.k) b = true) ∧ c.k ≠ .COMMA ∧
      toksS (printAct a) ++ rest = c :: Y ∧
      patTail n (norm p) (normO q) (c :: Y) = .ok (normI (.pat p q a), r') ∧ dropNl r' = dropNl rest := by
    cases a with
    | none =>
      exact ⟨nlTok, nlTok :: rest, nlTok :: rest, by rw [nlTok_k]; exact stop_NL, by decide, by simp [printAct, toksS],
        by simp [patTail, nlTok, normI, normAct], dropNl_nl rest⟩
    | some b =>
      obtain ⟨r0, r', e0, h1, h2⟩ := blk_rt b ha.1 ha.2 n (by simpa [szI, szAct] using hn) (nlTok :: rest)
      refine ⟨tLBR, r0 ++ nlTok :: rest, r', by rw [tLBR_k]; exact stop_LBR, by decide, ?_, ?_, by rw [h2, dropNl_nl]⟩
      · simp only [printAct, blank, toksS, toksS_append, e0, List.cons_append, List.append_assoc, List.nil_append]
      · simp [patTail, tLBR_k, h1, normI, normAct]
  obtain ⟨c, Y, r', hc, hcc, eT, hfin, hdrop⟩ := tail
  refine ⟨r', ?_, hdrop⟩
  simp only [printItem, toksS_append, toksS_ex, List.append_assoc]
  rw [eT]
  obtain ⟨t0, r0, e0, hk⟩ := print_head p hp
  have hcf : (c.k == TK.COMMA) = false := by simpa using hcc
  cases q with
  | none =>
    simp only [printSecond, toksS, List.nil_append]
    have he := pExpr_stop p hp c Y hc
    rw [e0] at he ⊢
    simp only [List.cons_append] at he ⊢
    rw [pi_pat n gb t0 _ _ (c :: Y) (norm p) none hk he (by simp [patSecond, headIs, hcf])]
    exact hfin
  | some q' =>
    simp only [printSecond, toksS, toksS_ex, sym_comma, List.cons_append, List.append_assoc]
    have he := pExpr_stop p hp tCOMMA (print q' ++ c :: Y) (by rw [tCOMMA_k]; exact stop_COMMA')
    have he2 := pExpr_stop q' hq c Y hc
    rw [e0] at he ⊢
    simp only [List.cons_append] at he ⊢
    rw [pi_pat n gb t0 _ _ (c :: Y) (norm p) (some (norm q')) hk he (by simp [patSecond, headIs, tCOMMA_k, he2])]
    exact hfin

theorem rtI (gb : Nat) (i : Item) (h : WFI gb i) : RTI gb i := by
  cases i with
  | glob b n => simp only [WFI] at h; obtain ⟨rfl, hn⟩ := h; exact rti_glob b n hn
  | func nm np b => exact rti_func gb nm np b h.1 h.2
  | begin_ b => exact rti_begin gb b h.1 h.2
  | end_ b => exact rti_end gb b h.1 h.2
  | act b => exact rti_act gb b h.1 h.2
  | pat p q a => exact rti_pat gb p q a h.1 h.2.1 h.2.2

/-! ### the whole program -/

theorem pp_dropNl (n gb : Nat) (ts : List Tok) : parseProg n gb ts = parseProg n gb (dropNl ts) := by
  cases n with
  | zero => simp [parseProg]
  | succ m => rw [parseProg, parseProg, dropNl_idem]

theorem item_head (gb : Nat) (i : Item) (h : WFI gb i) : ∃ t r, toksS (printItem i) = t :: r ∧ t.k ≠ .NEWLINE := by
  cases i with
  | glob b n => exact ⟨kwTok .XGLOBAL, _, by ti_simp; rfl, by decide⟩
  | func nm np b => exact ⟨kwTok .FUNCTION, _, by ti_simp; rfl, by decide⟩
  | begin_ b => exact ⟨kwTok .BEGIN, _, by ti_simp; rfl, by decide⟩
  | end_ b => exact ⟨kwTok .END, _, by ti_simp; rfl, by decide⟩
  | act b =>
    obtain ⟨nl, l, rfl⟩ := h.1
    obtain ⟨r0, e0⟩ := blk_toks 0 0 nl l
    exact ⟨tLBR, r0 ++ [nlTok], by ti_simp; rw [e0]; rfl, by decide⟩
  | pat p q a =>
    obtain ⟨t0, r0, e0, hk⟩ := print_head p h.1
    exact ⟨t0, _, by simp only [printItem, toksS_append, toksS_ex, e0, List.cons_append, List.append_assoc]; rfl, start_not_newline _ hk⟩

theorem rtP (gb : Nat) : ∀ (l : List Item), (∀ i ∈ l, WFI gb i) → ∀ (n : Nat), szP l ≤ n →
    parseProg n gb (toksS (printProg l)) = .ok (l.map normI)
  | [], _, n, hn => by
    obtain ⟨m, rfl⟩ : ∃ m, n = m + 1 := ⟨n - 1, by simp [szP] at hn; omega⟩
    simp [printProg, toksS, parseProg, dropNl]
  | i :: r, hw, n, hn => by
    obtain ⟨m, rfl⟩ : ∃ m, n = m + 1 := ⟨n - 1, by simp [szP] at hn; omega⟩
    have hi := hw i (by simp)
    obtain ⟨r', h1, h2⟩ := rtI gb i hi m (toksS (printProg r)) (by simp [szP] at hn; omega)
    have ih := rtP gb r (fun j hj => hw j (by simp [hj])) m (by simp [szP] at hn; omega)
    obtain ⟨t0, r0, e0, hk⟩ := item_head gb i hi
    simp only [printProg, toksS_append]
    rw [e0] at h1 ⊢
    simp only [List.cons_append] at h1 ⊢
    rw [parseProg, dropNl_ne _ _ hk]
    simp only [h1]
    rw [pp_dropNl, h2, ← pp_dropNl, ih]
    simp

end Hawk.Deparse
