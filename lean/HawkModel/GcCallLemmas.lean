import HawkModel.GcCall
import HawkModel.GcGen
/-!
# C07 — lemmas about calls (`Hawk.Gc.call`, lean/HawkModel/GcCall.lean)

* every history with calls is a history of core operations (`xrun_is_run`), so every theorem about `run ops`
  holds for programs that call functions;
* the holders after a call are the holders before it plus the one reference to the return value the host owns
  (`call_roots`): the frame — arguments, locals, return-value slot — leaves nothing behind, however the body ends.
-/
namespace Hawk.Gc

theorem run_snoc (ops : List Op) (op : Op) : run (ops ++ [op]) = step (run ops) op := by simp [run]

theorem run_append (ops ops' : List Op) : run (ops ++ ops') = ops'.foldl step (run ops) := by simp [run]

/-- `hawk_rtx_gc (rtx, n)` for an explicit generation `n ∈ {0,1,2}` collects exactly that generation -/
theorem gc_explicit (s : St) (n : Nat) (hn : n ≤ 2) : (gc s (n : Int)).1 = collectGen s n ∧ (gc s (n : Int)).2 = n := by
  have : n = 0 ∨ n = 1 ∨ n = 2 := by omega
  rcases this with rfl | rfl | rfl <;> simp [gc]

theorem xfold_is_run (xs : List XOp) (ops : List Op) : ∃ ops', xs.foldl xstep (run ops) = run ops' := by
  induction xs generalizing ops with
  | nil => exact ⟨ops, rfl⟩
  | cons x xs ih =>
    simp only [List.foldl_cons]
    have : xstep (run ops) x = run (ops ++ xexpand (run ops) x) := by
      unfold xstep; rw [run_append]
    rw [this]
    exact ih _

/-- a history with calls reaches a state that a history of core operations reaches -/
theorem xrun_is_run (xs : List XOp) : ∃ ops, xrun xs = run ops := by
  have := xfold_is_run xs []
  simpa [xrun, run] using this

theorem call_eq_xstep (s : St) (f : Fn) (a b : Id) (s' : St) (h : call s f a b = some s') :
    s' = xstep s (.call f a b) := by
  unfold call at h
  unfold xstep xexpand
  split at h
  · rename_i hl; cases h; simp [hl]
  · cases h

/-! ### holders, liveness and heap length through the single steps of a call -/

theorem refup_get (h : Heap) (o i : Id) : ((refup h o).get i).isSome = (h.get i).isSome := by
  unfold refup
  cases ho : h.get o with
  | none => rfl
  | some ob =>
    simp only
    have hlt := Heap.get_lt ho
    rw [Heap.get_set _ _ _ _ hlt]
    by_cases e : o = i
    · subst e; simp [ho]
    · simp [e]

theorem refup_length (h : Heap) (o : Id) : (refup h o).length = h.length := by
  unfold refup; split <;> simp

theorem step_addRoot_roots (s : St) (o : Id) (h : s.live o = true) : (step s (.addRoot o)).roots = o :: s.roots := by
  unfold St.live at h
  obtain ⟨ob, hob⟩ := Option.isSome_iff_exists.mp h
  simp [step, addRoot, hob]

theorem step_addRoot_live (s : St) (o i : Id) : (step s (.addRoot o)).live i = s.live i := by
  unfold St.live
  simp only [step, addRoot]
  split
  · simp only [Option.getD_some]; exact refup_get _ _ _
  · rfl

theorem step_addRoot_length (s : St) (o : Id) : (step s (.addRoot o)).heap.length = s.heap.length := by
  simp only [step, addRoot]
  split
  · simp only [Option.getD_some]; exact refup_length _ _
  · rfl

theorem refdown_roots (s : St) (o : Id) : (refdown s o).roots = s.roots := by
  unfold refdown
  split
  · rfl
  · split
    · rfl
    · split
      · rw [cascade_roots]
      · rfl

theorem step_dropRoot_roots (s : St) (o : Id) : (step s (.dropRoot o)).roots = s.roots.erase o := by
  simp only [step, dropRoot]
  by_cases hm : o ∈ s.roots
  · simp only [hm, if_true, Option.getD_some]; rw [refdown_roots]
  · simp only [hm, if_false, Option.getD_none]; exact (List.erase_of_not_mem hm).symm

theorem step_link_roots (s : St) (p c : Id) : (step s (.link p c)).roots = s.roots := by
  simp only [step, link]
  split <;> rfl

theorem step_link_live (s : St) (p c i : Id) : (step s (.link p c)).live i = s.live i := by
  unfold St.live
  simp only [step, link]
  split
  · rename_i op oc hp hc
    simp only [Option.getD_some]
    rw [refup_get]
    have hlt := Heap.get_lt hp
    rw [Heap.get_set _ _ _ _ hlt]
    by_cases e : p = i
    · subst e; simp [hp]
    · simp [e]
  · rfl

theorem step_link_length (s : St) (p c : Id) : (step s (.link p c)).heap.length = s.heap.length := by
  simp only [step, link]
  split
  · simp only [Option.getD_some]; rw [refup_length]; simp
  · rfl

theorem finalizePreserve_roots (s : St) (u : Id) : (finalizePreserve s u).roots = s.roots := by
  unfold finalizePreserve
  split
  · rw [cascade_roots]
  · rfl

theorem finalizeFold_roots (U : List Id) (s : St) : (U.foldl finalizePreserve s).roots = s.roots := by
  induction U generalizing s with
  | nil => rfl
  | cons u r ih => simp only [List.foldl_cons]; rw [ih, finalizePreserve_roots]

theorem collectGen_roots (s : St) (g : Nat) : (collectGen s g).roots = s.roots := by
  unfold collectGen freeUnreachables
  simp only [bumpPressure_roots]
  rw [finalizeFold_roots]

/-- a collection frees containers but the table of identities only grows -/
theorem collectGen_length (s : St) (g : Nat) (hg : g ≤ 2) (hinv : Inv s) : (collectGen s g).heap.length = s.heap.length := by
  obtain ⟨c6, _, len6⟩ := heap6_spec s g hg hinv
  obtain ⟨_, _, _, len7, _, _⟩ :=
    finalize_fold ((heap6 s g).idsWhere fun o => o.gen == g) { s with heap := heap6 s g } c6
  rw [collectGen_eq s g hinv.legacy, bumpPressure_heap]
  simp only
  unfold promote
  rw [Heap.length_upd]
  unfold dropShells
  rw [List.length_map]
  show (state7 s g).heap.length = _
  unfold state7
  rw [len7]
  exact len6

theorem collectAuto_roots_length (s : St) (hinv : Inv s) :
    (collectAuto s).1.roots = s.roots ∧ (collectAuto s).1.heap.length = s.heap.length := by
  unfold collectAuto
  split
  · exact ⟨collectGen_roots s 2, collectGen_length s 2 (by omega) hinv⟩
  · split
    · exact ⟨collectGen_roots s 1, collectGen_length s 1 (by omega) hinv⟩
    · exact ⟨collectGen_roots s 0, collectGen_length s 0 (by omega) hinv⟩

theorem alloc_shape (s : St) : ∃ s1 : St, (s1 = (collectAuto s).1 ∨ s1 = s) ∧
    step s .alloc = { s1 with heap := s1.heap ++ [some { refs := 1, gcRefs := 0, gen := 0, children := [] }],
                              roots := s1.heap.length :: s1.roots, p0 := s1.p0 + 1 } := by
  by_cases hp : s.p0 ≥ s.t0
  · exact ⟨(collectAuto s).1, Or.inl rfl, by simp only [step, alloc, hp, if_true]⟩
  · exact ⟨s, Or.inr rfl, by simp only [step, alloc, hp, if_false]⟩

theorem step_alloc_spec (s : St) (hinv : Inv s) :
    (step s .alloc).roots = s.heap.length :: s.roots ∧ (step s .alloc).live s.heap.length = true ∧
    (step s .alloc).heap.length = s.heap.length + 1 := by
  obtain ⟨hr, hl⟩ := collectAuto_roots_length s hinv
  obtain ⟨s1, hs1, e⟩ := alloc_shape s
  have hr1 : s1.roots = s.roots := by rcases hs1 with h | h <;> rw [h]; exact hr
  have hl1 : s1.heap.length = s.heap.length := by rcases hs1 with h | h <;> rw [h]; exact hl
  rw [e]
  unfold St.live
  simp only
  refine ⟨by rw [hr1, hl1], ?_, by rw [List.length_append, hl1]; rfl⟩
  rw [← hl1, Heap.get_append_self]
  exact Option.isSome_some

/-! ### the frame leaves nothing behind -/

theorem erase_pair (a b : Id) (r : List Id) : ((b :: a :: r).erase a).erase b = r := by
  by_cases e : b = a
  · subst e; simp
  · have e' : ¬ (b == a) = true := by simpa using e
    simp [List.erase_cons, e']

/-- the state after the two arguments have been pushed -/
theorem frame_pushed (s : St) (hinv : Inv s) (a b : Id) (ha : s.live a = true) (hb : s.live b = true) :
    (step (step s (.addRoot a)) (.addRoot b)).live a = true ∧
    (step (step s (.addRoot a)) (.addRoot b)).roots = b :: a :: s.roots ∧
    (step (step s (.addRoot a)) (.addRoot b)).heap.length = s.heap.length ∧
    Inv (step (step s (.addRoot a)) (.addRoot b)) := by
  have hb1 : (step s (.addRoot a)).live b = true := by rw [step_addRoot_live]; exact hb
  refine ⟨?_, ?_, ?_, inv_step _ _ (inv_step _ _ hinv)⟩
  · rw [step_addRoot_live, step_addRoot_live]; exact ha
  · rw [step_addRoot_roots _ _ hb1, step_addRoot_roots _ _ ha]
  · rw [step_addRoot_length, step_addRoot_length]

theorem live_lt {s : St} {a : Id} (ha : s.live a = true) : a < s.heap.length := by
  unfold St.live at ha
  obtain ⟨oa, hoa⟩ := Option.isSome_iff_exists.mp ha
  exact Heap.get_lt hoa

theorem call_roots_keep (s : St) (hinv : Inv s) (a b : Id) (ha : s.live a = true) (hb : s.live b = true) :
    ((callOps s .keep a b).foldl step s).roots = a :: s.roots := by
  obtain ⟨ha2, hr2, _, _⟩ := frame_pushed s hinv a b ha hb
  simp only [callOps, bodyOps, List.cons_append, List.nil_append, List.foldl_cons, List.foldl_nil]
  rw [step_dropRoot_roots, step_dropRoot_roots, step_addRoot_roots _ _ ha2, hr2, List.erase_cons_head, List.erase_cons_head]

theorem call_roots_drop2 (s : St) (hinv : Inv s) (a b : Id) (ha : s.live a = true) (hb : s.live b = true) :
    ((callOps s .drop2 a b).foldl step s).roots = s.roots := by
  obtain ⟨_, hr2, _, _⟩ := frame_pushed s hinv a b ha hb
  simp only [callOps, bodyOps, List.cons_append, List.nil_append, List.append_nil, List.foldl_cons, List.foldl_nil]
  rw [step_dropRoot_roots, step_dropRoot_roots, hr2, erase_pair]

theorem call_roots_store (s : St) (hinv : Inv s) (a b : Id) (ha : s.live a = true) (hb : s.live b = true) :
    ((callOps s .store a b).foldl step s).roots = s.roots := by
  obtain ⟨_, hr2, _, _⟩ := frame_pushed s hinv a b ha hb
  simp only [callOps, bodyOps, List.cons_append, List.nil_append, List.foldl_cons, List.foldl_nil]
  rw [step_dropRoot_roots, step_dropRoot_roots, step_link_roots, hr2, erase_pair]

theorem call_roots_wrap (s : St) (hinv : Inv s) (a b : Id) (ha : s.live a = true) (hb : s.live b = true) :
    ((callOps s .wrap a b).foldl step s).roots = s.heap.length :: s.roots := by
  obtain ⟨_, hr2, hlen2, hinv2⟩ := frame_pushed s hinv a b ha hb
  obtain ⟨hr3, hl3, _⟩ := step_alloc_spec _ hinv2
  rw [hlen2] at hr3 hl3
  simp only [callOps, bodyOps, List.cons_append, List.nil_append, List.foldl_cons, List.foldl_nil]
  have hl5 : (step (step (step (step (step s (.addRoot a)) (.addRoot b)) .alloc) (.link s.heap.length a))
      (.link s.heap.length b)).live s.heap.length = true := by
    rw [step_link_live, step_link_live]; exact hl3
  rw [step_dropRoot_roots, step_dropRoot_roots, step_dropRoot_roots, step_addRoot_roots _ _ hl5,
    step_link_roots, step_link_roots, hr3, hr2]
  have hna : ¬ (s.heap.length == a) = true := by
    intro h
    have h1 := live_lt ha
    have h2 : s.heap.length = a := by simpa using h
    exact (Nat.ne_of_gt h1) h2
  have hnb : ¬ (s.heap.length == b) = true := by
    intro h
    have h1 := live_lt hb
    have h2 : s.heap.length = b := by simpa using h
    exact (Nat.ne_of_gt h1) h2
  rw [List.erase_cons_head, List.erase_cons, if_neg hna, List.erase_cons, if_neg hnb, erase_pair]

theorem call_roots_cyc (s : St) (hinv : Inv s) (a b : Id) (ha : s.live a = true) (hb : s.live b = true) :
    ((callOps s .cyc a b).foldl step s).roots = s.roots := by
  obtain ⟨_, hr2, hlen2, hinv2⟩ := frame_pushed s hinv a b ha hb
  obtain ⟨hr3, _, _⟩ := step_alloc_spec _ hinv2
  rw [hlen2] at hr3
  simp only [callOps, bodyOps, List.cons_append, List.nil_append, List.foldl_cons, List.foldl_nil]
  rw [step_dropRoot_roots, step_dropRoot_roots, step_dropRoot_roots, step_link_roots, step_link_roots, hr3, hr2,
    List.erase_cons_head, erase_pair]

/-- **a call is balanced**: when `hawk_rtx_callfun` returns — the body having ended by `return`, by `exit` or by a
run-time error — the external holders are the ones from before the call, plus one reference to the return value
when it is a container (`keep`: the argument `a`; `wrap`: the new container): arguments, locals and the
return-value slot have all let go.  With `Inv` (kept by every step) the counts are again exactly holders +
referring elements. -/
theorem call_roots (s : St) (hinv : Inv s) (f : Fn) (a b : Id) (s' : St) (h : call s f a b = some s') :
    Inv s' ∧ s'.roots = retHolder f a s.heap.length ++ s.roots := by
  unfold call at h
  by_cases hl : s.live a = true ∧ s.live b = true
  · rw [if_pos hl] at h
    have h' := Option.some.inj h
    rw [← h']
    refine ⟨inv_foldl _ s hinv, ?_⟩
    cases f with
    | keep => exact call_roots_keep s hinv a b hl.1 hl.2
    | drop2 => exact call_roots_drop2 s hinv a b hl.1 hl.2
    | store => exact call_roots_store s hinv a b hl.1 hl.2
    | wrap => exact call_roots_wrap s hinv a b hl.1 hl.2
    | cyc => exact call_roots_cyc s hinv a b hl.1 hl.2
  · rw [if_neg hl] at h
    exact absurd h (by simp)

end Hawk.Gc
