import HawkModel.Utf8
/-!
# Lemmas for C15 (codec for the checked build's table; conversion loops; tio staging)

`T` is the generated table.  The bit operations of the model are bridged to arithmetic once
(`and63`, `or128`, …, and finite facts by `decide`), after which the per-row range lemmas are `omega`.
-/
open Hawk.Gen Hawk.Utf8
namespace Hawk.Utf8

abbrev T := utf8Table

/-- arithmetic reading of the encoder for the checked build's table and 16-bit characters -/
def encSpec (c : Nat) : List UInt8 :=
  if c < 0x80 then [UInt8.ofNat c]
  else if c < 0x800 then [UInt8.ofNat (0xC0 + c / 64), UInt8.ofNat (0x80 + c % 64)]
  else [UInt8.ofNat (0xE0 + c / 4096), UInt8.ofNat (0x80 + c / 64 % 64), UInt8.ofNat (0x80 + c % 64)]

theorem and63 (c : Nat) : c &&& 0x3F = c % 64 := by
  have := Nat.and_two_pow_sub_one_eq_mod c 6
  simpa using this

theorem or128 (c : Nat) (h : c < 64) : c ||| 0x80 = 0x80 + c := by
  have := Nat.two_pow_add_eq_or_of_lt (i := 7) (b := c) (by omega) 1
  simp at this
  rw [Nat.or_comm]; omega

theorem or192 (c : Nat) (h : c < 32) : c ||| 0xC0 = 0xC0 + c := by
  have := Nat.two_pow_add_eq_or_of_lt (i := 6) (b := c) (by omega) 3
  simp at this
  rw [Nat.or_comm]; omega

theorem or224 (c : Nat) (h : c < 16) : c ||| 0xE0 = 0xE0 + c := by
  have := Nat.two_pow_add_eq_or_of_lt (i := 5) (b := c) (by omega) 7
  simp at this
  rw [Nat.or_comm]; omega

theorem shr6 (c : Nat) : c >>> 6 = c / 64 := by
  simp [Nat.shiftRight_eq_div_pow]

theorem getSlot_1 (c : Nat) (h : c < 0x80) : getSlot T c = some ⟨0x0, 0x7F, 0x00, 0x80, 0x7F, 1⟩ := by
  simp only [getSlot, T, utf8Table]; rw [if_pos (by omega)]
theorem getSlot_2 (c : Nat) (h1 : ¬ c < 0x80) (h2 : c < 0x800) : getSlot T c = some ⟨0x80, 0x7FF, 0xC0, 0xE0, 0x1F, 2⟩ := by
  simp only [getSlot, T, utf8Table]; rw [if_neg (by omega), if_pos (by omega)]
theorem getSlot_3 (c : Nat) (h1 : ¬ c < 0x800) (h2 : c < 0x10000) : getSlot T c = some ⟨0x800, 0xFFFF, 0xE0, 0xF0, 0x0F, 3⟩ := by
  simp only [getSlot, T, utf8Table]; rw [if_neg (by omega), if_neg (by omega), if_pos (by omega)]

theorem encode_eq_spec (c : Nat) (h : c < 65536) : encode T c = encSpec c := by
  unfold encode ucToUtf8 encSpec
  by_cases h1 : c < 0x80
  · simp [getSlot_1 c h1, bcsizeMax, encTail, h1]
  · by_cases h2 : c < 0x800
    · simp only [getSlot_2 c h1 h2, bcsizeMax, encTail, h1, h2]
      rw [and63, shr6, or128 _ (by omega), or192 _ (by omega)]
      simp
    · simp only [getSlot_3 c h2 h, bcsizeMax, encTail, h1, h2]
      rw [and63, shr6, shr6, and63, or128 _ (by omega), or128 _ (by omega), or224 _ (by omega), Nat.div_div_eq_div_mul]
      simp


theorem lead1_facts : ∀ c, c < 128 → (c % 256 &&& 0x80 = 0) ∧ (c % 256 &&& 0x7F = c) := by decide
theorem lead2_facts : ∀ a, a < 32 → ((0xC0 + a) % 256 &&& 0x80 ≠ 0) ∧ ((0xC0 + a) % 256 &&& 0xE0 = 0xC0) ∧ ((0xC0 + a) % 256 &&& 0x1F = a) := by decide
theorem lead3_facts : ∀ a, a < 16 →
    ((0xE0 + a) % 256 &&& 0x80 ≠ 0x00) ∧ ((0xE0 + a) % 256 &&& 0xE0 ≠ 0xC0) ∧ ((0xE0 + a) % 256 &&& 0xF0 = 0xE0) ∧ ((0xE0 + a) % 256 &&& 0x0F = a) := by
  decide
theorem cont_facts : ∀ m, m < 64 → ((0x80 + m) % 256 &&& 0xC0 = 0x80) ∧ ((0x80 + m) % 256 &&& 0x3F = m) := by decide

theorem shl6_or (a m : Nat) (h : m < 64) : a <<< 6 ||| m = a * 64 + m := by
  rw [← Nat.shiftLeft_add_eq_or_of_lt (i := 6) (by omega) a, Nat.shiftLeft_eq]

theorem decode_spec_append (c : Nat) (h : c < 65536) (t : List UInt8) :
    utf8ToUc T (encSpec c ++ t) = .ok ((encSpec c).length, c) := by
  unfold encSpec
  by_cases h1 : c < 0x80
  · have f := lead1_facts c h1
    simp [h1, utf8ToUc, T, utf8Table, utf8ToUcRows, rd, decCont, f.1, f.2, uchMod, uchBits]
    omega
  · by_cases h2 : c < 0x800
    · have f := lead2_facts (c / 64) (by omega)
      have g := cont_facts (c % 64) (by omega)
      simp [h1, h2, utf8ToUc, T, utf8Table, utf8ToUcRows, rd, decCont, f.1, f.2.1, f.2.2, g.1, g.2, uchMod, uchBits]
      rw [shl6_or _ (c % 64) (by omega)]
      omega
    · have f := lead3_facts (c / 4096) (by omega)
      have g1 := cont_facts (c / 64 % 64) (by omega)
      have g2 := cont_facts (c % 64) (by omega)
      simp [h1, h2, utf8ToUc, T, utf8Table, utf8ToUcRows, rd, decCont, f.1, f.2.1, f.2.2.1, f.2.2.2, g1.1, g1.2, g2.1, g2.2, uchMod, uchBits]
      rw [shl6_or _ (c / 64 % 64) (by omega), shl6_or _ (c % 64) (by omega)]
      omega


/-! ### reads stay in bounds, for every table -/

theorem rd_ok {s : List UInt8} {i : Nat} (h : i < s.length) : rd s i = .ok s[i].toNat := by
  simp [rd, List.getElem?_eq_getElem h]

theorem decCont_ok (s : List UInt8) : ∀ (k i w : Nat), i + k ≤ s.length → ∃ r, decCont s k i w = .ok r := by
  intro k
  induction k with
  | zero => intro i w _; exact ⟨some w, rfl⟩
  | succ k ih =>
    intro i w h
    rw [decCont, rd_ok (by omega : i < s.length)]
    simp only
    split
    · exact ⟨none, rfl⟩
    · exact ih _ _ (by omega)

theorem utf8ToUcRows_ok (s : List UInt8) (hs : s ≠ []) : ∀ rows, ∃ r, utf8ToUcRows s rows = .ok r := by
  have hl : 0 < s.length := List.length_pos_iff.mpr hs
  intro rows
  induction rows with
  | nil => exact ⟨(0, 0), rfl⟩
  | cons cur rest ih =>
    rw [utf8ToUcRows, rd_ok hl]
    simp only
    split
    · split
      · rename_i hge
        obtain ⟨r, hr⟩ := decCont_ok s (cur.length - 1) 1 ((s[0].toNat &&& cur.fmask) % uchMod) (by omega)
        rw [hr]
        cases r <;> simp
      · exact ⟨_, rfl⟩
    · exact ih

theorem utf8ToUc_ok (tbl : List Utf8Row) (s : List UInt8) (hs : s ≠ []) : ∃ r, utf8ToUc tbl s = .ok r :=
  utf8ToUcRows_ok s hs tbl


theorem encSpec_len (c : Nat) : 1 ≤ (encSpec c).length ∧ (encSpec c).length ≤ 3 := by
  unfold encSpec
  split
  · simp
  · split <;> simp

theorem decode_spec_take (c : Nat) (h : c < 65536) (k : Nat) (hk0 : 0 < k) (hk : k < (encSpec c).length) :
    utf8ToUc T ((encSpec c).take k) = .ok ((encSpec c).length, 0) := by
  unfold encSpec at hk ⊢
  by_cases h1 : c < 0x80
  · simp [h1] at hk; omega
  · by_cases h2 : c < 0x800
    · have f := lead2_facts (c / 64) (by omega)
      simp [h1, h2] at hk
      have : k = 1 := by omega
      subst this
      simp [h1, h2, utf8ToUc, T, utf8Table, utf8ToUcRows, rd, f.1, f.2.1]
    · have f := lead3_facts (c / 4096) (by omega)
      simp [h1, h2] at hk
      rcases (by omega : k = 1 ∨ k = 2) with rfl | rfl <;>
        simp [h1, h2, utf8ToUc, T, utf8Table, utf8ToUcRows, rd, f.1, f.2.1, f.2.2.1]

theorem enc_len (c : Nat) (h : c < 65536) : 1 ≤ (encode T c).length ∧ (encode T c).length ≤ 3 := by
  rw [encode_eq_spec c h]; exact encSpec_len c

theorem enc_ne_nil (c : Nat) (h : c < 65536) : encode T c ≠ [] := by
  have := (enc_len c h).1
  intro h0; rw [h0] at this; simp at this

theorem dec_enc_append (c : Nat) (h : c < 65536) (t : List UInt8) :
    utf8ToUc T (encode T c ++ t) = .ok ((encode T c).length, c) := by
  rw [encode_eq_spec c h]; exact decode_spec_append c h t

theorem dec_prefix (c : Nat) (h : c < 65536) (p q : List UInt8) (hpq : p ++ q = encode T c) (hp : p ≠ []) (hq : q ≠ []) :
    utf8ToUc T p = .ok ((encode T c).length, 0) := by
  have hlen : p.length + q.length = (encode T c).length := by rw [← hpq]; simp
  have hp' : p = (encode T c).take p.length := by rw [← hpq]; simp
  have : 0 < p.length := List.length_pos_iff.mpr hp
  have : 0 < q.length := List.length_pos_iff.mpr hq
  rw [hp', encode_eq_spec c h]
  apply decode_spec_take c h
  · simpa using (List.length_pos_iff.mpr hp)
  · rw [← encode_eq_spec c h]; omega

/-! ### the encoder into a sized buffer -/

theorem encTail_len : ∀ (k uc : Nat) (acc : List UInt8), (encTail k uc acc).2.length = k + acc.length := by
  intro k
  induction k with
  | zero => intro uc acc; simp [encTail]
  | succ k ih => intro uc acc; rw [encTail, ih]; simp; omega

/-- `hawk_uc_to_utf8` into a buffer of `size` bytes, for a BMP character -/
theorem ucToUtf8_size (c : Nat) (h : c < 65536) (size : Nat) :
    ucToUtf8 T c size =
      if (encode T c).length ≤ size then ⟨(encode T c).length, some (encode T c)⟩ else ⟨(encode T c).length, none⟩ := by
  have key : ∀ r, getSlot T c = some r → r.length ≤ bcsizeMax → 1 ≤ r.length →
      ucToUtf8 T c size = if (encode T c).length ≤ size then ⟨(encode T c).length, some (encode T c)⟩ else ⟨(encode T c).length, none⟩ := by
    intro r hr hl hl1
    have he : encode T c = UInt8.ofNat ((encTail (r.length - 1) c []).1 ||| r.fbyte) :: (encTail (r.length - 1) c []).2 := by
      simp [encode, ucToUtf8, hr, hl]
    have hlen : (encode T c).length = r.length := by
      rw [he]
      simp [encTail_len]
      omega
    unfold ucToUtf8
    rw [hr, hlen]
    simp only
    split
    · rw [he]
    · rfl
  by_cases h1 : c < 0x80
  · exact key _ (getSlot_1 c h1) (by decide) (by decide)
  · by_cases h2 : c < 0x800
    · exact key _ (getSlot_2 c h1 h2) (by decide) (by decide)
    · exact key _ (getSlot_3 c h2 h) (by decide) (by decide)


/-! ### the decoder on arbitrary bytes, by class of the lead byte; shortest forms re-encode to themselves -/
set_option maxRecDepth 8192 in
theorem byte_lead_facts : ∀ b, b < 256 →
    ((b &&& 0x80 = 0x00) ↔ b < 0x80) ∧ ((b &&& 0xE0 = 0xC0) ↔ (0xC0 ≤ b ∧ b < 0xE0)) ∧
    ((b &&& 0xF0 = 0xE0) ↔ (0xE0 ≤ b ∧ b < 0xF0)) ∧ ((b &&& 0xF8 = 0xF0) ↔ (0xF0 ≤ b ∧ b < 0xF8)) := by decide

set_option maxRecDepth 8192 in
theorem byte_val_facts : ∀ b, b < 256 →
    (b < 0x80 → b &&& 0x7F = b) ∧ (0xC0 ≤ b → b < 0xE0 → b &&& 0x1F = b - 0xC0) ∧
    (0xE0 ≤ b → b < 0xF0 → b &&& 0x0F = b - 0xE0) ∧
    ((b &&& 0xC0 = 0x80) ↔ (0x80 ≤ b ∧ b < 0xC0)) ∧ (0x80 ≤ b → b < 0xC0 → b &&& 0x3F = b - 0x80) := by decide

theorem utf8ToUc_w_lt (tbl : List Utf8Row) (s : List UInt8) (n w : Nat) (h : utf8ToUc tbl s = .ok (n, w)) : w < uchMod := by
  have hpos : 0 < uchMod := by unfold uchMod; exact Nat.two_pow_pos _
  have hcont : ∀ (k i w0 : Nat) (r : Nat), w0 < uchMod → decCont s k i w0 = .ok (some r) → r < uchMod := by
    intro k
    induction k with
    | zero => intro i w0 r hw h; simp [decCont] at h; omega
    | succ k ih =>
      intro i w0 r hw h
      rw [decCont] at h
      split at h
      · simp at h
      · split at h
        · simp at h
        · exact ih _ _ r (Nat.mod_lt _ hpos) h
  unfold utf8ToUc at h
  induction tbl with
  | nil => simp [utf8ToUcRows] at h; omega
  | cons cur rest ih =>
    rw [utf8ToUcRows] at h
    split at h
    · simp at h
    · split at h
      · split at h
        · split at h
          · simp at h
          · simp at h; omega
          · rename_i w' hd
            simp at h
            rw [← h.2]
            exact hcont _ _ _ _ (Nat.mod_lt _ hpos) hd
        · simp at h; omega
      · exact ih h

theorem decCont1 (b0 b1 : UInt8) (t : List UInt8) (w0 : Nat) :
    decCont (b0 :: b1 :: t) 1 1 w0 =
      if b1.toNat &&& 0xC0 ≠ 0x80 then .ok none else .ok (some ((w0 <<< 6 ||| (b1.toNat &&& 0x3F)) % uchMod)) := by
  simp [decCont, rd]

theorem decCont2 (b0 b1 b2 : UInt8) (t : List UInt8) (w0 : Nat) :
    decCont (b0 :: b1 :: b2 :: t) 2 1 w0 =
      if b1.toNat &&& 0xC0 ≠ 0x80 then .ok none
      else if b2.toNat &&& 0xC0 ≠ 0x80 then .ok none
      else .ok (some (((((w0 <<< 6 ||| (b1.toNat &&& 0x3F)) % uchMod) <<< 6) ||| (b2.toNat &&& 0x3F)) % uchMod)) := by
  simp [decCont, rd]

theorem uchMod_eq : uchMod = 65536 := by simp [uchMod, uchBits]

/-- continuation byte -/
def isCont (b : Nat) : Prop := 0x80 ≤ b ∧ b < 0xC0
instance (b : Nat) : Decidable (isCont b) := by unfold isCont; infer_instance

theorem utf8ToUc_unfold (b0 : UInt8) (rest : List UInt8) :
    utf8ToUc T (b0 :: rest) =
  (if b0.toNat &&& 128 = 0 then
      if (b0 :: rest).length ≥ 1 then
        match decCont (b0 :: rest) (1 - 1) 1 ((b0.toNat &&& 127) % uchMod) with
        | Except.error f => Except.error f
        | Except.ok none => Except.ok (0, 0)
        | Except.ok (some w) => Except.ok (1, w)
      else Except.ok (1, 0)
    else
      if b0.toNat &&& 224 = 192 then
        if (b0 :: rest).length ≥ 2 then
          match decCont (b0 :: rest) (2 - 1) 1 ((b0.toNat &&& 31) % uchMod) with
          | Except.error f => Except.error f
          | Except.ok none => Except.ok (0, 0)
          | Except.ok (some w) => Except.ok (2, w)
        else Except.ok (2, 0)
      else
        if b0.toNat &&& 240 = 224 then
          if (b0 :: rest).length ≥ 3 then
            match decCont (b0 :: rest) (3 - 1) 1 ((b0.toNat &&& 15) % uchMod) with
            | Except.error f => Except.error f
            | Except.ok none => Except.ok (0, 0)
            | Except.ok (some w) => Except.ok (3, w)
          else Except.ok (3, 0)
        else
          if b0.toNat &&& 248 = 240 then
            if (b0 :: rest).length ≥ 4 then
              match decCont (b0 :: rest) (4 - 1) 1 ((b0.toNat &&& 7) % uchMod) with
              | Except.error f => Except.error f
              | Except.ok none => Except.ok (0, 0)
              | Except.ok (some w) => Except.ok (4, w)
            else Except.ok (4, 0)
          else Except.ok (0, 0)) := by
  simp only [utf8ToUc, T, utf8Table, utf8ToUcRows, rd, List.getElem?_cons_zero]
  rfl

theorem dec_class1 (b0 : UInt8) (rest : List UInt8) (c1 : b0.toNat < 0x80) :
    utf8ToUc T (b0 :: rest) = .ok (1, b0.toNat) := by
  have hb : b0.toNat < 256 := b0.toNat_lt
  obtain ⟨f1, _, _, _⟩ := byte_lead_facts b0.toNat hb
  obtain ⟨v1, _, _, _, _⟩ := byte_val_facts b0.toNat hb
  rw [utf8ToUc_unfold, if_pos (f1.mpr c1), if_pos (by simp)]
  simp only [Nat.sub_self, decCont, v1 c1, uchMod_eq]
  rw [Nat.mod_eq_of_lt (by omega)]

theorem dec_class2 (b0 : UInt8) (rest : List UInt8) (c2 : 0xC0 ≤ b0.toNat ∧ b0.toNat < 0xE0) :
    utf8ToUc T (b0 :: rest) =
      match rest with
      | [] => .ok (2, 0)
      | b1 :: _ => if isCont b1.toNat then .ok (2, (b0.toNat - 0xC0) * 64 + (b1.toNat - 0x80)) else .ok (0, 0) := by
  have hb : b0.toNat < 256 := b0.toNat_lt
  obtain ⟨f1, f2, _, _⟩ := byte_lead_facts b0.toNat hb
  obtain ⟨_, v2, _, _, _⟩ := byte_val_facts b0.toNat hb
  rw [utf8ToUc_unfold, if_neg (fun h' => by have := f1.mp h'; omega), if_pos (f2.mpr c2)]
  rcases rest with _ | ⟨b1, t⟩
  · rw [if_neg (by simp)]
  · have hb1 : b1.toNat < 256 := b1.toNat_lt
    obtain ⟨_, _, _, g1, g2⟩ := byte_val_facts b1.toNat hb1
    rw [if_pos (by simp)]
    simp only [show (2 - 1) = 1 by rfl, decCont1]
    by_cases cc : isCont b1.toNat
    · rw [if_neg (by simpa using g1.mpr cc)]
      simp only [v2 c2.1 c2.2, g2 cc.1 cc.2, uchMod_eq, if_pos cc]
      unfold isCont at cc
      rw [Nat.mod_eq_of_lt (show b0.toNat - 192 < 65536 by omega), shl6_or _ _ (by omega), Nat.mod_eq_of_lt (by omega)]
    · rw [if_pos (by simpa using fun h' => cc (g1.mp h'))]
      simp only [if_neg cc]

theorem dec_class3 (b0 : UInt8) (rest : List UInt8) (c3 : 0xE0 ≤ b0.toNat ∧ b0.toNat < 0xF0) :
    utf8ToUc T (b0 :: rest) =
      match rest with
      | [] => .ok (3, 0)
      | [_] => .ok (3, 0)
      | b1 :: b2 :: _ =>
        if isCont b1.toNat ∧ isCont b2.toNat then
          .ok (3, ((b0.toNat - 0xE0) * 64 + (b1.toNat - 0x80)) * 64 + (b2.toNat - 0x80))
        else .ok (0, 0) := by
  have hb : b0.toNat < 256 := b0.toNat_lt
  obtain ⟨f1, f2, f3, _⟩ := byte_lead_facts b0.toNat hb
  obtain ⟨_, _, v3, _, _⟩ := byte_val_facts b0.toNat hb
  rw [utf8ToUc_unfold, if_neg (fun h' => by have := f1.mp h'; omega), if_neg (fun h' => by have := f2.mp h'; omega),
    if_pos (f3.mpr c3)]
  rcases rest with _ | ⟨b1, _ | ⟨b2, t⟩⟩
  · rw [if_neg (by simp)]
  · rw [if_neg (by simp)]
  · have hb1 : b1.toNat < 256 := b1.toNat_lt
    have hb2 : b2.toNat < 256 := b2.toNat_lt
    obtain ⟨_, _, _, g1, g2⟩ := byte_val_facts b1.toNat hb1
    obtain ⟨_, _, _, k1, k2⟩ := byte_val_facts b2.toNat hb2
    rw [if_pos (by simp)]
    simp only [show (3 - 1) = 2 by rfl, decCont2]
    by_cases cc : isCont b1.toNat
    · rw [if_neg (by simpa using g1.mpr cc)]
      by_cases cd : isCont b2.toNat
      · rw [if_neg (by simpa using k1.mpr cd)]
        simp only [v3 c3.1 c3.2, g2 cc.1 cc.2, k2 cd.1 cd.2, uchMod_eq, if_pos (And.intro cc cd)]
        unfold isCont at cc cd
        rw [Nat.mod_eq_of_lt (show b0.toNat - 224 < 65536 by omega), shl6_or _ (b1.toNat - 128) (by omega),
          Nat.mod_eq_of_lt (show (b0.toNat - 224) * 64 + (b1.toNat - 128) < 65536 by omega),
          shl6_or _ (b2.toNat - 128) (by omega), Nat.mod_eq_of_lt (by omega)]
      · rw [if_pos (by simpa using fun h' => cd (k1.mp h'))]
        simp only [if_neg (fun h' : isCont b1.toNat ∧ isCont b2.toNat => cd h'.2)]
    · rw [if_pos (by simpa using fun h' => cc (g1.mp h'))]
      simp only [if_neg (fun h' : isCont b1.toNat ∧ isCont b2.toNat => cc h'.1)]

theorem dec_class4 (b0 : UInt8) (rest : List UInt8) (c4 : 0xF0 ≤ b0.toNat ∧ b0.toNat < 0xF8) :
    ∃ n w, utf8ToUc T (b0 :: rest) = .ok (n, w) ∧ (n = 0 ∨ n = 4) := by
  have hb : b0.toNat < 256 := b0.toNat_lt
  obtain ⟨f1, f2, f3, f4⟩ := byte_lead_facts b0.toNat hb
  obtain ⟨⟨n, w⟩, h⟩ := utf8ToUc_ok T (b0 :: rest) (by simp)
  refine ⟨n, w, h, ?_⟩
  rw [utf8ToUc_unfold, if_neg (fun h' => by have := f1.mp h'; omega), if_neg (fun h' => by have := f2.mp h'; omega),
    if_neg (fun h' => by have := f3.mp h'; omega), if_pos (f4.mpr c4)] at h
  split at h
  · split at h
    · simp at h
    · simp only [Except.ok.injEq, Prod.mk.injEq] at h; exact Or.inl h.1.symm
    · simp only [Except.ok.injEq, Prod.mk.injEq] at h; exact Or.inr h.1.symm
  · simp only [Except.ok.injEq, Prod.mk.injEq] at h; exact Or.inr h.1.symm

theorem dec_class_bad (b0 : UInt8) (rest : List UInt8) (c : isCont b0.toNat ∨ 0xF8 ≤ b0.toNat) :
    utf8ToUc T (b0 :: rest) = .ok (0, 0) := by
  have hb : b0.toNat < 256 := b0.toNat_lt
  obtain ⟨f1, f2, f3, f4⟩ := byte_lead_facts b0.toNat hb
  unfold isCont at c
  rw [utf8ToUc_unfold, if_neg (fun h' => by have := f1.mp h'; omega), if_neg (fun h' => by have := f2.mp h'; omega),
    if_neg (fun h' => by have := f3.mp h'; omega), if_neg (fun h' => by have := f4.mp h'; omega)]

theorem byte_cases (b : Nat) (hb : b < 256) :
    b < 0x80 ∨ isCont b ∨ (0xC0 ≤ b ∧ b < 0xE0) ∨ (0xE0 ≤ b ∧ b < 0xF0) ∨ (0xF0 ≤ b ∧ b < 0xF8) ∨ 0xF8 ≤ b := by
  unfold isCont; omega

/-- what the decoder accepts in shortest form is exactly what the encoder produces -/
theorem encode_decode_T (s : List UInt8) (n w : Nat) (h : utf8ToUc T s = .ok (n, w)) (hn0 : n ≠ 0) (hn : n ≤ s.length)
    (hshort : (encode T w).length = n) : encode T w = s.take n := by
  have hw : w < 65536 := by have := utf8ToUc_w_lt T s n w h; rwa [uchMod_eq] at this
  rw [encode_eq_spec w hw] at hshort ⊢
  rcases s with _ | ⟨b0, rest⟩
  · simp at hn; exact absurd hn hn0
  · have hb : b0.toNat < 256 := b0.toNat_lt
    rcases byte_cases b0.toNat hb with c | c | c | c | c | c
    · rw [dec_class1 b0 rest c] at h
      simp only [Except.ok.injEq, Prod.mk.injEq] at h
      obtain ⟨rfl, rfl⟩ := h
      simp [encSpec, c]
    · rw [dec_class_bad b0 rest (Or.inl c)] at h
      simp only [Except.ok.injEq, Prod.mk.injEq] at h
      exact absurd h.1.symm hn0
    · rw [dec_class2 b0 rest c] at h
      rcases rest with _ | ⟨b1, t⟩
      · simp only [Except.ok.injEq, Prod.mk.injEq] at h
        obtain ⟨rfl, rfl⟩ := h; simp at hn
      · simp only at h
        by_cases cc : isCont b1.toNat
        · rw [if_pos cc] at h
          simp only [Except.ok.injEq, Prod.mk.injEq] at h
          obtain ⟨rfl, hwv⟩ := h
          unfold isCont at cc
          have c3 : ¬ w < 0x80 := by
            intro hlt; simp [encSpec, hlt] at hshort
          have c4 : w < 0x800 := by omega
          simp only [encSpec, if_neg c3, if_pos c4, List.take_succ_cons, List.take_zero]
          have e1 : 0xC0 + w / 64 = b0.toNat := by omega
          have e2 : 0x80 + w % 64 = b1.toNat := by omega
          rw [e1, e2]; simp
        · rw [if_neg cc] at h
          simp only [Except.ok.injEq, Prod.mk.injEq] at h
          exact absurd h.1.symm hn0
    · rw [dec_class3 b0 rest c] at h
      rcases rest with _ | ⟨b1, _ | ⟨b2, t⟩⟩
      · simp only [Except.ok.injEq, Prod.mk.injEq] at h
        obtain ⟨rfl, rfl⟩ := h; simp at hn
      · simp only [Except.ok.injEq, Prod.mk.injEq] at h
        obtain ⟨rfl, rfl⟩ := h; simp at hn
      · simp only at h
        by_cases cc : isCont b1.toNat ∧ isCont b2.toNat
        · rw [if_pos cc] at h
          simp only [Except.ok.injEq, Prod.mk.injEq] at h
          obtain ⟨rfl, hwv⟩ := h
          unfold isCont at cc
          have c4 : ¬ w < 0x80 := by
            intro hlt; simp [encSpec, hlt] at hshort
          have c5 : ¬ w < 0x800 := by
            intro hlt; simp [encSpec, hlt, c4] at hshort
          simp only [encSpec, if_neg c4, if_neg c5, List.take_succ_cons, List.take_zero]
          have e1 : 0xE0 + w / 4096 = b0.toNat := by omega
          have e2 : 0x80 + w / 64 % 64 = b1.toNat := by omega
          have e3 : 0x80 + w % 64 = b2.toNat := by omega
          rw [e1, e2, e3]; simp
        · rw [if_neg cc] at h
          simp only [Except.ok.injEq, Prod.mk.injEq] at h
          exact absurd h.1.symm hn0
    · obtain ⟨n', w', h', hn'⟩ := dec_class4 b0 rest c
      rw [h'] at h
      simp only [Except.ok.injEq, Prod.mk.injEq] at h
      obtain ⟨rfl, rfl⟩ := h
      have := (encSpec_len w').2
      rcases hn' with rfl | rfl
      · exact absurd rfl hn0
      · omega
    · rw [dec_class_bad b0 rest (Or.inr c)] at h
      simp only [Except.ok.injEq, Prod.mk.injEq] at h
      exact absurd h.1.symm hn0

end Hawk.Utf8
