import HawkModel.RexParse
/-! towards "`Tre.parse` never answers STUCK": the two inner loops of the parser that have their own budget
(`PARSE_POSTFIX` with `tre_parse_bound`, `tre_parse_bracket_items`) never exhaust it, and they only consume input -/
namespace Hawk.Rex.Tre
open Hawk.Rex

theorem parseIntLoop_le : ∀ (r : List Char) (num : Nat) (ov : Bool), (parseIntLoop r num ov).2.2.length ≤ r.length
  | [], _, _ => by simp [parseIntLoop]
  | c :: r, num, ov => by
    unfold parseIntLoop
    split
    · exact Nat.le_succ_of_le (parseIntLoop_le r _ _)
    · simp

theorem parseInt_le (r : List Char) : (parseInt r).2.length ≤ r.length := by
  cases r with
  | nil => simp [parseInt]
  | cons c t =>
    unfold parseInt
    simp only
    split
    · exact parseIntLoop_le (c :: t) 0 false
    · simp

/-- `tre_parse_bound` never runs out of budget (it has none) and leaves no more than it was given -/
theorem parseBound_spec (result : Ast) (r : List Char) :
    parseBound result r ≠ .error .stuck ∧ ∀ a t, parseBound result r = .ok (a, t) → t.length ≤ r.length := by
  have h1 := parseInt_le r
  unfold parseBound
  generalize hp1 : parseInt r = p1 at h1
  obtain ⟨mn, r1⟩ := p1
  simp only at h1 ⊢
  have h2 : (match r1 with | ',' :: t => parseInt t | _ => (mn, r1)).2.length ≤ r1.length := by
    split
    · rename_i t; have := parseInt_le t; simp; omega
    · simp
  generalize hp2 : (match r1 with | ',' :: t => parseInt t | _ => (mn, r1)) = p2 at h2
  obtain ⟨mx, r2⟩ := p2
  simp only at h2 ⊢
  constructor
  · repeat' split
    all_goals simp
  · intro a t
    repeat' split
    all_goals intro h
    all_goals try (cases h; done)
    all_goals (simp only [Except.ok.injEq, Prod.mk.injEq] at h; obtain ⟨_, rfl⟩ := h)
    all_goals (simp at hp2; simp_all; try omega)
theorem qmark_len (t : List Char) :
    (match t with | '?' :: t' => (true, t') | _ => (false, t) : Bool × List Char).2.length ≤ t.length := by
  split <;> simp

/-- `PARSE_POSTFIX` never runs out of its budget `re.length + 1` and leaves no more than it was given -/
theorem postfixOps_spec (cf : CF) : ∀ (fuel : Nat) (res : Ast) (re : List Char), re.length < fuel →
    postfixOps cf fuel res re ≠ .error .stuck ∧ ∀ a t, postfixOps cf fuel res re = .ok (a, t) → t.length ≤ re.length
  | 0, _, _, h => by omega
  | fuel + 1, res, re, h => by
    have ih := fun res re h => postfixOps_spec cf fuel res re h
    unfold postfixOps
    cases re with
    | nil => simp
    | cons c t =>
      have hlt : t.length < fuel := by simp only [List.length_cons] at h; omega
      clear h
      simp only [List.length_cons]
      split
      · have hq := qmark_len t
        refine ⟨(ih _ _ (Nat.lt_of_le_of_lt hq hlt)).1, fun a t2 h2 => ?_⟩
        exact Nat.le_succ_of_le (Nat.le_trans ((ih _ _ (Nat.lt_of_le_of_lt hq hlt)).2 a t2 h2) hq)
      · split
        · have pb := parseBound_spec res t
          split
          · rename_i e he
            refine ⟨?_, fun a t2 h2 => by cases h2⟩
            intro hc; injection hc with hc; subst hc; exact pb.1 he
          · rename_i r2 t2 he
            have hl := pb.2 r2 t2 he
            have := ih r2 t2 (by omega)
            refine ⟨this.1, fun a t3 h3 => ?_⟩
            have := this.2 a t3 h3
            omega
        · refine ⟨by simp, fun a t2 h2 => ?_⟩
          injection h2 with h2; injection h2 with _ h2; subst h2; simp

theorem dropWhile_length_le {α} (p : α → Bool) : ∀ l : List α, (l.dropWhile p).length ≤ l.length
  | [] => by simp
  | x :: l => by
    simp only [List.dropWhile_cons]
    split
    · exact Nat.le_succ_of_le (dropWhile_length_le p l)
    · simp

theorem bracketOne_le (first : Bool) (c0 : Char) (r0 : List Char) : ∀ lo hi cls rest,
    bracketOne first c0 r0 = .ok (lo, hi, cls, rest) → rest.length ≤ r0.length := by
  have hdw := dropWhile_length_le (fun x : Char => decide (x ≠ ':')) (r0.drop 1)
  intro lo hi cls rest
  unfold bracketOne
  simp only []
  repeat' split
  all_goals intro h
  all_goals try (cases h; done)
  all_goals (simp only [Except.ok.injEq, Prod.mk.injEq] at h; obtain ⟨_, _, _, rfl⟩ := h)
  all_goals (simp_all; try omega)
/-- `tre_parse_bracket_items` never runs out of a budget larger than the text, and what it leaves is shorter -/
theorem bracketItems_spec (icase negate : Bool) : ∀ (fuel : Nat) (first : Bool) (re : List Char) (items : List Item) (negs : List CClass),
    re.length < fuel →
    bracketItems icase negate fuel first re items negs ≠ .error .stuck ∧
    ∀ i n rest, bracketItems icase negate fuel first re items negs = .ok (i, n, rest) → rest.length ≤ re.length
  | 0, _, _, _, _, h => by omega
  | fuel + 1, first, re, items, negs, h => by
    have ih := fun first re items negs h => bracketItems_spec icase negate fuel first re items negs h
    unfold bracketItems
    cases re with
    | nil => simp
    | cons c0 r0 =>
      have hlt : r0.length < fuel := by simp only [List.length_cons] at h; omega
      clear h
      simp only [List.length_cons]
      split
      · refine ⟨by simp, fun i n rest h => ?_⟩
        injection h with h; injection h with _ h; injection h with _ h; subst h; omega
      · have hone := bracketOne_le first c0 r0
        split
        · rename_i e he
          refine ⟨?_, fun i n rest h => by cases h⟩
          intro hc; injection hc with hc; subst hc
          -- bracketOne has no budget: it never answers stuck
          revert he
          unfold bracketOne
          simp only []
          repeat' split
          all_goals intro he
          all_goals (first | (cases he; done) | (injection he with he; cases he))
        · rename_i lo hi cls rest he
          have hr := hone lo hi cls rest he
          have hrl : rest.length < fuel := by omega
          split
          · split
            · refine ⟨by simp, fun i n rest h => by cases h⟩
            · exact ⟨(ih _ _ _ _ hrl).1, fun i n r h => Nat.le_succ_of_le (Nat.le_trans ((ih _ _ _ _ hrl).2 i n r h) hr)⟩
          · split
            · refine ⟨by simp, fun i n rest h => by cases h⟩
            · exact ⟨(ih _ _ _ _ hrl).1, fun i n r h => Nat.le_succ_of_le (Nat.le_trans ((ih _ _ _ _ hrl).2 i n r h) hr)⟩

/-- `tre_parse_bracket` never answers STUCK and only consumes input -/
theorem parseBracket_spec (icase : Bool) (pos : Nat) (re : List Char) :
    parseBracket icase pos re ≠ .error .stuck ∧ ∀ a rest, parseBracket icase pos re = .ok (a, rest) → rest.length ≤ re.length := by
  unfold parseBracket
  simp only []
  generalize hre : (if (re.head? == some '^') = true then re.drop 1 else re) = re'
  have hle : re'.length ≤ re.length := by subst hre; split <;> simp
  have sp := bracketItems_spec icase (re.head? == some '^') (re'.length + 1) true re' [] [] (Nat.lt_succ_self _)
  split
  · rename_i e he
    refine ⟨?_, fun a rest h => by cases h⟩
    intro hc; injection hc with hc; subst hc; exact sp.1 he
  · rename_i items negs rest he
    have := sp.2 items negs rest he
    split
    · refine ⟨by simp, fun a r h => ?_⟩
      injection h with h; injection h with _ h; subst h; omega
    · exact ⟨by simp, fun a r h => by cases h⟩

theorem hexBrace_spec : ∀ (r : List Char) (val : Nat),
    hexBrace r val ≠ .error .stuck ∧ ∀ v rest, hexBrace r val = .ok (v, rest) → rest.length ≤ r.length
  | [], _ => by simp [hexBrace]
  | c :: r, val => by
    unfold hexBrace
    split
    · refine ⟨by simp, fun v rest h => ?_⟩
      injection h with h; injection h with _ h; subst h; simp
    · split
      · exact ⟨(hexBrace_spec r _).1, fun v rest h => Nat.le_succ_of_le ((hexBrace_spec r _).2 v rest h)⟩
      · simp

/-- the backslash atoms never answer STUCK and only consume input -/
theorem escapeAtom_spec (cf : CF) (st : St) (e : Char) (t : List Char) :
    escapeAtom cf st e t ≠ .error .stuck ∧ ∀ a st' rest, escapeAtom cf st e t = .ok (a, st', rest) → rest.length ≤ t.length := by
  unfold escapeAtom
  split
  · refine ⟨by simp, fun a st' rest h => ?_⟩
    simp only [Except.ok.injEq, Prod.mk.injEq] at h; obtain ⟨_, _, rfl⟩ := h; simp
  · split
    · rename_i text _
      have pb := parseBracket_spec cf.icase st.pos text
      split
      · rename_i err he
        refine ⟨?_, fun a st' rest h => by cases h⟩
        intro hc; injection hc with hc; subst hc; exact pb.1 he
      · refine ⟨by simp, fun a st' rest h => ?_⟩
        simp only [Except.ok.injEq, Prod.mk.injEq] at h; obtain ⟨_, _, rfl⟩ := h; simp
    · constructor
      · repeat' split
        all_goals first | (simp; done) | skip
        all_goals (rename_i he; intro hc; injection hc with hc; subst hc; exact (hexBrace_spec _ _).1 he)
      · intro a st' rest
        repeat' split
        all_goals intro h
        all_goals try (cases h; done)
        all_goals (simp only [Except.ok.injEq, Prod.mk.injEq] at h; obtain ⟨_, _, rfl⟩ := h)
        all_goals first | (simp; done) | (simp; omega) | skip
        all_goals (have := (hexBrace_spec _ _).2 _ _ (by assumption); simp at this ⊢; omega)
end Hawk.Rex.Tre
