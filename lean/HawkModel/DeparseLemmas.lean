import HawkModel.Deparse
/-!
  Specification-level definitions (`norm`, `canon`, `WFparse`) and helper lemmas for the C17 theorems:
  passing through ladder levels, table facts (checked by `decide` on the generated tables), shapes of printed text.
-/
namespace Hawk.Deparse
open Hawk.Gen.Precedence

/-! ### what `parse ∘ print` returns, and the equivalence it respects -/

mutual
/-- the tree `parse (print a)` returns: a re-rendered non-negative number is read back as a literal with retained text;
    a unary operator over an integer literal (left unfolded by parse_unary_exp) is folded by parse_unary -/
def norm : Ast → Ast
  | .int v none => if v < 0 then .int v none else .int v (some (toString v.toNat))
  | .int v (some t) => .int v (some t)
  | .lit k s => .lit k s
  | .var n => .var n
  | .idx n ix => .idx n (normL ix)
  | .call n args => .call n (normL args)
  | .grp b => .grp (normL b)
  | .pos e => .pos (norm e)
  | .bin op l r => .bin op (norm l) (norm r)
  | .unr op e =>
    match norm e with
    | .int v _ => .int (foldUnrInt op v) none
    | e' => .unr op e'
  | .incpre op e => .incpre op (norm e)
  | .incpst op e => .incpst op (norm e)
  | .cnd c l r => .cnd (norm c) (norm l) (norm r)
  | .ass op l r => .ass op (norm l) (norm r)
def normL : AstL → AstL
  | .nil => .nil
  | .cons a t => .cons (norm a) (normL t)
end

mutual
/-- forget the retained spelling of integer literals and fold unary operators over integer literals -/
def canon : Ast → Ast
  | .int v _ => .int v none
  | .lit k s => .lit k s
  | .var n => .var n
  | .idx n ix => .idx n (canonL ix)
  | .call n args => .call n (canonL args)
  | .grp b => .grp (canonL b)
  | .pos e => .pos (canon e)
  | .bin op l r => .bin op (canon l) (canon r)
  | .unr op e =>
    match canon e with
    | .int v _ => .int (foldUnrInt op v) none
    | e' => .unr op e'
  | .incpre op e => .incpre op (canon e)
  | .incpst op e => .incpst op (canon e)
  | .cnd c l r => .cnd (canon c) (canon l) (canon r)
  | .ass op l r => .ass op (canon l) (canon r)
def canonL : AstL → AstL
  | .nil => .nil
  | .cons a t => .cons (canon a) (canonL t)
end

/-- equal up to the spelling of integer literals and folding of unary operators over integer literals -/
def Equiv (a b : Ast) : Prop := canon a = canon b

def litKinds : List TK := [.FLT, .STR, .MBS, .CHAR, .BCHR, .XNIL]

mutual
/-- the trees the parser can return (where literals keep their text, where folding has happened, what the operands of
    `in`, `++`, `--` and assignment are).  The parser makes no node for parentheses, so no condition on grouping. -/
def WFparse : Ast → Prop
  | .int v none => -9223372036854775808 ≤ v ∧ v < 9223372036854775808
  | .int v (some _) => 0 ≤ v ∧ v < 9223372036854775808
  | .lit k _ => k ∈ litKinds
  | .var _ => True
  | .idx _ ix => WFparseL ix ∧ ix ≠ .nil
  | .call _ args => WFparseL args
  | .grp b => WFparseL b ∧ 2 ≤ b.length
  | .pos e => WFparse e
  | .bin op l r => WFparse l ∧ WFparse r ∧ ¬ (foldable op = true ∧ (norm l).isNum = true ∧ (norm r).isNum = true) ∧
      (op = .IN → r.isVar = true)
  | .unr _ e => WFparse e ∧ e.isFlt = false
  | .incpre _ e => WFparse e ∧ (e.isVar || e.isPos) = true
  | .incpst _ e => WFparse e ∧ (e.isVar || e.isPos) = true
  | .cnd c l r => WFparse c ∧ WFparse l ∧ WFparse r
  | .ass _ l r => WFparse l ∧ WFparse r ∧ (l.isVar || l.isPos) = true
def WFparseL : AstL → Prop
  | .nil => True
  | .cons a t => WFparse a ∧ WFparseL t
end

/-! ### kinds of the next two tokens decide whether a level goes on -/

def k1 (ts : List Tok) : Option TK :=
  match ts with
  | t :: _ => some t.k
  | [] => none

def k2 (ts : List Tok) : Option TK :=
  match ts with
  | _ :: u :: _ => some u.k
  | _ => none

/-- level `L` does not continue an operand that is followed by tokens of kinds `a`, `b` -/
def noContK (L : Level) (a b : Option TK) : Bool :=
  match L with
  | .binary _ _ _ map => match a with | none => true | some k => (map.lookup k).isNone
  | .assLv => match a with | none => true | some k => (assignToks.lookup k).isNone
  | .cndLv => a != some .QUEST
  | .inLv => a != some .IN
  | .concatLv => match a with | none => true | some k => !(k == concatTok || isStarterK k)
  | .unaryLv => true
  | .unaryExpLv => true
  | .incLv => match a with | none => true | some k => (incToks.lookup k).isNone
  | .primLv => a != some .LBRACK && !((a == some .BOR || a == some .LOR) && (b == some .GETLINE || b == some .GETBLINE))

/-- level `L` does not treat a first token of kind `a` as a prefix operator (and is not the bottom of the ladder) -/
def noPrefixK (L : Level) (a : Option TK) : Bool :=
  match L with
  | .unaryLv => match a with | none => true | some k => (unaryToks.lookup k).isNone
  | .unaryExpLv => match a with | none => true | some k => (unaryExpToks.lookup k).isNone
  | .incLv => match a with | none => true | some k => (incToks.lookup k).isNone
  | .primLv => false
  | _ => true

def passK (pre : List Level) (s a b : Option TK) : Bool := pre.all (fun L => noPrefixK L s && noContK L a b)

theorem isPipeGetline_false (rest : List Tok) (h : noContK .primLv (k1 rest) (k2 rest) = true) : isPipeGetline rest = false := by
  match rest with
  | [] => rfl
  | [t] => rfl
  | t :: u :: r =>
    simp only [noContK, k1, k2, Bool.and_eq_true, Bool.not_eq_true', bne_iff_ne, ne_eq] at h
    simp only [isPipeGetline, rio, rwpipe, Bool.true_and]
    have := h.2
    simpa using this

theorem headIs_LBRACK_false (rest : List Tok) (h : noContK .primLv (k1 rest) (k2 rest) = true) : headIs .LBRACK rest = false := by
  match rest with
  | [] => rfl
  | t :: r =>
    simp only [noContK, k1, Bool.and_eq_true, bne_iff_ne, ne_eq] at h
    simpa [headIs] using h.1

/-- what the levels `base` return for `ts` is passed up unchanged by the levels `pre` above them -/
theorem climb (full : List Level) (n : Nat) (pre base : List Level) (ts rest : List Tok) (x : Ast)
    (h : parseLv full n base ts = .ok (x, rest))
    (hp : passK pre (k1 ts) (k1 rest) (k2 rest) = true) :
    parseLv full n (pre ++ base) ts = .ok (x, rest) := by
  induction pre with
  | nil => simpa using h
  | cons L pre ih =>
    simp only [passK, List.all_cons, Bool.and_eq_true] at hp
    have h' := ih (by simpa [passK] using hp.2)
    have hL := hp.1
    rw [List.cons_append]
    cases L with
    | binary fn sk ra map =>
      rw [parseLv, h']; simp only []
      cases rest with
      | nil => rw [binLoop]
      | cons t r =>
        rw [binLoop]
        have := hL.2; simp only [noContK, k1, Option.isNone_iff_eq_none] at this
        rw [this]
    | assLv =>
      rw [parseLv, h']; simp only []
      cases rest with
      | nil => rfl
      | cons t r =>
        have := hL.2; simp only [noContK, k1, Option.isNone_iff_eq_none] at this
        simp only [this]
    | cndLv =>
      rw [parseLv, h']; simp only []
      cases rest with
      | nil => rfl
      | cons t r =>
        have := hL.2; simp only [noContK, k1] at this
        have hk : t.k ≠ .QUEST := by simpa using this
        simp [hk]
    | inLv =>
      rw [parseLv, h']; simp only []
      cases rest with
      | nil => rw [inLoop]
      | cons t r =>
        rw [inLoop.eq_def]
        have := hL.2; simp only [noContK, k1] at this
        have hk : t.k ≠ .IN := by simpa using this
        simp [hk]
    | concatLv =>
      rw [parseLv, h']; simp only []
      cases rest with
      | nil => rw [concatLoop]
      | cons t r =>
        rw [concatLoop.eq_def]
        have := hL.2; simp only [noContK, k1, Bool.not_eq_true', Bool.or_eq_false_iff] at this
        cases n <;> simp [isStarter, this.1, this.2]
    | unaryLv =>
      cases ts with
      | nil => rw [parseLv]; exact h'
      | cons t r =>
        have := hL.1; simp only [noPrefixK, k1, Option.isNone_iff_eq_none] at this
        rw [parseLv]; simp only [this]; exact h'
    | unaryExpLv =>
      cases ts with
      | nil => rw [parseLv]; exact h'
      | cons t r =>
        have := hL.1; simp only [noPrefixK, k1, Option.isNone_iff_eq_none] at this
        rw [parseLv]; simp only [this]; exact h'
    | incLv =>
      cases ts with
      | nil =>
        rw [parseLv]; exact h'
      | cons t r =>
        have h1 := hL.1; simp only [noPrefixK, k1, Option.isNone_iff_eq_none] at h1
        rw [parseLv]; simp only [h1, h']
        cases rest with
        | nil => rfl
        | cons u r2 =>
          have h2 := hL.2; simp only [noContK, k1, Option.isNone_iff_eq_none] at h2
          simp only [h2]
    | primLv =>
      have := hL.1; simp [noPrefixK] at this


/-! ### shapes of the printed token sequences -/

theorem toks_append (a b : List PT) : toks (a ++ b) = toks a ++ toks b := by
  induction a with
  | nil => rfl
  | cons x r ih => cases x <;> simp [toks, ih]

/-- an operand as print_operand writes it: an assignment is enclosed in parentheses -/
def opnd (a : Ast) : List Tok := if a.isAss then tLP :: (print a ++ [tRP]) else print a

/-- print_expr_list as tokens -/
def printLT (l : AstL) : List Tok := toks (printL l)

theorem print_int_some (v : Int) (t : String) : print (.int v (some t)) = [{ k := .INT, s := t, v := v.toNat }] := by
  simp [print, printP, toks]
theorem print_int_nonneg (v : Int) (h : ¬ v < 0) : print (.int v none) = [natTok v.toNat] := by
  simp [print, printP, toks, h]
theorem print_int_neg (v : Int) (h : v < 0) : print (.int v none) = [tLP, tMINUS, natTok v.natAbs, tRP] := by
  simp [print, printP, toks, h]
theorem print_lit (k : TK) (s : String) : print (.lit k s) = [{ k := k, s := s }] := by simp [print, printP, toks]
theorem print_var (n : String) : print (.var n) = [{ k := .IDENT, s := n }] := by simp [print, printP, toks]
theorem print_idx (n : String) (ix : AstL) : print (.idx n ix) = { k := .IDENT, s := n } :: tLB :: (printLT ix ++ [tRB]) := by
  simp [print, printP, toks, toks_append, printLT]
theorem print_call (n : String) (l : AstL) : print (.call n l) = { k := .IDENT, s := n, adj := true } :: tLP :: (printLT l ++ [tRP]) := by
  simp [print, printP, toks, toks_append, printLT]
theorem print_grp (l : AstL) : print (.grp l) = tLP :: (printLT l ++ [tRP]) := by
  simp [print, printP, toks, toks_append, printLT]
theorem print_pos (e : Ast) : print (.pos e) = tDOLLAR :: tLP :: (print e ++ [tRP]) := by
  simp [print, printP, toks, toks_append]
theorem print_bin (op : BinOp) (l r : Ast) : print (.bin op l r) = tLP :: (opnd l ++ binTok op :: (opnd r ++ [tRP])) := by
  simp only [print, printP, opnd]
  cases hl : l.isAss <;> cases hr : r.isAss <;> simp [toks, toks_append]
theorem print_unr (op : UnrOp) (e : Ast) : print (.unr op e) = tLP :: unrTok op :: tLP :: (print e ++ [tRP, tRP]) := by
  simp [print, printP, toks, toks_append]
theorem print_incpre (op : IncOp) (e : Ast) : print (.incpre op e) = incTok op :: tLP :: (print e ++ [tRP]) := by
  simp [print, printP, toks, toks_append]
theorem print_incpst (op : IncOp) (e : Ast) : print (.incpst op e) = tLP :: (print e ++ [tRP, incTok op]) := by
  simp [print, printP, toks, toks_append]
theorem print_cnd (c l r : Ast) : print (.cnd c l r) = tLP :: tLP :: (print c ++ tRP :: tQUEST :: (print l ++ tCOLON :: (print r ++ [tRP]))) := by
  simp [print, printP, toks, toks_append]
theorem print_ass (op : AssOp) (l r : Ast) : print (.ass op l r) = print l ++ assTok op :: print r := by
  simp [print, printP, toks, toks_append]

theorem printLT_nil : printLT .nil = [] := by simp [printLT, printL, toks]
theorem printLT_one (a : Ast) : printLT (.cons a .nil) = print a := by simp [printLT, printL, print]
theorem printLT_cons (a b : Ast) (t : AstL) : printLT (.cons a (.cons b t)) = print a ++ tCOMMA :: printLT (.cons b t) := by
  simp [printLT, printL, print, toks, toks_append]

/-- kinds of the tokens an operand can start with -/
def startKs : List TK := [.LPAREN, .IDENT, .INT, .FLT, .STR, .MBS, .CHAR, .BCHR, .XNIL, .DOLLAR, .PLUSPLUS, .MINUSMINUS]

theorem tLP_k : tLP.k = .LPAREN := by decide
theorem tRP_k : tRP.k = .RPAREN := by decide
theorem tLB_k : tLB.k = .LBRACK := by decide
theorem tRB_k : tRB.k = .RBRACK := by decide
theorem tCOMMA_k : tCOMMA.k = .COMMA := by decide
theorem tQUEST_k : tQUEST.k = .QUEST := by decide
theorem tCOLON_k : tCOLON.k = .COLON := by decide
theorem tDOLLAR_k : tDOLLAR.k = .DOLLAR := by decide
theorem tMINUS_k : tMINUS.k = .MINUS := by decide
theorem incTok_start (op : IncOp) : (incTok op).k ∈ startKs := by cases op <;> decide

theorem litKinds_start (k : TK) (h : k ∈ litKinds) : k ∈ startKs := by
  simp only [litKinds, List.mem_cons, List.not_mem_nil, or_false] at h
  rcases h with h | h | h | h | h | h <;> subst h <;> decide

/-- the printed form of a tree starts with a token that begins an operand -/
theorem print_head (a : Ast) (h : WFparse a) : ∃ t r, print a = t :: r ∧ t.k ∈ startKs := by
  match a with
  | .int v (some t) => exact ⟨_, _, print_int_some v t, by simp [startKs]⟩
  | .int v none =>
    by_cases hv : v < 0
    · exact ⟨_, _, print_int_neg v hv, by decide⟩
    · exact ⟨_, _, print_int_nonneg v hv, by simp [startKs, natTok]⟩
  | .lit k s => exact ⟨_, _, print_lit k s, litKinds_start k (by simpa [WFparse] using h)⟩
  | .var n => exact ⟨_, _, print_var n, by simp [startKs]⟩
  | .idx n ix => exact ⟨_, _, print_idx n ix, by simp [startKs]⟩
  | .call n l => exact ⟨_, _, print_call n l, by simp [startKs]⟩
  | .grp l => exact ⟨_, _, print_grp l, by decide⟩
  | .pos e => exact ⟨_, _, print_pos e, by decide⟩
  | .bin op l r => exact ⟨_, _, print_bin op l r, by decide⟩
  | .unr op e => exact ⟨_, _, print_unr op e, by decide⟩
  | .incpre op e => exact ⟨_, _, print_incpre op e, incTok_start op⟩
  | .incpst op e => exact ⟨_, _, print_incpst op e, by decide⟩
  | .cnd c l r => exact ⟨_, _, print_cnd c l r, by decide⟩
  | .ass op l r =>
    have hl : WFparse l := by simp only [WFparse] at h; exact h.1
    obtain ⟨t, r', e, hk⟩ := print_head l hl
    exact ⟨t, r' ++ assTok op :: print r, by rw [print_ass, e]; rfl, hk⟩

theorem opnd_head (a : Ast) (h : WFparse a) : ∃ t r, opnd a = t :: r ∧ t.k ∈ startKs := by
  unfold opnd
  split
  · exact ⟨_, _, rfl, by decide⟩
  · exact print_head a h


/-! ### single steps of the parser on printed text -/

theorem prim_of_noPipe (n : Nat) (t : Tok) (ts1 rest : List Tok) (x : Ast)
    (h : primNoPipe ladder n t.k t ts1 = .ok (x, rest))
    (hc : noContK .primLv (k1 rest) (k2 rest) = true) :
    parseLv ladder (n + 1) [.primLv] (t :: ts1) = .ok (x, rest) := by
  rw [parseLv]; simp only [h, isPipeGetline_false rest hc]; rfl

/-- `( e )` : parse_primary_lparen returns the inner node -/
theorem noPipe_paren (n : Nat) (t : Tok) (ts rest : List Tok) (x : Ast) (ht : t.k = .LPAREN)
    (hE : parseLv ladder n ladder (ts ++ tRP :: rest) = .ok (x, tRP :: rest)) :
    primNoPipe ladder n t.k t (ts ++ tRP :: rest) = .ok (x, rest) := by
  rw [ht, primNoPipe, parseList, hE]
  simp [tRP_k]

theorem prim_paren (n : Nat) (ts rest : List Tok) (x : Ast)
    (hE : parseLv ladder n ladder (ts ++ tRP :: rest) = .ok (x, tRP :: rest))
    (hc : noContK .primLv (k1 rest) (k2 rest) = true) :
    parseLv ladder (n + 1) [.primLv] (tLP :: (ts ++ tRP :: rest)) = .ok (x, rest) :=
  prim_of_noPipe n tLP _ rest x (noPipe_paren n tLP ts rest x tLP_k hE) hc

end Hawk.Deparse
