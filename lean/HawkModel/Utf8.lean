import HawkModel.Gen.Utf8Table
/-!
# Model of lib/utf8.c and of the conversion loops of lib/utl.c (C15)

Characters (`hawk_uch_t`, an unsigned `uchBits`-bit type in the checked build) are `Nat`s; every
place where the C stores into a `hawk_uch_t` is an explicit `% uchMod`, every store into a
`hawk_bch_t` is `UInt8.ofNat` (= `% 256`).  Bytes are `UInt8`.  The bit operations are the real
ones (`&&&`, `|||`, `>>>`, `<<<` on `Nat`), not arithmetic paraphrases.

Every read of `utf8[i]` goes through `rd`, which reports `Fault.oobRead` when `i` is not below the
size the caller passed; `Props/C15.lean` proves the fault is never produced (`decode_in_bounds`).
The functions are parametrised by the table; the checked build's table is `Hawk.Gen.utf8Table`
(generated from the C source by extract/utf8_table.py).
-/
namespace Hawk.Utf8
open Hawk.Gen

/-- `2 ^ (8 * sizeof(hawk_uch_t))` -/
def uchMod : Nat := 2 ^ uchBits

inductive Fault
  | oobRead   -- the C would have read a byte at an index ≥ the size it was given
  | overlap   -- memcpy with overlapping source and destination (only in `legacy` mode of Tio)
  | hang      -- the C loop would not make progress (never produced for capacities the API accepts)
  | oobWrite  -- the C would have stored beyond a buffer
deriving Repr, DecidableEq

/-- bounds-checked `utf8[i]` for an object of `s.length` bytes -/
def rd (s : List UInt8) (i : Nat) : Except Fault Nat :=
  match s[i]? with
  | some b => .ok b.toNat
  | none => .error .oobRead

/-! ## get_utf8_slot -/
def getSlot : List Utf8Row → Nat → Option Utf8Row
  | [], _ => none
  | cur :: rest, uc => if cur.lower ≤ uc ∧ uc ≤ cur.upper then some cur else getSlot rest uc

/-! ## hawk_uc_to_utf8 -/

/-- the `while (index > 1) { utf8[--index] = (uc & 0x3F) | 0x80; uc >>= 6; }` loop; `k = index - 1`
iterations left; the bytes are produced from the last position backwards, so consing builds
`utf8[1 .. length)` in order.  Returns the remaining `uc` and those bytes. -/
def encTail : Nat → Nat → List UInt8 → Nat × List UInt8
  | 0, uc, acc => (uc, acc)
  | k + 1, uc, acc => encTail k (uc >>> 6) (UInt8.ofNat ((uc &&& 0x3F) ||| 0x80) :: acc)

structure EncOut where
  ret : Nat                      -- return value
  bytes : Option (List UInt8)    -- `some b`: b was stored to utf8[0 .. ret); `none`: nothing stored
deriving Repr, DecidableEq

/-- `hawk_uc_to_utf8 (uc, utf8, size)` with a non-null `utf8` -/
def ucToUtf8 (tbl : List Utf8Row) (uc size : Nat) : EncOut :=
  match getSlot tbl uc with
  | none => ⟨0, none⟩                                   -- illegal character
  | some cur =>
    if cur.length ≤ size then
      let r := encTail (cur.length - 1) uc []
      ⟨cur.length, some (UInt8.ofNat (r.1 ||| cur.fbyte) :: r.2)⟩
    else ⟨cur.length, none⟩                             -- small buffer: length > size returned

/-- the bytes of one character (buffer of HAWK_BCSIZE_MAX bytes); `[]` for an illegal character -/
def encode (tbl : List Utf8Row) (c : Nat) : List UInt8 :=
  ((ucToUtf8 tbl c bcsizeMax).bytes).getD []

def encodeAll (tbl : List Utf8Row) (cs : List Nat) : List UInt8 :=
  cs.flatMap (encode tbl)

/-! ## hawk_utf8_to_uc -/

/-- `for (i = …; i < cur->length; i++) { if ((utf8[i] & 0xC0) != 0x80) return 0; w = (w << 6) | (utf8[i] & 0x3F); }`
with `k` iterations left; `none` = the `return 0`. -/
def decCont (s : List UInt8) : Nat → Nat → Nat → Except Fault (Option Nat)
  | 0, _, w => .ok (some w)
  | k + 1, i, w =>
    match rd s i with
    | .error f => .error f
    | .ok b =>
      if b &&& 0xC0 ≠ 0x80 then .ok none
      else decCont s k (i + 1) (((w <<< 6) ||| (b &&& 0x3F)) % uchMod)

/-- the `while (cur < end)` loop of `hawk_utf8_to_uc (utf8, size, &uc)`; result = (return value, value stored
to `*uc`, 0 when nothing is stored).  `s` is the object `utf8` points to and `size = s.length`. -/
def utf8ToUcRows (s : List UInt8) : List Utf8Row → Except Fault (Nat × Nat)
  | [] => .ok (0, 0)                                    -- invalid sequence
  | cur :: rest =>
    match rd s 0 with
    | .error f => .error f
    | .ok b0 =>
      if b0 &&& cur.mask = cur.fbyte then
        if s.length ≥ cur.length then
          match decCont s (cur.length - 1) 1 ((b0 &&& cur.fmask) % uchMod) with
          | .error f => .error f
          | .ok none => .ok (0, 0)
          | .ok (some w) => .ok (cur.length, w)
        else .ok (cur.length, 0)                        -- incomplete: length > size returned
      else utf8ToUcRows s rest

def utf8ToUc (tbl : List Utf8Row) (s : List UInt8) : Except Fault (Nat × Nat) := utf8ToUcRows s tbl

/-- the caller's reading of the return value -/
inductive Dec
  | ok (c : Nat) (n : Nat)     -- a character of n bytes
  | incomplete (n : Nat)       -- n > size bytes would be needed
  | illegal
deriving Repr, DecidableEq

def classify (size : Nat) (r : Nat × Nat) : Dec :=
  if r.1 = 0 then .illegal else if r.1 > size then .incomplete r.1 else .ok r.2 r.1

def decode (tbl : List Utf8Row) (s : List UInt8) : Except Fault Dec :=
  match utf8ToUc tbl s with
  | .error f => .error f
  | .ok r => .ok (classify s.length r)

/-! ## lib/mb8.c and lib/utf16.c: the other two built-in character managers

`hawk_uch_t` has 16 bits in the checked build, so the `#if (HAWK_SIZEOF_UCH_T > 2)` surrogate-pair branches of utf16.c are
not compiled: a code unit in D800..DFFF is illegal for the decoder.  The 16-bit units are stored in host byte order
(little endian on the checked build: extract/utf8_table.py measures it).  `legacy = true` is utf16.c before the two
repairs patches/utf16-small-buffer.diff (the encoder stored two bytes whatever `size` said) and
patches/utf16-incomplete.diff (the decoder answered "illegal" instead of "incomplete" for one byte of a unit). -/

/-- `hawk_uc_to_mb8 (wc, mb8, size)` -/
def ucToMb8 (wc size : Nat) : EncOut :=
  if size = 0 then ⟨size + 1, none⟩                      -- buffer too small
  else if wc > 255 then ⟨0, none⟩                         -- illegal character
  else ⟨1, some [UInt8.ofNat wc]⟩

/-- `hawk_mb8_to_uc (mb8, size, &wc)` -/
def mb8ToUc (s : List UInt8) : Except Fault (Nat × Nat) :=
  match rd s 0 with
  | .error f => .error f
  | .ok b => .ok (1, b)

/-- `hawk_uc_to_utf16 (uc, utf16, size)`; `bytes = some b` with `b.length > size` (legacy only) is a store beyond the buffer -/
def ucToUtf16 (legacy : Bool) (uc size : Nat) : EncOut :=
  if uc ≤ 0xFFFF then
    if legacy ∨ 2 ≤ size then ⟨2, some [UInt8.ofNat (uc % 256), UInt8.ofNat (uc / 256)]⟩
    else ⟨2, none⟩                                        -- (repair) small buffer: 2 > size returned, nothing stored
  else ⟨0, none⟩

/-- `hawk_utf16_to_uc (utf16, size, &uc)` -/
def utf16ToUc (legacy : Bool) (s : List UInt8) : Except Fault (Nat × Nat) :=
  if s.length < 2 then .ok (if legacy then 0 else 2, 0)   -- (repair) incomplete: 2 > size returned
  else
    match rd s 0, rd s 1 with
    | .ok b0, .ok b1 =>
      let u := b0 + 256 * b1
      if u < 0xD800 ∨ u > 0xDFFF then .ok (2, u) else .ok (0, 0)
    | .error f, _ => .error f
    | _, .error f => .error f

/-! ## hawk_cmgr_t: the pair of converters (lib/utl-cmgr.c `builtin_cmgr[]`) -/

structure Cmgr where
  bctouc : List UInt8 → Except Fault (Nat × Nat)   -- (return value, value stored to *uc)
  uctobc : Nat → Nat → EncOut                       -- character, size

/-- hawk_cmgr_id_t -/
inductive CmgrId
  | utf8 | utf16 | mb8
deriving Repr, DecidableEq

@[reducible] def utf8Cmgr (tbl : List Utf8Row) : Cmgr := ⟨utf8ToUc tbl, ucToUtf8 tbl⟩
@[reducible] def utf16Cmgr (legacy : Bool) : Cmgr := ⟨utf16ToUc legacy, ucToUtf16 legacy⟩
@[reducible] def mb8Cmgr : Cmgr := ⟨mb8ToUc, ucToMb8⟩

/-- `hawk_get_cmgr_by_id` -/
def cmgrById : CmgrId → Cmgr
  | .utf8 => utf8Cmgr utf8Table
  | .utf16 => utf16Cmgr false
  | .mb8 => mb8Cmgr

/-- `builtin_cmgr_tab[]` of utl-cmgr.c, in order -/
def cmgrNames : List (String × CmgrId) := [("utf8", .utf8), ("utf16", .utf16), ("mb8", .mb8)]

/-- `hawk_get_cmgr_by_bcstr` / `hawk_get_cmgr_by_ucstr`: first entry whose name is equal (case sensitive), else NULL -/
def cmgrByName (name : String) : Option CmgrId :=
  (cmgrNames.find? (fun e => e.1 == name)).map (·.2)

/-- the bytes of one character under a cmgr (buffer of HAWK_BCSIZE_MAX bytes); `[]` for an illegal character -/
def encodeC (cm : Cmgr) (c : Nat) : List UInt8 := ((cm.uctobc c bcsizeMax).bytes).getD []

def encodeAllC (cm : Cmgr) (cs : List Nat) : List UInt8 := cs.flatMap (encodeC cm)

/-! ## utl.c: hawk_conv_bchars_to_uchars_upto_stopper_with_cmgr -/

/-- result = (return code, bytes consumed `*bcslen`, characters stored); `wcap` = room in `ucs` -/
def convUpto (cm : Cmgr) (stopper : Nat) (wcap : Nat) (s : List UInt8) : Except Fault (Int × Nat × List Nat) :=
  if hs : s = [] then .ok (0, 0, [])                    -- blen == 0
  else
    match cm.bctouc s with
    | .error f => .error f
    | .ok (n, w) =>
      if h0 : n = 0 then .ok (-1, 0, [])                 -- invalid sequence
      else if h1 : n > s.length then .ok (-3, 0, [])     -- incomplete sequence
      else if wcap = 0 then .ok (0, 0, [])               -- ucs >= wend
      else if w = stopper then .ok (0, n, [w])
      else
        match convUpto cm stopper (wcap - 1) (s.drop n) with
        | .error f => .error f
        | .ok (x, m, out) => .ok (x, n + m, w :: out)
termination_by s.length
decreasing_by
  have : 0 < s.length := List.length_pos_iff.mpr hs
  simp only [List.length_drop]; omega

/-! ## utl.c: hawk_conv_bchars_to_uchars_with_cmgr (ucs ≠ NULL) -/

/-- `all = true`: every undecodable byte becomes '?' ; result = (return code, bytes consumed, characters) -/
def convBtoU (cm : Cmgr) (all : Bool) (wcap : Nat) (s : List UInt8) : Except Fault (Int × Nat × List Nat) :=
  if hs : s = [] then .ok (0, 0, [])
  else if wcap = 0 then .ok (-2, 0, [])                 -- buffer too small
  else
    match cm.bctouc s with
    | .error f => .error f
    | .ok (n, w) =>
      if n = 0 ∨ n > s.length then
        if all then
          match convBtoU cm all (wcap - 1) (s.drop 1) with
          | .error f => .error f
          | .ok (x, m, out) => .ok (x, 1 + m, 0x3F :: out)
        else .ok (if n = 0 then -1 else -3, 0, [])
      else
        match convBtoU cm all (wcap - 1) (s.drop n) with
        | .error f => .error f
        | .ok (x, m, out) => .ok (x, n + m, w :: out)
termination_by s.length
decreasing_by
  all_goals
    have : 0 < s.length := List.length_pos_iff.mpr hs
    simp only [List.length_drop]; omega

/-! ## utl.c: hawk_conv_uchars_to_bchars_with_cmgr (bcs ≠ NULL) -/

/-- result = (return code, characters consumed `*ucslen`, bytes stored); `rem` = room in `bcs`.
(With the unrepaired utf16 encoder the bytes of the refused character were stored all the same: not represented here,
see `ucToUtf16`.) -/
def convUtoB (cm : Cmgr) : List Nat → Nat → Int × Nat × List UInt8
  | [], _ => (0, 0, [])
  | c :: cs, rem =>
    if rem = 0 then (-2, 0, [])                          -- buffer too small
    else
      let e := cm.uctobc c rem
      if e.ret = 0 then (-1, 0, [])                      -- illegal character
      else if e.ret > rem then (-2, 0, [])               -- buffer too small
      else
        let r := convUtoB cm cs (rem - e.ret)
        (r.1, r.2.1 + 1, e.bytes.getD [] ++ r.2.2)

/-! ## the destination-less passes of the two loops (length queries) and the duplicating converters of lib/gem.c

`hawk_gem_dupbtoucharswithcmgr` / `hawk_gem_duputobcharswithcmgr` (behind every bytes ↔ text conversion of val.c: the
string / byte-string constructors, `hawk_rtx_valtoucstrdupwithcmgr`, `hawk_rtx_valtobcstrdupwithcmgr`, …) run the loop twice:
once without a destination to learn the length, then into a block of exactly that length. -/

/-- `hawk_conv_bchars_to_uchars_with_cmgr (bcs, &bcslen, NULL, &ucslen, cmgr, all)`: (return code, bytes consumed, characters counted) -/
def convBtoUCount (cm : Cmgr) (all : Bool) (s : List UInt8) : Except Fault (Int × Nat × Nat) :=
  if hs : s = [] then .ok (0, 0, 0)
  else
    match cm.bctouc s with
    | .error f => .error f
    | .ok (n, _) =>
      if n = 0 ∨ n > s.length then
        if all then
          match convBtoUCount cm all (s.drop 1) with
          | .error f => .error f
          | .ok (x, m, k) => .ok (x, 1 + m, k + 1)
        else .ok (if n = 0 then -1 else -3, 0, 0)
      else
        match convBtoUCount cm all (s.drop n) with
        | .error f => .error f
        | .ok (x, m, k) => .ok (x, n + m, k + 1)
termination_by s.length
decreasing_by
  all_goals
    have : 0 < s.length := List.length_pos_iff.mpr hs
    simp only [List.length_drop]; omega

/-- `hawk_conv_uchars_to_bchars_with_cmgr (ucs, &ucslen, NULL, &bcslen, cmgr)`: each character is encoded into a scratch
buffer of HAWK_BCSIZE_MAX bytes; (return code, characters consumed, bytes counted) -/
def convUtoBCount (cm : Cmgr) : List Nat → Int × Nat × Nat
  | [] => (0, 0, 0)
  | c :: cs =>
    let e := cm.uctobc c bcsizeMax
    if e.ret = 0 then (-1, 0, 0)                         -- illegal character
    else
      let r := convUtoBCount cm cs
      (r.1, r.2.1 + 1, r.2.2 + e.ret)

/-- what a duplicating converter hands back: the converted string, or the error it sets (the block is `len + 1` long) -/
inductive Dup (α : Type)
  | ok (v : List α)
  | eecerr                -- HAWK_EECERR: illegal / incomplete input
  | ebuffull              -- HAWK_EBUFFULL
  | overflow (v : List α) -- the second pass would not fit the block sized by the first (proved impossible)
deriving Repr, DecidableEq

/-- `hawk_gem_dupbtoucharswithcmgr (gem, bcs, len, &ucslen, cmgr, all)` -/
def dupBtoU (cm : Cmgr) (all : Bool) (s : List UInt8) : Except Fault (Dup Nat) :=
  match convBtoUCount cm all s with
  | .error f => .error f
  | .ok (x, _, k) =>
    if x ≤ -1 then .ok (if x = -2 then .ebuffull else .eecerr)
    else
      match convBtoU cm all k s with
      | .error f => .error f
      | .ok (x2, _, out) => .ok (if x2 = 0 ∧ out.length = k then .ok out else .overflow out)

/-- `hawk_gem_duputobcharswithcmgr (gem, ucs, len, &bcslen, cmgr)` -/
def dupUtoB (cm : Cmgr) (ws : List Nat) : Dup UInt8 :=
  let r := convUtoBCount cm ws
  if r.1 ≤ -1 then (if r.1 = -2 then .ebuffull else .eecerr)
  else
    let r2 := convUtoB cm ws r.2.2
    if r2.1 = 0 ∧ r2.2.2.length = r.2.2 then .ok r2.2.2 else .overflow r2.2.2

/-! ## utl.c: the null-terminated variants behind hawk_conv_<enc>_to_ucstr / hawk_conv_ucstr_to_<enc> -/

/-- `hawk_conv_bcstr_to_ucstr_with_cmgr (bcs, &bcslen, ucs, &ucslen, cmgr, all)` with `ucs ≠ NULL` and `wcap = *ucslen`:
`s` = the bytes up to the first NUL; (return code, bytes consumed, characters stored, terminating NUL stored) -/
def convBcstrToUcstr (cm : Cmgr) (all : Bool) (wcap : Nat) (s : List UInt8) : Except Fault (Int × Nat × List Nat × Bool) :=
  let z := s.takeWhile (· ≠ 0)
  match convBtoU cm all wcap z with
  | .error f => .error f
  | .ok (x, m, out) =>
    if out.length < wcap then .ok (x, m, out, true)      -- room for the terminator
    else .ok (-2, m, out, false)                          -- buffer too small

/-- `hawk_conv_ucstr_to_bcstr_with_cmgr (ucs, &ucslen, bcs, &bcslen, cmgr)` with `bcs ≠ NULL` and `rem = *bcslen` -/
def convUcstrToBcstr (cm : Cmgr) (rem : Nat) (ws : List Nat) : Int × Nat × List UInt8 × Bool :=
  let z := ws.takeWhile (· ≠ 0)
  let r := convUtoB cm z rem
  if r.2.2.length < rem then (r.1, r.2.1, r.2.2, true) else (-2, r.2.1, r.2.2, false)

end Hawk.Utf8
