import HawkModel.Gen.Utf8Table
/-!
# Model of lib/utf8.c and of the conversion loops of lib/utl.c (C15)

Characters (`hawk_uch_t`, an unsigned `uchBits`-bit type in the checked build) are `Nat`s; every
place where the C stores into a `hawk_uch_t` is an explicit `% uchMod`, every store into a
`hawk_bch_t` is `UInt8.ofNat` (= `% 256`).  Bytes are `UInt8`.  The bit operations are the real
ones (`&&&`, `|||`, `>>>`, `<<<` on `Nat`), not arithmetic paraphrases.

Every read of `utf8[i]` goes through `rd`, which reports `Fault.oobRead` when `i` is not below the
size the caller passed; `Props/C15.lean` proves the fault is never produced (`decode_in_bounds`).
The functions are parametrised by the table; the checked build's table is `Hawk.Gen.utf8Table`
(generated from the C source by extract/utf8_table.py).
-/
namespace Hawk.Utf8
open Hawk.Gen

/-- `2 ^ (8 * sizeof(hawk_uch_t))` -/
def uchMod : Nat := 2 ^ uchBits

inductive Fault
  | oobRead   -- the C would have read a byte at an index ≥ the size it was given
  | overlap   -- memcpy with overlapping source and destination (only in `legacy` mode of Tio)
  | hang      -- the C loop would not make progress (never produced for capacities the API accepts)
  | oobWrite  -- the C would have stored beyond a buffer
deriving Repr, DecidableEq

/-- bounds-checked `utf8[i]` for an object of `s.length` bytes -/
def rd (s : List UInt8) (i : Nat) : Except Fault Nat :=
  match s[i]? with
  | some b => .ok b.toNat
  | none => .error .oobRead

/-! ## get_utf8_slot -/
def getSlot : List Utf8Row → Nat → Option Utf8Row
  | [], _ => none
  | cur :: rest, uc => if cur.lower ≤ uc ∧ uc ≤ cur.upper then some cur else getSlot rest uc

/-! ## hawk_uc_to_utf8 -/

/-- the `while (index > 1) { utf8[--index] = (uc & 0x3F) | 0x80; uc >>= 6; }` loop; `k = index - 1`
iterations left; the bytes are produced from the last position backwards, so consing builds
`utf8[1 .. length)` in order.  Returns the remaining `uc` and those bytes. -/
def encTail : Nat → Nat → List UInt8 → Nat × List UInt8
  | 0, uc, acc => (uc, acc)
  | k + 1, uc, acc => encTail k (uc >>> 6) (UInt8.ofNat ((uc &&& 0x3F) ||| 0x80) :: acc)

structure EncOut where
  ret : Nat                      -- return value
  bytes : Option (List UInt8)    -- `some b`: b was stored to utf8[0 .. ret); `none`: nothing stored
deriving Repr, DecidableEq

/-- `hawk_uc_to_utf8 (uc, utf8, size)` with a non-null `utf8` -/
def ucToUtf8 (tbl : List Utf8Row) (uc size : Nat) : EncOut :=
  match getSlot tbl uc with
  | none => ⟨0, none⟩                                   -- illegal character
  | some cur =>
    if cur.length ≤ size then
      let r := encTail (cur.length - 1) uc []
      ⟨cur.length, some (UInt8.ofNat (r.1 ||| cur.fbyte) :: r.2)⟩
    else ⟨cur.length, none⟩                             -- small buffer: length > size returned

/-- the bytes of one character (buffer of HAWK_BCSIZE_MAX bytes); `[]` for an illegal character -/
def encode (tbl : List Utf8Row) (c : Nat) : List UInt8 :=
  ((ucToUtf8 tbl c bcsizeMax).bytes).getD []

def encodeAll (tbl : List Utf8Row) (cs : List Nat) : List UInt8 :=
  cs.flatMap (encode tbl)

/-! ## hawk_utf8_to_uc -/

/-- `for (i = …; i < cur->length; i++) { if ((utf8[i] & 0xC0) != 0x80) return 0; w = (w << 6) | (utf8[i] & 0x3F); }`
with `k` iterations left; `none` = the `return 0`. -/
def decCont (s : List UInt8) : Nat → Nat → Nat → Except Fault (Option Nat)
  | 0, _, w => .ok (some w)
  | k + 1, i, w =>
    match rd s i with
    | .error f => .error f
    | .ok b =>
      if b &&& 0xC0 ≠ 0x80 then .ok none
      else decCont s k (i + 1) (((w <<< 6) ||| (b &&& 0x3F)) % uchMod)

/-- the `while (cur < end)` loop of `hawk_utf8_to_uc (utf8, size, &uc)`; result = (return value, value stored
to `*uc`, 0 when nothing is stored).  `s` is the object `utf8` points to and `size = s.length`. -/
def utf8ToUcRows (s : List UInt8) : List Utf8Row → Except Fault (Nat × Nat)
  | [] => .ok (0, 0)                                    -- invalid sequence
  | cur :: rest =>
    match rd s 0 with
    | .error f => .error f
    | .ok b0 =>
      if b0 &&& cur.mask = cur.fbyte then
        if s.length ≥ cur.length then
          match decCont s (cur.length - 1) 1 ((b0 &&& cur.fmask) % uchMod) with
          | .error f => .error f
          | .ok none => .ok (0, 0)
          | .ok (some w) => .ok (cur.length, w)
        else .ok (cur.length, 0)                        -- incomplete: length > size returned
      else utf8ToUcRows s rest

def utf8ToUc (tbl : List Utf8Row) (s : List UInt8) : Except Fault (Nat × Nat) := utf8ToUcRows s tbl

/-- the caller's reading of the return value -/
inductive Dec
  | ok (c : Nat) (n : Nat)     -- a character of n bytes
  | incomplete (n : Nat)       -- n > size bytes would be needed
  | illegal
deriving Repr, DecidableEq

def classify (size : Nat) (r : Nat × Nat) : Dec :=
  if r.1 = 0 then .illegal else if r.1 > size then .incomplete r.1 else .ok r.2 r.1

def decode (tbl : List Utf8Row) (s : List UInt8) : Except Fault Dec :=
  match utf8ToUc tbl s with
  | .error f => .error f
  | .ok r => .ok (classify s.length r)

/-! ## utl.c: hawk_conv_bchars_to_uchars_upto_stopper_with_cmgr (utf8 cmgr) -/

/-- result = (return code, bytes consumed `*bcslen`, characters stored); `wcap` = room in `ucs` -/
def convUpto (tbl : List Utf8Row) (stopper : Nat) (wcap : Nat) (s : List UInt8) : Except Fault (Int × Nat × List Nat) :=
  if hs : s = [] then .ok (0, 0, [])                    -- blen == 0
  else
    match utf8ToUc tbl s with
    | .error f => .error f
    | .ok (n, w) =>
      if h0 : n = 0 then .ok (-1, 0, [])                 -- invalid sequence
      else if h1 : n > s.length then .ok (-3, 0, [])     -- incomplete sequence
      else if wcap = 0 then .ok (0, 0, [])               -- ucs >= wend
      else if w = stopper then .ok (0, n, [w])
      else
        match convUpto tbl stopper (wcap - 1) (s.drop n) with
        | .error f => .error f
        | .ok (x, m, out) => .ok (x, n + m, w :: out)
termination_by s.length
decreasing_by
  have : 0 < s.length := List.length_pos_iff.mpr hs
  simp only [List.length_drop]; omega

/-! ## utl.c: hawk_conv_bchars_to_uchars_with_cmgr (ucs ≠ NULL) -/

/-- `all = true`: every undecodable byte becomes '?' ; result = (return code, bytes consumed, characters) -/
def convBtoU (tbl : List Utf8Row) (all : Bool) (wcap : Nat) (s : List UInt8) : Except Fault (Int × Nat × List Nat) :=
  if hs : s = [] then .ok (0, 0, [])
  else if wcap = 0 then .ok (-2, 0, [])                 -- buffer too small
  else
    match utf8ToUc tbl s with
    | .error f => .error f
    | .ok (n, w) =>
      if n = 0 ∨ n > s.length then
        if all then
          match convBtoU tbl all (wcap - 1) (s.drop 1) with
          | .error f => .error f
          | .ok (x, m, out) => .ok (x, 1 + m, 0x3F :: out)
        else .ok (if n = 0 then -1 else -3, 0, [])
      else
        match convBtoU tbl all (wcap - 1) (s.drop n) with
        | .error f => .error f
        | .ok (x, m, out) => .ok (x, n + m, w :: out)
termination_by s.length
decreasing_by
  all_goals
    have : 0 < s.length := List.length_pos_iff.mpr hs
    simp only [List.length_drop]; omega

/-! ## utl.c: hawk_conv_uchars_to_bchars_with_cmgr (bcs ≠ NULL) -/

/-- result = (return code, characters consumed `*ucslen`, bytes stored); `rem` = room in `bcs` -/
def convUtoB (tbl : List Utf8Row) : List Nat → Nat → Int × Nat × List UInt8
  | [], _ => (0, 0, [])
  | c :: cs, rem =>
    if rem = 0 then (-2, 0, [])                          -- buffer too small
    else
      let e := ucToUtf8 tbl c rem
      if e.ret = 0 then (-1, 0, [])                      -- illegal character
      else if e.ret > rem then (-2, 0, [])               -- buffer too small
      else
        let r := convUtoB tbl cs (rem - e.ret)
        (r.1, r.2.1 + 1, e.bytes.getD [] ++ r.2.2)

end Hawk.Utf8
