import HawkModel.Rex
/-! helper lemmas for C06 (specification matcher) -/
namespace Hawk.Rex

/-! ### list-as-set helpers -/

theorem mem_addNew {acc : List Nat} {x y : Nat} : y ∈ addNew acc x ↔ y ∈ acc ∨ y = x := by
  unfold addNew
  split
  · rename_i h
    have hx : x ∈ acc := by simpa using h
    constructor
    · intro h; exact Or.inl h
    · rintro (h | h)
      · exact h
      · subst h; exact hx
  · simp

theorem mem_union {a b : List Nat} {y : Nat} : y ∈ union a b ↔ y ∈ a ∨ y ∈ b := by
  unfold union
  induction b generalizing a with
  | nil => simp
  | cons x b ih =>
    simp only [List.foldl_cons, ih, mem_addNew, List.mem_cons]
    constructor
    · rintro ((h | h) | h)
      · exact Or.inl h
      · exact Or.inr (Or.inl h)
      · exact Or.inr (Or.inr h)
    · rintro (h | h | h)
      · exact Or.inl (Or.inl h)
      · exact Or.inl (Or.inr h)
      · exact Or.inr h

theorem mem_stepAll_aux {step : Nat → List Nat} {l acc : List Nat} {y : Nat} :
    y ∈ l.foldl (fun acc x => union acc (step x)) acc ↔ y ∈ acc ∨ ∃ x, x ∈ l ∧ y ∈ step x := by
  induction l generalizing acc with
  | nil => simp
  | cons x l ih =>
    simp only [List.foldl_cons, ih, mem_union, List.mem_cons]
    constructor
    · rintro ((h | h) | ⟨z, hz, hy⟩)
      · exact Or.inl h
      · exact Or.inr ⟨x, Or.inl rfl, h⟩
      · exact Or.inr ⟨z, Or.inr hz, hy⟩
    · rintro (h | ⟨z, hz | hz, hy⟩)
      · exact Or.inl (Or.inl h)
      · subst hz; exact Or.inl (Or.inr hy)
      · exact Or.inr ⟨z, hz, hy⟩

theorem mem_stepAll {step : Nat → List Nat} {l : List Nat} {y : Nat} :
    y ∈ stepAll step l ↔ ∃ x, x ∈ l ∧ y ∈ step x := by
  unfold stepAll
  rw [mem_stepAll_aux]
  simp

/-! ### `Iter` / `IterN` -/

theorem Iter.mono {R R' : Nat → Nat → Prop} (h : ∀ a b, R a b → R' a b) {i j : Nat} :
    Iter R i j → Iter R' i j := by
  intro hi
  induction hi with
  | refl i => exact Iter.refl i
  | step hr _ ih => exact Iter.step (h _ _ hr) ih

theorem Iter.congr {R R' : Nat → Nat → Prop} (h : ∀ a b, R a b ↔ R' a b) {i j : Nat} :
    Iter R i j ↔ Iter R' i j :=
  ⟨Iter.mono fun a b => (h a b).1, Iter.mono fun a b => (h a b).2⟩

theorem IterN.congr {R R' : Nat → Nat → Prop} (h : ∀ a b, R a b ↔ R' a b) {n i j : Nat} :
    IterN R n i j ↔ IterN R' n i j := by
  induction n generalizing i with
  | zero => simp [IterN]
  | succ n ih =>
    simp only [IterN]
    constructor
    · rintro ⟨k, hk, hr⟩; exact ⟨k, (h _ _).1 hk, ih.1 hr⟩
    · rintro ⟨k, hk, hr⟩; exact ⟨k, (h _ _).2 hk, ih.2 hr⟩

theorem Iter.trans {R : Nat → Nat → Prop} {i k j : Nat} : Iter R i k → Iter R k j → Iter R i j := by
  intro h1 h2
  induction h1 with
  | refl _ => exact h2
  | step hr _ ih => exact Iter.step hr (ih h2)

theorem Iter.single {R : Nat → Nat → Prop} {i j : Nat} (h : R i j) : Iter R i j :=
  Iter.step h (Iter.refl j)

theorem IterN.toIter {R : Nat → Nat → Prop} {n i j : Nat} : IterN R n i j → Iter R i j := by
  induction n generalizing i with
  | zero => intro h; simp only [IterN] at h; subst h; exact Iter.refl _
  | succ n ih => rintro ⟨k, hk, hr⟩; exact Iter.step hk (ih hr)

theorem Iter.toIterN {R : Nat → Nat → Prop} {i j : Nat} : Iter R i j → ∃ n, IterN R n i j := by
  intro h
  induction h with
  | refl i => exact ⟨0, rfl⟩
  | step hr _ ih =>
    obtain ⟨n, hn⟩ := ih
    exact ⟨n + 1, _, hr, hn⟩

theorem IterN.le {R : Nat → Nat → Prop} (hm : ∀ a b, R a b → a ≤ b) {n i j : Nat} :
    IterN R n i j → i ≤ j := by
  induction n generalizing i with
  | zero => intro h; simp only [IterN] at h; omega
  | succ n ih => rintro ⟨k, hk, hr⟩; have := hm _ _ hk; have := ih hr; omega

theorem Iter.le {R : Nat → Nat → Prop} (hm : ∀ a b, R a b → a ≤ b) {i j : Nat} (h : Iter R i j) : i ≤ j := by
  induction h with
  | refl _ => exact Nat.le_refl _
  | step hr _ ih => have := hm _ _ hr; omega

theorem Iter.bound {R : Nat → Nat → Prop} {L : Nat} (hb : ∀ a b, R a b → b ≤ L) {i j : Nat}
    (h : Iter R i j) (hi : i ≤ L) : j ≤ L := by
  induction h with
  | refl _ => exact hi
  | step hr _ ih => exact ih (hb _ _ hr)

theorem IterN.bound {R : Nat → Nat → Prop} {L : Nat} (hb : ∀ a b, R a b → b ≤ L) {n i j : Nat}
    (h : IterN R n i j) (hi : i ≤ L) : j ≤ L :=
  Iter.bound hb (IterN.toIter h) hi

/-- self-loops can be dropped: a path between `i` and `j` needs at most `j - i` steps -/
theorem Iter.short {R : Nat → Nat → Prop} (hm : ∀ a b, R a b → a ≤ b) {i j : Nat} (h : Iter R i j) :
    ∃ n, n ≤ j - i ∧ IterN R n i j := by
  induction h with
  | refl i => exact ⟨0, Nat.zero_le _, rfl⟩
  | @step i k j hr hkj ih =>
    obtain ⟨n, hn, hp⟩ := ih
    have hik := hm _ _ hr
    have hkj' := IterN.le hm hp
    by_cases hk : k = i
    · subst hk; exact ⟨n, hn, hp⟩
    · exact ⟨n + 1, by omega, _, hr, hp⟩

theorem IterN.add {R : Nat → Nat → Prop} {a b i j : Nat} :
    IterN R (a + b) i j ↔ ∃ k, IterN R a i k ∧ IterN R b k j := by
  induction a generalizing i with
  | zero => simp [IterN]
  | succ a ih =>
    rw [Nat.succ_add]
    simp only [IterN, ih]
    constructor
    · rintro ⟨k, hk, k', h1, h2⟩; exact ⟨k', ⟨k, hk, h1⟩, h2⟩
    · rintro ⟨k', ⟨k, hk, h1⟩, h2⟩; exact ⟨k, hk, k', h1, h2⟩

/-! ### `closure`, `pow`, `upto` -/

/-- the step relation induced by a list-valued function -/
abbrev Rel (step : Nat → List Nat) : Nat → Nat → Prop := fun a b => b ∈ step a

theorem closure_sound {step : Nat → List Nat} {fuel : Nat} {acc : List Nat} {y : Nat} :
    y ∈ closure step fuel acc → ∃ x, x ∈ acc ∧ Iter (Rel step) x y := by
  induction fuel generalizing acc with
  | zero => intro h; exact ⟨y, h, Iter.refl _⟩
  | succ fuel ih =>
    intro h
    simp only [closure] at h
    split at h
    · exact ⟨y, h, Iter.refl _⟩
    · obtain ⟨x, hx, hxy⟩ := ih h
      rcases List.mem_append.1 hx with hx | hx
      · exact ⟨x, hx, hxy⟩
      · have hx' := (List.mem_filter.1 hx).1
        obtain ⟨z, hz, hzx⟩ := mem_stepAll.1 hx'
        exact ⟨z, hz, Iter.step hzx hxy⟩

theorem closure_complete {step : Nat → List Nat} {fuel : Nat} {acc : List Nat} {x y m : Nat}
    (hx : x ∈ acc) (hp : IterN (Rel step) m x y) (hm : m ≤ fuel) : y ∈ closure step fuel acc := by
  induction fuel generalizing acc x m with
  | zero =>
    have : m = 0 := by omega
    subst this
    simp only [IterN] at hp
    subst hp
    exact hx
  | succ fuel ih =>
    simp only [closure]
    split
    · -- fixed point: acc is closed under step
      rename_i hnil
      have hclosed : ∀ a, a ∈ acc → ∀ b, b ∈ step a → b ∈ acc := by
        intro a ha b hb
        have hb' : b ∈ stepAll step acc := mem_stepAll.2 ⟨a, ha, hb⟩
        by_cases hba : b ∈ acc
        · exact hba
        · have : b ∈ (stepAll step acc).filter fun k => !acc.contains k := by
            apply List.mem_filter.2
            refine ⟨hb', ?_⟩
            simpa using hba
          rw [List.isEmpty_iff.1 hnil] at this
          cases this
      clear hm
      induction m generalizing x with
      | zero => simp only [IterN] at hp; subst hp; exact hx
      | succ m ihm =>
        obtain ⟨k, hk, hr⟩ := hp
        exact ihm (hclosed _ hx _ hk) hr
    · cases m with
      | zero =>
        simp only [IterN] at hp
        subst hp
        exact ih (List.mem_append.2 (Or.inl hx)) (m := 0) rfl (Nat.zero_le _)
      | succ m =>
        obtain ⟨k, hk, hr⟩ := hp
        have hk' : k ∈ acc ++ (stepAll step acc).filter fun k => !acc.contains k := by
          by_cases hka : k ∈ acc
          · exact List.mem_append.2 (Or.inl hka)
          · apply List.mem_append.2
            right
            apply List.mem_filter.2
            exact ⟨mem_stepAll.2 ⟨x, hx, hk⟩, by simpa using hka⟩
        exact ih hk' hr (by omega)

theorem mem_pow {step : Nat → List Nat} {n : Nat} {l : List Nat} {y : Nat} :
    y ∈ pow step n l ↔ ∃ x, x ∈ l ∧ IterN (Rel step) n x y := by
  induction n generalizing l with
  | zero => simp [pow, IterN]
  | succ n ih =>
    simp only [pow, ih, mem_stepAll, IterN]
    constructor
    · rintro ⟨k, ⟨x, hx, hk⟩, hr⟩; exact ⟨x, hx, k, hk, hr⟩
    · rintro ⟨x, hx, k, hk, hr⟩; exact ⟨k, ⟨x, hx, hk⟩, hr⟩

theorem mem_upto {step : Nat → List Nat} {n : Nat} {l : List Nat} {y : Nat} :
    y ∈ upto step n l ↔ ∃ x, x ∈ l ∧ ∃ k, k ≤ n ∧ IterN (Rel step) k x y := by
  induction n generalizing l with
  | zero =>
    simp only [upto]
    constructor
    · intro h; exact ⟨y, h, 0, Nat.le_refl _, rfl⟩
    · rintro ⟨x, hx, k, hk, hr⟩
      have : k = 0 := by omega
      subst this
      simp only [IterN] at hr
      subst hr; exact hx
  | succ n ih =>
    simp only [upto, mem_union, ih, mem_stepAll]
    constructor
    · rintro (h | ⟨z, ⟨x, hx, hz⟩, k, hk, hr⟩)
      · exact ⟨y, h, 0, Nat.zero_le _, rfl⟩
      · exact ⟨x, hx, k + 1, by omega, z, hz, hr⟩
    · rintro ⟨x, hx, k, hk, hr⟩
      cases k with
      | zero => simp only [IterN] at hr; subst hr; exact Or.inl hx
      | succ k =>
        obtain ⟨z, hz, hr⟩ := hr
        exact Or.inr ⟨z, ⟨x, hx, hz⟩, k, by omega, hr⟩

/-! ### `maxOf` -/

theorem maxOf_eq_none {l : List Nat} : maxOf l = none ↔ l = [] := by
  cases l with
  | nil => simp [maxOf]
  | cons x l =>
    simp only [maxOf]
    split <;> simp

theorem maxOf_eq_some {l : List Nat} {m : Nat} : maxOf l = some m ↔ m ∈ l ∧ ∀ x, x ∈ l → x ≤ m := by
  induction l generalizing m with
  | nil => simp [maxOf]
  | cons a l ih =>
    simp only [maxOf]
    split
    · rename_i hn
      have hl := maxOf_eq_none.1 hn
      subst hl
      simp only [Option.some.injEq, List.mem_cons, List.not_mem_nil, or_false]
      constructor
      · intro h; subst h; exact ⟨rfl, fun x hx => by omega⟩
      · rintro ⟨h, _⟩; exact h.symm
    · rename_i m' hm'
      obtain ⟨hmem, hmax⟩ := ih.1 hm'
      simp only [Option.some.injEq, List.mem_cons]
      constructor
      · intro h
        subst h
        refine ⟨?_, ?_⟩
        · by_cases hc : a ≤ m'
          · right; rw [Nat.max_eq_right hc]; exact hmem
          · left; rw [Nat.max_eq_left (by omega)]
        · rintro x (hx | hx)
          · subst hx; exact Nat.le_max_left _ _
          · exact Nat.le_trans (hmax x hx) (Nat.le_max_right _ _)
      · rintro ⟨hmm, hall⟩
        have h1 : a ≤ m := hall a (Or.inl rfl)
        have h2 : m' ≤ m := hall m' (Or.inr hmem)
        rcases hmm with hmm | hmm
        · subst hmm; exact Nat.max_eq_left h2
        · have := hmax m hmm
          have : m = m' := by omega
          subst this; exact Nat.max_eq_right h1

/-! ### positions stay ordered and inside the subject -/

theorem Matches.bounds {f : Flags} {s : List Char} {r : Re} {i j : Nat} :
    Matches f s r i j → i ≤ j ∧ j ≤ s.length := by
  induction r generalizing i j with
  | emp => intro h; simp only [Matches] at h; omega
  | chr c =>
    rintro ⟨hj, d, hd, _⟩
    have := (List.getElem?_eq_some_iff.1 hd).1
    omega
  | any => intro h; simp only [Matches] at h; omega
  | cls neg items =>
    rintro ⟨hj, d, hd, _⟩
    have := (List.getElem?_eq_some_iff.1 hd).1
    omega
  | bol => intro h; simp only [Matches] at h; omega
  | eol => intro h; simp only [Matches] at h; omega
  | wordb k => intro h; simp only [Matches] at h; omega
  | cat a b iha ihb =>
    rintro ⟨k, h1, h2⟩
    have := iha h1; have := ihb h2; omega
  | alt a b iha ihb =>
    rintro (h | h)
    · exact iha h
    · exact ihb h
  | star a ih =>
    rintro ⟨hi, h⟩
    exact ⟨Iter.le (fun _ _ h => (ih h).1) h, Iter.bound (fun _ _ h => (ih h).2) h hi⟩
  | plus a ih =>
    rintro ⟨k, h1, h2⟩
    have := ih h1
    have := Iter.le (fun _ _ h => (ih h).1) h2
    have := Iter.bound (fun _ _ h => (ih h).2) h2 (by omega)
    omega
  | opt a ih =>
    rintro (h | h)
    · omega
    · exact ih h
  | rep a m n ih =>
    rintro ⟨hi, k, _, _, h⟩
    exact ⟨IterN.le (fun _ _ h => (ih h).1) h, IterN.bound (fun _ _ h => (ih h).2) h hi⟩
  | grp a ih => intro h; exact ih h

/-! ### `ends` computes exactly the denotation -/

theorem closure_iff {f : Flags} {s : List Char} {a : Re}
    (ih : ∀ i j, j ∈ ends f s a i ↔ Matches f s a i j) {acc : List Nat} {y : Nat}
    (hacc : ∀ x, x ∈ acc → x ≤ s.length) :
    y ∈ closure (ends f s a) (s.length + 1) acc ↔ ∃ x, x ∈ acc ∧ Iter (Matches f s a) x y := by
  have hrel : ∀ p q, Rel (ends f s a) p q ↔ Matches f s a p q := fun p q => ih p q
  constructor
  · intro h
    obtain ⟨x, hx, hxy⟩ := closure_sound h
    exact ⟨x, hx, (Iter.congr hrel).1 hxy⟩
  · rintro ⟨x, hx, hxy⟩
    obtain ⟨n, hn, hp⟩ := Iter.short (fun _ _ h => (Matches.bounds h).1) hxy
    have hy := Iter.bound (fun _ _ h => (Matches.bounds h).2) hxy (hacc x hx)
    exact closure_complete hx ((IterN.congr hrel).2 hp) (by omega)

theorem mem_ends {f : Flags} {s : List Char} {r : Re} {i j : Nat} :
    j ∈ ends f s r i ↔ Matches f s r i j := by
  induction r generalizing i j with
  | emp =>
    simp only [ends, Matches]
    split <;> simp <;> omega
  | chr c =>
    simp only [ends, Matches]
    split
    · rename_i d hd
      split
      · rename_i hc; simp [hd, hc]
      · rename_i hc; simp [hd, hc]
    · rename_i hd; simp [hd]
  | any =>
    simp only [ends, Matches]
    split <;> simp <;> omega
  | cls neg items =>
    simp only [ends, Matches]
    split
    · rename_i d hd
      split
      · rename_i hc; simp [hd, hc]
      · rename_i hc; simp [hd, hc]
    · rename_i hd; simp [hd]
  | bol =>
    simp only [ends, Matches]
    split
    · rename_i h
      constructor
      · intro hj
        have hj' : j = i := by simpa using hj
        exact ⟨hj'.symm, h.1, h.2⟩
      · rintro ⟨h1, _, _⟩
        simp [h1]
    · rename_i h
      constructor
      · intro hj; cases hj
      · rintro ⟨_, h2, h3⟩; exact absurd ⟨h2, h3⟩ h
  | eol =>
    simp only [ends, Matches]
    split
    · rename_i h
      constructor
      · intro hj
        have hj' : j = i := by simpa using hj
        exact ⟨hj'.symm, h.1, h.2⟩
      · rintro ⟨h1, _, _⟩
        simp [h1]
    · rename_i h
      constructor
      · intro hj; cases hj
      · rintro ⟨_, h2, h3⟩; exact absurd ⟨h2, h3⟩ h
  | wordb k =>
    simp only [ends, Matches]
    split
    · rename_i h
      constructor
      · intro hj
        have hj' : j = i := by simpa using hj
        exact ⟨hj'.symm, h.1, h.2⟩
      · rintro ⟨h1, _, _⟩
        simp [h1]
    · rename_i h
      constructor
      · intro hj; cases hj
      · rintro ⟨_, h2, h3⟩; exact absurd ⟨h2, h3⟩ h
  | cat a b iha ihb =>
    simp only [ends, Matches, mem_stepAll, iha, ihb]
  | alt a b iha ihb =>
    simp only [ends, Matches, mem_union, iha, ihb]
  | star a ih =>
    simp only [ends, Matches]
    split
    · rename_i hi
      rw [closure_iff (fun _ _ => ih) (by intro x hx; simp at hx; omega)]
      simp [hi]
    · rename_i hi; simp [hi]
  | plus a ih =>
    simp only [ends, Matches]
    rw [closure_iff (fun _ _ => ih) (by intro x hx; exact (Matches.bounds (ih.1 hx)).2)]
    simp only [ih]
  | opt a ih =>
    simp only [ends, Matches, mem_union, ih]
    split
    · rename_i hi; simp [hi]; constructor
      · rintro (h | h)
        · exact Or.inl h.symm
        · exact Or.inr h
      · rintro (h | h)
        · exact Or.inl h.symm
        · exact Or.inr h
    · rename_i hi; simp [hi]
  | rep a m n ih =>
    have hrel : ∀ p q, Rel (ends f s a) p q ↔ Matches f s a p q := fun p q => ih
    simp only [ends, Matches]
    split
    · rename_i hi
      cases n with
      | none =>
        simp only []
        rw [closure_iff (fun _ _ => ih) (by
          intro x hx
          obtain ⟨z, hz, hp⟩ := mem_pow.1 hx
          simp at hz; subst hz
          exact IterN.bound (fun _ _ h => (Matches.bounds h).2) ((IterN.congr hrel).1 hp) hi)]
        constructor
        · rintro ⟨x, hx, hxy⟩
          obtain ⟨z, hz, hp⟩ := mem_pow.1 hx
          simp at hz; subst hz
          obtain ⟨n2, hn2⟩ := Iter.toIterN hxy
          exact ⟨hi, m + n2, by omega, by simp, IterN.add.2 ⟨x, (IterN.congr hrel).1 hp, hn2⟩⟩
        · rintro ⟨_, k, hk, _, hp⟩
          obtain ⟨d, rfl⟩ : ∃ d, k = m + d := ⟨k - m, by omega⟩
          obtain ⟨x, h1, h2⟩ := IterN.add.1 hp
          exact ⟨x, mem_pow.2 ⟨i, by simp, (IterN.congr hrel).2 h1⟩, IterN.toIter h2⟩
      | some n' =>
        simp only []
        split
        · rename_i hmn
          rw [mem_upto]
          constructor
          · rintro ⟨x, hx, k, hk, hp⟩
            obtain ⟨z, hz, hp0⟩ := mem_pow.1 hx
            simp at hz; subst hz
            refine ⟨hi, m + k, by omega, ?_, IterN.add.2 ⟨x, (IterN.congr hrel).1 hp0, (IterN.congr hrel).1 hp⟩⟩
            intro n'' h; cases h; omega
          · rintro ⟨_, k, hk, hkn, hp⟩
            have hkn' := hkn n' rfl
            obtain ⟨d, rfl⟩ : ∃ d, k = m + d := ⟨k - m, by omega⟩
            obtain ⟨x, h1, h2⟩ := IterN.add.1 hp
            exact ⟨x, mem_pow.2 ⟨i, by simp, (IterN.congr hrel).2 h1⟩, d, by omega, (IterN.congr hrel).2 h2⟩
        · rename_i hmn
          simp only [List.not_mem_nil, false_iff]
          rintro ⟨_, k, hk, hkn, _⟩
          have := hkn n' rfl
          omega
    · rename_i hi; simp [hi]
  | grp a ih => simp only [ends, Matches, ih]

/-! ### `search` -/

theorem search_none {f : Flags} {s : List Char} {r : Re} {todo i : Nat} :
    search f s r todo i = none ↔ ∀ p, i ≤ p → p < i + todo → ∀ e, ¬ Matches f s r p e := by
  induction todo generalizing i with
  | zero => simp only [search, true_iff]; intro p h1 h2; omega
  | succ todo ih =>
    simp only [search]
    split
    · rename_i e he
      simp only [reduceCtorEq, false_iff]
      intro h
      exact h i (Nat.le_refl _) (by omega) e (mem_ends.1 (maxOf_eq_some.1 he).1)
    · rename_i he
      have hnil := maxOf_eq_none.1 he
      rw [ih]
      constructor
      · intro h p h1 h2 e
        by_cases hp : p = i
        · subst hp; intro hm; have := mem_ends.2 hm; rw [hnil] at this; cases this
        · exact h p (by omega) (by omega) e
      · intro h p h1 h2 e
        exact h p (by omega) (by omega) e

theorem search_some {f : Flags} {s : List Char} {r : Re} {todo i st len : Nat} :
    search f s r todo i = some (st, len) ↔
      i ≤ st ∧ st < i + todo ∧ Matches f s r st (st + len) ∧
      (∀ p, i ≤ p → p < st → ∀ e, ¬ Matches f s r p e) ∧
      (∀ e, Matches f s r st e → e ≤ st + len) := by
  induction todo generalizing i with
  | zero => simp only [search, reduceCtorEq, false_iff]; omega
  | succ todo ih =>
    simp only [search]
    split
    · rename_i e he
      obtain ⟨hmem, hmax⟩ := maxOf_eq_some.1 he
      have hme := mem_ends.1 hmem
      have hie := (Matches.bounds hme).1
      simp only [Option.some.injEq, Prod.mk.injEq]
      constructor
      · rintro ⟨rfl, rfl⟩
        refine ⟨Nat.le_refl _, by omega, ?_, ?_, ?_⟩
        · rw [show i + (e - i) = e by omega]; exact hme
        · intro p h1 h2; omega
        · intro e' he'; have := hmax e' (mem_ends.2 he'); omega
      · rintro ⟨h1, h2, h3, h4, h5⟩
        have hst : st = i := by
          by_cases hlt : i < st
          · exact absurd hme (h4 i (Nat.le_refl _) hlt e)
          · omega
        subst hst
        refine ⟨rfl, ?_⟩
        have := h5 e hme
        have := hmax _ (mem_ends.2 h3)
        omega
    · rename_i he
      have hnil := maxOf_eq_none.1 he
      have hno : ∀ e, ¬ Matches f s r i e := by
        intro e hm; have := mem_ends.2 hm; rw [hnil] at this; cases this
      rw [ih]
      constructor
      · rintro ⟨h1, h2, h3, h4, h5⟩
        refine ⟨by omega, by omega, h3, ?_, h5⟩
        intro p hp1 hp2 e
        by_cases hp : p = i
        · subst hp; exact hno e
        · exact h4 p (by omega) hp2 e
      · rintro ⟨h1, h2, h3, h4, h5⟩
        have : st ≠ i := by intro h; subst h; exact hno _ h3
        exact ⟨by omega, by omega, h3, fun p hp1 hp2 e => h4 p (by omega) hp2 e, h5⟩

/-! ### `matchLL` -/

theorem matchLL_some {f : Flags} {r : Re} {s : List Char} {st len : Nat} :
    matchLL f r s = some (st, len) ↔ IsLL f s r st len := by
  unfold matchLL IsLL
  rw [search_some]
  constructor
  · rintro ⟨_, _, h3, h4, h5⟩
    exact ⟨h3, fun p e hp => h4 p (Nat.zero_le _) hp e, h5⟩
  · rintro ⟨h3, h4, h5⟩
    have := Matches.bounds h3
    exact ⟨Nat.zero_le _, by omega, h3, fun p _ hp e => h4 p e hp, h5⟩

theorem matchLL_none {f : Flags} {r : Re} {s : List Char} :
    matchLL f r s = none ↔ ∀ i e, ¬ Matches f s r i e := by
  unfold matchLL
  rw [search_none]
  constructor
  · intro h i e hm
    have := Matches.bounds hm
    exact h i (Nat.zero_le _) (by omega) e hm
  · intro h p _ _ e
    exact h p e

theorem IsLL.unique {f : Flags} {s : List Char} {r : Re} {a b a' b' : Nat}
    (h : IsLL f s r a b) (h' : IsLL f s r a' b') : a = a' ∧ b = b' := by
  obtain ⟨h1, h2, h3⟩ := h
  obtain ⟨h1', h2', h3'⟩ := h'
  have ha : a = a' := by
    by_cases hlt : a < a'
    · exact absurd h1 (h2' a _ hlt)
    · by_cases hgt : a' < a
      · exact absurd h1' (h2 a' _ hgt)
      · omega
  subst ha
  have := h3 _ h1'
  have := h3' _ h1
  exact ⟨rfl, by omega⟩

/-- `matchLL` depends on pattern, flags and subject only through the `Matches` relation -/
theorem matchLL_congr {f f' : Flags} {r r' : Re} {s s' : List Char}
    (h : ∀ i j, Matches f s r i j ↔ Matches f' s' r' i j) : matchLL f r s = matchLL f' r' s' := by
  cases hx : matchLL f r s with
  | none =>
    symm
    rw [matchLL_none]
    intro i e
    rw [← h]
    exact matchLL_none.1 hx i e
  | some p =>
    obtain ⟨st, len⟩ := p
    symm
    rw [matchLL_some]
    have := matchLL_some.1 hx
    unfold IsLL at this ⊢
    simpa only [← h] using this

/-! ### IGNORECASE = fold pattern and subject -/

theorem itemHas_fold {it : ClsItem} (h : itemNoRange it = true) (d : Char) :
    itemHas true it d = itemHas false (foldItem it) (fold d) := by
  cases it with
  | chr c => simp [itemHas, foldItem, chrEq]
  | range lo hi => simp [itemNoRange] at h
  | named k => simp [itemNoRange] at h

theorem clsHas_fold {neg : Bool} {items : List ClsItem} (h : items.all itemNoRange = true) (d : Char) :
    clsHas true neg items d = clsHas false neg (items.map foldItem) (fold d) := by
  unfold clsHas
  congr 1
  induction items with
  | nil => rfl
  | cons it items ih =>
    simp only [List.all_cons, Bool.and_eq_true] at h
    simp only [List.any_cons, List.map_cons, ih h.2, itemHas_fold h.1]

theorem matches_icase_fold {nb ne : Bool} {s : List Char} {r : Re} (h : noRange r = true) {i j : Nat} :
    Matches ⟨true, nb, ne⟩ s r i j ↔ Matches ⟨false, nb, ne⟩ (s.map fold) (foldRe r) i j := by
  induction r generalizing i j with
  | emp => simp [Matches, foldRe]
  | chr c =>
    simp only [Matches, foldRe, List.getElem?_map, chrEq]
    constructor
    · rintro ⟨hj, d, hd, hc⟩
      exact ⟨hj, fold d, by simp [hd], by simpa using hc⟩
    · rintro ⟨hj, d, hd, hc⟩
      cases hs : s[i]? with
      | none => simp [hs] at hd
      | some d0 =>
        simp [hs] at hd
        subst hd
        exact ⟨hj, d0, rfl, by simpa using hc⟩
  | any => simp [Matches, foldRe]
  | cls neg items =>
    simp only [noRange] at h
    simp only [Matches, foldRe, List.getElem?_map]
    constructor
    · rintro ⟨hj, d, hd, hc⟩
      exact ⟨hj, fold d, by simp [hd], by rw [← clsHas_fold h]; exact hc⟩
    · rintro ⟨hj, d, hd, hc⟩
      cases hs : s[i]? with
      | none => simp [hs] at hd
      | some d0 =>
        simp [hs] at hd
        subst hd
        exact ⟨hj, d0, rfl, by rw [clsHas_fold h]; exact hc⟩
  | bol => simp [Matches, foldRe]
  | eol => simp [Matches, foldRe]
  | wordb k => simp [noRange] at h
  | cat a b iha ihb =>
    simp only [noRange, Bool.and_eq_true] at h
    simp only [Matches, foldRe, iha h.1, ihb h.2]
  | alt a b iha ihb =>
    simp only [noRange, Bool.and_eq_true] at h
    simp only [Matches, foldRe, iha h.1, ihb h.2]
  | star a ih =>
    simp only [noRange] at h
    simp only [Matches, foldRe, List.length_map]
    rw [Iter.congr (fun p q => ih h)]
  | plus a ih =>
    simp only [noRange] at h
    simp only [Matches, foldRe]
    constructor
    · rintro ⟨k, h1, h2⟩; exact ⟨k, (ih h).1 h1, (Iter.congr (fun p q => ih h)).1 h2⟩
    · rintro ⟨k, h1, h2⟩; exact ⟨k, (ih h).2 h1, (Iter.congr (fun p q => ih h)).2 h2⟩
  | opt a ih =>
    simp only [noRange] at h
    simp only [Matches, foldRe, List.length_map, ih h]
  | rep a m n ih =>
    simp only [noRange] at h
    simp only [Matches, foldRe, List.length_map]
    constructor
    · rintro ⟨hi, k, h1, h2, h3⟩; exact ⟨hi, k, h1, h2, (IterN.congr (fun p q => ih h)).1 h3⟩
    · rintro ⟨hi, k, h1, h2, h3⟩; exact ⟨hi, k, h1, h2, (IterN.congr (fun p q => ih h)).2 h3⟩
  | grp a ih =>
    simp only [noRange] at h
    simp only [Matches, foldRe, ih h]

/-! ### NOTBOL = matching inside a suffix of a longer subject -/

theorem Iter.shift {R R' : Nat → Nat → Prop} {o : Nat} (h : ∀ p q, R p q ↔ R' (o + p) (o + q))
    (hm : ∀ p q, R' p q → p ≤ q) {i j : Nat} : Iter R i j ↔ Iter R' (o + i) (o + j) := by
  constructor
  · intro hi
    induction hi with
    | refl _ => exact Iter.refl _
    | step hr _ ih => exact Iter.step ((h _ _).1 hr) ih
  · intro hi
    have key : ∀ x y, Iter R' x y → ∀ i, x = o + i → ∃ j, y = o + j ∧ Iter R i j := by
      intro x y hxy
      induction hxy with
      | refl x => intro i hx; exact ⟨i, hx, Iter.refl _⟩
      | @step x k y hr _ ih =>
        intro i hx
        have hle := hm _ _ hr
        obtain ⟨k', rfl⟩ : ∃ k', k = o + k' := ⟨k - o, by omega⟩
        obtain ⟨j, hj, hkj⟩ := ih k' rfl
        subst hx
        exact ⟨j, hj, Iter.step ((h _ _).2 hr) hkj⟩
    obtain ⟨j', hj', hij⟩ := key _ _ hi i rfl
    have : j = j' := by omega
    subst this
    exact hij

theorem IterN.shift {R R' : Nat → Nat → Prop} {o : Nat} (h : ∀ p q, R p q ↔ R' (o + p) (o + q))
    (hm : ∀ p q, R' p q → p ≤ q) {n i j : Nat} : IterN R n i j ↔ IterN R' n (o + i) (o + j) := by
  induction n generalizing i with
  | zero => simp only [IterN]; omega
  | succ n ih =>
    simp only [IterN]
    constructor
    · rintro ⟨k, hk, hr⟩; exact ⟨o + k, (h _ _).1 hk, ih.1 hr⟩
    · rintro ⟨k, hk, hr⟩
      have hle := hm _ _ hk
      obtain ⟨k', rfl⟩ : ∃ k', k = o + k' := ⟨k - o, by omega⟩
      exact ⟨k', (h _ _).2 hk, ih.2 hr⟩

theorem matches_drop {ic ne : Bool} {s : List Char} {o : Nat} (ho : 0 < o) (hol : o ≤ s.length) {r : Re}
    (hw : noWordB r = true)
    {i j : Nat} : Matches ⟨ic, true, ne⟩ (s.drop o) r i j ↔ Matches ⟨ic, false, ne⟩ s r (o + i) (o + j) := by
  have hmono : ∀ (a : Re) p q, Matches ⟨ic, false, ne⟩ s a p q → p ≤ q := fun a p q h => (Matches.bounds h).1
  induction r generalizing i j with
  | emp => simp only [Matches, List.length_drop]; omega
  | chr c =>
    simp only [Matches, List.getElem?_drop]
    constructor
    · rintro ⟨hj, h⟩; exact ⟨by omega, h⟩
    · rintro ⟨hj, h⟩; exact ⟨by omega, h⟩
  | any => simp only [Matches, List.length_drop]; omega
  | cls neg items =>
    simp only [Matches, List.getElem?_drop]
    constructor
    · rintro ⟨hj, h⟩; exact ⟨by omega, h⟩
    · rintro ⟨hj, h⟩; exact ⟨by omega, h⟩
  | bol =>
    simp only [Matches]
    constructor
    · rintro ⟨_, _, h⟩; cases h
    · rintro ⟨_, h, _⟩; omega
  | eol =>
    simp only [Matches, List.length_drop]
    constructor
    · rintro ⟨h1, h2, h3⟩; exact ⟨by omega, by omega, h3⟩
    · rintro ⟨h1, h2, h3⟩; exact ⟨by omega, by omega, h3⟩
  | wordb k => simp [noWordB] at hw
  | cat a b iha ihb =>
    simp only [noWordB, Bool.and_eq_true] at hw
    simp only [Matches]
    constructor
    · rintro ⟨k, h1, h2⟩; exact ⟨o + k, (iha hw.1).1 h1, (ihb hw.2).1 h2⟩
    · rintro ⟨k, h1, h2⟩
      have := hmono a _ _ h1
      obtain ⟨k', rfl⟩ : ∃ k', k = o + k' := ⟨k - o, by omega⟩
      exact ⟨k', (iha hw.1).2 h1, (ihb hw.2).2 h2⟩
  | alt a b iha ihb =>
    simp only [noWordB, Bool.and_eq_true] at hw
    simp only [Matches, iha hw.1, ihb hw.2]
  | star a ih =>
    simp only [noWordB] at hw
    simp only [Matches, List.length_drop]
    rw [Iter.shift (fun p q => ih hw) (hmono a)]
    constructor
    · rintro ⟨h1, h2⟩; exact ⟨by omega, h2⟩
    · rintro ⟨h1, h2⟩; exact ⟨by omega, h2⟩
  | plus a ih =>
    simp only [noWordB] at hw
    simp only [Matches]
    constructor
    · rintro ⟨k, h1, h2⟩; exact ⟨o + k, (ih hw).1 h1, (Iter.shift (fun p q => ih hw) (hmono a)).1 h2⟩
    · rintro ⟨k, h1, h2⟩
      have := hmono a _ _ h1
      obtain ⟨k', rfl⟩ : ∃ k', k = o + k' := ⟨k - o, by omega⟩
      exact ⟨k', (ih hw).2 h1, (Iter.shift (fun p q => ih hw) (hmono a)).2 h2⟩
  | opt a ih =>
    simp only [noWordB] at hw
    simp only [Matches, List.length_drop, ih hw]
    constructor
    · rintro (h | h)
      · exact Or.inl (by omega)
      · exact Or.inr h
    · rintro (h | h)
      · exact Or.inl (by omega)
      · exact Or.inr h
  | rep a m n ih =>
    simp only [noWordB] at hw
    simp only [Matches, List.length_drop]
    constructor
    · rintro ⟨hi, k, h1, h2, h3⟩
      exact ⟨by omega, k, h1, h2, (IterN.shift (fun p q => ih hw) (hmono a)).1 h3⟩
    · rintro ⟨hi, k, h1, h2, h3⟩
      exact ⟨by omega, k, h1, h2, (IterN.shift (fun p q => ih hw) (hmono a)).2 h3⟩
  | grp a ih =>
    simp only [noWordB] at hw
    simp only [Matches, ih hw]

/-- NOTBOL is irrelevant for a pattern without `^` -/
theorem matches_noBol {ic nb nb' ne : Bool} {s : List Char} {r : Re} (h : noBol r = true) {i j : Nat} :
    Matches ⟨ic, nb, ne⟩ s r i j ↔ Matches ⟨ic, nb', ne⟩ s r i j := by
  induction r generalizing i j with
  | emp => simp [Matches]
  | chr c => simp [Matches]
  | any => simp [Matches]
  | cls neg items => simp [Matches]
  | bol => simp [noBol] at h
  | eol => simp [Matches]
  | wordb k => simp [Matches]
  | cat a b iha ihb =>
    simp only [noBol, Bool.and_eq_true] at h
    simp only [Matches, iha h.1, ihb h.2]
  | alt a b iha ihb =>
    simp only [noBol, Bool.and_eq_true] at h
    simp only [Matches, iha h.1, ihb h.2]
  | star a ih =>
    simp only [noBol] at h
    simp only [Matches]
    rw [Iter.congr (fun p q => ih h)]
  | plus a ih =>
    simp only [noBol] at h
    simp only [Matches]
    constructor
    · rintro ⟨k, h1, h2⟩; exact ⟨k, (ih h).1 h1, (Iter.congr (fun p q => ih h)).1 h2⟩
    · rintro ⟨k, h1, h2⟩; exact ⟨k, (ih h).2 h1, (Iter.congr (fun p q => ih h)).2 h2⟩
  | opt a ih =>
    simp only [noBol] at h
    simp only [Matches, ih h]
  | rep a m n ih =>
    simp only [noBol] at h
    simp only [Matches]
    constructor
    · rintro ⟨hi, k, h1, h2, h3⟩; exact ⟨hi, k, h1, h2, (IterN.congr (fun p q => ih h)).1 h3⟩
    · rintro ⟨hi, k, h1, h2, h3⟩; exact ⟨hi, k, h1, h2, (IterN.congr (fun p q => ih h)).2 h3⟩
  | grp a ih =>
    simp only [noBol] at h
    simp only [Matches, ih h]

/-- NOTEOL is irrelevant for a pattern without `$` -/
theorem matches_noEol {ic nb ne ne' : Bool} {s : List Char} {r : Re} (h : noEol r = true) {i j : Nat} :
    Matches ⟨ic, nb, ne⟩ s r i j ↔ Matches ⟨ic, nb, ne'⟩ s r i j := by
  induction r generalizing i j with
  | emp => simp [Matches]
  | chr c => simp [Matches]
  | any => simp [Matches]
  | cls neg items => simp [Matches]
  | bol => simp [Matches]
  | eol => simp [noEol] at h
  | wordb k => simp [Matches]
  | cat a b iha ihb =>
    simp only [noEol, Bool.and_eq_true] at h
    simp only [Matches, iha h.1, ihb h.2]
  | alt a b iha ihb =>
    simp only [noEol, Bool.and_eq_true] at h
    simp only [Matches, iha h.1, ihb h.2]
  | star a ih =>
    simp only [noEol] at h
    simp only [Matches]
    rw [Iter.congr (fun p q => ih h)]
  | plus a ih =>
    simp only [noEol] at h
    simp only [Matches]
    constructor
    · rintro ⟨k, h1, h2⟩; exact ⟨k, (ih h).1 h1, (Iter.congr (fun p q => ih h)).1 h2⟩
    · rintro ⟨k, h1, h2⟩; exact ⟨k, (ih h).2 h1, (Iter.congr (fun p q => ih h)).2 h2⟩
  | opt a ih =>
    simp only [noEol] at h
    simp only [Matches, ih h]
  | rep a m n ih =>
    simp only [noEol] at h
    simp only [Matches]
    constructor
    · rintro ⟨hi, k, h1, h2, h3⟩; exact ⟨hi, k, h1, h2, (IterN.congr (fun p q => ih h)).1 h3⟩
    · rintro ⟨hi, k, h1, h2, h3⟩; exact ⟨hi, k, h1, h2, (IterN.congr (fun p q => ih h)).2 h3⟩
  | grp a ih =>
    simp only [noEol] at h
    simp only [Matches, ih h]

end Hawk.Rex
