import HawkModel.Ctx
/-! helper lemmas for C09 (context isolation, stack discipline, reference counting) -/
namespace Hawk.Ctx

/-! ## the call-site cache is determined by the program -/

/-- every cached pointer is what a search of the function table returns for that call site's name -/
def Consistent (p : Prog) (k : Cache) : Prop :=
  ∀ s fid, k s = some fid → p.lookup (p.siteName s) = some fid

theorem consistent_empty (p : Prog) : Consistent p Cache.empty := by
  intro s fid h; simp [Cache.empty] at h

theorem resolve_snd {p : Prog} {k : Cache} (h : Consistent p k) (s : Nat) :
    (resolve p k s).2 = p.lookup (p.siteName s) := by
  unfold resolve
  cases hk : k s with
  | some fid => simp [h s fid hk]
  | none =>
    cases hl : p.lookup (p.siteName s) <;> simp

theorem resolve_consistent {p : Prog} {k : Cache} (h : Consistent p k) (s : Nat) :
    Consistent p (resolve p k s).1 := by
  unfold resolve
  cases hk : k s with
  | some fid => simpa using h
  | none =>
    cases hl : p.lookup (p.siteName s) with
    | none => simpa using h
    | some fid =>
      intro s' fid' h'
      simp only [Cache.set] at h'
      split at h'
      · next heq => cases h'; rw [heq]; exact hl
      · exact h s' fid' h'

/-! ## a cache-free evaluator; `runBody` computes the same thing whatever (consistent) cache it is given -/

def runPure (p : Prog) (avail : Nat) (c : Ctx) : List Action → Bool × Ctx
  | [] => (true, c)
  | a :: rest =>
    if c.exitLevel ≠ xlNone then (true, c)
    else
      match a with
      | .call dst site args =>
        match p.funOf (p.lookup (p.siteName site)) with
        | none => (false, c.setErr .efunnf)
        | some f =>
          if f.nargs < args.length then (false, c.setErr .eargtm)
          else if _h : avail < stackReq f args.length then (false, c.setErr .estack)
          else
            let c2 := enterCall c f args
            if 0 < f.nlcls ∧ avail - stackReq f args.length < f.nlcls then
              match afterCall (c2.setErr .estack) false 0 dst f.spec args with
              | (false, c4) => (false, c4)
              | (true, c5) => runPure p avail c5 rest
            else
              let (ok, c3) := runPure p (avail - stackReq f args.length - f.nlcls) (pushNils c2 f.nlcls) f.body
              match afterCall c3 ok f.nlcls dst f.spec args with
              | (false, c4) => (false, c4)
              | (true, c5) => runPure p avail c5 rest
      | a =>
        match stepSimple c a with
        | (true, c1) => runPure p avail c1 rest
        | (false, c1) => (false, c1)
termination_by body => (avail, body.length)
decreasing_by
  all_goals simp_wf
  · apply Prod.Lex.right; simp
  · apply Prod.Lex.left; unfold stackReq at *; omega
  · apply Prod.Lex.right; simp
  · apply Prod.Lex.right; simp

theorem runBody_eq_pure (p : Prog) (avail : Nat) (c : Ctx) (k : Cache) (body : List Action)
    (hk : Consistent p k) :
    ((runBody p avail c k body).1, (runBody p avail c k body).2.1) = runPure p avail c body ∧
    Consistent p (runBody p avail c k body).2.2 := by
  fun_induction runBody p avail c k body with
  | case1 avail c k => simp [runPure, hk]
  | case2 avail c k a rest hx => rw [runPure.eq_def]; simp [hx, hk]
  | case3 avail c k rest hx dst site args k1 fid? hres hfun =>
    have h1 := resolve_snd hk site
    have h2 := resolve_consistent hk site
    rw [hres] at h1 h2
    simp at h1 h2
    subst h1
    simp [runPure, hx, hfun, h2]
  | case4 avail c k rest hx dst site args k1 fid? hres f hfun hlt =>
    have h1 := resolve_snd hk site
    have h2 := resolve_consistent hk site
    rw [hres] at h1 h2
    simp at h1 h2
    subst h1
    simp [runPure, hx, hfun, h2, hlt]
  | case5 avail c k rest hx dst site args k1 fid? hres f hfun hlt hst =>
    have h1 := resolve_snd hk site
    have h2 := resolve_consistent hk site
    rw [hres] at h1 h2
    simp at h1 h2
    subst h1
    simp [runPure, hx, hfun, h2, hlt, hst]
  | case6 avail c k rest hx dst site args k1 fid? hres f hfun hlt hst c2 hl c4 hac =>
    have h1 := resolve_snd hk site
    have h2 := resolve_consistent hk site
    rw [hres] at h1 h2
    simp at h1 h2
    subst h1
    simp [runPure, hx, hfun, h2, hlt, hst, hl, c2, hac]
  | case7 avail c k rest hx dst site args k1 fid? hres f hfun hlt hst c2 hl c5 hac ih =>
    have h1 := resolve_snd hk site
    have h2 := resolve_consistent hk site
    rw [hres] at h1 h2
    simp at h1 h2
    subst h1
    have ih' := ih h2
    simp [runPure, hx, hfun, hlt, hst, hl, c2, hac]
    exact ih'
  | case8 avail c k rest hx dst site args k1 fid? hres f hfun hlt hst c2 hl ok c3 k2 hrun c4 hac ih =>
    have h1 := resolve_snd hk site
    have h2 := resolve_consistent hk site
    rw [hres] at h1 h2
    simp at h1 h2
    subst h1
    have ih' := ih h2
    rw [hrun] at ih'
    simp at ih'
    simp [runPure, hx, hfun, hlt, hst, hl, c2, ← ih'.1, hac, ih'.2]
  | case9 avail c k rest hx dst site args k1 fid? hres f hfun hlt hst c2 hl ok c3 k2 hrun c5 hac ih1 ih2 =>
    have h1 := resolve_snd hk site
    have h2 := resolve_consistent hk site
    rw [hres] at h1 h2
    simp at h1 h2
    subst h1
    have ih' := ih1 h2
    rw [hrun] at ih'
    simp at ih'
    have ih2' := ih2 ih'.2
    simp [runPure, hx, hfun, hlt, hst, hl, c2, ← ih'.1, hac]
    exact ih2'
  | case10 avail c k rest hx a hna c1 hs ih =>
    have ih' := ih hk
    cases a with
    | call dst site args => exact (hna dst site args rfl).elim
    | _ => simp [runPure, hx, hs]; exact ih'
  | case11 avail c k rest hx a hna c1 hs =>
    cases a with
    | call dst site args => exact (hna dst site args rfl).elim
    | _ => simp [runPure, hx, hs, hk]

/-! ## a generic induction over the evaluator: a pre/post relation that is reflexive, transitive,
    respected by every simple statement and by frame entry + exit, holds across a whole body -/

theorem runPure_rel (p : Prog) (R : Ctx → Ctx → Prop)
    (hrefl : ∀ c, R c c)
    (htrans : ∀ a b c, R a b → R b c → R a c)
    (herr : ∀ c e, R c (c.setErr e))
    (hsimple : ∀ c a b c', stepSimple c a = (b, c') → R c c')
    (hcall : ∀ c f args nl ok c3 dst, args.length ≤ f.nargs →
        R (pushNils (enterCall c f args) nl) c3 → R c (afterCall c3 ok nl dst f.spec args).2)
    (avail : Nat) (c : Ctx) (body : List Action) : R c (runPure p avail c body).2 := by
  fun_induction runPure p avail c body with
  | case1 avail c => exact hrefl c
  | case2 avail c a rest hx => exact hrefl c
  | case3 avail c rest hx dst site args hfun => exact herr c _
  | case4 avail c rest hx dst site args f hfun hlt => exact herr c _
  | case5 avail c rest hx dst site args f hfun hlt hst => exact herr c _
  | case6 avail c rest hx dst site args f hfun hlt hst c2 hl c4 hac =>
    have := hcall c f args 0 false (c2.setErr .estack) dst (by omega) (by simpa [pushNils] using herr _ _)
    rw [hac] at this; exact this
  | case7 avail c rest hx dst site args f hfun hlt hst c2 hl c5 hac ih =>
    have := hcall c f args 0 false (c2.setErr .estack) dst (by omega) (by simpa [pushNils] using herr _ _)
    rw [hac] at this; exact htrans _ _ _ this ih
  | case8 avail c rest hx dst site args f hfun hlt hst c2 hl ok c3 hrun c4 hac ih =>
    rw [hrun] at ih
    have := hcall c f args f.nlcls ok c3 dst (by omega) ih
    rw [hac] at this; exact this
  | case9 avail c rest hx dst site args f hfun hlt hst c2 hl ok c3 hrun c5 hac ih1 ih2 =>
    rw [hrun] at ih1
    have := hcall c f args f.nlcls ok c3 dst (by omega) ih1
    rw [hac] at this; exact htrans _ _ _ this ih2
  | case10 avail c rest hx a hna c1 hs ih => exact htrans _ _ _ (hsimple c a true c1 hs) ih
  | case11 avail c rest hx a hna c1 hs => exact hsimple c a false c1 hs

/-! ## the frame skeleton: what `hawk_rtx_evalcall` relies on to restore `stack_top`/`stack_base` -/

def Slot.skel : Slot → Option Nat
  | .raw n => some n
  | .val _ => none

/-- positions and contents of the bookkeeping slots, the base, and what the application holds -/
structure Skel where
  stack : List (Option Nat)
  base : Nat
  ng : Nat
  offset : Nat
  handles : List Val
  tmps : List Val

def Ctx.skel (c : Ctx) : Skel := ⟨c.stack.map Slot.skel, c.base, c.ng, c.offset, c.handles, c.tmps⟩

theorem skel_congr {c c' : Ctx} (h1 : c'.stack = c.stack) (h2 : c'.base = c.base) (h3 : c'.ng = c.ng)
    (h4 : c'.offset = c.offset) (h5 : c'.handles = c.handles) (h6 : c'.tmps = c.tmps) : c'.skel = c.skel := by
  simp [Ctx.skel, h1, h2, h3, h4, h5, h6]

@[simp] theorem skel_refup (c : Ctx) (v : Val) : (c.refup v).skel = c.skel := rfl
@[simp] theorem skel_refdown (c : Ctx) (v : Val) : (c.refdown v).skel = c.skel := rfl
@[simp] theorem skel_setErr (c : Ctx) (e : Err) : (c.setErr e).skel = c.skel := rfl
@[simp] theorem skel_alloc (c : Ctx) (d : Data) : (c.alloc d).1.skel = c.skel := rfl

theorem isVal_iff {c : Ctx} {i : Nat} : c.isVal i = true ↔ ∃ v, c.stack[i]? = some (.val v) := by
  unfold Ctx.isVal
  split
  · next v h => simp [h]
  · next h =>
    simp only [Bool.false_eq_true, false_iff, not_exists]
    intro v hv; exact h v hv

@[simp] theorem skel_setSlot (c : Ctx) (i : Nat) (v : Val) : (c.setSlot i v).skel = c.skel := by
  unfold Ctx.setSlot
  split
  · next h =>
    obtain ⟨w, hw⟩ := isVal_iff.mp h
    simp only [Ctx.skel, List.map_set, Slot.skel]
    congr 1
    apply List.ext_getElem?
    intro j
    by_cases hj : j = i
    · subst hj
      have hlt : j < c.stack.length := by
        rcases Nat.lt_or_ge j c.stack.length with h | h
        · exact h
        · simp [List.getElem?_eq_none h] at hw
      have hw' : c.stack[j] = .val w := by
        have := List.getElem?_eq_getElem hlt
        rw [this] at hw; exact Option.some.inj hw
      simp [hlt, hw', Slot.skel]
    · simp [Ne.symm hj]
  · rfl

theorem skel_stack_len {c c' : Ctx} (h : c'.skel = c.skel) : c'.stack.length = c.stack.length := by
  have := congrArg (fun s => s.stack.length) h
  simpa [Ctx.skel] using this

theorem skel_raw {c c' : Ctx} (h : c'.skel = c.skel) (i n : Nat) :
    c.stack[i]? = some (.raw n) ↔ c'.stack[i]? = some (.raw n) := by
  have h1 : (c'.stack.map Slot.skel)[i]? = (c.stack.map Slot.skel)[i]? := by
    have := congrArg (fun s => s.stack[i]?) h
    simpa [Ctx.skel] using this
  simp only [List.getElem?_map] at h1
  cases h2 : c.stack[i]? with
  | none => cases h3 : c'.stack[i]? with
    | none => simp
    | some s' => simp [h2, h3] at h1
  | some s => cases h3 : c'.stack[i]? with
    | none => simp [h2, h3] at h1
    | some s' =>
      simp [h2, h3] at h1
      cases s <;> cases s' <;> simp [Slot.skel] at h1 ⊢
      exact ⟨fun h => by omega, fun h => by omega⟩

@[simp] theorem skel_evalOwned (c : Ctx) (e : Expr) : (evalOwned c e).1.skel = c.skel := by
  cases e <;> simp [evalOwned]

@[simp] theorem skel_assign (c : Ctx) (i : Nat) (v : Val) : (c.assign i v).skel = c.skel := by
  unfold Ctx.assign; split <;> simp

@[simp] theorem skel_assignGbl (c : Ctx) (i : Nat) (v : Val) : (c.assignGbl i v).skel = c.skel := by
  unfold Ctx.assignGbl; split <;> simp

@[simp] theorem skel_replaceOwned (c : Ctx) (i : Nat) (v : Val) : (c.replaceOwned i v).skel = c.skel := by
  unfold Ctx.replaceOwned; split <;> simp

@[simp] theorem skel_doAssign (c : Ctx) (i : Nat) (e : Expr) (g : Bool) : (doAssign c i e g).skel = c.skel := by
  unfold doAssign
  cases g <;> simp

theorem skel_stepSimple (c : Ctx) (a : Action) : (stepSimple c a).2.skel = c.skel := by
  cases a with
  | setg n e => simp [stepSimple]
  | setl n e => simp [stepSimple]
  | seta n e => simp [stepSimple]
  | print e =>
    simp only [stepSimple]
    have := skel_evalOwned c e
    exact this
  | printf k e =>
    simp only [stepSimple]
    have := skel_evalOwned c e
    split <;> exact this
  | closef k =>
    simp only [stepSimple]
    split <;> rfl
  | getline =>
    simp only [stepSimple]
    split <;> rfl
  | fail => rfl
  | exit e =>
    cases e with
    | none => rfl
    | some e =>
      simp only [stepSimple]
      have := skel_replaceOwned (evalOwned c e).1 (evalOwned c e).1.retGblIdx (evalOwned c e).2
      rw [skel_evalOwned] at this
      exact this
  | ret e =>
    cases e with
    | none => rfl
    | some e =>
      simp only [stepSimple]
      have := skel_replaceOwned (evalOwned c e).1 (evalOwned c e).1.retIdx (evalOwned c e).2
      rw [skel_evalOwned] at this
      exact this
  | call dst site args => rfl
  | mapset n key e =>
    simp only [stepSimple]
    split
    · rfl
    · split
      · have := skel_setSlot ((c.refdown (c.slot (c.argIdx n))).alloc (.map [(key, textOf c e)])).1 (c.argIdx n)
          ((c.refdown (c.slot (c.argIdx n))).alloc (.map [(key, textOf c e)])).2
        simpa using this
      · rfl

/-! ### frame entry -/

theorem Skel.ext' {a b : Skel} (h1 : a.stack = b.stack) (h2 : a.base = b.base) (h3 : a.ng = b.ng)
    (h4 : a.offset = b.offset) (h5 : a.handles = b.handles) (h6 : a.tmps = b.tmps) : a = b := by
  cases a; cases b; simp at *; exact ⟨h1, h2, h3, h4, h5, h6⟩

@[simp] theorem skel_stack_length (c : Ctx) : c.skel.stack.length = c.stack.length := by simp [Ctx.skel]

@[simp] theorem skel_push (c : Ctx) (s : Slot) :
    (c.push s).skel = { c.skel with stack := c.skel.stack ++ [s.skel] } := by
  simp [Ctx.push, Ctx.skel]

theorem skel_pushNils (c : Ctx) (n : Nat) :
    (pushNils c n).skel = { c.skel with stack := c.skel.stack ++ List.replicate n none } := by
  induction n generalizing c with
  | zero => simp [pushNils]
  | succ n ih => simp [pushNils, ih, List.replicate_succ, Slot.skel]

theorem skel_pushArgsFromExprs (c : Ctx) (es : List Expr) :
    (pushArgsFromExprs c es).skel = { c.skel with stack := c.skel.stack ++ List.replicate es.length none } := by
  induction es generalizing c with
  | nil => simp [pushArgsFromExprs]
  | cons e es ih =>
    simp only [pushArgsFromExprs, ih, skel_push, skel_evalOwned, List.length_cons, List.replicate_succ, Slot.skel]
    simp

theorem skel_pushArgsFromVals (c : Ctx) (vs : List Val) :
    (pushArgsFromVals c vs).skel = { c.skel with stack := c.skel.stack ++ List.replicate vs.length none } := by
  induction vs generalizing c with
  | nil => simp [pushArgsFromVals]
  | cons v vs ih =>
    simp only [pushArgsFromVals, ih, skel_push, skel_refup, List.length_cons, List.replicate_succ, Slot.skel]
    simp

/-- the skeleton of a context inside a freshly entered frame with `m` value slots above the prologue -/
def frameSkel (c : Ctx) (nargs m : Nat) : Skel :=
  { c.skel with stack := c.skel.stack ++ [some c.base, some c.stack.length, none, some nargs] ++ List.replicate m none,
                base := c.stack.length }

theorem skel_enterFrame_aux (c : Ctx) (c1 : Ctx) (a : Nat) (n : Nat)
    (h : c1.skel = { c.skel with stack := c.skel.stack ++ [some c.base, some c.stack.length, none, some 0] ++ List.replicate a none }) :
    (enterFrame c1 c.stack.length n).skel = frameSkel c n a := by
  have hs : c1.stack.map Slot.skel = c.skel.stack ++ [some c.base, some c.stack.length, none, some 0] ++ List.replicate a none := by
    have := congrArg Skel.stack h; simpa [Ctx.skel] using this
  have h2 := congrArg Skel.ng h
  have h3 := congrArg Skel.offset h
  have h4 := congrArg Skel.handles h
  have h5 := congrArg Skel.tmps h
  have hget : (c1.stack.map Slot.skel)[c.stack.length + 3]? = some (some 0) := by
    rw [hs]; simp [List.getElem?_append]
  rw [List.getElem?_map] at hget
  unfold enterFrame Ctx.setRaw frameSkel
  simp only
  cases hc : c1.stack[c.stack.length + 3]? with
  | none => simp [hc] at hget
  | some sl =>
    cases sl with
    | val v => simp [hc, Slot.skel] at hget
    | raw m =>
      simp only
      apply Skel.ext' <;> simp [Ctx.skel] at h2 h3 h4 h5 ⊢ <;> try assumption
      rw [hs]
      simp [Ctx.skel, List.set_append, Slot.skel]

theorem skel_enterCall (c : Ctx) (f : Fun) (args : List Expr) (nl : Nat) (h : args.length ≤ f.nargs) :
    (pushNils (enterCall c f args) nl).skel = frameSkel c f.nargs (f.nargs + nl) := by
  have h1 : (pushNils (pushArgsFromExprs (pushPrologue c) args) (f.nargs - args.length)).skel =
      { c.skel with stack := c.skel.stack ++ [some c.base, some c.stack.length, none, some 0] ++ List.replicate f.nargs none } := by
    rw [skel_pushNils, skel_pushArgsFromExprs]
    simp only [pushPrologue, skel_push, Slot.skel, List.append_assoc, List.cons_append, List.nil_append]
    have : List.replicate args.length (none : Option Nat) ++ List.replicate (f.nargs - args.length) none = List.replicate f.nargs none := by
      rw [List.replicate_append_replicate]; congr 1; omega
    simp [this]
  have h2 := skel_enterFrame_aux c _ f.nargs f.nargs h1
  rw [skel_pushNils]
  unfold enterCall
  rw [h2]
  simp [frameSkel, ← List.replicate_append_replicate]

/-! ### frame exit -/

theorem rawAt_eq (c : Ctx) (i : Nat) : c.rawAt i = ((c.skel.stack[i]?).join).getD 0 := by
  unfold Ctx.rawAt
  simp only [Ctx.skel, List.getElem?_map, List.getD_eq_getElem?_getD]
  cases h : c.stack[i]? with
  | none => simp [Slot.toNat]
  | some s => cases s <;> simp [Slot.toNat, Slot.skel]

theorem rawAt_skel {c c' : Ctx} (h : c'.skel = c.skel) (i : Nat) : c'.rawAt i = c.rawAt i := by
  rw [rawAt_eq, rawAt_eq, h]

theorem base_skel {c c' : Ctx} (h : c'.skel = c.skel) : c'.base = c.base := by
  have := congrArg Skel.base h; simpa [Ctx.skel] using this

theorem skel_popVals (c : Ctx) (n : Nat) :
    (popVals c n).skel = { c.skel with stack := c.skel.stack.take (c.skel.stack.length - n) } := by
  induction n generalizing c with
  | zero =>
    apply Skel.ext' <;> simp [popVals]
    rw [List.take_of_length_le]; simp
  | succ n ih =>
    simp only [popVals, ih]
    apply Skel.ext' <;> simp [Ctx.skel, Ctx.refdown, List.take_take]
    congr 1
    omega

@[simp] theorem skel_refdownArgs (c : Ctx) (nargs k : Nat) : (refdownArgs c nargs k).skel = c.skel := by
  induction k generalizing c with
  | zero => simp [refdownArgs]
  | succ k ih => simp [refdownArgs, ih]

theorem skel_popFrame (c : Ctx) :
    (popFrame c).skel = { c.skel with stack := c.skel.stack.take (c.rawAt (c.base + 1)), base := c.rawAt (c.base + 0) } := by
  simp [popFrame, Ctx.skel]

theorem skel_popFrame_of {c c' : Ctx} (h : c'.skel = c.skel) :
    (popFrame c').skel = { c.skel with stack := c.skel.stack.take (c.rawAt (c.base + 1)), base := c.rawAt (c.base + 0) } := by
  rw [skel_popFrame, rawAt_skel h, rawAt_skel h, base_skel h, h]

theorem skel_leaveFrame (c : Ctx) (ok api : Bool) :
    (leaveFrame c ok api).1.skel =
      { c.skel with stack := c.skel.stack.take (c.rawAt (c.base + 1)), base := c.rawAt (c.base + 0) } := by
  unfold leaveFrame
  simp only
  split
  · exact skel_popFrame_of (by simp)
  · split <;> exact skel_popFrame_of (by simp)

theorem take_drop_nils {α : Type} (X : List α) (a : α) (m nl : Nat) :
    (X ++ List.replicate (m + nl) a).take ((X ++ List.replicate (m + nl) a).length - nl) = X ++ List.replicate m a := by
  rw [← List.replicate_append_replicate, ← List.append_assoc]
  apply List.take_left'
  simp; omega

theorem frameSkel_stack (c : Ctx) (n m : Nat) :
    (frameSkel c n m).stack = (c.skel.stack ++ [some c.base, some c.stack.length, none, some n]) ++ List.replicate m none := rfl

theorem skel_popVals_frameSkel {c c3 : Ctx} {n m nl : Nat} (h : c3.skel = frameSkel c n (m + nl)) :
    (popVals c3 nl).skel = frameSkel c n m := by
  rw [skel_popVals, h]
  apply Skel.ext' <;> try rfl
  simp only [frameSkel_stack]
  exact take_drop_nils _ _ _ _

theorem skel_leaveFrame_frameSkel {c c3 : Ctx} {n m : Nat} (h : c3.skel = frameSkel c n m) (ok api : Bool) :
    (leaveFrame c3 ok api).1.skel = c.skel := by
  rw [skel_leaveFrame]
  have hb : c3.base = c.stack.length := by
    have := congrArg Skel.base h; simpa [Ctx.skel, frameSkel] using this
  have hlen : c.skel.stack.length = c.stack.length := by simp
  have h1 : c3.rawAt (c3.base + 1) = c.stack.length := by
    rw [rawAt_eq, h, hb, frameSkel_stack]
    simp [List.getElem?_append, hlen]
  have h0 : c3.rawAt (c3.base + 0) = c.base := by
    rw [rawAt_eq, h, hb, frameSkel_stack]
    simp [List.getElem?_append, hlen]
  rw [h1, h0, h]
  apply Skel.ext' <;> try rfl
  simp only [frameSkel_stack, List.append_assoc]
  exact List.take_left' hlen

@[simp] theorem skel_setRec0 (c : Ctx) (t : String) : (setRec0 c t).skel = c.skel := by
  unfold setRec0; simp only; split <;> rfl

theorem skel_copyBackOne (c : Ctx) (e : Expr) (av : Val) : (copyBackOne c e av).2.skel = c.skel := by
  unfold copyBackOne
  cases e <;> simp
  · split
    · simp
    · split
      · rfl
      · split <;> simp

theorem skel_copyBack (c : Ctx) (bs : List Bool) (es : List Expr) (i : Nat) : (copyBack c bs es i).2.skel = c.skel := by
  induction bs generalizing c es i with
  | nil => simp [copyBack]
  | cons b bs ih =>
    cases es with
    | nil => simp [copyBack]
    | cons e es =>
      simp only [copyBack]
      split
      · have h1 := skel_copyBackOne c e (c.slot (c.argIdx i))
        generalize copyBackOne c e (c.slot (c.argIdx i)) = r at h1
        obtain ⟨b1, c1⟩ := r
        cases b1
        · exact h1
        · simp only; rw [ih]; exact h1
      · exact ih _ _ _

theorem skel_afterCall {c c3 : Ctx} {n nl : Nat} (h : c3.skel = frameSkel c n (n + nl)) (ok : Bool) (dst : Nat)
    (spec : List Bool) (args : List Expr) :
    (afterCall c3 ok nl dst spec args).2.skel = c.skel := by
  have hp := skel_popVals_frameSkel h
  have hcb : (if ok = true then copyBack (popVals c3 nl) spec args 0 else (false, popVals c3 nl)).2.skel = frameSkel c n n := by
    split
    · rw [skel_copyBack]; exact hp
    · exact hp
  unfold afterCall
  generalize (if ok = true then copyBack (popVals c3 nl) spec args 0 else (false, popVals c3 nl)) = rb at hcb
  obtain ⟨ok1, c3a⟩ := rb
  simp only at hcb ⊢
  have hl := skel_leaveFrame_frameSkel hcb ok1 false
  generalize leaveFrame c3a ok1 false = r at hl
  obtain ⟨c4, r, cap⟩ := r
  simp only at hl ⊢
  cases r with
  | none => exact hl
  | some v =>
    simp only
    split <;> simp [hl]

/-- a body leaves the frame bookkeeping (and what the application holds) exactly as it found it:
    same stack height, same base, same saved bases/tops/nargs in every enclosing frame -/
theorem runPure_skel (p : Prog) (avail : Nat) (c : Ctx) (body : List Action) :
    (runPure p avail c body).2.skel = c.skel := by
  apply runPure_rel p (fun c c' => c'.skel = c.skel)
  · intro c; rfl
  · intro a b c h1 h2; exact h2.trans h1
  · intro c e; simp
  · intro c a b c' h
    have := skel_stepSimple c a
    rw [h] at this; exact this
  · intro c f args nl ok c3 dst hle h
    rw [skel_enterCall c f args nl hle] at h
    exact skel_afterCall h ok dst f.spec args

/-! ### the API entry points restore the skeleton -/

theorem skel_popFrame_frameSkel {c c3 : Ctx} {n m : Nat} (h : c3.skel = frameSkel c n m) :
    (popFrame c3).skel = c.skel := by
  rw [skel_popFrame]
  have hb : c3.base = c.stack.length := by
    have := congrArg Skel.base h; simpa [Ctx.skel, frameSkel] using this
  have hlen : c.skel.stack.length = c.stack.length := by simp
  have h1 : c3.rawAt (c3.base + 1) = c.stack.length := by
    rw [rawAt_eq, h, hb, frameSkel_stack]
    simp [List.getElem?_append, hlen]
  have h0 : c3.rawAt (c3.base + 0) = c.base := by
    rw [rawAt_eq, h, hb, frameSkel_stack]
    simp [List.getElem?_append, hlen]
  rw [h1, h0, h]
  apply Skel.ext' <;> try rfl
  simp only [frameSkel_stack, List.append_assoc]
  exact List.take_left' hlen

theorem runBody_skel (p : Prog) (avail : Nat) (c : Ctx) (k : Cache) (body : List Action) (hk : Consistent p k) :
    (runBody p avail c k body).2.1.skel = c.skel := by
  have h := (runBody_eq_pure p avail c k body hk).1
  have h2 := runPure_skel p avail c body
  rw [← h] at h2
  exact h2

theorem runBody_consistent (p : Prog) (avail : Nat) (c : Ctx) (k : Cache) (body : List Action) (hk : Consistent p k) :
    Consistent p (runBody p avail c k body).2.2 := (runBody_eq_pure p avail c k body hk).2

theorem skel_runBlock (p : Prog) (c : Ctx) (k : Cache) (nl : Nat) (body : List Action) (hk : Consistent p k) :
    (runBlock p c k nl body).2.1.skel = c.skel := by
  unfold runBlock
  split
  · simp
  · simp only
    rw [skel_popVals, runBody_skel p _ _ k body hk, skel_pushNils]
    apply Skel.ext' <;> try rfl
    simp only
    have := take_drop_nils c.skel.stack (none : Option Nat) 0 nl
    simpa using this

theorem runBlock_consistent (p : Prog) (c : Ctx) (k : Cache) (nl : Nat) (body : List Action) (hk : Consistent p k) :
    Consistent p (runBlock p c k nl body).2.2 := by
  unfold runBlock
  split
  · exact hk
  · exact runBody_consistent p _ _ k body hk

theorem skel_enterVals (c : Ctx) (f : Fun) (args : List Val) (h : args.length ≤ f.nargs) :
    (enterFrame (pushNils (pushArgsFromVals (pushPrologue c) args) (f.nargs - args.length)) c.stack.length f.nargs).skel
      = frameSkel c f.nargs f.nargs := by
  apply skel_enterFrame_aux
  rw [skel_pushNils, skel_pushArgsFromVals]
  simp only [pushPrologue, skel_push, Slot.skel, List.append_assoc, List.cons_append, List.nil_append]
  have : List.replicate args.length (none : Option Nat) ++ List.replicate (f.nargs - args.length) none = List.replicate f.nargs none := by
    rw [List.replicate_append_replicate]; congr 1; omega
  simp [this]

theorem skel_callFun (p : Prog) (c : Ctx) (k : Cache) (f : Fun) (args : List Val) (hk : Consistent p k) :
    (callFun p c k f args).1.skel = c.skel ∧ Consistent p (callFun p c k f args).2.1 := by
  unfold callFun
  split
  · exact ⟨by simp, hk⟩
  · split
    · exact ⟨by simp, hk⟩
    · split
      · exact ⟨by simp, hk⟩
      · next h1 h2 h3 =>
        simp only
        have he := skel_enterVals c f args (by omega)
        generalize enterFrame (pushNils (pushArgsFromVals (pushPrologue c) args) (f.nargs - args.length)) c.stack.length f.nargs = c2 at he
        have hb := skel_runBlock p c2 k f.nlcls f.body hk
        have hc := runBlock_consistent p c2 k f.nlcls f.body hk
        generalize runBlock p c2 k f.nlcls f.body = r at hb hc
        obtain ⟨ok, c3, k1⟩ := r
        simp only at hb hc ⊢
        have hl := skel_leaveFrame_frameSkel (hb.trans he) ok true
        generalize leaveFrame c3 ok true = r2 at hl
        obtain ⟨c4, r, cap⟩ := r2
        cases r <;> exact ⟨hl, hc⟩

theorem skel_callByName (p : Prog) (c : Ctx) (k : Cache) (name : String) (args : List Val) (hk : Consistent p k) :
    (callByName p c k name args).1.skel = c.skel ∧ Consistent p (callByName p c k name args).2.1 := by
  unfold callByName
  split
  · exact ⟨by simp, hk⟩
  · exact skel_callFun p c k _ args hk

@[simp] theorem skel_consumeInput (c : Ctx) : (consumeInput c).skel = c.skel := by
  unfold consumeInput; split <;> rfl

theorem skel_runBegin (p : Prog) (c : Ctx) (k : Cache) (hk : Consistent p k) :
    (runBegin p c k).2.1.skel = c.skel ∧ Consistent p (runBegin p c k).2.2 := by
  unfold runBegin
  split
  · split
    · exact ⟨skel_runBlock p _ k _ _ hk, runBlock_consistent p _ k _ _ hk⟩
    · exact ⟨rfl, hk⟩
  · exact ⟨rfl, hk⟩

theorem skel_runEnd (p : Prog) (ok : Bool) (c : Ctx) (k : Cache) (hk : Consistent p k) :
    (runEnd p ok c k).2.1.skel = c.skel ∧ Consistent p (runEnd p ok c k).2.2 := by
  unfold runEnd
  split
  · split
    · exact ⟨skel_runBlock p _ k _ _ hk, runBlock_consistent p _ k _ _ hk⟩
    · exact ⟨rfl, hk⟩
  · exact ⟨rfl, hk⟩

theorem skel_finishLoop {c c4 : Ctx} {n m : Nat} (h : c4.skel = frameSkel c n m) (ok : Bool) :
    (finishLoop c4 ok).1.skel = c.skel := by
  unfold finishLoop
  simp only
  split
  · have : (popFrame (c4.setSlot c4.retIdx Val.nil)).skel = c.skel := skel_popFrame_frameSkel (by simpa using h)
    exact this
  · have : (popFrame ((c4.refdown (c4.slot c4.retIdx)).setSlot c4.retIdx Val.nil)).skel = c.skel :=
      skel_popFrame_frameSkel (by simpa using h)
    exact this

theorem skel_loop (p : Prog) (c : Ctx) (k : Cache) (hk : Consistent p k) :
    (loop p c k).1.skel = c.skel ∧ Consistent p (loop p c k).2.1 := by
  unfold loop
  simp only
  split
  · exact ⟨rfl, hk⟩
  · have he : (enterFrame (pushPrologue { c with exitLevel := xlNone }) c.stack.length 0).skel = frameSkel c 0 0 := by
      have := skel_enterFrame_aux { c with exitLevel := xlNone } (pushPrologue { c with exitLevel := xlNone }) 0 0
        (by simp [pushPrologue, Slot.skel])
      exact this
    generalize enterFrame (pushPrologue { c with exitLevel := xlNone }) c.stack.length 0 = c1 at he
    have hb := skel_runBegin p c1 k hk
    generalize runBegin p c1 k = rb at hb
    obtain ⟨ok1, c2, k1⟩ := rb
    simp only at hb ⊢
    have h3 : (if (ok1 || c2.err == Err.enoerr) = true ∧ p.end_.isSome = true ∧ c2.exitLevel < xlGlobal then consumeInput c2 else c2).skel = c2.skel := by
      split
      · exact skel_consumeInput c2
      · rfl
    generalize (if (ok1 || c2.err == Err.enoerr) = true ∧ p.end_.isSome = true ∧ c2.exitLevel < xlGlobal then consumeInput c2 else c2) = c3 at h3
    have hn := skel_runEnd p (ok1 || c2.err == Err.enoerr) c3 k1 hb.2
    generalize runEnd p (ok1 || c2.err == Err.enoerr) c3 k1 = re at hn
    obtain ⟨ok2, c4, k2⟩ := re
    simp only at hn ⊢
    have hf := skel_finishLoop (c := c) (hn.1.trans (h3.trans (hb.1.trans he))) (ok2 || c4.err == Err.enoerr)
    exact ⟨hf, hn.2⟩

/-! ### contexts at rest: no frame on the stack -/

def Ctx.core (c : Ctx) : List (Option Nat) × Nat × Nat × Nat := (c.stack.map Slot.skel, c.base, c.ng, c.offset)

theorem core_of_skel {c c' : Ctx} (h : c'.skel = c.skel) : c'.core = c.core := by
  have h1 := congrArg Skel.stack h
  have h2 := congrArg Skel.base h
  have h3 := congrArg Skel.ng h
  have h4 := congrArg Skel.offset h
  simp [Ctx.skel] at h1 h2 h3 h4
  simp [Ctx.core, h1, h2, h3, h4]

/-- only the globals are on the stack, the base is 0, no call temporaries are outstanding -/
structure Clean (c : Ctx) : Prop where
  stack : c.stack.map Slot.skel = List.replicate c.ng none
  base : c.base = 0
  tmps : c.tmps = []

theorem clean_of_core {c c' : Ctx} (h : c'.core = c.core) (ht : c'.tmps = []) (hc : Clean c) : Clean c' := by
  simp [Ctx.core] at h
  exact ⟨by rw [h.1, h.2.2.1]; exact hc.stack, by rw [h.2.1]; exact hc.base, ht⟩

theorem core_mkArgs (c : Ctx) (as : List Arg) : (mkArgs c as).1.core = c.core := by
  induction as generalizing c with
  | nil => rfl
  | cons a as ih =>
    cases a with
    | nil => simp only [mkArgs]; exact ih c
    | hnd k => simp only [mkArgs]; exact ih c
    | tmp s =>
      simp only [mkArgs]
      rw [ih]
      rfl

theorem core_dropTmps (c : Ctx) (vs : List Val) : (dropTmps c vs).core = c.core ∧ (dropTmps c vs).tmps = [] := by
  induction vs generalizing c with
  | nil => exact ⟨rfl, rfl⟩
  | cons v vs ih => simp only [dropTmps]; exact ih (c.refdown v)

theorem core_setHandle (c : Ctx) (k : Nat) (v : Val) : (setHandle c k v).core = c.core ∧ (setHandle c k v).tmps = c.tmps :=
  ⟨rfl, rfl⟩

theorem fresh_clean (p : Prog) (cid : Nat) : Clean (Ctx.fresh p cid) := by
  constructor <;> simp [Ctx.fresh, Slot.skel]

theorem stepCtx_clean (p : Prog) (k : Cache) (c : Ctx) (op : Op) (hk : Consistent p k) (hc : Clean c) :
    Clean (stepCtx p k c op).1 ∧ Consistent p (stepCtx p k c op).2.1 := by
  cases op with
  | call fname args =>
    simp only [stepCtx]
    have h1 := core_mkArgs c args
    generalize mkArgs c args = r1 at h1
    obtain ⟨c1, vs⟩ := r1
    have h2 := skel_callByName p c1 k fname vs hk
    generalize callByName p c1 k fname vs = r2 at h2
    obtain ⟨c2, k1, r⟩ := r2
    simp only at h1 h2 ⊢
    refine ⟨?_, h2.2⟩
    cases r with
    | none =>
      have h4 := core_dropTmps c2 c2.tmps
      exact clean_of_core (h4.1.trans ((core_of_skel h2.1).trans h1)) h4.2 hc
    | some v =>
      have h4 := core_dropTmps (c2.refdown v) (c2.refdown v).tmps
      have h3 : (c2.refdown v).core = c2.core := rfl
      exact clean_of_core (h4.1.trans (h3.trans ((core_of_skel h2.1).trans h1))) h4.2 hc
  | calls fname texts =>
    simp only [stepCtx]
    have h1 := core_mkArgs c (texts.map Arg.tmp)
    generalize mkArgs c (texts.map Arg.tmp) = r1 at h1
    obtain ⟨c1, vs⟩ := r1
    have h2 := skel_callByName p c1 k fname vs hk
    generalize callByName p c1 k fname vs = r2 at h2
    obtain ⟨c2, k1, r⟩ := r2
    simp only at h1 h2 ⊢
    refine ⟨?_, h2.2⟩
    have h4 := core_dropTmps c2 c2.tmps
    cases r with
    | none => exact clean_of_core (h4.1.trans ((core_of_skel h2.1).trans h1)) h4.2 hc
    | some v =>
      have h3 : ((dropTmps c2 c2.tmps).refdown v).core = (dropTmps c2 c2.tmps).core := rfl
      exact clean_of_core (c' := (dropTmps c2 c2.tmps).refdown v) (h3.trans (h4.1.trans ((core_of_skel h2.1).trans h1))) h4.2 hc
  | loop =>
    simp only [stepCtx]
    have h2 := skel_loop p c k hk
    generalize loop p c k = r2 at h2
    obtain ⟨c2, k1, r⟩ := r2
    simp only at h2 ⊢
    refine ⟨?_, h2.2⟩
    have ht : c2.tmps = [] := by
      have := congrArg Skel.tmps h2.1; simp [Ctx.skel] at this; rw [this]; exact hc.tmps
    cases r with
    | none => exact clean_of_core (core_of_skel h2.1) ht hc
    | some v => exact clean_of_core (c := c) (c' := c2.refdown v) (core_of_skel h2.1) ht hc
  | exec =>
    simp only [stepCtx]
    have h2 := skel_loop p c k hk
    generalize loop p c k = r2 at h2
    obtain ⟨c2, k1, r⟩ := r2
    simp only at h2 ⊢
    refine ⟨?_, h2.2⟩
    have ht : c2.tmps = [] := by
      have := congrArg Skel.tmps h2.1; simp [Ctx.skel] at this; rw [this]; exact hc.tmps
    cases r with
    | none => exact clean_of_core (core_of_skel h2.1) ht hc
    | some v => exact clean_of_core (c := c) (c' := c2.refdown v) (core_of_skel h2.1) ht hc
  | setgbl n a =>
    simp only [stepCtx]
    split
    · exact ⟨hc, hk⟩
    · refine ⟨?_, hk⟩
      have h1 := core_mkArgs c [a]
      generalize mkArgs c [a] = r1 at h1
      obtain ⟨c1, vs⟩ := r1
      simp only at h1 ⊢
      have h2 : (c1.assignGbl n (vs.headD Val.nil)).core = c1.core := core_of_skel (by simp)
      have h4 := core_dropTmps (c1.assignGbl n (vs.headD Val.nil)) (c1.assignGbl n (vs.headD Val.nil)).tmps
      exact clean_of_core (h4.1.trans (h2.trans h1)) h4.2 hc
  | getgbl n => simp only [stepCtx]; split <;> exact ⟨hc, hk⟩
  | halt => exact ⟨⟨hc.stack, hc.base, hc.tmps⟩, hk⟩
  | mkstr h s =>
    simp only [stepCtx]; split
    · exact ⟨hc, hk⟩
    · exact ⟨clean_of_core (c := c) rfl hc.tmps hc, hk⟩
  | mkmap h =>
    simp only [stepCtx]; split
    · exact ⟨hc, hk⟩
    · exact ⟨clean_of_core (c := c) rfl hc.tmps hc, hk⟩
  | drop h =>
    simp only [stepCtx]; split
    · exact ⟨hc, hk⟩
    · exact ⟨clean_of_core (c := c) rfl hc.tmps hc, hk⟩
  | showh h => simp only [stepCtx]; split <;> exact ⟨hc, hk⟩

/-! ## nothing a context does or observes depends on the contents of the shared cache -/

section CacheIrrelevant
variable {p : Prog} {k₁ k₂ : Cache}

theorem runBody_nc (hk₁ : Consistent p k₁) (hk₂ : Consistent p k₂) (avail : Nat) (c : Ctx) (body : List Action) :
    (runBody p avail c k₁ body).1 = (runBody p avail c k₂ body).1 ∧
    (runBody p avail c k₁ body).2.1 = (runBody p avail c k₂ body).2.1 := by
  have h1 := (runBody_eq_pure p avail c k₁ body hk₁).1
  have h2 := (runBody_eq_pure p avail c k₂ body hk₂).1
  rw [← h2] at h1
  exact ⟨(Prod.mk.inj h1).1, (Prod.mk.inj h1).2⟩

theorem runBlock_nc (hk₁ : Consistent p k₁) (hk₂ : Consistent p k₂) (c : Ctx) (nl : Nat) (body : List Action) :
    (runBlock p c k₁ nl body).1 = (runBlock p c k₂ nl body).1 ∧
    (runBlock p c k₁ nl body).2.1 = (runBlock p c k₂ nl body).2.1 := by
  unfold runBlock
  split
  · exact ⟨rfl, rfl⟩
  · have := runBody_nc hk₁ hk₂ (c.avail - nl) (pushNils c nl) body
    simp only [this.1, this.2, and_self]

theorem callFun_nc (hk₁ : Consistent p k₁) (hk₂ : Consistent p k₂) (c : Ctx) (f : Fun) (args : List Val) :
    (callFun p c k₁ f args).1 = (callFun p c k₂ f args).1 ∧
    (callFun p c k₁ f args).2.2 = (callFun p c k₂ f args).2.2 := by
  unfold callFun
  split
  · exact ⟨rfl, rfl⟩
  · split
    · exact ⟨rfl, rfl⟩
    · split
      · exact ⟨rfl, rfl⟩
      · simp only
        have := runBlock_nc hk₁ hk₂
          (enterFrame (pushNils (pushArgsFromVals (pushPrologue c) args) (f.nargs - args.length)) c.stack.length f.nargs)
          f.nlcls f.body
        generalize runBlock p _ k₁ f.nlcls f.body = r1 at this
        generalize runBlock p _ k₂ f.nlcls f.body = r2 at this
        obtain ⟨ok1, c1, k1'⟩ := r1
        obtain ⟨ok2, c2, k2'⟩ := r2
        simp only at this
        obtain ⟨rfl, rfl⟩ := this
        simp only
        generalize leaveFrame c1 ok1 true = r
        obtain ⟨c4, r, cap⟩ := r
        cases r <;> exact ⟨rfl, rfl⟩

theorem callByName_nc (hk₁ : Consistent p k₁) (hk₂ : Consistent p k₂) (c : Ctx) (name : String) (args : List Val) :
    (callByName p c k₁ name args).1 = (callByName p c k₂ name args).1 ∧
    (callByName p c k₁ name args).2.2 = (callByName p c k₂ name args).2.2 := by
  unfold callByName
  split
  · exact ⟨rfl, rfl⟩
  · exact callFun_nc hk₁ hk₂ c _ args

theorem runBegin_nc (hk₁ : Consistent p k₁) (hk₂ : Consistent p k₂) (c : Ctx) :
    (runBegin p c k₁).1 = (runBegin p c k₂).1 ∧ (runBegin p c k₁).2.1 = (runBegin p c k₂).2.1 := by
  unfold runBegin
  split
  · split
    · exact runBlock_nc hk₁ hk₂ _ _ _
    · exact ⟨rfl, rfl⟩
  · exact ⟨rfl, rfl⟩

theorem runEnd_nc (hk₁ : Consistent p k₁) (hk₂ : Consistent p k₂) (ok : Bool) (c : Ctx) :
    (runEnd p ok c k₁).1 = (runEnd p ok c k₂).1 ∧ (runEnd p ok c k₁).2.1 = (runEnd p ok c k₂).2.1 := by
  unfold runEnd
  split
  · split
    · exact runBlock_nc hk₁ hk₂ _ _ _
    · exact ⟨rfl, rfl⟩
  · exact ⟨rfl, rfl⟩

theorem loop_nc (hk₁ : Consistent p k₁) (hk₂ : Consistent p k₂) (c : Ctx) :
    (loop p c k₁).1 = (loop p c k₂).1 ∧ (loop p c k₁).2.2 = (loop p c k₂).2.2 := by
  unfold loop
  simp only
  split
  · exact ⟨rfl, rfl⟩
  · generalize enterFrame (pushPrologue { c with exitLevel := xlNone }) c.stack.length 0 = c1
    have hb := runBegin_nc hk₁ hk₂ c1
    have hb1 := (skel_runBegin p c1 k₁ hk₁).2
    have hb2 := (skel_runBegin p c1 k₂ hk₂).2
    generalize runBegin p c1 k₁ = r1 at hb hb1
    generalize runBegin p c1 k₂ = r2 at hb hb2
    obtain ⟨ok1, c2, k1'⟩ := r1
    obtain ⟨ok2, c2', k2'⟩ := r2
    simp only at hb hb1 hb2
    obtain ⟨rfl, rfl⟩ := hb
    simp only
    generalize (if (ok1 || c2.err == Err.enoerr) = true ∧ p.end_.isSome = true ∧ c2.exitLevel < xlGlobal then consumeInput c2 else c2) = c3
    have he := runEnd_nc hb1 hb2 (ok1 || c2.err == Err.enoerr) c3
    generalize runEnd p (ok1 || c2.err == Err.enoerr) c3 k1' = e1 at he
    generalize runEnd p (ok1 || c2.err == Err.enoerr) c3 k2' = e2 at he
    obtain ⟨ok3, c4, k3⟩ := e1
    obtain ⟨ok4, c4', k4⟩ := e2
    simp only at he
    obtain ⟨rfl, rfl⟩ := he
    exact ⟨rfl, rfl⟩

theorem stepCtx_nc (hk₁ : Consistent p k₁) (hk₂ : Consistent p k₂) (c : Ctx) (op : Op) :
    (stepCtx p k₁ c op).1 = (stepCtx p k₂ c op).1 ∧ (stepCtx p k₁ c op).2.2 = (stepCtx p k₂ c op).2.2 := by
  cases op with
  | call fname args =>
    simp only [stepCtx]
    generalize mkArgs c args = r1
    obtain ⟨c1, vs⟩ := r1
    have h := callByName_nc hk₁ hk₂ c1 fname vs
    generalize callByName p c1 k₁ fname vs = a at h
    generalize callByName p c1 k₂ fname vs = b at h
    obtain ⟨ca, ka, ra⟩ := a
    obtain ⟨cb, kb, rb⟩ := b
    simp only at h
    obtain ⟨rfl, rfl⟩ := h
    exact ⟨rfl, rfl⟩
  | calls fname texts =>
    simp only [stepCtx]
    generalize mkArgs c (texts.map Arg.tmp) = r1
    obtain ⟨c1, vs⟩ := r1
    have h := callByName_nc hk₁ hk₂ c1 fname vs
    generalize callByName p c1 k₁ fname vs = a at h
    generalize callByName p c1 k₂ fname vs = b at h
    obtain ⟨ca, ka, ra⟩ := a
    obtain ⟨cb, kb, rb⟩ := b
    simp only at h
    obtain ⟨rfl, rfl⟩ := h
    exact ⟨rfl, rfl⟩
  | loop =>
    simp only [stepCtx]
    have h := loop_nc hk₁ hk₂ c
    generalize loop p c k₁ = a at h
    generalize loop p c k₂ = b at h
    obtain ⟨ca, ka, ra⟩ := a
    obtain ⟨cb, kb, rb⟩ := b
    simp only at h
    obtain ⟨rfl, rfl⟩ := h
    exact ⟨rfl, rfl⟩
  | exec =>
    simp only [stepCtx]
    have h := loop_nc hk₁ hk₂ c
    generalize loop p c k₁ = a at h
    generalize loop p c k₂ = b at h
    obtain ⟨ca, ka, ra⟩ := a
    obtain ⟨cb, kb, rb⟩ := b
    simp only at h
    obtain ⟨rfl, rfl⟩ := h
    exact ⟨rfl, rfl⟩
  | setgbl n a => simp only [stepCtx]; split <;> exact ⟨rfl, rfl⟩
  | getgbl n => simp only [stepCtx]; split <;> exact ⟨rfl, rfl⟩
  | halt => exact ⟨rfl, rfl⟩
  | mkstr h s => simp only [stepCtx]; split <;> exact ⟨rfl, rfl⟩
  | mkmap h => simp only [stepCtx]; split <;> exact ⟨rfl, rfl⟩
  | drop h => simp only [stepCtx]; split <;> exact ⟨rfl, rfl⟩
  | showh h => simp only [stepCtx]; split <;> exact ⟨rfl, rfl⟩

end CacheIrrelevant

theorem stepCtx_consistent (p : Prog) (k : Cache) (c : Ctx) (op : Op) (hk : Consistent p k) :
    Consistent p (stepCtx p k c op).2.1 := by
  cases op with
  | call fname args =>
    simp only [stepCtx]
    generalize mkArgs c args = r1
    obtain ⟨c1, vs⟩ := r1
    have h2 := skel_callByName p c1 k fname vs hk
    generalize callByName p c1 k fname vs = r2 at h2
    obtain ⟨c2, k1, r⟩ := r2
    exact h2.2
  | calls fname texts =>
    simp only [stepCtx]
    generalize mkArgs c (texts.map Arg.tmp) = r1
    obtain ⟨c1, vs⟩ := r1
    have h2 := skel_callByName p c1 k fname vs hk
    generalize callByName p c1 k fname vs = r2 at h2
    obtain ⟨c2, k1, r⟩ := r2
    exact h2.2
  | loop =>
    simp only [stepCtx]
    have h2 := skel_loop p c k hk
    generalize loop p c k = r2 at h2
    obtain ⟨c2, k1, r⟩ := r2
    exact h2.2
  | exec =>
    simp only [stepCtx]
    have h2 := skel_loop p c k hk
    generalize loop p c k = r2 at h2
    obtain ⟨c2, k1, r⟩ := r2
    exact h2.2
  | setgbl n a => simp only [stepCtx]; split <;> exact hk
  | getgbl n => simp only [stepCtx]; split <;> exact hk
  | halt => exact hk
  | mkstr h s => simp only [stepCtx]; split <;> exact hk
  | mkmap h => simp only [stepCtx]; split <;> exact hk
  | drop h => simp only [stepCtx]; split <;> exact hk
  | showh h => simp only [stepCtx]; split <;> exact hk

/-! ## worlds: isolation of one context from the others -/

def World.init (p : Prog) : World := { interp := ({} : Interp).parse p }

/-- the observations that belong to context `cid` -/
def obsOf (cid : Nat) (l : List (Nat × Obs)) : List Obs := (l.filter (fun x => x.1 == cid)).map (·.2)

/-- two worlds agree on the program and on context `cid`; their caches may differ but both are
    consistent with the program -/
structure SameCtx (cid : Nat) (w w' : World) : Prop where
  prog : w'.interp.prog = w.interp.prog
  k : Consistent w.interp.prog w.interp.cache
  k' : Consistent w.interp.prog w'.interp.cache
  ctx : w'.ctxs cid = w.ctxs cid

theorem step_tag (w : World) (o : WOp) : (w.step o).2.1 = o.cid := by
  cases o with
  | «open» c => simp only [World.step]; split <;> rfl
  | close c => simp only [World.step]; split <;> rfl
  | op c o => simp only [World.step]; split <;> rfl

theorem step_prog (w : World) (o : WOp) : (w.step o).1.interp.prog = w.interp.prog := by
  cases o with
  | «open» c => simp only [World.step]; split <;> rfl
  | close c => simp only [World.step]; split <;> rfl
  | op c o => simp only [World.step]; split <;> rfl

theorem step_consistent (w : World) (o : WOp) (h : Consistent w.interp.prog w.interp.cache) :
    Consistent w.interp.prog (w.step o).1.interp.cache := by
  cases o with
  | «open» c => simp only [World.step]; split <;> exact h
  | close c => simp only [World.step]; split <;> exact h
  | op c o =>
    simp only [World.step]; split
    · exact h
    · next cx hcx => exact stepCtx_consistent _ _ cx o h

theorem step_other (w : World) (o : WOp) (cid : Nat) (h : o.cid ≠ cid) : (w.step o).1.ctxs cid = w.ctxs cid := by
  cases o with
  | «open» c =>
    simp only [World.step]; split
    · rfl
    · simp only [World.setCtx]; simp only [WOp.cid] at h; simp [Ne.symm h]
  | close c =>
    simp only [World.step]; split
    · rfl
    · simp only [World.setCtx]; simp only [WOp.cid] at h; simp [Ne.symm h]
  | op c o =>
    simp only [World.step]; split
    · rfl
    · simp only [World.setCtx]; simp only [WOp.cid] at h; simp [Ne.symm h]

theorem step_same {cid : Nat} {w w' : World} (h : SameCtx cid w w') (o : WOp) (ho : o.cid = cid) :
    (w'.step o).2.2 = (w.step o).2.2 ∧ (w'.step o).1.ctxs cid = (w.step o).1.ctxs cid := by
  cases o with
  | «open» c =>
    simp only [WOp.cid] at ho; subst ho
    simp only [World.step, h.ctx]
    split
    · exact ⟨rfl, h.ctx⟩
    · simp [World.setCtx, h.prog]
  | close c =>
    simp only [WOp.cid] at ho; subst ho
    simp only [World.step, h.ctx]
    split
    · exact ⟨rfl, h.ctx⟩
    · simp [World.setCtx]
  | op c o =>
    simp only [WOp.cid] at ho; subst ho
    simp only [World.step, h.ctx]
    split
    · exact ⟨rfl, h.ctx⟩
    · next cx hcx =>
      have := stepCtx_nc (p := w.interp.prog) h.k' h.k cx o
      rw [h.prog]
      simp [World.setCtx, this.1, this.2]

theorem run_isolated (cid : Nat) (ops : List WOp) : ∀ (w w' : World), SameCtx cid w w' →
    obsOf cid (w.run ops).2 = obsOf cid (w'.run (ops.filter (fun o => o.cid == cid))).2 := by
  induction ops with
  | nil => intro w w' _; rfl
  | cons o os ih =>
    intro w w' h
    by_cases ho : o.cid = cid
    · have hs := step_same h o ho
      have hrel : SameCtx cid (w.step o).1 (w'.step o).1 :=
        ⟨by rw [step_prog, step_prog]; exact h.prog,
         by rw [step_prog]; exact step_consistent w o h.k,
         by rw [step_prog]
            have := step_consistent w' o (by rw [h.prog]; exact h.k')
            rw [h.prog] at this; exact this,
         hs.2⟩
      have := ih _ _ hrel
      simp only [List.filter_cons, ho, beq_self_eq_true, ↓reduceIte, World.run, obsOf, step_tag, hs.1]
      simp only [obsOf] at this
      simp [this]
    · have hrel : SameCtx cid (w.step o).1 w' :=
        ⟨by rw [step_prog]; exact h.prog,
         by rw [step_prog]; exact step_consistent w o h.k,
         by rw [step_prog]; exact h.k',
         by rw [step_other w o cid ho]; exact h.ctx⟩
      have := ih _ _ hrel
      have hne : (o.cid == cid) = false := by simp [ho]
      simp only [List.filter_cons, hne, World.run, obsOf, step_tag]
      simp only [obsOf] at this
      simp [hne, this]

end Hawk.Ctx
