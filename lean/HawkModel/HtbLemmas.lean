import HawkModel.Htb
/-! helper lemmas for Props/C16Htb.lean: chains, bucket arrays, the well-formedness invariant,
    rehash, iteration -/
namespace Hawk.Htb

/-! ## generic list facts -/

theorem flatten_split {α : Type} {L : List (List α)} {i : Nat} (h : i < L.length) :
    L.flatten = (L.take i).flatten ++ L[i] ++ (L.drop (i + 1)).flatten := by
  have h1 : L = L.take i ++ L[i] :: L.drop (i + 1) := by
    rw [← List.drop_eq_getElem_cons h, List.take_append_drop]
  exact (congrArg List.flatten h1).trans
    (by simp only [List.flatten_append, List.flatten_cons, List.append_assoc])

theorem flatten_set {α : Type} {L : List (List α)} {i : Nat} (h : i < L.length) (x : List α) :
    (L.set i x).flatten = (L.take i).flatten ++ x ++ (L.drop (i + 1)).flatten := by
  rw [List.set_eq_take_append_cons_drop, if_pos h]
  simp

theorem flatten_set_cons_perm {α : Type} {L : List (List α)} {i : Nat} (h : i < L.length) (p : α) :
    (L.set i (p :: L[i])).flatten.Perm (p :: L.flatten) := by
  rw [flatten_set h, flatten_split h]
  simp only [List.append_assoc, List.cons_append]
  exact List.perm_middle

theorem nodup_flatten_of {α : Type} (L : List (List α)) (h1 : ∀ l ∈ L, l.Nodup)
    (h2 : L.Pairwise (fun a b => ∀ x ∈ a, x ∉ b)) : L.flatten.Nodup := by
  induction L with
  | nil => simp
  | cons a L ih =>
    rw [List.flatten_cons, List.nodup_append]
    rw [List.pairwise_cons] at h2
    refine ⟨h1 a (by simp), ih (fun l hl => h1 l (by simp [hl])) h2.2, ?_⟩
    intro x hx y hy hxy
    subst hxy
    rcases List.mem_flatten.mp hy with ⟨l, hl, hxl⟩
    exact h2.1 l hl x hx hxl

theorem nodup_of_map {α β : Type} (f : α → β) {l : List α} (h : (l.map f).Nodup) : l.Nodup := by
  induction l with
  | nil => simp
  | cons a l ih =>
    simp only [List.map_cons, List.nodup_cons] at h ⊢
    exact ⟨fun ha => h.1 (List.mem_map.mpr ⟨a, ha, rfl⟩), ih h.2⟩

/-! ## chains -/

theorem chainFind_some {k : Nat} {b : Chain} {p : Pair} (h : chainFind k b = some p) : p ∈ b ∧ p.1 = k := by
  induction b with
  | nil => simp [chainFind] at h
  | cons q r ih =>
    simp only [chainFind] at h
    split at h
    · simp only [Option.some.injEq] at h; subst h; simp [*]
    · have := ih h; simp [this]

theorem chainFind_none {k : Nat} {b : Chain} : chainFind k b = none ↔ k ∉ b.map Prod.fst := by
  induction b with
  | nil => simp [chainFind]
  | cons q r ih =>
    simp only [chainFind, List.map_cons, List.mem_cons, not_or]
    split
    · rename_i h; simp [h]
    · rename_i h; rw [ih]; constructor
      · intro h2; exact ⟨fun e => h e.symm, h2⟩
      · intro h2; exact h2.2

theorem chainFind_of_mem {k v : Nat} {b : Chain} (hn : (b.map Prod.fst).Nodup) (h : (k, v) ∈ b) :
    chainFind k b = some (k, v) := by
  induction b with
  | nil => simp at h
  | cons q r ih =>
    simp only [List.map_cons, List.nodup_cons] at hn
    simp only [chainFind]
    rcases List.mem_cons.mp h with h | h
    · subst h; simp
    · have : q.1 ≠ k := by
        intro e; apply hn.1; rw [e]; exact List.mem_map.mpr ⟨(k, v), h, rfl⟩
      rw [if_neg this]; exact ih hn.2 h

theorem chainFind_cons_ne {k k' v : Nat} {b : Chain} (h : k' ≠ k) : chainFind k' ((k, v) :: b) = chainFind k' b := by
  simp only [chainFind]; rw [if_neg (fun e => h e.symm)]

theorem chainFind_cons_eq {k v : Nat} {b : Chain} : chainFind k ((k, v) :: b) = some (k, v) := by
  simp [chainFind]

theorem chainSet_keys (k v : Nat) (b : Chain) : (chainSet k v b).map Prod.fst = b.map Prod.fst := by
  induction b with
  | nil => simp [chainSet]
  | cons q r ih => simp only [chainSet]; split <;> simp [ih]

theorem chainSet_length (k v : Nat) (b : Chain) : (chainSet k v b).length = b.length := by
  have := congrArg List.length (chainSet_keys k v b); simpa using this

theorem chainFind_chainSet (k v k' : Nat) (b : Chain) :
    chainFind k' (chainSet k v b) = if k' = k then (chainFind k b).map (fun p => (p.1, v)) else chainFind k' b := by
  induction b with
  | nil => simp [chainSet, chainFind]
  | cons q r ih =>
    simp only [chainSet]
    by_cases hq : q.1 = k
    · rw [if_pos hq]
      by_cases hk : k' = k
      · subst hk; simp [chainFind, hq]
      · rw [if_neg hk]; simp only [chainFind]; rw [if_neg (by omega), if_neg (by omega)]
    · rw [if_neg hq]
      simp only [chainFind]
      by_cases hk : k' = k
      · subst hk; rw [if_neg hq, if_neg hq, ih]
      · rw [if_neg hk] at ih ⊢; rw [ih]

theorem chainDel_mem {k : Nat} {b : Chain} {p : Pair} (h : p ∈ chainDel k b) : p ∈ b := by
  induction b with
  | nil => simp [chainDel] at h
  | cons q r ih =>
    simp only [chainDel] at h
    split at h
    · exact List.mem_cons_of_mem _ h
    · rcases List.mem_cons.mp h with h | h
      · subst h; simp
      · exact List.mem_cons_of_mem _ (ih h)

theorem chainDel_sublist (k : Nat) (b : Chain) : (chainDel k b).Sublist b := by
  induction b with
  | nil => simp [chainDel]
  | cons q r ih =>
    simp only [chainDel]; split
    · exact List.sublist_cons_self _ _
    · exact List.Sublist.cons_cons _ ih

theorem chainDel_length {k : Nat} {b : Chain} {p : Pair} (h : chainFind k b = some p) :
    (chainDel k b).length + 1 = b.length := by
  induction b with
  | nil => simp [chainFind] at h
  | cons q r ih =>
    simp only [chainFind] at h
    simp only [chainDel]
    split at h
    · rename_i hq; rw [if_pos hq]; simp
    · rename_i hq; rw [if_neg hq]; simp [ih h]

theorem chainFind_chainDel (k k' : Nat) (b : Chain) (hn : (b.map Prod.fst).Nodup) :
    chainFind k' (chainDel k b) = if k' = k then none else chainFind k' b := by
  induction b with
  | nil => simp [chainDel, chainFind]
  | cons q r ih =>
    simp only [List.map_cons, List.nodup_cons] at hn
    simp only [chainDel]
    by_cases hq : q.1 = k
    · rw [if_pos hq]
      by_cases hk : k' = k
      · subst hk; rw [if_pos rfl]; rw [chainFind_none, ← hq]; exact hn.1
      · rw [if_neg hk]; simp only [chainFind]; rw [if_neg (by omega)]
    · rw [if_neg hq]
      simp only [chainFind]
      by_cases hk : k' = k
      · subst hk; rw [if_neg hq, ih hn.2]; simp
      · rw [if_neg hk] at ih ⊢; rw [ih hn.2]

/-! ## the invariant -/

/-- well-formedness of the table for hash configuration `c` -/
structure WF (c : Cfg) (t : Htb) : Prop where
  len : t.buckets.length = t.capa
  pos : 0 < t.capa
  /-- every pair sits in the bucket its hash selects -/
  place : ∀ (i : Nat) (b : Chain), t.buckets[i]? = some b → ∀ p ∈ b, c.hash p.1 % t.capa = i
  /-- no key twice in a chain -/
  nodup : ∀ (i : Nat) (b : Chain), t.buckets[i]? = some b → (b.map Prod.fst).Nodup
  /-- the size field counts the linked pairs -/
  size : t.size = (t.buckets.map List.length).sum

/-- lookup as the C does it: hash, pick the chain, scan it -/
def find (c : Cfg) (t : Htb) (k : Nat) : Option Nat :=
  (chainFind k (bucketAt t (c.hash k % t.capa))).map Prod.snd

theorem bucketAt_eq {t : Htb} {i : Nat} (h : i < t.buckets.length) : t.buckets[i]? = some (bucketAt t i) := by
  simp [bucketAt, List.getD_eq_getElem?_getD, List.getElem?_eq_getElem h]

theorem bucketAt_getElem {t : Htb} {i : Nat} (h : i < t.buckets.length) : bucketAt t i = t.buckets[i] := by
  simp [bucketAt, List.getD_eq_getElem?_getD, List.getElem?_eq_getElem h]

theorem WF.idx {c : Cfg} {t : Htb} (h : WF c t) (k : Nat) : c.hash k % t.capa < t.buckets.length := by
  rw [h.len]; exact Nat.mod_lt _ h.pos

theorem pairs_eq {c : Cfg} {t : Htb} (h : WF c t) : pairs t = t.buckets.flatten := by
  unfold pairs; rw [List.take_of_length_le (by rw [h.len]; exact Nat.le_refl _)]

theorem WF.size_pairs {c : Cfg} {t : Htb} (h : WF c t) : t.size = (pairs t).length := by
  rw [pairs_eq h, List.length_flatten, h.size]

/-- a pair is linked somewhere iff the C-style lookup of its key finds its value -/
theorem mem_pairs_iff {c : Cfg} {t : Htb} (h : WF c t) (k v : Nat) :
    (k, v) ∈ pairs t ↔ find c t k = some v := by
  rw [pairs_eq h, List.mem_flatten]
  have hi := h.idx k
  constructor
  · rintro ⟨b, hb, hkv⟩
    rcases List.mem_iff_getElem?.mp hb with ⟨i, hib⟩
    have hpl := h.place i b hib (k, v) hkv
    simp only at hpl
    have : bucketAt t (c.hash k % t.capa) = b := by
      have := bucketAt_eq hi; rw [hpl] at this ⊢; rw [hib] at this; exact (Option.some.inj this).symm
    unfold find; rw [this, chainFind_of_mem (h.nodup i b hib) hkv]; rfl
  · intro hf
    unfold find at hf
    cases hc : chainFind k (bucketAt t (c.hash k % t.capa)) with
    | none => rw [hc] at hf; simp at hf
    | some p =>
      rw [hc] at hf
      simp only [Option.map_some, Option.some.injEq] at hf
      have ⟨hm, hk⟩ := chainFind_some hc
      refine ⟨bucketAt t (c.hash k % t.capa), List.mem_of_getElem? (bucketAt_eq hi), ?_⟩
      have : p = (k, v) := by cases p; simp_all
      rw [← this]; exact hm

/-- keys are unique across the whole table -/
theorem pairs_keys_nodup {c : Cfg} {t : Htb} (h : WF c t) : ((pairs t).map Prod.fst).Nodup := by
  rw [pairs_eq h, List.map_flatten]
  apply nodup_flatten_of
  · intro l hl
    rcases List.mem_map.mp hl with ⟨b, hb, rfl⟩
    rcases List.mem_iff_getElem?.mp hb with ⟨i, hib⟩
    exact h.nodup i b hib
  · rw [List.pairwise_map, List.pairwise_iff_getElem]
    intro i j hi hj hij x hx hx'
    rcases List.mem_map.mp hx with ⟨p, hp, rfl⟩
    rcases List.mem_map.mp hx' with ⟨q, hq, hpq⟩
    have h1 := h.place i _ (List.getElem?_eq_getElem hi) p hp
    have h2 := h.place j _ (List.getElem?_eq_getElem hj) q hq
    rw [hpq] at h2; omega

theorem find_eq_of_mem_iff {c c' : Cfg} {t t' : Htb} (h : WF c t) (h' : WF c' t')
    (hm : ∀ p, p ∈ pairs t' ↔ p ∈ pairs t) (k : Nat) : find c' t' k = find c t k := by
  apply Option.ext; intro v
  rw [← mem_pairs_iff h, ← mem_pairs_iff h', hm]

/-! ## replacing one chain -/

theorem sum_length_set {L : List Chain} {i : Nat} (h : i < L.length) (x : Chain) :
    ((L.set i x).map List.length).sum + L[i].length = (L.map List.length).sum + x.length := by
  rw [← List.length_flatten, ← List.length_flatten, flatten_set h, flatten_split h]
  simp only [List.length_append]; omega

theorem bucketAt_set (t : Htb) (i j : Nat) (x : Chain) (s : Nat) (hi : i < t.buckets.length) :
    bucketAt { t with buckets := t.buckets.set i x, size := s } j = if i = j then x else bucketAt t j := by
  simp only [bucketAt, List.getD_eq_getElem?_getD, List.getElem?_set]
  by_cases h : i = j
  · subst h; simp [hi]
  · simp [h]

theorem find_set (c : Cfg) (t : Htb) (i : Nat) (x : Chain) (s : Nat) (hi : i < t.buckets.length) (k : Nat) :
    find c { t with buckets := t.buckets.set i x, size := s } k =
      if c.hash k % t.capa = i then (chainFind k x).map Prod.snd else find c t k := by
  unfold find
  have := bucketAt_set t i (c.hash k % t.capa) x s hi
  rw [this]
  by_cases h : c.hash k % t.capa = i
  · simp [h]
  · rw [if_neg h, if_neg (fun e => h e.symm)]

theorem WF.set {c : Cfg} {t : Htb} (h : WF c t) {i : Nat} (hi : i < t.buckets.length) (x : Chain) (s : Nat)
    (hp : ∀ p ∈ x, c.hash p.1 % t.capa = i) (hn : (x.map Prod.fst).Nodup)
    (hs : s + (bucketAt t i).length = t.size + x.length) :
    WF c { t with buckets := t.buckets.set i x, size := s } := by
  refine ⟨by simp [h.len], h.pos, ?_, ?_, ?_⟩
  · intro j b hb
    simp only [List.getElem?_set] at hb
    by_cases hij : i = j
    · rw [if_pos hij, if_pos hi] at hb; cases hb; subst hij; exact hp
    · rw [if_neg hij] at hb; exact h.place j b hb
  · intro j b hb
    simp only [List.getElem?_set] at hb
    by_cases hij : i = j
    · rw [if_pos hij, if_pos hi] at hb; cases hb; exact hn
    · rw [if_neg hij] at hb; exact h.nodup j b hb
  · have := sum_length_set hi x
    rw [bucketAt_getElem hi, h.size] at hs
    simp only; omega

/-! ## rehash -/

theorem pushHead_length (c : Cfg) (n : Nat) (bs : List Chain) (p : Pair) : (pushHead c n bs p).length = bs.length := by
  simp [pushHead]

theorem foldl_pushHead_length (c : Cfg) (n : Nat) (ps : List Pair) (bs : List Chain) :
    (ps.foldl (pushHead c n) bs).length = bs.length := by
  induction ps generalizing bs with
  | nil => rfl
  | cons p ps ih => rw [List.foldl_cons, ih, pushHead_length]

theorem rehash_length (c : Cfg) (n : Nat) (ps : List Pair) : (rehash c n ps).length = n := by
  simp [rehash, foldl_pushHead_length]

theorem foldl_pushHead_place (c : Cfg) (n : Nat) (ps : List Pair) (bs : List Chain)
    (h : ∀ i b, bs[i]? = some b → ∀ p ∈ b, c.hash p.1 % n = i) :
    ∀ i b, (ps.foldl (pushHead c n) bs)[i]? = some b → ∀ p ∈ b, c.hash p.1 % n = i := by
  induction ps generalizing bs with
  | nil => exact h
  | cons q ps ih =>
    rw [List.foldl_cons]
    apply ih
    intro i b hb p hp
    simp only [pushHead, List.getElem?_set] at hb
    by_cases hij : c.hash q.1 % n = i
    · rw [if_pos hij] at hb
      by_cases hlt : c.hash q.1 % n < bs.length
      · rw [if_pos hlt] at hb
        cases hb
        rcases List.mem_cons.mp hp with hp | hp
        · rw [hp]; exact hij
        · have : bs[c.hash q.1 % n]? = some (bs.getD (c.hash q.1 % n) []) := by
            simp [List.getD_eq_getElem?_getD, List.getElem?_eq_getElem hlt]
          rw [← hij]; exact h _ _ this p hp
      · rw [if_neg hlt] at hb; cases hb
    · rw [if_neg hij] at hb; exact h i b hb p hp

theorem foldl_pushHead_perm (c : Cfg) (n : Nat) (hn : 0 < n) (ps : List Pair) (bs : List Chain) (hl : bs.length = n) :
    (ps.foldl (pushHead c n) bs).flatten.Perm (ps ++ bs.flatten) := by
  induction ps generalizing bs with
  | nil => simp
  | cons q ps ih =>
    rw [List.foldl_cons]
    have hlt : c.hash q.1 % n < bs.length := by rw [hl]; exact Nat.mod_lt _ hn
    refine (ih (pushHead c n bs q) (by rw [pushHead_length, hl])).trans ?_
    have : (pushHead c n bs q).flatten.Perm (q :: bs.flatten) := by
      unfold pushHead
      simp only [List.getD_eq_getElem?_getD, List.getElem?_eq_getElem hlt, Option.getD_some]
      exact flatten_set_cons_perm hlt q
    refine (List.Perm.append_left ps this).trans ?_
    simp only [List.cons_append]
    exact List.perm_middle

theorem rehash_perm (c : Cfg) (n : Nat) (hn : 0 < n) (ps : List Pair) : (rehash c n ps).flatten.Perm ps := by
  have := foldl_pushHead_perm c n hn ps (List.replicate n []) (by simp)
  simpa [rehash] using this

theorem rehash_place (c : Cfg) (n : Nat) (ps : List Pair) :
    ∀ i b, (rehash c n ps)[i]? = some b → ∀ p ∈ b, c.hash p.1 % n = i := by
  apply foldl_pushHead_place
  intro i b hb p hp
  have := List.mem_of_getElem? hb
  rw [List.mem_replicate] at this
  rw [this.2] at hp; simp at hp

theorem newCapa_pos {c : Cfg} {t : Htb} {n : Nat} (hp : 0 < t.capa) (h : newCapa c t = some n) : 0 < n := by
  unfold newCapa at h
  split at h
  · simp only at h
    split at h
    · cases h
    · cases h; split <;> omega
  · cases h; split <;> omega

/-- the table after a successful rehash to capacity `n` -/
theorem WF.rehashed {c : Cfg} {t : Htb} (h : WF c t) {n : Nat} (hn : 0 < n) (thr : Nat) :
    WF c { t with buckets := rehash c n (pairs t), capa := n, threshold := thr } := by
  have hperm := rehash_perm c n hn (pairs t)
  refine ⟨rehash_length c n _, hn, rehash_place c n _, ?_, ?_⟩
  · intro i b hb
    have hsub : b.Sublist (rehash c n (pairs t)).flatten := List.sublist_flatten_of_mem (List.mem_of_getElem? hb)
    have hnd : ((rehash c n (pairs t)).flatten.map Prod.fst).Nodup :=
      (List.Perm.nodup_iff (hperm.map Prod.fst)).mpr (pairs_keys_nodup h)
    exact (hsub.map Prod.fst).nodup hnd
  · simp only
    rw [← List.length_flatten, hperm.length_eq, ← h.size_pairs]

theorem reorganize_wf {c : Cfg} {t : Htb} (h : WF c t) (o : Oracle) : WF c (reorganize c t o).1 := by
  unfold reorganize
  split
  · exact h
  · rename_i n hn
    split
    · exact ⟨h.len, h.pos, h.place, h.nodup, h.size⟩
    · exact h.rehashed (newCapa_pos h.pos hn) _

theorem reorganize_pairs_perm {c : Cfg} {t : Htb} (h : WF c t) (o : Oracle) :
    (pairs (reorganize c t o).1).Perm (pairs t) := by
  unfold reorganize
  split
  · exact List.Perm.refl _
  · rename_i n hn
    split
    · exact List.Perm.refl _
    · have hw := h.rehashed (c := c) (newCapa_pos h.pos hn) (n * t.factor / 100)
      rw [pairs_eq hw]
      exact rehash_perm c n (newCapa_pos h.pos hn) (pairs t)

theorem reorganize_find {c : Cfg} {t : Htb} (h : WF c t) (o : Oracle) (k : Nat) :
    find c (reorganize c t o).1 k = find c t k :=
  find_eq_of_mem_iff h (reorganize_wf h o) (fun _ => (reorganize_pairs_perm h o).mem_iff) k

theorem reorganize_size {c : Cfg} {t : Htb} (o : Oracle) : (reorganize c t o).1.size = t.size := by
  unfold reorganize; split
  · rfl
  · split <;> rfl

/-- when reorganize does not return 0 the capacity is unchanged (so the old chain index stays valid) -/
theorem reorganize_capa_of_fail {c : Cfg} {t : Htb} (o : Oracle) (hf : (reorganize c t o).2.1 = false) :
    (reorganize c t o).1.capa = t.capa := by
  unfold reorganize at hf ⊢; split
  · rfl
  · split
    · rfl
    · rename_i h1 _ _ h2; simp [h1, h2] at hf

/-- the oracle left by reorganize is the given one or its tail -/
theorem reorganize_orc {c : Cfg} {t : Htb} (o : Oracle) (hf : false ∈ (reorganize c t o).2.2) : false ∈ o := by
  unfold reorganize at hf; split at hf
  · exact hf
  · have : ∀ o', (o.next).2 = o' → false ∈ o' → false ∈ o := by
      intro o' ho' hm
      cases o with
      | nil => simp [Oracle.next] at ho'; subst ho'; simp at hm
      | cons b r => simp [Oracle.next] at ho'; subst ho'; exact List.mem_cons_of_mem _ hm
    split at hf
    · rename_i o' ho; exact this o' (by rw [ho]) hf
    · rename_i o' ho; exact this o' (by rw [ho]) hf

theorem next_false_mem {o o' : Oracle} (h : o.next = (false, o')) : false ∈ o := by
  cases o with
  | nil => simp [Oracle.next] at h
  | cons b r => simp [Oracle.next] at h; simp [h.1]

/-! ## iteration -/

/-- what an iterator still has to deliver: its pair, the rest of the chain, all later buckets -/
def remaining (t : Htb) (it : Itr) : List Pair :=
  it.cur :: it.rest ++ (t.buckets.drop (it.buckno + 1)).flatten

theorem scanFrom_spec (t : Htb) (hl : t.buckets.length = t.capa) (i : Nat) :
    match scanFrom t i with
    | none => (t.buckets.drop i).flatten = []
    | some it => (t.buckets.drop i).flatten = remaining t it := by
  fun_induction scanFrom t i with
  | case1 i hi p r hb =>
    have hi' : i < t.buckets.length := by omega
    simp only [remaining]
    rw [List.drop_eq_getElem_cons hi', ← bucketAt_getElem hi', hb]; simp
  | case2 i hi hb ih =>
    have hi' : i < t.buckets.length := by omega
    have : (t.buckets.drop i).flatten = (t.buckets.drop (i + 1)).flatten := by
      rw [List.drop_eq_getElem_cons hi', ← bucketAt_getElem hi', hb]; simp
    rw [this]; exact ih
  | case3 i hi =>
    have : t.buckets.length ≤ i := by omega
    simp [List.drop_eq_nil_iff.mpr this]

/-- state of the iteration after `n` successful calls -/
def ItOk (t : Htb) (n : Nat) : Option Itr → Prop
  | none => (pairs t).drop n = []
  | some it => (pairs t).drop n = remaining t it

theorem itOk_first {c : Cfg} {t : Htb} (h : WF c t) : ItOk t 0 (getFirst t) := by
  have := scanFrom_spec t h.len 0
  unfold getFirst ItOk
  rw [pairs_eq h]
  cases hs : scanFrom t 0 with
  | none => rw [hs] at this; simpa using this
  | some it => rw [hs] at this; simpa using this

theorem itOk_next {c : Cfg} {t : Htb} (h : WF c t) (n : Nat) (r : Option Itr) (hr : ItOk t n r) :
    ItOk t (n + 1) (r.bind (getNext t)) := by
  cases r with
  | none =>
    simp only [ItOk, Option.bind_none] at hr ⊢
    rw [List.drop_eq_nil_iff] at hr ⊢; omega
  | some it =>
    obtain ⟨bn, cur, rest⟩ := it
    simp only [ItOk] at hr
    have hd : (pairs t).drop (n + 1) = rest ++ (t.buckets.drop (bn + 1)).flatten := by
      have := congrArg (List.drop 1) hr
      rw [List.drop_drop] at this
      simpa [remaining, Nat.add_comm] using this
    cases rest with
    | cons p r => simp only [Option.bind_some, getNext, ItOk, remaining]; rw [hd]
    | nil =>
      simp only [Option.bind_some, getNext]
      have := scanFrom_spec t h.len (bn + 1)
      cases hs : scanFrom t (bn + 1) with
      | none => rw [hs] at this; simp only [ItOk]; rw [hd]; simpa using this
      | some it' => rw [hs] at this; simp only [ItOk]; rw [hd]; simpa using this

theorem itOk_seq {c : Cfg} {t : Htb} (h : WF c t) (n : Nat) : ItOk t n (iterSeq t n) := by
  induction n with
  | zero => exact itOk_first h
  | succ n ih => exact itOk_next h n _ ih

/-! ## walk -/

theorem walkList_all {α : Type} (l : List α) : walkList (fun _ => true) l = l := by
  induction l with
  | nil => rfl
  | cons p r ih => simp [walkList, ih]

theorem walkList_prefix {α : Type} (f : α → Bool) (l : List α) : walkList f l <+: l := by
  induction l with
  | nil => simp [walkList]
  | cons p r ih =>
    simp only [walkList]; split
    · exact (List.prefix_cons_inj p).mpr ih
    · exact ⟨r, rfl⟩

end Hawk.Htb
