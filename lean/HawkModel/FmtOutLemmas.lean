import HawkModel.FmtOut
import HawkModel.FmtLemmas
/-! helper lemmas for the float branch of fmt_outv (buffers and call protocol) -/
namespace Hawk.Fmt

theorem snprintfC_snd (t : Str) (size : Nat) : (snprintfC t size).2 = t.take (size - 1) := by
  unfold snprintfC; split <;> rfl

/-- the call that is made with room for the whole text ends the loop and leaves the whole text in the buffer -/
theorem outLoop_fits (t : Str) (capa : Nat) (heap : Bool) (calls : Nat) (h : t.length ≤ 2147483647) (hc : t.length ≤ capa) :
    outLoop t capa heap calls = .ok capa heap (calls + 1) t := by
  rw [outLoop]
  have h1 : ¬ (snprintfC t (capa + 1)).1 ≤ -1 := by
    rw [snprintfC_fst]; simp [show ¬ t.length > 2147483647 by omega]; omega
  have h2 : (snprintfC t (capa + 1)).1 ≤ (capa : Int) := by
    rw [snprintfC_fst]; simp [show ¬ t.length > 2147483647 by omega]; omega
  simp only [h1, h2, dite_true, dite_false, snprintfC_snd]
  simp [List.take_of_length_le hc]

/-- … and a call with too little room is followed by exactly one more, with a buffer of `max (2 * capa) q` cells + NUL -/
theorem outLoop_grows (t : Str) (capa : Nat) (heap : Bool) (calls : Nat) (h : t.length ≤ 2147483647) (hc : capa < t.length) :
    outLoop t capa heap calls = .ok (max (capa * 2) t.length) true (calls + 2) t := by
  rw [outLoop]
  have h1 : ¬ (snprintfC t (capa + 1)).1 ≤ -1 := by
    rw [snprintfC_fst]; simp [show ¬ t.length > 2147483647 by omega]; omega
  have h2 : ¬ (snprintfC t (capa + 1)).1 ≤ (capa : Int) := by
    rw [snprintfC_fst]; simp [show ¬ t.length > 2147483647 by omega]; omega
  simp only [h1, h2, dite_false]
  have hq : (snprintfC t (capa + 1)).1.toNat = t.length := by
    rw [snprintfC_fst]; simp [show ¬ t.length > 2147483647 by omega]
  rw [hq, outLoop_fits t _ true (calls + 1) h (by omega)]

theorem outLoop_overflow (t : Str) (capa : Nat) (heap : Bool) (calls : Nat) (h : t.length > 2147483647) :
    outLoop t capa heap calls = .oops := by
  rw [outLoop]
  have h1 : (snprintfC t (capa + 1)).1 ≤ -1 := by rw [snprintfC_fst]; simp [h]
  simp [h1]

theorem cstrOf_noNul (t : Str) (h : '\x00' ∉ t) : cstrOf t = t := by
  unfold cstrOf
  induction t with
  | nil => rfl
  | cons c r ih =>
    have hc : c ≠ '\x00' := fun e => h (by simp [e])
    have hr : '\x00' ∉ r := fun e => h (by simp [e])
    simp [List.takeWhile_cons, hc, ih hr]

end Hawk.Fmt

namespace Hawk.Fmt

theorem tmpT1_ge (tmpLen width : Nat) : tmpLen ≤ tmpT1 tmpLen width ∧ width ≤ tmpT1 tmpLen width ∨ width = 0 ∧ tmpT1 tmpLen width = tmpLen := by
  unfold tmpT1 growWithInc; split <;> (try split) <;> omega

theorem tmpT1_mono (tmpLen width : Nat) : tmpLen ≤ tmpT1 tmpLen width := by
  unfold tmpT1 growWithInc; split <;> (try split) <;> omega

theorem tmpT2_ge (t1 need : Nat) : t1 ≤ tmpT2 t1 need ∧ need ≤ tmpT2 t1 need := by
  unfold tmpT2 growWithInc; split <;> (try split) <;> omega

theorem emitIntTmpOf_within (call : Nat → Int × Str) (tmpLen width : Nat) :
    ∀ p ∈ (emitIntTmpOf call tmpLen width).2, p.1 ≤ p.2 := by
  intro p hp
  have h1 := tmpT1_ge tmpLen width
  have hw : (if width > 0 then width else tmpT1 tmpLen width) ≤ tmpT1 tmpLen width := by split <;> omega
  by_cases h : (call (if width > 0 then width else tmpT1 tmpLen width)).1 ≤ -1
  · simp only [emitIntTmpOf, h, if_true, List.mem_cons, List.not_mem_nil, or_false] at hp
    rcases hp with rfl | rfl
    · exact hw
    · exact (tmpT2_ge _ _).2
  · simp only [emitIntTmpOf, h, if_false, List.mem_cons, List.not_mem_nil, or_false] at hp
    subst hp
    exact hw

theorem emitIntTmpOf_mono (call : Nat → Int × Str) (tmpLen width : Nat) : tmpLen ≤ (emitIntTmpOf call tmpLen width).1 := by
  have h1 := tmpT1_mono tmpLen width
  by_cases h : (call (if width > 0 then width else tmpT1 tmpLen width)).1 ≤ -1
  · simp only [emitIntTmpOf, h, if_true]
    exact Nat.le_trans h1 (tmpT2_ge _ _).1
  · simp only [emitIntTmpOf, h, if_false]
    exact h1

end Hawk.Fmt

namespace Hawk.Fmt
theorem numInto_full (size n : Nat) (h : (decimal n).length < size) : (numInto size n).2 = decimal n := by
  have hd : (decimal n).length = (revDigits 10 false n).length := by simp [decimal]
  have hneg : ¬ ((List.length (revDigits 10 false n) : Int) < -1) := by omega
  have hs : ¬ size = 0 := by omega
  unfold numInto fmtUintmaxTo fmtUintmax digitsPart
  simp [put, optStr, decimal, hneg, hs]
  rw [List.take_of_length_le]
  simp; omega
end Hawk.Fmt
namespace Hawk.Fmt
theorem composeInto_eq (capa : Nat) (st : CState) (conv : Char) (h : (recompose st conv).length ≤ capa) :
    composeInto capa st conv = recompose st conv := by
  unfold recompose at h ⊢
  unfold composeInto
  simp only []
  cases hw : st.width <;> cases hd : st.dot <;> cases hp : st.precision <;>
    simp only [hw, hd, hp, if_true, if_false, Bool.false_eq_true, List.append_nil, List.length_append, List.length_cons, List.length_nil] at h ⊢
  all_goals (repeat rw [numInto_full _ _ (by first | omega | (simp only [List.length_append, List.length_cons, List.length_nil]; omega))])
end Hawk.Fmt

namespace Hawk.Fmt

theorem revDigits_length_le (k : Nat) : ∀ v, v < 10 ^ (k + 1) → (revDigits 10 false v).length ≤ k + 1 := by
  induction k with
  | zero =>
    intro v hv
    rw [revDigits_eq 10 false v (by omega)]
    have : ¬ v / 10 > 0 := by simp at hv; omega
    simp [this]
  | succ k ih =>
    intro v hv
    rw [revDigits_eq 10 false v (by omega)]
    split
    · have : v / 10 < 10 ^ (k + 1) := by
        rw [Nat.pow_succ] at hv; omega
      simp only [List.length_cons]
      have := ih _ this
      omega
    · simp

theorem digit_le (c : Char) (hc : c.isDigit = true) : c.toNat - 48 ≤ 9 := by
  simp [Char.isDigit] at hc
  have h2 : c.val.toNat ≤ 57 := by exact_mod_cast hc.2
  show c.val.toNat - 48 ≤ 9
  omega

theorem foldl_dec_lt (ds : Str) (h : ∀ c ∈ ds, c.isDigit = true) (n : Nat) :
    ds.foldl (fun n c => n * 10 + (c.toNat - 48)) n < (n + 1) * 10 ^ ds.length := by
  induction ds generalizing n with
  | nil => simp
  | cons c r ih =>
    have hd := digit_le c (h c (by simp))
    have := ih (fun d hd => h d (by simp [hd])) (n * 10 + (c.toNat - 48))
    simp only [List.foldl_cons, List.length_cons, Nat.pow_succ]
    have h2 : (n * 10 + (c.toNat - 48) + 1) * 10 ^ r.length ≤ ((n + 1) * 10) * 10 ^ r.length :=
      Nat.mul_le_mul_right _ (by omega)
    calc _ < (n * 10 + (c.toNat - 48) + 1) * 10 ^ r.length := this
      _ ≤ ((n + 1) * 10) * 10 ^ r.length := h2
      _ = (n + 1) * (10 ^ r.length * 10) := by rw [Nat.mul_assoc, Nat.mul_comm 10]

theorem decVal_lt (ds : Str) (h : ∀ c ∈ ds, c.isDigit = true) : decVal ds < 10 ^ ds.length := by
  simpa [decVal] using foldl_dec_lt ds h 0

theorem decimal_decVal_length_le (ds : Str) (hne : ds ≠ []) (h : ∀ c ∈ ds, c.isDigit = true) :
    (decimal (decVal ds)).length ≤ ds.length := by
  have hl := decVal_lt ds h
  obtain ⟨k, hk⟩ : ∃ k, ds.length = k + 1 := by
    cases ds with
    | nil => exact absurd rfl hne
    | cons a r => exact ⟨r.length, by simp⟩
  rw [hk] at hl ⊢
  simpa [decimal] using revDigits_length_le k _ hl

end Hawk.Fmt
namespace Hawk.Fmt

theorem flagCount_le (fl : Str) :
    (fl.contains ' ').toNat + (fl.contains '#').toNat + (fl.contains '+').toNat + (fl.contains '-').toNat + (fl.contains '0').toNat ≤ fl.length := by
  induction fl with
  | nil => simp
  | cons x r ih =>
    have hor : ∀ a b : Bool, (a || b).toNat ≤ a.toNat + b.toNat := by decide
    have hx : (' ' == x).toNat + ('#' == x).toNat + ('+' == x).toNat + ('-' == x).toNat + ('0' == x).toNat ≤ 1 := by
      by_cases h1 : ' ' = x
      · subst h1; decide
      by_cases h2 : '#' = x
      · subst h2; decide
      by_cases h3 : '+' = x
      · subst h3; decide
      by_cases h4 : '-' = x
      · subst h4; decide
      by_cases h5 : '0' = x
      · subst h5; decide
      rw [beq_eq_false_iff_ne.mpr h1, beq_eq_false_iff_ne.mpr h2, beq_eq_false_iff_ne.mpr h3, beq_eq_false_iff_ne.mpr h4, beq_eq_false_iff_ne.mpr h5]
      decide
    simp only [List.contains_cons, List.length_cons]
    have a1 := hor (' ' == x) (r.contains ' ')
    have a2 := hor ('#' == x) (r.contains '#')
    have a3 := hor ('+' == x) (r.contains '+')
    have a4 := hor ('-' == x) (r.contains '-')
    have a5 := hor ('0' == x) (r.contains '0')
    omega

theorem len_ite (b : Bool) (x : Char) : (if b = true then [x] else ([] : Str)).length = b.toNat := by cases b <;> rfl

end Hawk.Fmt
namespace Hawk.Fmt

/-- flags and width of the specifier handed to libc -/
def wHead (fl : Str) (w : WSpec) : Str :=
  let neg : Bool := match w with | .star v => decide (v < 0) | _ => false
  let wzero : Bool := match w with | .star v => decide (v = 0) | _ => false
  let minus := fl.contains '-' || neg
  let zero := (fl.contains '0' || wzero) && !minus
  ['%'] ++ (if fl.contains ' ' then [' '] else []) ++ (if fl.contains '#' then ['#'] else [])
    ++ (if fl.contains '+' then ['+'] else []) ++ (if minus then ['-'] else []) ++ (if zero then ['0'] else [])
    ++ (match w with
        | .none => []
        | .lit ds => decimal (decVal ds)
        | .star v => if v = 0 then [] else decimal v.natAbs)

/-- its precision -/
def pPart (p : PSpec) : Str :=
  match p with
  | .none => []
  | .lit ds => '.' :: (if ds = [] then [] else decimal (decVal ds))
  | .star v => if v < 0 then [] else '.' :: decimal v.toNat

theorem libcSpecOf_split (fl : Str) (w : WSpec) (p : PSpec) (c : Char) :
    libcSpecOf fl w p c = wHead fl w ++ pPart p ++ ['L', c] := by
  cases w <;> cases p <;> simp [libcSpecOf, wHead, pPart]

theorem pPart_length_le (tmpLen : Nat) (p : PSpec) (hp : p.wf) : (pPart p).length ≤ (p.fbuText tmpLen).length := by
  unfold pPart
  cases p with
  | none => simp [PSpec.fbuText]
  | lit ds =>
    by_cases hds : ds = []
    · simp [PSpec.fbuText, hds]
    · have := decimal_decVal_length_le ds hds hp
      simp [PSpec.fbuText, hds]; omega
  | star v =>
    by_cases hv : v < 0
    · simp [PSpec.fbuText, hv]
    · simp [PSpec.fbuText, hv, starText_eq, intText_eq]

theorem wHead_length_le (tmpLen : Nat) (fl : Str) (w : WSpec) (hw : w.wf) :
    (wHead fl w).length ≤ 1 + fl.length + (w.fbuText tmpLen).length := by
  have hf := flagCount_le fl
  have hand : ∀ a b : Bool, (a && b).toNat ≤ a.toNat := by decide
  have hb1 : ∀ a : Bool, a.toNat ≤ 1 := by decide
  unfold wHead
  cases w with
  | none =>
    simp only [WSpec.fbuText, List.length_nil, Bool.or_false, decide_false, List.length_append, List.length_cons, len_ite]
    have := hand (fl.contains '0') (!fl.contains '-')
    omega
  | lit ds =>
    have := decimal_decVal_length_le ds hw.1 hw.2.1
    simp only [WSpec.fbuText, Bool.or_false, decide_false, List.length_append, List.length_cons, List.length_nil, len_ite]
    have := hand (fl.contains '0') (!fl.contains '-')
    omega
  | star v =>
    simp only [WSpec.fbuText, starText_eq, intText_eq]
    by_cases hv : v < 0
    · have h1 : (-v).toNat = v.natAbs := by omega
      have h0 : ¬ v = 0 := by omega
      simp only [hv, h0, decide_true, decide_false, Bool.or_true, Bool.not_true, Bool.and_false, if_true, if_false, List.length_cons, h1,
        List.length_append, List.length_nil, len_ite, Bool.toNat_true, Bool.toNat_false]
      omega
    · by_cases h0 : v = 0
      · subst h0
        have hd : (decimal (0 : Int).toNat).length = 1 := by simp [decimal_zero]
        simp only [decide_true, decide_false, Bool.or_true, Bool.or_false, if_true, if_false, List.length_nil, Int.lt_irrefl, Bool.true_and,
          List.length_append, List.length_cons, len_ite, hd]
        have := hb1 (!fl.contains '-')
        omega
      · have h1 : v.toNat = v.natAbs := by omega
        simp only [hv, h0, decide_false, Bool.or_false, if_false, h1, List.length_append, List.length_cons, List.length_nil, len_ite]
        have := hand (fl.contains '0') (!fl.contains '-')
        omega

theorem libcSpecOf_length_le (tmpLen : Nat) (fl : Str) (w : WSpec) (p : PSpec) (wf : SpecWF fl w p) (c : Char) :
    (libcSpecOf fl w p c).length ≤ ('%' :: fl ++ w.fbuText tmpLen ++ p.fbuText tmpLen ++ ['z', c]).length := by
  have h1 := wHead_length_le tmpLen fl w wf.hw
  have h2 := pPart_length_le tmpLen p wf.hp
  rw [libcSpecOf_split]
  simp only [List.length_append, List.length_cons, List.length_nil]
  omega

end Hawk.Fmt

namespace Hawk.Fmt

theorem foldl_add_fields (fl : Str) (f : Flags) :
    (fl.foldl Flags.add f).space = (f.space || fl.contains ' ') ∧
    (fl.foldl Flags.add f).hash = (f.hash || fl.contains '#') ∧
    (fl.foldl Flags.add f).zero = (f.zero || fl.contains '0') ∧
    (fl.foldl Flags.add f).plus = (f.plus || fl.contains '+') ∧
    (fl.foldl Flags.add f).minus = (f.minus || fl.contains '-') := by
  induction fl generalizing f with
  | nil => simp
  | cons c r ih =>
    obtain ⟨i1, i2, i3, i4, i5⟩ := ih (f.add c)
    simp only [List.foldl_cons, List.contains_cons]
    rw [i1, i2, i3, i4, i5]
    by_cases h1 : c = ' '
    · subst h1; simp [Flags.add, Bool.or_assoc]
    by_cases h2 : c = '#'
    · subst h2; simp [Flags.add, Bool.or_assoc]
    by_cases h3 : c = '0'
    · subst h3; simp [Flags.add, Bool.or_assoc]
    by_cases h4 : c = '+'
    · subst h4; simp [Flags.add, Bool.or_assoc]
    by_cases h5 : c = '-'
    · subst h5; simp [Flags.add, Bool.or_assoc]
    have e1 : (' ' == c) = false := beq_eq_false_iff_ne.mpr (fun h => h1 h.symm)
    have e2 : ('#' == c) = false := beq_eq_false_iff_ne.mpr (fun h => h2 h.symm)
    have e3 : ('0' == c) = false := beq_eq_false_iff_ne.mpr (fun h => h3 h.symm)
    have e4 : ('+' == c) = false := beq_eq_false_iff_ne.mpr (fun h => h4 h.symm)
    have e5 : ('-' == c) = false := beq_eq_false_iff_ne.mpr (fun h => h5 h.symm)
    simp [Flags.add, h1, h2, h3, h4, h5, e1, e2, e3, e4, e5]

/-- the specifier handed to libc, written in terms of C's reading `s` of the user's specification -/
def denoteText (s : CSpec.Spec) (w : WSpec) (p : PSpec) : Str :=
  ['%'] ++ (if s.flags.space then [' '] else []) ++ (if s.flags.hash then ['#'] else []) ++ (if s.flags.plus then ['+'] else [])
    ++ (if s.flags.minus then ['-'] else [])
    ++ (if (s.flags.zero || (match w with | .star v => decide (v = 0) | _ => false)) && !s.flags.minus then ['0'] else [])
    ++ (match w with
        | .none => []
        | .lit _ => decimal s.width
        | .star _ => if s.width = 0 then [] else decimal s.width)
    ++ (match p, s.prec with
        | .lit [], _ => ['.']
        | _, none => []
        | _, some n => '.' :: decimal n)
    ++ ['L', s.conv]

theorem libcSpecOf_denotes (fl : Str) (w : WSpec) (p : PSpec) (c : Char) :
    libcSpecOf fl w p c = denoteText (cspec fl w p c) w p := by
  obtain ⟨f1, f2, f3, f4, f5⟩ := foldl_add_fields fl {}
  simp only [Bool.false_or] at f1 f2 f3 f4 f5
  have hn : ∀ n : Nat, ((n : Int) < 0) = False := by intro n; simp
  unfold libcSpecOf denoteText cspec CSpec.resolve flagsOf
  cases w with
  | none =>
    cases p with
    | none => simp [WSpec.val, PSpec.val, f1, f2, f3, f4, f5, hn]
    | lit ds =>
      cases ds with
      | nil => simp [WSpec.val, PSpec.val, f1, f2, f3, f4, f5, decVal_nil, hn]
      | cons d r => simp [WSpec.val, PSpec.val, f1, f2, f3, f4, f5, hn]
    | star v =>
      by_cases hv : v < 0 <;> simp [WSpec.val, PSpec.val, f1, f2, f3, f4, f5, hv, hn]
  | lit ws =>
    cases p with
    | none => simp [WSpec.val, PSpec.val, f1, f2, f3, f4, f5, hn]
    | lit ds =>
      cases ds with
      | nil => simp [WSpec.val, PSpec.val, f1, f2, f3, f4, f5, decVal_nil, hn]
      | cons d r => simp [WSpec.val, PSpec.val, f1, f2, f3, f4, f5, hn]
    | star v =>
      by_cases hv : v < 0 <;> simp [WSpec.val, PSpec.val, f1, f2, f3, f4, f5, hv, hn]
  | star wv =>
    by_cases hw : wv < 0
    · have h0 : ¬ wv = 0 := by omega
      have hna : ¬ wv.natAbs = 0 := by omega
      cases p with
      | none => simp [WSpec.val, PSpec.val, f1, f2, f3, f4, f5, hn, hw, h0, hna]
      | lit ds =>
        cases ds with
        | nil => simp [WSpec.val, PSpec.val, f1, f2, f3, f4, f5, decVal_nil, hn, hw, h0, hna]
        | cons d r => simp [WSpec.val, PSpec.val, f1, f2, f3, f4, f5, hn, hw, h0, hna]
      | star v =>
        by_cases hv : v < 0 <;> simp [WSpec.val, PSpec.val, f1, f2, f3, f4, f5, hv, hn, hw, h0, hna]
    · by_cases h0 : wv = 0
      · subst h0
        cases p with
        | none => simp [WSpec.val, PSpec.val, f1, f2, f3, f4, f5, hn]
        | lit ds =>
          cases ds with
          | nil => simp [WSpec.val, PSpec.val, f1, f2, f3, f4, f5, decVal_nil, hn]
          | cons d r => simp [WSpec.val, PSpec.val, f1, f2, f3, f4, f5, hn]
        | star v =>
          by_cases hv : v < 0 <;> simp [WSpec.val, PSpec.val, f1, f2, f3, f4, f5, hv, hn]
      · have hna : ¬ wv.natAbs = 0 := by omega
        cases p with
        | none => simp [WSpec.val, PSpec.val, f1, f2, f3, f4, f5, hn, hw, h0, hna]
        | lit ds =>
          cases ds with
          | nil => simp [WSpec.val, PSpec.val, f1, f2, f3, f4, f5, decVal_nil, hn, hw, h0, hna]
          | cons d r => simp [WSpec.val, PSpec.val, f1, f2, f3, f4, f5, hn, hw, h0, hna]
        | star v =>
          by_cases hv : v < 0 <;> simp [WSpec.val, PSpec.val, f1, f2, f3, f4, f5, hv, hn, hw, h0, hna]

end Hawk.Fmt
