/-
  C10 (extension) — out of memory is an error, never a crash or a leak:
  the error NUMBER, the collect-and-retry levels and the nested evaluation stack.

  Executable models (core Lean only), transcribed from the C:

  a. error-number plumbing
       hawk_gem_allocmem / hawk_gem_callocmem / hawk_gem_reallocmem        lib/gem.c:27-47
         `ptr = HAWK_MMGR_ALLOC(..); if (!ptr) hawk_gem_seterrnum (gem, HAWK_NULL, HAWK_ENOMEM); return ptr;`
       hawk_rtx_allocmem(rtx, n) = hawk_gem_allocmem(hawk_rtx_getgem(rtx), n)   lib/hawk.h:3531
       hawk_rtx_errortohawk: `hawk->_gem.errnum = rtx->_gem.errnum`             lib/err.c:280
  b. gc_calloc_val (lib/val.c:488) inside hawk_rtx_makemapval (val.c:1255) / hawk_rtx_makearrval
     (val.c:1155) inside a tree of nested evaluations (`Work`), every step followed by the C's
     `if (!v) return HAWK_NULL;`; hawk_rtx_evalcall's frame exit (lib/run.c:7236-7292);
     hawk_rtx_loop / hawk_rtx_callfun + flush_ios_at_end (lib/run.c:1657-1719, 1801-1875);
     hawk_rtx_open's `if (init_rtx(..) <= -1) { hawk_rtx_errortohawk (rtx, hawk); .. return HAWK_NULL; }`
     (lib/run.c:890-908).
  c. hawk_rtx_makeintval's chunk cache (val.c:554-607; hawk_rtx_makefltval val.c:609 is the same code
     on vmgr.rfree/rchunk).

  The event vocabulary (`GcEv`, `requests`, `grants`, `collects`, `frees`) and `Gc`/`Oracle` are the
  ones of HawkModel/Oom.lean; `gcCallocValE_proj`/`makeContainerE_proj` (section 4 below) show that
  forgetting the error number gives back `gcCallocVal` / `makeContainerVal` of Oom.lean.
-/
import HawkModel.Oom
import HawkModel.OomLemmas

namespace Hawk.Oom

/-! ## a. the error number -/

/-- hawk_errnum_t (lib/hawk-cmn.h:895): HAWK_ENOERR, HAWK_ENOMEM, anything else -/
inductive Errnum where
  | noerr
  | enomem
  | other (n : Nat)
deriving Repr, DecidableEq

/-- hawk_gem_t, the part C10 is about: `gem->errnum` -/
structure Gem where
  errnum : Errnum
deriving Repr, DecidableEq

/-- hawk_gem_allocmem / hawk_gem_callocmem / hawk_gem_reallocmem (lib/gem.c:27-47):
    one request to the memory manager; `errnum = HAWK_ENOMEM` exactly when it is refused, untouched
    when it is granted.  Returns (granted, gem, rest of the oracle). -/
def gemAlloc (gm : Gem) (o : Oracle) : Bool × Gem × Oracle :=
  match o.next with
  | (true, o1) => (true, gm, o1)
  | (false, o1) => (false, { gm with errnum := .enomem }, o1)

/-- the part of hawk_rtx_t the value constructors touch -/
structure State where
  /-- rtx->_gem -/
  gem : Gem
  /-- rtx->gc.pressure / threshold -/
  gc : Gc
  /-- length of the free list rtx->vmgr.ifree -/
  ifree : Nat
  /-- number of chunks linked into rtx->vmgr.ichunk (released by hawk_rtx_close) -/
  ichunks : Nat
deriving Repr, DecidableEq

/-- hawk_rtx_allocmem / hawk_rtx_callocmem (lib/hawk.h:3531-3533): gemAlloc on the rtx's own gem -/
def rtxAlloc (s : State) (o : Oracle) : Bool × State × Oracle :=
  let r := gemAlloc s.gem o
  (r.1, { s with gem := r.2.1 }, r.2.2)

/-- hawk_rtx_errortohawk (lib/err.c:280): `hawk->_gem.errnum = rtx->_gem.errnum` -/
def errorToHawk (s : State) (_hawk : Gem) : Gem := { errnum := s.gem.errnum }

/-! ## b. collect-and-retry, level by level -/

/-- outcome of one step / one subtree -/
structure StepRes where
  /-- `false` = the C returned HAWK_NULL (or -1) -/
  ok : Bool
  st : State
  evs : List GcEv
  rest : Oracle
  /-- how many times gc_calloc_val went on to its second hawk_rtx_callocmem (val.c:505) -/
  gcRetries : Nat
  /-- how many times makemapval/makearrval took `goto retry` (val.c:1201, 1308) -/
  ctrRetries : Nat
  /-- blocks held by the values this subtree returned to its caller -/
  owned : Nat
deriving Repr, DecidableEq

/-- forget the error number and the counters: the result type of Oom.lean -/
def StepRes.toCalloc (r : StepRes) : CallocRes := { gc := r.st.gc, granted := r.ok, evs := r.evs, rest := r.rest }

/-- `rtx->gc.pressure[0]++` -/
def State.bump (s : State) : State := { s with gc := { s.gc with p0 := s.gc.p0 + 1 } }

/-- hawk_rtx_gc(rtx, gen) bookkeeping on the state -/
def State.collected (s : State) (gen : Nat) : State := { s with gc := s.gc.collected gen }

/-- gc_calloc_val (val.c:488-513), branch by branch, on the rtx state (so that every refused
    hawk_rtx_callocmem leaves HAWK_ENOMEM in rtx->_gem.errnum). -/
def gcCallocValE (s : State) (o : Oracle) : StepRes :=
  -- if (pressure[0] >= threshold[0]) gc_gen = gc_collect_garbage_auto(rtx);
  let auto := decide (s.gc.p0 ≥ s.gc.t0)
  let gen := if auto then s.gc.autoGen else 0
  let s1 := if auto then s.collected s.gc.autoGen else s
  let ev1 := if auto then [GcEv.collect s.gc.autoGen] else []
  -- gch = hawk_rtx_callocmem(..)
  let a := rtxAlloc s1 o
  if a.1 then
    { ok := true, st := a.2.1.bump, evs := ev1 ++ [.request true], rest := a.2.2,
      gcRetries := 0, ctrRetries := 0, owned := 1 }
  else
    -- if (gc_gen < NUM_GENS - 1) hawk_rtx_gc (rtx, NUM_GENS - 1);
    let s2 := if gen < 2 then a.2.1.collected 2 else a.2.1
    let ev2 := if gen < 2 then [GcEv.collect 2] else []
    -- gch = hawk_rtx_callocmem(..); if (!gch) return HAWK_NULL;
    let b := rtxAlloc s2 a.2.2
    if b.1 then
      { ok := true, st := b.2.1.bump, evs := ev1 ++ [.request false] ++ ev2 ++ [.request true], rest := b.2.2,
        gcRetries := 1, ctrRetries := 0, owned := 1 }
    else
      { ok := false, st := b.2.1, evs := ev1 ++ [.request false] ++ ev2 ++ [.request false], rest := b.2.2,
        gcRetries := 1, ctrRetries := 0, owned := 0 }

/-- hawk_rtx_makemapval / hawk_rtx_makearrval from the label `retry:` on, with the C flag `retried`
    already 1 (val.c:1176-1207 / 1284-1314): a failing container_init frees the value and returns NULL. -/
def makeContainerRetried (s : State) (o : Oracle) : StepRes :=
  let r := gcCallocValE s o
  if !r.ok then r                       -- if (!val) return HAWK_NULL;
  else
    -- hawk_map_init / hawk_arr_init: the container's own table, from the rtx gem
    let a := rtxAlloc r.st r.rest
    if a.1 then { r with st := a.2.1, evs := r.evs ++ [.request true], rest := a.2.2, owned := 2 }
    else
      -- gc_free_val (rtx, val); (retried) return HAWK_NULL;
      { ok := false, st := a.2.1, evs := r.evs ++ [.request false, .freeVal], rest := a.2.2,
        gcRetries := r.gcRetries, ctrRetries := 0, owned := 0 }

/-- hawk_rtx_makemapval / hawk_rtx_makearrval entered with `retried = 0`:
      gc_free_val (rtx, val); if (!retried) { hawk_rtx_gc (rtx, full); retried = 1; goto retry; }
    The `goto retry` is the call of `makeContainerRetried`. -/
def makeContainerE (s : State) (o : Oracle) : StepRes :=
  let r := gcCallocValE s o
  if !r.ok then r
  else
    let a := rtxAlloc r.st r.rest
    if a.1 then { r with st := a.2.1, evs := r.evs ++ [.request true], rest := a.2.2, owned := 2 }
    else
      let r2 := makeContainerRetried (a.2.1.collected 2) a.2.2
      { r2 with evs := r.evs ++ [.request false, .freeVal, .collect 2] ++ r2.evs,
                gcRetries := r.gcRetries + r2.gcRetries, ctrRetries := 1 + r2.ctrRetries }

/-- a constructor that makes one plain request and returns NULL when refused:
    hawk_rtx_makerefval with an empty rcache (val.c:1498-1502), make_str_val on a string-cache miss
    (val.c:671-672, behind every hawk_rtx_makestrvalwith*), hawk_rtx_makefunval ... :
    `val = hawk_rtx_callocmem(..); if (!val) return HAWK_NULL;`  (a cache hit makes no request) -/
def plainAlloc (s : State) (o : Oracle) : StepRes :=
  let a := rtxAlloc s o
  { ok := a.1, st := a.2.1, evs := [.request a.1], rest := a.2.2, gcRetries := 0, ctrRetries := 0,
    owned := if a.1 then 1 else 0 }

/-! ## c. hawk_rtx_makeintval: the chunk cache -/

/-- CHUNKSIZE = HAWK_VAL_CHUNK_SIZE (lib/val-prv.h:28) -/
def chunkSize : Nat := 100

/-- hawk_rtx_makeintval (val.c:554-607).  `small` = HAWK_IN_INT_RANGE(v): the value is encoded in the
    pointer, nothing is allocated.  Otherwise, when the free list is empty, ONE chunk of CHUNKSIZE
    slots is requested with hawk_rtx_allocmem — no collection, no second attempt: a refusal returns
    NULL (ENOMEM set by the gem) with ifree/ichunk unchanged.  The slot handed out belongs to the
    chunk, so the value owns no block of its own. -/
def makeIntVal (small : Bool) (s : State) (o : Oracle) : StepRes :=
  if small then { ok := true, st := s, evs := [], rest := o, gcRetries := 0, ctrRetries := 0, owned := 0 }
  else if s.ifree = 0 then
    let a := rtxAlloc s o
    if a.1 then
      -- c->next = ichunk; ichunk = c; ifree = &c->slot[0]; then val = ifree; ifree = val->nde
      { ok := true, st := { a.2.1 with ichunks := a.2.1.ichunks + 1, ifree := chunkSize - 1 },
        evs := [.request true], rest := a.2.2, gcRetries := 0, ctrRetries := 0, owned := 0 }
    else
      { ok := false, st := a.2.1, evs := [.request false], rest := a.2.2, gcRetries := 0, ctrRetries := 0, owned := 0 }
  else
    { ok := true, st := { s with ifree := s.ifree - 1 }, evs := [], rest := o, gcRetries := 0, ctrRetries := 0, owned := 0 }

/-! ## the nested evaluation stack -/

/-- what an evaluation does, as a tree: the leaves are value constructors, `seq a b` is
    `x = a; if (!x) return HAWK_NULL; y = b; if (!y) return HAWK_NULL;` and `call body` is a function
    call frame (hawk_rtx_evalcall). -/
inductive Work where
  | alloc
  | gcval
  | container
  | ival (small : Bool)
  | seq (a b : Work)
  | call (body : Work)
deriving Repr, DecidableEq

/-- run a tree.  A failed step aborts everything above it; nothing on the way up touches errnum.
    `call`: when the body fails (`n <= -1`, run.c:7246) the frame refdowns its arguments and the
    return-value slot (run.c:7236-7238, 7277) — modelled as giving back every block the body's
    completed steps owned — and returns HAWK_NULL; on success the values pass to the caller. -/
def exec : Work → State → Oracle → StepRes
  | .alloc, s, o => plainAlloc s o
  | .gcval, s, o => gcCallocValE s o
  | .container, s, o => makeContainerE s o
  | .ival small, s, o => makeIntVal small s o
  | .seq a b, s, o =>
    let r1 := exec a s o
    if !r1.ok then r1
    else
      let r2 := exec b r1.st r1.rest
      { r2 with evs := r1.evs ++ r2.evs, gcRetries := r1.gcRetries + r2.gcRetries,
                ctrRetries := r1.ctrRetries + r2.ctrRetries, owned := r1.owned + r2.owned }
  | .call body, s, o =>
    let r := exec body s o
    if r.ok then r
    else { r with evs := r.evs ++ List.replicate r.owned .freeVal, owned := 0 }

/-- static node counts -/
def Work.allocs : Work → Nat
  | .alloc => 1 | .gcval => 0 | .container => 0 | .ival _ => 0
  | .seq a b => a.allocs + b.allocs | .call b => b.allocs
def Work.gcvals : Work → Nat
  | .alloc => 0 | .gcval => 1 | .container => 0 | .ival _ => 0
  | .seq a b => a.gcvals + b.gcvals | .call b => b.gcvals
def Work.containers : Work → Nat
  | .alloc => 0 | .gcval => 0 | .container => 1 | .ival _ => 0
  | .seq a b => a.containers + b.containers | .call b => b.containers
def Work.ivals : Work → Nat
  | .alloc => 0 | .gcval => 0 | .container => 0 | .ival _ => 1
  | .seq a b => a.ivals + b.ivals | .call b => b.ivals
/-- blocks the values of a completely executed tree own -/
def Work.blocks : Work → Nat
  | .alloc => 1 | .gcval => 1 | .container => 2 | .ival _ => 0
  | .seq a b => a.blocks + b.blocks | .call b => b.blocks
/-- only gc_calloc_val steps -/
def Work.onlyGcval : Work → Bool
  | .gcval => true
  | .seq a b => a.onlyGcval && b.onlyGcval
  | .call b => b.onlyGcval
  | _ => false

/-! ## the API boundary -/

/-- hawk_rtx_flushallios as seen from here: `none` = returned 0; `some e` = returned -1 having set
    the rtx error number to `e` -/
def flushAllIos (s : State) (fl : Option Errnum) : Bool × State :=
  match fl with
  | none => (true, s)
  | some e => (false, { s with gem := { errnum := e } })

structure ApiRes where
  /-- the API function returned HAWK_NULL -/
  retNull : Bool
  rtx : State
  evs : List GcEv
  rest : Oracle
deriving Repr, DecidableEq

/-- hawk_rtx_loop (run.c:1679) / hawk_rtx_callfun (run.c:1801): run the program in a fresh frame, then
    flush_ios_at_end (run.c:1657):
      if (retv) { if (hawk_rtx_flushallios(rtx) <= -1) { hawk_rtx_refdownval (rtx, retv); retv = HAWK_NULL; } }
      else { hawk_rtx_geterrinf (rtx, &errinf); hawk_rtx_flushallios (rtx); hawk_rtx_seterrinf (rtx, &errinf); }
    NB the C returns HAWK_NULL (a hawk_val_t*), not -1, and does NOT call hawk_rtx_errortohawk. -/
def apiCall (w : Work) (s : State) (o : Oracle) (fl : Option Errnum) : ApiRes :=
  let r := exec (.call w) s o
  if r.ok then
    let f := flushAllIos r.st fl
    if f.1 then { retNull := false, rtx := f.2, evs := r.evs, rest := r.rest }
    else { retNull := true, rtx := f.2, evs := r.evs, rest := r.rest }
  else
    let saved := r.st.gem
    let f := flushAllIos r.st fl
    { retNull := true, rtx := { f.2 with gem := saved }, evs := r.evs, rest := r.rest }

structure OpenRes where
  /-- hawk_rtx_open returned HAWK_NULL -/
  retNull : Bool
  rtx : State
  hawk : Gem
deriving Repr, DecidableEq

/-- hawk_rtx_open (run.c:890-908): `if (init_rtx(rtx, hawk, rio) <= -1) { hawk_rtx_errortohawk (rtx, hawk);
    hawk_freemem (hawk, rtx); return HAWK_NULL; }` (and the same for init_globals): the one place where the
    library itself copies the rtx error to the hawk object.  `w` is the work init_rtx/init_globals do. -/
def rtxOpen (w : Work) (s : State) (hawk : Gem) (o : Oracle) : OpenRes :=
  let r := exec (.call w) s o
  if r.ok then { retNull := false, rtx := r.st, hawk := hawk }
  else { retNull := true, rtx := r.st, hawk := errorToHawk r.st hawk }


/-- a sample heap state for the non-vacuity examples: pressure below every threshold -/
def s0 : State :=
  { gem := { errnum := .noerr }, gc := { p0 := 0, p1 := 0, p2 := 0, p3 := 0, t0 := 10, t1 := 10, t2 := 10 },
    ifree := 0, ichunks := 0 }


/-! ## 4. helper lemmas for Props/C10b.lean (core Lean only) -/

/-! ### the leaves -/

/-- rtxAlloc, case by case on the oracle -/
theorem rtxAlloc_nil (s : State) : rtxAlloc s [] = (true, s, []) := by
  simp [rtxAlloc, gemAlloc, Oracle.next]
theorem rtxAlloc_true (s : State) (o : Oracle) : rtxAlloc s (true :: o) = (true, s, o) := by
  simp [rtxAlloc, gemAlloc, Oracle.next]
theorem rtxAlloc_false (s : State) (o : Oracle) :
    rtxAlloc s (false :: o) = (false, { s with gem := { errnum := .enomem } }, o) := by
  simp [rtxAlloc, gemAlloc, Oracle.next]

/-- the oracle grants every request (`o.all id`, kept folded so that `simp` does not rewrite it) -/
def grantsAll (o : Oracle) : Bool := o.all id
@[simp] theorem grantsAll_nil : grantsAll [] = true := rfl
@[simp] theorem grantsAll_true (o : Oracle) : grantsAll (true :: o) = grantsAll o := by simp [grantsAll]
@[simp] theorem grantsAll_false (o : Oracle) : grantsAll (false :: o) = false := by simp [grantsAll]

/-- forgetting the error number, `gcCallocValE` IS `gcCallocVal` of Oom.lean -/
theorem gcCallocValE_proj (s : State) (o : Oracle) :
    (gcCallocValE s o).toCalloc = gcCallocVal s.gc o := by
  rcases o with _ | ⟨b1, o1⟩
  · by_cases h0 : s.gc.p0 ≥ s.gc.t0 <;>
      simp [gcCallocValE, gcCallocVal, StepRes.toCalloc, rtxAlloc_nil, Oracle.next, h0, State.bump, State.collected]
  · cases b1 with
    | true =>
      by_cases h0 : s.gc.p0 ≥ s.gc.t0 <;>
        simp [gcCallocValE, gcCallocVal, StepRes.toCalloc, rtxAlloc_true, Oracle.next, h0, State.bump, State.collected]
    | false =>
      rcases o1 with _ | ⟨b2, o2⟩
      · by_cases h0 : s.gc.p0 ≥ s.gc.t0 <;> by_cases h2 : s.gc.p2 ≥ s.gc.t2 <;> by_cases h1 : s.gc.p1 ≥ s.gc.t1 <;>
          simp [gcCallocValE, gcCallocVal, StepRes.toCalloc, rtxAlloc_nil, rtxAlloc_false, Oracle.next, h0, h1, h2,
            Gc.autoGen, State.bump, State.collected]
      · cases b2 <;> by_cases h0 : s.gc.p0 ≥ s.gc.t0 <;> by_cases h2 : s.gc.p2 ≥ s.gc.t2 <;>
          by_cases h1 : s.gc.p1 ≥ s.gc.t1 <;>
          simp [gcCallocValE, gcCallocVal, StepRes.toCalloc, rtxAlloc_true, rtxAlloc_false, Oracle.next, h0, h1, h2,
            Gc.autoGen, State.bump, State.collected]

/-- everything the trees need to know about one gc_calloc_val -/
theorem gcCallocValE_spec (s : State) (o : Oracle) :
    let r := gcCallocValE s o
    requests r.evs ≤ 2 ∧ frees r.evs = 0 ∧ r.gcRetries ≤ 1 ∧ r.ctrRetries = 0 ∧
    (r.ok = true → grants r.evs = 1 ∧ r.owned = 1) ∧
    (r.ok = false → grants r.evs = 0 ∧ r.owned = 0 ∧ r.st.gem.errnum = .enomem) ∧
    r.st.ichunks = s.ichunks ∧ r.st.ifree = s.ifree ∧
    (grantsAll o = true → r.ok = true ∧ r.st.gem = s.gem ∧ grantsAll r.rest = true) ∧
    (o.count false ≤ 1 → r.ok = true ∧ r.rest.count false ≤ o.count false) := by
  intro r
  simp only [r]
  rcases o with _ | ⟨b1, o1⟩
  · by_cases h0 : s.gc.p0 ≥ s.gc.t0 <;>
      simp [gcCallocValE, rtxAlloc_nil, h0, State.bump, State.collected, requests, grants, frees]
  · cases b1 with
    | true =>
      by_cases h0 : s.gc.p0 ≥ s.gc.t0 <;>
        simp [gcCallocValE, rtxAlloc_true, h0, State.bump, State.collected, requests, grants, frees]
    | false =>
      rcases o1 with _ | ⟨b2, o2⟩
      · by_cases h0 : s.gc.p0 ≥ s.gc.t0 <;> by_cases h2 : s.gc.p2 ≥ s.gc.t2 <;> by_cases h1 : s.gc.p1 ≥ s.gc.t1 <;>
          simp [gcCallocValE, rtxAlloc_nil, rtxAlloc_false, h0, h1, h2,
            Gc.autoGen, State.bump, State.collected, requests, grants, frees]
      · cases b2 <;> by_cases h0 : s.gc.p0 ≥ s.gc.t0 <;> by_cases h2 : s.gc.p2 ≥ s.gc.t2 <;>
          by_cases h1 : s.gc.p1 ≥ s.gc.t1 <;>
          simp [gcCallocValE, rtxAlloc_true, rtxAlloc_false, h0, h1, h2,
            Gc.autoGen, State.bump, State.collected, requests, grants, frees]

attribute [local simp] requests_append grants_append frees_append requests_cons grants_cons frees_cons
  requests_nil grants_nil frees_nil rtxAlloc_nil rtxAlloc_true rtxAlloc_false

/-- hawk_rtx_makemapval/makearrval after `retried = 1; goto retry` -/
theorem makeContainerRetried_spec (s : State) (o : Oracle) :
    let r := makeContainerRetried s o
    requests r.evs ≤ 3 ∧ r.gcRetries ≤ 1 ∧ r.ctrRetries = 0 ∧
    (r.ok = true → grants r.evs = frees r.evs + 2 ∧ r.owned = 2) ∧
    (r.ok = false → grants r.evs = frees r.evs ∧ r.owned = 0 ∧ r.st.gem.errnum = .enomem) ∧
    r.st.ichunks = s.ichunks ∧ r.st.ifree = s.ifree ∧
    (grantsAll o = true → r.ok = true ∧ r.st.gem = s.gem ∧ grantsAll r.rest = true) := by
  intro r
  have h := gcCallocValE_spec s o
  simp only at h
  obtain ⟨h1, h2, h3, h4, h5, h6, h7, h8, h9, _⟩ := h
  simp only [r, makeContainerRetried]
  cases hok : (gcCallocValE s o).ok with
  | false =>
    obtain ⟨h6a, h6b, h6c⟩ := h6 hok
    have h9' : grantsAll o = true → False := fun ha => by
      have := (h9 ha).1; rw [hok] at this; cases this
    simp only [hok, Bool.not_false, if_true]
    exact ⟨by omega, h3, h4, (fun hc => by cases hc), fun _ => ⟨by omega, h6b, h6c⟩, h7, h8,
      fun ha => (h9' ha).elim⟩
  | true =>
    obtain ⟨h5a, h5b⟩ := h5 hok
    rcases hr : (gcCallocValE s o).rest with _ | ⟨b, o2⟩
    · refine ⟨?_, ?_, ?_, ?_, ?_, ?_, ?_, ?_⟩ <;> (try simp) <;>
        first | omega | (intro ha; have := h9 ha; simp_all)
    · cases b with
      | true =>
        refine ⟨?_, ?_, ?_, ?_, ?_, ?_, ?_, ?_⟩ <;> (try simp) <;>
          first | omega | (intro ha; have := h9 ha; simp_all)
      | false =>
        have hno : grantsAll o = false := by
          cases hga : grantsAll o with
          | false => rfl
          | true => have := (h9 hga).2.2; rw [hr] at this; simp at this
        refine ⟨?_, ?_, ?_, ?_, ?_, ?_, ?_, ?_⟩ <;> (try simp [hno]) <;> omega

/-- hawk_rtx_makemapval/makearrval entered with `retried = 0` -/
theorem makeContainerE_spec (s : State) (o : Oracle) :
    let r := makeContainerE s o
    requests r.evs ≤ 6 ∧ r.gcRetries ≤ 2 ∧ r.ctrRetries ≤ 1 ∧
    (r.ok = true → grants r.evs = frees r.evs + 2 ∧ r.owned = 2) ∧
    (r.ok = false → grants r.evs = frees r.evs ∧ r.owned = 0 ∧ r.st.gem.errnum = .enomem) ∧
    r.st.ichunks = s.ichunks ∧ r.st.ifree = s.ifree ∧
    (grantsAll o = true → r.ok = true ∧ r.st.gem = s.gem ∧ grantsAll r.rest = true) := by
  intro r
  have h := gcCallocValE_spec s o
  simp only at h
  obtain ⟨h1, h2, h3, h4, h5, h6, h7, h8, h9, _⟩ := h
  simp only [r, makeContainerE]
  cases hok : (gcCallocValE s o).ok with
  | false =>
    obtain ⟨h6a, h6b, h6c⟩ := h6 hok
    have h9' : grantsAll o = true → False := fun ha => by
      have := (h9 ha).1; rw [hok] at this; cases this
    simp only [hok, Bool.not_false, if_true]
    exact ⟨by omega, by omega, by omega, (fun hc => by cases hc), fun _ => ⟨by omega, h6b, h6c⟩, h7, h8,
      fun ha => (h9' ha).elim⟩
  | true =>
    obtain ⟨h5a, h5b⟩ := h5 hok
    rcases hr : (gcCallocValE s o).rest with _ | ⟨b, o2⟩
    · refine ⟨?_, ?_, ?_, ?_, ?_, ?_, ?_, ?_⟩ <;> (try simp) <;>
        first | omega | (intro ha; have := h9 ha; simp_all)
    · cases b with
      | true =>
        refine ⟨?_, ?_, ?_, ?_, ?_, ?_, ?_, ?_⟩ <;> (try simp) <;>
          first | omega | (intro ha; have := h9 ha; simp_all)
      | false =>
        have k := makeContainerRetried_spec
          (State.collected { (gcCallocValE s o).st with gem := { errnum := .enomem } } 2) o2
        simp only at k
        obtain ⟨k1, k2, k3, k4, k5, k6, k7, k8⟩ := k
        have k6' : (makeContainerRetried
          (State.collected { (gcCallocValE s o).st with gem := { errnum := .enomem } } 2) o2).st.ichunks
            = s.ichunks := by rw [k6]; simpa [State.collected] using h7
        have k7' : (makeContainerRetried
          (State.collected { (gcCallocValE s o).st with gem := { errnum := .enomem } } 2) o2).st.ifree
            = s.ifree := by rw [k7]; simpa [State.collected] using h8
        have hno : grantsAll o = true → False := fun ha => by
          have := (h9 ha).2.2; rw [hr] at this; simp at this
        refine ⟨?_, ?_, ?_, ?_, ?_, ?_, ?_, ?_⟩ <;> (try simp)
        · omega
        · omega
        · omega
        · intro hk; have := (k4 hk).1; exact ⟨by omega, (k4 hk).2⟩
        · intro hk; have := (k5 hk).1; exact ⟨by omega, (k5 hk).2.1, (k5 hk).2.2⟩
        · exact k6'
        · exact k7'
        · intro ha; exact (hno ha).elim

/-- forgetting the error number, the second pass of makemapval/makearrval IS `makeContainerVal _ true` -/
theorem makeContainerRetried_proj (s : State) (o : Oracle) :
    (makeContainerRetried s o).toCalloc = makeContainerVal s.gc true o := by
  have hp := gcCallocValE_proj s o
  rw [makeContainerVal]
  simp only [← hp, makeContainerRetried, StepRes.toCalloc]
  cases hok : (gcCallocValE s o).ok with
  | false => simp [hok]
  | true =>
    rcases hr : (gcCallocValE s o).rest with _ | ⟨b, o2⟩
    · simp [Oracle.next]
    · cases b <;> simp [Oracle.next]

/-- forgetting the error number, `makeContainerE` IS `makeContainerVal _ false` of Oom.lean -/
theorem makeContainerE_proj (s : State) (o : Oracle) :
    (makeContainerE s o).toCalloc = makeContainerVal s.gc false o := by
  have hp := gcCallocValE_proj s o
  rw [makeContainerVal]
  simp only [← hp, makeContainerE, StepRes.toCalloc]
  cases hok : (gcCallocValE s o).ok with
  | false => simp [hok]
  | true =>
    rcases hr : (gcCallocValE s o).rest with _ | ⟨b, o2⟩
    · simp [Oracle.next]
    · cases b with
      | true => simp [Oracle.next]
      | false =>
        have hq := makeContainerRetried_proj
          (State.collected (State.mk { errnum := .enomem } (gcCallocValE s o).st.gc (gcCallocValE s o).st.ifree (gcCallocValE s o).st.ichunks) 2) o2
        simp only [State.collected, StepRes.toCalloc] at hq
        simp [Oracle.next, ← hq, State.collected]

/-! ### the invariant of one step, and of every tree -/

/-- what a step/subtree started in `s` with oracle `o` guarantees; `nr` bounds the requests,
    `ng`/`nc` the retries at the two levels, `nb` = blocks owned when it completes -/
def StepOK (s : State) (o : Oracle) (r : StepRes) (nr ng nc nb : Nat) : Prop :=
  requests r.evs ≤ nr ∧ r.gcRetries ≤ ng ∧ r.ctrRetries ≤ nc ∧
  (r.ok = false → r.st.gem.errnum = .enomem) ∧
  (grantsAll o = true → r.ok = true ∧ r.st.gem = s.gem ∧ grantsAll r.rest = true) ∧
  grants r.evs + s.ichunks = frees r.evs + r.owned + r.st.ichunks ∧
  (r.ok = true → r.owned = nb) ∧ r.owned ≤ nb ∧ s.ichunks ≤ r.st.ichunks

theorem gcval_ok (s : State) (o : Oracle) : StepOK s o (gcCallocValE s o) 2 1 0 1 := by
  have h := gcCallocValE_spec s o
  simp only at h
  obtain ⟨h1, h2, h3, h4, h5, h6, h7, h8, h9, _⟩ := h
  refine ⟨h1, h3, by omega, fun hk => (h6 hk).2.2, h9, ?_, fun hk => (h5 hk).2, ?_, by omega⟩
  · cases hok : (gcCallocValE s o).ok
    · have := h6 hok; omega
    · have := h5 hok; omega
  · cases hok : (gcCallocValE s o).ok
    · have := h6 hok; omega
    · have := h5 hok; omega

theorem container_ok (s : State) (o : Oracle) : StepOK s o (makeContainerE s o) 6 2 1 2 := by
  have h := makeContainerE_spec s o
  simp only at h
  obtain ⟨h1, h2, h3, h4, h5, h6, h7, h8⟩ := h
  refine ⟨h1, h2, h3, fun hk => (h5 hk).2.2, h8, ?_, fun hk => (h4 hk).2, ?_, by omega⟩
  · cases hok : (makeContainerE s o).ok
    · have := h5 hok; omega
    · have := h4 hok; omega
  · cases hok : (makeContainerE s o).ok
    · have := h5 hok; omega
    · have := h4 hok; omega

theorem alloc_ok (s : State) (o : Oracle) :
    StepOK s o (plainAlloc s o) 1 0 0 1 ∧ ((plainAlloc s o).ok = false → (plainAlloc s o).owned = 0) ∧
    (plainAlloc s o).st.ichunks = s.ichunks := by
  rcases o with _ | ⟨b, o⟩
  · simp [StepOK, plainAlloc]
  · cases b <;> simp [StepOK, plainAlloc]

theorem ival_ok (small : Bool) (s : State) (o : Oracle) :
    StepOK s o (makeIntVal small s o) 1 0 0 0 ∧
    ((makeIntVal small s o).ok = false → (makeIntVal small s o).st.ifree = s.ifree ∧
      (makeIntVal small s o).st.ichunks = s.ichunks) := by
  cases small
  · by_cases hf : s.ifree = 0
    · rcases o with _ | ⟨b, o⟩
      · simp [StepOK, makeIntVal, hf]; omega
      · cases b <;> simp [StepOK, makeIntVal, hf] <;> omega
    · simp [StepOK, makeIntVal, hf]
  · simp [StepOK, makeIntVal]

theorem requests_replicate_free (n : Nat) : requests (List.replicate n GcEv.freeVal) = 0 := by
  induction n with
  | zero => rfl
  | succ n ih => simp [List.replicate_succ, ih]
theorem grants_replicate_free (n : Nat) : grants (List.replicate n GcEv.freeVal) = 0 := by
  induction n with
  | zero => rfl
  | succ n ih => simp [List.replicate_succ, ih]
theorem frees_replicate_free (n : Nat) : frees (List.replicate n GcEv.freeVal) = n := by
  induction n with
  | zero => rfl
  | succ n ih => simp [List.replicate_succ, ih]; omega

/-- the invariant holds for every tree, every state, every failure schedule -/
theorem exec_spec (w : Work) : ∀ (s : State) (o : Oracle),
    StepOK s o (exec w s o) (6 * w.containers + 2 * w.gcvals + w.allocs + w.ivals)
      (w.gcvals + 2 * w.containers) w.containers w.blocks := by
  induction w with
  | alloc =>
    intro s o
    simpa [exec, Work.containers, Work.gcvals, Work.allocs, Work.ivals, Work.blocks] using (alloc_ok s o).1
  | gcval =>
    intro s o
    simpa [exec, Work.containers, Work.gcvals, Work.allocs, Work.ivals, Work.blocks] using gcval_ok s o
  | container =>
    intro s o
    simpa [exec, Work.containers, Work.gcvals, Work.allocs, Work.ivals, Work.blocks] using container_ok s o
  | ival small =>
    intro s o
    simpa [exec, Work.containers, Work.gcvals, Work.allocs, Work.ivals, Work.blocks] using (ival_ok small s o).1
  | seq a b iha ihb =>
    intro s o
    have ha := iha s o
    simp only [exec, Work.containers, Work.gcvals, Work.allocs, Work.ivals, Work.blocks]
    unfold StepOK at ha ⊢
    obtain ⟨a1, a2, a3, a4, a5, a6, a7, a8, a9⟩ := ha
    cases hok : (exec a s o).ok with
    | false =>
      simp only [Bool.not_false, if_true]
      refine ⟨by omega, by omega, by omega, a4, ?_, a6, ?_, by omega, a9⟩
      · intro hg; have := (a5 hg).1; rw [hok] at this; cases this
      · intro hk; rw [hok] at hk; cases hk
    | true =>
      have hb := ihb (exec a s o).st (exec a s o).rest
      unfold StepOK at hb
      obtain ⟨b1, b2, b3, b4, b5, b6, b7, b8, b9⟩ := hb
      have a7' := a7 hok
      simp only [Bool.not_true, Bool.false_eq_true, if_false]
      refine ⟨by simp only [requests_append]; omega, by omega, by omega, b4, ?_,
        by simp only [grants_append, frees_append]; omega, ?_, by omega, by omega⟩
      · intro hg
        obtain ⟨_, g2, g3⟩ := a5 hg
        obtain ⟨g4, g5, g6⟩ := b5 g3
        exact ⟨g4, g5.trans g2, g6⟩
      · intro hk; have := b7 hk; omega
  | call b ih =>
    intro s o
    have hb := ih s o
    simp only [exec, Work.containers, Work.gcvals, Work.allocs, Work.ivals, Work.blocks]
    unfold StepOK at hb ⊢
    obtain ⟨b1, b2, b3, b4, b5, b6, b7, b8, b9⟩ := hb
    cases hok : (exec b s o).ok with
    | true =>
      simp only [if_true]
      exact ⟨b1, b2, b3, b4, b5, b6, b7, b8, b9⟩
    | false =>
      simp only [Bool.false_eq_true, if_false]
      refine ⟨by simp only [requests_append, requests_replicate_free]; omega, b2, b3, fun _ => b4 hok, ?_,
        by simp only [grants_append, frees_append, grants_replicate_free, frees_replicate_free]; omega,
        ?_, by omega, b9⟩
      · intro hg; have := (b5 hg).1; rw [hok] at this; cases this
      · intro hk; exact hk.elim


/-! ### the error number, exactly -/

/-- the error number after a step is ENOMEM iff one of its requests was refused, else what it was;
    and a step only fails after a refusal -/
def ErrOK (s : State) (r : StepRes) : Prop :=
  grants r.evs ≤ requests r.evs ∧ (r.ok = false → grants r.evs < requests r.evs) ∧
  r.st.gem = if grants r.evs = requests r.evs then s.gem else { errnum := .enomem }

theorem gcval_err (s : State) (o : Oracle) : ErrOK s (gcCallocValE s o) := by
  unfold ErrOK
  rcases o with _ | ⟨b1, o1⟩
  · by_cases h0 : s.gc.p0 ≥ s.gc.t0 <;>
      simp [gcCallocValE, h0, State.bump, State.collected, requests, grants]
  · cases b1 with
    | true =>
      by_cases h0 : s.gc.p0 ≥ s.gc.t0 <;>
        simp [gcCallocValE, h0, State.bump, State.collected, requests, grants]
    | false =>
      rcases o1 with _ | ⟨b2, o2⟩
      · by_cases h0 : s.gc.p0 ≥ s.gc.t0 <;> by_cases h2 : s.gc.p2 ≥ s.gc.t2 <;> by_cases h1 : s.gc.p1 ≥ s.gc.t1 <;>
          simp [gcCallocValE, h0, h1, h2, Gc.autoGen, State.bump, State.collected, requests, grants]
      · cases b2 <;> by_cases h0 : s.gc.p0 ≥ s.gc.t0 <;> by_cases h2 : s.gc.p2 ≥ s.gc.t2 <;>
          by_cases h1 : s.gc.p1 ≥ s.gc.t1 <;>
          simp [gcCallocValE, h0, h1, h2, Gc.autoGen, State.bump, State.collected, requests, grants]

theorem containerRetried_err (s : State) (o : Oracle) : ErrOK s (makeContainerRetried s o) := by
  obtain ⟨e1, e2, e3⟩ := gcval_err s o
  unfold ErrOK
  simp only [makeContainerRetried]
  cases hok : (gcCallocValE s o).ok with
  | false => simp only [hok, Bool.not_false, if_true]; exact ⟨e1, fun _ => e2 hok, e3⟩
  | true =>
    rcases hr : (gcCallocValE s o).rest with _ | ⟨b, o2⟩
    · refine ⟨by simp; omega, by simp, ?_⟩
      simpa using e3
    · cases b with
      | true =>
        refine ⟨by simp; omega, by simp, ?_⟩
        simpa using e3
      | false =>
        have hne : grants (gcCallocValE s o).evs ≠ requests (gcCallocValE s o).evs + 1 := by omega
        refine ⟨by simp; omega, by simp; omega, ?_⟩
        simp [hne]

theorem container_err (s : State) (o : Oracle) : ErrOK s (makeContainerE s o) := by
  obtain ⟨e1, e2, e3⟩ := gcval_err s o
  unfold ErrOK
  simp only [makeContainerE]
  cases hok : (gcCallocValE s o).ok with
  | false => simp only [hok, Bool.not_false, if_true]; exact ⟨e1, fun _ => e2 hok, e3⟩
  | true =>
    rcases hr : (gcCallocValE s o).rest with _ | ⟨b, o2⟩
    · refine ⟨by simp; omega, by simp, ?_⟩
      simpa using e3
    · cases b with
      | true =>
        refine ⟨by simp; omega, by simp, ?_⟩
        simpa using e3
      | false =>
        obtain ⟨k1, k2, k3⟩ := containerRetried_err
          (State.collected (State.mk { errnum := .enomem } (gcCallocValE s o).st.gc (gcCallocValE s o).st.ifree (gcCallocValE s o).st.ichunks) 2) o2
        have hne : grants (gcCallocValE s o).evs +
            grants (makeContainerRetried
              (State.collected (State.mk { errnum := .enomem } (gcCallocValE s o).st.gc (gcCallocValE s o).st.ifree (gcCallocValE s o).st.ichunks) 2) o2).evs ≠
            requests (gcCallocValE s o).evs + (1 +
            requests (makeContainerRetried
              (State.collected (State.mk { errnum := .enomem } (gcCallocValE s o).st.gc (gcCallocValE s o).st.ifree (gcCallocValE s o).st.ichunks) 2) o2).evs) := by omega
        have kg : (makeContainerRetried
              (State.collected (State.mk { errnum := .enomem } (gcCallocValE s o).st.gc (gcCallocValE s o).st.ifree (gcCallocValE s o).st.ichunks) 2) o2).st.gem
              = { errnum := .enomem } := by
          rw [k3]; split <;> simp [State.collected]
        refine ⟨by simp; omega, by simp; omega, ?_⟩
        simp [hne, kg]

theorem alloc_err (s : State) (o : Oracle) : ErrOK s (plainAlloc s o) := by
  rcases o with _ | ⟨b, o⟩
  · simp [ErrOK, plainAlloc]
  · cases b <;> simp [ErrOK, plainAlloc]

theorem ival_err (small : Bool) (s : State) (o : Oracle) : ErrOK s (makeIntVal small s o) := by
  cases small
  · by_cases hf : s.ifree = 0
    · rcases o with _ | ⟨b, o⟩
      · simp [ErrOK, makeIntVal, hf]
      · cases b <;> simp [ErrOK, makeIntVal, hf]
    · simp [ErrOK, makeIntVal, hf]
  · simp [ErrOK, makeIntVal]

theorem exec_err (w : Work) : ∀ (s : State) (o : Oracle), ErrOK s (exec w s o) := by
  induction w with
  | alloc => intro s o; simpa [exec] using alloc_err s o
  | gcval => intro s o; simpa [exec] using gcval_err s o
  | container => intro s o; simpa [exec] using container_err s o
  | ival small => intro s o; simpa [exec] using ival_err small s o
  | seq a b iha ihb =>
    intro s o
    have ha := iha s o
    simp only [exec]
    cases hok : (exec a s o).ok with
    | false => simpa using ha
    | true =>
      obtain ⟨a1, a2, a3⟩ := ha
      obtain ⟨b1, b2, b3⟩ := ihb (exec a s o).st (exec a s o).rest
      simp only [Bool.not_true, Bool.false_eq_true, if_false]
      unfold ErrOK
      have hsum : (grants (exec a s o).evs + grants (exec b (exec a s o).st (exec a s o).rest).evs =
          requests (exec a s o).evs + requests (exec b (exec a s o).st (exec a s o).rest).evs) ↔
          (grants (exec a s o).evs = requests (exec a s o).evs ∧
           grants (exec b (exec a s o).st (exec a s o).rest).evs =
             requests (exec b (exec a s o).st (exec a s o).rest).evs) := by omega
      refine ⟨by simp only [requests_append, grants_append]; omega, ?_, ?_⟩
      · intro hk; have := b2 hk; simp only [requests_append, grants_append]; omega
      · simp only [requests_append, grants_append, hsum]
        rw [b3, a3]
        by_cases h1 : grants (exec a s o).evs = requests (exec a s o).evs <;>
          by_cases h2 : grants (exec b (exec a s o).st (exec a s o).rest).evs =
            requests (exec b (exec a s o).st (exec a s o).rest).evs <;> simp [h1, h2]
  | call b ih =>
    intro s o
    obtain ⟨b1, b2, b3⟩ := ih s o
    simp only [exec]
    cases hok : (exec b s o).ok with
    | true => simp only [if_true]; exact ⟨b1, b2, b3⟩
    | false =>
      simp only [Bool.false_eq_true, if_false]
      unfold ErrOK
      simp only [requests_append, grants_append, requests_replicate_free, grants_replicate_free, Nat.add_zero]
      exact ⟨b1, fun _ => b2 hok, b3⟩

end Hawk.Oom
