import HawkModel.Awk.Syntax
/-!
# C02 — values of the AWK subset: number↔string conversion, comparison, field splitting,
the tiny regex matcher, printf formatting and the string builtins.

Numbers are integers (`Int`); anything that would leave the exactly-representable profile makes the
operation return `none` ("outside the profile"), which the evaluator turns into `Err.outside`.
-/
namespace Hawk.Awk

/-- an AWK value.  `strnum` is a string that came from input (field, getline, split) and looks numeric:
it compares numerically against numbers (POSIX numeric strings). -/
inductive Val where
  | uninit
  | num (i : Int)
  | str (s : String)
  | strnum (s : String)
  deriving Repr, DecidableEq, Inhabited

/-! ## number → string (canonical decimal) -/

def digitChar (d : Nat) : Char := Char.ofNat (48 + d)

def natDigitsAux (n : Nat) (acc : List Char) : List Char :=
  if n < 10 then digitChar n :: acc else natDigitsAux (n / 10) (digitChar (n % 10) :: acc)
termination_by n
decreasing_by omega

/-- decimal digits of `n`, most significant first; `natDigits 0 = ['0']` -/
def natDigits (n : Nat) : List Char := natDigitsAux n []

def intDigits : Int → List Char
  | .ofNat n => natDigits n
  | .negSucc n => '-' :: natDigits (n + 1)

def intToStr (i : Int) : String := String.ofList (intDigits i)

/-! ## string → number (longest numeric prefix, as `strtod` restricted to integers) -/

def isBlank (c : Char) : Bool := c == ' ' || c == '\t' || c == '\n'

def digitVal (c : Char) : Nat := c.toNat - 48

def parseNat (l : List Char) : Nat := l.foldl (fun a c => a * 10 + digitVal c) 0

structure Scan where
  value : Int
  rest : List Char
  hadDigits : Bool
  deriving Repr, DecidableEq

/-- `p` (lower case) is a case-insensitive prefix of `l` -/
def startsWithCI : List Char → List Char → Bool
  | [], _ => true
  | _ :: _, [] => false
  | a :: p, b :: l => a == b.toLower && startsWithCI p l

/-- numerals the three implementations could read differently (fractions, exponents, hex/octal/binary
prefixes, inf/nan): outside the profile -/
def scanBad (ds rest : List Char) : Bool :=
  match ds, rest with
  | [], '.' :: c :: _ => c.isDigit
  | [], _ => startsWithCI ['i', 'n', 'f'] rest || startsWithCI ['n', 'a', 'n'] rest
  | '0' :: _ :: _, _ => true
  | _, '.' :: _ => true
  | _, 'e' :: _ => true
  | _, 'E' :: _ => true
  | ['0'], 'x' :: _ => true
  | ['0'], 'X' :: _ => true
  | ['0'], 'b' :: _ => true
  | ['0'], 'B' :: _ => true
  | _, _ => false

/-- optional sign: `(negative?, rest)` -/
def splitSign : List Char → Bool × List Char
  | '-' :: t => (true, t)
  | '+' :: t => (false, t)
  | l => (false, l)

/-- two sign characters in a row (`--27`, `-+3`): not a numeral for strtod (value 0 in gawk/mawk) but hawk's
converters (`hawk_*chars_to_int`, `hawk_*chars_to_flt`) accept any run of signs (`"--27" + 0` is 27).  The
property only speaks about canonical numerals, so these strings are outside the profile. -/
def doubleSign : List Char → Bool
  | a :: b :: _ => (a == '-' || a == '+') && (b == '-' || b == '+')
  | _ => false

/-- scan an optionally signed decimal integer after leading blanks; `none` = outside the profile -/
def scanNum (l : List Char) : Option Scan :=
  let l1 := l.dropWhile isBlank
  let sg := splitSign l1
  let ds := sg.2.takeWhile Char.isDigit
  let rest := sg.2.dropWhile Char.isDigit
  if scanBad ds rest || doubleSign l1 then none
  else
    let n : Int := (parseNat ds : Nat)
    some { value := if sg.1 then -n else n, rest := rest, hadDigits := !ds.isEmpty }

def strToNum (s : String) : Option Int := (scanNum s.toList).map (·.value)

def toStr : Val → String
  | .uninit => ""
  | .num i => intToStr i
  | .str s => s
  | .strnum s => s

def toNum : Val → Option Int
  | .uninit => some 0
  | .num i => some i
  | .str s => strToNum s
  | .strnum s => strToNum s

/-- does an input string look numeric (POSIX numeric string)?  Conservative: unscannable forms count as
numeric so that any numeric use of them is reported as outside the profile. -/
def looksNumeric (s : String) : Bool :=
  match scanNum s.toList with
  | none => true
  | some sc => sc.hadDigits && (sc.rest.dropWhile isBlank).isEmpty

/-- value of a string that comes from input -/
def mkInput (s : String) : Val := if looksNumeric s then .strnum s else .str s

def toBool : Val → Option Bool
  | .uninit => some false
  | .num i => some (i != 0)
  | .str s => some (s != "")
  | .strnum s => (strToNum s).map (· != 0)

/-! ## comparison -/

def cmpChars : List Char → List Char → Ordering
  | [], [] => .eq
  | [], _ :: _ => .lt
  | _ :: _, [] => .gt
  | a :: as, b :: bs =>
    if a.toNat < b.toNat then .lt else if b.toNat < a.toNat then .gt else cmpChars as bs

def isNumeric : Val → Bool
  | .uninit => true
  | .num _ => true
  | .strnum _ => true
  | .str _ => false

def cmpInt (x y : Int) : Ordering := if x < y then .lt else if y < x then .gt else .eq

/-- POSIX comparison: numeric iff both operands are numeric (number, numeric string from input, or
uninitialised); otherwise both are converted to strings and compared bytewise -/
def cmpVals (a b : Val) : Option Ordering :=
  if isNumeric a && isNumeric b then
    match toNum a, toNum b with
    | some x, some y => some (cmpInt x y)
    | _, _ => none
  else some (cmpChars (toStr a).toList (toStr b).toList)

def cmpHolds : CmpOp → Ordering → Bool
  | .lt, o => o == .lt
  | .le, o => o != .gt
  | .eq, o => o == .eq
  | .ne, o => o != .eq
  | .gt, o => o == .gt
  | .ge, o => o != .lt

/-! ## arithmetic (exact integers, |result| ≤ 2^53) -/

def limit : Int := 9007199254740992

def inRange (i : Int) : Option Int := if -limit ≤ i && i ≤ limit then some i else none

def powNat (b : Int) : Nat → Int
  | 0 => 1
  | n + 1 => b * powNat b n

def arith (op : BinOp) (x y : Int) : Option Int :=
  match op with
  | .add => inRange (x + y)
  | .sub => inRange (x - y)
  | .mul => inRange (x * y)
  | .div => if y == 0 then none else if x.tmod y == 0 then inRange (x.tdiv y) else none
  | .mod => if y == 0 then none else inRange (x.tmod y)
  | .pow => if y < 0 || y > 64 then none else
            if (x > 1024 || x < -1024) && y > 6 then none else inRange (powNat x y.toNat)

def aopBin : AOp → Option BinOp
  | .set => none
  | .add => some .add
  | .sub => some .sub
  | .mul => some .mul
  | .div => some .div
  | .mod => some .mod
  | .pow => some .pow

/-! ## field splitting -/

def splitBlankAux : List Char → List Char → List (List Char)
  | [], cur => if cur.isEmpty then [] else [cur.reverse]
  | c :: t, cur =>
    if isBlank c then
      (if cur.isEmpty then splitBlankAux t [] else cur.reverse :: splitBlankAux t [])
    else splitBlankAux t (c :: cur)

def splitOnAux (sep : Char) : List Char → List Char → List (List Char)
  | [], cur => [cur.reverse]
  | c :: t, cur => if c == sep then cur.reverse :: splitOnAux sep t [] else splitOnAux sep t (c :: cur)

def splitOn (sep : Char) (l : List Char) : List (List Char) :=
  if l.isEmpty then [] else splitOnAux sep l []

/-- split `s` with separator `fs`: `" "` = blank mode, any other single character = literal;
everything else (regex separators) is outside the profile -/
def splitBy (fs : String) (s : String) : Option (List String) :=
  if fs == " " then some ((splitBlankAux s.toList []).map String.ofList)
  else match fs.toList with
    | [c] => if c == '\\' || c == ' ' then none else some ((splitOn c s.toList).map String.ofList)
    | _ => none

def joinWith (sep : String) : List String → String
  | [] => ""
  | [a] => a
  | a :: b :: t => a ++ sep ++ joinWith sep (b :: t)

/-- records of a file with RS = "\n": a final piece without newline is a record iff it is non-empty -/
def splitRecords (content : String) : List String :=
  let parts := splitOnAux '\n' content.toList []
  let parts := match parts.reverse with
    | [] :: r => r.reverse
    | _ => parts
  parts.map String.ofList

/-! ## tiny regex matcher -/

def atomMatch : Atom → Char → Bool
  | .ch c, d => c == d
  | .any, _ => true
  | .cls neg cs, d => if neg then !cs.contains d else cs.contains d

/-- do the items match a prefix of `l` (the whole of `l` when `anchorR`)? -/
def matchHere (anchorR : Bool) : List (Atom × Quant) → List Char → Bool
  | [], l => !anchorR || l.isEmpty
  | (a, .one) :: r, l =>
    match l with
    | [] => false
    | c :: t => atomMatch a c && matchHere anchorR r t
  | (a, .opt) :: r, l =>
    matchHere anchorR r l ||
      (match l with
       | [] => false
       | c :: t => atomMatch a c && matchHere anchorR r t)
  | (a, .star) :: r, l =>
    matchHere anchorR r l ||
      (match l with
       | [] => false
       | c :: t => atomMatch a c && matchHere anchorR ((a, .star) :: r) t)
  | (a, .plus) :: r, l =>
    match l with
    | [] => false
    | c :: t => atomMatch a c && matchHere anchorR ((a, .star) :: r) t
termination_by items l => (l.length, items.length)

def optMax : Option Nat → Option Nat → Option Nat
  | none, b => b
  | a, none => a
  | some x, some y => some (if x < y then y else x)

/-- length of the LONGEST match of the items at the start of `l` (`none`: no match there) -/
def matchLen (anchorR : Bool) : List (Atom × Quant) → List Char → Option Nat
  | [], l => if !anchorR || l.isEmpty then some 0 else none
  | (a, .one) :: r, l =>
    match l with
    | [] => none
    | c :: t => if atomMatch a c then (matchLen anchorR r t).map (· + 1) else none
  | (a, .opt) :: r, l =>
    optMax (matchLen anchorR r l)
      (match l with
       | [] => none
       | c :: t => if atomMatch a c then (matchLen anchorR r t).map (· + 1) else none)
  | (a, .star) :: r, l =>
    optMax (matchLen anchorR r l)
      (match l with
       | [] => none
       | c :: t => if atomMatch a c then (matchLen anchorR ((a, .star) :: r) t).map (· + 1) else none)
  | (a, .plus) :: r, l =>
    match l with
    | [] => none
    | c :: t => if atomMatch a c then (matchLen anchorR ((a, .star) :: r) t).map (· + 1) else none
termination_by items l => (l.length, items.length)

/-- leftmost-longest match: (0-based start, length) -/
def findMatchFrom (re : Regex) : List Char → Nat → Option (Nat × Nat)
  | [], pos => (matchLen re.anchorR re.items []).map fun n => (pos, n)
  | c :: t, pos =>
    match matchLen re.anchorR re.items (c :: t) with
    | some n => some (pos, n)
    | none => if re.anchorL then none else findMatchFrom re t (pos + 1)

def findMatch (re : Regex) (s : String) : Option (Nat × Nat) := findMatchFrom re s.toList 0

def matchFrom (re : Regex) : List Char → Bool
  | [] => matchHere re.anchorR re.items []
  | c :: t => matchHere re.anchorR re.items (c :: t) || matchFrom re t

def reMatch (re : Regex) (s : String) : Bool :=
  if re.anchorL then matchHere re.anchorR re.items s.toList else matchFrom re s.toList

/-! ## string builtins -/

def isPrefixOf : List Char → List Char → Bool
  | [], _ => true
  | _ :: _, [] => false
  | a :: p, b :: l => a == b && isPrefixOf p l

/-- 1-based position of the first occurrence of `t` in `s`, 0 if none -/
def indexOfAux (t : List Char) : List Char → Nat → Nat
  | [], pos => if t.isEmpty then pos else 0
  | c :: s, pos => if isPrefixOf t (c :: s) then pos else indexOfAux t s (pos + 1)

def indexOf (s t : String) : Nat := indexOfAux t.toList s.toList 1

/-- substr on integers: `n` characters starting at position `m`, clipped to the string.  A start below 1 is
moved to 1 *without* shortening the length — this is what gawk 5.2.1 and mawk 1.3.4 agree on for `m = 0`
(for `m < 0` they differ from each other, so those cases are discarded by the reference oracle anyway). -/
def substr (s : String) (m : Int) (n : Option Int) : String :=
  let l := s.toList
  let len : Int := l.length
  let start : Int := if m < 1 then 1 else m
  let stop : Int := match n with
    | none => len + 1
    | some n => if start + n < len + 1 then start + n else len + 1
  if stop ≤ start then "" else String.ofList ((l.drop (start - 1).toNat).take (stop - start).toNat)

def mapChars (f : Char → Char) (s : String) : String := String.ofList (s.toList.map f)

/-- expand `&` (matched text) and `\&` (literal ampersand) in a sub/gsub replacement -/
def expandRepl (matched : List Char) : List Char → Option (List Char)
  | [] => some []
  | '\\' :: '&' :: t => (expandRepl matched t).map ('&' :: ·)
  | '\\' :: _ => none
  | '&' :: t => (expandRepl matched t).map (matched ++ ·)
  | c :: t => (expandRepl matched t).map (c :: ·)

/-- literal-pattern sub/gsub: returns (number of replacements, new string).  `fuel` ≥ length suffices. -/
def substAux (global : Bool) (pat rep : List Char) : Nat → List Char → Nat × List Char
  | 0, l => (0, l)
  | fuel + 1, l =>
    match l with
    | [] => (0, [])
    | c :: t =>
      if isPrefixOf pat (c :: t) then
        if global then
          let r := substAux global pat rep fuel ((c :: t).drop pat.length)
          (r.1 + 1, rep ++ r.2)
        else (1, rep ++ (c :: t).drop pat.length)
      else
        let r := substAux global pat rep fuel t
        (r.1, c :: r.2)

def substLit (global : Bool) (pat repl target : String) : Option (Nat × String) :=
  if pat.toList.isEmpty then none else
  match expandRepl pat.toList repl.toList with
  | none => none
  | some rep =>
    let r := substAux global pat.toList rep (target.toList.length + 1) target.toList
    some (r.1, String.ofList r.2)

/-- regular-expression sub/gsub, leftmost-longest, non-overlapping.  `none` = outside the profile (the expression
matched the empty string somewhere — the rules for empty matches differ between awks —, or a bad replacement). -/
def substReAux (global : Bool) (re : Regex) (repl : List Char) : Nat → Bool → List Char → Option (Nat × List Char)
  | 0, _, _ => none
  | fuel + 1, atStart, l =>
    let tryHere : Option Nat := if re.anchorL && !atStart then none else matchLen re.anchorR re.items l
    match tryHere with
    | some 0 => none
    | some n =>
      match expandRepl (l.take n) repl with
      | none => none
      | some rep =>
        if global then
          (substReAux global re repl fuel false (l.drop n)).map fun r => (r.1 + 1, rep ++ r.2)
        else some (1, rep ++ l.drop n)
    | none =>
      match l with
      | [] => some (0, [])
      | c :: t => (substReAux global re repl fuel false t).map fun r => (r.1, c :: r.2)

def substRegex (global : Bool) (re : Regex) (repl target : String) : Option (Nat × String) :=
  (substReAux global re repl.toList (target.toList.length + 2) true target.toList).map fun r => (r.1, String.ofList r.2)

/-! ## printf -/

structure Spec where
  left : Bool := false
  zero : Bool := false
  plus : Bool := false
  space : Bool := false
  alt : Bool := false
  width : Option Nat := none
  prec : Option Nat := none
  deriving Repr, Inhabited

def hexDigit (upper : Bool) (d : Nat) : Char :=
  if d < 10 then Char.ofNat (48 + d) else Char.ofNat ((if upper then 55 else 87) + d)

def toBaseAux (b : Nat) (upper : Bool) : Nat → Nat → List Char → List Char
  | 0, _, acc => acc
  | fuel + 1, n, acc =>
    if n < b then hexDigit upper n :: acc
    else toBaseAux b upper fuel (n / b) (hexDigit upper (n % b) :: acc)

def toBase (b : Nat) (upper : Bool) (n : Nat) : List Char := toBaseAux b upper (n + 1) n []

def rep (n : Nat) (c : Char) : List Char := List.replicate n c

def fmtNumP (sp : Spec) (sign : List Char) (ds : List Char) : List Char :=
  let ds := match sp.prec with
    | some p => rep (p - ds.length) '0' ++ ds
    | none => ds
  let len := sign.length + ds.length
  let w := sp.width.getD 0
  if sp.left then sign ++ ds ++ rep (w - len) ' '
  else if sp.zero && sp.prec.isNone then sign ++ rep (w - len) '0' ++ ds
  else rep (w - len) ' ' ++ sign ++ ds

def fmtNum (sp : Spec) (neg : Bool) (ds : List Char) : List Char :=
  let ds := match sp.prec with
    | some p => rep (p - ds.length) '0' ++ ds
    | none => ds
  let sign : List Char := if neg then ['-'] else if sp.plus then ['+'] else if sp.space then [' '] else []
  let len := sign.length + ds.length
  let w := sp.width.getD 0
  if sp.left then sign ++ ds ++ rep (w - len) ' '
  else if sp.zero && sp.prec.isNone then sign ++ rep (w - len) '0' ++ ds
  else rep (w - len) ' ' ++ sign ++ ds

def fmtText (sp : Spec) (s : List Char) : List Char :=
  let s := match sp.prec with
    | some p => s.take p
    | none => s
  let w := sp.width.getD 0
  if sp.left then s ++ rep (w - s.length) ' ' else rep (w - s.length) ' ' ++ s

def takeDigits (l : List Char) : Nat × List Char :=
  (parseNat (l.takeWhile Char.isDigit), l.dropWhile Char.isDigit)

/-- parse flags `-` `0` `+` space `#` -/
def parseFlags : List Char → Spec → Spec × List Char
  | '-' :: t, sp => parseFlags t { sp with left := true }
  | '0' :: t, sp => parseFlags t { sp with zero := true }
  | '+' :: t, sp => parseFlags t { sp with plus := true }
  | ' ' :: t, sp => parseFlags t { sp with space := true }
  | '#' :: t, sp => parseFlags t { sp with alt := true }
  | l, sp => (sp, l)

/-- after the flags (and a possible `*`): width, precision; returns the spec and the rest starting at the
conversion char -/
def parseSpecW (sp : Spec) (l : List Char) : Spec × List Char :=
  let (sp, l) : Spec × List Char := match l with
    | c :: _ => if c.isDigit then let (w, r) := takeDigits l; ({ sp with width := some w }, r) else (sp, l)
    | [] => (sp, l)
  match l with
  | '.' :: r => let (p, r2) := takeDigits r; ({ sp with prec := some p }, r2)
  | _ => (sp, l)

/-! ### %f %e %g of integers (exact: the value is an integer, rounding of the decimal expansion is half-to-even) -/

def pow10 : Nat → Nat
  | 0 => 1
  | k + 1 => 10 * pow10 k

/-- the first `k` significant digits of `n > 0` (which has `nd` digits), rounded half-to-even, and the decimal
exponent of the result (a carry such as 999 → 1.00e+03 raises it) -/
def roundSig (n nd k : Nat) : Nat × Nat :=
  if nd ≤ k then (n * pow10 (k - nd), nd - 1)
  else
    let d := pow10 (nd - k)
    let q := n / d
    let r := n % d
    let q := if r * 2 > d || (r * 2 == d && q % 2 == 1) then q + 1 else q
    if q == pow10 k then (q / 10, nd) else (q, nd - 1)

def stripZeros (l : List Char) : List Char := (l.reverse.dropWhile (· == '0')).reverse

/-- digits of an e-style number: mantissa `q` with `k` digits, exponent `x` -/
def eStyle (upper alt strip : Bool) (q k x : Nat) : List Char :=
  let ds := natDigits q
  let ds := rep (k - ds.length) '0' ++ ds
  let frac := if strip then stripZeros (ds.drop 1) else ds.drop 1
  let xs := natDigits x
  let xs := if xs.length < 2 then '0' :: xs else xs
  ds.take 1 ++ (if frac.isEmpty then (if alt then ['.'] else []) else '.' :: frac) ++
    [if upper then 'E' else 'e', '+'] ++ xs

/-- the unsigned digits of `%f` / `%e` / `%g` (and upper-case variants) applied to the natural number `n` -/
def fmtFloatDigits (sp : Spec) (conv : Char) (n : Nat) : List Char :=
  let c := conv.toLower
  let upper := conv.isUpper
  let p := sp.prec.getD 6
  let nd := (natDigits n).length
  if c == 'f' then
    natDigits n ++ (if p == 0 then (if sp.alt then ['.'] else []) else '.' :: rep p '0')
  else if c == 'e' then
    if n == 0 then eStyle upper sp.alt false 0 (p + 1) 0
    else let (q, x) := roundSig n nd (p + 1); eStyle upper sp.alt false q (p + 1) x
  else
    -- %g: P significant digits; e-style when the exponent is at least P
    let P := if p == 0 then 1 else p
    if n == 0 then ['0']
    else
      let (q, x) := roundSig n nd P
      if x < P then
        -- f-style with P-1-x decimals, all zero for an integer, stripped: the (rounded) integer itself
        natDigits (q / pow10 (P - 1 - x))
      else eStyle upper false true q P x

/-- format one conversion; `none` = outside the profile -/
def fmtConv (sp : Spec) (conv : Char) (v : Val) : Option (List Char) :=
  if conv == 'f' || conv == 'F' || conv == 'e' || conv == 'E' || conv == 'g' || conv == 'G' then
    -- (`%F` is not in POSIX awk; `#` with %g keeps trailing zeros: both outside the profile)
    if conv == 'F' || (sp.alt && conv.toLower == 'g') then none else
    match toNum v with
    | none => none
    | some i =>
      if i.natAbs > 1000000000000000 then none else
      some (fmtNumP { sp with prec := none } (if i < 0 then ['-'] else if sp.plus then ['+'] else if sp.space then [' '] else [])
              (fmtFloatDigits sp conv i.natAbs))
  else
  if conv == 'd' || conv == 'i' then
    (toNum v).map fun i => fmtNum sp (i < 0) (natDigits i.natAbs)
  else if conv == 'x' || conv == 'X' || conv == 'o' || conv == 'u' then
    match toNum v with
    | none => none
    | some i =>
      if i < 0 then none else
      let b := if conv == 'o' then 8 else if conv == 'u' then 10 else 16
      let ds := toBase b (conv == 'X') i.toNat
      -- `+` and space are defined for signed conversions only
      if sp.plus || sp.space then none else
      if sp.alt && conv == 'u' then none else
      if sp.alt && conv == 'o' then
        -- `#o`: the precision is raised so that the first digit is 0
        let ds' := match sp.prec with
          | some p => rep (p - ds.length) '0' ++ ds
          | none => ds
        let ds' := if ds'.head? == some '0' then ds' else '0' :: ds'
        some (fmtNumP { sp with prec := none } [] ds')
      else if sp.alt && i != 0 then
        some (fmtNumP sp (if conv == 'X' then ['0', 'X'] else ['0', 'x']) ds)
      else some (fmtNumP sp [] ds)
  else if conv == 's' then
    if sp.zero || sp.plus || sp.space || sp.alt then none else some (fmtText sp (toStr v).toList)
  else if conv == 'c' then
    if sp.zero || sp.prec.isSome || sp.plus || sp.space || sp.alt then none else
    match v with
    | .str s => some (fmtText sp (s.toList.take 1))
    | .uninit => none
    | _ =>
      match toNum v with
      | none => none
      | some i => if 1 ≤ i && i ≤ 126 && i != 10 then some (fmtText sp [Char.ofNat i.toNat]) else none
  else none

def formatAux : Nat → List Char → List Val → Option (List Char)
  | 0, _, _ => none
  | fuel + 1, fmt, args =>
    match fmt with
    | [] => some []
    | '%' :: '%' :: t => (formatAux fuel t args).map ('%' :: ·)
    | '%' :: t =>
      let (sp0, r0) := parseFlags t {}
      -- `*`: the field width is the next argument (a negative one means left-justified)
      let star : Option (Spec × List Char × List Val) :=
        match r0 with
        | '*' :: r1 =>
          match args with
          | w :: vs =>
            match toNum w with
            | some n => if n < 0 then some ({ sp0 with left := true, width := some (-n).toNat }, r1, vs)
                        else some ({ sp0 with width := some n.toNat }, r1, vs)
            | none => none
          | [] => none
        | _ => some (sp0, r0, args)
      match star with
      | none => none
      | some (sp1, r1, args1) =>
      let (sp, r) := parseSpecW sp1 r1
      match r with
      | [] => none
      | conv :: r2 =>
        match args1 with
        | [] => none
        | v :: vs =>
          match fmtConv sp conv v with
          | none => none
          | some out => (formatAux fuel r2 vs).map (out ++ ·)
    | c :: t => (formatAux fuel t args).map (c :: ·)

/-- `sprintf(fmt, args…)`; `none` = outside the profile (unsupported conversion, missing argument, …) -/
def format (fmt : String) (args : List Val) : Option String :=
  (formatAux (fmt.toList.length + 1) fmt.toList args).map String.ofList

end Hawk.Awk
