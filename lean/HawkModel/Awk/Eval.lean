import HawkModel.Awk.Value
/-!
# C02 — interpreter state, monad, expression evaluator and statement executor (fuel-indexed)

`eval`/`exec` recurse structurally on a fuel counter that is decremented at every recursive call, so
the functions are total; running out of fuel is the distinct error `Err.fuel` (never a silent
truncation).  `exit` is an abort of the monad (`Res.exit`) carrying the optional status expression's
value: the evaluator has no access to the exit status, only the phase driver (`Run.lean`) records it.
-/
namespace Hawk.Awk

inductive Err where
  | fuel
  | outside (msg : String)
  deriving Repr, DecidableEq, Inhabited

/-- what a variable name is bound to -/
inductive Cell where
  | val (v : Val)
  | arr (id : Nat)
  /-- a function's extra parameter that received no argument: may still become a scalar or a local array -/
  | fresh
  deriving Repr, DecidableEq, Inhabited

abbrev Assoc := List (String × Val)

/-- what is left of the command-line operands: a file with its remaining records, or a `var=value` assignment that
takes effect when it is reached (POSIX: "such an assignment shall occur just prior to the processing of the file
that follows it"; after the last file: before the END actions) -/
inductive Pend where
  | file (name : String) (recs : List String)
  | assign (x : String) (v : String)
  deriving Repr, DecidableEq, Inhabited

def Pend.isFile : Pend → Bool
  | .file _ _ => true
  | .assign _ _ => false

structure St where
  funcs : List Func := []
  globals : List (String × Cell) := []
  locals : List (String × Cell) := []
  arrays : List Assoc := []
  rec0 : String := ""
  /-- does `$0` compare as a numeric string?  True for a record read from input that looks numeric and after
  `$0 = number`; false after `$0 = "string"` and once `$0` has been rebuilt from the fields (gawk; mawk differs
  there and the oracle discards those cases) -/
  rec0num : Bool := false
  fields : List Val := []
  nr : Int := 0
  fnr : Int := 0
  fs : String := " "
  ofs : String := " "
  ors : String := "\n"
  subsep : String := "\x1c"
  filename : String := ""
  /-- main input: remaining files with their remaining records -/
  pending : List Pend := []
  /-- a command-line assignment could not be carried out (array name, value outside the profile): the run is
  reported as outside the profile -/
  fault : Bool := false
  /-- has the head of `pending` been opened (FILENAME set, FNR reset)? -/
  headOpen : Bool := false
  /-- files `getline < name` can open -/
  fsys : List File := []
  readers : List (String × List String) := []
  out : String := ""
  outFiles : List (String × String) := []
  openOuts : List String := []
  /-- per main rule: is its range pattern currently open? -/
  ranges : List Bool := []
  deriving Inhabited

inductive Res (α : Type) where
  | ok (a : α) (s : St)
  | exit (c : Option Int) (s : St)
  | err (e : Err)
  deriving Inhabited

abbrev M (α : Type) := St → Res α

@[inline] def M.pure {α} (a : α) : M α := fun s => .ok a s

@[inline] def M.bind {α β} (m : M α) (f : α → M β) : M β := fun s =>
  match m s with
  | .ok a s' => f a s'
  | .exit c s' => .exit c s'
  | .err e => .err e

instance : Monad M where
  pure := M.pure
  bind := M.bind

def fail {α} (msg : String) : M α := fun _ => .err (.outside msg)

def liftOpt {α} (msg : String) : Option α → M α
  | some a => pure a
  | none => fail msg

def getS : M St := fun s => .ok s s

def modifyS (f : St → St) : M Unit := fun s => .ok () (f s)

/-! ## association lists -/

def setAssoc {β} (k : String) (v : β) : List (String × β) → List (String × β)
  | [] => [(k, v)]
  | (k', v') :: t => if k' == k then (k, v) :: t else (k', v') :: setAssoc k v t

def delAssoc {β} (k : String) : List (String × β) → List (String × β)
  | [] => []
  | (k', v') :: t => if k' == k then t else (k', v') :: delAssoc k t

def setNth {β} (l : List β) (i : Nat) (v : β) : List β := l.set i v

/-! ## records and fields -/

/-- replace `$0` (numeric-string status `numeric`) and re-split it with the current FS -/
def setRecordAs (numeric : Bool) (r : String) : M Unit := fun s =>
  match splitBy s.fs r with
  | none => .err (.outside "FS is not blank mode or a single character")
  | some fl => .ok () { s with rec0 := r, rec0num := numeric, fields := fl.map mkInput }

/-- a record that comes from input -/
def setRecord (r : String) : M Unit := setRecordAs (looksNumeric r) r

def rebuild (s : St) : St := { s with rec0 := joinWith s.ofs (s.fields.map toStr), rec0num := false }

def getField (i : Nat) (s : St) : Val :=
  if i == 0 then (if s.rec0num then .strnum s.rec0 else .str s.rec0)
  else match s.fields[i - 1]? with
    | some v => v
    | none => .str ""   -- nonexistent field: gawk, mawk (and hawk) treat it as the empty *string* (`$9 == 0` is false)

/-- a value stored in a field is a string; numbers keep numeric-string behaviour, and the uninitialised value
stays what it is (`$2 = unset; $2 == 0` and `$2 == ""` both hold in gawk and mawk) -/
def fieldVal : Val → Val
  | .num i => .strnum (intToStr i)
  | v => v

def setField (i : Nat) (v : Val) : M Unit := fun s =>
  if i == 0 then setRecordAs (match v with | .str _ => false | _ => true) (toStr v) s
  else if i > 100000 then .err (.outside "field index too large")
  else
    let fl := if s.fields.length < i then s.fields ++ List.replicate (i - s.fields.length) (.str "") else s.fields
    .ok () (rebuild { s with fields := fl.set (i - 1) (fieldVal v) })

def setNF (n : Int) : M Unit := fun s =>
  if n < 0 || n > 100000 then .err (.outside "NF out of range")
  else
    let k := n.toNat
    let fl := if s.fields.length < k then s.fields ++ List.replicate (k - s.fields.length) (.str "") else s.fields.take k
    .ok () (rebuild { s with fields := fl })

/-! ## variables -/

def unsupportedSpecials : List String :=
  ["RS", "ENVIRON", "ARGC", "ARGV"]

def readSpecial (x : String) (s : St) : Option Val :=
  if x == "NF" then some (.num s.fields.length)
  else if x == "NR" then some (.num s.nr)
  else if x == "FNR" then some (.num s.fnr)
  else if x == "FS" then some (.str s.fs)
  else if x == "OFS" then some (.str s.ofs)
  else if x == "ORS" then some (.str s.ors)
  else if x == "SUBSEP" then some (.str s.subsep)
  else if x == "FILENAME" then some (.str s.filename)
  else none

def readVar (x : String) : M Val := fun s =>
  match s.locals.lookup x with
  | some (.val v) => .ok v s
  | some .fresh => .ok .uninit s
  | some (.arr _) => .err (.outside "array used in scalar context")
  | none =>
    if unsupportedSpecials.contains x then .err (.outside "unsupported special variable") else
    match readSpecial x s with
    | some v => .ok v s
    | none =>
      match s.globals.lookup x with
      | some (.val v) => .ok v s
      | some .fresh => .ok .uninit s
      | some (.arr _) => .err (.outside "array used in scalar context")
      | none => .ok .uninit s

def writeSpecial (x : String) (v : Val) : Option (M Unit) :=
  if x == "NF" then some (do let n ← liftOpt "NF value" (toNum v); setNF n)
  else if x == "NR" then some (do let n ← liftOpt "NR value" (toNum v); modifyS fun s => { s with nr := n })
  else if x == "FNR" then some (do let n ← liftOpt "FNR value" (toNum v); modifyS fun s => { s with fnr := n })
  else if x == "FS" then some (modifyS fun s => { s with fs := toStr v })
  else if x == "OFS" then some (modifyS fun s => { s with ofs := toStr v })
  else if x == "ORS" then some (modifyS fun s => { s with ors := toStr v })
  else if x == "SUBSEP" then some (modifyS fun s => { s with subsep := toStr v })
  else if x == "FILENAME" then some (modifyS fun s => { s with filename := toStr v })
  else none

def writeVar (x : String) (v : Val) : M Unit := fun s =>
  match s.locals.lookup x with
  | some (.arr _) => .err (.outside "scalar assigned to array")
  | some _ => .ok () { s with locals := setAssoc x (.val v) s.locals }
  | none =>
    if unsupportedSpecials.contains x then .err (.outside "unsupported special variable") else
    match writeSpecial x v with
    | some m => m s
    | none =>
      match s.globals.lookup x with
      | some (.arr _) => .err (.outside "scalar assigned to array")
      | _ => .ok () { s with globals := setAssoc x (.val v) s.globals }

/-- the array a name denotes, created on first use.  A parameter that received an *uninitialised scalar*
cannot become an array: README.md "Incompatibility with AWK / Parameter passing" documents that hawk
does not propagate such an array to the caller, so those programs are outside the compatible subset. -/
def resolveArr (x : String) : M Nat := fun s =>
  match s.locals.lookup x with
  | some (.arr id) => .ok id s
  | some .fresh =>
    .ok s.arrays.length { s with arrays := s.arrays ++ [[]], locals := setAssoc x (.arr s.arrays.length) s.locals }
  | some (.val .uninit) => .err (.outside "untyped argument used as array (README: Parameter passing)")
  | some (.val _) => .err (.outside "scalar used as array")
  | none =>
    if unsupportedSpecials.contains x || (readSpecial x s).isSome then .err (.outside "special variable used as array") else
    match s.globals.lookup x with
    | some (.arr id) => .ok id s
    | some (.val _) => .err (.outside "scalar used as array")
    | _ => .ok s.arrays.length { s with arrays := s.arrays ++ [[]], globals := setAssoc x (.arr s.arrays.length) s.globals }

def getArr (id : Nat) (s : St) : Assoc := (s.arrays[id]?).getD []

def putArr (id : Nat) (a : Assoc) : M Unit := modifyS fun s => { s with arrays := s.arrays.set id a }

/-- a resolved assignable location -/
inductive Loc where
  | var (x : String)
  | fld (i : Nat)
  | elem (id : Nat) (key : String)
  deriving Repr, DecidableEq

/-- reading an array element creates it (POSIX) -/
def readLoc : Loc → M Val
  | .var x => readVar x
  | .fld i => fun s => .ok (getField i s) s
  | .elem id key => fun s =>
    match (getArr id s).lookup key with
    | some v => .ok v s
    | none => .ok .uninit { s with arrays := s.arrays.set id (getArr id s ++ [(key, .uninit)]) }

def writeLoc : Loc → Val → M Unit
  | .var x, v => writeVar x v
  | .fld i, v => setField i v
  | .elem id key, v => fun s => .ok () { s with arrays := s.arrays.set id (setAssoc key v (getArr id s)) }

/-- referencing an lvalue creates a missing array element even when nothing is stored afterwards
(`getline A[k] < file` that fails or hits end of file: gawk and mawk agree) -/
def touchLoc : Loc → M Unit
  | .elem id key => do
    let _ ← readLoc (.elem id key)
    pure ()
  | _ => pure ()

def subscript (sep : String) (vs : List Val) : String := joinWith sep (vs.map toStr)

/-! ## input -/

/-- a command-line assignment (`-v var=value` before BEGIN, a `var=value` operand when it is reached): the GLOBAL
variable — never a local of a function that happens to be active — receives the value as a numeric string when it
looks numeric (escape sequences have already been interpreted) -/
def assignGlobal (x v : String) (s : St) : St :=
  match writeVar x (mkInput v) { s with locals := [] } with
  | .ok _ s' => { s' with locals := s.locals }
  | .exit _ s' => { s' with locals := s.locals }
  | .err _ => { s with fault := true }

/-- next record of the main input (command-line operands in order, or standard input when no file is named).
Opening a file sets FILENAME and resets FNR; delivering a record increments NR and FNR; an assignment operand
is carried out when it is reached.  Does not touch `$0`. -/
def readMain : List Pend → Bool → St → Option String × St
  | [], _, s => (none, { s with pending := [], headOpen := false })
  | .assign x v :: rest, _, s => readMain rest false (assignGlobal x v s)
  | .file name recs :: rest, isOpen, s =>
    let s := if isOpen then s else { s with filename := name, fnr := 0 }
    match recs with
    | [] => readMain rest false s
    | r :: rs => (some r, { s with pending := .file name rs :: rest, headOpen := true,
                                   nr := s.nr + 1, fnr := s.fnr + 1 })

def getlineMain (s : St) : Option String × St := readMain s.pending s.headOpen s

inductive FileRead where
  | noFile
  | eof (s : St)
  | got (r : String) (s : St)
  /-- the file is still being written by an open output stream of the program: what a reader sees depends on
  buffering — outside the profile -/
  | busy

def validOutName (name : String) : Bool :=
  !name.isEmpty && name.toList.all (fun c => c.isAlphanum || c == '.' || c == '_')

/-- the file a pipe command writes.  The one command shape inside the profile is `cat > NAME`: the shell truncates
NAME when the command is started and `cat` copies everything the program writes into the pipe -/
def pipeTarget (cmd : String) : Option String :=
  let pre := "cat > ".toList
  let l := cmd.toList
  if pre.isPrefixOf l then
    let name := String.ofList (l.drop pre.length)
    if validOutName name then some name else none
  else none

/-- does the open output stream with key `k` (a file name for `>`/`>>`, the command text for `|`) write file `name`? -/
def writesTo (name : String) (k : String) : Bool := k == name || pipeTarget k == some name

/-- the first record of a file that is opened for reading (and the reader that is registered for it) -/
def openReader (name : String) (content : String) (s : St) : FileRead :=
  match splitRecords content with
  | [] => .eof { s with readers := setAssoc name [] s.readers }
  | r :: rs => .got r { s with readers := setAssoc name rs s.readers }

/-- next record of a named file (`getline < name`): opens it on first use; changes neither NR nor FNR.  A file the
program itself has written (through `>`, `>>` or a `| "cat > name"` pipe) can be read back once every output stream
writing it has been closed: the reader then sees exactly what was written, in the order it was written -/
def readFile (name : String) (s : St) : FileRead :=
  match s.readers.lookup name with
  | some [] => .eof s
  | some (r :: rs) => .got r { s with readers := setAssoc name rs s.readers }
  | none =>
    match s.fsys.find? (fun f => f.name == name) with
    | some f => openReader name f.content s
    | none =>
      if s.openOuts.any (writesTo name) then .busy else
      match s.outFiles.lookup name with
      | none => .noFile
      | some content => openReader name content s

/-- what an input-pipe command delivers -/
inductive CmdSrc where
  | file (name : String)   -- `cat NAME`
  | text (t : String)      -- `echo WORDS`
  deriving DecidableEq, Repr

def isWord (w : List Char) : Bool := !w.isEmpty && w.all Char.isAlphanum

/-- the two command shapes inside the profile: `cat NAME` and `echo w1 w2 …` (alphanumeric words, single blanks) -/
def cmdSource (cmd : String) : Option CmdSrc :=
  let l := cmd.toList
  if "cat ".toList.isPrefixOf l then
    let name := String.ofList (l.drop 4)
    if validOutName name then some (.file name) else none
  else if "echo ".toList.isPrefixOf l then
    let ws := splitOn ' ' (l.drop 5)
    if ws.all isWord then some (.text (String.ofList (l.drop 5) ++ "\n")) else none
  else none

/-- does the open reader with key `k` (a file name, or the command text of an input pipe) read file `name`? -/
def readsFrom (name : String) (k : String) : Bool := k == name || cmdSource k == some (.file name)

/-- next record of an input pipe (`cmd | getline`): the command is started on first use (its reader is kept under the
command text, so `close(cmd)` restarts it).  `.busy` = outside the profile (unknown command, `cat` of a file that
does not exist or is still being written) -/
def readCmd (cmd : String) (s : St) : FileRead :=
  match s.readers.lookup cmd with
  | some [] => .eof s
  | some (r :: rs) => .got r { s with readers := setAssoc cmd rs s.readers }
  | none =>
    match cmdSource cmd with
    | none => .busy
    | some (.text t) => openReader cmd t s
    | some (.file name) =>
      match s.fsys.find? (fun f => f.name == name) with
      | some f => openReader cmd f.content s
      | none =>
        if s.openOuts.any (writesTo name) then .busy else
        match s.outFiles.lookup name with
        | none => .busy
        | some content => openReader cmd content s

/-! ## output -/

/-- append `text` to the output stream with key `key` writing file `name`; opening it truncates the file unless
`append`.  Outside the profile: a second stream on a file that another open stream writes, writing a file that is
being read, writing an input file -/
def emitStream (append : Bool) (key name : String) (text : String) : M Unit := fun s =>
  if !validOutName name then .err (.outside "output file name") else
  if s.fsys.any (fun f => f.name == name) then .err (.outside "output to an input file") else
  if s.openOuts.contains key then
    .ok () { s with outFiles := setAssoc name (((s.outFiles.lookup name).getD "") ++ text) s.outFiles }
  else if s.openOuts.any (writesTo name) then .err (.outside "two output streams on one file")
  else if s.readers.any (fun kr => readsFrom name kr.1) then .err (.outside "output to a file that is being read")
  else if append then
    .ok () { s with openOuts := key :: s.openOuts,
                    outFiles := setAssoc name (((s.outFiles.lookup name).getD "") ++ text) s.outFiles }
  else
    .ok () { s with openOuts := key :: s.openOuts, outFiles := setAssoc name text s.outFiles }

def emitTo (append : Bool) (name : String) (text : String) : M Unit := emitStream append name name text

/-- `print … | cmd` -/
def emitPipe (cmd : String) (text : String) : M Unit :=
  match pipeTarget cmd with
  | none => fail "pipe command outside the profile"
  | some name => emitStream false cmd name text

def emitStdout (text : String) : M Unit := modifyS fun s => { s with out := s.out ++ text }

def closeStream (name : String) : M Val := fun s =>
  if s.openOuts.contains name || (s.readers.lookup name).isSome then
    .ok (.num 0) { s with openOuts := s.openOuts.filter (· != name), readers := delAssoc name s.readers }
  else .ok (.num (-1)) s

/-! ## builtins -/

def boolVal (b : Bool) : Val := .num (if b then 1 else 0)

def applyBuiltin (b : Builtin) (vs : List Val) : M Val :=
  match b, vs with
  | .length, [] => fun s => .ok (.num (s.rec0.toList.length)) s
  | .length, [v] => pure (.num ((toStr v).toList.length))
  | .substr, [v, m] => do
    let m ← liftOpt "substr start" (toNum m)
    pure (.str (substr (toStr v) m none))
  | .substr, [v, m, n] => do
    let m ← liftOpt "substr start" (toNum m)
    let n ← liftOpt "substr length" (toNum n)
    pure (.str (substr (toStr v) m (some n)))
  | .index, [v, t] =>
    if (toStr t).isEmpty then fail "index with an empty second argument (unspecified by POSIX)"
    else pure (.num (indexOf (toStr v) (toStr t)))
  | .tolower, [v] => pure (.str (mapChars Char.toLower (toStr v)))
  | .toupper, [v] => pure (.str (mapChars Char.toUpper (toStr v)))
  | .int, [v] => do
    let n ← liftOpt "int argument" (toNum v)
    pure (.num n)
  | .sprintf, f :: args => do
    let t ← liftOpt "printf format/argument outside the profile" (format (toStr f) args)
    pure (.str t)
  | _, _ => fail "builtin arity"

/-- control outcome of a statement -/
inductive Ctl where
  | norm
  | brk
  | cont
  | next
  | ret (v : Val)
  deriving Repr, DecidableEq, Inhabited

def lookupFunc (f : String) (s : St) : Option Func := s.funcs.find? (fun fn => fn.name == f)

/-- argument cell for a bare variable name: arrays go by reference, scalars by value -/
def argOfVar (x : String) : M Cell := fun s =>
  match s.locals.lookup x with
  | some (.arr id) => .ok (.arr id) s
  | some (.val v) => .ok (.val v) s
  | some .fresh => .ok (.val .uninit) s
  | none =>
    match s.globals.lookup x with
    | some (.arr id) => .ok (.arr id) s
    | _ =>
      match readVar x s with
      | .ok v s' => .ok (.val v) s'
      | .exit c s' => .exit c s'
      | .err e => .err e

def numVal (msg : String) (v : Val) : M Int := liftOpt msg (toNum v)

mutual

def eval : Nat → Expr → M Val
  | 0, _ => fun _ => .err .fuel
  | fuel + 1, e =>
    match e with
    | .num n => pure (.num n)
    | .str s => pure (.str s)
    | .var x => readVar x
    | .field ie => do
      let v ← eval fuel ie
      let i ← numVal "field index" v
      if i < 0 then fail "negative field index" else
      fun s => .ok (getField i.toNat s) s
    | .idx a subs => do
      let loc ← evalLoc fuel (.idx a subs)
      readLoc loc
    | .isIn subs a => do
      let ks ← evalList fuel subs
      let id ← resolveArr a
      fun s => .ok (boolVal (((getArr id s).lookup (subscript s.subsep ks)).isSome)) s
    | .assign op lv rhs => do
      let loc ← evalLoc fuel lv
      let r ← eval fuel rhs
      match aopBin op with
      | none => do
        writeLoc loc r
        pure r
      | some b => do
        let old ← readLoc loc
        let x ← numVal "operand" old
        let y ← numVal "operand" r
        let z ← liftOpt "arithmetic outside the exact-integer profile" (arith b x y)
        writeLoc loc (.num z)
        pure (.num z)
    | .cond c t f => do
      let b ← evalBool fuel c
      if b then eval fuel t else eval fuel f
    | .and a b => do
      let x ← evalBool fuel a
      if !x then pure (boolVal false) else do
        let y ← evalBool fuel b
        pure (boolVal y)
    | .or a b => do
      let x ← evalBool fuel a
      if x then pure (boolVal true) else do
        let y ← evalBool fuel b
        pure (boolVal y)
    | .not a => do
      let x ← evalBool fuel a
      pure (boolVal !x)
    | .bin op a b => do
      let va ← eval fuel a
      let vb ← eval fuel b
      let x ← numVal "operand" va
      let y ← numVal "operand" vb
      let z ← liftOpt "arithmetic outside the exact-integer profile" (arith op x y)
      pure (.num z)
    | .neg a => do
      let va ← eval fuel a
      let x ← numVal "operand" va
      pure (.num (-x))
    | .pos a => do
      let va ← eval fuel a
      let x ← numVal "operand" va
      pure (.num x)
    | .cmp op a b => do
      let va ← eval fuel a
      let vb ← eval fuel b
      let o ← liftOpt "comparison of a numeral outside the profile" (cmpVals va vb)
      pure (boolVal (cmpHolds op o))
    | .cat a b => do
      let va ← eval fuel a
      let vb ← eval fuel b
      pure (.str (toStr va ++ toStr vb))
    | .incdec pre inc lv => do
      let loc ← evalLoc fuel lv
      let old ← readLoc loc
      let x ← numVal "operand" old
      let y ← liftOpt "arithmetic outside the exact-integer profile" (inRange (if inc then x + 1 else x - 1))
      writeLoc loc (.num y)
      pure (.num (if pre then y else x))
    | .matchRe negated e re => do
      let v ← eval fuel e
      pure (boolVal (reMatch re (toStr v) != negated))
    | .reTest re => fun s => .ok (boolVal (reMatch re s.rec0)) s
    | .call f args => callFn fuel f args
    | .builtin b args => do
      let vs ← evalList fuel args
      applyBuiltin b vs
    | .split se arr sep => do
      let v ← eval fuel se
      let sepS ← (match sep with
        | none => (fun s => .ok s.fs s : M String)
        | some e => do
          let sv ← eval fuel e
          pure (toStr sv))
      let id ← resolveArr arr
      let parts ← liftOpt "split separator outside the profile" (splitBy sepS (toStr v))
      putArr id ((List.range parts.length).zip parts |>.map fun (i, p) => (intToStr (i + 1 : Nat), mkInput p))
      pure (.num parts.length)
    | .subst g pat repl target => do
      let r ← eval fuel repl
      let loc ← (match target with
        | none => (pure (Loc.fld 0) : M Loc)
        | some t => evalLoc fuel t)
      let old ← readLoc loc
      let res ← liftOpt "sub/gsub replacement outside the profile" (substLit g pat (toStr r) (toStr old))
      if res.1 > 0 then do
        writeLoc loc (.str res.2)
        pure (.num res.1)
      else pure (.num 0)
    | .substRe g re repl target => do
      let r ← eval fuel repl
      let loc ← (match target with
        | none => (pure (Loc.fld 0) : M Loc)
        | some t => evalLoc fuel t)
      let old ← readLoc loc
      let res ← liftOpt "sub/gsub: empty match or replacement outside the profile" (substRegex g re (toStr r) (toStr old))
      if res.1 > 0 then do
        writeLoc loc (.str res.2)
        pure (.num res.1)
      else pure (.num 0)
    | .matchFn se re => do
      let v ← eval fuel se
      match findMatch re (toStr v) with
      | some (st, n) => do
        writeVar "RSTART" (.num (st + 1 : Nat))
        writeVar "RLENGTH" (.num (n : Nat))
        pure (.num (st + 1 : Nat))
      | none => do
        writeVar "RSTART" (.num 0)
        writeVar "RLENGTH" (.num (-1))
        pure (.num 0)
    | .getline lv file =>
      match file with
      | none =>
        match lv with
        | none => fun s =>
          match getlineMain s with
          | (none, s') => .ok (.num 0) s'
          | (some r, s') => (do setRecord r; pure (.num 1) : M Val) s'
        | some l => do
          let loc ← evalLoc fuel l
          touchLoc loc
          fun s =>
            match getlineMain s with
            | (none, s') => .ok (.num 0) s'
            | (some r, s') => (do writeLoc loc (mkInput r); pure (.num 1) : M Val) s'
      | some fe => do
        let fv ← eval fuel fe
        match lv with
        | none => fun s =>
          match readFile (toStr fv) s with
          | .noFile => .ok (.num (-1)) s
          | .busy => .err (.outside "getline from a file that is open for output")
          | .eof s' => .ok (.num 0) s'
          | .got r s' => (do setRecord r; pure (.num 1) : M Val) s'
        | some l => do
          let loc ← evalLoc fuel l
          touchLoc loc
          fun s =>
            match readFile (toStr fv) s with
            | .noFile => .ok (.num (-1)) s
            | .busy => .err (.outside "getline from a file that is open for output")
            | .eof s' => .ok (.num 0) s'
            | .got r s' => (do writeLoc loc (mkInput r); pure (.num 1) : M Val) s'
    | .getlineCmd lv ce => do
      let cv ← eval fuel ce
      match lv with
      | none => fun s =>
        match readCmd (toStr cv) s with
        | .noFile => .err (.outside "input pipe command")
        | .busy => .err (.outside "input pipe command outside the profile")
        | .eof s' => .ok (.num 0) s'
        | .got r s' => (do setRecord r; pure (.num 1) : M Val) s'
      | some l => do
        let loc ← evalLoc fuel l
        touchLoc loc
        fun s =>
          match readCmd (toStr cv) s with
          | .noFile => .err (.outside "input pipe command")
          | .busy => .err (.outside "input pipe command outside the profile")
          | .eof s' => .ok (.num 0) s'
          | .got r s' => (do writeLoc loc (mkInput r); pure (.num 1) : M Val) s'
    | .close e => do
      let v ← eval fuel e
      closeStream (toStr v)

def evalBool : Nat → Expr → M Bool
  | 0, _ => fun _ => .err .fuel
  | fuel + 1, e => do
    let v ← eval fuel e
    liftOpt "truth value of a numeral outside the profile" (toBool v)

def evalList : Nat → List Expr → M (List Val)
  | 0, _ => fun _ => .err .fuel
  | _ + 1, [] => pure []
  | fuel + 1, e :: es => do
    let v ← eval fuel e
    let vs ← evalList fuel es
    pure (v :: vs)

def evalLoc : Nat → Expr → M Loc
  | 0, _ => fun _ => .err .fuel
  | fuel + 1, e =>
    match e with
    | .var x => pure (.var x)
    | .field ie => do
      let v ← eval fuel ie
      let i ← numVal "field index" v
      if i < 0 then fail "negative field index" else pure (.fld i.toNat)
    | .idx a subs => do
      let ks ← evalList fuel subs
      let id ← resolveArr a
      fun s => .ok (.elem id (subscript s.subsep ks)) s
    | _ => fail "not an lvalue"

def evalArgs : Nat → List String → List Expr → M (List (String × Cell))
  | 0, _, _ => fun _ => .err .fuel
  | _ + 1, [], [] => pure []
  | _ + 1, [], _ :: _ => fail "too many arguments"
  | fuel + 1, p :: ps, [] => do
    let rest ← evalArgs fuel ps []
    pure ((p, .fresh) :: rest)
  | fuel + 1, p :: ps, a :: as => do
    let c ← (match a with
      | .var x => argOfVar x
      | _ => do
        let v ← eval fuel a
        pure (Cell.val v))
    let rest ← evalArgs fuel ps as
    pure ((p, c) :: rest)

def callFn : Nat → String → List Expr → M Val
  | 0, _, _ => fun _ => .err .fuel
  | fuel + 1, f, args => do
    let s ← getS
    match lookupFunc f s with
    | none => fail "undefined function"
    | some fn => do
      let frame ← evalArgs fuel fn.params args
      let saved ← getS
      modifyS fun s => { s with locals := frame }
      let ctl ← execList fuel fn.body
      modifyS fun s => { s with locals := saved.locals }
      match ctl with
      | .ret v => pure v
      | .norm => pure .uninit
      | _ => fail "break/continue/next escaping a function"

def emit : Nat → Redir → String → M Unit
  | 0, _, _ => fun _ => .err .fuel
  | fuel + 1, r, text =>
    match r with
    | .none => emitStdout text
    | .trunc fe => do
      let v ← eval fuel fe
      emitTo false (toStr v) text
    | .append fe => do
      let v ← eval fuel fe
      emitTo true (toStr v) text
    | .pipe ce => do
      let v ← eval fuel ce
      emitPipe (toStr v) text

def exec : Nat → Stmt → M Ctl
  | 0, _ => fun _ => .err .fuel
  | fuel + 1, st =>
    match st with
    | .expr e => do
      let _ ← eval fuel e
      pure .norm
    | .print args r => do
      let vs ← evalList fuel args
      let s ← getS
      let text := (if args.isEmpty then s.rec0 else joinWith s.ofs (vs.map toStr)) ++ s.ors
      emit fuel r text
      pure .norm
    | .printf args r => do
      let vs ← evalList fuel args
      match vs with
      | [] => fail "printf without format"
      | f :: rest => do
        let text ← liftOpt "printf format/argument outside the profile" (format (toStr f) rest)
        emit fuel r text
        pure .norm
    | .ifElse c t e => do
      let b ← evalBool fuel c
      if b then execList fuel t else execList fuel e
    | .while c body => do
      let b ← evalBool fuel c
      if !b then pure .norm else do
        let ctl ← execList fuel body
        match ctl with
        | .brk => pure .norm
        | .norm => exec fuel (.while c body)
        | .cont => exec fuel (.while c body)
        | other => pure other
    | .doWhile body c => do
      let ctl ← execList fuel body
      match ctl with
      | .brk => pure .norm
      | .next => pure .next
      | .ret v => pure (.ret v)
      | _ => do
        let b ← evalBool fuel c
        if b then exec fuel (.doWhile body c) else pure .norm
    | .for init c step body => do
      match init with
      | none => pure ()
      | some e => do
        let _ ← eval fuel e
        pure ()
      forLoop fuel c step body
    | .forIn v arr body => do
      let id ← resolveArr arr
      let s ← getS
      forInLoop fuel v ((getArr id s).map (·.1)) body
    | .break => pure .brk
    | .continue => pure .cont
    | .next => pure .next
    | .exit none => fun s => .exit none s
    | .exit (some e) => do
      let v ← eval fuel e
      let n ← numVal "exit status" v
      fun s => .exit (some n) s
    | .ret none => pure (.ret .uninit)
    | .ret (some e) => do
      let v ← eval fuel e
      pure (.ret v)
    | .delete a subs => do
      let ks ← evalList fuel subs
      let id ← resolveArr a
      let s ← getS
      putArr id (delAssoc (subscript s.subsep ks) (getArr id s))
      pure .norm
    | .deleteAll a => do
      let id ← resolveArr a
      putArr id []
      pure .norm
    | .block body => execList fuel body

def forLoop : Nat → Option Expr → Option Expr → List Stmt → M Ctl
  | 0, _, _, _ => fun _ => .err .fuel
  | fuel + 1, c, step, body => do
    let b ← (match c with
      | none => (pure true : M Bool)
      | some e => evalBool fuel e)
    if !b then pure .norm else do
      let ctl ← execList fuel body
      match ctl with
      | .brk => pure .norm
      | .next => pure .next
      | .ret v => pure (.ret v)
      | _ => do
        match step with
        | none => pure ()
        | some e => do
          let _ ← eval fuel e
          pure ()
        forLoop fuel c step body

def forInLoop : Nat → String → List String → List Stmt → M Ctl
  | 0, _, _, _ => fun _ => .err .fuel
  | _ + 1, _, [], _ => pure .norm
  | fuel + 1, v, k :: ks, body => do
    writeVar v (.str k)
    let ctl ← execList fuel body
    match ctl with
    | .brk => pure .norm
    | .next => pure .next
    | .ret r => pure (.ret r)
    | _ => forInLoop fuel v ks body

def execList : Nat → List Stmt → M Ctl
  | 0, _ => fun _ => .err .fuel
  | _ + 1, [] => pure .norm
  | fuel + 1, st :: rest => do
    let ctl ← exec fuel st
    match ctl with
    | .norm => execList fuel rest
    | other => pure other

end

end Hawk.Awk
