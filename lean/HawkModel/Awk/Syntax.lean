/-!
# C02 — abstract syntax of the POSIX-compatible AWK subset

The Python generator (`vlib/props/c02.py`) emits every program twice: as awk source text (fed to hawk,
gawk and mawk) and as a prefix/S-expression encoding of the tree below (fed to the Lean model).  No awk
text parser exists on the Lean side.
-/
namespace Hawk.Awk

/-- arithmetic binary operators -/
inductive BinOp where
  | add | sub | mul | div | mod | pow
  deriving Repr, DecidableEq, Inhabited

inductive CmpOp where
  | lt | le | eq | ne | gt | ge
  deriving Repr, DecidableEq, Inhabited

/-- assignment operators: `=`, `+=`, `-=`, `*=`, `/=`, `%=`, `^=` -/
inductive AOp where
  | set | add | sub | mul | div | mod | pow
  deriving Repr, DecidableEq, Inhabited

/-- one regex atom: literal character, `.`, bracket expression (ranges already expanded by the generator) -/
inductive Atom where
  | ch (c : Char)
  | any
  | cls (neg : Bool) (cs : List Char)
  deriving Repr, DecidableEq, Inhabited

inductive Quant where
  | one | star | plus | opt
  deriving Repr, DecidableEq, Inhabited

/-- "literal-ish" ERE: optional `^`, a sequence of quantified atoms, optional `$` (no alternation, no groups) -/
structure Regex where
  anchorL : Bool
  items : List (Atom × Quant)
  anchorR : Bool
  deriving Repr, DecidableEq, Inhabited

/-- string builtins without side effects on program state -/
inductive Builtin where
  | length | substr | index | tolower | toupper | sprintf | int
  deriving Repr, DecidableEq, Inhabited

inductive Expr where
  | num (n : Int)
  | str (s : String)
  | var (x : String)
  | field (e : Expr)
  | idx (a : String) (subs : List Expr)
  | isIn (subs : List Expr) (a : String)
  /-- `lv op= e`; `lv` is a `var`, `field` or `idx` node -/
  | assign (op : AOp) (lv : Expr) (e : Expr)
  | cond (c t f : Expr)
  | and (a b : Expr)
  | or (a b : Expr)
  | not (a : Expr)
  | bin (op : BinOp) (a b : Expr)
  | neg (a : Expr)
  | pos (a : Expr)
  | cmp (op : CmpOp) (a b : Expr)
  | cat (a b : Expr)
  /-- `++lv`, `--lv`, `lv++`, `lv--` -/
  | incdec (pre : Bool) (inc : Bool) (lv : Expr)
  /-- `e ~ /re/` (`negated = false`) or `e !~ /re/` -/
  | matchRe (negated : Bool) (e : Expr) (re : Regex)
  /-- a bare `/re/`, i.e. `$0 ~ /re/` -/
  | reTest (re : Regex)
  | call (f : String) (args : List Expr)
  | builtin (b : Builtin) (args : List Expr)
  /-- `split(s, arr [, sep])` -/
  | split (s : Expr) (arr : String) (sep : Option Expr)
  /-- `sub(/pat/, repl [, target])` / `gsub(...)` with a literal, non-empty pattern -/
  | subst (global : Bool) (pat : String) (repl : Expr) (target : Option Expr)
  /-- `sub(/re/, repl [, target])` / `gsub(...)` with a regular expression that cannot match the empty string -/
  | substRe (global : Bool) (re : Regex) (repl : Expr) (target : Option Expr)
  /-- `match(s, /re/)`: sets RSTART and RLENGTH -/
  | matchFn (s : Expr) (re : Regex)
  /-- `getline`, `getline lv`, `getline < file`, `getline lv < file` -/
  | getline (lv : Option Expr) (file : Option Expr)
  /-- `cmd | getline`, `cmd | getline lv` (commands of the shapes `cat NAME` and `echo WORDS` are inside the profile) -/
  | getlineCmd (lv : Option Expr) (cmd : Expr)
  | close (e : Expr)
  deriving Repr, Inhabited

/-- output redirection of print/printf -/
inductive Redir where
  | none
  | trunc (file : Expr)    -- `> file`
  | append (file : Expr)   -- `>> file`
  | pipe (cmd : Expr)      -- `| command` (only commands of the shape `cat > NAME` are inside the profile)
  deriving Repr, Inhabited

inductive Stmt where
  | expr (e : Expr)
  | print (args : List Expr) (r : Redir)
  | printf (args : List Expr) (r : Redir)
  | ifElse (c : Expr) (t : List Stmt) (e : List Stmt)
  | while (c : Expr) (body : List Stmt)
  | doWhile (body : List Stmt) (c : Expr)
  | for (init : Option Expr) (c : Option Expr) (step : Option Expr) (body : List Stmt)
  | forIn (v : String) (arr : String) (body : List Stmt)
  | break
  | continue
  | next
  | exit (e : Option Expr)
  | ret (e : Option Expr)
  | delete (a : String) (subs : List Expr)
  | deleteAll (a : String)
  | block (body : List Stmt)
  deriving Repr, Inhabited

inductive Pat where
  | always
  | expr (e : Expr)
  | range (b e : Expr)
  deriving Repr, Inhabited

/-- a main (pattern–action) rule; `body = none` means the default action `print $0` -/
structure Rule where
  pat : Pat
  body : Option (List Stmt)
  deriving Repr, Inhabited

structure Func where
  name : String
  params : List String
  body : List Stmt
  deriving Repr, Inhabited

/-- a program: function definitions, BEGIN actions, main rules and END actions, each in source order -/
structure Prog where
  funcs : List Func
  begins : List (List Stmt)
  rules : List Rule
  ends : List (List Stmt)
  deriving Repr, Inhabited

/-- an input file: name and byte content (ASCII in the profile) -/
structure File where
  name : String
  content : String
  deriving Repr, Inhabited

end Hawk.Awk
