import HawkModel.Awk.Eval
/-!
# C02 — the BEGIN → records → END driver, pattern/range rules, `Awk.run`

The phase driver `drive` is generic in the three phase computations so that the phase theorems
(`Props/C02.lean`, `driver_phases_*`) quantify over every program.  The exit status lives only here:
`exit expr` aborts the evaluator monad with `Res.exit (some v)`, a bare `exit` with `Res.exit none`.
-/
namespace Hawk.Awk

/-! ## range patterns -/

/-- pure range automaton: one record, `(fires, open')` -/
def rangeStep (isOpen b e : Bool) : Bool × Bool :=
  if isOpen then (true, !e)
  else if b then (true, !e)
  else (false, false)

/-- the same automaton over an arbitrary monad: the begin pattern is evaluated only while the range is
closed, the end pattern only on records inside the range (including the opening record) -/
def rangeStepM {m : Type → Type} [Monad m] (isOpen : Bool) (evalB evalE : m Bool) : m (Bool × Bool) :=
  if isOpen then do
    let e ← evalE
    pure (true, !e)
  else do
    let b ← evalB
    if b then do
      let e ← evalE
      pure (true, !e)
    else pure (false, false)

/-- run the pure automaton over a whole input: which records fire -/
def rangeRun : Bool → List (Bool × Bool) → List Bool
  | _, [] => []
  | isOpen, (b, e) :: t => (rangeStep isOpen b e).1 :: rangeRun (rangeStep isOpen b e).2 t

/-- does rule number `i` with pattern `p` select the current record? -/
def patFires (fuel : Nat) (i : Nat) : Pat → M Bool
  | .always => pure true
  | .expr e => evalBool fuel e
  | .range b e => do
    let s ← getS
    let r ← rangeStepM (s.ranges.getD i false) (evalBool fuel b) (evalBool fuel e)
    modifyS fun s => { s with ranges := s.ranges.set i r.2 }
    pure r.1

/-- the main rules, in order, on the current record; `next` abandons the remaining rules -/
def runRules (fuel : Nat) : Nat → List Rule → M Unit
  | _, [] => pure ()
  | i, r :: rest => do
    let f ← patFires fuel i r.pat
    if f then do
      let ctl ← (match r.body with
        | none => exec fuel (.print [] .none)
        | some b => execList fuel b)
      match ctl with
      | .next => pure ()
      | .norm => runRules fuel (i + 1) rest
      | _ => fail "break/continue/return outside a loop/function"
    else runRules fuel (i + 1) rest

/-- read records until the main input is exhausted; `budget` bounds the number of records -/
def mainLoop (fuel : Nat) (rules : List Rule) : Nat → M Unit
  | 0 => fun _ => .err .fuel
  | budget + 1 => fun s =>
    match getlineMain s with
    | (none, s') => .ok () s'
    | (some r, s') =>
      (do setRecord r; runRules fuel 0 rules; mainLoop fuel rules budget : M Unit) s'

/-- BEGIN actions or END actions, in source order -/
def runActions (fuel : Nat) : List (List Stmt) → M Unit
  | [] => pure ()
  | a :: rest => do
    let ctl ← execList fuel a
    match ctl with
    | .norm => runActions fuel rest
    | _ => fail "next/break/continue/return at the top of a BEGIN/END action"

/-! ## phases -/

def statusAfter (prev : Int) : Option Int → Int
  | none => prev
  | some c => c

def clearLocals (s : St) : St := { s with locals := [] }

/-- END phase: runs the END actions; an `exit` inside END stops them -/
def finishEnd (E : M Unit) (s : St) (status : Int) : Except Err (St × Int) :=
  match E s with
  | .err e => .error e
  | .exit c s' => .ok (s', statusAfter status c)
  | .ok _ s' => .ok (s', status)

/-- BEGIN phase, main phase (skipped after `exit` in BEGIN), END phase (always, with the status so far) -/
def drive (B Mn E : M Unit) (s0 : St) : Except Err (St × Int) :=
  match B s0 with
  | .err e => .error e
  | .exit c s1 => finishEnd E (clearLocals s1) (statusAfter 0 c)
  | .ok _ s1 =>
    match Mn s1 with
    | .err e => .error e
    | .exit c s2 => finishEnd E (clearLocals s2) (statusAfter 0 c)
    | .ok _ s2 => finishEnd E s2 0

structure Outcome where
  stdout : String
  status : Nat
  files : List (String × String)
  deriving Repr, DecidableEq

def totalRecords (pending : List Pend) : Nat :=
  pending.foldl (fun n p => n + (match p with | .file _ recs => recs.length | .assign _ _ => 0)) 0

/-- a command-line operand: an input file or a `var=value` assignment (value after escape processing) -/
inductive Operand where
  | file (f : File)
  | assign (x : String) (v : String)
  deriving Repr, Inhabited

/-- everything the command line and the environment contribute to a run -/
structure Invocation where
  /-- `-F sepstring` -/
  fsOpt : Option String := none
  /-- `-v var=value` assignments, in command-line order -/
  vars : List (String × String) := []
  operands : List Operand := []
  stdin : String := ""
  /-- other files `getline < name` can open -/
  extra : List File := []
  deriving Inhabited

def operandFiles : List Operand → List File
  | [] => []
  | .file f :: t => f :: operandFiles t
  | .assign _ _ :: t => operandFiles t

def operandPend : Operand → Pend
  | .file f => .file f.name (splitRecords f.content)
  | .assign x v => .assign x v

/-- `-v` assignments, in order -/
def applyVars : List (String × String) → St → St
  | [], s => s
  | (x, v) :: t, s => applyVars t (assignGlobal x v s)

/-- initial state: `-F` and the `-v` assignments are in effect before the first BEGIN action; the operands are pending
(assignments among them are NOT yet carried out); standard input is read when no operand names a file -/
def initStateInv (p : Prog) (inv : Invocation) : St :=
  let base : St :=
    { funcs := p.funcs
      globals := [("CONVFMT", .val (.str "%.6g")), ("OFMT", .val (.str "%.6g")),
                  ("RSTART", .val (.num 0)), ("RLENGTH", .val (.num (-1)))]
      fs := inv.fsOpt.getD " "
      pending := if (operandFiles inv.operands).isEmpty
                 then inv.operands.map operandPend ++ [.file "-" (splitRecords inv.stdin)]
                 else inv.operands.map operandPend
      fsys := operandFiles inv.operands ++ inv.extra
      ranges := List.replicate p.rules.length false }
  applyVars inv.vars base

def runInv (fuel : Nat) (p : Prog) (inv : Invocation) : Except Err Outcome :=
  let s0 := initStateInv p inv
  let mainPhase : M Unit :=
    if p.rules.isEmpty && p.ends.isEmpty then pure ()
    else mainLoop fuel p.rules (totalRecords s0.pending + 1)
  match drive (runActions fuel p.begins) mainPhase (runActions fuel p.ends) s0 with
  | .error e => .error e
  | .ok (s, status) =>
    if s.fault then .error (.outside "command-line assignment outside the profile")
    else .ok { stdout := s.out, status := (status % 256).toNat, files := s.outFiles }

/-- the plain form: files only -/
def initState (p : Prog) (files : List File) (stdin : String) (extra : List File) : St :=
  initStateInv p { operands := files.map .file, stdin := stdin, extra := extra }

def runWith (fuel : Nat) (p : Prog) (files : List File) (stdin : String) (extra : List File) :
    Except Err Outcome :=
  runInv fuel p { operands := files.map .file, stdin := stdin, extra := extra }

def defaultFuel : Nat := 100000

/-- the reference semantics: standard output, exit status and the files written -/
def run (p : Prog) (files : List File) : Except Err Outcome := runWith defaultFuel p files "" []

end Hawk.Awk
