/-
  C14 - nesting limits.  Two models, core Lean only.

  PART 1  (graph): a call graph whose edges carry a class
            0      plain call (no limit check before it)
            1      residual  (plain, and on a cycle of plain calls: an unguarded recursion)
            k+2    cut by class k: the call site is preceded by `if (limit > 0 && counter >= limit) error; counter++`
                   (or the value-stack availability check + push), or by an assumption listed by the extractor
          and the abstract call-stack machine that the guards implement: a call along a cut edge is refused when
          the class counter has reached its limit, otherwise the counter goes up; a return takes it down.

  PART 2  (arithmetic): what each nesting shape family asks of each counter, as a list of requests in the order
          the C code performs its checks, and the verdict of the checks
             parse_expr_withdc / parse_unary / parse_unary_exp / parse_primary_withdc      (parse.c, expr_parse)
             parse_block_dc                                                               (parse.c, block_parse)
             begin_include callers                                                        (parse.c, incl)
             run_block                                                                    (run.c,   block_run)
             eval_expression0                                                             (run.c,   expr_run)
             hawk_rtx_evalcall: HAWK_RTX_STACK_AVAIL(rtx) < 4 + nargs                     (run.c,   stack limit)
-/
namespace Hawk.Depth

/-! ## Part 1: graph and call-stack machine -/

/-- (caller, callee, class) -/
abbrev Edge := Nat × Nat × Nat

@[inline] def Edge.src (e : Edge) : Nat := e.1
@[inline] def Edge.dst (e : Edge) : Nat := e.2.1
@[inline] def Edge.cls (e : Edge) : Nat := e.2.2

/-- a call stack, most recent call first: every call is made by the callee of the call below it -/
def Chain : List Edge → Prop
  | [] => True
  | [_] => True
  | e :: f :: r => e.src = f.dst ∧ Chain (f :: r)

/-- number of calls on the stack that went through a cut (class ≠ 0) -/
def cutCount : List Edge → Nat
  | [] => 0
  | e :: r => (if e.cls = 0 then 0 else 1) + cutCount r

/-- number of calls of class `c` on the stack -/
def clsCount (c : Nat) : List Edge → Nat
  | [] => 0
  | e :: r => (if e.cls = c then 1 else 0) + clsCount c r

/-- the certificate emitted by the extractor: nodes are numbered so that plain calls go strictly upwards -/
def orderedCheck (n : Nat) (es : List Edge) : Bool :=
  es.all fun e => decide (e.src < n) && decide (e.dst < n) && (decide (e.cls ≠ 0) || decide (e.src < e.dst))

def Ordered (n : Nat) (es : List Edge) : Prop :=
  ∀ e ∈ es, e.src < n ∧ e.dst < n ∧ (e.cls = 0 → e.src < e.dst)

/-- node on top of the stack (the function currently executing) -/
def top (root : Nat) : List Edge → Nat
  | [] => root
  | e :: _ => e.dst

structure Graph where
  nNodes : Nat
  edges : List Edge
  /-- number of cut classes: classes are 2 .. nClasses+1 -/
  nClasses : Nat
  /-- configured limit of cut class c (index c-2); the machine refuses the (limit+1)-th simultaneous call -/
  limit : Nat → Nat

structure St where
  stack : List Edge
  ctr : Nat → Nat

inductive Op where
  | call (e : Edge)
  | ret
deriving Repr, DecidableEq

def St.init : St := { stack := [], ctr := fun _ => 0 }

/-- one step of the machine started in function `root`; `none` = the operation is not possible
    (not an edge of the graph, not called from the running function, refused by the guard, empty stack) -/
def step (g : Graph) (root : Nat) (s : St) : Op → Option St
  | .call e =>
    if e ∈ g.edges ∧ e.src = top root s.stack ∧ (e.cls < 2 ∨ s.ctr e.cls < g.limit e.cls) then
      some { stack := e :: s.stack,
             ctr := fun c => if c = e.cls ∧ 2 ≤ e.cls then s.ctr c + 1 else s.ctr c }
    else none
  | .ret =>
    match s.stack with
    | [] => none
    | e :: r => some { stack := r, ctr := fun c => if c = e.cls ∧ 2 ≤ e.cls then s.ctr c - 1 else s.ctr c }

def run (g : Graph) (root : Nat) : St → List Op → Option St
  | s, [] => some s
  | s, o :: os => match step g root s o with
    | none => none
    | some s' => run g root s' os

/-- sum of the limits of all cut classes -/
def sumLimits (limit : Nat → Nat) : Nat → Nat
  | 0 => 0
  | k + 1 => sumLimits limit k + limit (k + 2)

/-- the graph without its residual edges -/
def dropResidual (es : List Edge) : List Edge := es.filter fun e => e.cls != 1

/-- closed walk check: consecutive nodes of `w` (cyclically) are joined by class-`c` edges of `es` -/
def closedWalkCheck (es : List Edge) (c : Nat) (w : List Nat) : Bool :=
  !w.isEmpty && (List.range w.length).all fun j =>
    es.contains (w.getD j 0, w.getD ((j + 1) % w.length) 0, c)

/-- the i-th call when going round the closed walk `w` for ever -/
def cycEdge (w : List Nat) (c : Nat) (i : Nat) : Edge :=
  (w.getD (i % w.length) 0, w.getD ((i % w.length + 1) % w.length) 0, c)

/-- the stack after k calls round the walk -/
def spin (w : List Nat) (c : Nat) : Nat → List Edge
  | 0 => []
  | k + 1 => cycEdge w c k :: spin w c k

/-! ## Part 2: counters -/

inductive Kind where
  | incl | blockParse | exprParse | blockRun | exprRun | stack
deriving Repr, DecidableEq

/-- configured limits (0 = unlimited for the five depth options); `stackOpt` = HAWK_OPT_RTX_STACK_LIMIT as passed
    to hawk_setopt, `stackPragma` = the numbers given to `@pragma stack_limit` (empty = none) -/
structure Limits where
  incl : Nat
  blockParse : Nat
  blockRun : Nat
  exprParse : Nat
  exprRun : Nat
  stackOpt : Nat
  stackPragma : List Nat
deriving Repr

def stackMin : Nat := 512
def stackMax : Nat := 2 ^ 33
def stackDfl : Nat := 5120

/-- hawk_setopt(HAWK_OPT_RTX_STACK_LIMIT) and the `@pragma stack_limit` parser clamp alike -/
def clampStack (v : Nat) : Nat := if v < stackMin then stackMin else if v > stackMax then stackMax else v

/-- parse.c: `if (sl > hawk->parse.pragma.rtx_stack_limit) hawk->parse.pragma.rtx_stack_limit = sl;` starting from 0 -/
def pragmaValue : List Nat → Nat
  | [] => 0
  | v :: r => let rest := pragmaValue r; if clampStack v > rest then clampStack v else rest

/-- run.c init_rtx: pragma value if any, else the option; never below the minimum -/
def effStack (l : Limits) : Nat :=
  let s := if pragmaValue l.stackPragma > 0 then pragmaValue l.stackPragma else l.stackOpt
  if s < stackMin then stackMin else s

/-- the CLI: bin/hawk.c sets 64/50/500/50/500; the library default of the stack limit applies -/
def Limits.cli : Limits :=
  { incl := 64, blockParse := 50, blockRun := 500, exprParse := 50, exprRun := 500, stackOpt := stackDfl, stackPragma := [] }

def Limits.of (l : Limits) : Kind → Nat
  | .incl => l.incl | .blockParse => l.blockParse | .exprParse => l.exprParse
  | .blockRun => l.blockRun | .exprRun => l.exprRun | .stack => effStack l

/-- the depth guard of the C code, for a counter holding `c`: `if (limit > 0 && c >= limit) error;` -/
def guardOk (limit c : Nat) : Bool := !(decide (0 < limit) && decide (limit ≤ c))

/-- going `n` levels down from counter value `c`, checking at each level, then `c++` -/
def descend (limit : Nat) : Nat → Nat → Bool
  | 0, _ => true
  | n + 1, c => guardOk limit c && descend limit n (c + 1)

/-- the stack guard: `if (stack_limit - stack_top < req) error;` (unsigned, stack_top ≤ stack_limit) -/
def stackOk (limit top req : Nat) : Bool := !(decide (limit - top < req))

/-- a request: "enter level `level` of this counter" (the counter holds level-1 when the check runs);
    for the stack: "`level` = stack_top + slots required" -/
structure Req where
  kind : Kind
  level : Nat
deriving Repr, DecidableEq

/-- does the check let the request through? -/
def Req.ok (l : Limits) (r : Req) : Bool :=
  match r.kind with
  | .stack => decide (r.level ≤ effStack l)
  | k => r.level = 0 || guardOk (l.of k) (r.level - 1)

inductive Verdict where
  | ok
  | err (k : Kind)
deriving Repr, DecidableEq

/-- requests are checked in program order; the first refusal is the error reported -/
def verdict (l : Limits) : List Req → Verdict
  | [] => .ok
  | r :: rs => if r.ok l then verdict l rs else .err r.kind

/-- highest level requested of a counter -/
def peak (k : Kind) : List Req → Nat
  | [] => 0
  | r :: rs => if r.kind = k then max r.level (peak k rs) else peak k rs

/-- levels a+1 .. a+n of counter k, in order -/
def ramp (k : Kind) : Nat → Nat → List Req
  | _, 0 => []
  | a, n + 1 => ⟨k, a + 1⟩ :: ramp k (a + 1) n

inductive Family where
  | paren | unary | lnot | leftBin | concat | assign | ternary | block | ifChain | elseIf | whileChain
  | index | call | recur | mapNest | regex | dollar | getline | pipe | incl | seq
  /-- a binary chain inside a function that is never called: parsed and freed, not evaluated -/
  | chainFree
  /-- recursion through a function called with `a` actual arguments that declares `p` more parameters
      (padded with nil), in a program that declares `k` extra globals -/
  | recurPad (a p k : Nat)
  /-- two phases in one run: BEGIN dives `d` calls deep and leaves by `exit`; END then recurses n deep -/
  | exitRec (d : Nat)
  /-- the same first phase; END then nests n blocks -/
  | exitBlk (d : Nat)
deriving Repr, DecidableEq

/-- number of value-stack slots in use when the BEGIN block of the generated programs runs:
    19 built-in globals + ARGC, ARGV, ENVIRON added by hawk_openstd + the 4-slot frame of hawk_rtx_loop -/
def stackBase : Nat := 26

open Kind in
/-- run-time requests of activation j, j+1, ... of `function f(n) { if (n<=0) return 0; return 1+f(n-1) }`
    (`more` further activations follow this one).  While the body of activation j runs, 2+2j expression
    evaluations are active (print, f(..), and `1+f(..)`, `f(..)` per earlier activation) and 1+j blocks; the
    then-part `return 0`, which only the last activation runs, is a statement nested without braces: one more level. -/
def recurFrom : Nat → Nat → List Req
  | 0, j => [⟨stack, stackBase + 5 * j + 5⟩, ⟨blockRun, 2 + j⟩, ⟨exprRun, 2 * j + 4⟩, ⟨blockRun, 3 + j⟩]
  | more + 1, j =>
    [⟨stack, stackBase + 5 * j + 5⟩, ⟨blockRun, 2 + j⟩, ⟨exprRun, 2 * j + 4⟩, ⟨exprRun, 2 * j + 6⟩] ++ recurFrom more (j + 1)

open Kind in
/-- like `recurFrom` for `function f(n, a1.., p1..) { if (n<=0) return 0; return 1+f(n-1, 1, 2, ..) }` called with
    fewer arguments than it declares: hawk_rtx_evalcall asks for the whole frame up front,
    `stack_req = 4 + call->nargs + (fun->nargs - call->nargs)` = `frame`, with `base + frame * j` slots in use -/
def padFrom (frame base : Nat) : Nat → Nat → List Req
  | 0, j => [⟨stack, base + frame * j + frame⟩, ⟨blockRun, 2 + j⟩, ⟨exprRun, 2 * j + 4⟩, ⟨blockRun, 3 + j⟩]
  | more + 1, j =>
    [⟨stack, base + frame * j + frame⟩, ⟨blockRun, 2 + j⟩, ⟨exprRun, 2 * j + 4⟩, ⟨exprRun, 2 * j + 6⟩] ++ padFrom frame base more (j + 1)

open Kind in
/-- nested calls f(f(f(..1..))): level k (1 = outermost) is entered with k+1 evaluations active, its frame
    header (4 slots) stays on the value stack while the argument is evaluated -/
def callFrom : Nat → Nat → List Req
  | 0, _ => []
  | more + 1, k => [⟨exprRun, k + 1⟩, ⟨stack, stackBase + 4 * (k - 1) + 5⟩] ++ callFrom more (k + 1)

open Kind in
/-- parse-time requests of a family at nesting n (the generated program is fixed per family, see vlib/props/c14.py).
    `seq` is the control family: n blocks one after the other, each with the same small nesting - its counters do not
    depend on n (a counter that is not taken down again after a check shows up here). -/
def parseReqs : Family → Nat → List Req
  | .paren, n | .unary, n | .lnot, n | .ternary, n | .index, n | .call, n | .dollar, n | .getline, n | .pipe, n =>
      ⟨blockParse, 1⟩ :: ramp exprParse 0 (n + 2)
  | .assign, n => ⟨blockParse, 1⟩ :: ramp exprParse 0 (n + 1)
  | .leftBin, _ | .concat, _ | .regex, _ => [⟨blockParse, 1⟩, ⟨exprParse, 1⟩, ⟨exprParse, 2⟩]
  -- a statement nested without braces is one block level (parse_statement_withdc): `if(1) if(1) .. x=1`
  | .ifChain, n | .whileChain, n => ramp blockParse 0 (n + 1) ++ [⟨exprParse, 1⟩, ⟨exprParse, 2⟩]
  -- an else-if ladder is parsed in a loop and costs no level; its then-parts and the final else part cost one
  | .elseIf, n => ramp blockParse 0 (1 + min n 1) ++ [⟨exprParse, 1⟩, ⟨exprParse, 2⟩]
  | .block, n => ramp blockParse 0 (n + 1) ++ [⟨exprParse, 1⟩, ⟨exprParse, 2⟩]
  | .recur, _ | .recurPad _ _ _, _ => [⟨blockParse, 1⟩, ⟨blockParse, 2⟩, ⟨exprParse, 1⟩, ⟨exprParse, 2⟩, ⟨exprParse, 3⟩]
  | .chainFree, _ => [⟨blockParse, 1⟩, ⟨exprParse, 1⟩, ⟨exprParse, 2⟩]
  | .exitRec _, _ => [⟨blockParse, 1⟩, ⟨blockParse, 2⟩, ⟨exprParse, 1⟩, ⟨exprParse, 2⟩, ⟨exprParse, 3⟩]
  | .exitBlk _, n => [⟨blockParse, 1⟩, ⟨blockParse, 2⟩, ⟨exprParse, 1⟩, ⟨exprParse, 2⟩, ⟨exprParse, 3⟩] ++ ramp blockParse 0 (n + 1)
  | .mapNest, _ => [⟨blockParse, 1⟩, ⟨exprParse, 1⟩, ⟨exprParse, 2⟩, ⟨blockParse, 2⟩, ⟨exprParse, 3⟩]
  | .incl, n => ramp incl 0 n ++ [⟨blockParse, 1⟩, ⟨exprParse, 1⟩, ⟨exprParse, 2⟩]
  | .seq, _ => ⟨blockParse, 1⟩ :: ⟨blockParse, 2⟩ :: ramp exprParse 0 5

open Kind in
/-- run-time requests (only performed when parsing succeeded) -/
def runReqs : Family → Nat → List Req
  | .paren, _ => [⟨blockRun, 1⟩, ⟨exprRun, 1⟩, ⟨exprRun, 2⟩]
  | .ifChain, n | .whileChain, n => ramp blockRun 0 (n + 1) ++ [⟨exprRun, 1⟩, ⟨exprRun, 2⟩]
  | .elseIf, n => ramp blockRun 0 (1 + min n 1) ++ [⟨exprRun, 1⟩, ⟨exprRun, 2⟩]
  | .unary, n | .lnot, n | .leftBin, n | .concat, n | .ternary, n | .index, n | .dollar, n | .getline, n | .pipe, n =>
      ⟨blockRun, 1⟩ :: ramp exprRun 0 (n + 2)
  | .assign, n => ⟨blockRun, 1⟩ :: ramp exprRun 0 (n + 1)
  | .block, n => ramp blockRun 0 (n + 1) ++ [⟨exprRun, 1⟩, ⟨exprRun, 2⟩]
  | .call, n => ⟨blockRun, 1⟩ :: ⟨exprRun, 1⟩ :: callFrom n 1 ++ [⟨exprRun, n + 2⟩, ⟨blockRun, 2⟩]
  | .recur, n => [⟨blockRun, 1⟩, ⟨exprRun, 1⟩, ⟨exprRun, 2⟩, ⟨exprRun, 3⟩] ++ recurFrom n 0
  | .recurPad a p k, n => [⟨blockRun, 1⟩, ⟨exprRun, 1⟩, ⟨exprRun, 2⟩, ⟨exprRun, 3⟩] ++ padFrom (4 + a + p) (stackBase + k) n 0
  | .chainFree, _ => [⟨blockRun, 1⟩, ⟨exprRun, 1⟩, ⟨exprRun, 2⟩]
  -- every counter is back at its entry value when the first phase has been left by `exit` (see
  -- `counters_balanced`): the requests of the second phase do not depend on d
  | .exitRec d, n => [⟨blockRun, 1⟩, ⟨exprRun, 1⟩, ⟨exprRun, 2⟩, ⟨exprRun, 3⟩] ++ recurFrom d 0 ++
      [⟨blockRun, 1⟩, ⟨exprRun, 1⟩, ⟨exprRun, 2⟩, ⟨exprRun, 3⟩] ++ recurFrom n 0
  | .exitBlk d, n => [⟨blockRun, 1⟩, ⟨exprRun, 1⟩, ⟨exprRun, 2⟩, ⟨exprRun, 3⟩] ++ recurFrom d 0 ++
      ramp blockRun 0 (n + 1) ++ [⟨exprRun, 1⟩, ⟨exprRun, 2⟩]
  | .mapNest, _ => [⟨blockRun, 1⟩, ⟨exprRun, 1⟩, ⟨exprRun, 2⟩, ⟨blockRun, 2⟩, ⟨exprRun, 3⟩]
  | .regex, _ => [⟨blockRun, 1⟩, ⟨exprRun, 1⟩, ⟨exprRun, 2⟩, ⟨exprRun, 3⟩]
  | .incl, _ => [⟨blockRun, 1⟩, ⟨exprRun, 1⟩, ⟨exprRun, 2⟩, ⟨stack, stackBase + 4⟩, ⟨blockRun, 2⟩, ⟨exprRun, 3⟩]
  | .seq, _ => ⟨blockRun, 1⟩ :: ⟨blockRun, 2⟩ :: ramp exprRun 0 3 ++ [⟨stack, stackBase + 5⟩, ⟨blockRun, 3⟩, ⟨exprRun, 4⟩]

/-- all checks of one run of the CLI on the family's program: parse first, then run -/
def requests (f : Family) (n : Nat) : List Req := parseReqs f n ++ runReqs f n

/-- what the program prints when nothing stops it (none = not specified by this model) -/
def output : Family → Nat → Option String
  | .paren, _ | .assign, _ | .block, _ | .ifChain, _ | .elseIf, _ | .whileChain, _ | .index, _ | .call, _ | .regex, _ | .seq, _ | .chainFree, _ | .exitBlk _, _ => some "1"
  | .unary, n => some (if n % 2 = 0 then "1" else "-1")
  | .lnot, n => some (if n % 2 = 0 then "1" else "0")
  | .leftBin, n | .concat, n => some (toString (n + 1))
  | .recur, n | .incl, n | .recurPad _ _ _, n | .exitRec _, n => some (toString n)
  | .ternary, _ => some "2"
  | .mapNest, _ => some "map"
  | .dollar, _ => some "[]"
  | .getline, _ | .pipe, _ => none

inductive Outcome where
  | printed (s : Option String)
  | stopped (k : Kind)
deriving Repr, DecidableEq

/-- the model of one CLI run -/
def outcome (l : Limits) (f : Family) (n : Nat) : Outcome :=
  match verdict l (requests f n) with
  | .ok => .printed (output f n)
  | .err k => .stopped k

/-- closed form of the highest level a family asks of a counter at nesting n -/
def peakOf : Family → Kind → Nat → Nat
  | .incl, .incl, n => n
  | _, .incl, _ => 0
  | .block, .blockParse, n | .ifChain, .blockParse, n | .whileChain, .blockParse, n => n + 1
  | .elseIf, .blockParse, n => 1 + min n 1
  | .recur, .blockParse, _ | .recurPad _ _ _, .blockParse, _ | .exitRec _, .blockParse, _ => 2
  | .mapNest, .blockParse, _ | .seq, .blockParse, _ => 2
  | .exitBlk _, .blockParse, n => max 2 (n + 1)
  | _, .blockParse, _ => 1
  | .paren, .exprParse, n | .unary, .exprParse, n | .lnot, .exprParse, n | .ternary, .exprParse, n | .index, .exprParse, n
  | .call, .exprParse, n | .dollar, .exprParse, n | .getline, .exprParse, n | .pipe, .exprParse, n => n + 2
  | .assign, .exprParse, n => n + 1
  | .seq, .exprParse, _ => 5
  | .recur, .exprParse, _ | .mapNest, .exprParse, _ | .recurPad _ _ _, .exprParse, _ | .exitRec _, .exprParse, _ | .exitBlk _, .exprParse, _ => 3
  | _, .exprParse, _ => 2
  | .block, .blockRun, n | .ifChain, .blockRun, n | .whileChain, .blockRun, n => n + 1
  | .elseIf, .blockRun, n => 1 + min n 1
  | .recur, .blockRun, n | .recurPad _ _ _, .blockRun, n => n + 3
  | .exitRec d, .blockRun, n => max (d + 3) (n + 3)
  | .exitBlk d, .blockRun, n => max (d + 3) (n + 1)
  | .seq, .blockRun, _ => 3
  | .call, .blockRun, _ | .mapNest, .blockRun, _ | .incl, .blockRun, _ => 2
  | _, .blockRun, _ => 1
  | .unary, .exprRun, n | .lnot, .exprRun, n | .leftBin, .exprRun, n | .concat, .exprRun, n | .ternary, .exprRun, n
  | .index, .exprRun, n | .call, .exprRun, n | .dollar, .exprRun, n | .getline, .exprRun, n | .pipe, .exprRun, n => n + 2
  | .assign, .exprRun, n => n + 1
  | .recur, .exprRun, n | .recurPad _ _ _, .exprRun, n => 2 * n + 4
  | .exitRec d, .exprRun, n => max (2 * d + 4) (2 * n + 4)
  | .exitBlk d, .exprRun, _ => 2 * d + 4
  | .seq, .exprRun, _ => 4
  | .mapNest, .exprRun, _ | .regex, .exprRun, _ | .incl, .exprRun, _ => 3
  | _, .exprRun, _ => 2
  | .call, .stack, n => if n = 0 then 0 else stackBase + 4 * n + 1
  | .recur, .stack, n => stackBase + 5 * n + 5
  | .recurPad a p k, .stack, n => stackBase + k + (4 + a + p) * n + (4 + a + p)
  | .exitRec d, .stack, n => max (stackBase + 5 * d + 5) (stackBase + 5 * n + 5)
  | .exitBlk d, .stack, _ => stackBase + 5 * d + 5
  | .incl, .stack, _ => stackBase + 4
  | .seq, .stack, _ => stackBase + 5
  | _, .stack, _ => 0

/-- "the level asked is within the configured limit" -/
def within (l : Limits) (k : Kind) (level : Nat) : Prop :=
  match k with
  | .stack => level ≤ effStack l
  | k => l.of k = 0 ∨ level ≤ l.of k

end Hawk.Depth
