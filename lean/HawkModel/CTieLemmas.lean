/-!
  Bit-mask facts used by the C-translation ties (Props/C*Tie.lean): the C code aligns with
  `x & ~(a-1)` and tests high bits with `x & (~0 << k)`, the hand-written models say `x / a * a` and `x / 2^k = 0`.
  Core Lean only.
-/
namespace Hawk.CTie

/-- on a `w`-bit word, and-ing with the mask that has bits `k..w-1` set clears the low `k` bits -/
theorem and_himask (x k w : Nat) (hk : k ≤ w) (hx : x < 2 ^ w) :
    x &&& ((2 ^ (w - k) - 1) <<< k) = x / 2 ^ k * 2 ^ k := by
  apply Nat.eq_of_testBit_eq
  intro i
  rw [← Nat.shiftRight_eq_div_pow, ← Nat.shiftLeft_eq]
  simp only [Nat.testBit_and, Nat.testBit_shiftLeft, Nat.testBit_two_pow_sub_one, Nat.testBit_shiftRight]
  by_cases h1 : k ≤ i
  · have e : k + (i - k) = i := by omega
    by_cases h2 : i - k < w - k
    · simp [h1, h2, e]
    · have : x < 2 ^ i := Nat.lt_of_lt_of_le hx (Nat.pow_le_pow_right (by decide) (by omega))
      simp [h1, h2, e, Nat.testBit_lt_two_pow this]
  · simp [h1]

/-- the same with the mask given as a literal (`hm` is closed by `decide`) -/
theorem and_mask64 (x k m : Nat) (hk : k ≤ 64) (hm : m = (2 ^ (64 - k) - 1) <<< k) (hx : x < 2 ^ 64) :
    x &&& m = x / 2 ^ k * 2 ^ k := by
  subst hm; exact and_himask x k 64 hk hx

/-- `(x & (~0 << k)) == 0` on a 64-bit word says `x < 2^k` -/
theorem and_mask64_eq_zero (x k m : Nat) (hk : k ≤ 64) (hm : m = (2 ^ (64 - k) - 1) <<< k) (hx : x < 2 ^ 64) :
    x &&& m = 0 ↔ x / 2 ^ k = 0 := by
  rw [and_mask64 x k m hk hm hx]
  have : 0 < 2 ^ k := Nat.two_pow_pos k
  constructor
  · intro h
    rcases Nat.mul_eq_zero.mp h with h | h
    · exact h
    · omega
  · intro h; simp [h]

end Hawk.CTie
