import HawkModel.Awk
/-!
# C02 — helper lemmas for `Props/C02.lean`: decimal digits, numeric scanning, list helpers.
-/
namespace Hawk.Awk

/-! ## characters -/

theorem digitVal_digitChar : ∀ d : Fin 10, digitVal (digitChar d.val) = d.val := by decide
theorem isDigit_digitChar : ∀ d : Fin 10, (digitChar d.val).isDigit = true := by decide
theorem digitChar_zero_iff : ∀ d : Fin 10, digitChar d.val = '0' → d.val = 0 := by decide

theorem isDigit_bounds (c : Char) (h : c.isDigit = true) : 48 ≤ c.toNat ∧ c.toNat ≤ 57 := by
  unfold Char.isDigit at h
  simp only [Bool.and_eq_true, decide_eq_true_eq] at h
  have h1 := h.1
  have h2 := h.2
  rw [ge_iff_le, UInt32.le_iff_toNat_le] at h1
  rw [UInt32.le_iff_toNat_le] at h2
  exact ⟨h1, h2⟩

theorem digitChar_digitVal (c : Char) (h : c.isDigit = true) : digitChar (digitVal c) = c := by
  have hb := isDigit_bounds c h
  unfold digitChar digitVal
  have : 48 + (c.toNat - 48) = c.toNat := by omega
  rw [this, Char.ofNat_toNat]

theorem digitVal_lt (c : Char) (h : c.isDigit = true) : digitVal c < 10 := by
  have hb := isDigit_bounds c h
  unfold digitVal; omega

theorem digitVal_zero (c : Char) (h : c.isDigit = true) (h0 : digitVal c = 0) : c = '0' := by
  have := digitChar_digitVal c h
  rw [h0] at this
  exact this.symm

theorem isDigit_not_special (c : Char) (h : c.isDigit = true) :
    c ≠ '-' ∧ c ≠ '+' ∧ isBlank c = false := by
  refine ⟨?_, ?_, ?_⟩
  · intro e; subst e; revert h; decide
  · intro e; subst e; revert h; decide
  · have hb := isDigit_bounds c h
    unfold isBlank
    have h1 : c ≠ ' ' := by intro e; subst e; revert h; decide
    have h2 : c ≠ '\t' := by intro e; subst e; revert h; decide
    have h3 : c ≠ '\n' := by intro e; subst e; revert h; decide
    simp [h1, h2, h3]

/-! ## lists -/

theorem takeWhile_all {α} (p : α → Bool) (l : List α) (h : ∀ c ∈ l, p c = true) : l.takeWhile p = l := by
  induction l with
  | nil => rfl
  | cons a t ih =>
    have ha : p a = true := h a (by simp)
    rw [List.takeWhile_cons]
    simp only [ha, if_true]
    rw [ih (fun c hc => h c (by simp [hc]))]

theorem dropWhile_all {α} (p : α → Bool) (l : List α) (h : ∀ c ∈ l, p c = true) : l.dropWhile p = [] := by
  induction l with
  | nil => rfl
  | cons a t ih =>
    have ha : p a = true := h a (by simp)
    rw [List.dropWhile_cons]
    simp only [ha, if_true]
    exact ih (fun c hc => h c (by simp [hc]))

/-! ## number → digits → number -/

theorem natDigitsAux_eq (n : Nat) (acc : List Char) : natDigitsAux n acc = natDigitsAux n [] ++ acc := by
  induction n using Nat.strongRecOn generalizing acc with
  | _ n ih =>
    unfold natDigitsAux
    by_cases h : n < 10
    · simp [h]
    · simp only [h, if_false]
      rw [ih (n / 10) (by omega) (digitChar (n % 10) :: acc), ih (n / 10) (by omega) [digitChar (n % 10)]]
      simp

theorem natDigits_lt10 (n : Nat) (h : n < 10) : natDigits n = [digitChar n] := by
  unfold natDigits natDigitsAux; simp [h]

theorem natDigits_ge10 (n : Nat) (h : ¬ n < 10) :
    natDigits n = natDigits (n / 10) ++ [digitChar (n % 10)] := by
  unfold natDigits
  rw [natDigitsAux]
  simp only [h, if_false]
  rw [natDigitsAux_eq]

theorem parseNat_append (l : List Char) (c : Char) : parseNat (l ++ [c]) = parseNat l * 10 + digitVal c := by
  simp [parseNat, List.foldl_append]

theorem parseNat_natDigits (n : Nat) : parseNat (natDigits n) = n := by
  induction n using Nat.strongRecOn with
  | _ n ih =>
    by_cases h : n < 10
    · rw [natDigits_lt10 n h]
      have := digitVal_digitChar ⟨n, h⟩
      simp [parseNat, this]
    · rw [natDigits_ge10 n h, parseNat_append, ih (n / 10) (by omega)]
      have := digitVal_digitChar ⟨n % 10, by omega⟩
      simp at this
      rw [this]; omega

theorem natDigits_all_digit (n : Nat) : ∀ c ∈ natDigits n, c.isDigit = true := by
  induction n using Nat.strongRecOn with
  | _ n ih =>
    by_cases h : n < 10
    · rw [natDigits_lt10 n h]
      intro c hc
      simp at hc; subst hc
      exact isDigit_digitChar ⟨n, h⟩
    · rw [natDigits_ge10 n h]
      intro c hc
      simp at hc
      rcases hc with hc | hc
      · exact ih (n / 10) (by omega) c hc
      · subst hc; exact isDigit_digitChar ⟨n % 10, by omega⟩

theorem natDigits_ne_nil (n : Nat) : natDigits n ≠ [] := by
  by_cases h : n < 10
  · rw [natDigits_lt10 n h]; simp
  · rw [natDigits_ge10 n h]; simp

/-- no leading zero except for the numeral `0` itself -/
theorem natDigits_head (n : Nat) : (natDigits n).head? = some '0' → n = 0 := by
  induction n using Nat.strongRecOn with
  | _ n ih =>
    by_cases h : n < 10
    · rw [natDigits_lt10 n h]
      intro hh
      simp at hh
      exact digitChar_zero_iff ⟨n, h⟩ hh
    · rw [natDigits_ge10 n h, List.head?_append]
      intro hh
      have hne := natDigits_ne_nil (n / 10)
      cases hd : natDigits (n / 10) with
      | nil => exact absurd hd hne
      | cons a t =>
        rw [hd] at hh
        simp at hh
        have := ih (n / 10) (by omega) (by rw [hd]; simp [hh])
        omega

/-! ## canonical numerals -/

/-- canonical decimal natural: non-empty, digits only, no leading zero unless it is exactly "0" -/
def CanonNat (l : List Char) : Prop :=
  l ≠ [] ∧ (∀ c ∈ l, c.isDigit = true) ∧ (l.head? = some '0' → l = ['0'])

/-- canonical decimal integer: a canonical natural, or `-` followed by a canonical non-zero natural -/
def CanonInt (l : List Char) : Prop :=
  CanonNat l ∨ ∃ t, l = '-' :: t ∧ CanonNat t ∧ t ≠ ['0']

theorem natDigits_canon (n : Nat) : CanonNat (natDigits n) := by
  refine ⟨natDigits_ne_nil n, natDigits_all_digit n, ?_⟩
  intro h
  have := natDigits_head n h
  subst this
  rw [natDigits_lt10 0 (by omega)]
  rfl

theorem foldl_ge (t : List Char) (a : Nat) :
    a ≤ t.foldl (fun a c => a * 10 + digitVal c) a := by
  induction t generalizing a with
  | nil => simp
  | cons c t ih =>
    simp only [List.foldl_cons]
    exact Nat.le_trans (by omega) (ih (a * 10 + digitVal c))

theorem parseNat_pos (l : List Char) (h : CanonNat l) (h0 : l ≠ ['0']) : 1 ≤ parseNat l := by
  obtain ⟨hne, hd, hz⟩ := h
  cases l with
  | nil => exact absurd rfl hne
  | cons c t =>
    have hc : c.isDigit = true := hd c (by simp)
    have hc0 : c ≠ '0' := by
      intro e
      exact h0 (hz (by simp [e]))
    have : 1 ≤ digitVal c := by
      rcases Nat.eq_zero_or_pos (digitVal c) with h | h
      · exact absurd (digitVal_zero c hc h) hc0
      · exact h
    unfold parseNat
    simp only [List.foldl_cons]
    exact Nat.le_trans (by omega) (foldl_ge t (0 * 10 + digitVal c))

theorem natDigits_parseNat (l : List Char) (h : CanonNat l) : natDigits (parseNat l) = l := by
  induction hn : l.length using Nat.strongRecOn generalizing l with
  | _ n ih =>
    rcases List.eq_nil_or_concat l with hl | ⟨l', c, hl⟩
    · exact absurd hl h.1
    · rw [List.concat_eq_append] at hl
      subst hl
      have hc : c.isDigit = true := h.2.1 c (by simp)
      by_cases hl' : l' = []
      · subst hl'
        simp only [List.nil_append]
        have hv := digitVal_lt c hc
        have : parseNat [c] = digitVal c := by simp [parseNat]
        rw [this, natDigits_lt10 _ hv, digitChar_digitVal c hc]
      · have hcan : CanonNat l' := by
          refine ⟨hl', fun d hd => h.2.1 d (by simp [hd]), ?_⟩
          intro hh
          have h2 := h.2.2 (by rw [List.head?_append, hh]; rfl)
          cases l' with
          | nil => exact absurd rfl hl'
          | cons a t => simp at h2
        have hne0 : l' ≠ ['0'] := by
          intro e
          subst e
          have h2 := h.2.2 (by simp)
          simp at h2
        have hpos := parseNat_pos l' hcan hne0
        have hv := digitVal_lt c hc
        rw [parseNat_append]
        have hge : ¬ (parseNat l' * 10 + digitVal c < 10) := by omega
        rw [natDigits_ge10 _ hge]
        have h1 : (parseNat l' * 10 + digitVal c) / 10 = parseNat l' := by omega
        have h2 : (parseNat l' * 10 + digitVal c) % 10 = digitVal c := by omega
        rw [h1, h2, digitChar_digitVal c hc]
        rw [ih l'.length (by subst hn; simp) l' hcan rfl]

/-! ## scanning canonical numerals -/

theorem scanBad_canon (ds : List Char) (h : CanonNat ds) : scanBad ds [] = false := by
  obtain ⟨hne, hd, hz⟩ := h
  cases ds with
  | nil => exact absurd rfl hne
  | cons c t =>
    cases t with
    | nil =>
      unfold scanBad
      split <;> simp_all
    | cons c2 t2 =>
      have hc0 : c ≠ '0' := by
        intro e
        have := hz (by simp [e])
        simp at this
      unfold scanBad
      split <;> simp_all

theorem scanNum_canonNat (l : List Char) (h : CanonNat l) :
    scanNum l = some { value := (parseNat l : Nat), rest := [], hadDigits := true } := by
  obtain ⟨hne, hd, hz⟩ := h
  cases l with
  | nil => exact absurd rfl hne
  | cons c t =>
    have hc : c.isDigit = true := hd c (by simp)
    obtain ⟨hm, hp, hb⟩ := isDigit_not_special c hc
    have htw : (c :: t).takeWhile Char.isDigit = c :: t := takeWhile_all _ _ hd
    have hdw : (c :: t).dropWhile Char.isDigit = [] := dropWhile_all _ _ hd
    have hbl : (c :: t).dropWhile isBlank = c :: t := by
      rw [List.dropWhile_cons]; simp [hb]
    have hsg : splitSign (c :: t) = (false, c :: t) := by
      unfold splitSign
      split
      · next heq => simp at heq; exact absurd heq.1 hm
      · next heq => simp at heq; exact absurd heq.1 hp
      · rfl
    have hds : doubleSign (c :: t) = false := by
      cases t with
      | nil => rfl
      | cons c2 t2 => simp [doubleSign, hm, hp]
    unfold scanNum
    simp only [hbl, hsg, htw, hdw, scanBad_canon (c :: t) ⟨hne, hd, hz⟩, hds]
    simp

theorem scanNum_neg_canonNat (t : List Char) (h : CanonNat t) :
    scanNum ('-' :: t) = some { value := -((parseNat t : Nat) : Int), rest := [], hadDigits := true } := by
  have htw : t.takeWhile Char.isDigit = t := takeWhile_all _ _ h.2.1
  have hdw : t.dropWhile Char.isDigit = [] := dropWhile_all _ _ h.2.1
  have hbl : ('-' :: t).dropWhile isBlank = '-' :: t := by
    rw [List.dropWhile_cons]
    have : isBlank '-' = false := by decide
    simp [this]
  have hne : t ≠ [] := h.1
  have hsg : splitSign ('-' :: t) = (true, t) := rfl
  have hds : doubleSign ('-' :: t) = false := by
    cases t with
    | nil => rfl
    | cons c2 t2 =>
      have hc2 : c2.isDigit = true := h.2.1 c2 (by simp)
      obtain ⟨hm, hp, _⟩ := isDigit_not_special c2 hc2
      simp [doubleSign, hm, hp]
  unfold scanNum
  simp only [hbl, hsg, htw, hdw, scanBad_canon t h, hds]
  simp [hne]

end Hawk.Awk
