import HawkModel.Utf8Lemmas
/-!
# Conversion loops for an arbitrary character manager (C15)

`CodecOk cm dom maxlen` collects what the loops of utl.c and the staging of tio.c need from a `hawk_cmgr_t`: on the characters
of `dom` the encoder produces between 1 and `maxlen` bytes and reports a too small buffer by its return value, the decoder
undoes the encoder whatever follows, and answers "incomplete" (a return value greater than the size) for a proper prefix of
an encoding.  The three built-in managers satisfy it: utf8 on every 16-bit value (`codecOk_utf8`), mb8 on 0..255
(`codecOk_mb8`), the repaired utf16 on the non-surrogate 16-bit values (`codecOk_utf16`).
-/
open Hawk.Gen Hawk.Utf8
namespace Hawk.Utf8

/-- every character of the list lies in the manager's domain -/
def Dom (dom : Nat → Prop) (cs : List Nat) : Prop := ∀ c ∈ cs, dom c

/-- the 16-bit character values -/
def BMP (cs : List Nat) : Prop := ∀ c ∈ cs, c < 65536

structure CodecOk (cm : Cmgr) (dom : Nat → Prop) (maxlen : Nat) : Prop where
  enc_size : ∀ c, dom c → ∀ size, cm.uctobc c size =
    if (encodeC cm c).length ≤ size then ⟨(encodeC cm c).length, some (encodeC cm c)⟩ else ⟨(encodeC cm c).length, none⟩
  enc_len : ∀ c, dom c → 1 ≤ (encodeC cm c).length ∧ (encodeC cm c).length ≤ maxlen
  dec_enc : ∀ c, dom c → ∀ t, cm.bctouc (encodeC cm c ++ t) = .ok ((encodeC cm c).length, c)
  dec_prefix : ∀ c, dom c → ∀ p q, p ++ q = encodeC cm c → p ≠ [] → q ≠ [] →
    ∃ w, cm.bctouc p = .ok ((encodeC cm c).length, w)

/-- the decoder never faults on a non-empty input -/
def DecTotal (cm : Cmgr) : Prop := ∀ s, s ≠ [] → ∃ r, cm.bctouc s = .ok r

theorem encodeAllC_cons (cm : Cmgr) (c : Nat) (cs : List Nat) : encodeAllC cm (c :: cs) = encodeC cm c ++ encodeAllC cm cs := by
  simp [encodeAllC]

theorem encodeAllC_nil (cm : Cmgr) : encodeAllC cm [] = [] := rfl

theorem encodeAllC_append (cm : Cmgr) (a b : List Nat) : encodeAllC cm (a ++ b) = encodeAllC cm a ++ encodeAllC cm b := by
  simp [encodeAllC]

theorem encC_ne_nil {cm : Cmgr} {dom : Nat → Prop} {maxlen : Nat} (hok : CodecOk cm dom maxlen) (c : Nat) (h : dom c) :
    encodeC cm c ≠ [] := by
  have := (hok.enc_len c h).1
  intro h0; rw [h0] at this; simp at this

theorem encodeAll_eq (tbl : List Utf8Row) (cs : List Nat) : encodeAll tbl cs = encodeAllC (utf8Cmgr tbl) cs := rfl

theorem convUpto_nil (cm : Cmgr) (stopper wcap : Nat) : convUpto cm stopper wcap [] = .ok (0, 0, []) := by
  rw [convUpto]; simp

theorem convUpto_step (cm : Cmgr) (stopper wcap : Nat) (s : List UInt8) (n w : Nat) (hs : s ≠ [])
    (hd : cm.bctouc s = .ok (n, w)) :
    convUpto cm stopper wcap s =
      if n = 0 then .ok (-1, 0, [])
      else if n > s.length then .ok (-3, 0, [])
      else if wcap = 0 then .ok (0, 0, [])
      else if w = stopper then .ok (0, n, [w])
      else
        match convUpto cm stopper (wcap - 1) (s.drop n) with
        | .error f => .error f
        | .ok (x, m, out) => .ok (x, n + m, w :: out) := by
  rw [convUpto, dif_neg hs]
  simp only [hd, dite_eq_ite]
  rfl

/-- what `convUpto` does on a prefix `m` of a well-formed stream -/
theorem convUpto_wf {cm : Cmgr} {dom : Nat → Prop} {maxlen : Nat} (hok : CodecOk cm dom maxlen) (stopper : Nat) : ∀ (cs : List Nat), Dom dom cs → ∀ (m rest : List UInt8) (wcap : Nat),
    m ++ rest = encodeAllC cm cs →
    ∃ x mlen out cs', convUpto cm stopper wcap m = .ok (x, mlen, out) ∧ cs = out ++ cs' ∧ mlen ≤ m.length ∧
      m.drop mlen ++ rest = encodeAllC cm cs' ∧ out.length ≤ wcap ∧ (x = 0 ∨ x = -3) ∧
      (x = -3 → ∃ c cs'', cs' = c :: cs'' ∧ m.drop mlen ≠ [] ∧ (m.drop mlen).length < (encodeC cm c).length) ∧
      (x = 0 → out = [] → m = [] ∨ wcap = 0) := by
  intro cs
  induction cs with
  | nil =>
    intro _ m rest wcap h
    simp [encodeAllC_nil] at h
    obtain ⟨rfl, rfl⟩ := h
    exact ⟨0, 0, [], [], convUpto_nil .., by simp [encodeAllC_nil]⟩
  | cons c cs1 ih =>
    intro hb m rest wcap h
    have hc : dom c := hb c (by simp)
    have hb1 : Dom dom cs1 := fun x hx => hb x (by simp [hx])
    rw [encodeAllC_cons] at h
    by_cases hm : m = []
    · subst hm
      refine ⟨0, 0, [], c :: cs1, convUpto_nil .., ?_⟩
      simp at h; simp [encodeAllC_cons, h]
    · have hel := hok.enc_len c hc
      have hn0 : (encodeC cm c).length ≠ 0 := by omega
      by_cases hlt : m.length < (encodeC cm c).length
      · -- m is a proper prefix of the first character
        obtain ⟨q, hq⟩ : ∃ q, m ++ q = encodeC cm c := by
          have := List.append_eq_append_iff.mp h
          rcases this with ⟨a, h1, h2⟩ | ⟨a, h1, h2⟩
          · exact ⟨a, h1.symm⟩
          · exfalso
            have : m.length = (encodeC cm c).length + a.length := by rw [h1]; simp
            omega
        have hqne : q ≠ [] := by
          intro hq0; subst hq0; simp at hq; rw [hq] at hlt; omega
        obtain ⟨w0, hd⟩ := hok.dec_prefix c hc m q hq hm hqne
        refine ⟨-3, 0, [], c :: cs1, ?_, ?_⟩
        · rw [convUpto_step _ _ _ _ _ _ hm hd, if_neg hn0, if_pos hlt]
        · simp [encodeAllC_cons, h, hm, hlt]
      · -- the first character is complete in m
        obtain ⟨m1, hm1, hrest⟩ : ∃ m1, m = encodeC cm c ++ m1 ∧ m1 ++ rest = encodeAllC cm cs1 := by
          have := List.append_eq_append_iff.mp h
          rcases this with ⟨a, h1, h2⟩ | ⟨a, h1, h2⟩
          · have : (encodeC cm c).length = m.length + a.length := by rw [h1]; simp
            have ha : a = [] := List.eq_nil_of_length_eq_zero (by omega)
            subst ha
            exact ⟨[], by simpa using h1.symm, by simpa using h2⟩
          · exact ⟨a, h1, h2.symm⟩
        have hd := hok.dec_enc c hc m1
        rw [← hm1] at hd
        have hL : (encodeC cm c).length ≤ m.length := by omega
        have hdropm : m.drop (encodeC cm c).length = m1 := by rw [hm1]; simp
        by_cases hw : wcap = 0
        · refine ⟨0, 0, [], c :: cs1, ?_, ?_⟩
          · rw [convUpto_step _ _ _ _ _ _ hm hd, if_neg hn0, if_neg hlt, if_pos hw]
          · simp [encodeAllC_cons, h, hw]
        · by_cases hst : c = stopper
          · refine ⟨0, (encodeC cm c).length, [c], cs1, ?_, ?_⟩
            · rw [convUpto_step _ _ _ _ _ _ hm hd, if_neg hn0, if_neg hlt, if_neg hw, if_pos hst]
            · refine ⟨rfl, hL, ?_, by simp; omega, Or.inl rfl, by simp, by simp⟩
              rw [hdropm]; exact hrest
          · obtain ⟨x, mlen, out, cs', hconv, hcs, hml, hdrop, hout, hx, hx3, hx0⟩ := ih hb1 m1 rest (wcap - 1) hrest
            have hdrop2 : m.drop ((encodeC cm c).length + mlen) = m1.drop mlen := by
              rw [← List.drop_drop, hdropm]
            have hol : (c :: out).length ≤ wcap := by
              have : 0 < wcap := Nat.pos_of_ne_zero hw
              simp only [List.length_cons]
              exact Nat.succ_le_of_lt (Nat.lt_of_le_of_lt hout (Nat.sub_lt this (by decide)))
            refine ⟨x, (encodeC cm c).length + mlen, c :: out, cs', ?_, ?_⟩
            · rw [convUpto_step _ _ _ _ _ _ hm hd, if_neg hn0, if_neg hlt, if_neg hw, if_neg hst, hdropm, hconv]
            · refine ⟨by simp [hcs], ?_, ?_, hol, hx, ?_, by simp⟩
              · rw [hm1]; simp; omega
              · rw [hdrop2]; exact hdrop
              · intro h3
                obtain ⟨c', cs'', h1, h2, h3'⟩ := hx3 h3
                exact ⟨c', cs'', h1, by rw [hdrop2]; exact h2, by rw [hdrop2]; exact h3'⟩

/-! ### the conversion loop on arbitrary bytes -/

/-- `convUpto` on arbitrary bytes and for every table: never a fault, stays within both buffers -/
theorem convUpto_total (cm : Cmgr) (hdec : DecTotal cm) (stopper : Nat) :
    ∀ (k : Nat) (s : List UInt8) (wcap : Nat), s.length ≤ k →
      ∃ x mlen out, convUpto cm stopper wcap s = .ok (x, mlen, out) ∧ out.length ≤ wcap ∧ out.length ≤ mlen ∧
        mlen ≤ s.length ∧ (x = 0 ∨ x = -1 ∨ x = -3) ∧ (x ≠ 0 → mlen < s.length) ∧
        (x = 0 → out = [] → s = [] ∨ wcap = 0) := by
  intro k
  induction k with
  | zero =>
    intro s wcap h
    have : s = [] := List.eq_nil_of_length_eq_zero (by omega)
    subst this
    exact ⟨0, 0, [], convUpto_nil .., by simp, by simp, by simp, by simp, by simp, by simp⟩
  | succ k ih =>
    intro s wcap h
    by_cases hs : s = []
    · subst hs
      exact ⟨0, 0, [], convUpto_nil .., by simp, by simp, by simp, by simp, by simp, by simp⟩
    · have hpos : 0 < s.length := List.length_pos_iff.mpr hs
      obtain ⟨⟨n, w⟩, hd⟩ := hdec s hs
      rw [convUpto_step cm stopper wcap s n w hs hd]
      by_cases h0 : n = 0
      · rw [if_pos h0]; exact ⟨-1, 0, [], rfl, by simp, by simp, by simp, by simp, by simp; omega, by simp⟩
      · rw [if_neg h0]
        by_cases h1 : n > s.length
        · rw [if_pos h1]; exact ⟨-3, 0, [], rfl, by simp, by simp, by simp, by simp, by simp; omega, by simp⟩
        · rw [if_neg h1]
          by_cases hw : wcap = 0
          · rw [if_pos hw]; exact ⟨0, 0, [], rfl, by simp, by simp, by simp, by simp, by simp, by simp [hw]⟩
          · rw [if_neg hw]
            by_cases hst : w = stopper
            · rw [if_pos hst]
              exact ⟨0, n, [w], rfl, by simp; omega, by simp; omega, by omega, by simp, by simp, by simp⟩
            · rw [if_neg hst]
              obtain ⟨x, m, out, hc, ho1, ho2, hm, hx, hxn, hx0⟩ := ih (s.drop n) (wcap - 1) (by simp; omega)
              rw [hc]
              refine ⟨x, n + m, w :: out, rfl, by simp; omega, by simp; omega, by simp at hm; omega, hx, ?_, by simp⟩
              intro hne; have := hxn hne; simp at this; omega

/-- `convUtoB` on BMP characters: a prefix is converted exactly; it stops only when the next character does not fit -/
theorem convUtoB_bmp {cm : Cmgr} {dom : Nat → Prop} {maxlen : Nat} (hok : CodecOk cm dom maxlen) : ∀ (ws : List Nat), Dom dom ws → ∀ (rem : Nat),
    ∃ x k bs, convUtoB cm ws rem = (x, k, bs) ∧ k ≤ ws.length ∧ bs = encodeAllC cm (ws.take k) ∧ bs.length ≤ rem ∧
      ((x = 0 ∧ k = ws.length) ∨
       (x = -2 ∧ ∃ c rest, ws.drop k = c :: rest ∧ rem - bs.length < (encodeC cm c).length)) := by
  intro ws
  induction ws with
  | nil => intro _ rem; exact ⟨0, 0, [], rfl, by simp, by simp [encodeAllC_nil], by simp, Or.inl ⟨rfl, rfl⟩⟩
  | cons c cs ih =>
    intro hb rem
    have hc : dom c := hb c (by simp)
    have hb1 : Dom dom cs := fun x hx => hb x (by simp [hx])
    have hel := hok.enc_len c hc
    rw [convUtoB]
    by_cases hr : rem = 0
    · rw [if_pos hr]
      exact ⟨-2, 0, [], rfl, by simp, by simp [encodeAllC_nil], by simp, Or.inr ⟨rfl, c, cs, rfl, by simp; omega⟩⟩
    · rw [if_neg hr]
      simp only [hok.enc_size c hc rem]
      by_cases hfit : (encodeC cm c).length ≤ rem
      · simp only [if_pos hfit]
        rw [if_neg (by omega), if_neg (by omega)]
        obtain ⟨x, k, bs, hcv, hk, hbs, hlen, hx⟩ := ih hb1 (rem - (encodeC cm c).length)
        rw [hcv]
        refine ⟨x, k + 1, encodeC cm c ++ bs, rfl, by simp; omega, by simp [encodeAllC_cons, hbs], by simp; omega, ?_⟩
        rcases hx with ⟨rfl, rfl⟩ | ⟨rfl, c2, rest, hd, hlt⟩
        · exact Or.inl ⟨rfl, by simp⟩
        · exact Or.inr ⟨rfl, c2, rest, by simpa using hd, by simp; omega⟩
      · simp only [if_neg hfit]
        rw [if_neg (by omega), if_pos (by omega)]
        exact ⟨-2, 0, [], rfl, by simp, by simp [encodeAllC_nil], by simp, Or.inr ⟨rfl, c, cs, rfl, by simp; omega⟩⟩

/-! ### whole-string decoding -/

theorem convBtoU_nil (cm : Cmgr) (all : Bool) (wcap : Nat) : convBtoU cm all wcap [] = .ok (0, 0, []) := by
  rw [convBtoU]; simp

theorem convBtoU_step_ok (cm : Cmgr) (all : Bool) (wcap : Nat) (s : List UInt8) (n w : Nat) (hs : s ≠ [])
    (hw : wcap ≠ 0) (hd : cm.bctouc s = .ok (n, w)) (hn0 : n ≠ 0) (hn : n ≤ s.length) :
    convBtoU cm all wcap s =
      match convBtoU cm all (wcap - 1) (s.drop n) with
      | .error f => .error f
      | .ok (x, m, out) => .ok (x, n + m, w :: out) := by
  rw [convBtoU, dif_neg hs, if_neg hw]
  simp only [hd]
  rw [if_neg (by omega)]
  rfl

/-- decoding a whole well-formed BMP string with enough room gives back the characters and consumes everything -/
theorem convBtoU_wf {cm : Cmgr} {dom : Nat → Prop} {maxlen : Nat} (hok : CodecOk cm dom maxlen) (all : Bool) : ∀ (cs : List Nat), Dom dom cs → ∀ (wcap : Nat), cs.length ≤ wcap →
    convBtoU cm all wcap (encodeAllC cm cs) = .ok (0, (encodeAllC cm cs).length, cs) := by
  intro cs
  induction cs with
  | nil => intro _ wcap _; simp [encodeAllC_nil, convBtoU_nil]
  | cons c cs ih =>
    intro hb wcap hw
    have hc : dom c := hb c (by simp)
    have hb1 : Dom dom cs := fun x hx => hb x (by simp [hx])
    have hel := hok.enc_len c hc
    have hw' : cs.length + 1 ≤ wcap := by simpa using hw
    have hne : encodeC cm c ++ encodeAllC cm cs ≠ [] := by simp [encC_ne_nil hok c hc]
    rw [encodeAllC_cons]
    rw [convBtoU_step_ok cm all wcap _ _ _ hne (by omega) (hok.dec_enc c hc _) (by omega) (by simp)]
    simp only [List.drop_left]
    rw [ih hb1 (wcap - 1) (by omega)]
    simp


/-! ### the three built-in managers -/

theorem decTotal_utf8 (tbl : List Utf8Row) : DecTotal (utf8Cmgr tbl) := fun s hs => utf8ToUc_ok tbl s hs

theorem decTotal_mb8 : DecTotal mb8Cmgr := by
  intro s hs
  have : 0 < s.length := List.length_pos_iff.mpr hs
  exact ⟨(1, s[0].toNat), by show mb8ToUc s = _; simp [mb8ToUc, rd_ok this]⟩

theorem decTotal_utf16 (legacy : Bool) : DecTotal (utf16Cmgr legacy) := by
  intro s _
  show ∃ r, utf16ToUc legacy s = .ok r
  unfold utf16ToUc
  by_cases h : s.length < 2
  · rw [if_pos h]; exact ⟨_, rfl⟩
  · rw [if_neg h, rd_ok (by omega : 0 < s.length), rd_ok (by omega : 1 < s.length)]
    simp only
    split <;> exact ⟨_, rfl⟩

theorem codecOk_utf8 : CodecOk (utf8Cmgr T) (fun c => c < 65536) 3 where
  enc_size := fun c hc size => ucToUtf8_size c hc size
  enc_len := fun c hc => enc_len c hc
  dec_enc := fun c hc t => dec_enc_append c hc t
  dec_prefix := fun c hc p q hpq hp hq => ⟨0, dec_prefix c hc p q hpq hp hq⟩

theorem encodeC_mb8 (c : Nat) (hc : c < 256) : encodeC mb8Cmgr c = [UInt8.ofNat c] := by
  simp [encodeC, ucToMb8, bcsizeMax, show ¬ c > 255 by omega]

theorem codecOk_mb8 : CodecOk mb8Cmgr (fun c => c < 256) 1 where
  enc_size := by
    intro c hc size
    rw [encodeC_mb8 c hc]
    show ucToMb8 c size = _
    unfold ucToMb8
    by_cases h0 : size = 0
    · subst h0; simp
    · simp [h0, show ¬ c > 255 by omega]
  enc_len := by intro c hc; rw [encodeC_mb8 c hc]; simp
  dec_enc := by
    intro c hc t
    rw [encodeC_mb8 c hc]
    show mb8ToUc ([UInt8.ofNat c] ++ t) = _
    simp [mb8ToUc, rd]
    omega
  dec_prefix := by
    intro c hc p q hpq hp hq
    rw [encodeC_mb8 c hc] at hpq
    have := congrArg List.length hpq
    have : 0 < p.length := List.length_pos_iff.mpr hp
    have : 0 < q.length := List.length_pos_iff.mpr hq
    simp at *; omega

/-- the characters the utf16 manager of the 16-bit build carries: every 16-bit value that is not a surrogate code unit -/
def utf16Dom (c : Nat) : Prop := c < 65536 ∧ (c < 0xD800 ∨ c > 0xDFFF)

theorem encodeC_utf16 (c : Nat) (hc : c < 65536) :
    encodeC (utf16Cmgr false) c = [UInt8.ofNat (c % 256), UInt8.ofNat (c / 256)] := by
  simp [encodeC, ucToUtf16, bcsizeMax, show c ≤ 65535 by omega]

theorem codecOk_utf16 : CodecOk (utf16Cmgr false) utf16Dom 2 where
  enc_size := by
    intro c hc size
    rw [encodeC_utf16 c hc.1]
    show ucToUtf16 false c size = _
    unfold ucToUtf16
    by_cases h2 : 2 ≤ size
    · simp [h2, show c ≤ 65535 by have := hc.1; omega]
    · simp [h2, show c ≤ 65535 by have := hc.1; omega]
  enc_len := by intro c hc; rw [encodeC_utf16 c hc.1]; simp
  dec_enc := by
    intro c hc t
    rw [encodeC_utf16 c hc.1]
    show utf16ToUc false ([UInt8.ofNat (c % 256), UInt8.ofNat (c / 256)] ++ t) = _
    have h1 : c % 256 + 256 * (c / 256 % 256) = c := by have := hc.1; omega
    have h2 : c < 55296 ∨ 57343 < c := by have := hc.2; omega
    simp [utf16ToUc, rd]
    rw [if_neg (by omega), h1, if_pos h2]
  dec_prefix := by
    intro c hc p q hpq hp hq
    rw [encodeC_utf16 c hc.1] at hpq ⊢
    have hl := congrArg List.length hpq
    have : 0 < p.length := List.length_pos_iff.mpr hp
    have : 0 < q.length := List.length_pos_iff.mpr hq
    simp at hl
    refine ⟨0, ?_⟩
    show utf16ToUc false p = _
    unfold utf16ToUc
    rw [if_pos (by omega)]
    simp

/-! ### the two passes of the duplicating converters agree -/

theorem convBtoUCount_nil (cm : Cmgr) (all : Bool) : convBtoUCount cm all [] = .ok (0, 0, 0) := by
  rw [convBtoUCount]; simp

theorem convBtoUCount_step (cm : Cmgr) (all : Bool) (s : List UInt8) (n w : Nat) (hs : s ≠ [])
    (hd : cm.bctouc s = .ok (n, w)) :
    convBtoUCount cm all s =
      if n = 0 ∨ n > s.length then
        if all then
          match convBtoUCount cm all (s.drop 1) with
          | .error f => .error f
          | .ok (x, m, k) => .ok (x, 1 + m, k + 1)
        else .ok (if n = 0 then -1 else -3, 0, 0)
      else
        match convBtoUCount cm all (s.drop n) with
        | .error f => .error f
        | .ok (x, m, k) => .ok (x, n + m, k + 1) := by
  rw [convBtoUCount, dif_neg hs]
  simp only [hd]
  rfl

theorem convBtoU_step (cm : Cmgr) (all : Bool) (wcap : Nat) (s : List UInt8) (n w : Nat) (hs : s ≠ []) (hw : wcap ≠ 0)
    (hd : cm.bctouc s = .ok (n, w)) :
    convBtoU cm all wcap s =
      if n = 0 ∨ n > s.length then
        if all then
          match convBtoU cm all (wcap - 1) (s.drop 1) with
          | .error f => .error f
          | .ok (x, m, out) => .ok (x, 1 + m, 0x3F :: out)
        else .ok (if n = 0 then -1 else -3, 0, [])
      else
        match convBtoU cm all (wcap - 1) (s.drop n) with
        | .error f => .error f
        | .ok (x, m, out) => .ok (x, n + m, w :: out) := by
  rw [convBtoU, dif_neg hs, if_neg hw]
  simp only [hd]
  rfl

/-- whatever the bytes: when the counting pass succeeds, the converting pass into a block of exactly the counted length
succeeds too, consumes the same bytes and fills the block exactly; a counting pass that fails fails with -1 or -3 -/
theorem convBtoU_two_passes (cm : Cmgr) (hdec : DecTotal cm) (all : Bool) :
    ∀ (j : Nat) (s : List UInt8), s.length ≤ j →
      ∃ x m k, convBtoUCount cm all s = .ok (x, m, k) ∧ (x = 0 ∨ x = -1 ∨ x = -3) ∧ m ≤ s.length ∧ k ≤ m ∧
        (all = true → x = 0 ∧ m = s.length) ∧
        (x = 0 → ∃ out, convBtoU cm all k s = .ok (0, m, out) ∧ out.length = k) := by
  intro j
  induction j with
  | zero =>
    intro s h
    have : s = [] := List.eq_nil_of_length_eq_zero (by omega)
    subst this
    exact ⟨0, 0, 0, convBtoUCount_nil .., Or.inl rfl, by simp, by simp, fun _ => ⟨rfl, rfl⟩, fun _ => ⟨[], convBtoU_nil .., rfl⟩⟩
  | succ j ih =>
    intro s h
    by_cases hs : s = []
    · subst hs
      exact ⟨0, 0, 0, convBtoUCount_nil .., Or.inl rfl, by simp, by simp, fun _ => ⟨rfl, rfl⟩, fun _ => ⟨[], convBtoU_nil .., rfl⟩⟩
    · have hpos : 0 < s.length := List.length_pos_iff.mpr hs
      obtain ⟨⟨n, w⟩, hd⟩ := hdec s hs
      rw [convBtoUCount_step cm all s n w hs hd]
      by_cases hbad : n = 0 ∨ n > s.length
      · rw [if_pos hbad]
        cases hall : all with
        | false =>
          simp only [Bool.false_eq_true, if_false]
          refine ⟨_, 0, 0, rfl, ?_, by simp, by simp, by simp, ?_⟩
          · by_cases h0 : n = 0 <;> simp [h0]
          · intro hx; by_cases h0 : n = 0 <;> simp [h0] at hx
        | true =>
          simp only [if_true]
          obtain ⟨x, m, k, hc, hx, hm, hk, hal, hconv⟩ := ih (s.drop 1) (by simp; omega)
          rw [hall] at hc hal hconv
          rw [hc]
          refine ⟨x, 1 + m, k + 1, rfl, hx, by simp at hm; omega, by omega, fun _ => ⟨(hal rfl).1, by have := (hal rfl).2; simp at this; omega⟩, ?_⟩
          intro hx0
          obtain ⟨out, ho, hl⟩ := hconv hx0
          refine ⟨0x3F :: out, ?_, by simp [hl]⟩
          rw [convBtoU_step cm true (k + 1) s n w hs (by omega) hd, if_pos hbad]
          simp only [if_true, Nat.add_sub_cancel, ho]
      · rw [if_neg hbad]
        have hn : n ≠ 0 ∧ n ≤ s.length := by omega
        obtain ⟨x, m, k, hc, hx, hm, hk, hal, hconv⟩ := ih (s.drop n) (by simp; omega)
        rw [hc]
        refine ⟨x, n + m, k + 1, rfl, hx, by simp at hm; omega, by omega,
          fun ha => ⟨(hal ha).1, by have := (hal ha).2; simp at this; omega⟩, ?_⟩
        intro hx0
        obtain ⟨out, ho, hl⟩ := hconv hx0
        refine ⟨w :: out, ?_, by simp [hl]⟩
        rw [convBtoU_step cm all (k + 1) s n w hs (by omega) hd, if_neg hbad]
        simp only [Nat.add_sub_cancel, ho]

/-- `hawk_gem_dupbtoucharswithcmgr` on arbitrary bytes: no fault, the second pass never overruns the block sized by the
first, the result has at most one character per byte; with `all` it cannot fail -/
theorem dupBtoU_spec (cm : Cmgr) (hdec : DecTotal cm) (all : Bool) (s : List UInt8) :
    (∃ out, dupBtoU cm all s = .ok (.ok out) ∧ out.length ≤ s.length) ∨ (all = false ∧ dupBtoU cm all s = .ok .eecerr) := by
  obtain ⟨x, m, k, hc, hx, hm, hk, hal, hconv⟩ := convBtoU_two_passes cm hdec all s.length s (Nat.le_refl _)
  unfold dupBtoU
  rw [hc]
  simp only
  rcases hx with rfl | rfl | rfl
  · obtain ⟨out, ho, hl⟩ := hconv rfl
    left
    refine ⟨out, ?_, by omega⟩
    rw [if_neg (by decide), ho]
    simp [hl]
  · right
    refine ⟨?_, by simp⟩
    cases all with
    | false => rfl
    | true => have := (hal rfl).1; simp at this
  · right
    refine ⟨?_, by simp⟩
    cases all with
    | false => rfl
    | true => have := (hal rfl).1; simp at this

theorem convBtoUCount_wf {cm : Cmgr} {dom : Nat → Prop} {maxlen : Nat} (hok : CodecOk cm dom maxlen) (all : Bool) :
    ∀ (cs : List Nat), Dom dom cs → convBtoUCount cm all (encodeAllC cm cs) = .ok (0, (encodeAllC cm cs).length, cs.length) := by
  intro cs
  induction cs with
  | nil => intro _; simp [encodeAllC_nil, convBtoUCount_nil]
  | cons c cs ih =>
    intro hb
    have hc : dom c := hb c (by simp)
    have hel := hok.enc_len c hc
    have hne : encodeC cm c ++ encodeAllC cm cs ≠ [] := by simp [encC_ne_nil hok c hc]
    have hnb : ¬ ((encodeC cm c).length = 0 ∨ (encodeC cm c).length > (encodeC cm c ++ encodeAllC cm cs).length) := by
      intro h; rcases h with h | h
      · omega
      · simp at h; omega
    rw [encodeAllC_cons, convBtoUCount_step cm all _ _ _ hne (hok.dec_enc c hc _), if_neg hnb]
    simp only [List.drop_left]
    rw [ih (fun x hx => hb x (by simp [hx]))]
    simp

/-- bytes → text of a well-formed string is the text -/
theorem dupBtoU_wf {cm : Cmgr} {dom : Nat → Prop} {maxlen : Nat} (hok : CodecOk cm dom maxlen) (all : Bool) (cs : List Nat)
    (hb : Dom dom cs) : dupBtoU cm all (encodeAllC cm cs) = .ok (.ok cs) := by
  unfold dupBtoU
  rw [convBtoUCount_wf hok all cs hb]
  simp only
  rw [if_neg (by decide), convBtoU_wf hok all cs hb cs.length (Nat.le_refl _)]
  simp

theorem convUtoBCount_dom {cm : Cmgr} {dom : Nat → Prop} {maxlen : Nat} (hok : CodecOk cm dom maxlen) :
    ∀ (ws : List Nat), Dom dom ws → convUtoBCount cm ws = (0, ws.length, (encodeAllC cm ws).length) := by
  intro ws
  induction ws with
  | nil => intro _; simp [convUtoBCount, encodeAllC_nil]
  | cons c cs ih =>
    intro hb
    have hc : dom c := hb c (by simp)
    have hel := hok.enc_len c hc
    have hret : (cm.uctobc c bcsizeMax).ret = (encodeC cm c).length := by
      rw [hok.enc_size c hc bcsizeMax]; split <;> rfl
    rw [convUtoBCount]
    simp only [hret]
    rw [if_neg (by omega), ih (fun x hx => hb x (by simp [hx]))]
    simp [encodeAllC_cons]; omega

/-- text → bytes of characters the manager carries is their encoding; the block sized by the first pass is filled exactly -/
theorem dupUtoB_dom {cm : Cmgr} {dom : Nat → Prop} {maxlen : Nat} (hok : CodecOk cm dom maxlen) (ws : List Nat) (hb : Dom dom ws) :
    dupUtoB cm ws = .ok (encodeAllC cm ws) := by
  have hconv : convUtoB cm ws (encodeAllC cm ws).length = (0, ws.length, encodeAllC cm ws) := by
    obtain ⟨x, k, bs, h, hk, hbs, hlen, hx⟩ := convUtoB_bmp hok ws hb (encodeAllC cm ws).length
    rcases hx with ⟨rfl, rfl⟩ | ⟨rfl, c, rest, hd, hlt⟩
    · rw [h, hbs]; simp
    · exfalso
      have hsplit : encodeAllC cm ws = bs ++ encodeAllC cm (c :: rest) := by
        rw [hbs, ← hd, ← encodeAllC_append, List.take_append_drop]
      have h1 : (encodeAllC cm ws).length = bs.length + (encodeAllC cm (c :: rest)).length := by rw [hsplit]; simp
      have h2 : (encodeC cm c).length ≤ (encodeAllC cm (c :: rest)).length := by rw [encodeAllC_cons]; simp
      omega
  unfold dupUtoB
  rw [convUtoBCount_dom hok ws hb]
  simp only
  rw [if_neg (by decide), hconv]
  simp

/-- a character the manager refuses makes the conversion fail with HAWK_EECERR (nothing is allocated or stored) -/
theorem dupUtoB_refuses {cm : Cmgr} {dom : Nat → Prop} {maxlen : Nat} (hok : CodecOk cm dom maxlen) (pre post : List Nat) (c : Nat)
    (hb : Dom dom pre) (hc : (cm.uctobc c bcsizeMax).ret = 0) : dupUtoB cm (pre ++ c :: post) = .eecerr := by
  have hcount : (convUtoBCount cm (pre ++ c :: post)).1 = -1 := by
    induction pre with
    | nil => simp [convUtoBCount, hc]
    | cons a pre ih =>
      have ha : dom a := hb a (by simp)
      have hel := hok.enc_len a ha
      have hret : (cm.uctobc a bcsizeMax).ret = (encodeC cm a).length := by
        rw [hok.enc_size a ha bcsizeMax]; split <;> rfl
      simp only [List.cons_append, convUtoBCount, hret]
      rw [if_neg (by omega)]
      exact ih (fun x hx => hb x (by simp [hx]))
  unfold dupUtoB
  simp only [hcount]
  rw [if_pos (by decide), if_neg (by decide)]

end Hawk.Utf8
