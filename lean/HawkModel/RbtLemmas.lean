import HawkModel.Rbt
/-!
# C16 (rbt): the ideal dictionary (sorted association list) and the refinement lemmas

`insList` / `delList` / `alookup` are the specification: a dictionary kept as an association
list sorted by key.  Every rotation / re-colouring helper of the model preserves the in-order
list, so each operation of the tree is the corresponding list operation on `toList`.
-/
namespace Hawk.Rbt
open Color T

variable {V : Type}

/-! ## specification: sorted association lists -/

/-- strictly ascending keys -/
abbrev SortedKV (xs : List (Nat × V)) : Prop := xs.Pairwise (fun a b => a.1 < b.1)

/-- insert or replace -/
def insList (k : Nat) (v : V) : List (Nat × V) → List (Nat × V)
  | [] => [(k, v)]
  | (a, b) :: xs =>
    if k < a then (k, v) :: (a, b) :: xs
    else if k = a then (k, v) :: xs
    else (a, b) :: insList k v xs

/-- remove the pair with key `k` if there is one -/
def delList (k : Nat) : List (Nat × V) → List (Nat × V)
  | [] => []
  | (a, b) :: xs => if k = a then xs else (a, b) :: delList k xs

/-- value stored under `k` -/
def alookup (k : Nat) : List (Nat × V) → Option V
  | [] => none
  | (a, b) :: xs => if k = a then some b else alookup k xs

/-! ### list lemmas -/

theorem insList_append_lt (k : Nat) (v : V) (xs ys : List (Nat × V)) (a : Nat) (b : V) (h : k < a) :
    insList k v (xs ++ (a, b) :: ys) = insList k v xs ++ (a, b) :: ys := by
  induction xs with
  | nil => simp [insList, h]
  | cons x xs ih =>
    obtain ⟨x1, x2⟩ := x
    simp only [List.cons_append, insList]
    split
    · rfl
    · split
      · rfl
      · simp [ih]

theorem insList_append_ge (k : Nat) (v : V) (xs zs : List (Nat × V)) (h : ∀ x ∈ xs, x.1 < k) :
    insList k v (xs ++ zs) = xs ++ insList k v zs := by
  induction xs with
  | nil => rfl
  | cons x xs ih =>
    obtain ⟨x1, x2⟩ := x
    have h1 : x1 < k := h (x1, x2) (by simp)
    have h2 : ∀ x ∈ xs, x.1 < k := fun x hx => h x (by simp [hx])
    simp only [List.cons_append, insList]
    rw [if_neg (by omega), if_neg (by omega), ih h2]

theorem delList_not_mem (k : Nat) (zs : List (Nat × V)) (h : ∀ z ∈ zs, z.1 ≠ k) : delList k zs = zs := by
  induction zs with
  | nil => rfl
  | cons z zs ih =>
    obtain ⟨z1, z2⟩ := z
    have h1 : z1 ≠ k := h (z1, z2) (by simp)
    have h2 : ∀ z ∈ zs, z.1 ≠ k := fun z hz => h z (by simp [hz])
    simp only [delList]
    rw [if_neg (by omega), ih h2]

theorem delList_append_left (k : Nat) (xs zs : List (Nat × V)) (h : ∀ z ∈ zs, z.1 ≠ k) :
    delList k (xs ++ zs) = delList k xs ++ zs := by
  induction xs with
  | nil => simpa [delList] using delList_not_mem k zs h
  | cons x xs ih =>
    obtain ⟨x1, x2⟩ := x
    simp only [List.cons_append, delList]
    split
    · rfl
    · simp [ih]

theorem delList_append_right (k : Nat) (xs zs : List (Nat × V)) (h : ∀ x ∈ xs, x.1 ≠ k) :
    delList k (xs ++ zs) = xs ++ delList k zs := by
  induction xs with
  | nil => rfl
  | cons x xs ih =>
    obtain ⟨x1, x2⟩ := x
    have h1 : x1 ≠ k := h (x1, x2) (by simp)
    have h2 : ∀ x ∈ xs, x.1 ≠ k := fun x hx => h x (by simp [hx])
    simp only [List.cons_append, delList]
    rw [if_neg (by omega), ih h2]

theorem alookup_not_mem (k : Nat) (zs : List (Nat × V)) (h : ∀ z ∈ zs, z.1 ≠ k) : alookup k zs = none := by
  induction zs with
  | nil => rfl
  | cons z zs ih =>
    obtain ⟨z1, z2⟩ := z
    have h1 : z1 ≠ k := h (z1, z2) (by simp)
    have h2 : ∀ z ∈ zs, z.1 ≠ k := fun z hz => h z (by simp [hz])
    simp only [alookup]
    rw [if_neg (by omega), ih h2]

theorem alookup_append_right (k : Nat) (xs zs : List (Nat × V)) (h : ∀ x ∈ xs, x.1 ≠ k) :
    alookup k (xs ++ zs) = alookup k zs := by
  induction xs with
  | nil => rfl
  | cons x xs ih =>
    obtain ⟨x1, x2⟩ := x
    have h1 : x1 ≠ k := h (x1, x2) (by simp)
    have h2 : ∀ x ∈ xs, x.1 ≠ k := fun x hx => h x (by simp [hx])
    simp only [List.cons_append, alookup]
    rw [if_neg (by omega), ih h2]

theorem alookup_append_left (k : Nat) (xs zs : List (Nat × V)) (h : ∀ z ∈ zs, z.1 ≠ k) :
    alookup k (xs ++ zs) = alookup k xs := by
  induction xs with
  | nil => simpa [alookup] using alookup_not_mem k zs h
  | cons x xs ih =>
    obtain ⟨x1, x2⟩ := x
    simp only [List.cons_append, alookup]
    split
    · rfl
    · exact ih

theorem mem_insList (k : Nat) (v : V) (xs : List (Nat × V)) (x : Nat × V) (h : x ∈ insList k v xs) :
    x = (k, v) ∨ x ∈ xs := by
  induction xs with
  | nil => simp [insList] at h; exact Or.inl h
  | cons y ys ih =>
    obtain ⟨y1, y2⟩ := y
    simp only [insList] at h
    split at h
    · simp at h; rcases h with h | h | h <;> simp [h]
    · split at h
      · simp at h; rcases h with h | h <;> simp [h]
      · simp at h; rcases h with h | h
        · simp [h]
        · rcases ih h with h | h <;> simp [h]

theorem mem_delList (k : Nat) (xs : List (Nat × V)) (x : Nat × V) (h : x ∈ delList k xs) : x ∈ xs := by
  induction xs with
  | nil => simp [delList] at h
  | cons y ys ih =>
    obtain ⟨y1, y2⟩ := y
    simp only [delList] at h
    split at h
    · simp [h]
    · simp at h; rcases h with h | h
      · simp [h]
      · simp [ih h]

theorem sorted_insList (k : Nat) (v : V) (xs : List (Nat × V)) (h : SortedKV xs) : SortedKV (insList k v xs) := by
  induction xs with
  | nil => simp [insList, SortedKV]
  | cons y ys ih =>
    obtain ⟨y1, y2⟩ := y
    have hy : ∀ z ∈ ys, y1 < z.1 := (List.pairwise_cons.1 h).1
    have hys : SortedKV ys := (List.pairwise_cons.1 h).2
    simp only [insList]
    split
    · rename_i hk
      refine List.pairwise_cons.2 ⟨?_, h⟩
      intro z hz
      simp at hz
      rcases hz with hz | hz
      · simp [hz, hk]
      · have := hy z hz; simp; omega
    · split
      · rename_i hk
        subst hk
        exact List.pairwise_cons.2 ⟨hy, hys⟩
      · refine List.pairwise_cons.2 ⟨?_, ih hys⟩
        intro z hz
        rcases mem_insList k v ys z hz with hz | hz
        · simp [hz]; omega
        · exact hy z hz

theorem sorted_delList (k : Nat) (xs : List (Nat × V)) (h : SortedKV xs) : SortedKV (delList k xs) := by
  induction xs with
  | nil => simp [delList, SortedKV]
  | cons y ys ih =>
    obtain ⟨y1, y2⟩ := y
    have hy : ∀ z ∈ ys, y1 < z.1 := (List.pairwise_cons.1 h).1
    have hys : SortedKV ys := (List.pairwise_cons.1 h).2
    simp only [delList]
    split
    · exact hys
    · exact List.pairwise_cons.2 ⟨fun z hz => hy z (mem_delList k ys z hz), ih hys⟩

theorem alookup_none_not_mem (k : Nat) (xs : List (Nat × V)) (h : alookup k xs = none) :
    ∀ z ∈ xs, z.1 ≠ k := by
  induction xs with
  | nil => intro z hz; simp at hz
  | cons y ys ih =>
    obtain ⟨y1, y2⟩ := y
    simp only [alookup] at h
    split at h
    · simp at h
    · rename_i hne
      intro z hz
      simp only [List.mem_cons] at hz
      rcases hz with hz | hz
      · subst hz; exact fun e => hne e.symm
      · exact ih h z hz

/-- the dictionary law of insert-or-replace -/
theorem alookup_insList (k' k : Nat) (v : V) (xs : List (Nat × V)) :
    alookup k' (insList k v xs) = if k' = k then some v else alookup k' xs := by
  induction xs with
  | nil => simp [insList, alookup]
  | cons y ys ih =>
    obtain ⟨y1, y2⟩ := y
    simp only [insList]
    split
    · simp only [alookup]
    · split
      · rename_i h1 h2; subst h2
        simp only [alookup]
        split <;> rfl
      · rename_i h1 h2
        simp only [alookup, ih]
        split
        · rename_i h3; subst h3
          rw [if_neg (by omega)]
        · rfl

/-- the dictionary law of delete (keys are unique in a sorted list) -/
theorem alookup_delList (k' k : Nat) (xs : List (Nat × V)) (h : SortedKV xs) :
    alookup k' (delList k xs) = if k' = k then none else alookup k' xs := by
  induction xs with
  | nil => simp [delList, alookup]
  | cons y ys ih =>
    obtain ⟨y1, y2⟩ := y
    have hy : ∀ z ∈ ys, y1 < z.1 := (List.pairwise_cons.1 h).1
    have hys : SortedKV ys := (List.pairwise_cons.1 h).2
    simp only [delList]
    split
    · rename_i h1; subst h1
      simp only [alookup]
      split
      · rename_i h2; subst h2
        exact alookup_not_mem _ _ (fun z hz => by have := hy z hz; omega)
      · rfl
    · rename_i h1
      simp only [alookup, ih hys]
      split
      · rename_i h2; subst h2
        rw [if_neg (by omega)]
      · rfl

/-- facts carried by a sorted `xs ++ (a, b) :: ys` -/
theorem sorted_mid {xs ys : List (Nat × V)} {a : Nat} {b : V} (h : SortedKV (xs ++ (a, b) :: ys)) :
    SortedKV xs ∧ SortedKV ys ∧ (∀ x ∈ xs, x.1 < a) ∧ (∀ y ∈ ys, a < y.1) := by
  have h' := List.pairwise_append.1 h
  refine ⟨h'.1, (List.pairwise_cons.1 h'.2.1).2, ?_, (List.pairwise_cons.1 h'.2.1).1⟩
  intro x hx
  exact h'.2.2 x hx (a, b) (by simp)

/-! ## every helper preserves the in-order list -/

theorem toList_fixInsL (c : Color) (p : T V) (k : Nat) (v : V) (u : T V) :
    toList (fixInsL c p k v u) = toList p ++ (k, v) :: toList u := by
  unfold fixInsL
  split
  · split
    · split
      · simp
      · split <;> simp
    · simp
  · simp

theorem toList_fixInsR (c : Color) (u : T V) (k : Nat) (v : V) (p : T V) :
    toList (fixInsR c u k v p) = toList u ++ (k, v) :: toList p := by
  unfold fixInsR
  split
  · split
    · split
      · simp
      · split <;> simp
    · simp
  · simp

theorem ordered_node {c : Color} {l : T V} {k : Nat} {v : V} {r : T V} (h : Ordered (node c l k v r)) :
    Ordered l ∧ Ordered r ∧ (∀ x ∈ toList l, x.1 < k) ∧ (∀ y ∈ toList r, k < y.1) := by
  unfold Ordered at h; simp only [toList] at h
  exact sorted_mid h

/-- the usual recursive statement of binary-search-tree order -/
def BST : T V → Prop
  | nil => True
  | node _ l k _ r => BST l ∧ BST r ∧ (∀ x ∈ toList l, x.1 < k) ∧ (∀ y ∈ toList r, k < y.1)

theorem ordered_iff_BST (t : T V) : Ordered t ↔ BST t := by
  induction t with
  | nil => simp [Ordered, BST]
  | node c l k v r ihl ihr =>
    constructor
    · intro h
      obtain ⟨hl, hr, hlk, hrk⟩ := ordered_node h
      exact ⟨ihl.1 hl, ihr.1 hr, hlk, hrk⟩
    · intro ⟨hl, hr, hlk, hrk⟩
      unfold Ordered; simp only [toList]
      refine List.pairwise_append.2 ⟨ihl.2 hl, List.pairwise_cons.2 ⟨hrk, ihr.2 hr⟩, ?_⟩
      intro x hx y hy
      simp only [List.mem_cons] at hy
      rcases hy with hy | hy
      · subst hy; exact hlk x hx
      · have := hlk x hx; have := hrk y hy; omega

/-- descent + fix-up of `insert` is insertion into the sorted list -/
theorem toList_ins (k : Nat) (v : V) (t : T V) (h : Ordered t) :
    toList (ins k v t) = insList k v (toList t) := by
  induction t with
  | nil => simp [ins, insList]
  | node c l k' v' r ihl ihr =>
    obtain ⟨hl, hr, hlk, hrk⟩ := ordered_node h
    simp only [ins, toList]
    split
    · rename_i hk; subst hk
      rw [insList_append_ge _ _ _ _ hlk]; simp [insList]
    · split
      · rename_i hk
        rw [toList_fixInsR, ihr hr, insList_append_ge _ _ _ _ (fun x hx => by have := hlk x hx; omega)]
        simp only [insList]
        rw [if_neg (by omega), if_neg (by omega)]
      · rw [toList_fixInsL, ihl hl, insList_append_lt _ _ _ _ _ _ (by omega)]

theorem search_eq_alookup (k : Nat) (t : T V) (h : Ordered t) : search t k = alookup k (toList t) := by
  induction t with
  | nil => simp [search, alookup]
  | node c l k' v' r ihl ihr =>
    obtain ⟨hl, hr, hlk, hrk⟩ := ordered_node h
    simp only [search, toList]
    split
    · rename_i hk; subst hk
      rw [alookup_append_right _ _ _ (fun x hx => by have := hlk x hx; omega)]
      simp [alookup]
    · split
      · rw [ihr hr, alookup_append_right _ _ _ (fun x hx => by have := hlk x hx; omega)]
        simp only [alookup]; rw [if_neg (by omega)]
      · rw [ihl hl, alookup_append_left]
        intro z hz
        simp at hz
        rcases hz with hz | hz
        · simp [hz]; omega
        · have := hrk z hz; omega

/-- `change_pair_val` on a present key is replacement in the sorted list -/
theorem toList_setVal (k : Nat) (v : V) (t : T V) (h : Ordered t) (hs : search t k ≠ none) :
    toList (setVal k v t) = insList k v (toList t) := by
  induction t with
  | nil => simp [search] at hs
  | node c l k' v' r ihl ihr =>
    obtain ⟨hl, hr, hlk, hrk⟩ := ordered_node h
    simp only [search] at hs
    simp only [setVal, toList]
    split
    · rename_i hk; subst hk
      rw [insList_append_ge _ _ _ _ hlk]; simp [insList]
    · rename_i hk
      rw [if_neg hk] at hs
      split
      · rename_i hk2
        rw [if_pos hk2] at hs
        simp only [toList]
        rw [ihr hr hs, insList_append_ge _ _ _ _ (fun x hx => by have := hlk x hx; omega)]
        simp only [insList]
        rw [if_neg (by omega), if_neg (by omega)]
      · rename_i hk2
        rw [if_neg hk2] at hs
        simp only [toList]
        rw [ihl hl hs, insList_append_lt _ _ _ _ _ _ (by omega)]

/-- `delete_pair` is deletion from the sorted list -/
theorem toList_del (k : Nat) (t : T V) (h : Ordered t) :
    toList (del k t).1 = delList k (toList t) := by
  induction t with
  | nil => simp [del, delList]
  | node c l k' v' r ihl ihr =>
    obtain ⟨hl, hr, hlk, hrk⟩ := ordered_node h
    by_cases hk : k = k'
    · subst hk
      rw [toList_del_root]
      simp only [toList]
      rw [delList_append_right _ _ _ (fun x hx => by have := hlk x hx; omega)]
      simp [delList]
    · by_cases hk2 : k > k'
      · have : del k (node c l k' v' r) = balR (del k r).2 c l k' v' (del k r).1 := by
          cases l <;> cases r <;> simp [del, hk, hk2]
        rw [this, toList_balR, ihr hr]
        simp only [toList]
        rw [delList_append_right _ _ _ (fun x hx => by have := hlk x hx; omega)]
        simp only [delList]; rw [if_neg hk]
      · have : del k (node c l k' v' r) = balL (del k l).2 c (del k l).1 k' v' r := by
          cases l <;> cases r <;> simp [del, hk, hk2]
        rw [this, toList_balL, ihl hl]
        simp only [toList]
        rw [delList_append_left]
        intro z hz
        simp at hz
        rcases hz with hz | hz
        · simp [hz]; omega
        · have := hrk z hz; omega

end Hawk.Rbt
