import HawkModel.DeparseRoundtrip
/-! `norm` respects the equivalence, keeps `WFparse`, and its image prints stably -/
namespace Hawk.Deparse
open Hawk.Gen.Precedence

theorem norm_isAss (a : Ast) : (norm a).isAss = a.isAss := by
  cases a with
  | int v t =>
    cases t with
    | none => by_cases hv : v < 0 <;> simp [norm, hv, Ast.isAss]
    | some t => rfl
  | unr op e => simp only [norm]; split <;> rfl
  | _ => simp [norm, Ast.isAss]

theorem norm_isInt_iff (a : Ast) : (norm a).isInt = true ↔ (∃ v t, norm a = .int v t) := by
  constructor
  · intro h; cases hn : norm a <;> simp_all [Ast.isInt]
  · rintro ⟨v, t, e⟩; simp [e, Ast.isInt]

/-- the value of an integer-valued normal form -/
def intVal : Ast → Option Int
  | .int v _ => some v
  | _ => none

mutual
theorem canon_norm : (a : Ast) → canon (norm a) = canon a
  | .int v none => by by_cases hv : v < 0 <;> simp [norm, hv, canon]
  | .int v (some t) => by simp [norm]
  | .lit k s => by simp [norm]
  | .var n => by simp [norm]
  | .idx n ix => by simp [norm, canon, canonL_normL ix]
  | .call n args => by simp [norm, canon, canonL_normL args]
  | .grp b => by simp [norm, canon, canonL_normL b]
  | .pos e => by simp [norm, canon, canon_norm e]
  | .bin op l r => by simp [norm, canon, canon_norm l, canon_norm r]
  | .unr op e => by
    have ih := canon_norm e
    simp only [norm, canon]
    rw [← ih]
    cases h : norm e <;> simp [canon]
    all_goals (split <;> simp_all)
  | .incpre op e => by simp [norm, canon, canon_norm e]
  | .incpst op e => by simp [norm, canon, canon_norm e]
  | .cnd c l r => by simp [norm, canon, canon_norm c, canon_norm l, canon_norm r]
  | .ass op l r => by simp [norm, canon, canon_norm l, canon_norm r]
theorem canonL_normL : (l : AstL) → canonL (normL l) = canonL l
  | .nil => by simp [normL]
  | .cons a t => by simp [normL, canonL, canon_norm a, canonL_normL t]
end


theorem norm_unr_of_not_int (op : UnrOp) (y : Ast) (h : (norm y).isInt = false) : norm (.unr op y) = .unr op (norm y) := by
  simp only [norm]
  cases hn : norm y <;> simp_all [Ast.isInt]

theorem norm_unr_of_int (op : UnrOp) (y : Ast) (v : Int) (t : Option String) (h : norm y = .int v t) :
    norm (.unr op y) = .int (foldUnrInt op v) none := by
  simp only [norm, h]

/-- normalising twice does not create new integer literals -/
theorem norm_norm_isInt : (a : Ast) → (norm (norm a)).isInt = (norm a).isInt
  | .int v none => by by_cases hv : v < 0 <;> simp [norm, hv, Ast.isInt]
  | .int v (some t) => by simp [norm, Ast.isInt]
  | .lit k s => by simp [norm, Ast.isInt]
  | .var n => by simp [norm, Ast.isInt]
  | .idx n ix => by simp [norm, Ast.isInt]
  | .call n args => by simp [norm, Ast.isInt]
  | .grp b => by simp [norm, Ast.isInt]
  | .pos e => by simp [norm, Ast.isInt]
  | .bin op l r => by simp [norm, Ast.isInt]
  | .unr op e => by
    have ih := norm_norm_isInt e
    by_cases h : (norm e).isInt = true
    · obtain ⟨v, t, hv⟩ := (norm_isInt_iff e).mp h
      rw [norm_unr_of_int op e v t hv]
      by_cases hf : foldUnrInt op v < 0 <;> simp [norm, hf, Ast.isInt]
    · have h' : (norm e).isInt = false := by simpa using h
      rw [norm_unr_of_not_int op e h', norm_unr_of_not_int op (norm e) (by rw [ih]; exact h')]
      simp [Ast.isInt]
  | .incpre op e => by simp [norm, Ast.isInt]
  | .incpst op e => by simp [norm, Ast.isInt]
  | .cnd c l r => by simp [norm, Ast.isInt]
  | .ass op l r => by simp [norm, Ast.isInt]

theorem norm_norm_isNum (a : Ast) : (norm (norm a)).isNum = (norm a).isNum := by
  simp only [Ast.isNum, norm_norm_isInt, norm_isFlt]

theorem normL_length : (l : AstL) → (normL l).length = l.length
  | .nil => rfl
  | .cons a t => by simp [normL, AstL.length, normL_length t]

theorem normL_ne_nil (l : AstL) (h : l ≠ .nil) : normL l ≠ .nil := by
  cases l with
  | nil => exact absurd rfl h
  | cons a t => simp [normL]

theorem fold_range (op : UnrOp) (v : Int) (h1 : -9223372036854775808 ≤ v) (h2 : v < 9223372036854775808) :
    -9223372036854775808 ≤ foldUnrInt op v ∧ foldUnrInt op v < 9223372036854775808 := by
  cases op
  · simp only [foldUnrInt]; omega
  · simp only [foldUnrInt, wrap64]; omega
  · simp only [foldUnrInt]; split <;> omega
  · simp only [foldUnrInt]; omega

mutual
/-- what the parser returns for printed text is again a tree the parser can return -/
theorem WFparse_norm : (a : Ast) → WFparse a → WFparse (norm a)
  | .int v none, h => by
    simp only [WFparse] at h
    by_cases hv : v < 0
    · simp only [norm, hv, if_true, WFparse]; exact h
    · simp only [norm, hv, if_false, WFparse]; omega
  | .int v (some t), h => by simpa [norm] using h
  | .lit k s, h => by simpa [norm] using h
  | .var n, _ => by simp [norm, WFparse]
  | .idx n ix, h => by
    simp only [WFparse] at h
    simp only [norm, WFparse]; exact ⟨WFparseL_norm ix h.1, normL_ne_nil ix h.2⟩
  | .call n args, h => by
    simp only [WFparse] at h
    simp only [norm, WFparse]; exact WFparseL_norm args h
  | .grp b, h => by
    simp only [WFparse] at h
    simp only [norm, WFparse]; exact ⟨WFparseL_norm b h.1, by rw [normL_length]; exact h.2⟩
  | .pos e, h => by
    simp only [WFparse] at h
    simp only [norm, WFparse]; exact WFparse_norm e h
  | .bin op l r, h => by
    simp only [WFparse] at h
    simp only [norm, WFparse]
    refine ⟨WFparse_norm l h.1, WFparse_norm r h.2.1, ?_, ?_⟩
    · rw [norm_norm_isNum, norm_norm_isNum]; exact h.2.2.1
    · intro e; rw [norm_isVar]; exact h.2.2.2 e
  | .unr op e, h => by
    simp only [WFparse] at h
    have ih := WFparse_norm e h.1
    by_cases hi : (norm e).isInt = true
    · obtain ⟨v, t, hv⟩ := (norm_isInt_iff e).mp hi
      rw [norm_unr_of_int op e v t hv]
      rw [hv] at ih
      simp only [WFparse]
      cases t with
      | none => simp only [WFparse] at ih; exact fold_range op v ih.1 ih.2
      | some t => simp only [WFparse] at ih; exact fold_range op v (by omega) ih.2
    · have hi' : (norm e).isInt = false := by simpa using hi
      rw [norm_unr_of_not_int op e hi']
      simp only [WFparse]; exact ⟨ih, by rw [norm_isFlt]; exact h.2⟩
  | .incpre op e, h => by
    simp only [WFparse] at h
    simp only [norm, WFparse]; exact ⟨WFparse_norm e h.1, norm_varpos e h.2⟩
  | .incpst op e, h => by
    simp only [WFparse] at h
    simp only [norm, WFparse]; exact ⟨WFparse_norm e h.1, norm_varpos e h.2⟩
  | .cnd c l r, h => by
    simp only [WFparse] at h
    simp only [norm, WFparse]; exact ⟨WFparse_norm c h.1, WFparse_norm l h.2.1, WFparse_norm r h.2.2⟩
  | .ass op l r, h => by
    simp only [WFparse] at h
    simp only [norm, WFparse]; exact ⟨WFparse_norm l h.1, WFparse_norm r h.2.1, norm_varpos l h.2.2⟩
theorem WFparseL_norm : (l : AstL) → WFparseL l → WFparseL (normL l)
  | .nil, _ => by simp [normL, WFparseL]
  | .cons a t, h => by
    simp only [WFparseL] at h
    simp only [normL, WFparseL]; exact ⟨WFparse_norm a h.1, WFparseL_norm t h.2⟩
end

theorem printP_norm_int (f : Int) : printP (norm (.int f none)) = printP (.int f none) := by
  by_cases hf : f < 0 <;> simp [norm, hf, printP, natTok]

mutual
/-- the deparse of the deparse is textually the deparse -/
theorem printP_norm_norm : (a : Ast) → printP (norm (norm a)) = printP (norm a)
  | .int v none => by by_cases hv : v < 0 <;> simp [norm, hv]
  | .int v (some t) => by simp [norm]
  | .lit k s => by simp [norm]
  | .var n => by simp [norm]
  | .idx n ix => by simp [norm, printP, printL_norm_norm ix]
  | .call n args => by simp [norm, printP, printL_norm_norm args]
  | .grp b => by simp [norm, printP, printL_norm_norm b]
  | .pos e => by simp [norm, printP, printP_norm_norm e]
  | .bin op l r => by simp [norm, printP, norm_isAss, printP_norm_norm l, printP_norm_norm r]
  | .unr op e => by
    have ih := printP_norm_norm e
    by_cases h : (norm e).isInt = true
    · obtain ⟨v, t, hv⟩ := (norm_isInt_iff e).mp h
      rw [norm_unr_of_int op e v t hv]; exact printP_norm_int _
    · have h' : (norm e).isInt = false := by simpa using h
      rw [norm_unr_of_not_int op e h', norm_unr_of_not_int op (norm e) (by rw [norm_norm_isInt]; exact h')]
      simp [printP, ih]
  | .incpre op e => by simp [norm, printP, printP_norm_norm e]
  | .incpst op e => by simp [norm, printP, printP_norm_norm e]
  | .cnd c l r => by simp [norm, printP, printP_norm_norm c, printP_norm_norm l, printP_norm_norm r]
  | .ass op l r => by simp [norm, printP, printP_norm_norm l, printP_norm_norm r]
theorem printL_norm_norm : (l : AstL) → printL (normL (normL l)) = printL (normL l)
  | .nil => by simp [normL]
  | .cons a .nil => by simp [normL, printL, printP_norm_norm a]
  | .cons a (.cons b t) => by
    have := printL_norm_norm (.cons b t)
    simp only [normL] at this ⊢
    simp [printL, printP_norm_norm a, this]
end


/-! ### nesting of the printed text (finding `deparse-nesting-depth`) -/

/-- (current, maximal) parenthesis depth after reading a token -/
def depthStep (st : Nat × Nat) (t : Tok) : Nat × Nat :=
  if t.k == .LPAREN then (st.1 + 1, max st.2 (st.1 + 1))
  else if t.k == .RPAREN then (st.1 - 1, st.2)
  else st

/-- maximal nesting depth of parentheses in a token list -/
def parenDepth (ts : List Tok) : Nat := (ts.foldl depthStep (0, 0)).2

/-- `a + a + ... + a` with `n` operators, as parse_binary's loop builds it (left-leaning) -/
def chain : Nat → Ast
  | 0 => .var "a"
  | n + 1 => .bin .PLUS (chain n) (.var "a")

theorem chain_not_ass (n : Nat) : (chain n).isAss = false := by cases n <;> rfl

theorem chain_depth (n : Nat) (c m : Nat) (hcm : c ≤ m) :
    (print (chain n)).foldl depthStep (c, m) = (c, max m (c + n)) := by
  induction n generalizing c m with
  | zero =>
    simp only [chain, print_var, List.foldl_cons, List.foldl_nil, depthStep, Nat.add_zero]
    simp only [show ((TK.IDENT == TK.LPAREN) = false) from by decide, show ((TK.IDENT == TK.RPAREN) = false) from by decide,
      Bool.false_eq_true, if_false]
    rw [Prod.mk.injEq]; exact ⟨rfl, by omega⟩
  | succ n ih =>
    have h1 : depthStep (c, m) tLP = (c + 1, max m (c + 1)) := by simp [depthStep, tLP_k]
    have h2 : ∀ st : Nat × Nat, depthStep st (binTok .PLUS) = st := by
      intro st; have : (binTok .PLUS).k = .PLUS := by decide
      simp [depthStep, this]
    have h3 : ∀ st : Nat × Nat, depthStep st { k := TK.IDENT, s := "a" } = st := by intro st; simp [depthStep]
    have h4 : ∀ a b : Nat, depthStep (a + 1, b) tRP = (a, b) := by intro a b; simp [depthStep, tRP_k]
    have hp : print (chain (n + 1)) = tLP :: (print (chain n) ++ [binTok .PLUS, { k := TK.IDENT, s := "a" }, tRP]) := by
      have e1 : opnd (chain n) = print (chain n) := opnd_nonass _ (chain_not_ass n)
      have e2 : opnd (.var "a") = print (.var "a") := opnd_nonass _ rfl
      simp only [chain, print_bin, e1, e2, print_var]; rfl
    rw [hp, List.foldl_cons, h1, List.foldl_append, ih _ _ (by omega)]
    simp only [List.foldl_cons, List.foldl_nil, h2, h3, h4]
    rw [Prod.mk.injEq]; exact ⟨rfl, by omega⟩

end Hawk.Deparse
