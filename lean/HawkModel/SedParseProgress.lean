import HawkModel.SedParseLemmas
/-!
  Every reader of the script compiler returns a suffix no longer than what it was given, and a command consumes at
  least its command character: the progress guard of `compLoop` (`PErr.internal`) never fires.
-/
namespace Hawk.Sed

theorem skipSpaces_len (s : Str) : (skipSpaces s).length ≤ s.length := by
  induction s with
  | nil => simp [skipSpaces]
  | cons c r ih => unfold skipSpaces; split <;> simp <;> omega

theorem skipComment_len (s : Str) : (skipComment s).length ≤ s.length := by
  induction s with
  | nil => simp [skipComment]
  | cons c r ih => unfold skipComment; split <;> simp <;> omega

theorem dropWhile_len (p : Char → Bool) (s : Str) : (s.dropWhile p).length ≤ s.length :=
  (List.dropWhile_sublist p).length_le

theorem bangs_len (s : Str) (n : Bool) : (bangs s n).2.length ≤ s.length := by
  induction s generalizing n with
  | nil => simp [bangs]
  | cons c r ih => unfold bangs; split <;> simp; have := ih (!n); omega

theorem terminate_len (s r : Str) (h : terminate s = .ok r) : r.length ≤ s.length := by
  have hs := skipSpaces_len s
  unfold terminate at h
  split at h
  · cases h; simp
  · rename_i c r' heq
    rw [heq] at hs
    split at h
    · cases h
    · split at h <;> (cases h; simp at hs ⊢; omega)

theorem pickupRex_len (rxend : Char) (repl : Bool) (err : PErr) (s : Str) (skip bs cfob : Nat) (acc : Str) :
    ∀ (buf r : Str), pickupRex rxend repl err s skip bs cfob acc = .ok (buf, r) → r.length ≤ s.length := by
  fun_induction pickupRex rxend repl err s skip bs cfob acc <;> intro buf r h
  all_goals (try (cases h; done))
  all_goals (try (simp at h; done))
  all_goals (try (cases h; simp; done))
  all_goals (
    first
    | (rename_i ih; have := ih _ _ h; simp at this ⊢; omega)
    | (rename_i ih _; have := ih _ _ h; simp at this ⊢; omega)
    | (rename_i ih _ _; have := ih _ _ h; simp at this ⊢; omega)
    | (rename_i ih _ _ _; have := ih _ _ h; simp at this ⊢; omega))

theorem textLoop_len (s acc : Str) : (textLoop s acc).2.2.length ≤ s.length := by
  fun_induction textLoop s acc <;> simp <;> omega

theorem fileLoop_len (s acc : Str) (tsp : Nat) :
    ∀ (n : Str) (k : Nat) (r : Str), fileLoop s acc tsp = .ok (n, k, r) → r.length ≤ s.length := by
  fun_induction fileLoop s acc tsp <;> intro n k r h
  all_goals (try (cases h; done))
  all_goals (try (simp at h; done))
  all_goals (try (cases h; simp; done))
  all_goals (
    first
    | (rename_i ih; have := ih _ _ _ h; simp at this ⊢; omega)
    | (rename_i ih _; have := ih _ _ _ h; simp at this ⊢; omega)
    | (rename_i ih _ _; have := ih _ _ _ h; simp at this ⊢; omega))

theorem transLoop_len (delim : Char) (limit : Option Nat) (s : Str) (skip : Nat) (acc : Str) :
    ∀ (b r : Str), transLoop delim limit s skip acc = .ok (b, r) → r.length ≤ s.length := by
  fun_induction transLoop delim limit s skip acc <;> intro b r h
  all_goals (try (cases h; done))
  all_goals (try (simp at h; done))
  all_goals (try (cases h; simp; done))
  all_goals (
    first
    | (rename_i ih; have := ih _ _ h; simp at this ⊢; omega)
    | (rename_i ih _; have := ih _ _ h; simp at this ⊢; omega)
    | (rename_i ih _ _; have := ih _ _ h; simp at this ⊢; omega))

theorem rexAddress_len (rxend : Char) (s : Str) (a : PAddr) (r : Str) (h : rexAddress rxend s = some (a, r)) :
    r.length ≤ s.length := by
  unfold rexAddress at h
  split at h
  · cases h
  · rename_i buf r' hp
    have := pickupRex_len _ _ _ _ _ _ _ _ _ _ hp
    split at h
    · cases h; exact this
    · split at h <;> (cases h; simp at this ⊢; omega)

theorem getAddress_len (s : Str) (a : PAddr) (r : Str) (h : getAddress s = some (a, r)) : r.length ≤ s.length := by
  unfold getAddress at h
  split at h
  · cases h; simp
  · rename_i c t
    split at h
    · cases h; simp
    · split at h
      · cases h; exact dropWhile_len _ _
      · split at h
        · have := rexAddress_len _ _ _ _ h; simp; omega
        · split at h
          · split at h
            · cases h
            · split at h
              · cases h
              · have := rexAddress_len _ _ _ _ h; simp; omega
          · cases h; simp

theorem getAddr2_len (s : Str) (a : PAddr) (r : Str) (h : getAddr2 s = .ok (a, r)) : r.length ≤ s.length := by
  have hs := skipSpaces_len s
  unfold getAddr2 at h
  split at h
  · rename_i t heq
    rw [heq] at hs
    have ht := skipSpaces_len t
    split at h
    · cases h
    · rename_i a2 s2 hg
      have := getAddress_len _ _ _ hg
      split at h
      · cases h
      · cases h; simp at hs; omega
  · cases h; exact hs

theorem parseAddrs_len (s : Str) (a1 a2 : PAddr) (r : Str) (h : parseAddrs s = .ok (a1, a2, r)) : r.length ≤ s.length := by
  unfold parseAddrs at h
  split at h
  · cases h
  · rename_i b1 s1 hg
    have h1 := getAddress_len _ _ _ hg
    split at h
    · cases h
    · rename_i b2 s2 h2
      split at h
      · cases h
      · cases h
        split at h2
        · cases h2; exact h1
        · have := getAddr2_len _ _ _ h2; omega

theorem getText_len (tr : Traits) (s : Str) : (getText tr s).2.length ≤ s.length := by
  simp only [getText]; exact textLoop_len s []

theorem getTextCmd_len (tr : Traits) (c : Char) (s : Str) (op : POp) (r : Str) (h : getTextCmd tr c s = .ok (op, r)) :
    r.length ≤ s.length := by
  have hs := skipSpaces_len s
  simp only [getTextCmd] at h
  split at h
  · rename_i r1 heq
    rw [heq] at hs
    have h1 := skipSpaces_len r1
    split at h
    · cases h; have := getText_len tr []; simp only [List.length_nil] at this; omega
    · rename_i c2 r2 heq2
      rw [heq2] at h1
      split at h
      · cases h; have := getText_len tr r2; simp at hs h1 ⊢; omega
      · split at h
        · cases h; have := getText_len tr (c2 :: r2); simp at hs h1 this ⊢; omega
        · cases h
  · cases h
  · rename_i c1 r1 _ heq
    rw [heq] at hs
    split at h
    · cases h; have := getText_len tr (c1 :: r1); simp at hs this ⊢; omega
    · cases h

theorem getLabel_len (tr : Traits) (s lab r : Str) (h : getLabel tr s = .ok (lab, r)) : r.length ≤ s.length := by
  simp only [getLabel, labelRun] at h
  by_cases hc : List.takeWhile isLabChar (skipSpaces s) = [] ∧ tr.strict = true
  · simp [hc] at h
  · simp [hc] at h
    obtain ⟨_, rfl⟩ := h
    have h1 := skipSpaces_len s
    have h2 := dropWhile_len isLabChar (skipSpaces s)
    have h3 := skipSpaces_len ((skipSpaces s).dropWhile isLabChar)
    split
    · simp [skipSpaces]
    · rename_i c t heq
      rw [heq] at h3
      split
      · have := skipSpaces_len t; simp at h3; omega
      · have := skipSpaces_len (c :: t); omega

theorem getBranchTarget_len (s : Str) (l : Option Str) (r : Str) (h : getBranchTarget s = .ok (l, r)) : r.length ≤ s.length := by
  have h1 := skipSpaces_len s
  simp only [getBranchTarget, labelRun] at h
  split at h
  · split at h
    · cases h
    · rename_i r' ht; cases h; have := terminate_len _ _ ht; omega
  · split at h
    · cases h
    · rename_i r' ht; cases h
      have := terminate_len _ _ ht
      have := dropWhile_len isLabChar (skipSpaces s); omega

theorem getFile_len (s n r : Str) (h : getFile s = .ok (n, r)) : r.length ≤ s.length := by
  have h1 := skipSpaces_len s
  simp only [getFile] at h
  split at h
  · cases h
  · split at h
    · cases h
    · rename_i nm tsp s2 hf
      have h2 := fileLoop_len _ _ _ _ _ _ hf
      split at h
      · cases h
      · rename_i r' ht; cases h; have := terminate_len _ _ ht; omega

theorem optLoop_len (s : Str) (f : SFlags) : ∀ (f' : SFlags) (r : Str), optLoop s f = .ok (f', r) → r.length ≤ s.length := by
  fun_induction optLoop s f <;> intro f' r h
  all_goals (try (cases h; done))
  all_goals (try (simp at h; done))
  all_goals (try (cases h; simp; done))
  all_goals (try (rename_i ih; have := ih _ _ h; simp; omega))
  all_goals (try (rename_i ih _; have := ih _ _ h; simp; omega))
  all_goals (try (dsimp only at h))
  all_goals (try (split at h <;> try (cases h; done)))
  all_goals (try (split at h <;> try (cases h; done)))
  all_goals (
    first
    | (rename_i ih _ _; have := ih _ _ h; have := dropWhile_len isDigit (by assumption : Str); simp; omega)
    | (rename_i ih _; have := ih _ _ h; rename_i tl _ _ _ _ _ _ _ _ _ _; have := dropWhile_len isDigit tl; simp; omega)
    | (cases h; have := getFile_len _ _ _ (by assumption); simp; omega)
    | (cases h; exact terminate_len _ _ (by assumption)))

theorem getSubst_len (s : Str) (op : POp) (r : Str) (h : getSubst s = .ok (op, r)) : r.length ≤ s.length := by
  unfold getSubst at h
  split at h
  · cases h
  · rename_i d t
    split at h
    · cases h
    · split at h
      · cases h
      · split at h
        · cases h
        · rename_i re r1 h1
          have l1 := pickupRex_len _ _ _ _ _ _ _ _ _ _ h1
          split at h
          · cases h
          · rename_i rpl r2 h2
            have l2 := pickupRex_len _ _ _ _ _ _ _ _ _ _ h2
            have l3 := skipSpaces_len r2
            split at h
            · cases h
            · rename_i f r3 h3
              have l4 := optLoop_len _ _ _ _ h3
              cases h; simp; omega

theorem getTranset_len (s : Str) (op : POp) (r : Str) (h : getTranset s = .ok (op, r)) : r.length ≤ s.length := by
  unfold getTranset at h
  split at h
  · cases h
  · rename_i d t
    split at h
    · cases h
    · split at h
      · cases h
      · split at h
        · cases h
        · rename_i src r1 h1
          have l1 := transLoop_len _ _ _ _ _ _ _ h1
          split at h
          · cases h
          · rename_i dst r2 h2
            have l2 := transLoop_len _ _ _ _ _ _ _ h2
            split at h
            · cases h
            · split at h
              · cases h
              · rename_i r3 h3
                have l3 := terminate_len _ _ h3
                cases h; simp; omega

/-- get_command consumes its command character: what is left is no longer than the text after it -/
theorem getCommand_len (tr : Traits) (a b : Bool) (c : Char) (t : Str) (op : POp) (r : Str)
    (h : getCommand tr a b (c :: t) = .ok (op, r)) : r.length ≤ t.length := by
  simp only [getCommand] at h
  by_cases h1 : c = '\n'
  · simp [h1] at h
  simp only [h1, ↓reduceIte] at h
  by_cases h2 : c = ':'
  · simp only [h2, ↓reduceIte] at h
    split at h
    · cases h
    · split at h
      · cases h
      · rename_i lab r' hl; cases h; exact getLabel_len _ _ _ _ hl
  simp only [h2, ↓reduceIte] at h
  repeat' split at h
  all_goals (
    first
    | (cases h; done)
    | (cases h; simp; done)
    | (cases h; exact getLabel_len _ _ _ _ (by assumption))
    | (cases h; exact terminate_len _ _ (by assumption))
    | (cases h; exact getBranchTarget_len _ _ _ (by assumption))
    | (cases h; exact getFile_len _ _ _ (by assumption))
    | exact getTextCmd_len _ _ _ _ _ h
    | exact getSubst_len _ _ _ h
    | exact getTranset_len _ _ _ h)

theorem parseBody_len (tr : Traits) (a1 a2 : PAddr) (s2 : Str) (cmd : PCmd) (s' : Str)
    (h : parseBody tr a1 a2 s2 = .ok (cmd, s')) : s'.length < s2.length := by
  simp only [parseBody] at h
  have h1 := skipSpaces_len s2
  split at h
  · cases h
  · rename_i op s5 hg
    cases h
    split at hg
    · rename_i tl heq
      have hb := bangs_len (skipSpaces s2) false
      have hs := skipSpaces_len (bangs (skipSpaces s2) false).2
      simp only at hg
      cases hq : skipSpaces (bangs (skipSpaces s2) false).2 with
      | nil => rw [hq] at hg; simp [getCommand] at hg
      | cons c t =>
        rw [hq] at hg hs
        have := getCommand_len _ _ _ _ _ _ _ hg
        simp at hs; omega
    · simp only at hg
      cases hq : skipSpaces s2 with
      | nil => rw [hq] at hg; simp [getCommand] at hg
      | cons c t =>
        rw [hq] at hg h1
        have := getCommand_len _ _ _ _ _ _ _ hg
        simp at h1; omega

theorem parseCmd_len (tr : Traits) (s : Str) (cmd : PCmd) (s' : Str) (h : parseCmd tr s = .ok (cmd, s')) :
    s'.length < s.length := by
  simp only [parseCmd] at h
  split at h
  · cases h
  · rename_i a1 a2 s2 ha
    have := parseAddrs_len _ _ _ _ ha
    have := parseBody_len _ _ _ _ _ _ h
    omega

end Hawk.Sed
