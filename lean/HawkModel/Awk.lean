import HawkModel.Awk.Syntax
import HawkModel.Awk.Value
import HawkModel.Awk.Eval
import HawkModel.Awk.Run
/-! C02 — Lean reference interpreter for the POSIX-compatible AWK subset (see the four sub-modules). -/
