import HawkModel.Gc
/-! helper lemmas for C07 (heap access, in-degree sums, the cascade and the collector phases) -/
namespace Hawk.Gc

/-! ### heap access -/

theorem Heap.get_lt {h : Heap} {i : Nat} {o : Obj} (hg : h.get i = some o) : i < h.length := by
  unfold Heap.get at hg
  cases hi : h[i]? with
  | none => simp [hi] at hg
  | some v => exact (List.getElem?_eq_some_iff.mp hi).1

theorem Heap.get_eq_getElem {h : Heap} {i : Id} (hi : i < h.length) : h.get i = h[i] := by
  unfold Heap.get; simp [hi]

theorem Heap.get_of_ge {h : Heap} {i : Id} (hi : h.length ≤ i) : h.get i = none := by
  unfold Heap.get; simp [hi]

theorem Heap.get_set_eq (h : Heap) (i : Id) (v : Option Obj) (hi : i < h.length) : Heap.get (h.set i v) i = v := by
  unfold Heap.get; simp [hi]

theorem Heap.get_set_ne (h : Heap) (i j : Id) (v : Option Obj) (hne : i ≠ j) : Heap.get (h.set i v) j = h.get j := by
  unfold Heap.get; simp [List.getElem?_set, hne]

theorem Heap.get_set (h : Heap) (i j : Id) (v : Option Obj) (hi : i < h.length) :
    Heap.get (h.set i v) j = if i = j then v else h.get j := by
  by_cases e : i = j
  · subst e; simp [Heap.get_set_eq _ _ _ hi]
  · simp [e, Heap.get_set_ne _ _ _ _ e]

theorem Heap.get_upd (h : Heap) (f : Obj → Obj) (i : Id) : (h.upd f).get i = (h.get i).map f := by
  unfold Heap.get Heap.upd
  simp only [List.getElem?_map]
  cases h[i]? <;> simp

theorem Heap.length_upd (h : Heap) (f : Obj → Obj) : (h.upd f).length = h.length := by
  simp [Heap.upd]

theorem Heap.get_mem {h : Heap} {i : Id} {o : Obj} (hg : h.get i = some o) : some o ∈ h := by
  have hi := Heap.get_lt hg
  rw [Heap.get_eq_getElem hi] at hg
  rw [← hg]; exact List.getElem_mem hi

theorem Heap.mem_get {h : Heap} {o : Obj} (hm : some o ∈ h) : ∃ i, h.get i = some o := by
  obtain ⟨i, hi, e⟩ := List.getElem_of_mem hm
  exact ⟨i, by rw [Heap.get_eq_getElem hi, e]⟩

theorem Heap.get_append_left (h : Heap) (v : Option Obj) (i : Id) (hi : i < h.length) : Heap.get (h ++ [v]) i = h.get i := by
  unfold Heap.get; simp [List.getElem?_append, hi]

theorem Heap.get_append_self (h : Heap) (v : Option Obj) : Heap.get (h ++ [v]) h.length = v := by
  unfold Heap.get; simp

theorem Heap.get_append (h : Heap) (v : Option Obj) (i : Nat) :
    Heap.get (h ++ [v]) i = if i < h.length then h.get i else if i = h.length then v else none := by
  by_cases h1 : i < h.length
  · simp [h1, Heap.get_append_left]
  · by_cases h2 : i = h.length
    · subst h2; simp [Heap.get_append_self]
    · simp only [h1, h2, if_false]; apply Heap.get_of_ge; simp only [List.length_append, List.length_singleton]; omega

/-! ### in-degree -/

/-- how many elements of the (possibly freed) object are `x` -/
def cnt (x : Id) : Option Obj → Nat
  | some o => o.children.count x
  | none => 0

/-- number of container elements, over all live containers, that are `x` -/
def inDeg (h : Heap) (x : Id) : Nat := (h.map (cnt x)).sum

theorem sum_map_set {α : Type} (l : List α) (f : α → Nat) (i : Nat) (a : α) (hi : i < l.length) :
    ((l.set i a).map f).sum + f l[i] = (l.map f).sum + f a := by
  induction l generalizing i with
  | nil => simp at hi
  | cons b t ih =>
    cases i with
    | zero => simp; omega
    | succ n =>
      simp at hi
      have := ih n hi
      simp only [List.set_cons_succ, List.map_cons, List.sum_cons, List.getElem_cons_succ]
      omega

theorem inDeg_set (h : Heap) (i : Id) (v : Option Obj) (x : Id) (hi : i < h.length) :
    inDeg (h.set i v) x + cnt x (h.get i) = inDeg h x + cnt x v := by
  unfold inDeg
  rw [Heap.get_eq_getElem hi]
  exact sum_map_set h (cnt x) i v hi

theorem inDeg_set_same (h : Heap) (i : Id) (o o' : Obj) (x : Id) (hg : h.get i = some o)
    (hc : o'.children = o.children) : inDeg (h.set i (some o')) x = inDeg h x := by
  have := inDeg_set h i (some o') x (Heap.get_lt hg)
  rw [hg] at this
  simp only [cnt, hc] at this
  omega

theorem le_sum_of_mem {l : List Nat} {a : Nat} (h : a ∈ l) : a ≤ l.sum := by
  induction l with
  | nil => simp at h
  | cons b t ih =>
    simp at h
    rcases h with h | h
    · subst h; simp
    · have := ih h; simp; omega

theorem cnt_le_inDeg {h : Heap} {i : Id} {o : Obj} (hg : h.get i = some o) (x : Id) :
    o.children.count x ≤ inDeg h x := by
  unfold inDeg
  apply le_sum_of_mem
  exact List.mem_map.mpr ⟨some o, Heap.get_mem hg, rfl⟩

theorem not_mem_of_inDeg_zero {h : Heap} {x : Id} (hz : inDeg h x = 0) {i : Id} {o : Obj}
    (hg : h.get i = some o) : x ∉ o.children := by
  have := cnt_le_inDeg hg x
  rw [hz] at this
  exact List.count_eq_zero.mp (by omega)

theorem exists_of_sum_pos {l : List Nat} (h : 0 < l.sum) : ∃ a ∈ l, 0 < a := by
  induction l with
  | nil => simp at h
  | cons b t ih =>
    simp at h
    by_cases hb : 0 < b
    · exact ⟨b, by simp, hb⟩
    · have : 0 < t.sum := by omega
      obtain ⟨a, ha, hp⟩ := ih this
      exact ⟨a, by simp [ha], hp⟩

theorem exists_parent_of_inDeg_pos {h : Heap} {x : Id} (hp : 0 < inDeg h x) :
    ∃ i o, h.get i = some o ∧ x ∈ o.children := by
  unfold inDeg at hp
  obtain ⟨a, ha, hpos⟩ := exists_of_sum_pos hp
  obtain ⟨oo, hoo, rfl⟩ := List.mem_map.mp ha
  cases oo with
  | none => simp [cnt] at hpos
  | some o =>
    obtain ⟨i, hi⟩ := Heap.mem_get hoo
    exact ⟨i, o, hi, List.count_pos_iff.mp hpos⟩

theorem inDeg_append (h : Heap) (v : Option Obj) (x : Id) : inDeg (h ++ [v]) x = inDeg h x + cnt x v := by
  simp [inDeg, List.sum_append]

theorem inDeg_upd (h : Heap) (f : Obj → Obj) (hf : ∀ o, (f o).children = o.children) (x : Id) :
    inDeg (h.upd f) x = inDeg h x := by
  unfold inDeg Heap.upd
  rw [List.map_map]
  congr 1
  apply List.map_congr_left
  intro oo _
  cases oo <;> simp [cnt, hf]

end Hawk.Gc

namespace Hawk.Gc

/-! ### the invariant carried through a cascade of element-freeer calls

`todo` = element-freeer calls still owed (an edge has already been removed for each).
Objects whose `gc_refs` is `GCH_UNREACHABLE` ("marked") are the unreachable set of a running collection;
their own counts are not tracked (they are about to be freed wholesale). -/

structure CInv (s : St) (todo : List Id) : Prop where
  nofault : s.fault = false
  ledger : ∀ i o, s.heap.get i = some o → o.gcRefs ≠ GCH_UNREACHABLE →
    o.refs = s.roots.count i + inDeg s.heap i + todo.count i
  pos : ∀ i o, s.heap.get i = some o → o.gcRefs ≠ GCH_UNREACHABLE → 0 < o.refs
  closed : ∀ i o, s.heap.get i = some o → ∀ c ∈ o.children, (s.heap.get c).isSome
  todoLive : ∀ c ∈ todo, (s.heap.get c).isSome
  rootsLive : ∀ r ∈ s.roots, ∃ o, s.heap.get r = some o ∧ o.gcRefs ≠ GCH_UNREACHABLE
  noInto : ∀ i o, s.heap.get i = some o → o.gcRefs ≠ GCH_UNREACHABLE →
    ∀ c ∈ o.children, ∀ oc, s.heap.get c = some oc → oc.gcRefs ≠ GCH_UNREACHABLE

theorem CInv.congr {s s' : St} {todo : List Id} (hh : s'.heap = s.heap) (hr : s'.roots = s.roots)
    (hf : s'.fault = s.fault) (h : CInv s todo) : CInv s' todo := by
  constructor
  · rw [hf]; exact h.nofault
  · rw [hh, hr]; exact h.ledger
  · rw [hh]; exact h.pos
  · rw [hh]; exact h.closed
  · rw [hh]; exact h.todoLive
  · rw [hh, hr]; exact h.rootsLive
  · rw [hh]; exact h.noInto

theorem cascade_inv (s : St) (todo : List Id) (h : CInv s todo) : CInv (cascade s todo) [] := by
  fun_induction cascade s todo with
  | case1 s => exact h
  | case2 s c rest hc =>
    have := h.todoLive c (by simp)
    simp [hc] at this
  | case3 s c rest oc hc hm ih =>
    apply ih
    refine { h with ledger := ?_, todoLive := ?_ }
    · intro i o hi hu
      have hne : i ≠ c := by
        intro e; subst e; rw [hc] at hi; cases hi; exact hu hm
      have := h.ledger i o hi hu
      rw [List.count_cons_of_ne (Ne.symm hne)] at this
      exact this
    · intro x hx; exact h.todoLive x (by simp [hx])
  | case4 s c rest oc hc hm hz =>
    have := h.ledger c oc hc hm
    simp at this
    omega
  | case5 s c rest oc hc hm hz h1 ih =>
    apply ih
    have hl := h.ledger c oc hc hm
    simp only [List.count_cons_self] at hl
    have hr0 : s.roots.count c = 0 := by omega
    have hd0 : inDeg s.heap c = 0 := by omega
    have ht0 : rest.count c = 0 := by omega
    have hclt := Heap.get_lt hc
    have hnc : ∀ i o, s.heap.get i = some o → c ∉ o.children := fun i o hi => not_mem_of_inDeg_zero hd0 hi
    have hget : ∀ i o, Heap.get (s.heap.set c none) i = some o → i ≠ c ∧ s.heap.get i = some o := by
      intro i o hi
      rw [Heap.get_set _ _ _ _ hclt] at hi
      by_cases e : c = i
      · simp [e] at hi
      · simp [e] at hi; exact ⟨fun e' => e e'.symm, hi⟩
    have hlive : ∀ x, x ≠ c → (s.heap.get x).isSome → (Heap.get (s.heap.set c none) x).isSome := by
      intro x hx hs
      rw [Heap.get_set_ne _ _ _ _ (Ne.symm hx)]; exact hs
    constructor
    · exact h.nofault
    · intro i o hi hu
      obtain ⟨hne, hi'⟩ := hget i o hi
      have := h.ledger i o hi' hu
      rw [List.count_cons_of_ne (Ne.symm hne)] at this
      have hd := inDeg_set s.heap c none i hclt
      rw [hc] at hd
      simp only [cnt] at hd
      simp only [List.count_append]
      show o.refs = s.roots.count i + inDeg (s.heap.set c none) i + (oc.children.count i + rest.count i)
      omega
    · intro i o hi hu
      exact h.pos i o (hget i o hi).2 hu
    · intro i o hi x hx
      obtain ⟨hne, hi'⟩ := hget i o hi
      apply hlive x
      · intro e; subst e; exact hnc i o hi' hx
      · exact h.closed i o hi' x hx
    · intro x hx
      simp only [List.mem_append] at hx
      rcases hx with hx | hx
      · apply hlive x
        · intro e; subst e; exact hnc x oc hc hx
        · exact h.closed c oc hc x hx
      · apply hlive x
        · intro e; subst e; exact (List.count_eq_zero.mp ht0) hx
        · exact h.todoLive x (by simp [hx])
    · intro r hr
      obtain ⟨o, ho, hu⟩ := h.rootsLive r hr
      have hne : r ≠ c := by
        intro e; subst e; exact (List.count_eq_zero.mp hr0) hr
      exact ⟨o, by show Heap.get (s.heap.set c none) r = some o; rw [Heap.get_set_ne _ _ _ _ (Ne.symm hne)]; exact ho, hu⟩
    · intro i o hi hu x hx ox hox
      exact h.noInto i o (hget i o hi).2 hu x hx ox (hget x ox hox).2
  | case6 s c rest oc hc hm hz h1 ih =>
    apply ih
    have hclt := Heap.get_lt hc
    have hl := h.ledger c oc hc hm
    simp only [List.count_cons_self] at hl
    have hget : ∀ i o, Heap.get (s.heap.set c (some { oc with refs := oc.refs - 1 })) i = some o →
        (i = c ∧ o = { oc with refs := oc.refs - 1 }) ∨ (i ≠ c ∧ s.heap.get i = some o) := by
      intro i o hi
      rw [Heap.get_set _ _ _ _ hclt] at hi
      by_cases e : c = i
      · simp [e] at hi; left; exact ⟨e.symm, hi.symm⟩
      · simp [e] at hi; right; exact ⟨fun e' => e e'.symm, hi⟩
    have hdeg : ∀ x, inDeg (s.heap.set c (some { oc with refs := oc.refs - 1 })) x = inDeg s.heap x :=
      fun x => inDeg_set_same s.heap c oc _ x hc rfl
    have hlive : ∀ x, (s.heap.get x).isSome → (Heap.get (s.heap.set c (some { oc with refs := oc.refs - 1 })) x).isSome := by
      intro x hs
      rw [Heap.get_set _ _ _ _ hclt]
      by_cases e : c = x <;> simp [e, hs]
    constructor
    · exact h.nofault
    · intro i o hi hu
      show o.refs = s.roots.count i + inDeg (s.heap.set c (some { oc with refs := oc.refs - 1 })) i + rest.count i
      rw [hdeg]
      rcases hget i o hi with ⟨rfl, rfl⟩ | ⟨hne, hi'⟩
      · simp only; omega
      · have := h.ledger i o hi' hu
        rw [List.count_cons_of_ne (Ne.symm hne)] at this
        exact this
    · intro i o hi hu
      rcases hget i o hi with ⟨rfl, rfl⟩ | ⟨hne, hi'⟩
      · simp only; omega
      · exact h.pos i o hi' hu
    · intro i o hi x hx
      apply hlive
      rcases hget i o hi with ⟨rfl, rfl⟩ | ⟨hne, hi'⟩
      · exact h.closed i oc hc x hx
      · exact h.closed i o hi' x hx
    · intro x hx
      exact hlive x (h.todoLive x (by simp [hx]))
    · intro r hr
      obtain ⟨o, ho, hu⟩ := h.rootsLive r hr
      by_cases e : r = c
      · subst e
        rw [hc] at ho; cases ho
        exact ⟨_, Heap.get_set_eq _ _ _ hclt, hu⟩
      · exact ⟨o, by show Heap.get (s.heap.set c _) r = some o; rw [Heap.get_set_ne _ _ _ _ (Ne.symm e)]; exact ho, hu⟩
    · intro i o hi hu x hx ox hox
      have hxu : ∀ o', s.heap.get x = some o' → o'.gcRefs ≠ GCH_UNREACHABLE := by
        rcases hget i o hi with ⟨rfl, rfl⟩ | ⟨hne, hi'⟩
        · exact fun o' ho' => h.noInto i oc hc hm x hx o' ho'
        · exact fun o' ho' => h.noInto i o hi' hu x hx o' ho'
      rcases hget x ox hox with ⟨rfl, rfl⟩ | ⟨hne, hx'⟩
      · exact hm
      · exact hxu ox hx'

end Hawk.Gc

namespace Hawk.Gc

/-! ### what a cascade leaves alone -/

theorem cascade_roots (s : St) (todo : List Id) : (cascade s todo).roots = s.roots := by
  fun_induction cascade s todo <;> simp_all

theorem cascade_legacy (s : St) (todo : List Id) : (cascade s todo).legacy = s.legacy := by
  fun_induction cascade s todo <;> simp_all

theorem cascade_length (s : St) (todo : List Id) : (cascade s todo).heap.length = s.heap.length := by
  fun_induction cascade s todo <;> simp_all

/-- a survivor of a cascade is an object that was there before, with at most its count changed -/
theorem cascade_get (s : St) (todo : List Id) (i : Id) (o' : Obj)
    (h : (cascade s todo).heap.get i = some o') :
    ∃ o, s.heap.get i = some o ∧ o'.gcRefs = o.gcRefs ∧ o'.gen = o.gen ∧ o'.children = o.children := by
  fun_induction cascade s todo with
  | case1 s => exact ⟨o', h, rfl, rfl, rfl⟩
  | case2 s c rest hc => exact ⟨o', h, rfl, rfl, rfl⟩
  | case3 s c rest oc hc hm ih => exact ih h
  | case4 s c rest oc hc hm hz => exact ⟨o', h, rfl, rfl, rfl⟩
  | case5 s c rest oc hc hm hz h1 ih =>
    obtain ⟨o, ho, hrest⟩ := ih h
    have hclt := Heap.get_lt hc
    simp only at ho
    rw [Heap.get_set _ _ _ _ hclt] at ho
    by_cases e : c = i
    · simp [e] at ho
    · simp [e] at ho; exact ⟨o, ho, hrest⟩
  | case6 s c rest oc hc hm hz h1 ih =>
    obtain ⟨o, ho, h1', h2', h3'⟩ := ih h
    have hclt := Heap.get_lt hc
    simp only at ho
    rw [Heap.get_set _ _ _ _ hclt] at ho
    by_cases e : c = i
    · simp [e] at ho
      subst e
      exact ⟨oc, hc, by rw [h1', ← ho], by rw [h2', ← ho], by rw [h3', ← ho]⟩
    · simp [e] at ho; exact ⟨o, ho, h1', h2', h3'⟩

/-- a marked object (member of the unreachable set) is not touched by a cascade -/
theorem cascade_marked (s : St) (todo : List Id) (i : Id) (o : Obj)
    (h : s.heap.get i = some o) (hm : o.gcRefs = GCH_UNREACHABLE) :
    (cascade s todo).heap.get i = some o := by
  fun_induction cascade s todo with
  | case1 s => exact h
  | case2 s c rest hc => exact h
  | case3 s c rest oc hc hm' ih => exact ih h
  | case4 s c rest oc hc hm' hz => exact h
  | case5 s c rest oc hc hm' hz h1 ih =>
    apply ih
    have hne : c ≠ i := by intro e; subst e; rw [hc] at h; cases h; exact hm' hm
    simp only
    rw [Heap.get_set_ne _ _ _ _ hne]; exact h
  | case6 s c rest oc hc hm' hz h1 ih =>
    apply ih
    have hne : c ≠ i := by intro e; subst e; rw [hc] at h; cases h; exact hm' hm
    simp only
    rw [Heap.get_set_ne _ _ _ _ hne]; exact h

theorem cascade_nil (s : St) : cascade s [] = s := by rw [cascade]

theorem cascade_cons_none (s : St) (c : Id) (rest : List Id) (hc : s.heap.get c = none) :
    cascade s (c :: rest) = { s with fault := true } := by
  rw [cascade]
  split
  · rfl
  · rename_i oc hoc; rw [hc] at hoc; cases hoc

theorem cascade_cons_some (s : St) (c : Id) (rest : List Id) (oc : Obj) (hc : s.heap.get c = some oc) :
    cascade s (c :: rest) =
      if oc.gcRefs = GCH_UNREACHABLE then cascade s rest
      else if oc.refs = 0 then { s with fault := true }
      else if oc.refs = 1 then cascade { s with heap := s.heap.set c none } (oc.children ++ rest)
      else cascade { s with heap := s.heap.set c (some { oc with refs := oc.refs - 1 }) } rest := by
  rw [cascade]
  split
  · rename_i hn; rw [hc] at hn; cases hn
  · rename_i oc' hoc; rw [hc] at hoc; cases hoc; rfl

/-- `hawk_rtx_refdownval` on an unmarked object is the element freeer on it -/
theorem refdown_eq_cascade (s : St) (o : Id) (h : ∀ ob, s.heap.get o = some ob → ob.gcRefs ≠ GCH_UNREACHABLE) :
    refdown s o = cascade s [o] := by
  unfold refdown
  cases hg : s.heap.get o with
  | none => simp [cascade_cons_none _ _ _ hg]
  | some ob =>
    have hu := h ob hg
    simp only [cascade_cons_some _ _ _ _ hg, hu, if_false, List.append_nil, cascade_nil]

end Hawk.Gc

namespace Hawk.Gc

/-! ### the invariant between client operations -/

/-- between collections an object either sits in generation 0 with the `gc_refs` it was allocated with
(calloc: 0), or in an older generation with the `GCH_MOVED` left by the collection it survived -/
def GcOk (o : Obj) : Prop := (o.gcRefs = GCH_MOVED ∧ 1 ≤ o.gen ∧ o.gen ≤ 2) ∨ (o.gcRefs = 0 ∧ o.gen = 0)

theorem GcOk.unmarked {o : Obj} (h : GcOk o) : o.gcRefs ≠ GCH_UNREACHABLE := by
  rcases h with ⟨h, _⟩ | ⟨h, _⟩ <;> rw [h] <;> decide

structure Inv (s : St) : Prop where
  c : CInv s []
  gc : ∀ i o, s.heap.get i = some o → GcOk o
  legacy : s.legacy = false

theorem Inv.unmarked {s : St} (h : Inv s) {i : Id} {o : Obj} (hi : s.heap.get i = some o) :
    o.gcRefs ≠ GCH_UNREACHABLE := (h.gc i o hi).unmarked

theorem inv_of_cascade (s : St) (todo : List Id) (hc : CInv s todo)
    (hg : ∀ i o, s.heap.get i = some o → GcOk o) (hl : s.legacy = false) : Inv (cascade s todo) := by
  refine ⟨cascade_inv s todo hc, ?_, by rw [cascade_legacy]; exact hl⟩
  intro i o' hi
  obtain ⟨o, ho, h1, h2, _⟩ := cascade_get s todo i o' hi
  have := hg i o ho
  unfold GcOk at *
  rw [h1, h2]; exact this

theorem inv_init : Inv {} := by
  refine ⟨⟨rfl, ?_, ?_, ?_, ?_, ?_, ?_⟩, ?_, rfl⟩ <;> simp [Heap.get]

/-! #### link / addRoot -/

theorem inv_link (s : St) (p c : Id) (s' : St) (h : Inv s) (hs : link s p c = some s') : Inv s' := by
  unfold link at hs
  split at hs
  · rename_i op oc hp hc
    simp only [Option.some.injEq] at hs
    subst hs
    have hplt := Heap.get_lt hp
    have hclt := Heap.get_lt hc
    -- the heap after storing the element
    have hg1 : ∀ i, Heap.get (s.heap.set p (some { op with children := c :: op.children })) i =
        if p = i then some { op with children := c :: op.children } else s.heap.get i :=
      fun i => Heap.get_set _ _ _ _ hplt
    -- the object found at `c` by refup
    obtain ⟨x, hx, hxr, hxg, hxgen, hxc⟩ : ∃ x, Heap.get (s.heap.set p (some { op with children := c :: op.children })) c = some x ∧
        x.refs = oc.refs ∧ x.gcRefs = oc.gcRefs ∧ x.gen = oc.gen ∧ (x.children = oc.children ∨ (p = c ∧ x.children = c :: oc.children)) := by
      rw [hg1]
      by_cases e : p = c
      · subst e; rw [hp] at hc; cases hc
        exact ⟨{ op with children := p :: op.children }, by simp, rfl, rfl, rfl, Or.inr ⟨rfl, rfl⟩⟩
      · exact ⟨oc, by simp [e, hc], rfl, rfl, rfl, Or.inl rfl⟩
    have hlen1 : (s.heap.set p (some { op with children := c :: op.children })).length = s.heap.length := by simp
    have hheap : refup (s.heap.set p (some { op with children := c :: op.children })) c =
        (s.heap.set p (some { op with children := c :: op.children })).set c (some { x with refs := x.refs + 1 }) := by
      unfold refup; rw [hx]
    -- every object of the new heap comes from an object of the old one
    have hget : ∀ i o', Heap.get (refup (s.heap.set p (some { op with children := c :: op.children })) c) i = some o' →
        ∃ o, s.heap.get i = some o ∧ o'.gcRefs = o.gcRefs ∧ o'.gen = o.gen ∧
          o'.refs = o.refs + (if i = c then 1 else 0) ∧
          (∀ y, o'.children.count y = o.children.count y + (if i = p ∧ y = c then 1 else 0)) := by
      intro i o' hi
      rw [hheap, Heap.get_set _ _ _ _ (by rw [hlen1]; exact hclt)] at hi
      by_cases e : c = i
      · subst e
        simp only [if_true, Option.some.injEq] at hi
        subst hi
        refine ⟨oc, hc, hxg, hxgen, by simp [hxr], ?_⟩
        intro y
        rcases hxc with hxc | ⟨e, hxc⟩
        · have : ¬ (c = p) := by
            intro e; subst e
            rw [hg1] at hx; simp at hx
            rw [← hx] at hxc; rw [hp] at hc; cases hc; simp at hxc
          simp [hxc, this]
        · subst e; simp only [hxc, true_and]
          by_cases ey : y = p
          · subst ey; simp
          · simp [ey, List.count_cons_of_ne (Ne.symm ey)]
      · simp only [e, if_false] at hi
        rw [hg1] at hi
        by_cases e2 : p = i
        · subst e2
          simp only [if_true, Option.some.injEq] at hi
          subst hi
          refine ⟨op, hp, rfl, rfl, by simp [Ne.symm e], ?_⟩
          intro y
          by_cases ey : y = c
          · subst ey; simp
          · simp [ey, List.count_cons_of_ne (Ne.symm ey)]
        · simp only [e2, if_false] at hi
          exact ⟨o', hi, rfl, rfl, by simp [Ne.symm e], by intro y; simp [Ne.symm e2]⟩
    have hlive : ∀ i, (s.heap.get i).isSome →
        (Heap.get (refup (s.heap.set p (some { op with children := c :: op.children })) c) i).isSome := by
      intro i hi
      rw [hheap, Heap.get_set _ _ _ _ (by rw [hlen1]; exact hclt)]
      by_cases e : c = i
      · simp [e]
      · simp only [e, if_false]; rw [hg1]
        by_cases e2 : p = i <;> simp [e2, hi]
    have hdeg : ∀ y, inDeg (refup (s.heap.set p (some { op with children := c :: op.children })) c) y =
        inDeg s.heap y + (if y = c then 1 else 0) := by
      intro y
      rw [hheap, inDeg_set_same _ c x { x with refs := x.refs + 1 } y hx rfl]
      have := inDeg_set s.heap p (some { op with children := c :: op.children }) y hplt
      rw [hp] at this
      simp only [cnt] at this
      by_cases ey : y = c
      · subst ey; simp at this; simp; omega
      · rw [List.count_cons_of_ne (Ne.symm ey)] at this; simp [ey]; omega
    have hmem : ∀ (i : Id) (o' o : Obj) (y : Id), s.heap.get i = some o →
        (∀ y, o'.children.count y = o.children.count y + (if i = p ∧ y = c then 1 else 0)) →
        y ∈ o'.children → y ∈ o.children ∨ y = c := by
      intro i o' o y _ hcnt hy
      have := hcnt y
      have hp' := List.count_pos_iff.mpr hy
      by_cases ey : y = c
      · right; exact ey
      · left; simp [ey] at this; apply List.count_pos_iff.mp; omega
    refine ⟨⟨h.c.nofault, ?_, ?_, ?_, by simp, ?_, ?_⟩, ?_, h.legacy⟩
    · intro i o' hi _
      obtain ⟨o, ho, _, _, hr, _⟩ := hget i o' hi
      have := h.c.ledger i o ho (h.unmarked ho)
      simp only [List.count_nil, Nat.add_zero] at this ⊢
      show o'.refs = s.roots.count i + inDeg (refup _ c) i
      rw [hdeg, hr, this]; omega
    · intro i o' hi _
      obtain ⟨o, ho, _, _, hr, _⟩ := hget i o' hi
      have := h.c.pos i o ho (h.unmarked ho)
      omega
    · intro i o' hi y hy
      obtain ⟨o, ho, _, _, _, hcnt⟩ := hget i o' hi
      apply hlive
      rcases hmem i o' o y ho hcnt hy with hy | rfl
      · exact h.c.closed i o ho y hy
      · simp [hc]
    · intro r hr
      obtain ⟨o, ho, hu⟩ := h.c.rootsLive r hr
      have := hlive r (by simp [ho])
      obtain ⟨o', ho'⟩ := Option.isSome_iff_exists.mp this
      obtain ⟨o2, ho2, hg2, _⟩ := hget r o' ho'
      rw [ho] at ho2; cases ho2
      exact ⟨o', ho', by rw [hg2]; exact hu⟩
    · intro i o' hi _ y hy oy hoy
      obtain ⟨o2, ho2, hg2, _⟩ := hget y oy hoy
      rw [hg2]; exact h.unmarked ho2
    · intro i o' hi
      obtain ⟨o, ho, hg2, hgen2, _⟩ := hget i o' hi
      have := h.gc i o ho
      unfold GcOk at *
      rw [hg2, hgen2]; exact this
  · cases hs

end Hawk.Gc

namespace Hawk.Gc

/-! #### detaching elements from a container (unlink, clear, finalisation of an unreachable container) -/

theorem cinv_detach (s : St) (p : Id) (op : Obj) (ch' todo : List Id) (h : CInv s [])
    (hp : s.heap.get p = some op) (hcnt : ∀ x, op.children.count x = ch'.count x + todo.count x) :
    CInv { s with heap := s.heap.set p (some { op with children := ch' }) } todo := by
  have hplt := Heap.get_lt hp
  have hget : ∀ i o', Heap.get (s.heap.set p (some { op with children := ch' })) i = some o' →
      (i = p ∧ o' = { op with children := ch' }) ∨ (i ≠ p ∧ s.heap.get i = some o') := by
    intro i o' hi
    rw [Heap.get_set _ _ _ _ hplt] at hi
    by_cases e : p = i
    · simp [e] at hi; left; exact ⟨e.symm, hi.symm⟩
    · simp [e] at hi; right; exact ⟨fun e' => e e'.symm, hi⟩
  have hlive : ∀ i, (s.heap.get i).isSome → (Heap.get (s.heap.set p (some { op with children := ch' })) i).isSome := by
    intro i hi
    rw [Heap.get_set _ _ _ _ hplt]
    by_cases e : p = i <;> simp [e, hi]
  have hsub1 : ∀ x, x ∈ ch' → x ∈ op.children := by
    intro x hx
    have := hcnt x; have := List.count_pos_iff.mpr hx
    apply List.count_pos_iff.mp; omega
  have hsub2 : ∀ x, x ∈ todo → x ∈ op.children := by
    intro x hx
    have := hcnt x; have := List.count_pos_iff.mpr hx
    apply List.count_pos_iff.mp; omega
  have hdeg : ∀ x, inDeg (s.heap.set p (some { op with children := ch' })) x + todo.count x = inDeg s.heap x := by
    intro x
    have := inDeg_set s.heap p (some { op with children := ch' }) x hplt
    rw [hp] at this
    simp only [cnt] at this
    have := hcnt x
    omega
  have hold : ∀ i o', Heap.get (s.heap.set p (some { op with children := ch' })) i = some o' →
      ∃ o, s.heap.get i = some o ∧ o'.refs = o.refs ∧ o'.gcRefs = o.gcRefs ∧ ∀ x ∈ o'.children, x ∈ o.children := by
    intro i o' hi
    rcases hget i o' hi with ⟨rfl, rfl⟩ | ⟨_, hi'⟩
    · exact ⟨op, hp, rfl, rfl, hsub1⟩
    · exact ⟨o', hi', rfl, rfl, fun _ hx => hx⟩
  constructor
  · exact h.nofault
  · intro i o' hi hu
    obtain ⟨o, ho, hr, hg, _⟩ := hold i o' hi
    have := h.ledger i o ho (by rw [← hg]; exact hu)
    have := hdeg i
    simp only [List.count_nil, Nat.add_zero] at *
    show o'.refs = s.roots.count i + inDeg (s.heap.set p _) i + todo.count i
    omega
  · intro i o' hi hu
    obtain ⟨o, ho, hr, hg, _⟩ := hold i o' hi
    have := h.pos i o ho (by rw [← hg]; exact hu)
    omega
  · intro i o' hi x hx
    obtain ⟨o, ho, _, _, hs⟩ := hold i o' hi
    exact hlive x (h.closed i o ho x (hs x hx))
  · intro x hx
    exact hlive x (h.closed p op hp x (hsub2 x hx))
  · intro r hr
    obtain ⟨o, ho, hu⟩ := h.rootsLive r hr
    obtain ⟨o', ho'⟩ := Option.isSome_iff_exists.mp (hlive r (by simp [ho]))
    obtain ⟨o2, ho2, _, hg2, _⟩ := hold r o' ho'
    rw [ho] at ho2; cases ho2
    exact ⟨o', ho', by rw [hg2]; exact hu⟩
  · intro i o' hi hu x hx ox hox
    obtain ⟨o, ho, _, hg, hs⟩ := hold i o' hi
    obtain ⟨o2, ho2, _, hg2, _⟩ := hold x ox hox
    rw [hg2]
    exact h.noInto i o ho (by rw [← hg]; exact hu) x (hs x hx) o2 ho2

theorem gcok_detach (s : St) (p : Id) (op : Obj) (ch' : List Id)
    (hg : ∀ i o, s.heap.get i = some o → GcOk o) (hp : s.heap.get p = some op) :
    ∀ i o, Heap.get (s.heap.set p (some { op with children := ch' })) i = some o → GcOk o := by
  intro i o hi
  rw [Heap.get_set _ _ _ _ (Heap.get_lt hp)] at hi
  by_cases e : p = i
  · simp [e] at hi; subst hi; exact hg p op hp
  · simp [e] at hi; exact hg i o hi

theorem inv_unlink (s : St) (p c : Id) (s' : St) (h : Inv s) (hs : unlink s p c = some s') : Inv s' := by
  unfold unlink at hs
  split at hs
  · rename_i op hp
    split at hs
    · rename_i hmem
      simp only [Option.some.injEq] at hs
      subst hs
      apply inv_of_cascade
      · apply cinv_detach s p op _ [c] h.c hp
        intro x
        by_cases e : x = c
        · subst e
          have := List.count_pos_iff.mpr hmem
          simp [List.count_erase_self]; omega
        · simp [List.count_erase_of_ne e, List.count_cons_of_ne (Ne.symm e)]
      · exact gcok_detach s p op _ h.gc hp
      · exact h.legacy
    · cases hs
  · cases hs

theorem inv_clear (s : St) (p : Id) (s' : St) (h : Inv s) (hs : clear s p = some s') : Inv s' := by
  unfold clear at hs
  split at hs
  · rename_i op hp
    split at hs
    · simp only [Option.some.injEq] at hs
      subst hs
      apply inv_of_cascade
      · apply cinv_detach s p op [] op.children h.c hp
        intro x; simp
      · exact gcok_detach s p op _ h.gc hp
      · exact h.legacy
    · cases hs
  · cases hs

/-! #### addRoot / dropRoot -/

theorem inv_addRoot (s : St) (o : Id) (s' : St) (h : Inv s) (hs : addRoot s o = some s') : Inv s' := by
  unfold addRoot at hs
  split at hs
  · rename_i ob hob
    simp only [Option.some.injEq] at hs
    subst hs
    have holt := Heap.get_lt hob
    have hheap : refup s.heap o = s.heap.set o (some { ob with refs := ob.refs + 1 }) := by
      unfold refup; rw [hob]
    have hget : ∀ i o', Heap.get (refup s.heap o) i = some o' →
        ∃ o2, s.heap.get i = some o2 ∧ o'.gcRefs = o2.gcRefs ∧ o'.gen = o2.gen ∧ o'.children = o2.children ∧
          o'.refs = o2.refs + (if i = o then 1 else 0) := by
      intro i o' hi
      rw [hheap, Heap.get_set _ _ _ _ holt] at hi
      by_cases e : o = i
      · subst e; simp at hi; subst hi; exact ⟨ob, hob, rfl, rfl, rfl, by simp⟩
      · simp [e] at hi; exact ⟨o', hi, rfl, rfl, rfl, by simp [Ne.symm e]⟩
    have hlive : ∀ i, (s.heap.get i).isSome → (Heap.get (refup s.heap o) i).isSome := by
      intro i hi
      rw [hheap, Heap.get_set _ _ _ _ holt]
      by_cases e : o = i <;> simp [e, hi]
    have hdeg : ∀ y, inDeg (refup s.heap o) y = inDeg s.heap y := by
      intro y; rw [hheap]; exact inDeg_set_same _ _ ob _ y hob rfl
    refine ⟨⟨h.c.nofault, ?_, ?_, ?_, by simp, ?_, ?_⟩, ?_, h.legacy⟩
    · intro i o' hi _
      obtain ⟨o2, ho2, _, _, _, hr⟩ := hget i o' hi
      have := h.c.ledger i o2 ho2 (h.unmarked ho2)
      simp only [List.count_nil, Nat.add_zero] at this ⊢
      show o'.refs = (o :: s.roots).count i + inDeg (refup s.heap o) i
      rw [hdeg, hr, this]
      by_cases e : i = o
      · subst e; simp; omega
      · simp [e, List.count_cons_of_ne (Ne.symm e)]
    · intro i o' hi _
      obtain ⟨o2, ho2, _, _, _, hr⟩ := hget i o' hi
      have := h.c.pos i o2 ho2 (h.unmarked ho2)
      omega
    · intro i o' hi y hy
      obtain ⟨o2, ho2, _, _, hc, _⟩ := hget i o' hi
      exact hlive y (h.c.closed i o2 ho2 y (hc ▸ hy))
    · intro r hr
      have hrl : (s.heap.get r).isSome := by
        simp only [List.mem_cons] at hr
        rcases hr with rfl | hr
        · simp [hob]
        · obtain ⟨o2, ho2, _⟩ := h.c.rootsLive r hr; simp [ho2]
      obtain ⟨o', ho'⟩ := Option.isSome_iff_exists.mp (hlive r hrl)
      obtain ⟨o2, ho2, hg2, _⟩ := hget r o' ho'
      exact ⟨o', ho', by rw [hg2]; exact h.unmarked ho2⟩
    · intro i o' hi _ y hy oy hoy
      obtain ⟨o2, ho2, hg2, _⟩ := hget y oy hoy
      rw [hg2]; exact h.unmarked ho2
    · intro i o' hi
      obtain ⟨o2, ho2, hg2, hgen2, _⟩ := hget i o' hi
      have := h.gc i o2 ho2
      unfold GcOk at *
      rw [hg2, hgen2]; exact this
  · cases hs

theorem inv_dropRoot (s : St) (o : Id) (s' : St) (h : Inv s) (hs : dropRoot s o = some s') : Inv s' := by
  unfold dropRoot at hs
  split at hs
  · rename_i hmem
    simp only [Option.some.injEq] at hs
    subst hs
    rw [refdown_eq_cascade]
    · apply inv_of_cascade
      · constructor
        · exact h.c.nofault
        · intro i ob hi hu
          have := h.c.ledger i ob hi hu
          simp only [List.count_nil, Nat.add_zero] at this
          show ob.refs = (s.roots.erase o).count i + inDeg s.heap i + [o].count i
          by_cases e : i = o
          · subst e
            have := List.count_pos_iff.mpr hmem
            simp [List.count_erase_self]; omega
          · simp [List.count_erase_of_ne e, List.count_cons_of_ne (Ne.symm e)]; exact this
        · exact h.c.pos
        · exact h.c.closed
        · intro x hx
          simp only [List.mem_singleton] at hx; subst hx
          obtain ⟨ob, hob, _⟩ := h.c.rootsLive x hmem
          simp [hob]
        · intro r hr
          exact h.c.rootsLive r (List.mem_of_mem_erase hr)
        · exact h.c.noInto
      · exact h.gc
      · exact h.legacy
    · intro ob hob; exact h.unmarked hob
  · cases hs

theorem inv_relink (s : St) (p c d : Id) (s' : St) (h : Inv s) (hs : relink s p c d = some s') : Inv s' := by
  unfold relink at hs
  split at hs
  · split at hs
    · split at hs
      · simp only [Option.some.injEq] at hs; subst hs; exact h
      · split at hs
        · cases hu : unlink s p c with
          | none => simp [hu] at hs
          | some s1 =>
            simp only [hu, Option.bind_some] at hs
            exact inv_link s1 p d s' (inv_unlink s p c s1 h hu) hs
        · cases hs
    · cases hs
  · cases hs

/-! #### allocation (the new container itself; the collection by pressure is handled with the collector) -/

theorem inv_push (s : St) (h : Inv s) :
    Inv { s with heap := s.heap ++ [some { refs := 1, gcRefs := 0, gen := 0, children := [] }],
                 roots := s.heap.length :: s.roots, p0 := s.p0 + 1 } := by
  have hget : ∀ i o, Heap.get (s.heap ++ [some { refs := 1, gcRefs := 0, gen := 0, children := [] }]) i = some o →
      (i < s.heap.length ∧ s.heap.get i = some o) ∨ (i = s.heap.length ∧ o = { refs := 1, gcRefs := 0, gen := 0, children := [] }) := by
    intro i o hi
    rw [Heap.get_append] at hi
    by_cases h1 : i < s.heap.length
    · simp [h1] at hi; exact Or.inl ⟨h1, hi⟩
    · by_cases h2 : i = s.heap.length
      · simp [h2] at hi; exact Or.inr ⟨h2, hi.symm⟩
      · simp [h1, h2] at hi
  have hlive : ∀ i, (s.heap.get i).isSome →
      (Heap.get (s.heap ++ [some { refs := 1, gcRefs := 0, gen := 0, children := [] }]) i).isSome := by
    intro i hi
    obtain ⟨o, ho⟩ := Option.isSome_iff_exists.mp hi
    rw [Heap.get_append_left _ _ _ (Heap.get_lt ho)]; exact hi
  have hdeg : ∀ y, inDeg (s.heap ++ [some { refs := 1, gcRefs := 0, gen := 0, children := [] }]) y = inDeg s.heap y := by
    intro y; rw [inDeg_append]; simp [cnt]
  have hnew0 : inDeg s.heap s.heap.length = 0 := by
    cases hz : inDeg s.heap s.heap.length with
    | zero => rfl
    | succ n =>
      obtain ⟨i, o, hi, hm⟩ := exists_parent_of_inDeg_pos (h := s.heap) (x := s.heap.length) (by omega)
      have := h.c.closed i o hi _ hm
      obtain ⟨o2, ho2⟩ := Option.isSome_iff_exists.mp this
      exact absurd (Heap.get_lt ho2) (Nat.lt_irrefl _)
  have hroot0 : s.roots.count s.heap.length = 0 := by
    apply List.count_eq_zero.mpr
    intro hm
    obtain ⟨o, ho, _⟩ := h.c.rootsLive _ hm
    exact absurd (Heap.get_lt ho) (Nat.lt_irrefl _)
  refine ⟨⟨h.c.nofault, ?_, ?_, ?_, by simp, ?_, ?_⟩, ?_, h.legacy⟩
  · intro i o hi _
    show o.refs = (s.heap.length :: s.roots).count i + inDeg (s.heap ++ _) i + [].count i
    rw [hdeg]
    rcases hget i o hi with ⟨hlt, ho⟩ | ⟨rfl, rfl⟩
    · have := h.c.ledger i o ho (h.unmarked ho)
      have hne : i ≠ s.heap.length := Nat.ne_of_lt hlt
      simp only [List.count_nil, Nat.add_zero] at this ⊢
      rw [List.count_cons_of_ne (Ne.symm hne)]; exact this
    · simp [hnew0, hroot0]
  · intro i o hi _
    rcases hget i o hi with ⟨_, ho⟩ | ⟨rfl, rfl⟩
    · exact h.c.pos i o ho (h.unmarked ho)
    · simp
  · intro i o hi y hy
    rcases hget i o hi with ⟨_, ho⟩ | ⟨rfl, rfl⟩
    · exact hlive y (h.c.closed i o ho y hy)
    · simp at hy
  · intro r hr
    simp only [List.mem_cons] at hr
    rcases hr with rfl | hr
    · exact ⟨_, Heap.get_append_self _ _, by decide⟩
    · obtain ⟨o, ho, hu⟩ := h.c.rootsLive r hr
      exact ⟨o, by show Heap.get (s.heap ++ _) r = some o; rw [Heap.get_append_left _ _ _ (Heap.get_lt ho)]; exact ho, hu⟩
  · intro i o hi _ y hy oy hoy
    rcases hget y oy hoy with ⟨_, ho⟩ | ⟨rfl, rfl⟩
    · exact h.unmarked ho
    · decide
  · intro i o hi
    rcases hget i o hi with ⟨_, ho⟩ | ⟨rfl, rfl⟩
    · exact h.gc i o ho
    · right; exact ⟨rfl, rfl⟩

end Hawk.Gc

namespace Hawk.Gc

/-! ### the collector: counting the elements held by the members of a list -/

/-- number of elements equal to `x` over the live containers satisfying `p` -/
def inDegFrom (h : Heap) (p : Obj → Bool) (x : Id) : Nat :=
  (h.map fun oo => match oo with | some o => if p o then o.children.count x else 0 | none => 0).sum

theorem count_edgesWhere (h : Heap) (p : Obj → Bool) (x : Id) :
    (h.edgesWhere p).count x = inDegFrom h p x := by
  unfold Heap.edgesWhere inDegFrom
  rw [List.count_flatMap]
  congr 1
  apply List.map_congr_left
  intro oo _
  cases oo with
  | none => simp
  | some o => by_cases hp : p o <;> simp [hp]

theorem inDeg_split (h : Heap) (p : Obj → Bool) (x : Id) :
    inDeg h x = inDegFrom h p x + inDegFrom h (fun o => !p o) x := by
  unfold inDeg inDegFrom
  induction h with
  | nil => simp
  | cons a t ih =>
    simp only [List.map_cons, List.sum_cons, ih]
    cases a with
    | none => simp [cnt]
    | some o => by_cases hp : p o <;> simp [hp, cnt] <;> omega

theorem not_mem_of_inDegFrom_zero {h : Heap} {p : Obj → Bool} {x : Id} (hz : inDegFrom h p x = 0)
    {i : Id} {o : Obj} (hg : h.get i = some o) (hp : p o = true) : x ∉ o.children := by
  have : o.children.count x ≤ inDegFrom h p x := by
    unfold inDegFrom
    apply le_sum_of_mem
    exact List.mem_map.mpr ⟨some o, Heap.get_mem hg, by simp [hp]⟩
  rw [hz] at this
  exact List.count_eq_zero.mp (by omega)

theorem mem_edgesWhere {h : Heap} {p : Obj → Bool} {x : Id} {i : Id} {o : Obj}
    (hg : h.get i = some o) (hp : p o = true) (hx : x ∈ o.children) : x ∈ h.edgesWhere p := by
  unfold Heap.edgesWhere
  exact List.mem_flatMap.mpr ⟨some o, Heap.get_mem hg, by simp [hp, hx]⟩

theorem inDegFrom_congr (h h' : Heap) (p p' : Obj → Bool) (x : Id) (hl : h'.length = h.length)
    (hsame : ∀ i, match h.get i, h'.get i with
      | some o, some o' => o'.children = o.children ∧ p' o' = p o
      | none, none => True
      | _, _ => False) : inDegFrom h' p' x = inDegFrom h p x := by
  unfold inDegFrom
  congr 1
  apply List.ext_getElem
  · simp [hl]
  · intro n h1 h2
    simp only [List.length_map] at h1 h2
    simp only [List.getElem_map]
    have := hsame n
    rw [Heap.get_eq_getElem h2, Heap.get_eq_getElem h1] at this
    cases e1 : h[n] <;> cases e2 : h'[n] <;> simp [e1, e2] at this ⊢
    rw [this.1, this.2]

theorem mem_idsWhere {h : Heap} {p : Obj → Bool} {i : Id} :
    i ∈ h.idsWhere p ↔ ∃ o, h.get i = some o ∧ p o = true := by
  unfold Heap.idsWhere
  simp only [List.mem_filterMap]
  constructor
  · rintro ⟨⟨oo, j⟩, hm, hf⟩
    have hj := List.mem_zipIdx_iff_getElem?.mp hm
    simp only at hj
    cases oo with
    | none => simp at hf
    | some o =>
      by_cases hp : p o
      · simp [hp] at hf; subst hf
        exact ⟨o, by unfold Heap.get; rw [hj]; rfl, hp⟩
      · simp [hp] at hf
  · rintro ⟨o, ho, hp⟩
    refine ⟨(some o, i), List.mem_zipIdx_iff_getElem?.mpr ?_, by simp [hp]⟩
    have hi := Heap.get_lt ho
    rw [Heap.get_eq_getElem hi] at ho
    simp [hi, ho]

end Hawk.Gc

namespace Hawk.Gc

/-! ### `gc_trace_refs` phase 2 (repaired): the decrements land exactly on the members of the list -/

theorem decChild_none (h : Heap) (e : Id) (he : h.get e = none) : decChild false h e = h := by
  unfold decChild; rw [he]

theorem decChild_moved (h : Heap) (e : Id) (oe : Obj) (he : h.get e = some oe) (hm : oe.gcRefs = GCH_MOVED) :
    decChild false h e = h := by
  unfold decChild; rw [he]; simp [hm]

theorem decChild_dec (h : Heap) (e : Id) (oe : Obj) (he : h.get e = some oe) (hm : oe.gcRefs ≠ GCH_MOVED) :
    decChild false h e = h.set e (some { oe with gcRefs := oe.gcRefs - 1 }) := by
  unfold decChild; rw [he]; simp [hm]

theorem decFold_spec (E : List Id) (h : Heap)
    (hpre : ∀ i o, h.get i = some o → o.gcRefs = GCH_MOVED ∨ (E.count i : Int) ≤ o.gcRefs) :
    (∀ i o, h.get i = some o → (E.foldl (decChild false) h).get i =
        some (if o.gcRefs = GCH_MOVED then o else { o with gcRefs := o.gcRefs - E.count i }))
    ∧ (∀ i, h.get i = none → (E.foldl (decChild false) h).get i = none)
    ∧ (E.foldl (decChild false) h).length = h.length := by
  induction E generalizing h with
  | nil =>
    refine ⟨?_, fun i hi => hi, rfl⟩
    intro i o hi
    simp only [List.foldl_nil, hi, List.count_nil]
    by_cases hm : o.gcRefs = GCH_MOVED <;> simp [hm]
  | cons e E' ih =>
    simp only [List.foldl_cons]
    cases he : h.get e with
    | none =>
      rw [decChild_none h e he]
      have hne : ∀ i o, h.get i = some o → i ≠ e := by
        intro i o hi e'; subst e'; rw [he] at hi; cases hi
      obtain ⟨a, b, c⟩ := ih h (by
        intro i o hi
        rcases hpre i o hi with hm | hle
        · exact Or.inl hm
        · right; rw [List.count_cons_of_ne (Ne.symm (hne i o hi))] at hle; exact hle)
      refine ⟨?_, b, c⟩
      intro i o hi
      rw [a i o hi, List.count_cons_of_ne (Ne.symm (hne i o hi))]
    | some oe =>
      by_cases hm : oe.gcRefs = GCH_MOVED
      · rw [decChild_moved h e oe he hm]
        obtain ⟨a, b, c⟩ := ih h (by
          intro i o hi
          rcases hpre i o hi with hm' | hle
          · exact Or.inl hm'
          · by_cases e' : i = e
            · subst e'; rw [he] at hi; cases hi; exact Or.inl hm
            · right; rw [List.count_cons_of_ne (Ne.symm e')] at hle; exact hle)
        refine ⟨?_, b, c⟩
        intro i o hi
        rw [a i o hi]
        by_cases e' : i = e
        · subst e'; rw [he] at hi; cases hi; simp [hm]
        · rw [List.count_cons_of_ne (Ne.symm e')]
      · rw [decChild_dec h e oe he hm]
        have helt := Heap.get_lt he
        have hle : ((E'.count e : Nat) : Int) + 1 ≤ oe.gcRefs := by
          rcases hpre e oe he with hm' | hle
          · exact absurd hm' hm
          · simp only [List.count_cons_self] at hle; omega
        obtain ⟨a, b, c⟩ := ih (h.set e (some { oe with gcRefs := oe.gcRefs - 1 })) (by
          intro i o hi
          rw [Heap.get_set _ _ _ _ helt] at hi
          by_cases e' : e = i
          · subst e'; simp at hi; subst hi; right; simp only; omega
          · simp [e'] at hi
            rcases hpre i o hi with hm' | hle'
            · exact Or.inl hm'
            · right; rw [List.count_cons_of_ne e'] at hle'; exact hle')
        refine ⟨?_, ?_, by rw [c]; simp⟩
        · intro i o hi
          by_cases e' : e = i
          · subst e'
            rw [he] at hi; cases hi
            rw [a e _ (Heap.get_set_eq _ _ _ helt)]
            have h1 : oe.gcRefs - 1 ≠ GCH_MOVED := by unfold GCH_MOVED; omega
            simp only [h1, hm, if_false, List.count_cons_self]
            congr 2
            omega
          · rw [a i o (by rw [Heap.get_set_ne _ _ _ _ e']; exact hi), List.count_cons_of_ne e']
        · intro i hi
          apply b
          by_cases e' : e = i
          · subst e'; rw [he] at hi; cases hi
          · rw [Heap.get_set_ne _ _ _ _ e']; exact hi

end Hawk.Gc

namespace Hawk.Gc

/-! ### `gc_move_reachables` -/

theorem moveLoop_length (h : Heap) (todo : List Id) : (moveLoop h todo).length = h.length := by
  fun_induction moveLoop h todo <;> simp_all

theorem moveLoop_frame (h : Heap) (todo : List Id) (i : Id) :
    (h.get i = none → (moveLoop h todo).get i = none) ∧
    (∀ o, h.get i = some o → ∃ o', (moveLoop h todo).get i = some o' ∧ o'.refs = o.refs ∧ o'.children = o.children ∧
        (o' = o ∨ (o.gcRefs ≠ GCH_MOVED ∧ o'.gen = TMP ∧ o'.gcRefs = GCH_MOVED))) := by
  fun_induction moveLoop h todo with
  | case1 h => exact ⟨fun hi => hi, fun o ho => ⟨o, ho, rfl, rfl, Or.inl rfl⟩⟩
  | case2 h c rest hc ih => exact ih
  | case3 h c rest oc hc hm ih =>
    have hclt := Heap.get_lt hc
    constructor
    · intro hi
      apply ih.1
      have : c ≠ i := by intro e; subst e; rw [hc] at hi; cases hi
      rw [Heap.get_set_ne _ _ _ _ this]; exact hi
    · intro o ho
      by_cases e : c = i
      · subst e
        rw [hc] at ho; cases ho
        obtain ⟨o', ho', hr, hch, hcase⟩ := ih.2 _ (Heap.get_set_eq _ _ _ hclt)
        refine ⟨o', ho', hr, hch, Or.inr ⟨hm, ?_⟩⟩
        rcases hcase with rfl | ⟨hcontra, _⟩
        · exact ⟨rfl, rfl⟩
        · exact absurd rfl hcontra
      · exact ih.2 o (by rw [Heap.get_set_ne _ _ _ _ e]; exact ho)
  | case4 h c rest oc hc hm ih => exact ih

/-- what the second loop of `gc_move_reachables` guarantees: every element of a member of `reachable`
that is still to be looked at is in `todo`; at the end none is left -/
def MoveClosed (h : Heap) (todo : List Id) : Prop :=
  ∀ q oq, h.get q = some oq → oq.gen = TMP → ∀ c ∈ oq.children, ∀ oc, h.get c = some oc →
    oc.gcRefs = GCH_MOVED ∨ c ∈ todo

theorem moveLoop_closed (h : Heap) (todo : List Id) (hp : MoveClosed h todo) : MoveClosed (moveLoop h todo) [] := by
  fun_induction moveLoop h todo with
  | case1 h => exact hp
  | case2 h c rest hc ih =>
    apply ih
    intro q oq hq hg x hx ox hox
    rcases hp q oq hq hg x hx ox hox with hm | hm
    · exact Or.inl hm
    · simp only [List.mem_cons] at hm
      rcases hm with rfl | hm
      · rw [hc] at hox; cases hox
      · exact Or.inr hm
  | case3 h c rest oc hc hm ih =>
    apply ih
    have hclt := Heap.get_lt hc
    intro q oq hq hg x hx ox hox
    rw [Heap.get_set _ _ _ _ hclt] at hq hox
    by_cases ex : c = x
    · subst ex; simp at hox; subst hox; exact Or.inl rfl
    · simp only [ex, if_false] at hox
      by_cases eq : c = q
      · subst eq; simp at hq; subst hq
        right; simp only [List.mem_append]; exact Or.inr hx
      · simp only [eq, if_false] at hq
        rcases hp q oq hq hg x hx ox hox with hm' | hm'
        · exact Or.inl hm'
        · simp only [List.mem_cons] at hm'
          rcases hm' with rfl | hm'
          · exact absurd rfl ex
          · right; simp only [List.mem_append]; exact Or.inl hm'
  | case4 h c rest oc hc hm ih =>
    apply ih
    intro q oq hq hg x hx ox hox
    rcases hp q oq hq hg x hx ox hox with hm' | hm'
    · exact Or.inl hm'
    · simp only [List.mem_cons] at hm'
      rcases hm' with rfl | hm'
      · rw [hc] at hox; cases hox; left; exact Decidable.not_not.mp hm
      · exact Or.inr hm'

/-- every member of `reachable` has a reason to be there: `R` holds of the initial members, of everything
still to be looked at, and is inherited by container elements -/
theorem moveLoop_prov (R : Id → Prop) (h : Heap) (todo : List Id)
    (h1 : ∀ c ∈ todo, R c)
    (h2 : ∀ q oq, h.get q = some oq → oq.gen = TMP → R q)
    (h3 : ∀ q oq, h.get q = some oq → R q → ∀ c ∈ oq.children, R c) :
    ∀ q oq, (moveLoop h todo).get q = some oq → oq.gen = TMP → R q := by
  fun_induction moveLoop h todo with
  | case1 h => exact h2
  | case2 h c rest hc ih => exact ih (fun x hx => h1 x (by simp [hx])) h2 h3
  | case3 h c rest oc hc hm ih =>
    have hclt := Heap.get_lt hc
    have hRc : R c := h1 c (by simp)
    apply ih
    · intro x hx
      simp only [List.mem_append] at hx
      rcases hx with hx | hx
      · exact h1 x (by simp [hx])
      · exact h3 c oc hc hRc x hx
    · intro q oq hq hg
      rw [Heap.get_set _ _ _ _ hclt] at hq
      by_cases eq : c = q
      · subst eq; exact hRc
      · simp only [eq, if_false] at hq; exact h2 q oq hq hg
    · intro q oq hq hR x hx
      rw [Heap.get_set _ _ _ _ hclt] at hq
      by_cases eq : c = q
      · subst eq; simp at hq; subst hq; exact h3 c oc hc hR x hx
      · simp only [eq, if_false] at hq; exact h3 q oq hq hR x hx
  | case4 h c rest oc hc hm ih => exact ih (fun x hx => h1 x (by simp [hx])) h2 h3

end Hawk.Gc

namespace Hawk.Gc

/-! ### the collector, phase by phase, on a heap satisfying the invariant -/

/-- heap after `gc_move_all_gchs` of the younger lists and `gc_trace_refs` phase 1 -/
def heap2 (s : St) (g : Nat) : Heap := tracePhase1 (mergeYounger s.heap g) g

theorem heap2_get_none (s : St) (g : Nat) (i : Id) (hi : s.heap.get i = none) : (heap2 s g).get i = none := by
  unfold heap2 tracePhase1 mergeYounger
  simp [Heap.get_upd, hi]

theorem heap2_length (s : St) (g : Nat) : (heap2 s g).length = s.heap.length := by
  unfold heap2 tracePhase1 mergeYounger; simp [Heap.length_upd]

theorem heap2_get (s : St) (g : Nat) (i : Id) (o : Obj) (hi : s.heap.get i = some o) :
    ∃ o2, (heap2 s g).get i = some o2 ∧ o2.refs = o.refs ∧ o2.children = o.children ∧
      ((o.gen ≤ g ∧ o2.gen = g ∧ o2.gcRefs = (o.refs : Int)) ∨ (g < o.gen ∧ o2.gen = o.gen ∧ o2.gcRefs = o.gcRefs)) := by
  unfold heap2 tracePhase1 mergeYounger
  simp only [Heap.get_upd, hi, Option.map_some]
  by_cases h1 : o.gen < g
  · refine ⟨_, rfl, ?_⟩
    simp [h1]; omega
  · by_cases h2 : o.gen = g
    · refine ⟨_, rfl, ?_⟩
      simp [h1, h2]
    · refine ⟨_, rfl, ?_⟩
      simp [h1, h2]; omega

theorem heap2_inDeg (s : St) (g : Nat) (x : Id) : inDeg (heap2 s g) x = inDeg s.heap x := by
  unfold heap2 tracePhase1 mergeYounger
  rw [inDeg_upd, inDeg_upd]
  · intro o; split <;> rfl
  · intro o; split <;> rfl

/-- the residual count `gc_trace_refs` leaves in a member of the collected list -/
def resid (s : St) (g : Nat) (i : Id) (o : Obj) : Int :=
  (o.refs : Int) - (inDegFrom (heap2 s g) (fun o => o.gen == g) i : Nat)

/-- heap after `gc_trace_refs` -/
def heap3 (s : St) (g : Nat) : Heap := tracePhase2 false (heap2 s g) g

theorem heap3_spec (s : St) (g : Nat) (hinv : Inv s) :
    (heap3 s g).length = s.heap.length ∧
    (∀ i, s.heap.get i = none → (heap3 s g).get i = none) ∧
    (∀ i o, s.heap.get i = some o → ∃ o3, (heap3 s g).get i = some o3 ∧ o3.refs = o.refs ∧ o3.children = o.children ∧
      ((o.gen ≤ g ∧ o3.gen = g ∧ o3.gcRefs = resid s g i o ∧ 0 ≤ resid s g i o) ∨
       (g < o.gen ∧ o3.gen = o.gen ∧ o3.gcRefs = GCH_MOVED))) := by
  have hle : ∀ i o, s.heap.get i = some o → inDegFrom (heap2 s g) (fun o => o.gen == g) i ≤ o.refs := by
    intro i o hi
    have h1 := inDeg_split (heap2 s g) (fun o => o.gen == g) i
    rw [heap2_inDeg] at h1
    have h2 := hinv.c.ledger i o hi (hinv.unmarked hi)
    omega
  have hpre : ∀ i o2, (heap2 s g).get i = some o2 → o2.gcRefs = GCH_MOVED ∨
      (((heap2 s g).edgesWhere fun o => o.gen == g).count i : Int) ≤ o2.gcRefs := by
    intro i o2 hi2
    cases hi : s.heap.get i with
    | none => rw [heap2_get_none s g i hi] at hi2; cases hi2
    | some o =>
      obtain ⟨o2', ho2', _, _, hcase⟩ := heap2_get s g i o hi
      rw [hi2] at ho2'; cases ho2'
      rcases hcase with ⟨_, _, hg⟩ | ⟨hlt, _, hg⟩
      · right; rw [hg, count_edgesWhere]
        have := hle i o hi
        omega
      · left; rw [hg]
        rcases hinv.gc i o hi with ⟨hm, _⟩ | ⟨_, h0⟩
        · exact hm
        · omega
  obtain ⟨a, b, c⟩ := decFold_spec _ (heap2 s g) hpre
  refine ⟨?_, ?_, ?_⟩
  · unfold heap3 tracePhase2; rw [c, heap2_length]
  · intro i hi
    unfold heap3 tracePhase2
    exact b i (heap2_get_none s g i hi)
  · intro i o hi
    obtain ⟨o2, ho2, hr, hch, hcase⟩ := heap2_get s g i o hi
    have := a i o2 ho2
    unfold heap3 tracePhase2
    refine ⟨_, this, ?_⟩
    rcases hcase with ⟨hle', hgen, hg⟩ | ⟨hlt, hgen, hg⟩
    · have hnm : o2.gcRefs ≠ GCH_MOVED := by rw [hg]; unfold GCH_MOVED; omega
      simp only [hnm, if_false]
      refine ⟨hr, hch, Or.inl ⟨hle', hgen, ?_, ?_⟩⟩
      · rw [hg, count_edgesWhere]; rfl
      · unfold resid; have := hle i o hi; omega
    · have hm : o2.gcRefs = GCH_MOVED := by
        rw [hg]
        rcases hinv.gc i o hi with ⟨hm, _⟩ | ⟨_, h0⟩
        · exact hm
        · omega
      rw [if_pos hm]
      exact ⟨hr, hch, Or.inr ⟨hlt, hgen, hm⟩⟩

end Hawk.Gc

namespace Hawk.Gc

/-- heap after `gc_move_reachables` -/
def heap4 (s : St) (g : Nat) : Heap := moveReachables (heap3 s g) g

/-- what is known after `gc_move_reachables`: the members left in list `g` (the unreachable set) have a zero
residual, no holder, and no referring element outside the set -/
structure Moved (s : St) (g : Nat) : Prop where
  len : (heap4 s g).length = s.heap.length
  getNone : ∀ i, s.heap.get i = none → (heap4 s g).get i = none
  getSome : ∀ i o, s.heap.get i = some o → ∃ o4, (heap4 s g).get i = some o4 ∧ o4.refs = o.refs ∧ o4.children = o.children ∧
      ((o4.gen = g ∧ o4.gcRefs = 0 ∧ o.gen ≤ g ∧ resid s g i o = 0) ∨
       (o4.gen = TMP ∧ o4.gcRefs = GCH_MOVED ∧ o.gen ≤ g) ∨
       (o4.gen = o.gen ∧ g < o.gen ∧ o4.gcRefs = GCH_MOVED))
  closed : MoveClosed (heap4 s g) []

theorem moveRoots_get (h : Heap) (g : Nat) (i : Id) :
    (moveRoots h g).get i = (h.get i).map fun o =>
      if o.gen = g ∧ o.gcRefs ≠ 0 then { o with gen := TMP, gcRefs := GCH_MOVED } else o := by
  unfold moveRoots; rw [Heap.get_upd]

theorem moved_of_inv (s : St) (g : Nat) (hg : g ≤ 2) (hinv : Inv s) : Moved s g := by
  obtain ⟨h3len, h3none, h3some⟩ := heap3_spec s g hinv
  have hTMP : TMP ≠ g := by unfold TMP; omega
  -- after the first loop
  have h4a : ∀ i o, s.heap.get i = some o → ∃ o4, (moveRoots (heap3 s g) g).get i = some o4 ∧ o4.refs = o.refs ∧ o4.children = o.children ∧
      ((o4.gen = g ∧ o4.gcRefs = 0 ∧ o.gen ≤ g ∧ resid s g i o = 0) ∨
       (o4.gen = TMP ∧ o4.gcRefs = GCH_MOVED ∧ o.gen ≤ g) ∨
       (o4.gen = o.gen ∧ g < o.gen ∧ o4.gcRefs = GCH_MOVED)) := by
    intro i o hi
    obtain ⟨o3, ho3, hr, hch, hcase⟩ := h3some i o hi
    rw [moveRoots_get, ho3]
    simp only [Option.map_some]
    rcases hcase with ⟨hle, hgen, hres, _⟩ | ⟨hlt, hgen, hm⟩
    · by_cases hz : o3.gcRefs = 0
      · refine ⟨_, rfl, ?_⟩
        have : ¬ (o3.gen = g ∧ o3.gcRefs ≠ 0) := fun h => h.2 hz
        rw [if_neg this]
        exact ⟨hr, hch, Or.inl ⟨hgen, hz, hle, by rw [← hres]; exact hz⟩⟩
      · refine ⟨_, rfl, ?_⟩
        have : o3.gen = g ∧ o3.gcRefs ≠ 0 := ⟨hgen, hz⟩
        rw [if_pos this]
        exact ⟨hr, hch, Or.inr (Or.inl ⟨rfl, rfl, hle⟩)⟩
    · refine ⟨_, rfl, ?_⟩
      have : ¬ (o3.gen = g ∧ o3.gcRefs ≠ 0) := by rw [hgen]; omega
      rw [if_neg this]
      exact ⟨hr, hch, Or.inr (Or.inr ⟨hgen, hlt, hm⟩)⟩
  have h4anone : ∀ i, s.heap.get i = none → (moveRoots (heap3 s g) g).get i = none := by
    intro i hi; rw [moveRoots_get, h3none i hi]; rfl
  constructor
  · unfold heap4 moveReachables
    simp only [moveLoop_length]
    unfold moveRoots; rw [Heap.length_upd, h3len]
  · intro i hi
    unfold heap4 moveReachables
    exact (moveLoop_frame _ _ i).1 (h4anone i hi)
  · intro i o hi
    obtain ⟨o4a, ho4a, hr, hch, hcase⟩ := h4a i o hi
    obtain ⟨o4, ho4, hr', hch', hc'⟩ := (moveLoop_frame (moveRoots (heap3 s g) g)
      ((moveRoots (heap3 s g) g).edgesWhere fun o => o.gen == TMP) i).2 o4a ho4a
    unfold heap4 moveReachables
    refine ⟨o4, ho4, by rw [hr', hr], by rw [hch', hch], ?_⟩
    rcases hc' with rfl | ⟨hnm, hgen, hm⟩
    · exact hcase
    · rcases hcase with ⟨_, _, hle, _⟩ | ⟨_, hm', _⟩ | ⟨_, _, hm'⟩
      · exact Or.inr (Or.inl ⟨hgen, hm, hle⟩)
      · exact absurd hm' hnm
      · exact absurd hm' hnm
  · unfold heap4 moveReachables
    apply moveLoop_closed
    intro q oq hq hgen x hx ox hox
    right
    exact mem_edgesWhere hq (by simp [hgen]) hx

/-- the unreachable set has no holder and is referred to from inside the set only -/
theorem Moved.unreach {s : St} {g : Nat} (hm : Moved s g) (hg : g ≤ 2) (hinv : Inv s) (u : Id) (ou : Obj)
    (hu : (heap4 s g).get u = some ou) (hgen : ou.gen = g) :
    s.roots.count u = 0 ∧ ∀ j oj4, (heap4 s g).get j = some oj4 → oj4.gen ≠ g → u ∉ oj4.children := by
  have hTMP : TMP ≠ g := by unfold TMP; omega
  -- `u` in the original heap
  cases hu0 : s.heap.get u with
  | none => rw [hm.getNone u hu0] at hu; cases hu
  | some o =>
    obtain ⟨o4, ho4, hr, hch, hcase⟩ := hm.getSome u o hu0
    rw [hu] at ho4; cases ho4
    rcases hcase with ⟨_, hz, hle, hres⟩ | ⟨hgen', _, _⟩ | ⟨hgen', hlt, _⟩
    · -- residual zero: every reference comes from a member of the list
      have h1 := inDeg_split (heap2 s g) (fun o => o.gen == g) u
      rw [heap2_inDeg] at h1
      have h2 := hinv.c.ledger u o hu0 (hinv.unmarked hu0)
      unfold resid at hres
      simp only [List.count_nil, Nat.add_zero] at h2
      have hr0 : s.roots.count u = 0 := by omega
      have hout : inDegFrom (heap2 s g) (fun o => !(o.gen == g)) u = 0 := by omega
      refine ⟨hr0, ?_⟩
      intro j oj4 hj hjg hmem
      cases hj0 : s.heap.get j with
      | none => rw [hm.getNone j hj0] at hj; cases hj
      | some oj =>
        obtain ⟨oj4', hoj4', _, hjch, hjcase⟩ := hm.getSome j oj hj0
        rw [hj] at hoj4'; cases hoj4'
        rcases hjcase with ⟨hjg', _⟩ | ⟨hjT, _, _⟩ | ⟨hjgen, hjlt, _⟩
        · exact hjg hjg'
        · -- a member of `reachable`: its elements have all been moved
          rcases hm.closed j oj4 hj hjT u hmem ou hu with hmv | hmv
          · rw [hz] at hmv; unfold GCH_MOVED at hmv; omega
          · simp at hmv
        · -- outside the list: counted in the zero sum
          obtain ⟨oj2, hoj2, _, hj2ch, hj2case⟩ := heap2_get s g j oj hj0
          have hj2gen : oj2.gen ≠ g := by
            rcases hj2case with ⟨hle', _, _⟩ | ⟨_, hg2, _⟩
            · omega
            · rw [hg2]; omega
          have := not_mem_of_inDegFrom_zero hout hoj2 (by simp [hj2gen])
          rw [hj2ch, ← hjch] at this
          exact this hmem
    · rw [hgen] at hgen'; exact absurd hgen'.symm hTMP
    · omega

end Hawk.Gc

namespace Hawk.Gc

theorem inDeg_congr (h h' : Heap) (x : Id) (hl : h'.length = h.length)
    (hsame : ∀ i, match h.get i, h'.get i with
      | some o, some o' => o'.children = o.children
      | none, none => True
      | _, _ => False) : inDeg h' x = inDeg h x := by
  unfold inDeg
  congr 1
  apply List.ext_getElem
  · simp [hl]
  · intro n h1 h2
    simp only [List.length_map] at h1 h2
    simp only [List.getElem_map]
    have := hsame n
    rw [Heap.get_eq_getElem h2, Heap.get_eq_getElem h1] at this
    cases e1 : h[n] <;> cases e2 : h'[n] <;> simp [e1, e2] at this ⊢
    simp [cnt, this]

/-! ### `gc_free_unreachables` -/

/-- heap after the first loop of `gc_free_unreachables` -/
def heap6 (s : St) (g : Nat) : Heap := markUnreachable (heap4 s g) g

theorem heap6_get (s : St) (g : Nat) (i : Id) :
    (heap6 s g).get i = ((heap4 s g).get i).map fun o => if o.gen = g then { o with gcRefs := GCH_UNREACHABLE } else o := by
  unfold heap6 markUnreachable; rw [Heap.get_upd]

/-- shape of the heap while the unreachable set is being disposed of: a member of list `g` is marked,
everything else carries `GCH_MOVED` and sits in `reachable` or in an older generation -/
def Shape6 (g : Nat) (o : Obj) : Prop :=
  (o.gen = g ∧ o.gcRefs = GCH_UNREACHABLE) ∨
  (o.gen ≠ g ∧ o.gcRefs = GCH_MOVED ∧ (o.gen = TMP ∨ (g < o.gen ∧ o.gen ≤ 2)))

theorem heap6_spec (s : St) (g : Nat) (hg : g ≤ 2) (hinv : Inv s) :
    CInv { s with heap := heap6 s g } [] ∧
    (∀ i o6, (heap6 s g).get i = some o6 → Shape6 g o6 ∧ ∃ o, s.heap.get i = some o ∧ o6.children = o.children) ∧
    (heap6 s g).length = s.heap.length := by
  have hm := moved_of_inv s g hg hinv
  have hTMP : TMP ≠ g := by unfold TMP; omega
  have hMU : GCH_MOVED ≠ GCH_UNREACHABLE := by decide
  -- pointwise description
  have hsome : ∀ i o, s.heap.get i = some o → ∃ o4 o6, (heap4 s g).get i = some o4 ∧ (heap6 s g).get i = some o6 ∧
      o6.refs = o.refs ∧ o6.children = o.children ∧ o6.gen = o4.gen ∧ o4.children = o.children ∧
      ((o4.gen = g ∧ o6.gcRefs = GCH_UNREACHABLE) ∨ (o4.gen ≠ g ∧ o6 = o4 ∧ o4.gcRefs = GCH_MOVED ∧ (o4.gen = TMP ∨ (g < o4.gen ∧ o4.gen ≤ 2)))) := by
    intro i o hi
    obtain ⟨o4, ho4, hr, hch, hcase⟩ := hm.getSome i o hi
    rw [heap6_get, ho4]
    simp only [Option.map_some]
    rcases hcase with ⟨hgen, _, _, _⟩ | ⟨hgen, hmv, _⟩ | ⟨hgen, hlt, hmv⟩
    · refine ⟨o4, _, rfl, rfl, ?_⟩
      rw [if_pos hgen]
      exact ⟨hr, hch, rfl, hch, Or.inl ⟨hgen, rfl⟩⟩
    · have hne : o4.gen ≠ g := by rw [hgen]; exact hTMP
      refine ⟨o4, _, rfl, rfl, ?_⟩
      rw [if_neg hne]
      exact ⟨hr, hch, rfl, hch, Or.inr ⟨hne, rfl, hmv, Or.inl hgen⟩⟩
    · have hne : o4.gen ≠ g := by omega
      have hle2 : o.gen ≤ 2 := by
        rcases hinv.gc i o hi with ⟨_, _, h2⟩ | ⟨_, h0⟩ <;> omega
      refine ⟨o4, _, rfl, rfl, ?_⟩
      rw [if_neg hne]
      exact ⟨hr, hch, rfl, hch, Or.inr ⟨hne, rfl, hmv, Or.inr (by omega)⟩⟩
  have hnone : ∀ i, s.heap.get i = none → (heap6 s g).get i = none := by
    intro i hi; rw [heap6_get, hm.getNone i hi]; rfl
  have hback : ∀ i o6, (heap6 s g).get i = some o6 → ∃ o, s.heap.get i = some o := by
    intro i o6 hi6
    cases hi : s.heap.get i with
    | none => rw [hnone i hi] at hi6; cases hi6
    | some o => exact ⟨o, rfl⟩
  have hlen : (heap6 s g).length = s.heap.length := by
    unfold heap6 markUnreachable; rw [Heap.length_upd, hm.len]
  have hdeg : ∀ x, inDeg (heap6 s g) x = inDeg s.heap x := by
    intro x
    apply inDeg_congr _ _ _ hlen
    intro i
    cases hi : s.heap.get i with
    | none => rw [hnone i hi]; trivial
    | some o =>
      obtain ⟨o4, o6, _, ho6, _, hch, _⟩ := hsome i o hi
      rw [ho6]; exact hch
  have hlive : ∀ i, (s.heap.get i).isSome → ((heap6 s g).get i).isSome := by
    intro i hi
    obtain ⟨o, ho⟩ := Option.isSome_iff_exists.mp hi
    obtain ⟨_, o6, _, ho6, _⟩ := hsome i o ho
    simp [ho6]
  -- a marked object is a member of the unreachable set
  have hmarked : ∀ i o6, (heap6 s g).get i = some o6 → o6.gcRefs = GCH_UNREACHABLE →
      ∃ o4, (heap4 s g).get i = some o4 ∧ o4.gen = g := by
    intro i o6 hi6 hmk
    obtain ⟨o, ho⟩ := hback i o6 hi6
    obtain ⟨o4, o6', ho4, ho6', _, _, _, _, hcase⟩ := hsome i o ho
    rw [hi6] at ho6'; cases ho6'
    rcases hcase with ⟨hgen, _⟩ | ⟨_, rfl, hmv, _⟩
    · exact ⟨o4, ho4, hgen⟩
    · rw [hmv] at hmk; exact absurd hmk hMU
  refine ⟨⟨hinv.c.nofault, ?_, ?_, ?_, by simp, ?_, ?_⟩, ?_, hlen⟩
  · intro i o6 hi6 _
    obtain ⟨o, ho⟩ := hback i o6 hi6
    obtain ⟨_, o6', _, ho6', hr, _⟩ := hsome i o ho
    rw [hi6] at ho6'; cases ho6'
    have := hinv.c.ledger i o ho (hinv.unmarked ho)
    show o6.refs = s.roots.count i + inDeg (heap6 s g) i + [].count i
    rw [hdeg, hr]; exact this
  · intro i o6 hi6 _
    obtain ⟨o, ho⟩ := hback i o6 hi6
    obtain ⟨_, o6', _, ho6', hr, _⟩ := hsome i o ho
    rw [hi6] at ho6'; cases ho6'
    rw [hr]; exact hinv.c.pos i o ho (hinv.unmarked ho)
  · intro i o6 hi6 x hx
    obtain ⟨o, ho⟩ := hback i o6 hi6
    obtain ⟨_, o6', _, ho6', _, hch, _⟩ := hsome i o ho
    rw [hi6] at ho6'; cases ho6'
    exact hlive x (hinv.c.closed i o ho x (hch ▸ hx))
  · intro r hr
    obtain ⟨o, ho, _⟩ := hinv.c.rootsLive r hr
    obtain ⟨o4, o6, ho4, ho6, _, _, _, _, hcase⟩ := hsome r o ho
    refine ⟨o6, ho6, ?_⟩
    intro hmk
    obtain ⟨o4', ho4', hgen⟩ := hmarked r o6 ho6 hmk
    have h0 := (hm.unreach hg hinv r o4' ho4' hgen).1
    have hr' : r ∈ s.roots := hr
    have h1 := List.count_pos_iff.mpr hr'
    omega
  · intro i o6 hi6 hu x hx ox hox hmk
    obtain ⟨ox4, hox4, hxgen⟩ := hmarked x ox hox hmk
    obtain ⟨o, ho⟩ := hback i o6 hi6
    obtain ⟨o4, o6', ho4, ho6', _, hch, _, hch4, hcase⟩ := hsome i o ho
    rw [hi6] at ho6'; cases ho6'
    rcases hcase with ⟨_, hmk'⟩ | ⟨hne, _, _, _⟩
    · exact hu hmk'
    · have := (hm.unreach hg hinv x ox4 hox4 hxgen).2 i o4 ho4 hne
      rw [hch4, ← hch] at this
      exact this hx
  · intro i o6 hi6
    obtain ⟨o, ho⟩ := hback i o6 hi6
    obtain ⟨o4, o6', ho4, ho6', _, hch, hgen6, _, hcase⟩ := hsome i o ho
    rw [hi6] at ho6'; cases ho6'
    refine ⟨?_, o, ho, hch⟩
    rcases hcase with ⟨hgen, hmk⟩ | ⟨hne, rfl, hmv, hrest⟩
    · left; exact ⟨by rw [hgen6]; exact hgen, hmk⟩
    · right; exact ⟨hne, hmv, hrest⟩

end Hawk.Gc

namespace Hawk.Gc

/-- one `hawk_rtx_freeval (.., HAWK_RTX_FREEVAL_GC_PRESERVE)` -/
theorem finalize_step (s : St) (u : Id) (h : CInv s []) :
    CInv (finalizePreserve s u) [] ∧ (finalizePreserve s u).roots = s.roots ∧
    (finalizePreserve s u).legacy = s.legacy ∧ (finalizePreserve s u).heap.length = s.heap.length ∧
    (∀ i o', (finalizePreserve s u).heap.get i = some o' → ∃ o, s.heap.get i = some o ∧ o'.gcRefs = o.gcRefs ∧
        o'.gen = o.gen ∧ (o'.children = o.children ∨ (i = u ∧ o'.children = []))) ∧
    (∀ i o, s.heap.get i = some o → o.gcRefs = GCH_UNREACHABLE → ∃ o', (finalizePreserve s u).heap.get i = some o' ∧
        (i = u → o'.children = []) ∧ (o.children = [] → o'.children = [])) := by
  unfold finalizePreserve
  cases hu : s.heap.get u with
  | none =>
    refine ⟨h, rfl, rfl, rfl, ?_, ?_⟩
    · intro i o' hi; exact ⟨o', hi, rfl, rfl, Or.inl rfl⟩
    · intro i o hi _
      refine ⟨o, hi, ?_, fun hc => hc⟩
      intro e; subst e; rw [hu] at hi; cases hi
  | some ou =>
    have hult := Heap.get_lt hu
    have hd := cinv_detach s u ou [] ou.children h hu (by intro x; simp)
    refine ⟨cascade_inv _ _ hd, by rw [cascade_roots], by rw [cascade_legacy], by rw [cascade_length]; simp, ?_, ?_⟩
    · intro i o' hi
      obtain ⟨o1, ho1, hg1, hgen1, hch1⟩ := cascade_get _ _ i o' hi
      simp only at ho1
      rw [Heap.get_set _ _ _ _ hult] at ho1
      by_cases e : u = i
      · subst e; simp at ho1; subst ho1
        exact ⟨ou, hu, hg1, hgen1, Or.inr ⟨rfl, hch1⟩⟩
      · simp only [e, if_false] at ho1
        exact ⟨o1, ho1, hg1, hgen1, Or.inl hch1⟩
    · intro i o hi hmk
      by_cases e : u = i
      · subst e
        rw [hu] at hi; cases hi
        refine ⟨{ ou with children := [] }, ?_, fun _ => rfl, fun _ => rfl⟩
        apply cascade_marked _ _ _ { ou with children := [] } _ hmk
        exact Heap.get_set_eq _ _ _ hult
      · refine ⟨o, ?_, fun e' => absurd e'.symm e, fun hc => hc⟩
        apply cascade_marked _ _ _ o _ hmk
        show Heap.get (s.heap.set u _) i = some o
        rw [Heap.get_set_ne _ _ _ _ e]; exact hi

/-- the second loop of `gc_free_unreachables` -/
theorem finalize_fold (U : List Id) (s : St) (h : CInv s []) :
    CInv (U.foldl finalizePreserve s) [] ∧ (U.foldl finalizePreserve s).roots = s.roots ∧
    (U.foldl finalizePreserve s).legacy = s.legacy ∧ (U.foldl finalizePreserve s).heap.length = s.heap.length ∧
    (∀ i o', (U.foldl finalizePreserve s).heap.get i = some o' → ∃ o, s.heap.get i = some o ∧ o'.gcRefs = o.gcRefs ∧
        o'.gen = o.gen ∧ (o'.children = o.children ∨ (i ∈ U ∧ o'.children = []))) ∧
    (∀ i o, s.heap.get i = some o → o.gcRefs = GCH_UNREACHABLE → ∃ o', (U.foldl finalizePreserve s).heap.get i = some o' ∧
        (i ∈ U → o'.children = []) ∧ (o.children = [] → o'.children = [])) := by
  induction U generalizing s with
  | nil =>
    refine ⟨h, rfl, rfl, rfl, ?_, ?_⟩
    · intro i o' hi; exact ⟨o', hi, rfl, rfl, Or.inl rfl⟩
    · intro i o hi _; exact ⟨o, hi, by simp, fun hc => hc⟩
  | cons u U' ih =>
    simp only [List.foldl_cons]
    obtain ⟨a1, a2, a3, a4, a5, a6⟩ := finalize_step s u h
    obtain ⟨b1, b2, b3, b4, b5, b6⟩ := ih (finalizePreserve s u) a1
    refine ⟨b1, by rw [b2, a2], by rw [b3, a3], by rw [b4, a4], ?_, ?_⟩
    · intro i o' hi
      obtain ⟨o1, ho1, hg1, hgen1, hch1⟩ := b5 i o' hi
      obtain ⟨o, ho, hg, hgen, hch⟩ := a5 i o1 ho1
      refine ⟨o, ho, by rw [hg1, hg], by rw [hgen1, hgen], ?_⟩
      rcases hch1 with hch1 | ⟨hm, hch1⟩
      · rcases hch with hch | ⟨e, hch⟩
        · left; rw [hch1, hch]
        · right; exact ⟨by simp [e], by rw [hch1, hch]⟩
      · right; exact ⟨by simp [hm], hch1⟩
    · intro i o hi hmk
      obtain ⟨o1, ho1, hu1, hk1⟩ := a6 i o hi hmk
      have hmk1 : o1.gcRefs = GCH_UNREACHABLE := by
        obtain ⟨o0, ho0, hg0, _⟩ := a5 i o1 ho1
        rw [hi] at ho0; cases ho0; rw [hg0]; exact hmk
      obtain ⟨o', ho', hu', hk'⟩ := b6 i o1 ho1 hmk1
      refine ⟨o', ho', ?_, fun hc => hk' (hk1 hc)⟩
      intro hm
      simp only [List.mem_cons] at hm
      rcases hm with e | hm
      · exact hk' (hu1 e)
      · exact hu' hm

theorem dropShells_get (h : Heap) (g : Nat) (i : Id) :
    (dropShells h g).get i = match h.get i with | some o => if o.gen = g then none else some o | none => none := by
  unfold dropShells Heap.get
  simp only [List.getElem?_map]
  cases h[i]? with
  | none => rfl
  | some oo => cases oo <;> rfl

theorem inDeg_dropShells (h : Heap) (g : Nat) (x : Id)
    (hempty : ∀ i o, h.get i = some o → o.gen = g → o.children = []) : inDeg (dropShells h g) x = inDeg h x := by
  unfold inDeg dropShells
  rw [List.map_map]
  congr 1
  apply List.map_congr_left
  intro oo hoo
  cases oo with
  | none => rfl
  | some o =>
    simp only [Function.comp]
    by_cases hgen : o.gen = g
    · obtain ⟨i, hi⟩ := Heap.mem_get hoo
      simp [hgen, cnt, hempty i o hi hgen]
    · simp [hgen]

theorem bumpPressure_heap (s : St) (g : Nat) : (bumpPressure s g).heap = s.heap := by
  unfold bumpPressure; split <;> rfl
theorem bumpPressure_roots (s : St) (g : Nat) : (bumpPressure s g).roots = s.roots := by
  unfold bumpPressure; split <;> rfl
theorem bumpPressure_fault (s : St) (g : Nat) : (bumpPressure s g).fault = s.fault := by
  unfold bumpPressure; split <;> rfl
theorem bumpPressure_legacy (s : St) (g : Nat) : (bumpPressure s g).legacy = s.legacy := by
  unfold bumpPressure; split <;> rfl

/-- state after the second loop of `gc_free_unreachables` -/
def state7 (s : St) (g : Nat) : St :=
  ((heap6 s g).idsWhere fun o => o.gen == g).foldl finalizePreserve { s with heap := heap6 s g }

theorem collectGen_eq (s : St) (g : Nat) (hl : s.legacy = false) :
    collectGen s g = bumpPressure { state7 s g with heap := promote (dropShells (state7 s g).heap g) (if g < 2 then g + 1 else g) } g := by
  unfold collectGen freeUnreachables state7 heap6 heap4 heap3 heap2
  simp only [hl]

/-- `gc_collect_garbage_in_generation` keeps the invariant; the survivors keep their elements -/
theorem inv_collectGen (s : St) (g : Nat) (hg : g ≤ 2) (hinv : Inv s) :
    Inv (collectGen s g) ∧ (collectGen s g).roots = s.roots ∧
    (∀ i o', (collectGen s g).heap.get i = some o' → ∃ o, s.heap.get i = some o ∧ o'.children = o.children) ∧
    (∀ i o', (collectGen s g).heap.get i = some o' → ∃ o4, (heap4 s g).get i = some o4 ∧ o4.gen ≠ g) := by
  obtain ⟨c6, shape6, len6⟩ := heap6_spec s g hg hinv
  obtain ⟨c7, roots7, legacy7, len7, get7, marked7⟩ :=
    finalize_fold ((heap6 s g).idsWhere fun o => o.gen == g) { s with heap := heap6 s g } c6
  have hTMP : TMP ≠ g := by unfold TMP; omega
  have hMU : GCH_MOVED ≠ GCH_UNREACHABLE := by decide
  -- objects of state7
  have h7 : ∀ i o7, (state7 s g).heap.get i = some o7 → Shape6 g o7 ∧
      (o7.gen = g → o7.children = []) ∧ (o7.gen ≠ g → ∃ o, s.heap.get i = some o ∧ o7.children = o.children) := by
    intro i o7 hi7
    obtain ⟨o6, ho6, hg6, hgen6, hch6⟩ := get7 i o7 hi7
    obtain ⟨hs6, o, ho, hch⟩ := shape6 i o6 ho6
    have hs7 : Shape6 g o7 := by unfold Shape6 at *; rw [hg6, hgen6]; exact hs6
    refine ⟨hs7, ?_, ?_⟩
    · intro hgen
      have hmk : o6.gcRefs = GCH_UNREACHABLE := by
        rcases hs6 with ⟨_, hmk⟩ | ⟨hne, _⟩
        · exact hmk
        · rw [hgen6] at hgen; exact absurd hgen hne
      obtain ⟨o7', ho7', hin, _⟩ := marked7 i o6 ho6 hmk
      have : (state7 s g).heap.get i = some o7' := ho7'
      rw [hi7] at this; cases this
      apply hin
      exact mem_idsWhere.mpr ⟨o6, ho6, by simp [← hgen6, hgen]⟩
    · intro hne
      refine ⟨o, ho, ?_⟩
      rcases hch6 with hch6 | ⟨hin, _⟩
      · rw [hch6, hch]
      · obtain ⟨o6', ho6', hp⟩ := mem_idsWhere.mp hin
        rw [ho6] at ho6'; cases ho6'
        simp at hp; rw [hgen6] at hne; exact absurd hp hne
  rw [collectGen_eq s g hinv.legacy]
  -- the heap after the shells are gone
  have h8 : ∀ i o8, (dropShells (state7 s g).heap g).get i = some o8 →
      (state7 s g).heap.get i = some o8 ∧ o8.gen ≠ g ∧ o8.gcRefs = GCH_MOVED ∧ (o8.gen = TMP ∨ (g < o8.gen ∧ o8.gen ≤ 2)) := by
    intro i o8 hi8
    rw [dropShells_get] at hi8
    cases hi7 : (state7 s g).heap.get i with
    | none => rw [hi7] at hi8; cases hi8
    | some o7 =>
      rw [hi7] at hi8
      simp only at hi8
      by_cases hgen : o7.gen = g
      · simp [hgen] at hi8
      · simp [hgen] at hi8; subst hi8
        rcases (h7 i o7 hi7).1 with ⟨hgen', _⟩ | ⟨_, hmv, hrest⟩
        · exact absurd hgen' hgen
        · exact ⟨rfl, hgen, hmv, hrest⟩
  have hlive8 : ∀ i o7, (state7 s g).heap.get i = some o7 → o7.gcRefs ≠ GCH_UNREACHABLE →
      (dropShells (state7 s g).heap g).get i = some o7 := by
    intro i o7 hi7 hu
    rw [dropShells_get, hi7]
    simp only
    rcases (h7 i o7 hi7).1 with ⟨_, hmk⟩ | ⟨hne, _⟩
    · exact absurd hmk hu
    · simp [hne]
  have hdeg8 : ∀ x, inDeg (dropShells (state7 s g).heap g) x = inDeg (state7 s g).heap x :=
    fun x => inDeg_dropShells _ g x (fun i o hi hgen => (h7 i o hi).2.1 hgen)
  have hc7 : CInv (state7 s g) [] := c7
  have c8 : CInv { state7 s g with heap := dropShells (state7 s g).heap g } [] := by
    constructor
    · exact hc7.nofault
    · intro i o8 hi8 hu
      show o8.refs = (state7 s g).roots.count i + inDeg (dropShells (state7 s g).heap g) i + [].count i
      rw [hdeg8]
      exact hc7.ledger i o8 (h8 i o8 hi8).1 hu
    · intro i o8 hi8 hu; exact hc7.pos i o8 (h8 i o8 hi8).1 hu
    · intro i o8 hi8 x hx
      have hx7 := hc7.closed i o8 (h8 i o8 hi8).1 x hx
      obtain ⟨ox, hox⟩ := Option.isSome_iff_exists.mp hx7
      have hu8 : o8.gcRefs ≠ GCH_UNREACHABLE := by rw [(h8 i o8 hi8).2.2.1]; exact hMU
      have := hc7.noInto i o8 (h8 i o8 hi8).1 hu8 x hx ox hox
      show (Heap.get (dropShells (state7 s g).heap g) x).isSome
      rw [hlive8 x ox hox this]; rfl
    · simp
    · intro r hr
      obtain ⟨o, ho, hu⟩ := hc7.rootsLive r hr
      exact ⟨o, hlive8 r o ho hu, hu⟩
    · intro i o8 hi8 _ x _ ox hox
      rw [(h8 x ox hox).2.2.1]; exact hMU
  -- promotion and the counters
  have hprom : ∀ i o9, (promote (dropShells (state7 s g).heap g) (if g < 2 then g + 1 else g)).get i = some o9 →
      ∃ o8, (dropShells (state7 s g).heap g).get i = some o8 ∧ o9.refs = o8.refs ∧ o9.gcRefs = o8.gcRefs ∧
        o9.children = o8.children ∧ o9.gen = (if o8.gen = TMP then (if g < 2 then g + 1 else g) else o8.gen) := by
    intro i o9 hi9
    unfold promote at hi9
    rw [Heap.get_upd] at hi9
    cases hi8 : (dropShells (state7 s g).heap g).get i with
    | none => rw [hi8] at hi9; cases hi9
    | some o8 =>
      rw [hi8] at hi9
      simp only [Option.map_some, Option.some.injEq] at hi9
      subst hi9
      refine ⟨o8, rfl, ?_⟩
      by_cases ht : o8.gen = TMP <;> simp [ht]
  have hprom' : ∀ i o8, (dropShells (state7 s g).heap g).get i = some o8 →
      ((promote (dropShells (state7 s g).heap g) (if g < 2 then g + 1 else g)).get i).isSome := by
    intro i o8 hi8
    unfold promote; rw [Heap.get_upd, hi8]; rfl
  have hdeg9 : ∀ x, inDeg (promote (dropShells (state7 s g).heap g) (if g < 2 then g + 1 else g)) x =
      inDeg (dropShells (state7 s g).heap g) x := by
    intro x; unfold promote; apply inDeg_upd; intro o; split <;> rfl
  have c9 : CInv { state7 s g with heap := promote (dropShells (state7 s g).heap g) (if g < 2 then g + 1 else g) } [] := by
    constructor
    · exact c8.nofault
    · intro i o9 hi9 hu
      obtain ⟨o8, ho8, hr, hgc, _, _⟩ := hprom i o9 hi9
      show o9.refs = (state7 s g).roots.count i + inDeg (promote _ _) i + [].count i
      rw [hdeg9, hr]
      exact c8.ledger i o8 ho8 (by rw [← hgc]; exact hu)
    · intro i o9 hi9 hu
      obtain ⟨o8, ho8, hr, hgc, _, _⟩ := hprom i o9 hi9
      rw [hr]; exact c8.pos i o8 ho8 (by rw [← hgc]; exact hu)
    · intro i o9 hi9 x hx
      obtain ⟨o8, ho8, _, _, hch, _⟩ := hprom i o9 hi9
      obtain ⟨ox, hox⟩ := Option.isSome_iff_exists.mp (c8.closed i o8 ho8 x (hch ▸ hx))
      exact hprom' x ox hox
    · simp
    · intro r hr
      obtain ⟨o8, ho8, hu⟩ := c8.rootsLive r hr
      obtain ⟨o9, ho9⟩ := Option.isSome_iff_exists.mp (hprom' r o8 ho8)
      obtain ⟨o8', ho8', _, hgc, _⟩ := hprom r o9 ho9
      have ho8c : (dropShells (state7 s g).heap g).get r = some o8 := ho8
      rw [ho8c] at ho8'; cases ho8'
      exact ⟨o9, ho9, by rw [hgc]; exact hu⟩
    · intro i o9 hi9 _ x _ ox hox
      obtain ⟨o8, ho8, _, hgc, _, _⟩ := hprom x ox hox
      rw [hgc, (h8 x o8 ho8).2.2.1]; exact hMU
  refine ⟨⟨?_, ?_, ?_⟩, ?_, ?_, ?_⟩
  · exact CInv.congr (bumpPressure_heap _ g) (bumpPressure_roots _ g) (bumpPressure_fault _ g) c9
  · intro i o9 hi9
    rw [bumpPressure_heap] at hi9
    obtain ⟨o8, ho8, _, hgc, _, hgen⟩ := hprom i o9 hi9
    obtain ⟨_, hne, hmv, hrest⟩ := h8 i o8 ho8
    left
    refine ⟨by rw [hgc]; exact hmv, ?_⟩
    rw [hgen]
    rcases hrest with ht | ⟨h1, h2⟩
    · simp only [ht, if_true]; split <;> omega
    · have : o8.gen ≠ TMP := by unfold TMP; omega
      simp only [this, if_false]; omega
  · rw [bumpPressure_legacy]; show (state7 s g).legacy = false; rw [show (state7 s g).legacy = s.legacy from legacy7]; exact hinv.legacy
  · rw [bumpPressure_roots]; exact roots7
  · intro i o9 hi9
    rw [bumpPressure_heap] at hi9
    obtain ⟨o8, ho8, _, _, hch, _⟩ := hprom i o9 hi9
    obtain ⟨h78, hne, _, _⟩ := h8 i o8 ho8
    obtain ⟨o, ho, hch7⟩ := (h7 i o8 h78).2.2 hne
    exact ⟨o, ho, by rw [hch, hch7]⟩
  · intro i o9 hi9
    rw [bumpPressure_heap] at hi9
    obtain ⟨o8, ho8, _, _, _, _⟩ := hprom i o9 hi9
    obtain ⟨h78, hne, _, _⟩ := h8 i o8 ho8
    obtain ⟨o6, ho6, _, hgen6, _⟩ := get7 i o8 h78
    have ho6' : (heap6 s g).get i = some o6 := ho6
    rw [heap6_get] at ho6'
    cases h4 : (heap4 s g).get i with
    | none => rw [h4] at ho6'; cases ho6'
    | some o4 =>
      rw [h4] at ho6'
      simp only [Option.map_some, Option.some.injEq] at ho6'
      refine ⟨o4, rfl, ?_⟩
      intro hgen4
      rw [if_pos hgen4] at ho6'
      subst ho6'
      simp only at hgen6
      rw [hgen6] at hne; exact hne hgen4

end Hawk.Gc

namespace Hawk.Gc

/-! ### every client operation keeps the invariant -/

theorem inv_collectAuto (s : St) (h : Inv s) : Inv (collectAuto s).1 := by
  unfold collectAuto
  split
  · exact (inv_collectGen s 2 (by omega) h).1
  · split
    · exact (inv_collectGen s 1 (by omega) h).1
    · exact (inv_collectGen s 0 (by omega) h).1

/-- the generation `hawk_rtx_gc` ends up collecting -/
theorem gc_eq (s : St) (gen : Int) : ∃ g, g ≤ 2 ∧ (gc s gen).1 = collectGen s g ∧ (3 ≤ gen → g = 2) ∧ (gen = 2 → g = 2) := by
  unfold gc
  split
  · rename_i hneg
    unfold collectAuto
    split
    · exact ⟨2, by omega, rfl, by omega, by omega⟩
    · split
      · exact ⟨1, by omega, rfl, by omega, by omega⟩
      · exact ⟨0, by omega, rfl, by omega, by omega⟩
  · rename_i hnn
    by_cases h3 : gen ≥ 3
    · exact ⟨2, by omega, by simp [h3], fun _ => rfl, fun _ => rfl⟩
    · refine ⟨gen.toNat, by omega, by simp [h3], by omega, ?_⟩
      intro e; subst e; rfl

theorem inv_gc (s : St) (gen : Int) (h : Inv s) : Inv (gc s gen).1 := by
  obtain ⟨g, hg, he, _⟩ := gc_eq s gen
  rw [he]; exact (inv_collectGen s g hg h).1

theorem inv_alloc (s : St) (h : Inv s) : Inv (alloc s).1 := by
  unfold alloc
  simp only
  split
  · exact inv_push _ (inv_collectAuto s h)
  · exact inv_push _ h

theorem inv_setThreshold (s : St) (g t : Int) (h : Inv s) : Inv (setThreshold s g t).1 := by
  have key : (setThreshold s g t).1.heap = s.heap ∧ (setThreshold s g t).1.roots = s.roots ∧
      (setThreshold s g t).1.fault = s.fault ∧ (setThreshold s g t).1.legacy = s.legacy := by
    unfold setThreshold
    simp only
    split <;> split <;> simp
  obtain ⟨k1, k2, k3, k4⟩ := key
  exact ⟨CInv.congr k1 k2 k3 h.c, by rw [k1]; exact h.gc, by rw [k4]; exact h.legacy⟩

theorem inv_step (s : St) (op : Op) (h : Inv s) : Inv (step s op) := by
  cases op with
  | alloc => exact inv_alloc s h
  | link p c =>
    show Inv ((link s p c).getD s)
    cases hs : link s p c with
    | none => exact h
    | some s' => exact inv_link s p c s' h hs
  | unlink p c =>
    show Inv ((unlink s p c).getD s)
    cases hs : unlink s p c with
    | none => exact h
    | some s' => exact inv_unlink s p c s' h hs
  | relink p c d =>
    show Inv ((relink s p c d).getD s)
    cases hs : relink s p c d with
    | none => exact h
    | some s' => exact inv_relink s p c d s' h hs
  | clear p =>
    show Inv ((clear s p).getD s)
    cases hs : clear s p with
    | none => exact h
    | some s' => exact inv_clear s p s' h hs
  | addRoot o =>
    show Inv ((addRoot s o).getD s)
    cases hs : addRoot s o with
    | none => exact h
    | some s' => exact inv_addRoot s o s' h hs
  | take p c =>
    show Inv ((take s p c).getD s)
    cases hs : take s p c with
    | none => exact h
    | some s' =>
      unfold take at hs
      split at hs
      · split at hs
        · exact inv_addRoot s c s' h hs
        · cases hs
      · cases hs
  | dropRoot o =>
    show Inv ((dropRoot s o).getD s)
    cases hs : dropRoot s o with
    | none => exact h
    | some s' => exact inv_dropRoot s o s' h hs
  | gc g => exact inv_gc s g h
  | setThr g t => exact inv_setThreshold s g t h

theorem inv_foldl (ops : List Op) (s : St) (h : Inv s) : Inv (ops.foldl step s) := by
  induction ops generalizing s with
  | nil => exact h
  | cons op rest ih => exact ih _ (inv_step s op h)

theorem inv_run (ops : List Op) : Inv (run ops) := inv_foldl ops {} inv_init

/-! ### reachability -/

/-- `o` can be reached from an external holder through container elements -/
inductive Reach (s : St) : Id → Prop where
  | root {r : Id} : r ∈ s.roots → Reach s r
  | step {p c : Id} {ob : Obj} : Reach s p → s.heap.get p = some ob → c ∈ ob.children → Reach s c

theorem reach_live {s : St} (h : Inv s) {o : Id} (hr : Reach s o) : (s.heap.get o).isSome := by
  induction hr with
  | root hm => obtain ⟨ob, hob, _⟩ := h.c.rootsLive _ hm; simp [hob]
  | step _ hp hc _ => exact h.c.closed _ _ hp _ hc

/-- an operation that keeps the holders, keeps the elements of the containers it does not free, and ends
in a state satisfying the invariant, frees nothing reachable, and what was reachable stays reachable -/
theorem reach_survives {s s' : St} (hinv' : Inv s') (hroots : s'.roots = s.roots)
    (hframe : ∀ i o', s'.heap.get i = some o' → ∃ o, s.heap.get i = some o ∧ o'.children = o.children)
    {p : Id} (hr : Reach s p) : (s'.heap.get p).isSome ∧ Reach s' p := by
  induction hr with
  | @root r hm =>
    have hm' : r ∈ s'.roots := by rw [hroots]; exact hm
    obtain ⟨ob, hob, _⟩ := hinv'.c.rootsLive _ hm'
    exact ⟨by simp [hob], Reach.root hm'⟩
  | @step q c ob _ hq hc ih =>
    obtain ⟨hl, hr'⟩ := ih
    obtain ⟨oq', hoq'⟩ := Option.isSome_iff_exists.mp hl
    obtain ⟨o, ho, hch⟩ := hframe _ oq' hoq'
    rw [hq] at ho; cases ho
    have hc' : c ∈ oq'.children := by rw [hch]; exact hc
    exact ⟨hinv'.c.closed _ oq' hoq' _ hc', Reach.step hr' hoq' hc'⟩

theorem no_reach_of_no_roots {s : St} (h : s.roots = []) {o : Id} (hr : Reach s o) : False := by
  induction hr with
  | root hm => rw [h] at hm; cases hm
  | step _ _ _ ih => exact ih

/-! ### a full collection leaves nothing unreachable -/

theorem inDegFrom_all (h : Heap) (p : Obj → Bool) (x : Id) (hall : ∀ i o, h.get i = some o → p o = true) :
    inDegFrom h p x = inDeg h x := by
  unfold inDegFrom inDeg
  congr 1
  apply List.map_congr_left
  intro oo hoo
  cases oo with
  | none => rfl
  | some o =>
    obtain ⟨i, hi⟩ := Heap.mem_get hoo
    simp [cnt, hall i o hi]

theorem exists_of_mem_edgesWhere {h : Heap} {p : Obj → Bool} {x : Id} (hx : x ∈ h.edgesWhere p) :
    ∃ i o, h.get i = some o ∧ p o = true ∧ x ∈ o.children := by
  unfold Heap.edgesWhere at hx
  obtain ⟨oo, hoo, hm⟩ := List.mem_flatMap.mp hx
  cases oo with
  | none => simp at hm
  | some o =>
    by_cases hp : p o
    · obtain ⟨i, hi⟩ := Heap.mem_get hoo
      exact ⟨i, o, hi, hp, by simpa [hp] using hm⟩
    · simp [hp] at hm

theorem full_moved_reach (s : St) (hinv : Inv s) :
    ∀ q oq, (heap4 s 2).get q = some oq → oq.gen = TMP → Reach s q := by
  obtain ⟨h3len, h3none, h3some⟩ := heap3_spec s 2 hinv
  have hgen2 : ∀ i o, s.heap.get i = some o → o.gen ≤ 2 := by
    intro i o hi
    rcases hinv.gc i o hi with ⟨_, _, h2⟩ | ⟨_, h0⟩ <;> omega
  -- with everything in the list, the residual count is the number of holders
  have hres : ∀ i o, s.heap.get i = some o → resid s 2 i o = (s.roots.count i : Nat) := by
    intro i o hi
    unfold resid
    have hall : ∀ j oj, (heap2 s 2).get j = some oj → (fun o : Obj => o.gen == 2) oj = true := by
      intro j oj hj
      cases hj0 : s.heap.get j with
      | none => rw [heap2_get_none s 2 j hj0] at hj; cases hj
      | some o0 =>
        obtain ⟨o2, ho2, _, _, hcase⟩ := heap2_get s 2 j o0 hj0
        rw [hj] at ho2; cases ho2
        rcases hcase with ⟨_, hg, _⟩ | ⟨hlt, _, _⟩
        · simp [hg]
        · have := hgen2 j o0 hj0; omega
    rw [inDegFrom_all _ _ _ hall, heap2_inDeg]
    have := hinv.c.ledger i o hi (hinv.unmarked hi)
    simp only [List.count_nil, Nat.add_zero] at this
    omega
  have h4a : ∀ i o4, (moveRoots (heap3 s 2) 2).get i = some o4 →
      ∃ o, s.heap.get i = some o ∧ o4.children = o.children ∧ (o4.gen = TMP → i ∈ s.roots) := by
    intro i o4 hi4
    rw [moveRoots_get] at hi4
    cases hi : s.heap.get i with
    | none => rw [h3none i hi] at hi4; cases hi4
    | some o =>
      obtain ⟨o3, ho3, _, hch, hcase⟩ := h3some i o hi
      rw [ho3] at hi4
      simp only [Option.map_some, Option.some.injEq] at hi4
      refine ⟨o, rfl, ?_⟩
      have hle := hgen2 i o hi
      rcases hcase with ⟨_, hgen, hr, _⟩ | ⟨hlt, _, _⟩
      · by_cases hz : o3.gcRefs = 0
        · have : ¬ (o3.gen = 2 ∧ o3.gcRefs ≠ 0) := fun h => h.2 hz
          rw [if_neg this] at hi4; subst hi4
          exact ⟨hch, fun ht => by rw [hgen] at ht; unfold TMP at ht; omega⟩
        · have : o3.gen = 2 ∧ o3.gcRefs ≠ 0 := ⟨hgen, hz⟩
          rw [if_pos this] at hi4; subst hi4
          refine ⟨hch, fun _ => ?_⟩
          rw [hr, hres i o hi] at hz
          apply List.count_pos_iff.mp
          omega
      · omega
  unfold heap4 moveReachables
  apply moveLoop_prov (Reach s)
  · intro c hc
    obtain ⟨q, oq, hq, hp, hm⟩ := exists_of_mem_edgesWhere hc
    obtain ⟨o, ho, hch, hroot⟩ := h4a q oq hq
    have : oq.gen = TMP := by simpa using hp
    exact Reach.step (Reach.root (hroot this)) ho (hch ▸ hm)
  · intro q oq hq hgen
    obtain ⟨o, ho, hch, hroot⟩ := h4a q oq hq
    exact Reach.root (hroot hgen)
  · intro q oq hq hR c hc
    obtain ⟨o, ho, hch, _⟩ := h4a q oq hq
    exact Reach.step hR ho (hch ▸ hc)

theorem full_collect_reach (s : St) (hinv : Inv s) :
    ∀ i o', (collectGen s 2).heap.get i = some o' → Reach (collectGen s 2) i := by
  intro i o' hi
  obtain ⟨hinv', hroots, hframe, hsurv⟩ := inv_collectGen s 2 (by omega) hinv
  obtain ⟨o4, ho4, hne⟩ := hsurv i o' hi
  have hm := moved_of_inv s 2 (by omega) hinv
  have hrs : Reach s i := by
    cases hi0 : s.heap.get i with
    | none => rw [hm.getNone i hi0] at ho4; cases ho4
    | some o =>
      obtain ⟨o4', ho4', _, _, hcase⟩ := hm.getSome i o hi0
      rw [ho4] at ho4'; cases ho4'
      rcases hcase with ⟨hgen, _⟩ | ⟨hgen, _, _⟩ | ⟨_, hlt, _⟩
      · exact absurd hgen hne
      · exact full_moved_reach s hinv i o4 ho4 hgen
      · rcases hinv.gc i o hi0 with ⟨_, _, h2⟩ | ⟨_, h0⟩ <;> omega
  exact (reach_survives hinv' hroots hframe hrs).2

/-! ### teardown -/

theorem dropRoot_roots (s : St) (o : Id) (s' : St) (hs : dropRoot s o = some s') : s'.roots = s.roots.erase o := by
  unfold dropRoot at hs
  split at hs
  · simp only [Option.some.injEq] at hs
    subst hs
    unfold refdown
    split
    · rfl
    · split
      · rfl
      · split
        · rw [cascade_roots]
        · rfl
  · cases hs

theorem dropAll_spec (l : List Id) (s : St) (h : Inv s) (hl : s.roots = l) :
    Inv (l.foldl (fun s r => (dropRoot s r).getD s) s) ∧ (l.foldl (fun s r => (dropRoot s r).getD s) s).roots = [] := by
  induction l generalizing s with
  | nil => exact ⟨h, hl⟩
  | cons r t ih =>
    simp only [List.foldl_cons]
    have hmem : r ∈ s.roots := by rw [hl]; simp
    cases hd : dropRoot s r with
    | none => unfold dropRoot at hd; simp [hmem] at hd
    | some s1 =>
      simp only [Option.getD_some]
      apply ih s1 (inv_dropRoot s r s1 h hd)
      rw [dropRoot_roots s r s1 hd, hl]
      simp

end Hawk.Gc

namespace Hawk.Gc

/-! ### unfolding equations without dependent matches (used to evaluate concrete histories by `simp`) -/

theorem cascade_cons (s : St) (c : Id) (rest : List Id) :
    cascade s (c :: rest) = match s.heap.get c with
      | none => { s with fault := true }
      | some oc =>
        if oc.gcRefs = GCH_UNREACHABLE then cascade s rest
        else if oc.refs = 0 then { s with fault := true }
        else if oc.refs = 1 then cascade { s with heap := s.heap.set c none } (oc.children ++ rest)
        else cascade { s with heap := s.heap.set c (some { oc with refs := oc.refs - 1 }) } rest := by
  cases h : s.heap.get c with
  | none => simp [cascade_cons_none _ _ _ h]
  | some oc => simp [cascade_cons_some _ _ _ _ h]

theorem moveLoop_nil (h : Heap) : moveLoop h [] = h := by rw [moveLoop]

theorem moveLoop_cons (h : Heap) (c : Id) (rest : List Id) :
    moveLoop h (c :: rest) = match h.get c with
      | none => moveLoop h rest
      | some oc =>
        if oc.gcRefs ≠ GCH_MOVED then moveLoop (h.set c (some { oc with gen := TMP, gcRefs := GCH_MOVED })) (rest ++ oc.children)
        else moveLoop h rest := by
  rw [moveLoop]
  split
  · rename_i hn; simp [hn]
  · rename_i oc hoc; simp [hoc]

end Hawk.Gc
