import HawkModel.Xma
import HawkModel.Drv.Util
/-! driver for the xma area: same line protocol and same canonical text as harness/xma_h.c -/
namespace Hawk.Drv.Xma
open Hawk.Xma

structure St where
  x : Option Xma := none
  /-- handle table: header offset and requested length -/
  h : Array (Option (Nat × Nat)) := #[]
  limit : Nat := 0

def pat (h : Nat) : Nat := (h * 37 + 11) % 256
def keepMax : Nat := 32

def dumpBlks (l : List Blk) : String :=
  let rec go (l : List Blk) (off : Nat) (acc : String) : String :=
    match l with
    | [] => acc
    | b :: r => go r (off + HDR + b.size) (acc ++ s!"({off},{b.size},{if b.free then 1 else 0},{b.prev})")
  go l 0 ""

def dumpFl (xf : List (List Nat)) : String :=
  let rec go (xf : List (List Nat)) (i : Nat) (acc : List String) : List String :=
    match xf with
    | [] => acc.reverse
    | l :: r => go r (i + 1) (if l.isEmpty then acc else s!"{i}:[{joinWith "," (l.map toString)}]" :: acc)
  joinWith ";" (go xf 0 [])

def stats (l : List Blk) : String :=
  let a := l.foldl (fun (a : Nat × Nat × Nat × Nat) b =>
    if b.free then (a.1, a.2.1 + b.size, a.2.2.1, a.2.2.2 + 1) else (a.1 + b.size, a.2.1, a.2.2.1 + 1, a.2.2.2)) (0, 0, 0, 0)
  s!"{a.1},{a.2.1},{a.2.2.1},{a.2.2.2}"

def fnv (s : String) : UInt64 :=
  s.toUTF8.foldl (fun (h : UInt64) (c : UInt8) => (h ^^^ c.toUInt64) * 1099511628211) 14695981039346656037

def dump (limit : Nat) (x : Option Xma) : String :=
  match x with
  | none => " B= F= S=0,0,0,0"
  | some s =>
    let full := s!" B={dumpBlks s.blks} F={dumpFl s.xfree} S={stats s.blks}"
    if limit > 0 ∧ s.blks.length > limit then s!" n={s.blks.length} H={fnv full}" else full

def dataOk (s : Xma) (o : Nat) (hnd keep : Nat) : Bool :=
  match blkAt s o with
  | some b => let k := min keep keepMax; b.data.take k == List.replicate k (pat hnd)
  | none => false

def fillH (s : Xma) (o hnd n : Nat) : Xma := step s (.write o (List.replicate (min n keepMax) (pat hnd)))

def doInit (st : St) (r : Option Xma) : St × String :=
  match r with
  | some s => ({ st with x := some s, h := #[] }, s!"r=0 z={s.zone}" ++ dump st.limit (some s))
  | none => ({ st with x := none, h := #[] }, "r=-1" ++ dump st.limit none)

def dataZero (s : Xma) (o n : Nat) : Bool :=
  match blkAt s o with
  | some b => b.data.length == n && b.data.take keepMax == List.replicate (min n keepMax) 0
  | none => false

/-- what hawk_xma_dump reports: number of block lines, allocated and available bytes -/
def dumpSummary (l : List Blk) : String :=
  let a := l.foldl (fun (a : Nat × Nat) b => if b.free then (a.1, a.2 + b.size) else (a.1 + b.size, a.2)) (0, 0)
  s!"r=dump blocks={l.length} alloc={a.1} avail={a.2}"

def doAlloc (st : St) (s : Xma) (slot : Option Nat) (n : Nat) (zero : Bool := false) : St × String :=
  match (if zero then calloc s n else alloc s n) with
  | .error _ => (st, "model-error")
  | .ok (none, s') =>
    let h := match slot with | none => st.h.push none | some _ => st.h
    ({ st with x := some s', h := h }, "r=NULL" ++ dump st.limit (some s'))
  | .ok (some o, s') =>
    let hnd := match slot with | none => st.h.size | some i => i
    let over := n > s'.zone
    let zok := !zero || over || dataZero s' o n
    let s' := fillH s' o hnd (if over then 0 else n)
    let ent := some (o, if over then 0 else n)
    let h := match slot with | none => st.h.push ent | some i => st.h.setIfInBounds i ent
    ({ st with x := some s', h := h }, (if over then "!OVERSIZE" else "") ++ s!"r={o + HDR}" ++ dump st.limit (some s') ++
      (if zok then "" else " !NONZERO"))

def step (st : St) (line : String) : St × String :=
  match words line, st.x with
  | ["limit", n], _ => ({ st with limit := n.toNat?.getD 0 }, "ok")
  | ["init", z], _ => match z.toNat? with
    | some z => doInit st (init z)
    | none => (st, "bad-op")
  | ["initx", z], _ => match z.toNat? with
    | some z => doInit st (initx z)
    | none => (st, "bad-op")
  | ["alloc", n], some s => match n.toNat? with
    | some n => doAlloc st s none n
    | none => (st, "bad-op")
  | ["calloc", n], some s => match n.toNat? with
    | some n => doAlloc st s none n true
    | none => (st, "bad-op")
  | ["dump"], some s => (st, dumpSummary s.blks ++ dump st.limit (some s))
  | ["realloc", i, n], some s => match i.toNat?, n.toNat? with
    | some i, some n =>
      if i ≥ st.h.size then (st, "bad-op") else
      match st.h[i]! with
      | none => doAlloc st s (some i) n
      | some (o, oldn) =>
        let pre := dataOk s o i oldn
        match realloc s o n with
        | .error _ => (st, "model-error")
        | .ok (none, s') =>
          let ok := pre && dataOk s' o i oldn
          ({ st with x := some s' }, "r=NULL" ++ dump st.limit (some s') ++ (if ok then "" else s!" CORRUPT h={i}"))
        | .ok (some o', s') =>
          let keep := if min oldn n > s'.zone then 0 else min oldn n
          let ok := pre && dataOk s' o' i keep
          let over := n > s'.zone
          let s' := fillH s' o' i (if over then 0 else n)
          ({ st with x := some s', h := st.h.setIfInBounds i (some (o', if over then 0 else n)) },
           (if over then "!OVERSIZE" else "") ++ s!"r={o' + HDR}" ++ dump st.limit (some s') ++ (if ok then "" else s!" CORRUPT h={i}"))
    | _, _ => (st, "bad-op")
  | ["free", i], some s => match i.toNat? with
    | some i =>
      if i ≥ st.h.size then (st, "bad-op") else
      match st.h[i]! with
      | none => (st, "r=skip" ++ dump st.limit (some s))
      | some (o, oldn) =>
        let pre := dataOk s o i oldn
        match free s o with
        | .error _ => (st, "model-error")
        | .ok s' => ({ st with x := some s', h := st.h.setIfInBounds i none },
                     "r=ok" ++ dump st.limit (some s') ++ (if pre then "" else s!" CORRUPT h={i}"))
    | none => (st, "bad-op")
  | _, _ => (st, "bad-op")

def main : IO Unit := do
  forLines (← IO.getStdin) St {} step

end Hawk.Drv.Xma
