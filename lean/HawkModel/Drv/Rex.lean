import HawkModel.Rex
import HawkModel.RexParse
import HawkModel.Drv.Util
/-! driver for the rex area (C06): ERE text -> `Re` (unverified parser for the generated subset), then the
verified specification matcher `matchLL`.  Same line protocol as `harness/rex_h.c`:

    M <flags> <eflags> <pattern>\t<subject>     ->  "st,len" | "-"        (flags: bit 0 = IGNORECASE, bit 2 = A mode
                                                     answers for eflags 0..3; other bits are for the C harness;
                                                     eflags: bit 0 = NOTBOL, bit 1 = NOTEOL)
    A <flags> <maxlen> <alphabet> <pattern>      ->  results for every subject over the alphabet of length
                                                     0..maxlen (length ascending, lexicographic) x notbol 0,1
                                                     joined by ';'
    a pattern outside the parsed subset          ->  "PERR <reason>"
    P <flags> <pattern>                          ->  the tre_ast_node_t tree `Hawk.Rex.Tre.parse` builds, in the text form
                                                     of `Ast.dump`, or "ERR <reg_errcode>"
-/
namespace Hawk.Drv.Rex
open Hawk.Rex

abbrev P := Except String

def isDigit (c : Char) : Bool := '0' ≤ c && c ≤ '9'

def takeNum : List Char → Nat → Bool → (Option Nat × List Char)
  | c :: r, acc, seen => if isDigit c then takeNum r (acc * 10 + (c.toNat - '0'.toNat)) true else (if seen then some acc else none, c :: r)
  | [], acc, seen => (if seen then some acc else none, [])

def cclassOf (name : String) : Option CClass := match name with
  | "alpha" => some .alpha | "digit" => some .digit | "upper" => some .upper
  | "lower" => some .lower | "alnum" => some .alnum | "space" => some .space
  | "blank" => some .blank | "punct" => some .punct | "xdigit" => some .xdigit
  | "cntrl" => some .cntrl | "print" => some .print | "graph" => some .graph
  | _ => none

def hexVal (c : Char) : Option Nat :=
  if '0' ≤ c && c ≤ '9' then some (c.toNat - 48)
  else if 'a' ≤ c && c ≤ 'f' then some (c.toNat - 87)
  else if 'A' ≤ c && c ≤ 'F' then some (c.toNat - 55)
  else none

/-- `\x` escape (TRE extension): `\xH`, `\xHH` or `\x{H…}` -/
def parseHex (r : List Char) : P (Re × List Char) :=
  match r with
  | '{' :: r' =>
    let ds := r'.takeWhile (· ≠ '}')
    match r'.dropWhile (· ≠ '}') with
    | '}' :: r'' =>
      if ds.all (fun c => (hexVal c).isSome) then
        .ok (Re.chr (Char.ofNat (ds.foldl (fun a c => a * 16 + (hexVal c).getD 0) 0)), r'')
      else .error "EBRACE"
    | _ => .error "EBRACE"
  | a :: r' => match hexVal a with
    | none => .error "hex escape without digits unsupported"
    | some x => match r' with
      | b :: r'' => match hexVal b with
        | some y => .ok (Re.chr (Char.ofNat (x * 16 + y)), r'')
        | none => .ok (Re.chr (Char.ofNat x), r')
      | [] => .ok (Re.chr (Char.ofNat x), r')
  | [] => .error "hex escape without digits unsupported"

/-- backslash escapes TRE knows beyond POSIX (tre-parse.c `tre_macros`, assertions) -/
def parseEscape (c : Char) (r : List Char) : P (Re × List Char) :=
  let named (neg : Bool) (items : List ClsItem) : P (Re × List Char) := .ok (Re.cls neg items, r)
  match c with
  | 't' => .ok (Re.chr '\t', r) | 'n' => .ok (Re.chr '\n', r) | 'r' => .ok (Re.chr '\r', r)
  | 'f' => .ok (Re.chr (Char.ofNat 12), r) | 'a' => .ok (Re.chr (Char.ofNat 7), r) | 'e' => .ok (Re.chr (Char.ofNat 27), r)
  | 'w' => named false [.named .alnum, .chr '_'] | 'W' => named true [.named .alnum, .chr '_']
  | 's' => named false [.named .space] | 'S' => named true [.named .space]
  | 'd' => named false [.named .digit] | 'D' => named true [.named .digit]
  | 'b' => .ok (Re.wordb .wb, r) | 'B' => .ok (Re.wordb .nwb, r)
  | '<' => .ok (Re.wordb .bow, r) | '>' => .ok (Re.wordb .eow, r)
  | 'x' => parseHex r
  | 'Q' => .error "literal mode (\\Q) is outside the specification"
  | _ => if isDigit c then .error "back-references are outside POSIX ERE (not regular): excluded"
         else .ok (Re.chr c, r)

/-- bracket expression body after `[` and the optional `^`; `first` = a `]` here is a literal -/
partial def parseBracket (inp : List Char) (first : Bool) (acc : List ClsItem) : P (List ClsItem × List Char) :=
  match inp with
  | [] => .error "EBRACK"
  | ']' :: r => if first then parseBracket' ']' r acc else .ok (acc.reverse, r)
  -- hawk (tre-parse.c "HAWK: handle \ as an escaper"), like gawk: a backslash quotes the next character inside [ ]
  | '\\' :: c :: r => parseBracket r false (ClsItem.chr c :: acc)
  | '[' :: ':' :: r =>
    let name := String.ofList (r.takeWhile (· ≠ ':'))
    match r.dropWhile (· ≠ ':') with
    | ':' :: ']' :: r' =>
      match cclassOf name with
      | some k => match r' with
        | '-' :: c :: _ => if c == ']' then parseBracket r' false (ClsItem.named k :: acc) else .error "ERANGE"
        | _ => parseBracket r' false (ClsItem.named k :: acc)
      | none => .error "ECTYPE"
    | _ => .error "ECTYPE"
  -- POSIX collating symbol / equivalence class of a single character (C locale): the character itself
  | '[' :: '.' :: c :: '.' :: ']' :: r' => parseBracket' c r' acc
  | '[' :: '=' :: c :: '=' :: ']' :: r' => parseBracket r' false (ClsItem.chr c :: acc)
  | '[' :: '.' :: _ => .error "ECOLLATE"
  | '[' :: '=' :: _ => .error "ECOLLATE"
  | c :: r => parseBracket' c r acc
where
  parseBracket' (c : Char) (r : List Char) (acc : List ClsItem) : P (List ClsItem × List Char) :=
    match r with
    | '-' :: ']' :: r' => .ok ((ClsItem.chr '-' :: ClsItem.chr c :: acc).reverse, r')
    | '-' :: hi :: r' => if hi.val < c.val then .error "ERANGE" else parseBracket r' false (ClsItem.range c hi :: acc)
    | _ => parseBracket r false (ClsItem.chr c :: acc)

mutual
  /-- alternation: cat ('|' cat)* ; stops before `)` or at the end -/
  partial def parseAlt (inp : List Char) (depth : Nat) : P (Re × List Char) := do
    let (a, r) ← parseCat inp depth []
    match r with
    | '|' :: r' =>
      let (b, r'') ← parseAlt r' depth
      return (Re.alt a b, r'')
    | _ => return (a, r)

  partial def parseCat (inp : List Char) (depth : Nat) (acc : List Re) : P (Re × List Char) :=
    let fin (acc : List Re) : Re := match acc with
      | [] => Re.emp
      | x :: rest => rest.foldl (fun r p => Re.cat p r) x   -- acc is reversed: builds p1 · (p2 · (… pn))
    match inp with
    | [] => .ok (fin acc, [])
    | '|' :: _ => .ok (fin acc, inp)
    | ')' :: _ => if depth > 0 then .ok (fin acc, inp) else .error "EPAREN"
    | _ => do
      let (a, r) ← parseAtom inp depth
      let (p, r') ← parsePost a r
      parseCat r' depth (p :: acc)

  partial def parseAtom (inp : List Char) (depth : Nat) : P (Re × List Char) :=
    match inp with
    | [] => .error "EEMPTY"
    | '(' :: r => do
      let (a, r') ← parseAlt r (depth + 1)
      match r' with
      | ')' :: r'' => return (Re.grp a, r'')
      | _ => .error "EPAREN"
    | '[' :: '^' :: r => do
      let (items, r') ← parseBracket r true []
      return (Re.cls true items, r')
    | '[' :: r => do
      let (items, r') ← parseBracket r true []
      return (Re.cls false items, r')
    | '.' :: r => .ok (Re.any, r)
    | '^' :: r => .ok (Re.bol, r)
    | '$' :: r => .ok (Re.eol, r)
    | '\\' :: c :: r => parseEscape c r
    | '\\' :: [] => .error "EESCAPE"
    | '*' :: _ => .error "BADRPT"
    | '+' :: _ => .error "BADRPT"
    | '?' :: _ => .error "BADRPT"
    | '{' :: _ => .error "BADRPT"
    | c :: r => .ok (Re.chr c, r)

  partial def parsePost (a : Re) (inp : List Char) : P (Re × List Char) :=
    match inp with
    | '*' :: '?' :: _ => .error "minimal (non-greedy) repetition is a TRE extension: excluded"
    | '+' :: '?' :: _ => .error "minimal (non-greedy) repetition is a TRE extension: excluded"
    | '?' :: '?' :: _ => .error "minimal (non-greedy) repetition is a TRE extension: excluded"
    | '*' :: r => parsePost (Re.star a) r
    | '+' :: r => parsePost (Re.plus a) r
    | '?' :: r => parsePost (Re.opt a) r
    | '{' :: r =>
      match takeNum r 0 false with
      | (some m, '}' :: r') => parsePost (Re.rep a m (some m)) r'
      | (some m, ',' :: r') =>
        match takeNum r' 0 false with
        | (some n, '}' :: r'') => if n < m then .error "BADBR" else parsePost (Re.rep a m (some n)) r''
        | (none, '}' :: r'') => parsePost (Re.rep a m none) r''
        | _ => .error "BADBR"
      | _ => .error "BADBR"
    | _ => .ok (a, inp)
end

def parseRe (s : List Char) : P Re := do
  let (r, rest) ← parseAlt s 0
  if rest.isEmpty then return r else .error "trailing input"

def hasMinimal : Hawk.Rex.Tre.Ast → Bool
  | .leaf _ _ _ => false
  | .cat a b _ _ => hasMinimal a || hasMinimal b
  | .union a b _ _ => hasMinimal a || hasMinimal b
  | .iter a _ _ mi _ _ => mi || hasMinimal a

/-- which tree the M/A requests match with: the tree `Hawk.Rex.Tre.parse` (the transcription of `tre_parse`, tied to the
real one by the P requests) builds, turned into an `Re` by `Tre.toRe` and matched case-sensitively (REG_ICASE is
compiled into the tree) — whenever the old parser `parseRe` accepts the text too (it defines which constructs the
specification covers: no back references, no minimal repetition, POSIX collating symbols) and the new path applies;
otherwise the tree of `parseRe`.  -> (tree, icase flag to match with, "tre" (and inside `Ast.plain`, the scope of
`ast_denotation_partial`) | "tre:outside-Ast.plain" | "old:<why>") -/
def reOf (ic : Bool) (pat : List Char) (force : Bool := false) : P (Re × Bool × String) := do
  if force then
    -- flags bit 4: only the transcription of tre_parse (used to turn a parse-level difference into a failing subject)
    match Hawk.Rex.Tre.parse ⟨ic, false, false⟩ pat with
    | .ok p => match Hawk.Rex.Tre.toRe ic p.ast with
      | some r => return (r, false, "tre")
      | none => throw "back reference"
    | .error e => throw e.name
  let old ← parseRe pat
  match Hawk.Rex.Tre.parse ⟨ic, false, false⟩ pat with
  | .ok p =>
    if hasMinimal p.ast then pure (old, ic, "old:minimal")
    else match Hawk.Rex.Tre.toRe ic p.ast with
      | some r => pure (r, false, if p.ast.plain ic then "tre" else "tre:outside-Ast.plain")
      | none => pure (old, ic, "old:backref")
  | .error e => pure (old, ic, "old:" ++ e.name)

def showRes : Option (Nat × Nat) → String
  | some (a, b) => s!"{a},{b}"
  | none => "-"

/-- all strings over `alpha` of length exactly `n`, lexicographic in alphabet order -/
def strs (alpha : List Char) : Nat → List (List Char)
  | 0 => [[]]
  | n + 1 => alpha.flatMap fun c => (strs alpha n).map (c :: ·)

def splitAt (c : Char) (l : List Char) : List Char × List Char :=
  (l.takeWhile (· ≠ c), (l.dropWhile (· ≠ c)).drop 1)

def icaseOf (w : List Char) : Bool := match (String.ofList w).toNat? with
  | some n => n % 2 == 1
  | none => false

def step (_ : Unit) (line : String) : Unit × String :=
  let l := line.toList.filter fun c => c ≠ '\n' && c ≠ '\r'
  let out : String :=
    match l with
    | 'M' :: ' ' :: rest =>
      let (ic, r1) := splitAt ' ' rest
      let (nb, r2) := splitAt ' ' r1
      let (pat, subj) := splitAt '\t' r2
      match reOf (icaseOf ic) pat with
      | .error e => "PERR " ++ e
      | .ok (re, icf, _) =>
        let ef := ((String.ofList nb).toNat?).getD 0
        showRes (matchLL ⟨icf, ef % 2 == 1, ef / 2 % 2 == 1⟩ re subj)
    | 'A' :: ' ' :: rest =>
      let (ic, r1) := splitAt ' ' rest
      let (ml, r2) := splitAt ' ' r1
      let (alpha, pat) := splitAt ' ' r2
      match reOf (icaseOf ic) pat ((((String.ofList ic).toNat?).getD 0) / 16 % 2 == 1), (String.ofList ml).toNat? with
      | .error e, _ => "PERR " ++ e
      | _, none => "bad-op"
      | .ok (re, icase, _), some maxlen =>
        let nobol := noBol re
        let subs := (List.range (maxlen + 1)).flatMap fun n => if n > 0 && alpha.isEmpty then [] else strs alpha n
        let alleflags := (((String.ofList ic).toNat?).getD 0) / 4 % 2 == 1
        let res := subs.flatMap fun s =>
          let r0 := showRes (matchLL ⟨icase, false, false⟩ re s)
          -- `notbol_irrelevant_without_bol`: skip the second evaluation when the pattern has no `^`
          let r1 := if nobol then r0 else showRes (matchLL ⟨icase, true, false⟩ re s)
          if alleflags then
            [r0, r1, showRes (matchLL ⟨icase, false, true⟩ re s), showRes (matchLL ⟨icase, true, true⟩ re s)]
          else [r0, r1]
        joinWith ";" res
    | 'T' :: ' ' :: rest =>
      -- T <flags> <pattern>: which parser the M/A requests use for this pattern
      let (fl, pat) := splitAt ' ' rest
      match reOf (icaseOf fl) pat with
      | .error e => "PERR " ++ e
      | .ok (_, _, how) => how
    | 'P' :: ' ' :: rest =>
      -- P <flags> <pattern>: the transcription of tre_parse (RexParse.lean); flags bit 0 = REG_ICASE, bit 3 = REG_NOBOUND, bit 5 = model of the tree after patches/tre-parse-overread.diff
      let (fl, pat) := splitAt ' ' rest
      let n := ((String.ofList fl).toNat?).getD 0
      match Hawk.Rex.Tre.parse ⟨n % 2 == 1, n / 8 % 2 == 1, n / 32 % 2 == 1⟩ pat with
      | .error e => "ERR " ++ e.name
      | .ok p => p.dump
    | _ => "bad-op"
  ((), out)

def main : IO Unit := do
  let h ← IO.getStdin
  forLines h Unit () step

end Hawk.Drv.Rex
