import HawkModel.Depth
import HawkModel.Drv.Util
/-! driver for the depth area (C14).
    in : `<family> <n> <incl> <block_parse> <block_run> <expr_parse> <expr_run> <stack_opt> <pragma,pragma,..|->`
    out: `printed <text|?>` or `stopped <kind>`, then the closed-form peaks and the effective stack limit -/
namespace Hawk.Drv.Depth
open Hawk.Depth

def famOf : String → Option Family
  | "paren" => some .paren | "unary" => some .unary | "not" => some .lnot | "left" => some .leftBin
  | "concat" => some .concat | "assign" => some .assign | "ternary" => some .ternary | "block" => some .block
  | "if" => some .ifChain | "elseif" => some .elseIf | "while" => some .whileChain | "index" => some .index
  | "call" => some .call | "recur" => some .recur | "map" => some .mapNest | "regex" => some .regex
  | "dollar" => some .dollar | "getline" => some .getline | "pipe" => some .pipe | "incl" => some .incl | "seq" => some .seq
  | "chainfree" => some .chainFree
  | s =>
    -- recurpad:A,P,K
    match s.splitOn ":" with
    | ["recurpad", r] => match (r.splitOn ",").map (·.toNat?) with
      | [some a, some p, some k] => some (.recurPad a p k)
      | _ => none
    | ["exitrec", r] => r.toNat?.map Family.exitRec
    | ["exitblk", r] => r.toNat?.map Family.exitBlk
    | _ => none

def kindName : Kind → String
  | .incl => "incl" | .blockParse => "block_parse" | .exprParse => "expr_parse"
  | .blockRun => "block_run" | .exprRun => "expr_run" | .stack => "stack"

def parsePragma (s : String) : List Nat :=
  if s == "-" then [] else (s.splitOn ",").filterMap (·.toNat?)

def step (_ : Unit) (line : String) : Unit × String :=
  match words line with
  | [f, n, a, b, c, d, e, st, pr] =>
    match famOf f, n.toNat?, a.toNat?, b.toNat?, c.toNat?, d.toNat?, e.toNat?, st.toNat? with
    | some f, some n, some a, some b, some c, some d, some e, some st =>
      let l : Limits := { incl := a, blockParse := b, blockRun := c, exprParse := d, exprRun := e, stackOpt := st, stackPragma := parsePragma pr }
      let v := match outcome l f n with
        | .printed (some s) => s!"printed {s}"
        | .printed none => "printed ?"
        | .stopped k => s!"stopped {kindName k}"
      let ks := [Kind.incl, .blockParse, .blockRun, .exprParse, .exprRun, .stack]
      let pk := joinWith "," (ks.map fun k => s!"{kindName k}={peakOf f k n}")
      ((), s!"{v} peaks {pk} eff_stack={effStack l}")
    | _, _, _, _, _, _, _, _ => ((), "bad-op")
  | _ => ((), "bad-op")

def main : IO Unit := do
  let h ← IO.getStdin
  Hawk.Drv.forLines h Unit () step

end Hawk.Drv.Depth
