import HawkModel.Cmp
import HawkModel.Drv.Util
/-! driver for the cmp area (C11).  Protocol (one line in, one line out):

    fold <u>:<l>,<u>:<l>,... <b>:<l>,...   case-folding tables of the implementation (units, bytes; only
                                           the entries that differ from the identity; `-` = empty)
    cmp <ic><nc><fm> <descA> <descB>        r=<rc>,<n> o=<lt le eq ne ge gt teq tne>|ERR
    asort <ic><nc><fm> <nil|lst> <desc>...  rv=<n> out=<positions of the input, in destination order>|ERR

  A descriptor is what harness/cmp_h.c prints for `desc`: kind, payload, v_nstr and the results of the
  number<->string conversions of the implementation; the model's conversion PARAMETERS are
  instantiated with exactly these results (looked up by payload). -/
namespace Hawk.Drv.Cmp
open Hawk.Cmp

structure St where
  ulower : Array Nat := #[]
  blower : Array Nat := #[]

structure Tables where
  ints : List (Int × Str × Str) := []
  flts : List (Dy × Str × Str) := []
  strs : List (Str × Num Dy × (Dy × Bool) × Int × Str) := []
  bcss : List (Str × Num Dy × (Dy × Bool)) := []

def hexDigit (c : Char) : Nat :=
  if '0' ≤ c ∧ c ≤ '9' then c.toNat - '0'.toNat
  else if 'a' ≤ c ∧ c ≤ 'f' then c.toNat - 'a'.toNat + 10
  else if 'A' ≤ c ∧ c ≤ 'F' then c.toNat - 'A'.toNat + 10 else 0

/-- groups of `k` hex digits -/
def parseHex (k : Nat) (s : String) : Str :=
  let rec go (cs : List Char) (cur cnt : Nat) (acc : List Nat) (fuel : Nat) : List Nat :=
    match fuel, cs with
    | 0, _ => acc.reverse
    | _, [] => acc.reverse
    | fuel + 1, c :: r =>
      let cur := cur * 16 + hexDigit c
      if cnt + 1 == k then go r 0 0 (cur :: acc) fuel else go r cur (cnt + 1) acc fuel
  go s.toList 0 0 [] (s.length + 1)

def parseInt (s : String) : Int := s.toInt?.getD 0

def parseDy (s : String) : Dy :=
  if s == "inf" then .pinf else if s == "-inf" then .ninf else if s == "nan" then .nan
  else match s.splitOn ":" with
    | [m, e] => .fin (parseInt m) (parseInt e)
    | _ => .nan

/-- value of field `key=` among `;`-separated fields -/
def field (fs : List String) (key : String) : String :=
  match fs.find? (fun f => f.startsWith (key ++ "=")) with
  | some f => (f.drop (key.length + 1)).toString
  | none => ""

def parseNum (s : String) : Num Dy :=
  match s.splitOn ":" with
  | k :: i :: rest =>
    if k == "0" then .int (parseInt i)
    else if k == "1" then .flt (parseDy (":".intercalate rest))
    else .notnum
  | _ => .notnum

def parseFF (s : String) : Dy × Bool :=
  match s.splitOn ":" with
  | b :: rest => (parseDy (":".intercalate rest), b == "1")
  | _ => (.nan, false)

/-- descriptor → value, extending the conversion tables -/
def parseDesc (d : String) (t : Tables) : Option (Val Dy × Tables) :=
  let fs := d.splitOn ";"
  match fs with
  | [] => none
  | hd :: rest =>
    let body := (hd.drop 1).toString
    match hd.toList.head? with
    | some 'N' => some (.nil, t)
    | some 'C' => some (.char body.toNat!, t)
    | some 'B' => some (.bchr body.toNat!, t)
    | some 'I' =>
      let i := parseInt body
      some (.int i, { t with ints := (i, parseHex 4 (field rest "os"), parseHex 2 (field rest "bs")) :: t.ints })
    | some 'F' =>
      let f := parseDy body
      some (.flt f, { t with flts := (f, parseHex 4 (field rest "os"), parseHex 2 (field rest "bs")) :: t.flts })
    | some 'S' =>
      match rest with
      | units :: rest' =>
        let s := parseHex 4 units
        some (.str s body.toNat!, { t with strs := (s, parseNum (field rest' "num"), parseFF (field rest' "ff"),
                                                     parseInt (field rest' "ti"), parseHex 2 (field rest' "enc")) :: t.strs })
      | [] => none
    | some 'M' =>
      match rest with
      | bytes :: rest' =>
        let s := parseHex 2 bytes
        some (.mbs s body.toNat!, { t with bcss := (s, parseNum (field rest' "num"), parseFF (field rest' "ff")) :: t.bcss })
      | [] => none
    | some 'U' => some (.fn body.toNat!, t)
    | some 'P' => some (.map body.toNat!, t)
    | some 'A' => some (.arr body.toNat!, t)
    | _ => none

def mkParams (st : St) (t : Tables) : Params Dy where
  lt := Dy.lt
  ofInt := Dy.ofInt
  lower := fun u => st.ulower.getD u u
  blower := fun b => st.blower.getD b b
  intToStr := fun i => match t.ints.find? (·.1 == i) with | some e => e.2.1 | none => []
  intToBcs := fun i => match t.ints.find? (·.1 == i) with | some e => e.2.2 | none => []
  fltToStr := fun f => match t.flts.find? (·.1 == f) with | some e => e.2.1 | none => []
  fltToBcs := fun f => match t.flts.find? (·.1 == f) with | some e => e.2.2 | none => []
  strToNum := fun s => match t.strs.find? (·.1 == s) with | some e => e.2.1 | none => .notnum
  strToFlt := fun s => match t.strs.find? (·.1 == s) with | some e => e.2.2.1 | none => (.nan, false)
  strToInt := fun s => match t.strs.find? (·.1 == s) with | some e => e.2.2.2.1 | none => 0
  encode := fun s => match t.strs.find? (·.1 == s) with | some e => e.2.2.2.2 | none => []
  bcsToNum := fun s => match t.bcss.find? (·.1 == s) with | some e => e.2.1 | none => .notnum
  bcsToFlt := fun s => match t.bcss.find? (·.1 == s) with | some e => e.2.2 | none => (.nan, false)

def parseCfg (s : String) : Option Cfg :=
  match s.toList with
  | [a, b, c] => some { ignorecase := a == '1', ncmponstr := b == '1', flexmap := c == '1' }
  | _ => none

def bit (b : Bool) : String := if b then "1" else "0"

def showCmp (P : Params Dy) (cfg : Cfg) (a b : Val Dy) : String :=
  let r := match rtxCmpVal P cfg a b with
    | .ok n => s!"r=0,{n}"
    | .error _ => "r=-1,x"
  let ops := [Op.lt, .le, .eq, .ne, .ge, .gt].map (fun op => evalOp P cfg op a b)
  let o := if ops.any (fun x => match x with | .error _ => true | .ok _ => false) then "ERR"
    else String.join (ops.map fun x => match x with | .ok v => bit v | .error _ => "?")
           ++ bit (teqVal P cfg a b) ++ bit (!teqVal P cfg a b)
  s!"{r} o={o} q={bit (teqVal P cfg a b)}{bit (!teqVal P cfg a b)}"

def parseFold (n : Nat) (s : String) : Array Nat := Id.run do
  let mut a := Array.range n
  if s != "-" then
    for p in s.splitOn "," do
      match p.splitOn ":" with
      | [u, l] =>
        let u := u.toNat!
        if u < n then a := a.set! u l.toNat!
      | _ => pure ()
  return a

def hex (k : Nat) (l : Str) : String :=
  String.join (l.map fun n =>
    let ds := (Nat.toDigits 16 n)
    String.mk (List.replicate (k - ds.length) '0' ++ ds))

def showDy : Dy → String
  | .fin m e => s!"{m}:{e}"
  | .pinf => "inf" | .ninf => "-inf" | .nan => "nan"

/-- the head of a value's descriptor: kind, payload, flag (what identifies a value in the check) -/
def showHead : Val Dy → String
  | .nil => "N"
  | .char c => s!"C{c}"
  | .bchr b => s!"B{b}"
  | .int i => s!"I{i}"
  | .flt f => s!"F{showDy f}"
  | .str s n => s!"S{n};{hex 4 s}"
  | .mbs s n => s!"M{n};{hex 2 s}"
  | .fn i => s!"U{i}"
  | .map n => s!"P{n}"
  | .arr n => s!"A{n}"

def parseAll (ds : List String) : Option (List (Val Dy) × Tables) :=
  let r : Option (List (Val Dy) × Tables) := ds.foldlM (fun (acc : List (Val Dy) × Tables) d =>
    match parseDesc d acc.2 with
    | some (v, t) => some (v :: acc.1, t)
    | none => none) (([] : List (Val Dy)), ({} : Tables))
  match r with
  | some (vs, t) => some (vs.reverse, t)
  | none => none

def step (st : St) (line : String) : St × String :=
  match words line with
  | ["fold", u, b] => ({ ulower := parseFold 65536 u, blower := parseFold 256 b }, "fold ok")
  | ["cmp", c, da, db] =>
    match parseCfg c, parseAll [da, db] with
    | some cfg, some ([a, b], t) => (st, showCmp (mkParams st t) cfg a b)
    | _, _ => (st, "bad-op")
  | "asort" :: c :: kind :: ds =>
    match parseCfg c, parseAll ds with
    | some cfg, some (vs, t) =>
      let P := mkParams st t
      let src : Option (List (Nat × Val Dy)) := if kind == "nil" then none else some (vs.zipIdx.map fun (v, i) => (i, v))
      match asortBy P cfg (fun (x : Nat × Val Dy) => x.2) src with
      | .ok (rv, out) => (st, s!"rv={rv} out={joinWith "," (out.map fun x => toString x.1)}")
      | .error _ => (st, "ERR")
    | _, _ => (st, "bad-op")
  | "asortx" :: c :: ck :: kv :: mode :: items =>
    -- items: <key>=<descriptor>; key = hex4 units (map) or slot number (array), in traversal / slot order
    let kds := items.map fun it => match it.splitOn "=" with
      | k :: rest => (k, "=".intercalate rest)
      | [] => ("", "")
    match parseCfg c, parseAll (kds.map (·.2)) with
    | some cfg, some (vs, t) =>
      let P := mkParams st t
      let keys := kds.map (·.1)
      let src : Src Dy :=
        if mode == "n" then .nil
        else if mode == "m" then .map ((keys.zip vs).map fun (k, v) => (parseHex 4 k, v))
        else
          let kv' := (keys.zip vs).map fun (k, v) => (k.toNat!, v)
          let size := kv'.foldl (fun m p => max m (p.1 + 1)) 0
          .arr ((List.range size).map fun j => (kv'.find? (·.1 == j)).map (·.2))
      let cmp : Val Dy → Val Dy → Except Err Int :=
        if ck == "u" then userCmp3 P cfg
        else if ck == "r" then (fun a b => neg (userCmp3 P cfg a b))
        else if ck == "z" then (fun _ _ => .ok 0)
        else if ck == "e" then
          -- the harness's `uerr`: fails (1 % nil) as soon as one operand == 13, else the three-way comparison
          (fun a b =>
            match evalOp P cfg .eq a (.int 13), evalOp P cfg .eq b (.int 13) with
            | .ok false, .ok false => userCmp3 P cfg a b
            | _, _ => .error .eoperand)
        else cmpVal P cfg .none
      match fncAsortSrc cmp (kv == "k") src with
      | .ok (rv, out) => (st, s!"rv={rv} out={joinWith "," (out.map showHead)}")
      | .error _ => (st, "ERR")
    | _, _ => (st, "bad-op")
  | _ => (st, "bad-op")

def main : IO Unit := do
  forLines (← IO.getStdin) St {} step

end Hawk.Drv.Cmp
