import HawkModel.ForIn
import HawkModel.Drv.Util
/-! for-in programs for the htb/for-in driver: `prog <statement in prefix notation>`; prints what the
    generated hawk program prints: the emitted keys, then the three containers -/
namespace Hawk.Drv.ForIn
open Hawk.ForIn

/-- prefix-notation parser: statement and remaining tokens -/
partial def parse : List String → Option (Stmt × List String)
  | "set" :: m :: k :: v :: r => do some (.set (← m.toNat?) (← k.toNat?) (← v.toNat?), r)
  | "setcur" :: m :: x :: o :: r => do some (.setcur (← m.toNat?) (← x.toNat?) (← o.toNat?), r)
  | "del" :: m :: k :: r => do some (.del (← m.toNat?) (← k.toNat?), r)
  | "delcur" :: m :: x :: r => do some (.delcur (← m.toNat?) (← x.toNat?), r)
  | "reset" :: m :: r => do some (.reset (← m.toNat?), r)
  | "renew" :: m :: r => do some (.renew (← m.toNat?), r)
  | "newarr" :: m :: r => do some (.newarr (← m.toNat?), r)
  | "scalar" :: m :: r => do some (.scalar (← m.toNat?), r)
  | "emit" :: x :: r => do some (.emit (← x.toNat?), r)
  | "brk" :: r => some (.brk, r)
  | "cont" :: r => some (.cont, r)
  | "exit" :: r => some (.exit, r)
  | "ret" :: r => some (.ret, r)
  | "skip" :: r => some (.skip, r)
  | "ifeq" :: x :: k :: r => do
    let (s, r') ← parse r
    some (.ifeq (← x.toNat?) (← k.toNat?) s, r')
  | "seq" :: r => do
    let (a, r1) ← parse r
    let (b, r2) ← parse r1
    some (.seq a b, r2)
  | "forin" :: x :: m :: r => do
    let (s, r') ← parse r
    some (.forin (← x.toNat?) (← m.toNat?) s, r')
  | "call" :: r => do
    let (s, r') ← parse r
    some (.call s, r')
  | _ => none

def showVal : Val → String
  | .nil => ""
  | .map l => String.join (l.map fun p => s!"({p.1}={p.2})")
  | .arr l => String.join (l.map fun p => s!"({p.1}={p.2})")
  | .scalar => ""

/-- the END block of the generated program: `for (Z in Mi) printf ...; printf "|"` for i = 0,1,2; a variable that
    holds a scalar aborts it (HAWK_EINROP), shown as `!ERR` -/
def dumpVars : List Val → String
  | [] => ""
  | v :: r => if v.isScalar then "!ERR" else showVal v ++ "|" ++ dumpVars r

def runProg (toks : List String) : String :=
  match parse toks with
  | some (st, []) =>
    let r := exec st ⟨U.init, []⟩
    let u := r.1.user
    let out := String.join (u.out.reverse.map fun k => s!"<{k}>")
    -- a run-time error in BEGIN aborts the program: END is not run
    if r.2 = .err then s!"{out}!ERR" else s!"{out}|{dumpVars [u.var 0, u.var 1, u.var 2]}"
  | _ => "bad-prog"

end Hawk.Drv.ForIn
