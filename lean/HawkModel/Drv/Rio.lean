import HawkModel.Rio
import HawkModel.Drv.Util
/-! driver for the rio area: reads the case protocol of harness/rio_h.c and prints the handler call
log, chain dumps and statement values the model predicts (not part of any proof) -/
namespace Hawk.Drv.Rio
open Hawk.Rio

def parseReply (t : String) : Reply :=
  if t == "f" then .fail
  else if t == "e" then .eof
  else if t.startsWith "a" then
    let k := ((t.drop 1).toString.toNat?).getD 1
    .accept ((max k 1) - 1)
  else .accept 1000000

def mkOracle (toks : List String) : Nat → Reply :=
  let arr := (toks.map parseReply).toArray
  fun i => if h : i < arr.size then arr[i] else .accept 1000000

def parseOut : String → Option OutKind
  | "file" => some .file | "apfile" => some .apfile | "pipe" => some .pipe
  | "rwpipe" => some .rwpipe | "console" => some .console | _ => none

def parseIn : String → Option InKind
  | "file" => some .file | "pipe" => some .pipe | "rwpipe" => some .rwpipe
  | "console" => some .console | _ => none

def nameOf (s : String) : String := if s == "-" then "" else s
def dataOf (s : String) : List Char := if s == "-" then [] else s.toList

def parseStmt (w : List String) : Option Stmt :=
  match w with
  | ["p", k, n, m, items] => (parseOut k).map fun ok =>
      .print ok (nameOf n) (m == "b")
        (if items == "-" then none else some ((items.splitOn ",").map fun i => if i == "_" then [] else i.toList))
  | ["pf", k, n, m, d] => (parseOut k).map fun ok => .printf ok (nameOf n) (m == "b") (dataOf d)
  | ["c", n] => some (.close n none)
  | ["c", n, o] => some (.close n (some (o == "r")))
  | ["ff"] => some .fflush0
  | ["ffn", n] => some (.fflush (if n == "-" then none else some n))
  | ["g", k, n] => (parseIn k).map fun ik => .getline ik (nameOf n)
  | ["no"] => some .nextofile
  | _ => none

def showTy : RType → String | .pipe => "pipe" | .file => "file" | .console => "console"
def showMask : Mask → String | .rd => "rd" | .wr => "wr" | .rw => "rw"
def showRwc : Rwc → String | .full => "0" | .rd => "1" | .wr => "2"
def showName (n : String) : String := if n.isEmpty then "-" else n
def showKey (k : Key) : String := s!"{showTy k.ty} {showMask k.mask} {showName k.name}"
def b01 (b : Bool) : String := if b then "1" else "0"
def showData (d : List Char) : String := if d.isEmpty then "-" else String.ofList d

def showStrm (x : Strm) : String :=
  s!"{x.sid}:{showTy x.key.ty}/{showMask x.key.mask}/{x.mode}/{showName x.key.name}/{showRwc x.rwcstate}/{b01 x.outEof}{b01 x.outEos}{b01 x.inEof}{b01 x.inEos}"

def showChain (c : List Strm) : String := "[" ++ " ".intercalate (c.map showStrm) ++ "]"

def showEv (n : Nat) : Ev → String
  | .opn sid k m ok => s!"H {n} OPEN {if ok then toString sid else "-"} {showTy k.ty} {showMask k.mask} {m} {showName k.name} -> {if ok then "ok" else "fail"}"
  | .wr sid k b off r =>
    let rs := match r with | .fail => "fail" | .eof => "eof" | .accept j => toString (min (j + 1) off.length)
    s!"H {n} {if b then "WRITEB" else "WRITE"} {sid} {showKey k} {showData off} -> {rs}"
  | .rd sid k r => s!"H {n} READ {sid} {showKey k} -> {match r with | .fail => "fail" | .eof => "eof" | _ => "ok"}"
  | .fl sid k ok => s!"H {n} FLUSH {sid} {showKey k} -> {if ok then "ok" else "fail"}"
  | .cl sid k m ok _ => s!"H {n} CLOSE {sid} {showKey k} {showRwc m} -> {if ok then "ok" else "fail"}"
  | .nx sid k r => s!"H {n} NEXT {sid} {showKey k} -> {match r with | .fail => "fail" | .eof => "eof" | _ => "ok"}"

/-- the events added between two states, oldest first, numbered by call number -/
def newEvents (old new : St) : List String :=
  let evs := (new.log.take (new.log.length - old.log.length)).reverse
  (evs.zipIdx old.log.length).map fun (e, i) => showEv i e

def runCase (tol : Bool) (ors : List Char) (toks : List String) (prog : List Stmt) : List String := Id.run do
  let ρ := mkOracle toks
  -- every turn of the console read loop consumes a scripted (non-accept) reply, so this fuel is never exhausted
  let cfg : Cfg := { tolerant := tol, ofs := [' '], ors := ors, readFuel := 2 * toks.length + 8 }
  let mut out : Array String := #[s!"C {if tol then 1 else 0}"]
  let mut s := St.init
  let mut aborted := false
  let mut i := 0
  for st in prog do
    if aborted then break
    out := out.push s!"S {i} {showChain s.chain}"
    let r := stmt ρ cfg s st
    out := out ++ (newEvents s r.1).toArray
    match r.2 with
    | .val v => out := out.push s!"R {v}"
    | .unit => pure ()
    | .runerr => aborted := true
    | .hang => out := out.push "X hang"; aborted := true
    s := r.1
    i := i + 1
  if !aborted then out := out.push s!"S {i} {showChain s.chain}"
  let s2 := flushall ρ s
  out := out ++ (newEvents s s2).toArray
  out := out.push (if aborted || flushallFails ρ s.chain s.calls then "L err" else "L ok")
  out := out.push s!"Z {showChain s2.chain}"
  let s3 := clearall ρ s2
  out := out ++ (newEvents s2 s3).toArray
  out := out.push "Z done"
  return out.toList

structure DSt where
  tol : Bool := false
  ors : List Char := ['$']
  toks : List String := []
  prog : Array Stmt := #[]
  bad : Bool := false

partial def main : IO Unit := do
  let h ← IO.getStdin
  let out ← IO.getStdout
  let rec loop (d : DSt) : IO Unit := do
    let line ← h.getLine
    if line.isEmpty then
      out.flush
      return ()
    let w := Hawk.Drv.words line
    match w with
    | [] => loop d
    | "case" :: t :: ors :: sc :: _ =>
      loop { tol := t == "1", ors := dataOf ors, toks := if sc == "-" then [] else sc.splitOn ",", prog := #[], bad := false }
    | ["end"] =>
      if d.bad then out.putStrLn "X bad line" else
        for l in runCase d.tol d.ors d.toks d.prog.toList do out.putStrLn l
      loop {}
    | _ =>
      if (w.head?.getD "").startsWith "#" then loop d else
      match parseStmt w with
      | some st => loop { d with prog := d.prog.push st }
      | none => loop { d with bad := true }
  loop {}

end Hawk.Drv.Rio
