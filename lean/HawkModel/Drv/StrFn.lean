import HawkModel.StrFn
import HawkModel.Drv.Util
/-!
driver for the strfn area (property C13): one builtin call per line in, canonical result + state dump out.

  line   := op arg* [ "|" entry* ]
  value  := N | I:<int> | F:<mant>/<exp10> | S:<hex.hex…> | B:<hex…> | C:<hex> | K:<hex> | R:<hex…> (regex literal) | -
  entry  := (c|b) ":" <pattern hex> ":" <subject hex> ":" <k> "=" ( <p> "," <l> | "-" )

The regular-expression engine is NOT part of this driver: the matcher is given as data (the table of
raw match results the harness obtained from the real engine for this call) and looked up.
-/
namespace Hawk.Drv.StrFn
open Hawk.StrFn

def hexVal (s : String) : Option Nat :=
  if s.isEmpty then none else
  s.toList.foldl (fun acc c => acc.bind fun a =>
    if '0' ≤ c ∧ c ≤ '9' then some (a * 16 + (c.toNat - '0'.toNat))
    else if 'a' ≤ c ∧ c ≤ 'f' then some (a * 16 + (c.toNat - 'a'.toNat + 10))
    else none) (some 0)

def hexList (s : String) : Option (List Nat) :=
  if s.isEmpty then some [] else (s.splitOn ".").mapM hexVal

def parseInt (s : String) : Option Int := s.toInt?

inductive Arg where
  | absent
  | v (x : Val)
  | rex (src : List Char)

def parseArg (t : String) : Option Arg :=
  if t == "-" then some .absent
  else if t == "N" then some (.v .nil)
  else
    let body := (t.drop 2).toString
    if t.startsWith "I:" then (parseInt body).map fun i => .v (.int i)
    else if t.startsWith "F:" then
      match body.splitOn "/" with
      | [m, e] => do let m ← parseInt m; let e ← e.toNat?; pure (.v (.flt m e))
      | _ => none
    else if t.startsWith "S:" then (hexList body).map fun l => .v (.str (l.map Char.ofNat))
    else if t.startsWith "B:" then (hexList body).map fun l => .v (.mbs (l.map UInt8.ofNat))
    else if t.startsWith "C:" then (hexVal body).map fun c => .v (.chr (Char.ofNat c))
    else if t.startsWith "K:" then (hexVal body).map fun c => .v (.bchr (UInt8.ofNat c))
    else if t.startsWith "R:" then (hexList body).map fun l => .rex (l.map Char.ofNat)
    else none

/-- table entry: kind, pattern, subject (code units), k ↦ result -/
structure Entry where
  kind : Char
  pat : List Nat
  subj : List Nat
  k : Nat
  res : Option (Nat × Nat)

def parseEntry (t : String) : Option Entry :=
  match t.splitOn "=" with
  | [key, val] =>
    match key.splitOn ":" with
    | [kind, pat, subj, k] => do
      let pat ← hexList pat
      let subj ← hexList subj
      let k ← k.toNat?
      let res ← (if val == "-" then some none else
        match val.splitOn "," with
        | [p, l] => do let p ← p.toNat?; let l ← l.toNat?; pure (some (p, l))
        | _ => none)
      pure { kind := kind.front, pat := pat, subj := subj, k := k, res := res }
    | _ => none
  | _ => none

/-- table lookup made into a `Matcher`: entries violating the interface law are discarded
    (the check reports such a table separately) -/
def tableMatcher {α : Type} (code : α → Nat) (kind : Char) (pat : List Nat) (tbl : List Entry)
    (miss : Bool) : Matcher α where
  run s k :=
    let key := s.map code
    let r := match tbl.find? (fun e => e.kind == kind && e.pat == pat && e.k == k && e.subj == key) with
      | some e => e.res
      | none => if miss then some (k, if k < s.length then 1 else 0) else none
    match r with
    | some (p, l) => if k ≤ p ∧ p + l ≤ s.length then some (p, l) else none
    | none => none
  inside := by
    intro s k p l h
    simp only at h
    split at h
    · rename_i p' l' _
      split at h
      · simp only [Option.some.injEq, Prod.mk.injEq] at h
        omega
      · simp at h
    · simp at h

/-- UTF-8 encoding of BMP characters -/
def encUtf8 (l : List Char) : List UInt8 := (String.ofList l).toUTF8.toList

/-- UTF-8 decoding; any byte that does not start a well-formed sequence becomes '?' -/
partial def decUtf8 : List UInt8 → List Char
  | [] => []
  | b :: r =>
    let n := b.toNat
    if n < 0x80 then Char.ofNat n :: decUtf8 r
    else if 0xC2 ≤ n ∧ n < 0xE0 then
      match r with
      | c :: r' => if c.toNat / 64 = 2 then Char.ofNat ((n % 32) * 64 + c.toNat % 64) :: decUtf8 r' else '?' :: decUtf8 r
      | [] => ['?']
    else if 0xE0 ≤ n ∧ n < 0xF0 then
      match r with
      | c :: d :: r' =>
        if c.toNat / 64 = 2 ∧ d.toNat / 64 = 2 then
          Char.ofNat ((n % 16) * 4096 + (c.toNat % 64) * 64 + d.toNat % 64) :: decUtf8 r'
        else '?' :: decUtf8 r
      | _ => '?' :: decUtf8 r
    else '?' :: decUtf8 r

/-- "%.6g" of m / 10^e for the short decimals the generator uses (|value| < 10^6, at most 6 significant digits) -/
def fmtFlt (m : Int) (e : Nat) : List Char :=
  let neg := m < 0
  let a := m.natAbs
  let ip := a / 10 ^ e
  let fp := a % 10 ^ e
  let fdig := (toString fp).toList
  let fdig := List.replicate (e - fdig.length) '0' ++ fdig
  let fdig := (fdig.reverse.dropWhile (· == '0')).reverse
  let body := (toString ip).toList ++ (if fdig.isEmpty then [] else '.' :: fdig)
  if neg then '-' :: body else body

def lowerC (c : Char) : Char :=
  let n := c.toNat
  if 'A'.toNat ≤ n ∧ n ≤ 'Z'.toNat then Char.ofNat (n + 32)
  else if 0xC0 ≤ n ∧ n ≤ 0xDE ∧ n ≠ 0xD7 then Char.ofNat (n + 32) else c

def upperC (c : Char) : Char :=
  let n := c.toNat
  if 'a'.toNat ≤ n ∧ n ≤ 'z'.toNat then Char.ofNat (n - 32)
  else if 0xE0 ≤ n ∧ n ≤ 0xFE ∧ n ≠ 0xF7 then Char.ofNat (n - 32) else c

def lowerB (b : UInt8) : UInt8 := if 65 ≤ b.toNat ∧ b.toNat ≤ 90 then UInt8.ofNat (b.toNat + 32) else b
def upperB (b : UInt8) : UInt8 := if 97 ≤ b.toNat ∧ b.toNat ≤ 122 then UInt8.ofNat (b.toNat - 32) else b

def isSpaceNat (n : Nat) : Bool := n == 32 || (9 ≤ n && n ≤ 13)

def mkEnv (tbl : List Entry) (miss : Bool) : Env where
  enc := encUtf8
  dec := decUtf8
  fmtFlt := fmtFlt
  compile pat :=
    { c := tableMatcher (fun c : Char => c.toNat) 'c' (pat.map Char.toNat) tbl miss
      b := tableMatcher (fun b : UInt8 => b.toNat) 'b' (pat.map Char.toNat) tbl miss }
  lowerC := lowerC
  upperC := upperC
  lowerB := lowerB
  upperB := upperB
  spaceC := fun c => isSpaceNat c.toNat
  spaceB := fun b => isSpaceNat b.toNat

def hexJoin (l : List Nat) : String :=
  ".".intercalate (l.map fun n => String.ofList (Nat.toDigits 16 n))

def tv : Val → String
  | .nil => "nil"
  | .int i => s!"int:{i}"
  | .flt m e => s!"flt:{String.ofList (fmtFlt m e)}"
  | .str s => "str:" ++ hexJoin (s.map Char.toNat)
  | .mbs b => "mbs:" ++ hexJoin (b.map UInt8.toNat)
  | .chr c => "char:" ++ hexJoin [c.toNat]
  | .bchr b => "bchar:" ++ hexJoin [b.toNat]

def keyLe (a b : List Char × Val) : Bool :=
  let x := a.1.map Char.toNat
  let y := b.1.map Char.toNat
  if x.length != y.length then x.length < y.length else decide (x ≤ y)

def tvColl : Coll → String
  | .unset => "nil"
  | .map kvs =>
    let sorted := kvs.mergeSort keyLe
    "map{" ++ ",".intercalate (sorted.map fun (k, v) => hexJoin (k.map Char.toNat) ++ "=" ++ tv v) ++ "}"
  | .array items => "array{" ++ ",".intercalate (items.map fun (k, v) => s!"{k}=" ++ tv v) ++ "}"

abbrev St := State String

def restConst : String := "NF=int:0 R0=nil X=str:73 G=="

def initSt : St := { rstart := .nil, rlength := .nil, target := .nil, coll := .unset, rest := restConst }

def dump (r : String) (s : St) : String :=
  s!"{r} T={tv s.target} C={tvColl s.coll} RS={tv s.rstart} RL={tv s.rlength} {s.rest}"

def argVal : Arg → Option Val
  | .v x => some x
  | _ => none

def argOptVal : Arg → Option (Option Val)
  | .absent => some none
  | .v x => some (some x)
  | .rex _ => none

def argPat : Arg → Option Pat
  | .v x => some (.val x)
  | .rex s => some (.rex s)
  | .absent => none

def argSep : Arg → Sep
  | .absent => .fs
  | .rex s => .rex s
  | .v x => .val x

def runOp (E : Env) (s : St) (op : String) (args : List Arg) : Option (String × St) :=
  match op, args with
  | "length", [a] => do let v ← argVal a; pure (tv (fnLength E v), s)
  | "substr", [a, b, c] => do
    let v ← argVal a; let st ← argVal b; let ln ← argOptVal c
    match fnSubstr E v st ln with
    | some r => pure (tv r, s)
    | none => pure ("unmodelled", s)
  | "index", [a, b, c] => do
    let v ← argVal a; let p ← argVal b; let st ← argOptVal c
    match fnIndex E false v p st with
    | some r => pure (tv r, s)
    | none => pure ("unmodelled", s)
  | "rindex", [a, b, c] => do
    let v ← argVal a; let p ← argVal b; let st ← argOptVal c
    match fnIndex E true v p st with
    | some r => pure (tv r, s)
    | none => pure ("unmodelled", s)
  | "tolower", [a] => do let v ← argVal a; pure (tv (fnCase E false v), s)
  | "toupper", [a] => do let v ← argVal a; pure (tv (fnCase E true v), s)
  | "split", [a, b] => do
    let v ← argVal a
    match fnSplit E false v (argSep b) s with
    | some (r, s') => pure (tv r, s')
    | none => pure ("unmodelled", s)
  | "splita", [a, b] => do
    let v ← argVal a
    match fnSplit E true v (argSep b) s with
    | some (r, s') => pure (tv r, s')
    | none => pure ("unmodelled", s)
  | "sub", [p, r, t] => do
    let p ← argPat p; let r ← argVal r; let t ← argVal t
    let (res, s') := fnSubst E (some 1) p r { s with target := t }
    pure (tv res, s')
  | "gsub", [p, r, t] => do
    let p ← argPat p; let r ← argVal r; let t ← argVal t
    let (res, s') := fnSubst E none p r { s with target := t }
    pure (tv res, s')
  | "match", [a, p] => do
    let v ← argVal a; let p ← argPat p
    match fnMatch E v p none false s with
    | some (r, s') => pure (tv r, s')
    | none => pure ("unmodelled", s)
  | "matcha", [a, p] => do
    let v ← argVal a; let p ← argPat p
    match fnMatch E v p none true s with
    | some (r, s') => pure (tv r, s')
    | none => pure ("unmodelled", s)
  | "smatch", [a, p, st] => do
    let v ← argVal a; let p ← argPat p; let st ← argOptVal st
    match fnMatch E v p st false s with
    | some (r, s') => pure (tv r, s')
    | none => pure ("unmodelled", s)
  | "smatcha", [a, p, st] => do
    let v ← argVal a; let p ← argPat p; let st ← argOptVal st
    match fnMatch E v p (some (st.getD (.int 1))) true s with
    | some (r, s') => pure (tv r, s')
    | none => pure ("unmodelled", s)
  | _, _ => none

def step (s : St) (line : String) : St × String :=
  let ws := words line
  match ws with
  | ["reset"] => (initSt, "ok")
  | op :: rest =>
    let (argToks, tblToks) := rest.span (· ≠ "|")
    let tblToks := tblToks.drop 1
    match argToks.mapM parseArg, tblToks.mapM parseEntry with
    | some args, some tbl =>
      -- a lookup outside the table must be visible in the output: run twice with different defaults
      let e1 := mkEnv tbl false
      let e2 := mkEnv tbl true
      match runOp e1 s op args, runOp e2 s op args with
      | some (r1, s1), some (r2, s2) =>
        let o1 := dump r1 s1
        let o2 := dump r2 s2
        if o1 == o2 then (s1, o1) else (s1, "NOENTRY " ++ o1)
      | _, _ => (s, "bad-op")
    | _, _ => (s, "bad-args")
  | [] => (s, "bad-op")

def main : IO Unit := do
  forLines (← IO.getStdin) St initSt step

end Hawk.Drv.StrFn
