import HawkModel.StrFn
import HawkModel.Drv.Util
/-!
driver for the strfn area (property C13): one builtin call per line in, canonical result + state dump out.

  line   := op arg* [ "|" entry* ]
  value  := N | I:<int> | F:<mant>/<exp10> | S:<hex.hex…> | B:<hex…> | C:<hex> | K:<hex> | R:<hex…> (regex literal) | -
  entry  := (c|b) ":" <pattern hex> ":" <subject hex> ":" <k> "=" ( <p> "," <l> | "-" )

The regular-expression engine is NOT part of this driver: the matcher is given as data (the table of
raw match results the harness obtained from the real engine for this call) and looked up.
-/
namespace Hawk.Drv.StrFn
open Hawk.StrFn

def hexVal (s : String) : Option Nat :=
  if s.isEmpty then none else
  s.toList.foldl (fun acc c => acc.bind fun a =>
    if '0' ≤ c ∧ c ≤ '9' then some (a * 16 + (c.toNat - '0'.toNat))
    else if 'a' ≤ c ∧ c ≤ 'f' then some (a * 16 + (c.toNat - 'a'.toNat + 10))
    else none) (some 0)

def hexList (s : String) : Option (List Nat) :=
  if s.isEmpty then some [] else (s.splitOn ".").mapM hexVal

def parseInt (s : String) : Option Int := s.toInt?

inductive Arg where
  | absent
  | v (x : Val)
  | rex (src : List Char)

def parseArg (t : String) : Option Arg :=
  if t == "-" then some .absent
  else if t == "N" then some (.v .nil)
  else
    let body := (t.drop 2).toString
    if t.startsWith "I:" then (parseInt body).map fun i => .v (.int i)
    else if t.startsWith "F:" then
      match body.splitOn "/" with
      | [m, e] => do let m ← parseInt m; let e ← e.toNat?; pure (.v (.flt m e))
      | _ => none
    else if t.startsWith "S:" then (hexList body).map fun l => .v (.str (l.map Char.ofNat))
    else if t.startsWith "B:" then (hexList body).map fun l => .v (.mbs (l.map UInt8.ofNat))
    else if t.startsWith "C:" then (hexVal body).map fun c => .v (.chr (Char.ofNat c))
    else if t.startsWith "K:" then (hexVal body).map fun c => .v (.bchr (UInt8.ofNat c))
    else if t.startsWith "R:" then (hexList body).map fun l => .rex (l.map Char.ofNat)
    else none

/-- table entry: kind, pattern, subject (code units), k ↦ result -/
structure Entry where
  kind : Char
  pat : List Nat
  subj : List Nat
  k : Nat
  res : Option (Nat × Nat)

def parseEntry (t : String) : Option Entry :=
  match t.splitOn "=" with
  | [key, val] =>
    match key.splitOn ":" with
    | [kind, pat, subj, k] => do
      let pat ← hexList pat
      let subj ← hexList subj
      let k ← k.toNat?
      let res ← (if val == "-" then some none else
        match val.splitOn "," with
        | [p, l] => do let p ← p.toNat?; let l ← l.toNat?; pure (some (p, l))
        | _ => none)
      pure { kind := kind.front, pat := pat, subj := subj, k := k, res := res }
    | _ => none
  | _ => none

/-- table lookup made into a `Matcher`: entries violating the interface law are discarded
    (the check reports such a table separately) -/
def tableMatcher {α : Type} (code : α → Nat) (kind : Char) (pat : List Nat) (tbl : List Entry)
    (miss : Bool) : Matcher α where
  run s k :=
    let key := s.map code
    let r := match tbl.find? (fun e => e.kind == kind && e.pat == pat && e.k == k && e.subj == key) with
      | some e => e.res
      | none => if miss then some (k, if k < s.length then 1 else 0) else none
    match r with
    | some (p, l) => if k ≤ p ∧ p + l ≤ s.length then some (p, l) else none
    | none => none
  inside := by
    intro s k p l h
    simp only at h
    split at h
    · rename_i p' l' _
      split at h
      · simp only [Option.some.injEq, Prod.mk.injEq] at h
        omega
      · simp at h
    · simp at h

/-- UTF-8 encoding of BMP characters -/
def encUtf8 (l : List Char) : List UInt8 := (String.ofList l).toUTF8.toList

/-- UTF-8 decoding; any byte that does not start a well-formed sequence becomes '?' -/
partial def decUtf8 : List UInt8 → List Char
  | [] => []
  | b :: r =>
    let n := b.toNat
    if n < 0x80 then Char.ofNat n :: decUtf8 r
    else if 0xC2 ≤ n ∧ n < 0xE0 then
      match r with
      | c :: r' => if c.toNat / 64 = 2 then Char.ofNat ((n % 32) * 64 + c.toNat % 64) :: decUtf8 r' else '?' :: decUtf8 r
      | [] => ['?']
    else if 0xE0 ≤ n ∧ n < 0xF0 then
      match r with
      | c :: d :: r' =>
        if c.toNat / 64 = 2 ∧ d.toNat / 64 = 2 then
          Char.ofNat ((n % 16) * 4096 + (c.toNat % 64) * 64 + d.toNat % 64) :: decUtf8 r'
        else '?' :: decUtf8 r
      | _ => '?' :: decUtf8 r
    else '?' :: decUtf8 r

/-- "%.6g" of m / 10^e for the short decimals the generator uses (|value| < 10^6, at most 6 significant digits) -/
def fmtFlt (m : Int) (e : Nat) : List Char :=
  let neg := m < 0
  let a := m.natAbs
  let ip := a / 10 ^ e
  let fp := a % 10 ^ e
  let fdig := (toString fp).toList
  let fdig := List.replicate (e - fdig.length) '0' ++ fdig
  let fdig := (fdig.reverse.dropWhile (· == '0')).reverse
  let body := (toString ip).toList ++ (if fdig.isEmpty then [] else '.' :: fdig)
  if neg then '-' :: body else body

def lowerC (c : Char) : Char :=
  let n := c.toNat
  if 'A'.toNat ≤ n ∧ n ≤ 'Z'.toNat then Char.ofNat (n + 32)
  else if 0xC0 ≤ n ∧ n ≤ 0xDE ∧ n ≠ 0xD7 then Char.ofNat (n + 32) else c

def upperC (c : Char) : Char :=
  let n := c.toNat
  if 'a'.toNat ≤ n ∧ n ≤ 'z'.toNat then Char.ofNat (n - 32)
  else if 0xE0 ≤ n ∧ n ≤ 0xFE ∧ n ≠ 0xF7 then Char.ofNat (n - 32) else c

def lowerB (b : UInt8) : UInt8 := if 65 ≤ b.toNat ∧ b.toNat ≤ 90 then UInt8.ofNat (b.toNat + 32) else b
def upperB (b : UInt8) : UInt8 := if 97 ≤ b.toNat ∧ b.toNat ≤ 122 then UInt8.ofNat (b.toNat - 32) else b

def isSpaceNat (n : Nat) : Bool := n == 32 || (9 ≤ n && n ≤ 13)

def mkEnv (tbl : List Entry) (miss : Bool) : Env where
  enc := encUtf8
  dec := decUtf8
  fmtFlt := fmtFlt
  compile pat :=
    { c := tableMatcher (fun c : Char => c.toNat) 'c' (pat.map Char.toNat) tbl miss
      b := tableMatcher (fun b : UInt8 => b.toNat) 'b' (pat.map Char.toNat) tbl miss }
  lowerC := lowerC
  upperC := upperC
  lowerB := lowerB
  upperB := upperB
  spaceC := fun c => isSpaceNat c.toNat
  spaceB := fun b => isSpaceNat b.toNat

def hexJoin (l : List Nat) : String :=
  ".".intercalate (l.map fun n => String.ofList (Nat.toDigits 16 n))

def tv : Val → String
  | .nil => "nil"
  | .int i => s!"int:{i}"
  | .flt m e => s!"flt:{String.ofList (fmtFlt m e)}"
  | .str s => "str:" ++ hexJoin (s.map Char.toNat)
  | .mbs b => "mbs:" ++ hexJoin (b.map UInt8.toNat)
  | .chr c => "char:" ++ hexJoin [c.toNat]
  | .bchr b => "bchar:" ++ hexJoin [b.toNat]

def keyLe (a b : List Char × Val) : Bool :=
  let x := a.1.map Char.toNat
  let y := b.1.map Char.toNat
  if x.length != y.length then x.length < y.length else decide (x ≤ y)

def tvColl : Coll → String
  | .unset => "nil"
  | .map kvs =>
    let sorted := kvs.mergeSort keyLe
    "map{" ++ ",".intercalate (sorted.map fun (k, v) => hexJoin (k.map Char.toNat) ++ "=" ++ tv v) ++ "}"
  | .array items => "array{" ++ ",".intercalate (items.map fun (k, v) => s!"{k}=" ++ tv v) ++ "}"

abbrev St := State String

def restTail : String := "X=str:73 G=="
def restConst : String := "NF=int:0 R0=str: " ++ restTail

def initSt : St := { rstart := .nil, rlength := .nil, target := .nil, coll := .unset, rest := restConst }

def dump (r : String) (s : St) : String :=
  s!"{r} T={tv s.target} C={tvColl s.coll} RS={tv s.rstart} RL={tv s.rlength} {s.rest}"


/-- character classes: ASCII as in the C locale; Latin-1 letters for wide characters (what the generator uses) -/
def classNat (wide : Bool) (name : String) (n : Nat) : Bool :=
  let up := (65 ≤ n && n ≤ 90) || (wide && 0xC0 ≤ n && n ≤ 0xDE && n != 0xD7)
  let lo := (97 ≤ n && n ≤ 122) || (wide && 0xDF ≤ n && n ≤ 0xFF && n != 0xF7)
  let dg := 48 ≤ n && n ≤ 57
  let al := up || lo
  let sp := n == 32 || (9 ≤ n && n ≤ 13)
  let pr := 32 ≤ n && n ≤ 126
  match name with
  | "alnum" => al || dg
  | "alpha" => al
  | "blank" => n == 32 || n == 9
  | "cntrl" => n < 32 || n == 127
  | "digit" => dg
  | "graph" => (33 ≤ n && n ≤ 126) || (wide && al && n ≥ 128)
  | "lower" => lo
  | "print" => pr || (wide && al && n ≥ 128)
  | "punct" => (33 ≤ n && n ≤ 126) && !(al || dg)
  | "space" => sp
  | "upper" => up
  | "xdigit" => dg || (65 ≤ n && n ≤ 70) || (97 ≤ n && n ≤ 102)
  | _ => false

/-- encoding-name argument: absent, the name "utf8" (resolves to the runtime's cmgr) or any other string (unknown) -/
def encOf : Arg → Option EncArg
  | .absent => some .absent
  | .v (.str n) => some (if n == "utf8".toList then .utf8 else .unknown)
  | _ => none

def optOut (r : Option Val) (s : State String) : Option (String × State String) :=
  match r with
  | some v => some (tv v, s)
  | none => some ("unmodelled", s)

def argVal : Arg → Option Val
  | .v x => some x
  | _ => none

def argOptVal : Arg → Option (Option Val)
  | .absent => some none
  | .v x => some (some x)
  | .rex _ => none

def argPat : Arg → Option Pat
  | .v x => some (.val x)
  | .rex s => some (.rex s)
  | .absent => none

def argSep : Arg → Sep
  | .absent => .fs
  | .rex s => .rex s
  | .v x => .val x

def runOp (E : Env) (s : St) (op : String) (args : List Arg) : Option (String × St) :=
  match op, args with
  | "length", [a] => do let v ← argVal a; pure (tv (fnLength E v), s)
  | "substr", [a, b, c] => do
    let v ← argVal a; let st ← argVal b; let ln ← argOptVal c
    match fnSubstr E v st ln with
    | some r => pure (tv r, s)
    | none => pure ("unmodelled", s)
  | "index", [a, b, c] => do
    let v ← argVal a; let p ← argVal b; let st ← argOptVal c
    match fnIndex E false v p st with
    | some r => pure (tv r, s)
    | none => pure ("unmodelled", s)
  | "rindex", [a, b, c] => do
    let v ← argVal a; let p ← argVal b; let st ← argOptVal c
    match fnIndex E true v p st with
    | some r => pure (tv r, s)
    | none => pure ("unmodelled", s)
  | "tolower", [a] => do let v ← argVal a; pure (tv (fnCase E false v), s)
  | "toupper", [a] => do let v ← argVal a; pure (tv (fnCase E true v), s)
  | "split", [a, b] => do
    let v ← argVal a
    match fnSplit E false v (argSep b) s with
    | some (r, s') => pure (tv r, s')
    | none => pure ("unmodelled", s)
  | "splita", [a, b] => do
    let v ← argVal a
    match fnSplit E true v (argSep b) s with
    | some (r, s') => pure (tv r, s')
    | none => pure ("unmodelled", s)
  | "sub", [p, r, t] => do
    let p ← argPat p; let r ← argVal r; let t ← argVal t
    let (res, s') := fnSubst E (some 1) p r { s with target := t }
    pure (tv res, s')
  | "gsub", [p, r, t] => do
    let p ← argPat p; let r ← argVal r; let t ← argVal t
    let (res, s') := fnSubst E none p r { s with target := t }
    pure (tv res, s')
  | "match", [a, p] => do
    let v ← argVal a; let p ← argPat p
    match fnMatch E v p none false s with
    | some (r, s') => pure (tv r, s')
    | none => pure ("unmodelled", s)
  | "matcha", [a, p] => do
    let v ← argVal a; let p ← argPat p
    match fnMatch E v p none true s with
    | some (r, s') => pure (tv r, s')
    | none => pure ("unmodelled", s)
  | "smatch", [a, p, st] => do
    let v ← argVal a; let p ← argPat p; let st ← argOptVal st
    match fnMatch E v p st false s with
    | some (r, s') => pure (tv r, s')
    | none => pure ("unmodelled", s)
  | "smatcha", [a, p, st] => do
    let v ← argVal a; let p ← argPat p; let st ← argOptVal st
    match fnMatch E v p (some (st.getD (.int 1))) true s with
    | some (r, s') => pure (tv r, s')
    | none => pure ("unmodelled", s)
  | "i:index", [a, b, c] => do
    let v ← argVal a; let p ← argVal b; let st ← argOptVal c
    optOut (fnIndexIc E false v p st) s
  | "i:rindex", [a, b, c] => do
    let v ← argVal a; let p ← argVal b; let st ← argOptVal c
    optOut (fnIndexIc E true v p st) s
  | "i:split", [a, b] => do
    let v ← argVal a
    match fnSplitIc E false v (argSep b) s with
    | some (r, s') => pure (tv r, s')
    | none => pure ("unmodelled", s)
  | "i:splita", [a, b] => do
    let v ← argVal a
    match fnSplitIc E true v (argSep b) s with
    | some (r, s') => pure (tv r, s')
    | none => pure ("unmodelled", s)
  | "trim", [a] => do let v ← argVal a; pure (tv (fnTrim E true true v), s)
  | "ltrim", [a] => do let v ← argVal a; pure (tv (fnTrim E true false v), s)
  | "rtrim", [a] => do let v ← argVal a; pure (tv (fnTrim E false true v), s)
  | "normspace", [a] => do let v ← argVal a; pure (tv (fnNormspace E v), s)
  | "trimf", [a, f] => do let v ← argVal a; let f ← argOptVal f; optOut (fnTrimFlags E v f) s
  | "subchar", [a, b] => do let v ← argVal a; let p ← argVal b; optOut (fnSubchar E v p) s
  | "tocharcode", [a, b] => do let v ← argVal a; let p ← argOptVal b; optOut (fnTocharcode E v p) s
  | "tombs", [a, e] => do let v ← argVal a; let e ← encOf e; pure (tv (fnTombs E v e), s)
  | "frommbs", [a, e] => do let v ← argVal a; let e ← encOf e; pure (tv (fnFrommbs E v e), s)
  | "tonum", [a, b] => do let v ← argVal a; let b ← argOptVal b; optOut (fnTonum E v b) s
  | _, _ => none

/-- ops with a variable number of arguments, a class name in the op, or the IGNORECASE prefix on an op whose
    model does not depend on it (the case-insensitive regex answers are in the table) -/
def runOp2 (E : Env) (s : St) (op : String) (args : List Arg) : Option (String × St) :=
  if op == "fromcharcode" then do let vs ← args.mapM argVal; optOut (fnFromcharcode vs) s
  else if op == "frombcharcode" then do let vs ← args.mapM argVal; optOut (fnFrombcharcode vs) s
  else if op.startsWith "is:" then
    match args with
    | [a] => do
      let v ← argVal a
      let name := (op.drop 3).toString
      pure (tv (fnIsClass E (fun c => classNat true name c.toNat) (fun b => classNat false name b.toNat) v), s)
    | _ => none
  else if op == "sub0" || op == "gsub0" then
    match args with
    | [p, r, .v (.str rec0)] => do
      let p ← argPat p; let r ← argVal r
      let (res, new, nf) := fnSubst0 E (if op == "sub0" then some 1 else none) p r rec0
      -- the record is the target of this call only: the harness resets $0 afterwards
      pure (tv res, { s with rest := s!"NF=int:{nf} R0={tv (.str new)} {restTail}" })
    | _ => none
  else match runOp E s op args with
    | some r => some r
    | none => if op.startsWith "i:" then runOp E s (op.drop 2).toString args else none

def step (s : St) (line : String) : St × String :=
  let ws := words line
  match ws with
  | ["reset"] => (initSt, "ok")
  | op :: rest =>
    let (argToks, tblToks) := rest.span (· ≠ "|")
    let tblToks := tblToks.drop 1
    match argToks.mapM parseArg, tblToks.mapM parseEntry with
    | some args, some tbl =>
      -- a lookup outside the table must be visible in the output: run twice with different defaults
      let e1 := mkEnv tbl false
      let e2 := mkEnv tbl true
      match runOp2 e1 s op args, runOp2 e2 s op args with
      | some (r1, s1), some (r2, s2) =>
        let o1 := dump r1 s1
        let o2 := dump r2 s2
        let s1 := { s1 with rest := restConst }
        if o1 == o2 then (s1, o1) else (s1, "NOENTRY " ++ o1)
      | _, _ => (s, "bad-op")
    | _, _ => (s, "bad-args")
  | [] => (s, "bad-op")

def main : IO Unit := do
  forLines (← IO.getStdin) St initSt step

end Hawk.Drv.StrFn
