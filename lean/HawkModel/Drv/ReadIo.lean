import HawkModel.ReadIo
import HawkModel.ReadIoStack
import HawkModel.Drv.Util
/-! driver for the readio area.

One case per line:   `KIND MODE FILE*`
* KIND  `C` custom console handler serving the given chunking, `F` std.c file chain (chunking decided by sio; the
        model is run with the given cuts, the check ignores pos/len of such lines), `X` all 2^(n-1) chunkings of
        the single FILE (one output line per chunking, mask order), `B`/`Y` = `C`/`X` read as bytes
        (hawk_rtx_readiobytes: the same model), `W` instability witness search for a regex RS over the prefixes of FILE.
* MODE  `D` | `S<hex of one character, UTF-8>` | `P0` | `P1` | `R<hex of RS>:<ast>`, ast = prefix tokens joined by `,`:
        `.` seq, `|` alt, `?` opt, `+` plus, `$` eol, `a` any character, `c<hh>` character
        | `H<op>;<op>;…[!<hex text>:<ast>]*` a history of assignments to RS, FS, CONVFMT, IGNORECASE (harness/readio_h.c):
        the mode is the one `selRead` / `selReadBytes` of the model select after it
* FILE  `<name>=<hex of the file's bytes (UTF-8)>/<cut positions joined by ,>`   (name may be empty: stdin)
        kinds C, X, F, P, Z see the characters (bytes decoded as UTF-8; records printed as UTF-8), kinds B, Y, G, Q
        (getbline) see the bytes; for F, G (std.c over real files: one piece per file) and P, Q, Z (std.c + sio/tio over a
        pipe fed in the given byte pieces) the chunks the record reader receives are computed with the tio model
        (`stdStream` / `stdByteStream`, HawkModel/ReadIoStack.lean), so in.pos/len/eof are comparable there too.
* MODE may carry a program, `<mode>@<letter><k>` (nextfile, getline, a side stream with close(): see harness/readio_h.c);
        the FILE named `side` is the side stream, words `%a` / `%e` (ARGV entries that are no files) are skipped.
Output: `r<nr>:<fnr>:<filename>:<hex rec>:<pos>:<len>:<eof>` per record (`r0:<n>:side:…` for a side record, with the
        console's pos/len/eof), then `e<eos>:<pos>:<len>:<eof>`.
-/
namespace Hawk.Drv.ReadIo
open Hawk.ReadIo

/-! a small leftmost-longest matcher for the concrete RS patterns the check generates (driver only, not part of any proof) -/

inductive Re where
  | chr (c : Char)
  | seq (a b : Re)
  | alt (a b : Re)
  | opt (a : Re)
  | plus (a : Re)
  | eol
  | any
deriving Repr

def insertNat (x : Nat) (l : List Nat) : List Nat := if l.contains x then l else x :: l
def unionNat (a b : List Nat) : List Nat := a.foldr insertNat b

/-- closure of `acc` under `f`, expanding only the positions added in the previous round -/
def iter (f : Nat → List Nat) : Nat → List Nat → List Nat → List Nat
  | 0, _, acc => acc
  | fuel + 1, frontier, acc =>
    let new := ((frontier.flatMap f).filter fun x => !acc.contains x).eraseDups
    if new.isEmpty then acc else iter f fuel new (new ++ acc)

/-- all `j` such that `r` matches `t[i..j)` -/
def Re.ends (t : Array Char) : Re → Nat → List Nat
  | .chr c, i => if t[i]? = some c then [i + 1] else []
  | .seq a b, i => (a.ends t i).foldr (fun j acc => unionNat (b.ends t j) acc) []
  | .alt a b, i => unionNat (a.ends t i) (b.ends t i)
  | .opt a, i => insertNat i (a.ends t i)
  | .plus a, i => let s := a.ends t i; iter (a.ends t) t.size s s
  | .eol, i => if i = t.size then [i] else []
  | .any, i => if i < t.size then [i + 1] else []

/-- leftmost-longest match -/
def Re.matchAt (r : Re) (t : Array Char) : Nat → Nat → Option (Nat × Nat)
  | _, 0 => none
  | i, fuel + 1 =>
    match r.ends t i with
    | [] => if i < t.size then r.matchAt t (i + 1) fuel else none
    | e :: es => some (i, (es.foldl max e) - i)

def Re.matcher (r : Re) : Matcher := fun t => r.matchAt t.toArray 0 (t.length + 1)

def hexVal (c : Char) : Nat :=
  if '0' ≤ c ∧ c ≤ '9' then c.toNat - '0'.toNat
  else if 'a' ≤ c ∧ c ≤ 'f' then c.toNat - 'a'.toNat + 10
  else if 'A' ≤ c ∧ c ≤ 'F' then c.toNat - 'A'.toNat + 10 else 0

def unhexBytes : List Char → List Nat
  | a :: b :: r => (hexVal a * 16 + hexVal b) :: unhexBytes r
  | _ => []

/-- the bytes one by one as characters -/
def rawChars (bs : List Nat) : List Char := bs.map Char.ofNat

/-- UTF-8, sequences of 1 to 3 bytes; anything else is taken as a single byte (as the harness does) -/
partial def utf8Dec : List Nat → List Char
  | [] => []
  | a :: r =>
    match r with
    | b :: r2 =>
      if a / 32 == 6 && b / 64 == 2 then Char.ofNat ((a % 32) * 64 + b % 64) :: utf8Dec r2
      else match r2 with
        | c :: r3 =>
          if a / 16 == 14 && b / 64 == 2 && c / 64 == 2 then
            Char.ofNat ((a % 16) * 4096 + (b % 64) * 64 + c % 64) :: utf8Dec r3
          else Char.ofNat a :: utf8Dec r
        | [] => Char.ofNat a :: utf8Dec r
    | [] => [Char.ofNat a]

def unhex (h : List Char) : List Char := utf8Dec (unhexBytes h)

def hexDigit (n : Nat) : Char := if n < 10 then Char.ofNat (48 + n) else Char.ofNat (87 + n)
def hexByte (n : Nat) : List Char := [hexDigit (n / 16 % 16), hexDigit (n % 16)]
/-- one byte per character (byte kinds) -/
def hexRaw (l : List Char) : String := String.ofList (l.flatMap fun c => hexByte c.toNat)
/-- the characters as UTF-8 -/
def hex (l : List Char) : String :=
  String.ofList (l.flatMap fun c =>
    let n := c.toNat
    if n < 128 then hexByte n
    else if n < 2048 then hexByte (192 + n / 64) ++ hexByte (128 + n % 64)
    else hexByte (224 + n / 4096) ++ hexByte (128 + n / 64 % 64) ++ hexByte (128 + n % 64))

/-- parse a prefix-notation regex; returns the tree and the unread tokens -/
partial def parseRe : List String → Option (Re × List String)
  | [] => none
  | t :: r =>
    if t == "." then do let (a, r) ← parseRe r; let (b, r) ← parseRe r; pure (.seq a b, r)
    else if t == "|" then do let (a, r) ← parseRe r; let (b, r) ← parseRe r; pure (.alt a b, r)
    else if t == "?" then do let (a, r) ← parseRe r; pure (.opt a, r)
    else if t == "+" then do let (a, r) ← parseRe r; pure (.plus a, r)
    else if t == "$" then some (.eol, r)
    else if t == "a" then some (.any, r)
    else match t.toList with
      | 'c' :: h => match unhex h with
        | [c] => some (.chr c, r)
        | _ => none
      | _ => none

def parseMode (s : String) : Option Mode :=
  match s.toList with
  | ['D'] => some .dflt
  | 'S' :: h => match unhex h with
    | [c] => some (.single c)
    | _ => none
  | ['P', '0'] => some (.para false)
  | ['P', '1'] => some (.para true)
  | 'R' :: rest =>
    match (String.ofList rest).splitOn ":" with
    | [_, ast] => match parseRe (ast.splitOn ",") with
      | some (re, []) => some (.regex re.matcher)
      | _ => none
    | _ => none
  | _ => none

/-- the expression compiled with REG_ICASE -/
def Re.icase : Re → Re
  | .chr c => if c.toLower != c.toUpper then .alt (.chr c.toLower) (.chr c.toUpper) else .chr c
  | .seq a b => .seq a.icase b.icase
  | .alt a b => .alt a.icase b.icase
  | .opt a => .opt a.icase
  | .plus a => .plus a.icase
  | .eol => .eol
  | .any => .any

/-- a value of a history word (see harness/readio_h.c): its text under a CONVFMT -/
def parseVal (w : List Char) : Option Val :=
  match w with
  | ['n'] => some nilVal
  | 'd' :: rest =>
    match (String.ofList rest).splitOn "~" with
    | lit :: entries =>
      let tab : List (List Char × List Nat) := entries.filterMap fun e =>
        match e.splitOn "-" with
        | [f, t] => some (unhex f.toList, unhexBytes t.toList)
        | _ => none
      let look (f : List Char) : List Nat := match tab.find? (fun p => p.1 == f) with
        | some p => p.2
        | none => unhexBytes lit.toList
      some ⟨false, fun f => utf8Dec (look f), look⟩
    | [] => none
  | c :: h =>
    if c == 's' || c == 'b' || c == 'k' || c == 'i' then
      let bs := unhexBytes h
      some ⟨false, fun _ => utf8Dec bs, fun _ => bs⟩
    else none
  | [] => none

def parseOp (w : String) : Option SepOp :=
  match w.toList with
  | 'c' :: h => some (.convfmt (unhex h))
  | ['g', d] => some (.ignorecase (d == '1'))
  | ['R'] => some .sameRS
  | ['F'] => some .sameFS
  | 'r' :: v => (parseVal v).map .setRS
  | 'f' :: v => (parseVal v).map .setFS
  | _ => none

/-- `H<op>;<op>;…[!<hex text>:<ast>]*`: the mode the model's reader selects after the history -/
def parseHist (raw : Bool) (s : String) : Option Mode :=
  match (String.ofList (s.toList.drop 1)).splitOn "!" with
  | opsS :: tabS =>
    let tab : List (List Char × Re) := tabS.filterMap fun e =>
      match e.splitOn ":" with
      | [t, ast] => match parseRe (ast.splitOn ",") with
        | some (re, []) => some (unhex t.toList, re)
        | _ => none
      | _ => none
    let mk (src : List Char) (ic : Bool) : Matcher :=
      match tab.find? (fun p => p.1 == src) with
      | some p => (if ic then p.2.icase else p.2).matcher
      | none => fun _ => none
    match ((opsS.splitOn ";").filter (· != "")).mapM parseOp with
    | some ops =>
      let e := env0.run (fun _ => true) ops
      let sel : Sel Char := if raw then
          match selReadBytes e with
          | .dflt => .dflt
          | .para => .para
          | .single b => .single (Char.ofNat b)
          | .regex src ic => .regex src ic
          | .crash => .crash
        else selRead e
      sel.toMode mk false
    | none => none
  | [] => none

/-- cut `s` at the given (increasing) positions -/
def chunkAt (s : List Char) (cuts : List Nat) : Stream :=
  let rec go (s : List Char) (off : Nat) : List Nat → Stream
    | [] => if s.isEmpty then [] else [s]
    | c :: cs => if c ≤ off then go s off cs else
        let k := c - off
        if k ≥ s.length then (if s.isEmpty then [] else [s]) else s.take k :: go (s.drop k) c cs
  go s 0 cuts

def parseFile (w : String) : Option (String × List Nat × List Nat) :=
  match w.splitOn "=" with
  | [name, rest] => match rest.splitOn "/" with
    | [h, cuts] => some (name, unhexBytes h.toList, (cuts.splitOn ",").filterMap String.toNat?)
    | _ => none
  | _ => none

def b (x : Bool) : String := if x then "1" else "0"

def showSt (st : InState) : String :=
  -- the C's pos after a size_t wrap is any value ≥ len; canonical form: min pos len
  s!"{min st.pos st.len}:{st.len}:{b st.eof}"

/-- the program run by the harness (see harness/readio_h.c): letter and its number -/
structure Prog where
  letter : Char := ' '
  k : Nat := 1

def parseProg (s : String) : Prog :=
  match s.toList with
  | [] => {}
  | c :: r => { letter := c, k := match (String.ofList r).toNat? with | some n => if n == 0 then 1 else n | none => 1 }

/-- state of the simulated program: the console, the side stream (`getline y < "side"`), its record counter -/
structure PS where
  con : Console
  sideSt : InState := {}
  sideCur : Stream := []
  sideFull : Stream := []
  sn : Nat := 0
  acc : List String := []

def mkConsole (files : List (String × Stream)) : Console :=
  match files with
  | [("", cs)] => openConsole cs []
  | fs => openConsole [] fs

/-- run the program, printing the console's read-buffer state after every print statement -/
partial def runProg (hx : List Char → String) (mode : Mode) (pg : Prog) (ps : PS) : List String :=
  let pr (c : Console) (r : Record) : String := s!"r{c.nr}:{c.fnr}:{c.filename}:{hx r}:{showSt c.st}"
  -- one `getline y < "side"`: prints the record if there is one
  let sideRead (ps : PS) : PS :=
    match readRecord mode ps.sideSt ps.sideCur with
    | (some y, st', cur') =>
      { ps with sideSt := st', sideCur := cur', sn := ps.sn + 1,
                acc := s!"r0:{ps.sn + 1}:side:{hx y}:{showSt ps.con.st}" :: ps.acc }
    | (none, st', cur') => { ps with sideSt := st', sideCur := cur' }
  -- END block / end of the BEGIN loop
  let rec drain (ps : PS) (fuel : Nat) : PS :=
    match fuel with
    | 0 => ps
    | fuel + 1 =>
      match readRecord mode ps.sideSt ps.sideCur with
      | (some _, _, _) => drain (sideRead ps) fuel
      | (none, _, _) => ps
  let finish (ps : PS) : List String :=
    let ps := if pg.letter == 'S' || pg.letter == 'K' || pg.letter == 'L' then drain ps ((pending ps.sideSt ps.sideCur).length + 1) else ps
    (s!"e{b ps.con.eos}:{showSt ps.con.st}" :: ps.acc).reverse
  -- the `nextfile` statement; `none`: no further stream, the main loop ends
  let nextf (c : Console) : Option Console × Console :=
    match nextFile c with
    | some c2 => (some c2, c2)
    | none => (none, { c with eos := true })
  match readRecordConsole mode ps.con with
  | (none, con') => finish { ps with con := con' }
  | (some r, con') =>
    if ¬ (con'.pendingLen < ps.con.pendingLen) then ("HANG" :: pr con' r :: ps.acc).reverse else
    let ps := { ps with con := con', acc := pr con' r :: ps.acc }
    -- a plain `getline` / `getline v` from the console: one more call of readRecordConsole
    let getl (ps : PS) : PS :=
      match readRecordConsole mode ps.con with
      | (some r2, c2) => { ps with con := c2, acc := pr c2 r2 :: ps.acc }
      | (none, c2) => { ps with con := c2 }
    match pg.letter with
    | 'N' =>
      if ps.con.fnr == pg.k then
        match nextf ps.con with
        | (some _, c2) => runProg hx mode pg { ps with con := c2 }
        | (none, c2) => finish { ps with con := c2 }
      else runProg hx mode pg ps
    | 'G' | 'V' => runProg hx mode pg (if ps.con.nr % pg.k == 0 then getl ps else ps)
    | 'M' =>
      let ps := if ps.con.nr % 2 == 0 then getl ps else ps
      if ps.con.fnr ≥ pg.k then
        match nextf ps.con with
        | (some _, c2) => runProg hx mode pg { ps with con := c2 }
        | (none, c2) => finish { ps with con := c2 }
      else runProg hx mode pg ps
    | 'S' | 'K' | 'L' => runProg hx mode pg (if ps.con.nr % pg.k == 0 then sideRead ps else ps)
    | 'C' | 'R' =>
      let ps := sideRead ps
      let ps := if ps.con.nr % pg.k == 0 then { ps with sideSt := {}, sideCur := ps.sideFull, sn := 0 } else ps
      runProg hx mode pg ps
    | _ => runProg hx mode pg ps

/-- the files as streams of chunks -/
def runCaseS (hx : List Char → String) (mode : Mode) (pg : Prog) (fs : List (String × Stream)) : String :=
  let side := match fs.find? (fun f => f.1 == "side") with | some f => f.2 | none => []
  let cons := fs.filter fun f => f.1 != "side"
  " ".intercalate (runProg hx mode pg { con := mkConsole cons, sideCur := side, sideFull := side })

def runCase (hx : List Char → String) (mode : Mode) (pg : Prog) (files : List (String × List Char × List Nat)) : String :=
  runCaseS hx mode pg (files.map fun (n, s, cuts) => (n, chunkAt s cuts))

/-- the bytes of a file in the pieces in which `read(2)` delivers them: cut at the given byte positions -/
def bytePieces (bs : List Nat) (cuts : List Nat) : List (List UInt8) :=
  (chunkAt (rawChars bs) cuts).map fun c => c.map fun ch => ch.toNat.toUInt8

/-- std kinds: the chunks the record reader receives are those `hawk_tio_readuchars` / `hawk_tio_readbchars` return (HawkModel/ReadIoStack.lean);
`piped` tells which file arrives through the pipe in the given pieces, the others are real files (one piece, cut by tio's room) -/
def stdFiles (raw : Bool) (piped : String → Bool) (bf : List (String × List Nat × List Nat)) : List (String × Stream) :=
  bf.map fun (n, bs, cuts) =>
    let pieces := bytePieces bs (if piped n then cuts else [])
    (n, if raw then stdByteStream pieces else stdStream pieces)

def cutsOfMask (n mask : Nat) : List Nat :=
  (List.range (n - 1)).filterMap fun k => if mask.testBit k then some (k + 1) else none

/-- search the prefixes of `s` for a witness that the matcher is not stable.  With `M a = m (s.take a)` it is enough to
compare neighbours: a forward violation (`M a` interior to `a`, some later `M c` different) shows at `c = a + 1` or
propagates; a backward one (`M c` interior to some `a < c` with `M a` different) shows at `a = c - 1` or propagates. -/
def witness (m : Matcher) (s : List Char) : String :=
  let n := s.length
  let ms := (List.range (n + 1)).map fun a => m (s.take a)
  let arr := ms.toArray
  let bad := (List.range n).find? fun a =>
    match arr[a]?, arr[a + 1]? with
    | some ma, some mc =>
      (match ma with
        | some (i, l) => (i + l < a) && mc != some (i, l)
        | none => false) ||
      (match mc with
        | some (i, l) => (i + l < a) && ma != some (i, l)
        | none => false)
    | _, _ => false
  match bad with
  | some a => s!"unstable t={hex (s.take a)} tu={hex (s.take (a + 1))} m(t)={repr (m (s.take a))} m(tu)={repr (m (s.take (a + 1)))}"
  | none => "stable-on-prefixes"

def step (_ : Unit) (line : String) : Unit × String :=
  match words line with
  | kind :: modeProg :: fileWs0 =>
    let (modeS, pg) := match modeProg.splitOn "@" with
      | [m, p] => (m, parseProg p)
      | _ => (modeProg, ({} : Prog))
    -- `%a` (an assignment in ARGV) and `%e` (an empty ARGV entry) are no files
    let fileWs := fileWs0.filter fun w => !w.startsWith "%"
    -- byte kinds (getbline) see the bytes, the others the decoded characters
    let raw := kind == "B" || kind == "Y" || kind == "G" || kind == "Q"
    match (if modeS.startsWith "H" then parseHist raw modeS else parseMode modeS), fileWs.mapM parseFile with
    | some mode, some bfiles =>
      let hx := if raw then hexRaw else hex
      -- below the std.c console handler the chunking is sio's: the model is run without cuts
      let nocuts := kind == "F" || kind == "G" || kind == "P" || kind == "Q" || kind == "Z"
      let files := bfiles.map fun (n, bs, cuts) => (n, if raw then rawChars bs else utf8Dec bs, if nocuts then [] else cuts)
      if kind == "U" then
        -- bytes that are not UTF-8: what the decoder makes of them is not modelled; the check compares the real code with itself
        match bfiles with
        | (_, bs, _) :: _ => ((), "\n".intercalate ((List.range (2 ^ (bs.length - 1))).map fun mask => s!"m{mask} -"))
        | _ => ((), "bad-case")
      else if kind == "T" then ((), "-")
      else if kind == "X" || kind == "Y" then
        match files with
        | (name, s, _) :: more =>
          let n := s.length
          let outs := (List.range (2 ^ (n - 1))).map fun mask =>
            s!"m{mask} " ++ runCase hx mode pg ((name, s, cutsOfMask n mask) :: more)
          ((), "\n".intercalate outs)
        | _ => ((), "bad-case")
      else if kind == "Z" then
        match bfiles with
        | (name, bs, _) :: more =>
          let outs := (List.range (2 ^ (bs.length - 1))).map fun mask =>
            s!"m{mask} " ++ runCaseS hx mode pg (stdFiles raw (· == name) ((name, bs, cutsOfMask bs.length mask) :: more))
          ((), "\n".intercalate outs)
        | _ => ((), "bad-case")
      else if kind == "P" || kind == "Q" then
        -- the single console stream is standard input, fed through the pipe in the given pieces
        let cons := match bfiles.find? (fun f => f.1 != "side") with | some f => f.1 | none => ""
        ((), runCaseS hx mode pg (stdFiles raw (· == cons) bfiles))
      else if kind == "F" || kind == "G" then
        ((), runCaseS hx mode pg (stdFiles raw (· == "-") bfiles))
      else if kind == "W" then
        match mode, files with
        | .regex m, [(_, s, _)] => ((), witness m s)
        | _, _ => ((), "bad-case")
      else ((), runCase hx mode pg files)
    | _, _ => ((), "bad-case")
  | _ => ((), "bad-case")

def main : IO Unit := do
  forLines (← IO.getStdin) Unit () step

end Hawk.Drv.ReadIo
