import HawkModel.Rec
import HawkModel.Drv.Util
/-!
driver for the rec area: one op per line in, canonical dump of the whole record state out.

Protocol (arguments that are texts are hex-encoded UTF-8, `-` = empty):
  new                     fresh runtime
  set0 H | self0 ($0 = $0) | setf I H | setnf N | sub P R | gsub P R | ofs H | fs H | ofmt H | strip 0/1
  setnfv K H N | getlinenf H N | incnf | decnf | postinc | addnf K | refcall J | refcallnf
  ofsv K H T | fsv K H T | ic 0/1 | convfmt H | setfnum I F T | mapto V | fsbad H | getlinef I H | apiself0
  subf I P R | gsubf I P R
  getline H | getline (at EOF) | next H (main-loop record read) | read J | readnf
The regular-expression matcher and the literal sub/gsub below exist only so that the driver
can feed concrete values to the model; they are not part of any proof.
-/
namespace Hawk.Drv.Rec
open Hawk.Rec

/-! ### text helpers -/

def hexVal (c : Char) : Nat :=
  if '0' ≤ c ∧ c ≤ '9' then c.toNat - '0'.toNat
  else if 'a' ≤ c ∧ c ≤ 'f' then c.toNat - 'a'.toNat + 10
  else if 'A' ≤ c ∧ c ≤ 'F' then c.toNat - 'A'.toNat + 10 else 0

partial def hexBytes : List Char → List UInt8
  | a :: b :: r => UInt8.ofNat (hexVal a * 16 + hexVal b) :: hexBytes r
  | _ => []

def unhex (s : String) : Str :=
  if s == "-" then [] else
  let ba := ByteArray.mk (hexBytes s.toList).toArray
  match String.fromUTF8? ba with
  | some t => t.toList
  | none => []

def hexDigit (n : Nat) : Char := if n < 10 then Char.ofNat (48 + n) else Char.ofNat (55 + n)

def escChar (c : Char) : String :=
  if c.isAlphanum then c.toString
  else
    let n := c.toNat
    if n < 256 then String.ofList ['%', hexDigit (n / 16), hexDigit (n % 16)]
    else String.ofList ['%', 'u', hexDigit (n / 4096 % 16), hexDigit (n / 256 % 16), hexDigit (n / 16 % 16), hexDigit (n % 16)]

def esc (s : Str) : String := String.join (s.map escChar)

/-! ### a tiny regular-expression matcher (sequence of atoms with optional `+ * ?`) -/

inductive Quant where | one | opt | star | plus
deriving DecidableEq

structure Item where
  pred : Char → Bool
  q : Quant

partial def parseClass (ic neg : Bool) (acc : List (Char × Char)) : List Char → (Char → Bool) × List Char
  | ']' :: r =>
    let inSet := fun (c : Char) => acc.any fun (a, b) => a ≤ c ∧ c ≤ b
    ((fun c => (inSet c || (ic && (inSet c.toUpper || inSet c.toLower))) != neg), r)
  | a :: '-' :: b :: r => if b == ']' then parseClass ic neg ((a, a) :: ('-', '-') :: acc) (b :: r) else parseClass ic neg ((a, b) :: acc) r
  | a :: r => parseClass ic neg ((a, a) :: acc) r
  | [] => ((fun _ => false), [])

partial def parseRe (ic : Bool) : List Char → List Item
  | [] => []
  | l =>
    let lit := fun (c : Char) => fun (x : Char) => if ic then x.toLower == c.toLower else x == c
    let (pred, rest) : (Char → Bool) × List Char :=
      match l with
      | '[' :: '^' :: r => parseClass ic true [] r
      | '[' :: r => parseClass ic false [] r
      | '\\' :: c :: r => (lit c, r)
      | '.' :: r => ((fun _ => true), r)
      | c :: r => (lit c, r)
      | [] => ((fun _ => false), [])
    match rest with
    | '+' :: r => { pred := pred, q := .plus } :: parseRe ic r
    | '*' :: r => { pred := pred, q := .star } :: parseRe ic r
    | '?' :: r => { pred := pred, q := .opt } :: parseRe ic r
    | r => { pred := pred, q := .one } :: parseRe ic r

def dedup (l : List Nat) : List Nat := l.foldl (fun acc x => if acc.contains x then acc else acc ++ [x]) []

/-- all positions reachable from `p` by consuming characters satisfying `pred` (including p) -/
def runFrom (pred : Char → Bool) (s : Array Char) (p : Nat) : List Nat :=
  let rec go (fuel : Nat) (p : Nat) (acc : List Nat) : List Nat :=
    match fuel with
    | 0 => acc
    | fuel + 1 => if h : p < s.size then (if pred s[p] then go fuel (p + 1) (acc ++ [p + 1]) else acc) else acc
  go (s.size + 1) p [p]

def stepItem (it : Item) (s : Array Char) (ps : List Nat) : List Nat :=
  let one (ps : List Nat) : List Nat := ps.filterMap fun p => if h : p < s.size then (if it.pred s[p] then some (p + 1) else none) else none
  match it.q with
  | .one => one ps
  | .opt => dedup (ps ++ one ps)
  | .star => dedup (ps.flatMap (runFrom it.pred s))
  | .plus => dedup ((one ps).flatMap (runFrom it.pred s))

def matchAt (items : List Item) (s : Array Char) (p : Nat) : Option Nat :=
  let ends := items.foldl (fun ps it => stepItem it s ps) [p]
  ends.foldl (fun (b : Option Nat) e => match b with | none => some e | some x => some (max x e)) none

/-- leftmost-longest match of `fs` in `line`, search starting at `from` -/
def rexMatch : Matcher := fun ic fs line start =>
  let items := parseRe ic fs
  let s := line.toArray
  let rec go (fuel : Nat) (p : Nat) : Option (Nat × Nat) :=
    match fuel with
    | 0 => none
    | fuel + 1 =>
      if p > s.size then none else
      match matchAt items s p with
      | some e => some (p, e - p)
      | none => go fuel (p + 1)
  go (s.size + 2) start

/-! ### literal sub/gsub on $0 (pattern without metacharacters, replacement without & and \) -/

def isPrefix : List Char → List Char → Bool
  | [], _ => true
  | _, [] => false
  | a :: as, b :: bs => a == b && isPrefix as bs

/-- returns (result, number of substitutions) ; `max` = 1 for sub, 0 = unlimited for gsub -/
def litSub (pat repl : Str) (limit : Nat) (s : Str) : Str × Nat :=
  let rec go (fuel : Nat) (s : Str) (cnt : Nat) (acc : Str) : Str × Nat :=
    match fuel with
    | 0 => (acc ++ s, cnt)
    | fuel + 1 =>
      match s with
      | [] => (acc, cnt)
      | c :: r =>
        if (limit = 0 ∨ cnt < limit) ∧ isPrefix pat s then go fuel (s.drop pat.length) (cnt + 1) (acc ++ repl)
        else go fuel r cnt (acc ++ [c])
  if pat.isEmpty then (s, 0) else go (s.length + 1) s 0 []

/-! ### state dump -/

def showFld (inw : Bool) (f : Fld) : String :=
  (if f.len == 0 then "-" else s!"{if inw then "w" else "l"}{f.off}") ++ s!":{f.len}:{esc f.text}"

def dump (st : St) : String :=
  let r := st.r
  let n := r.flds.length
  let idx := List.range (n + 2)
  let F := joinWith "|" (r.flds.map (showFld r.inw))
  let R := joinWith "|" (idx.map fun i => esc (readRef r i))
  let B := String.join (idx.map fun i => if readRefBool r i then "1" else "0")
  let k := r.nf.toNat
  let v := String.join ((List.range (k + 1)).map fun i => "[" ++ esc (readVal r (i + 1)) ++ "]")
  let w := String.join ((List.range (k + 1)).map fun i => "[" ++ esc (readRef r (i + 1)) ++ "]")
  s!"nf={r.nf} n={n} L={esc r.line} D={esc r.d0} F={F} R={R} B={B} ofs={esc st.e.ofs} Z={esc (readVal r 0)} v={v} r={w}"

structure DSt where
  st : St := {}
  dead : Bool := false

def ok (st : St) (extra : String := "") : DSt × String := ({ st := st }, dump st ++ extra)

/-- every way of storing the integer `n` into NF (`NF = v`, `++NF`, `NF += k`, `getline NF`) -/
def storeNF (d : DSt) (n : Int) (extra : String := "") : DSt × String :=
  let st := d.st
  let st' := Hawk.Rec.step rexMatch st (.setnf n)
  if n < 0 then ({ d with dead := true }, "ERR einval " ++ dump st')
  else if growFails st.r n.toNat then ({ st := st', dead := true }, "ERR enomem " ++ dump st')
  else ok st' extra

/-- sub/gsub on $0 with a literal pattern; `&` in the replacement stands for the matched text -/
def doSub (d : DSt) (limit : Nat) (p r : String) : DSt × String :=
  let st := d.st
  let repl := (unhex r).flatMap fun c => if c == '&' then unhex p else [c]
  let (res, cnt) := litSub (unhex p) repl limit st.r.line
  if cnt > 0 then ok (Hawk.Rec.step rexMatch st (.rewrite res)) s!" c={cnt}" else ok st " c=0"

def step (d : DSt) (line : String) : DSt × String :=
  let ws := words line
  match ws with
  | ["new"] => ({}, "ok")
  | _ =>
  if d.dead then (d, "SKIP") else
  let st := d.st
  let m := rexMatch
  match ws with
  | ["set0", h] => ok (Hawk.Rec.step m st (.set0 (unhex h)))
  | ["self0"] => ok (Hawk.Rec.step m st (.set0 (readVal st.r 0)))   -- $0 = $0
  | ["setf", i, h] => match i.toInt? with
    | some i =>
      if i < 0 then ({ d with dead := true }, "ERR eposidx " ++ dump st)
      else
        let st' := Hawk.Rec.step m st (.setf i.toNat (unhex h))
        if i ≠ 0 ∧ growFails st.r i.toNat then ({ st := st', dead := true }, "ERR enomem " ++ dump st')
        else ok st'
    | none => (d, "bad-op")
  | ["setnf", n] => match n.toInt? with
    | some n => storeNF d n
    | none => (d, "bad-op")
  -- NF = <string | float | unset variable>; the last word is the integer hawk_rtx_valtoint makes of it
  | ["setnfv", _, _, n] => match n.toInt? with
    | some n => storeNF d n
    | none => (d, "bad-op")
  | ["getlinenf", _, n] => match n.toInt? with      -- getline NF
    | some n => storeNF d n " c=1"
    | none => (d, "bad-op")
  | ["incnf"] => storeNF d (readNF st.r + 1)
  | ["decnf"] => storeNF d (readNF st.r - 1)
  | ["postinc"] => storeNF d (readNF st.r + 1) s!" c={readNF st.r}"
  | ["addnf", k] => match k.toInt? with
    | some k => storeNF d (readNF st.r + k)
    | none => (d, "bad-op")
  -- `$j` / NF passed to an `&` parameter of a function that only reads it: function f(&x) { return x "!" }
  | ["refcall", j] => match j.toNat? with
    | some j => let st' := Hawk.Rec.step m st (.read j); ok st' s!" y={esc (readVal st'.r j ++ ['!'])}"
    | none => (d, "bad-op")
  | ["refcallnf"] => let st' := Hawk.Rec.step m st .readnf; ok st' s!" y={readNF st'.r}%21"
  | ["sub", p, r] => doSub d 1 p r
  | ["gsub", p, r] => doSub d 0 p r
  | ["ofs", h] => ok (Hawk.Rec.step m st (.ofs (unhex h)))
  | ["fs", h] => ok (Hawk.Rec.step m st (.fs (some (unhex h))))
  -- OFS / FS = a value that is not a string (n nil, i integer, f float, b byte string, c character);
  -- the last word is the string form of the value (conversion is not part of the record model)
  | ["ofsv", _, _, t] => ok (Hawk.Rec.step m st (.ofs (unhex t)))
  | ["fsv", k, _, t] => ok (Hawk.Rec.step m st (.fs (if k == "n" then none else some (unhex t))))
  | ["ic", b] => ok (Hawk.Rec.step m st (.ic (b == "1")))
  | ["convfmt", _] => ok st
  | ["setfnum", i, _, t] => match i.toNat? with            -- $i = <float>; t = its string form (CONVFMT, or %d for a whole number)
    | some i => ok (Hawk.Rec.step m st (.setf i (unhex t)))
    | none => (d, "bad-op")
  | ["mapto", _] => ({ d with dead := true }, "ERR enonsca " ++ dump st)   -- OFS/FS/NF = a map: refused
  | ["fsbad", _] => ({ d with dead := true }, "ERR erex " ++ dump st)      -- FS = an invalid regular expression
  | ["getlinef", i, h] => match i.toNat? with              -- getline $i
    | some i => ok (Hawk.Rec.step m st (.setf i (unhex h))) " c=1"
    | none => (d, "bad-op")
  | ["apiself0"] => ok (Hawk.Rec.step m st (.set0 st.r.line))   -- hawk_rtx_setrec(rtx, 0, <inrec.line itself>)
  | [op, i, p, r] =>
    if op == "subf" || op == "gsubf" then                  -- sub/gsub(p, r, $i): through a positional reference
      match i.toNat? with
      | some i =>
        let repl := (unhex r).flatMap fun c => if c == '&' then unhex p else [c]
        let (res, cnt) := litSub (unhex p) repl (if op == "subf" then 1 else 0) (readVal st.r i)
        if cnt > 0 then ok (Hawk.Rec.step m st (.setf i res)) s!" c={cnt}" else ok st " c=0"
      | none => (d, "bad-op")
    else (d, "bad-op")
  | ["ofmt", h] => ok (Hawk.Rec.step m st (.ofmt (unhex h)))
  | ["strip", b] => ok (Hawk.Rec.step m st (.strip (b == "1")))
  | ["getline", h] => ok (Hawk.Rec.step m st (.getline (unhex h))) " c=1"
  | ["getline"] => ok st " c=0"
  | ["next", h] => ok (Hawk.Rec.step m st (.getline (unhex h)))
  | ["read", j] => match j.toNat? with
    | some j => let st' := Hawk.Rec.step m st (.read j); ok st' s!" x={esc (readVal st'.r j)} y={esc (readRef st'.r j)}"
    | none => (d, "bad-op")
  | ["readnf"] => let st' := Hawk.Rec.step m st .readnf; ok st' s!" x={readNF st'.r}"
  | _ => (d, "bad-op")

def main : IO Unit := do
  forLines (← IO.getStdin) DSt {} step

end Hawk.Drv.Rec
