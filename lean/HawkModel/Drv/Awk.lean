import HawkModel.Awk
import HawkModel.Drv.Util
/-!
`hawkdrv awk`: one case per input line, one result line per case.

Input  : an S-expression `(case <fuel> <prog> (files (file #name #content)…) (stdin #content) (extra (file …)…))`
         emitted by `vlib/props/c02.py` (strings are `#` + hex of the bytes; identifiers are bare atoms).
Output : `OK <status> #<stdout hex> <name>=#<hex> …`  |  `ERR fuel`  |  `ERR outside <message>`  |  `ERR parse <message>`
Not part of any proof.
-/
namespace Hawk.Drv.Awk
open Hawk.Awk

inductive Sexp where
  | atom (s : String)
  | list (l : List Sexp)
  deriving Inhabited

partial def tokenize (cs : List Char) (cur : List Char) (acc : Array String) : Array String :=
  let flush (acc : Array String) := if cur.isEmpty then acc else acc.push (String.ofList cur.reverse)
  match cs with
  | [] => flush acc
  | c :: t =>
    if c == '(' || c == ')' then tokenize t [] ((flush acc).push (String.singleton c))
    else if c == ' ' || c == '\n' || c == '\r' || c == '\t' then tokenize t [] (flush acc)
    else tokenize t (c :: cur) acc

partial def parseSexp (toks : Array String) (i : Nat) : Except String (Sexp × Nat) :=
  if h : i < toks.size then
    let t := toks[i]
    if t == "(" then
      let rec loop (j : Nat) (acc : Array Sexp) : Except String (Sexp × Nat) :=
        if h2 : j < toks.size then
          if toks[j] == ")" then .ok (.list acc.toList, j + 1)
          else do
            let (x, j') ← parseSexp toks j
            loop j' (acc.push x)
        else .error "unbalanced ("
      loop (i + 1) #[]
    else if t == ")" then .error "unexpected )"
    else .ok (.atom t, i + 1)
  else .error "unexpected end"

def hexVal (c : Char) : Nat :=
  if c.isDigit then c.toNat - 48 else if 'a' ≤ c && c ≤ 'f' then c.toNat - 87 else c.toNat - 55

partial def unhexL : List Char → List Char
  | a :: b :: t => Char.ofNat (hexVal a * 16 + hexVal b) :: unhexL t
  | _ => []

def unhex (s : String) : Except String String :=
  match s.toList with
  | '#' :: t => .ok (String.ofList (unhexL t))
  | _ => .error s!"expected #hex, got {s}"

def hexDigitC (n : Nat) : Char := if n < 10 then Char.ofNat (48 + n) else Char.ofNat (87 + n)

def hex (s : String) : String :=
  String.ofList ('#' :: s.toList.flatMap fun c => [hexDigitC (c.toNat / 16 % 16), hexDigitC (c.toNat % 16)])

def asStr : Sexp → Except String String
  | .atom s => unhex s
  | _ => .error "expected #hex atom"

def asAtom : Sexp → Except String String
  | .atom s => .ok s
  | _ => .error "expected atom"

def asInt : Sexp → Except String Int
  | .atom s => match s.toInt? with
    | some i => .ok i
    | none => .error s!"expected int, got {s}"
  | _ => .error "expected int"

def asBool (x : Sexp) : Except String Bool := do
  let i ← asInt x
  pure (i != 0)

def binOp : String → Except String BinOp
  | "add" => .ok .add | "sub" => .ok .sub | "mul" => .ok .mul | "div" => .ok .div
  | "mod" => .ok .mod | "pow" => .ok .pow
  | s => .error s!"binop {s}"

def aOp : String → Except String AOp
  | "set" => .ok .set | "add" => .ok .add | "sub" => .ok .sub | "mul" => .ok .mul | "div" => .ok .div
  | "mod" => .ok .mod | "pow" => .ok .pow
  | s => .error s!"aop {s}"

def cmpOp : String → Except String CmpOp
  | "lt" => .ok .lt | "le" => .ok .le | "eq" => .ok .eq | "ne" => .ok .ne | "gt" => .ok .gt | "ge" => .ok .ge
  | s => .error s!"cmpop {s}"

def builtinOf : String → Except String Builtin
  | "length" => .ok .length | "substr" => .ok .substr | "index" => .ok .index | "tolower" => .ok .tolower
  | "toupper" => .ok .toupper | "sprintf" => .ok .sprintf | "int" => .ok .int
  | s => .error s!"builtin {s}"

def quantOf : String → Except String Quant
  | "one" => .ok .one | "star" => .ok .star | "plus" => .ok .plus | "opt" => .ok .opt
  | s => .error s!"quant {s}"

def atomOf : Sexp → Except String Atom
  | .atom "any" => .ok .any
  | .list [.atom "ch", c] => do
    let s ← asStr c
    match s.toList with
    | [ch] => .ok (.ch ch)
    | _ => .error "ch needs one char"
  | .list [.atom "cls", n, cs] => do
    let neg ← asBool n
    let s ← asStr cs
    .ok (.cls neg s.toList)
  | _ => .error "bad regex atom"

def regexOf : Sexp → Except String Regex
  | .list (.atom "re" :: l :: r :: items) => do
    let al ← asBool l
    let ar ← asBool r
    let its ← items.mapM fun it =>
      match it with
      | .list [.atom "item", a, .atom q] => do
        let a' ← atomOf a
        let q' ← quantOf q
        pure (a', q')
      | _ => .error "bad regex item"
    .ok { anchorL := al, items := its, anchorR := ar }
  | _ => .error "bad regex"

partial def exprOf : Sexp → Except String Expr
  | .list [.atom "num", n] => do .ok (.num (← asInt n))
  | .list [.atom "str", s] => do .ok (.str (← asStr s))
  | .list [.atom "var", .atom x] => .ok (.var x)
  | .list [.atom "field", e] => do .ok (.field (← exprOf e))
  | .list (.atom "idx" :: .atom a :: subs) => do .ok (.idx a (← subs.mapM exprOf))
  | .list (.atom "in" :: .atom a :: subs) => do .ok (.isIn (← subs.mapM exprOf) a)
  | .list [.atom "assign", .atom op, lv, e] => do .ok (.assign (← aOp op) (← exprOf lv) (← exprOf e))
  | .list [.atom "cond", c, t, f] => do .ok (.cond (← exprOf c) (← exprOf t) (← exprOf f))
  | .list [.atom "and", a, b] => do .ok (.and (← exprOf a) (← exprOf b))
  | .list [.atom "or", a, b] => do .ok (.or (← exprOf a) (← exprOf b))
  | .list [.atom "not", a] => do .ok (.not (← exprOf a))
  | .list [.atom "bin", .atom op, a, b] => do .ok (.bin (← binOp op) (← exprOf a) (← exprOf b))
  | .list [.atom "neg", a] => do .ok (.neg (← exprOf a))
  | .list [.atom "pos", a] => do .ok (.pos (← exprOf a))
  | .list [.atom "cmp", .atom op, a, b] => do .ok (.cmp (← cmpOp op) (← exprOf a) (← exprOf b))
  | .list [.atom "cat", a, b] => do .ok (.cat (← exprOf a) (← exprOf b))
  | .list [.atom "incdec", .atom pp, .atom id, lv] => do
    .ok (.incdec (pp == "pre") (id == "inc") (← exprOf lv))
  | .list [.atom "match", n, e, re] => do .ok (.matchRe (← asBool n) (← exprOf e) (← regexOf re))
  | .list [.atom "retest", re] => do .ok (.reTest (← regexOf re))
  | .list (.atom "call" :: .atom f :: args) => do .ok (.call f (← args.mapM exprOf))
  | .list (.atom "builtin" :: .atom b :: args) => do .ok (.builtin (← builtinOf b) (← args.mapM exprOf))
  | .list [.atom "split", s, .atom arr] => do .ok (.split (← exprOf s) arr none)
  | .list [.atom "split", s, .atom arr, sep] => do .ok (.split (← exprOf s) arr (some (← exprOf sep)))
  | .list [.atom "subst", g, pat, repl] => do .ok (.subst (← asBool g) (← asStr pat) (← exprOf repl) none)
  | .list [.atom "subst", g, pat, repl, tgt] => do
    .ok (.subst (← asBool g) (← asStr pat) (← exprOf repl) (some (← exprOf tgt)))
  | .list [.atom "substre", g, re, repl] => do .ok (.substRe (← asBool g) (← regexOf re) (← exprOf repl) none)
  | .list [.atom "substre", g, re, repl, tgt] => do
    .ok (.substRe (← asBool g) (← regexOf re) (← exprOf repl) (some (← exprOf tgt)))
  | .list [.atom "matchfn", e, re] => do .ok (.matchFn (← exprOf e) (← regexOf re))
  | .list [.atom "getline", lv, file] => do
    let lv' ← (match lv with
      | .atom "-" => pure none
      | x => do pure (some (← exprOf x)))
    let f' ← (match file with
      | .atom "-" => pure none
      | x => do pure (some (← exprOf x)))
    .ok (.getline lv' f')
  | .list [.atom "getlinecmd", lv, cmd] => do
    let lv' ← (match lv with
      | .atom "-" => pure none
      | x => do pure (some (← exprOf x)))
    .ok (.getlineCmd lv' (← exprOf cmd))
  | .list [.atom "close", e] => do .ok (.close (← exprOf e))
  | .list (.atom h :: _) => .error s!"bad expr {h}"
  | _ => .error "bad expr"

def optExpr : Sexp → Except String (Option Expr)
  | .atom "-" => .ok none
  | x => do .ok (some (← exprOf x))

def redirOf : Sexp → Except String Redir
  | .atom "-" => .ok .none
  | .list [.atom "trunc", e] => do .ok (.trunc (← exprOf e))
  | .list [.atom "append", e] => do .ok (.append (← exprOf e))
  | .list [.atom "pipe", e] => do .ok (.pipe (← exprOf e))
  | _ => .error "bad redirection"

mutual
partial def stmtOf : Sexp → Except String Stmt
  | .list [.atom "expr", e] => do .ok (.expr (← exprOf e))
  | .list (.atom "print" :: r :: args) => do .ok (.print (← args.mapM exprOf) (← redirOf r))
  | .list (.atom "printf" :: r :: args) => do .ok (.printf (← args.mapM exprOf) (← redirOf r))
  | .list [.atom "if", c, t, e] => do .ok (.ifElse (← exprOf c) (← blkOf t) (← blkOf e))
  | .list [.atom "while", c, b] => do .ok (.while (← exprOf c) (← blkOf b))
  | .list [.atom "do", b, c] => do .ok (.doWhile (← blkOf b) (← exprOf c))
  | .list [.atom "for", i, c, st, b] => do .ok (.for (← optExpr i) (← optExpr c) (← optExpr st) (← blkOf b))
  | .list [.atom "forin", .atom v, .atom a, b] => do .ok (.forIn v a (← blkOf b))
  | .atom "break" => .ok .break
  | .atom "continue" => .ok .continue
  | .atom "next" => .ok .next
  | .list [.atom "exit", e] => do .ok (.exit (← optExpr e))
  | .list [.atom "return", e] => do .ok (.ret (← optExpr e))
  | .list (.atom "delete" :: .atom a :: subs) => do .ok (.delete a (← subs.mapM exprOf))
  | .list [.atom "delall", .atom a] => .ok (.deleteAll a)
  | .list (.atom "block" :: ss) => do .ok (.block (← ss.mapM stmtOf))
  | .list (.atom h :: _) => .error s!"bad stmt {h}"
  | _ => .error "bad stmt"

partial def blkOf : Sexp → Except String (List Stmt)
  | .list (.atom "blk" :: ss) => ss.mapM stmtOf
  | _ => .error "bad block"
end

def patOf : Sexp → Except String Pat
  | .atom "always" => .ok .always
  | .list [.atom "pat", e] => do .ok (.expr (← exprOf e))
  | .list [.atom "range", b, e] => do .ok (.range (← exprOf b) (← exprOf e))
  | _ => .error "bad pattern"

def ruleOf : Sexp → Except String Rule
  | .list [.atom "rule", p, .atom "-"] => do .ok { pat := (← patOf p), body := none }
  | .list [.atom "rule", p, b] => do .ok { pat := (← patOf p), body := some (← blkOf b) }
  | _ => .error "bad rule"

def funcOf : Sexp → Except String Func
  | .list [.atom "func", .atom name, .list (.atom "params" :: ps), b] => do
    .ok { name := name, params := (← ps.mapM asAtom), body := (← blkOf b) }
  | _ => .error "bad func"

def progOf : Sexp → Except String Prog
  | .list [.atom "prog", .list (.atom "funcs" :: fs), .list (.atom "begins" :: bs),
           .list (.atom "rules" :: rs), .list (.atom "ends" :: es)] => do
    .ok { funcs := (← fs.mapM funcOf), begins := (← bs.mapM blkOf), rules := (← rs.mapM ruleOf),
          ends := (← es.mapM blkOf) }
  | _ => .error "bad prog"

def fileOf : Sexp → Except String File
  | .list [.atom "file", n, c] => do .ok { name := (← asStr n), content := (← asStr c) }
  | _ => .error "bad file"

def operandOf : Sexp → Except String Operand
  | .list [.atom "file", n, c] => do .ok (.file { name := (← asStr n), content := (← asStr c) })
  | .list [.atom "assign", .atom x, v] => do .ok (.assign x (← asStr v))
  | _ => .error "bad operand"

def optsOf (l : List Sexp) : Except String (Option String × List (String × String)) :=
  l.foldlM (fun (acc : Option String × List (String × String)) x =>
    match x with
    | .list [.atom "fs", v] => do pure (some (← asStr v), acc.2)
    | .list [.atom "v", .atom name, v] => do pure (acc.1, acc.2 ++ [(name, (← asStr v))])
    | _ => .error "bad option") (none, [])

def outcomeLine (r : Except Err Outcome) : String :=
  match r with
  | .error .fuel => "ERR fuel"
  | .error (.outside msg) => s!"ERR outside {msg}"
  | .ok o =>
    let fl := o.files.map fun (n, c) => s!" {n}={hex c}"
    s!"OK {o.status} {hex o.stdout}{String.join fl}"

def runCase (line : String) : String :=
  let toks := tokenize line.toList [] #[]
  let r : Except String String := do
    let (sx, _) ← parseSexp toks 0
    match sx with
    | .list [.atom "case", fuel, prog, .list (.atom "files" :: fs), .list [.atom "stdin", si],
             .list (.atom "extra" :: xs)] => do
      let fuel ← asInt fuel
      let p ← progOf prog
      let files ← fs.mapM fileOf
      let stdin ← asStr si
      let extra ← xs.mapM fileOf
      pure (outcomeLine (runWith fuel.toNat p files stdin extra))
    | .list [.atom "case", fuel, prog, .list (.atom "opts" :: os), .list (.atom "operands" :: ops),
             .list [.atom "stdin", si], .list (.atom "extra" :: xs)] => do
      let fuel ← asInt fuel
      let p ← progOf prog
      let (fsOpt, vars) ← optsOf os
      let operands ← ops.mapM operandOf
      let stdin ← asStr si
      let extra ← xs.mapM fileOf
      pure (outcomeLine (runInv fuel.toNat p
        { fsOpt := fsOpt, vars := vars, operands := operands, stdin := stdin, extra := extra }))
    | _ => .error "bad case"
  match r with
  | .ok s => s
  | .error e => s!"ERR parse {e}"

def main : IO Unit := do
  let stdin ← IO.getStdin
  Hawk.Drv.forLines stdin Unit () (fun _ line => ((), runCase line))

end Hawk.Drv.Awk
