import HawkModel.Arr
import HawkModel.Drv.Util
/-! driver for the arr area: one op per line in, canonical state dump out -/
namespace Hawk.Drv.Arr
open Hawk.Arr

structure St where
  a : Arr := Hawk.Arr.empty
  h : List Nat := []
  p : List Item := []

def parseOrc (s : String) : Oracle := s.toList.filterMap fun c => if c == 's' then some true else if c == 'f' then some false else none

def showErr : Err → String
  | .enomem => "ENOMEM" | .einval => "EINVAL" | .ebuffull => "EBUFFULL"

def showRet : Except Err Nat → String
  | .ok n => toString n
  | .error e => showErr e

def showEvs (e : List Ev) : String :=
  joinWith "," (e.map fun | .freed v => s!"F{v}" | .kept v => s!"K{v}")

/-- run-length encoded slot dump: values as numbers, runs of empties as `_xN` -/
def dumpSlots (l : List (Option Nat)) : String :=
  let rec go (l : List (Option Nat)) (gap : Nat) (acc : List String) : List String :=
    match l with
    | [] => (if gap > 0 then s!"_x{gap}" :: acc else acc).reverse
    | none :: r => go r (gap + 1) acc
    | some v :: r => go r 0 (toString v :: (if gap > 0 then s!"_x{gap}" :: acc else acc))
  joinWith "," (go l 0 [])

def dumpP (l : List Item) : String :=
  s!"p=[{joinWith ", " (l.map fun x => s!"{x.1}:{x.2}")}] ord={decide (HeapOrd (keys l))} posok={decide (PosOk l)}"

def dump (a : Arr) : String := s!"s={a.size} t={a.tally} c={a.capa} [{dumpSlots a.slots}]"

def step (s : St) (line : String) : St × String :=
  match words line with
  | ["new"] => ({}, "ok")
  | ["insert", p, v, o] => match p.toNat?, v.toNat? with
    | some p, some v => let r := insert s.a p v (parseOrc o); ({ s with a := r.arr }, s!"r={showRet r.ret} e={showEvs r.evs} {dump r.arr}")
    | _, _ => (s, "bad-op")
  | ["upsert", p, v, o] => match p.toNat?, v.toNat? with
    | some p, some v => let r := upsert s.a p v (parseOrc o); ({ s with a := r.arr }, s!"r={showRet r.ret} e={showEvs r.evs} {dump r.arr}")
    | _, _ => (s, "bad-op")
  | ["update", p, v, o] => match p.toNat?, v.toNat? with
    | some p, some v => let r := update s.a p v (parseOrc o); ({ s with a := r.arr }, s!"r={showRet r.ret} e={showEvs r.evs} {dump r.arr}")
    | _, _ => (s, "bad-op")
  | ["delete", i, c] => match i.toNat?, c.toNat? with
    | some i, some c => let (a, n, e) := delete s.a i c; ({ s with a := a }, s!"r={n} e={showEvs e} {dump a}")
    | _, _ => (s, "bad-op")
  | ["uplete", i, c] => match i.toNat?, c.toNat? with
    | some i, some c => let (a, n, e) := uplete s.a i c; ({ s with a := a }, s!"r={n} e={showEvs e} {dump a}")
    | _, _ => (s, "bad-op")
  | ["clear"] => let (a, e) := clear s.a; ({ s with a := a }, s!"r=0 e={showEvs e} {dump a}")
  | ["setcapa", c, o] => match c.toNat? with
    | some c => let (a, ok, e, _) := setcapa s.a c (parseOrc o); ({ s with a := a }, s!"r={if ok then "ok" else "NULL"} e={showEvs e} {dump a}")
    | none => (s, "bad-op")
  | ["hpush", v] => match v.toNat? with
    | some v => let h := pushheap s.h v; ({ s with h := h }, s!"h={h} ord={decide (HeapOrd h)}")
    | none => (s, "bad-op")
  | ["hdel", i] => match i.toNat? with
    | some i => let (h, f) := deleteheap s.h i; ({ s with h := h }, s!"h={h} ord={decide (HeapOrd h)} f={f.getD 0}")
    | none => (s, "bad-op")
  | ["hupd", i, v] => match i.toNat?, v.toNat? with
    | some i, some v => let (h, f) := updateheap s.h i v; ({ s with h := h }, s!"h={h} ord={decide (HeapOrd h)} f={match f with | some x => toString x | none => "-"}")
    | _, _ => (s, "bad-op")
  | ["spush", v, o] => match v.toNat? with
    | some v => let r := pushstack s.a v (parseOrc o); ({ s with a := r.arr }, s!"r={showRet r.ret} e={showEvs r.evs} {dump r.arr}")
    | none => (s, "bad-op")
  | ["spop"] => let (a, _, e) := popstack s.a; ({ s with a := a }, s!"r=0 e={showEvs e} {dump a}")
  | ["ppush", v] => match v.toNat? with
    | some v => let p := pushheapP s.p v; ({ s with p := p }, dumpP p)
    | none => (s, "bad-op")
  | ["pdel", i] => match i.toNat? with
    | some i => let (p, f) := deleteheapP s.p i; ({ s with p := p }, s!"{dumpP p} f={match f with | some x => toString x | none => "-"}")
    | none => (s, "bad-op")
  | ["ppop"] => let (p, f) := deleteheapP s.p 0; ({ s with p := p }, s!"{dumpP p} f={match f with | some x => toString x | none => "-"}")
  | ["pupd", i, v] => match i.toNat?, v.toNat? with
    | some i, some v => let (p, f) := updateheapP s.p i v; ({ s with p := p }, s!"{dumpP p} f={match f with | some x => toString x | none => "-"}")
    | _, _ => (s, "bad-op")
  | _ => (s, "bad-op")

def main : IO Unit := do
  forLines (← IO.getStdin) St {} step

end Hawk.Drv.Arr
