import HawkModel.Expr
import HawkModel.ExprBlock
import HawkModel.Drv.Util
/-!
driver for the expr area (property C08): one test case per line in, one canonical result line out.

The float instance is a software emulation of the x87 80-bit extended format hawk_flt_t is on this platform
(64-bit significand, round to nearest even, signed zeros, inf, nan), computed with exact integer arithmetic;
`%.6g` rendering, hawk's string->number conversion, the scalar part of `__cmp_val` and a metacharacter-free
matcher are implemented here (they are `Ext` parameters of the model, not part of any proof).
Operations whose result the emulation cannot predict (powl with a non-integral exponent, regular expressions
with metacharacters, nan === nan) return a value that depends on `salt`; a case whose output changes with the
salt is marked `?` and compared among the hawk variants only.
-/
namespace Hawk.Drv.Expr
open Hawk.Expr

/-! ## x87 extended floats -/

inductive XF where
  | fin (neg : Bool) (m : Nat) (e : Int)   -- (-1)^neg * m * 2^e ; m = 0 or 2^63 <= m < 2^64
  | inf (neg : Bool)
  | nan (neg : Bool)   -- x87: invalid operations produce the default NaN, whose sign bit is set ("-nan")
  deriving Inhabited

def bits (n : Nat) : Nat := if n = 0 then 0 else n.log2 + 1

/-- round m*2^e (+ a sticky remainder below) to at most `prec` significant bits, nearest-even -/
def roundBits (prec : Nat) (m : Nat) (e : Int) (sticky : Bool) : Nat × Int :=
  let b := bits m
  if b ≤ prec then (m, e)
  else
    let sh := b - prec
    let q := m >>> sh
    let rem := m % (2 ^ sh)
    let half := 2 ^ (sh - 1)
    let up := rem > half || (rem == half && (sticky || q % 2 == 1))
    ((if up then q + 1 else q), e + sh)

/-- normalise to a 64-bit significand; overflow to inf, underflow to zero -/
def mk (neg : Bool) (m : Nat) (e : Int) : XF :=
  if m = 0 then .fin neg 0 0
  else
    let b := bits m
    let (m, e) := if b > 64 then (m >>> (b - 64), e + (b - 64 : Nat)) else (m <<< (64 - b), e - (64 - b : Nat))
    if e + 64 > 16384 then .inf neg
    else if e + 64 < -16445 then .fin neg 0 0
    else .fin neg m e

def rnd (neg : Bool) (m : Nat) (e : Int) (sticky : Bool := false) : XF :=
  let (m', e') := roundBits 64 m e sticky
  mk neg m' e'

def XF.ofInt (i : Int) : XF := rnd (i < 0) i.natAbs 0
def XF.neg : XF → XF
  | .fin n m e => .fin (!n) m e
  | .inf n => .inf (!n)
  | .nan n => .nan (!n)
def XF.isZero : XF → Bool
  | .fin _ 0 _ => true
  | _ => false

def XF.add (a b : XF) : XF :=
  match a, b with
  | .nan n, _ => .nan n
  | _, .nan n => .nan n
  | .inf x, .inf y => if x == y then .inf x else .nan true
  | .inf x, _ => .inf x
  | _, .inf y => .inf y
  | .fin na ma ea, .fin nb mb eb =>
    if ma = 0 && mb = 0 then .fin (na && nb) 0 0
    else if ma = 0 then b
    else if mb = 0 then a
    else
      let emin := min ea eb
      let A : Int := (ma <<< (ea - emin).toNat : Nat)
      let B : Int := (mb <<< (eb - emin).toNat : Nat)
      let S : Int := (if na then -A else A) + (if nb then -B else B)
      if S = 0 then .fin false 0 0 else rnd (S < 0) S.natAbs emin

def XF.sub (a b : XF) : XF :=
  match a, b with
  | .nan n, _ => .nan n
  | _, .nan n => .nan n
  | _, _ => a.add b.neg

def XF.mul (a b : XF) : XF :=
  match a, b with
  | .nan n, _ => .nan n
  | _, .nan n => .nan n
  | .inf x, .inf y => .inf (x != y)
  | .inf x, .fin n m _ => if m = 0 then .nan true else .inf (x != n)
  | .fin n m _, .inf y => if m = 0 then .nan true else .inf (n != y)
  | .fin na ma ea, .fin nb mb eb =>
    if ma = 0 || mb = 0 then .fin (na != nb) 0 0 else rnd (na != nb) (ma * mb) (ea + eb)

/-- correctly rounded quotient of two positive exact numbers with arbitrarily long significands -/
def divExact (neg : Bool) (m1 : Nat) (e1 : Int) (m2 : Nat) (e2 : Int) : XF :=
  let k := bits m2 + 70
  let num := m1 <<< k
  rnd neg (num / m2) (e1 - e2 - (k : Nat)) (num % m2 != 0)

def XF.div (a b : XF) : XF :=
  match a, b with
  | .nan n, _ => .nan n
  | _, .nan n => .nan n
  | .inf _, .inf _ => .nan true
  | .inf x, .fin n _ _ => .inf (x != n)
  | .fin n _ _, .inf y => .fin (n != y) 0 0
  | .fin na ma ea, .fin nb mb eb =>
    if mb = 0 then (if ma = 0 then .nan true else .inf (na != nb))
    else if ma = 0 then .fin (na != nb) 0 0
    else divExact (na != nb) ma ea mb eb

def XF.fmod (a b : XF) : XF :=
  match a, b with
  | .nan n, _ => .nan n
  | _, .nan n => .nan n
  | .inf _, _ => .nan true
  | .fin n m e, .inf _ => .fin n m e
  | .fin na ma ea, .fin _ mb eb =>
    if mb = 0 then .nan true
    else if ma = 0 then a
    else
      let emin := min ea eb
      let A := ma <<< (ea - emin).toNat
      let B := mb <<< (eb - emin).toNat
      let r := A % B
      if r = 0 then .fin na 0 0 else rnd na r emin

/-- the integer value of a finite float if it is integral and small -/
def XF.smallInt? : XF → Option Int
  | .fin n m e =>
    if m = 0 then some 0
    else if e ≥ 0 then none
    else
      let sh := (-e).toNat
      if sh ≥ 64 then none
      else if m % (2 ^ sh) != 0 then none
      else
        let v := m >>> sh
        if v > 4096 then none else some (if n then -(v : Int) else v)
  | _ => none

/-- `some odd` when the finite value is an integer -/
def XF.intParity? : XF → Option Bool
  | .fin _ m e =>
    if m = 0 then some false
    else if e ≥ 0 then some (e == 0 && m % 2 == 1)
    else
      let sh := (-e).toNat
      if sh ≥ 64 then none
      else if m % (2 ^ sh) != 0 then none
      else some ((m >>> sh) % 2 == 1)
  | _ => none

def unknownF (salt : Nat) : XF :=
  match salt with
  | 0 => mk false 3 0
  | 1 => mk true 1 70
  | 2 => mk false 1 (-70)
  | 3 => .fin false 0 0
  | _ => .nan true

def XF.isOne : XF → Bool
  | .fin false m e => m == 9223372036854775808 && e == -63
  | _ => false

def XF.pow (salt : Nat) (x y : XF) : XF :=
  if x.isOne then XF.ofInt 1      -- pow(1, y) is 1 for every y, NaN included
  else
  match y.smallInt? with
  | some 0 => XF.ofInt 1
  | some yi =>
    match x with
    | .nan n => .nan n
    | .inf n =>
      let sg := n && yi % 2 != 0
      if yi > 0 then .inf sg else .fin sg 0 0
    | .fin n m e =>
      let k := yi.natAbs
      let sg := n && k % 2 == 1
      if m = 0 then (if yi > 0 then .fin sg 0 0 else .inf sg)
      else
        let P := m ^ k
        let pe := e * (k : Int)
        if yi > 0 then rnd sg P pe else divExact sg 1 0 P pe
  | none =>
    match x, y with
    | .nan n, _ => .nan n
    | _, .nan n => .nan n
    | .fin xn xm xe, .fin yn _ ye =>
      -- a finite y that is not a small integer
      match y.intParity? with
      | none =>
        -- non-integral exponent
        if xm = 0 then (if yn then .inf false else .fin false 0 0)
        else if xn then .nan true
        else unknownF salt
      | some odd =>
        -- integral exponent of large magnitude
        let sg := xn && odd
        if xm = 0 then (if yn then .inf sg else .fin sg 0 0)
        else if ye + 63 < 16 then unknownF salt          -- |y| < 65536: the result may still be finite
        else if xe + 63 ≥ 1 then (if yn then .fin sg 0 0 else .inf sg)                         -- |x| >= 2
        else if xe + 64 ≤ -1 || (xe + 63 == -1 && xm == 9223372036854775808) then               -- |x| <= 1/2
          (if yn then .inf sg else .fin sg 0 0)
        else unknownF salt
    | .inf xn, .fin yn _ _ => if xn then unknownF salt else (if yn then .fin false 0 0 else .inf false)
    | _, _ => unknownF salt

def INT_MIN : Int := -9223372036854775808

def XF.toIntTrunc : XF → Int
  | .fin n m e =>
    if m = 0 then 0
    else if e ≥ 0 then INT_MIN
    else
      let v : Int := (m >>> (-e).toNat : Nat)
      let v := if n then -v else v
      if v < INT_MIN || v > 9223372036854775807 then INT_MIN else v
  | _ => INT_MIN

/-- exact three-way comparison; none when unordered -/
def XF.cmp? (a b : XF) : Option Int :=
  match a, b with
  | .nan _, _ | _, .nan _ => none
  | _, _ =>
    match a.sub b with
    | .nan _ => some 0                     -- inf - inf : equal infinities
    | .inf n => some (if n then -1 else 1)
    | .fin n m _ => some (if m = 0 then 0 else if n then -1 else 1)

@[instance_reducible] def xfOps (salt : Nat) : FloatOps XF where
  ofInt := XF.ofInt
  neg := XF.neg
  add := XF.add
  sub := XF.sub
  mul := XF.mul
  div := XF.div
  fmod := XF.fmod
  pow := XF.pow salt
  toIntTrunc := XF.toIntTrunc
  isZero := XF.isZero

/-! ## `%.6g` -/

def numDigits (n : Nat) : Nat := (toString n).length

def stripZeros (s : List Char) : List Char := (s.reverse.dropWhile (· == '0')).reverse

def pad2 (n : Nat) : String := if n < 10 then "0" ++ toString n else toString n

/-- `%.6g` (CONVFMT / OFMT) -/
def fmtG6 (x : XF) : String :=
  match x with
  | .nan n => if n then "-nan" else "nan"
  | .inf n => if n then "-inf" else "inf"
  | .fin n m e =>
    let sg := if n then "-" else ""
    if m = 0 then sg ++ "0"
    else
      let p : Nat := if e ≥ 0 then m <<< e.toNat else m
      let q : Nat := if e ≥ 0 then 1 else 2 ^ (-e).toNat
      -- decimal exponent X with 10^X <= p/q < 10^(X+1)
      let x0 : Int := (numDigits p : Int) - (numDigits q : Int)
      let ge10 (X : Int) : Bool := if X ≥ 0 then p ≥ q * 10 ^ X.toNat else p * 10 ^ (-X).toNat ≥ q
      let X : Int := if ge10 (x0 + 1) then x0 + 1 else if ge10 x0 then x0 else x0 - 1
      let s : Int := X - 5
      let num : Nat := if s ≥ 0 then p else p * 10 ^ (-s).toNat
      let den : Nat := if s ≥ 0 then q * 10 ^ s.toNat else q
      let N0 := num / den
      let rem := num % den
      let N1 := if 2 * rem > den || (2 * rem == den && N0 % 2 == 1) then N0 + 1 else N0
      let (N, X) := if N1 ≥ 1000000 then (N1 / 10, X + 1) else (N1, X)
      let ds := (toString N).toList     -- six digits
      if X < -4 || X ≥ 6 then
        let frac := stripZeros (ds.drop 1)
        let mant := String.ofList (ds.take 1) ++ (if frac.isEmpty then "" else "." ++ String.ofList frac)
        sg ++ mant ++ "e" ++ (if X < 0 then "-" else "+") ++ pad2 X.natAbs
      else if X ≥ 0 then
        let ip := ds.take (X.toNat + 1)
        let frac := stripZeros (ds.drop (X.toNat + 1))
        sg ++ String.ofList ip ++ (if frac.isEmpty then "" else "." ++ String.ofList frac)
      else
        let frac := stripZeros (List.replicate ((-X).toNat - 1) '0' ++ ds)
        sg ++ "0." ++ String.ofList frac

/-- `val_flt_to_str`: a float whose value is an exact integer that fits hawk_int_t is converted as if by %d
(so -0.0 is "0"); CONVFMT / OFMT apply to the other numbers only -/
def fmtG (x : XF) : String :=
  match x with
  | .fin n m e =>
    if m = 0 then "0"
    else if e ≥ 0 then fmtG6 x        -- |x| >= 2^63: only -2^63 itself fits
      |> fun s => if n && m == 9223372036854775808 && e == 0 then "-9223372036854775808" else s
    else
      let sh := (-e).toNat
      if sh < 64 && m % (2 ^ sh) == 0 then
        (if n then "-" else "") ++ toString (m >>> sh)
      else fmtG6 x
  | _ => fmtG6 x

/-! ## hawk_uchars_to_num / hawk_bchars_to_num -/

def isSpace (c : Char) : Bool := c == ' ' || c == '\t' || c == '\n' || c == '\x0b' || c == '\x0c' || c == '\r'
def isDigit (c : Char) : Bool := c ≥ '0' && c ≤ '9'

/-- HAWK_ZDIGIT_TO_NUM -/
def zdigit (c : Char) (base : Nat) : Nat :=
  if c ≥ '0' && c ≤ '9' then c.toNat - '0'.toNat
  else if c ≥ 'A' && c ≤ 'Z' then c.toNat - 'A'.toNat + 10
  else if c ≥ 'a' && c ≤ 'z' then c.toNat - 'a'.toNat + 10
  else base

def skipSigns : List Char → Bool → List Char × Bool
  | '-' :: r, neg => skipSigns r (!neg)
  | '+' :: r, neg => skipSigns r neg
  | l, neg => (l, neg)

def intDigits (base : Nat) : List Char → Int → List Char × Int
  | c :: r, n =>
    let d := zdigit c base
    if d ≥ base then (c :: r, n) else intDigits base r (wrap64 (n * base + d))
  | [], n => ([], n)

/-- hawk_uchars_to_int with ltrim, base 0: (value, rest of the string at endptr) -/
def charsToInt (s : List Char) : Int × List Char :=
  let p := s.dropWhile isSpace
  let (p, neg) := skipSigns p false
  let (p, base) : List Char × Nat :=
    match p with
    | ['0'] => ([], 8)
    | '0' :: c :: r =>
      if c == 'x' || c == 'X' then (r, 16)
      else if c == 'b' || c == 'B' then (r, 2)
      else (c :: r, 8)
    | _ => (p, 10)
  let (rest, n) := intDigits base p 0
  ((if neg then wrap64 (-n) else n), rest)

/-- 10^(2^i) as the C double constant in `powers_of_10[]` -/
def pow10tab (i : Nat) : XF :=
  let (m, e) := roundBits 53 (10 ^ (2 ^ i)) 0 false
  mk false m e

def dblExp : Nat → Nat → XF → XF
  | 0, _, acc => acc
  | fuel + 1, ex, acc =>
    if ex = 0 then acc
    else
      let i := 9 - (fuel + 1)   -- table index 0..8
      dblExp fuel (ex / 2) (if ex % 2 == 1 then acc.mul (pow10tab i) else acc)

def digitsVal (l : List Char) : Nat := l.foldl (fun a c => a * 10 + (c.toNat - '0'.toNat)) 0

/-- `if (exp <= FLT_MAX_EXPONENT) exp = exp * 10 + (*p - '0');` -/
def digitsValClamped (l : List Char) : Nat :=
  l.foldl (fun a c => if a ≤ 511 then a * 10 + (c.toNat - '0'.toNat) else a) 0

/-- hawk_uchars_to_flt with stripspc -/
def charsToFlt (s : List Char) : XF :=
  let p := s.dropWhile isSpace
  let (p, neg) := skipSigns p false
  -- mantissa: digits with at most one '.'
  let rec scan (l : List Char) (seenDot : Bool) (acc : List Char) : List Char × List Char :=
    match l with
    | c :: r =>
      if isDigit c then scan r seenDot (c :: acc)
      else if c == '.' && !seenDot then scan r true (c :: acc)
      else (acc.reverse, c :: r)
    | [] => (acc.reverse, [])
  let (mant, rest) := scan p false []
  let mantSize0 := mant.length
  let decPt0 : Option Nat := mant.findIdx? (· == '.')
  let digs := mant.filter isDigit
  let mantSize := digs.length
  let decPt : Nat := match decPt0 with | some i => i | none => mantSize0
  let (fracExp, used) : Int × List Char :=
    if mantSize > 18 then ((decPt : Int) - 18, digs.take 18) else ((decPt : Int) - (mantSize : Int), digs)
  if mantSize = 0 then .fin (neg) 0 0
  else
    let n1 := used.length
    let f1 := digitsVal (used.take (n1 - 9))   -- the digits beyond the last nine
    let f2 := digitsVal (used.drop (n1 - 9))
    -- `fraction = (1.0e9 * frac1) + frac2;` is evaluated in DOUBLE (1.0e9 is a double constant), then widened
    let (fm, fe) := roundBits 53 (1000000000 * f1) 0 false
    let (fm, fe) := roundBits 53 (fm * 2 ^ fe.toNat + f2) 0 false
    let fraction := mk false fm fe
    -- exponent
    let (ex, _) : Int × Bool :=
      match rest with
      | c :: r =>
        if c == 'E' || c == 'e' then
          let (r, eneg) : List Char × Bool :=
            match r with
            | '-' :: r' => (r', true)
            | '+' :: r' => (r', false)
            | _ => (r, false)
          let ed := r.takeWhile isDigit
          if ed.isEmpty then (0, false) else ((if eneg then -(digitsValClamped ed : Int) else (digitsValClamped ed : Int)), true)
        else (0, false)
      | [] => (0, false)
    let e10 : Int := fracExp + ex
    let eneg := e10 < 0
    let ea := min e10.natAbs 511
    let d := dblExp 9 ea (XF.ofInt 1)
    let r := if eneg then fraction.div d else fraction.mul d
    if neg then r.neg else r

/-- hawk_uchars_to_num (nopartial 0, reqsober 0, stripspc on, base 0) -/
def charsToNum (s : List Char) : Num XF :=
  let (l, rest) := charsToInt s
  match rest with
  | c :: _ =>
    if c == '.' || c == 'E' || c == 'e' then .flt (charsToFlt s)
    else if isDigit c then
      match rest.dropWhile isDigit with
      | d :: _ => if d == '.' || d == 'E' || d == 'e' then .flt (charsToFlt s) else .int l
      | [] => .int l
    else .int l
  | [] => .int l

/-! ## the scalar part of `__cmp_val`, `teq_val`, matching -/

def bytesOfString (s : String) : List UInt8 := s.toUTF8.toList
def stringOfBytes (b : List UInt8) : String := String.ofList (b.map fun x => Char.ofNat x.toNat)

def cmpList {α : Type} (lt : α → α → Bool) : List α → List α → Int
  | [], [] => 0
  | [], _ => -1
  | _, [] => 1
  | a :: r, b :: s => if lt a b then -1 else if lt b a then 1 else cmpList lt r s

def cmpStr (a b : String) : Int := cmpList (fun (x y : Char) => x.toNat < y.toNat) a.toList b.toList
def cmpBytes (a b : List UInt8) : Int := cmpList (fun (x y : UInt8) => x.toNat < y.toNat) a b

def sgnInt (v : Int) : Int := if v < 0 then 1 else if v > 0 then -1 else 0

def xToStr (v : Val XF) : String :=
  match v with
  | .nil => "" | .int i => toString i | .flt f => fmtG f | .str s => s | .mbs b => stringOfBytes b
  | .char c => String.singleton c | .bchr b => stringOfBytes [b]
def xToMbs (v : Val XF) : List UInt8 :=
  match v with
  | .mbs b => b | .bchr b => [b] | v => bytesOfString (xToStr v)

/-- `func[lvtype * 10 + rvtype]` restricted to scalars (no numeric-string flags, NCMPONSTR off, IGNORECASE 0) -/
def cmpVal : Val XF → Val XF → Int
  | .nil, .nil => 0
  | .nil, .char c => if c.toNat > 0 then -1 else 0
  | .nil, .bchr b => if b.toNat > 0 then -1 else 0
  | .nil, .int v => sgnInt v
  | .nil, .flt f => match f.cmp? (XF.ofInt 0) with | some n => -n | none => 0
  | .nil, .str s => if s.length == 0 then 0 else -1
  | .nil, .mbs b => if b.length == 0 then 0 else -1
  | .char c, .char d => if c.toNat > d.toNat then 1 else if c.toNat < d.toNat then -1 else 0
  | .char c, .bchr d => if c.toNat > d.toNat then 1 else if c.toNat < d.toNat then -1 else 0
  | .char c, .int v => cmpStr (String.singleton c) (toString v)
  | .char c, .flt f => cmpStr (String.singleton c) (fmtG f)
  | .char c, .str s => cmpStr (String.singleton c) s
  | .char c, .mbs b => if c.toNat > 255 then 1 else cmpBytes [c.toNat.toUInt8] b
  | .bchr c, .bchr d => if c.toNat > d.toNat then 1 else if c.toNat < d.toNat then -1 else 0
  | .bchr c, .int v => cmpBytes [c] (bytesOfString (toString v))
  | .bchr c, .flt f => cmpBytes [c] (bytesOfString (fmtG f))
  | .bchr c, .str s => cmpStr (stringOfBytes [c]) s
  | .bchr c, .mbs b => cmpBytes [c] b
  | .int a, .int b => if a > b then 1 else if a < b then -1 else 0
  | .int a, .flt f => match (XF.ofInt a).cmp? f with | some n => n | none => 0
  | .int a, .str s => cmpStr (toString a) s
  | .int a, .mbs b => cmpBytes (bytesOfString (toString a)) b
  | .flt a, .flt b => match a.cmp? b with | some n => n | none => 0
  | .flt a, .str s => cmpStr (fmtG a) s
  | .flt a, .mbs b => cmpBytes (bytesOfString (fmtG a)) b
  | .str a, .str b => cmpStr a b
  | .str a, .mbs b => cmpBytes (bytesOfString a) b
  | .mbs a, .mbs b => cmpBytes a b
  -- the mirrored entries: -(cmp right left)
  | .char c, .nil => -(if c.toNat > 0 then -1 else 0)
  | .bchr b, .nil => -(if b.toNat > 0 then -1 else 0)
  | .int v, .nil => -(sgnInt v)
  | .flt f, .nil => match f.cmp? (XF.ofInt 0) with | some n => n | none => 0
  | .str s, .nil => if s.length == 0 then 0 else 1
  | .mbs b, .nil => if b.length == 0 then 0 else 1
  | .bchr d, .char c => -(if c.toNat > d.toNat then 1 else if c.toNat < d.toNat then -1 else 0)
  | .int v, .char c => -(cmpStr (String.singleton c) (toString v))
  | .flt f, .char c => -(cmpStr (String.singleton c) (fmtG f))
  | .str s, .char c => -(cmpStr (String.singleton c) s)
  | .mbs b, .char c => -(if c.toNat > 255 then 1 else cmpBytes [c.toNat.toUInt8] b)
  | .int v, .bchr c => -(cmpBytes [c] (bytesOfString (toString v)))
  | .flt f, .bchr c => -(cmpBytes [c] (bytesOfString (fmtG f)))
  | .str s, .bchr c => -(cmpStr (stringOfBytes [c]) s)
  | .mbs b, .bchr c => -(cmpBytes [c] b)
  | .flt f, .int a => match (XF.ofInt a).cmp? f with | some n => -n | none => 0
  | .str s, .int a => -(cmpStr (toString a) s)
  | .mbs b, .int a => -(cmpBytes (bytesOfString (toString a)) b)
  | .str s, .flt a => -(cmpStr (fmtG a) s)
  | .mbs b, .flt a => -(cmpBytes (bytesOfString (fmtG a)) b)
  | .mbs b, .str a => -(cmpBytes (bytesOfString a) b)

def cmpImpl (op : CmpOp) (l r : Val XF) : Except Err Bool :=
  let n := cmpVal l r
  .ok (match op with
    | .eq => n == 0 | .ne => n != 0 | .gt => n > 0 | .ge => n ≥ 0 | .lt => n < 0 | .le => n ≤ 0)

def teqImpl (salt : Nat) (l r : Val XF) : Bool :=
  match l, r with
  | .nil, .nil => true
  | .char a, .char b => a == b
  | .bchr a, .bchr b => a == b
  | .int a, .int b => a == b
  | .flt a, .flt b =>
    match a.cmp? b with
    | some n => n == 0
    | none => salt % 2 == 1      -- nan === nan: 1 for the same object, 0 otherwise - not predictable here
  | .str a, .str b => a == b
  | .mbs a, .mbs b => a == b
  | _, _ => false

def isMeta (c : Char) : Bool := ".[](){}*+?|^$\\".toList.contains c

def isInfix (p s : List Char) : Bool :=
  match s with
  | [] => p.isEmpty
  | _ :: r => p.isPrefixOf s || isInfix p r

def matchImpl (salt : Nat) (l r : Val XF) : Except Err Bool :=
  let pat := (xToStr r).toList
  if pat.any isMeta then .ok (salt % 2 == 1)
  else .ok (isInfix pat (xToStr l).toList)

def extFor (salt : Nat) : Ext XF where
  strToNum := fun s => charsToNum s.toList
  mbsToNum := fun b => charsToNum (b.map fun x => Char.ofNat x.toNat)
  fltToStr := fmtG
  mbsToStr := stringOfBytes
  strToMbs := bytesOfString
  cmp := cmpImpl
  teq := teqImpl salt
  matchv := matchImpl salt
  flexmap := true

/-! ## the line protocol -/

structure Parsed where
  e : Expr Nat XF
  vals : List (Val XF)        -- initial slot values, in order of first appearance

def hexVal (c : Char) : Nat :=
  if c ≥ '0' && c ≤ '9' then c.toNat - '0'.toNat
  else if c ≥ 'a' && c ≤ 'f' then c.toNat - 'a'.toNat + 10
  else if c ≥ 'A' && c ≤ 'F' then c.toNat - 'A'.toNat + 10 else 0

def hexBytes : List Char → List UInt8
  | a :: b :: r => (hexVal a * 16 + hexVal b).toUInt8 :: hexBytes r
  | _ => []

def hexNat (l : List Char) : Nat := l.foldl (fun a c => a * 16 + hexVal c) 0

/-- decimal float literal `<mant>e<exp10>` rounded once, as the lexer's `hawk_oochars_to_flt` does for short literals -/
def parseFlt (s : String) : Option XF :=
  match s.splitOn "e" with
  | [m, x] =>
    match m.toInt?, x.toInt? with
    | some mi, some xi =>
      let neg := mi < 0
      let ma := mi.natAbs
      some (if xi ≥ 0 then rnd neg (ma * 10 ^ xi.toNat) 0
            else if ma = 0 then .fin neg 0 0 else divExact neg ma 0 (10 ^ (-xi).toNat) 0)
    | _, _ => none
  | _ => none

def parseLit (t : String) : Option (Val XF) :=
  match t.toList with
  | 'n' :: [] => some .nil
  | 'i' :: r => (String.ofList r).toInt?.map .int
  | 'f' :: r => (parseFlt (String.ofList r)).map .flt
  | 's' :: r => some (.str (stringOfBytes (hexBytes r)))
  | 'm' :: r => some (.mbs (hexBytes r))
  | 'c' :: r => some (.char (Char.ofNat (hexNat r)))
  | 'b' :: r => some (.bchr (hexNat r).toUInt8)
  | _ => none

def binopOf : String → Option BinOp
  | "lor" => some .lor | "land" => some .land | "bor" => some .bor | "bxor" => some .bxor | "band" => some .band
  | "teq" => some .teq | "tne" => some .tne | "eq" => some .eq | "ne" => some .ne | "gt" => some .gt
  | "ge" => some .ge | "lt" => some .lt | "le" => some .le | "ls" => some .ls | "rs" => some .rs
  | "plus" => some .plus | "minus" => some .minus | "mul" => some .mul | "div" => some .div
  | "idiv" => some .idiv | "mod" => some .mod | "exp" => some .exp | "concat" => some .concat
  | "ma" => some .ma | "nm" => some .nm
  | _ => none

def assopOf : String → Option AssOp
  | "none" => some .none | "plus" => some .plus | "minus" => some .minus | "mul" => some .mul | "div" => some .div
  | "idiv" => some .idiv | "mod" => some .mod | "exp" => some .exp | "concat" => some .concat | "rs" => some .rs
  | "ls" => some .ls | "band" => some .band | "bxor" => some .bxor | "bor" => some .bor
  | _ => none

def unropOf : String → Option UnrOp
  | "plus" => some .plus | "minus" => some .minus | "lnot" => some .lnot | "bnot" => some .bnot
  | _ => none

def incopOf : String → Option IncOp
  | "plus" => some .plus | "minus" => some .minus
  | _ => none

/-- prefix-notation parser; `fuel` bounds the recursion by the token count -/
def parseTarget (toks : List String) (vals : List (Val XF)) : Option (Nat × List String × List (Val XF)) :=
  match toks with
  | "L" :: l :: r => (parseLit l).map fun v => (vals.length, r, vals ++ [v])
  | "V" :: k :: r => k.toNat?.bind fun i => if i < vals.length then some (i, r, vals) else none
  | _ => none

def parseE : Nat → List String → List (Val XF) → Option (Expr Nat XF × List String × List (Val XF))
  | 0, _, _ => none
  | fuel + 1, toks, vals =>
    match toks with
    | "L" :: l :: r => (parseLit l).map fun v => (.var vals.length, r, vals ++ [v])
    | "V" :: k :: r => k.toNat?.bind fun i => if i < vals.length then some (.var i, r, vals) else none
    | "U" :: o :: r => do
      let op ← unropOf o
      let (e, r, vals) ← parseE fuel r vals
      pure (.un op e, r, vals)
    | "B" :: o :: r => do
      let op ← binopOf o
      let (a, r, vals) ← parseE fuel r vals
      let (b, r, vals) ← parseE fuel r vals
      pure (.bin op a b, r, vals)
    | "C" :: r => do
      let (c, r, vals) ← parseE fuel r vals
      let (t, r, vals) ← parseE fuel r vals
      let (f, r, vals) ← parseE fuel r vals
      pure (.cnd c t f, r, vals)
    | "A" :: o :: r => do
      let op ← assopOf o
      let (x, r, vals) ← parseTarget r vals
      let (y, r, vals) ← parseE fuel r vals
      pure (.asg op x y, r, vals)
    | "PRE" :: o :: r => do
      let op ← incopOf o
      let (x, r, vals) ← parseTarget r vals
      pure (.incpre op x, r, vals)
    | "PST" :: o :: r => do
      let op ← incopOf o
      let (x, r, vals) ← parseTarget r vals
      pure (.incpst op x, r, vals)
    | _ => none

def typeName : Val XF → String
  | .nil => "nil" | .int _ => "int" | .flt _ => "flt" | .str _ => "str" | .mbs _ => "mbs"
  | .char _ => "char" | .bchr _ => "bchar"

def showVal (v : Val XF) : String := typeName v ++ " [" ++ xToStr v ++ "]"

def errCode : Err → String
  | .divby0 => "ERR91"
  | .operand => "ERR-operand"
  | .notidxacc => "ERR-notidxacc"
  | .scalartononsca => "ERR-scalartononsca"
  | .nonscatoscalar => "ERR-nonscatoscalar"
  | .intern => "ERR-intern"
  | .ext c => s!"ERR{c}"
  | .notmodelled => "ERR-notmodelled"
  | .crash => "CRASH"

/-- placement of slot `i` for a variant -/
def placeOf (variant : String) (i : Nat) : Ref :=
  match variant with
  | "gbl" => .plain (.gbl i)
  | "lcl" => .plain (.lcl i)
  | "arg" => .plain (.arg i)
  | "map" => .idx (.named "M") (.s s!"k{i}")
  | "mapi" => .idx (.named "M") (.i i)
  | "arr" => .idx (.named "A") (.i (i + 1))
  | "gmap" => .idx (.gbl 0) (.s s!"k{i}")        -- element of a map held by a @global      (eval_gblidx)
  | "lmap" => .idx (.lcl 0) (.s s!"k{i}")        -- ... by a @local                         (eval_lclidx)
  | "amap" => .idx (.arg 0) (.s s!"k{i}")        -- ... by a parameter                      (eval_argidx)
  -- by-reference parameters whose arguments are map elements / array elements / globals / locals / parameters
  | "refm" => .idx (.named "M") (.s s!"k{i}")
  | "refa" => .idx (.named "A") (.i (i + 1))
  | "refg" => .plain (.gbl i)
  | "refl" => .plain (.lcl i)
  | "refp" => .plain (.arg i)
  | _ => .plain (.named s!"v{i}")      -- named, ref (caller side), lit (assignment targets)

def emptyEnv : Env XF :=
  { named := fun _ => none, gbl := fun _ => .sc .nil, lcl := fun _ => .sc .nil, arg := fun _ => .sc .nil }

/-- initial environment: every slot with a non-nil value is assigned (nil slots stay untouched/absent);
array variants start from `hawk::array()` -/
def initEnv (X : Ext XF) (variant : String) (vals : List (Val XF)) (only : Nat → Bool) : Env XF :=
  let e0 : Env XF := if variant == "arr" || variant == "refa" then emptyEnv.setTop (.named "A") (.arr (fun _ => none)) else emptyEnv
  let rec go (i : Nat) (l : List (Val XF)) (e : Env XF) : Env XF :=
    match l with
    | [] => e
    | v :: r =>
      let e' := match v with
        | .nil => e
        | _ => if only i then (match envWrite (F := XF) X.flexmap (placeOf variant i) v e with | .ok e' => e' | .error _ => e) else e
      go (i + 1) r e'
  go 0 vals e0

def peekRef (e : Env XF) : Ref → Val XF
  | .plain b => match e.top b with | .sc v => v | _ => .nil
  | .idx b k => match e.top b with
    | .map m => (m k.str).getD .nil
    | .arr a => (match k with | .i n => (a n).getD .nil | .s _ => .nil)
    | .sc _ => .nil

/-- literal rendering of an operand as the harness writes it: negative numbers are a unary minus on a literal -/
def litExpr (v : Val XF) : Expr Nat XF :=
  match v with
  | .nil => .xnil
  | .int i => if i < 0 then .un .minus (.lit (@LitNode.mkInt XF (xfOps 0) (wrap64 (-i)))) else .lit (@LitNode.mkInt XF (xfOps 0) i)
  | .flt f =>
    match f with
    | .fin true m e => .un .minus (.lit (LitNode.mkFlt (.fin false m e)))
    | _ => .lit (LitNode.mkFlt f)
  | .str s => .str s
  | .mbs b => .mbs b
  | .char c => .chr c
  | .bchr b => .bchr b

def substLits (isLit : Nat → Bool) (vals : List (Val XF)) : Expr Nat XF → Expr Nat XF
  | .var i => if isLit i then litExpr (vals.getD i .nil) else .var i
  | .un op e => .un op (substLits isLit vals e)
  | .bin op l r => .bin op (substLits isLit vals l) (substLits isLit vals r)
  | .cnd c t f => .cnd (substLits isLit vals c) (substLits isLit vals t) (substLits isLit vals f)
  | .asg op x y => .asg op x (substLits isLit vals y)
  | e => e

/-- the block-locals placements `blk<d><o|n>-<sib|deep|loop|call>` (vlib/props/c08.py block_function): the operands are
the locals of a block at depth `d`; the source program is built as an `SStmt`, compiled the way `parse_block` assigns
frame slots (`compileTop`) and run on the flat frame (`run` = `run_block0`), starting from a frame full of garbage.
The observed part of the trace is its tail: the value of the expression, the operands, the enclosing blocks' sentinels. -/
def runBlk (salt : Nat) (variant : String) (p : Parsed) : String :=
  let X := extFor salt
  letI : FloatOps XF := xfOps salt
  let n := p.vals.length
  let d : Nat := if variant.startsWith "blk1" then 1 else if variant.startsWith "blk2" then 2 else 3
  let own := (variant.drop 4).startsWith "o"
  let hist := (variant.splitOn "-").getD 1 ""
  let ρ : Nat → Ref := fun i => .plain (.arg i)      -- 0 = md, 1 = it (parameters of the function)
  let sx (e : Expr SRef XF) : SStmt XF := .ex e
  let seqAll (l : List (SStmt XF)) : SStmt XF := l.foldr .seq .skip
  let lit0 (v : Val XF) : Expr SRef XF := (litExpr v).map (fun _ => SRef.oth 0)
  let setLoc (up idx : Nat) (e : Expr SRef XF) : SStmt XF := sx (.asg .none (.loc up idx) e)
  let junk (k : Nat) : SStmt XF :=
    seqAll ((List.range k).map fun i => setLoc 0 i (if i % 2 == 0 then .str s!"J{i}" else lit0 (.int 40)))
  let inits : List (SStmt XF) := (List.range n).filterMap fun i =>
    match p.vals.getD i .nil with
    | .nil => none
    | v => some (setLoc 0 i (lit0 v))
  let keeps : List (Nat × Nat × String) :=
    if own then (List.range d).map fun j => (d - j, (if j == 0 then 1 else 0), s!"str [K{j}]") else []
  let use : SStmt XF := seqAll (inits ++ [sx (p.e.map (fun i => SRef.loc 0 i))] ++
    (List.range n).map (fun i => sx (.var (.loc 0 i))) ++ keeps.map (fun k => sx (.var (.loc k.1 k.2.1))))
  let inner : SStmt XF :=
    if hist == "sib" then .seq (.blk n (junk n)) (.blk n use)
    else if hist == "deep" then .seq (.blk 1 (.seq (setLoc 0 0 (.str "Y")) (.blk n (junk n)))) (.blk n use)
    else if hist == "loop" then
      .seq (sx (.asg .none (.oth 1) (lit0 (.int 0))))
        (.rep 2 (.blk n (.ite (.bin .eq (.var (.oth 1)) (lit0 (.int 0))) (.seq (junk n) (sx (.incpst .plus (.oth 1)))) use)))
    else .blk n (.ite (.var (.oth 0)) (junk n) use)
  let wrap (j : Nat) (body : SStmt XF) : SStmt XF :=
    if own then .blk 1 (.seq (setLoc 0 0 (.str s!"K{j}")) body) else .blk 0 body
  let body := (List.range (d - 1)).foldl (fun b jj => wrap (d - 1 - jj) b) inner
  let k0 : Nat := if own then 2 else 0                -- r, k0
  let topBody : SStmt XF := if own then .seq (setLoc 0 1 (.str "K0")) body else body
  let prog : Stmt XF := compileTop ρ k0 topBody
  let setMd (v : Int) : Stmt XF := .ex (.asg .none (ρ 0) ((litExpr (.int v)).map (fun _ => ρ 0)))
  let full : Stmt XF := if hist == "call" then .seq (setMd 1) (.seq prog (.seq (setMd 0) prog)) else prog
  let genv : Env XF :=
    { named := fun _ => none, gbl := fun _ => .sc .nil, lcl := fun _ => .sc (.str "G"), arg := fun _ => .sc .nil }
  match run X full (genv, []) with
  | .error er => errCode er
  | .ok (_, tr) =>
    let m := 1 + n + keeps.length
    let suf := tr.drop (tr.length - m)
    let res := suf.getD 0 .nil
    let slots := (suf.drop 1).take n
    let kv := (suf.drop (1 + n)).map showVal
    let clob := kv != keeps.map (fun k => k.2.2)
    (if clob then "CLOBBERED " else "") ++ showVal res ++ "|" ++ joinWith ";" (slots.map showVal)

def runCase (salt : Nat) (variant : String) (p : Parsed) : String :=
  if variant.startsWith "blk" then runBlk salt variant p else
  let X := extFor salt
  letI : FloatOps XF := xfOps salt
  let n := p.vals.length
  let targets := p.e.targets
  let slotsOut (e : Env XF) (showAll : Bool) : String :=
    joinWith ";" ((List.range n).map fun i =>
      if showAll || targets.contains i then showVal (peekRef e (placeOf variant i)) else "-")
  if variant == "lit" then
    let isLit := fun i => !(targets.contains i)
    let e1 := substLits isLit p.vals p.e
    match foldExpr e1 with
    | .error er => "PARSE-" ++ errCode er
    | .ok e2 =>
      let env := initEnv X variant p.vals (fun i => targets.contains i)
      match eval X (envStorage X) (e2.map (placeOf variant)) env with
      | .error er => errCode er
      | .ok (v, env') => showVal v ++ "|" ++ slotsOut env' false
  else if variant.startsWith "ref" then
    let env := initEnv X variant p.vals (fun _ => true)
    match evalCallByRef X ((List.range n).map (placeOf variant)) (p.e.map argπ) env with
    | .error er => errCode er
    | .ok (v, env') => showVal v ++ "|" ++ slotsOut env' true
  else
    let env := initEnv X variant p.vals (fun _ => true)
    match eval X (envStorage X) (p.e.map (placeOf variant)) env with
    | .error er => errCode er
    | .ok (v, env') => showVal v ++ "|" ++ slotsOut env' true
where
  argπ : Nat → Ref := fun i => .plain (.arg i)

def step (_ : Unit) (line : String) : Unit × String :=
  match words line with
  | variant :: toks =>
    match parseE (toks.length + 1) toks [] with
    | some (e, [], vals) =>
      let p : Parsed := { e := e, vals := vals }
      let a := runCase 0 variant p
      let b := runCase 1 variant p
      let c := runCase 2 variant p
      let d := runCase 3 variant p
      let e := runCase 4 variant p
      ((), if a == b && a == c && a == d && a == e then a else "?" ++ a)
    | _ => ((), "bad-case")
  | [] => ((), "bad-case")

def main : IO Unit := do
  forLines (← IO.getStdin) Unit () step

end Hawk.Drv.Expr
