/-! line-protocol helpers shared by the per-area drivers (not part of any proof) -/
namespace Hawk.Drv

def words (line : String) : List String :=
  (line.trimAscii.toString.splitOn " ").filter (· ≠ "")

partial def forLines (h : IO.FS.Stream) (σ : Type) (init : σ) (step : σ → String → σ × String) : IO Unit := do
  let out ← IO.getStdout
  let rec loop (s : σ) (n : Nat) : IO Unit := do
    let line ← h.getLine
    if line.isEmpty then
      out.flush
      return ()
    let (s', o) := step s line
    out.putStrLn o
    if n % 4096 == 0 then out.flush
    loop s' (n + 1)
  loop init 1

def joinWith (sep : String) (l : List String) : String := sep.intercalate l

end Hawk.Drv
