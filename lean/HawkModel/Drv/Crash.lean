import HawkModel.Crash
import HawkModel.Drv.Util
/-! driver for the crash area (C01): one guard-model query per line in, canonical answer out

  div|idiv|mod a b            evaluator on two integers
  fdiv|fidiv|fmod a b         constant folder on two integer literals
  pow b e                     integer exponentiation, e >= 0
  ic int l | ic flt neg|zero|pos|nan     value stored into gbl.ignorecase by the extracted store shapes
  substr len lindex lcount|-  (offset count)
  index len b|- 0|1           region handed to the finder (0 = index, 1 = rindex)
  match len start             region handed to the matcher
-/
namespace Hawk.Drv.Crash
open Hawk.Crash

def showOut : Out → String
  | .int v => s!"int {v}"
  | .flt n d => s!"flt {n} {d}"
  | .err .divby0 => "err divby0"
  | .err .operand => "err operand"
  | .trap => "trap"

def showReg : Option (Nat × Nat) → String
  | none => "none"
  | some (o, n) => s!"{o} {n}"

open Hawk.Gen.FlagSites in
/-- the store executed by `set_global` for this kind of number: the int-shaped row for `vt == 0`, else the float one -/
def icStore (v : Num) : String :=
  let wanted (s : Shape) : Bool := match v, s with
    | .int _, .intNe0 => true
    | .int _, .intSign => true
    | .flt _, .fltNe0 => true
    | .flt _, .fltSign => true
    | _, _ => false
  match writes.filter (fun w => wanted w.shape) with
  | [w] => toString (storeValue w.shape v)
  | l => s!"ambiguous {l.length}"

def step (_ : Unit) (line : String) : Unit × String :=
  let w := words line
  let i? (s : String) : Option Int := s.toInt?
  let r := match w with
    | [op, a, b] =>
      match i? a, i? b with
      | some a, some b =>
        if op == "div" then showOut (evalDiv a b)
        else if op == "idiv" then showOut (evalIdiv a b)
        else if op == "mod" then showOut (evalMod a b)
        else if op == "fdiv" then showOut (foldDiv a b)
        else if op == "fidiv" then showOut (foldIdiv a b)
        else if op == "fmod" then showOut (foldMod a b)
        else if op == "pow" then (if b ≥ 0 then s!"int {evalPowNonneg a b.toNat}" else "bad-op")
        else if op == "match" then (if a ≥ 0 then showReg (matchRegion a.toNat b) else "bad-op")
        else "bad-op"
      | _, _ =>
        if op == "ic" && a == "int" then (match i? b with | some l => icStore (.int l) | none => "bad-op")
        else if op == "ic" && a == "flt" then
          (match b with
           | "neg" => icStore (.flt .neg) | "zero" => icStore (.flt .zero)
           | "pos" => icStore (.flt .pos) | "nan" => icStore (.flt .nan) | _ => "bad-op")
        else "bad-op"
    | ["substr", len, li, lc] =>
      match len.toNat?, i? li with
      | some len, some li =>
        let c : Option (Option Int) := if lc == "-" then some none else (i? lc).map some
        match c with
        | some c => let r := substrRegion len li c; s!"{r.1} {r.2}"
        | none => "bad-op"
      | _, _ => "bad-op"
    | ["index", len, b, r] =>
      match len.toNat? with
      | some len =>
        let bb : Option (Option Int) := if b == "-" then some none else (i? b).map some
        match bb with
        | some bb => showReg (indexRegion len bb (r == "1"))
        | none => "bad-op"
      | none => "bad-op"
    | _ => "bad-op"
  ((), r)

def main : IO Unit := do
  forLines (← IO.getStdin) Unit () step

end Hawk.Drv.Crash
