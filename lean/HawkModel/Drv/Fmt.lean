import HawkModel.Fmt
import HawkModel.Drv.Util
/-! driver for the fmt area (C12). Same TAB separated lines as harness/fmt_h.c:
  S|B|C <fmthex> <cfmthex|-> <cval|-> <arg>...
    S: hawk_rtx_format, B: hawk_rtx_formatmbs, C: hawk_rtx_format called from val_flt_to_str (CONVFMT/OFMT)
  arg : i:<dec> | f:<text>:<trunc>:<convfmt-text-hex> | s:<hex>:<valtoint> | c:<code>:<valtoint> | n:
  out : M=<piece>,<piece>...  R=<units|NA>
    piece: T:<units> | L:<spec units>:<index of the argument> | X | !EFMTARG
    R = CSpec.render of the C format `cfmthex` on `cval` (d:/u:/c:/s:), `*` taken from the leading i: arguments
  other lines (R G V of the harness protocol) -> "skip" -/
namespace Hawk.Drv.Fmt
open Hawk.Fmt

def hexVal (c : Char) : Nat :=
  if c.isDigit then c.toNat - 48 else if 'a' ≤ c ∧ c ≤ 'f' then c.toNat - 87 else if 'A' ≤ c ∧ c ≤ 'F' then c.toNat - 55 else 0

/-- "6162" -> "ab"; "u00e40062" -> 4 hex digits per unit; stops at ':' -/
def unhex (s : String) : Str :=
  let cs := s.toList.takeWhile (· != ':')
  let (wide, cs) := match cs with | 'u' :: r => (true, r) | _ => (false, cs)
  let nd := if wide then 4 else 2
  let rec go (l : List Char) (fuel : Nat) (acc : Str) : Str :=
    match fuel with
    | 0 => acc.reverse
    | fuel + 1 =>
      if l.length < nd then acc.reverse
      else
        let v := (l.take nd).foldl (fun n c => n * 16 + hexVal c) 0
        go (l.drop nd) fuel (Char.ofNat v :: acc)
  go cs cs.length []

def hexNat (n : Nat) : String := String.ofList (Nat.toDigits 16 n)

def units (s : Str) : String :=
  if s.isEmpty then "-" else ".".intercalate (s.map fun c => hexNat c.toNat)

def parseInt (s : String) : Int :=
  match s.toList with
  | '-' :: r => -((String.ofList r).toNat?.getD 0 : Nat)
  | _ => (s.toNat?.getD 0 : Nat)

def parseArg (a : String) : Option Arg :=
  let parts := a.splitOn ":"
  match parts with
  | "i" :: v :: _ => some (.int (parseInt v))
  | "f" :: _ :: tr :: tx :: _ => some (.flt (parseInt tr) (unhex tx))
  | "s" :: h :: n :: _ => some (.str (unhex h) (parseInt n))
  | "c" :: code :: n :: _ => some (.chr (Char.ofNat (code.toNat?.getD 0)) (parseInt n))
  | "n" :: _ => some .nil
  | _ => none

def showPiece (args : List Arg) : Piece → String
  | .text s => "T:" ++ units s
  | .libc spec a => "L:" ++ units spec ++ ":" ++ toString (args.idxOf a)
  | .ext _ _ => "X"

def mergeText : List Piece → List Piece
  | .text a :: .text b :: r => mergeText (.text (a ++ b) :: r)
  | p :: r => p :: mergeText r
  | [] => []
termination_by l => l.length

def parseW (t : String) : Option WSpec :=
  match t.toList with
  | ['n'] => some .none
  | 'l' :: ds => some (.lit ds)
  | 's' :: v => some (.star (parseInt (String.ofList v)))
  | _ => none

def parseP (t : String) : Option PSpec :=
  match t.toList with
  | ['n'] => some .none
  | 'l' :: ds => some (.lit ds)
  | 's' :: v => some (.star (parseInt (String.ofList v)))
  | _ => none

/-- CSpec.render on the C value. With the annotation `…:S:<flagshex>:<w>:<p>:<conv>:<tailhex>` in `cval` the specification is
given in parts and read by `cspec` (the function the theorems use); otherwise the C format text is read by `CSpec.parse`. -/
def cRender (cfmt : Str) (cval : String) (args : List Arg) : String :=
  let parts := cval.splitOn ":"
  let spec? : Option (CSpec.Spec × Str) :=
    match parts with
    | _ :: _ :: "S" :: fl :: w :: p :: conv :: tail :: _ =>
      match parseW w, parseP p, (unhex conv) with
      | some w, some p, [c] => some (cspec (unhex fl) w p c, unhex tail)
      | _, _, _ => none
    | _ =>
      match cfmt with
      | '%' :: l =>
        let stars := (args.takeWhile fun a => match a with | .int _ => true | _ => false).map Arg.toInt
        let nst := (l.filter (· == '*')).length
        (CSpec.parse l (stars.take nst)).map fun (spec, _, rest) => (spec, rest)
      | _ => none
  match spec? with
  | none => "NA"
  | some (spec, rest) =>
    match parts with
    | "d" :: v :: _ =>
      if spec.conv == 'd' ∨ spec.conv == 'i' then units (CSpec.render spec (parseInt v) ++ rest) else "NA"
    | "u" :: v :: _ =>
      if spec.conv == 'o' ∨ spec.conv == 'u' ∨ spec.conv == 'x' ∨ spec.conv == 'X' then units (CSpec.render spec (parseInt v) ++ rest) else "NA"
    | "c" :: v :: _ =>
      if spec.conv == 'c' then units (CSpec.renderChar spec (Char.ofNat (v.toNat?.getD 0)) ++ rest) else "NA"
    | "s" :: h :: _ =>
      if spec.conv == 's' then units (CSpec.renderStr spec (unhex h) ++ rest) else "NA"
    | _ => "NA"

def step (_ : Unit) (line : String) : Unit × String :=
  let line := (line.toList.filter fun c => c != '\n' && c != '\r')
  let fields := (String.ofList line).splitOn "\t"
  match fields with
  | mode :: fmthex :: cfmthex :: cval :: argstrs =>
    if mode == "S" ∨ mode == "B" ∨ mode == "C" then
      match argstrs.mapM parseArg with
      | none => ((), "bad-arg")
      | some args =>
        let cfg : Cfg := { mbs := mode == "B", valMode := mode == "C" }
        let m := match format cfg (unhex fmthex) args with
          | .error .efmtarg => "!EFMTARG"
          | .ok ps => let ps := mergeText ps; if ps.isEmpty then "T:-" else ",".intercalate (ps.map (showPiece args))
        let r := if cfmthex == "-" then "NA" else cRender (unhex cfmthex) cval args
        ((), s!"M={m} R={r}")
    else ((), "skip")
  | _ => ((), "skip")

def main : IO Unit := do
  forLines (← IO.getStdin) Unit () step

end Hawk.Drv.Fmt
