import HawkModel.Fmt
import HawkModel.FmtOut
import HawkModel.Drv.Util
/-! driver for the fmt area (C12). Same TAB separated lines as harness/fmt_h.c:
  S|B|C <fmthex> <cfmthex|-> <cval|-> <arg>...
    S: hawk_rtx_format, B: hawk_rtx_formatmbs, C: hawk_rtx_format called from val_flt_to_str (CONVFMT/OFMT)
  arg : i:<dec> | f:<text>:<trunc>:<convfmt-text-hex> | s:<hex>:<valtoint> | c:<code>:<valtoint> | n:
  out : M=<piece>,<piece>...  R=<units|NA>
    piece: T:<units> | L:<spec units>:<index of the argument> | X | !EFMTARG
    R = CSpec.render of the C format `cfmthex` on `cval` (d:/u:/c:/s:), `*` taken from the leading i: arguments
  other lines (R G V of the harness protocol) -> "skip" -/
namespace Hawk.Drv.Fmt
open Hawk.Fmt

def hexVal (c : Char) : Nat :=
  if c.isDigit then c.toNat - 48 else if 'a' ≤ c ∧ c ≤ 'f' then c.toNat - 87 else if 'A' ≤ c ∧ c ≤ 'F' then c.toNat - 55 else 0

/-- "6162" -> "ab"; "u00e40062" -> 4 hex digits per unit; stops at ':' -/
def unhex2 : List Char → Str → Str
  | a :: b :: r, acc => unhex2 r (Char.ofNat (hexVal a * 16 + hexVal b) :: acc)
  | _, acc => acc.reverse

def unhex4 : List Char → Str → Str
  | a :: b :: c :: d :: r, acc => unhex4 r (Char.ofNat (((hexVal a * 16 + hexVal b) * 16 + hexVal c) * 16 + hexVal d) :: acc)
  | _, acc => acc.reverse

def unhex (s : String) : Str :=
  let cs := s.toList.takeWhile (· != ':')
  match cs with
  | 'u' :: r => unhex4 r []
  | _ => unhex2 cs []

def hexNat (n : Nat) : String := String.ofList (Nat.toDigits 16 n)

def units (s : Str) : String :=
  if s.isEmpty then "-" else ".".intercalate (s.map fun c => hexNat c.toNat)

def parseInt (s : String) : Int :=
  match s.toList with
  | '-' :: r => -((String.ofList r).toNat?.getD 0 : Nat)
  | _ => (s.toNat?.getD 0 : Nat)

def parseArg (a : String) : Option Arg :=
  let parts := a.splitOn ":"
  match parts with
  | "i" :: v :: _ => some (.int (parseInt v))
  | "f" :: _ :: tr :: tx :: _ => some (.flt (parseInt tr) (unhex tx))
  | "s" :: h :: n :: _ => some (.str (unhex h) (parseInt n))
  | "c" :: code :: n :: _ => some (.chr (Char.ofNat (code.toNat?.getD 0)) (parseInt n))
  | "n" :: _ => some .nil
  | _ => none

def showPiece (args : List Arg) : Piece → String
  | .text s => "T:" ++ units s
  | .libc spec a => "L:" ++ units spec ++ ":" ++ toString (args.idxOf a)
  | .ext _ _ => "X"

def mergeText : List Piece → List Piece
  | .text a :: .text b :: r => mergeText (.text (a ++ b) :: r)
  | p :: r => p :: mergeText r
  | [] => []
termination_by l => l.length

def parseW (t : String) : Option WSpec :=
  match t.toList with
  | ['n'] => some .none
  | 'l' :: ds => some (.lit ds)
  | 's' :: v => some (.star (parseInt (String.ofList v)))
  | _ => none

def parseP (t : String) : Option PSpec :=
  match t.toList with
  | ['n'] => some .none
  | 'l' :: ds => some (.lit ds)
  | 's' :: v => some (.star (parseInt (String.ofList v)))
  | _ => none

/-- CSpec.render on the C value. With the annotation `…:S:<flagshex>:<w>:<p>:<conv>:<tailhex>` in `cval` the specification is
given in parts and read by `cspec` (the function the theorems use); otherwise the C format text is read by `CSpec.parse`. -/
def cRender (cfmt : Str) (cval : String) (args : List Arg) : String :=
  let parts := cval.splitOn ":"
  let spec? : Option (CSpec.Spec × Str) :=
    match parts with
    | _ :: _ :: "S" :: fl :: w :: p :: conv :: tail :: _ =>
      match parseW w, parseP p, (unhex conv) with
      | some w, some p, [c] => some (cspec (unhex fl) w p c, unhex tail)
      | _, _, _ => none
    | _ =>
      match cfmt with
      | '%' :: l =>
        let stars := (args.takeWhile fun a => match a with | .int _ => true | _ => false).map Arg.toInt
        let nst := (l.filter (· == '*')).length
        (CSpec.parse l (stars.take nst)).map fun (spec, _, rest) => (spec, rest)
      | _ => none
  match spec? with
  | none => "NA"
  | some (spec, rest) =>
    match parts with
    | "d" :: v :: _ =>
      if spec.conv == 'd' ∨ spec.conv == 'i' then units (CSpec.render spec (parseInt v) ++ rest) else "NA"
    | "u" :: v :: _ =>
      if spec.conv == 'o' ∨ spec.conv == 'u' ∨ spec.conv == 'x' ∨ spec.conv == 'X' then units (CSpec.render spec (parseInt v) ++ rest) else "NA"
    | "c" :: v :: _ =>
      if spec.conv == 'c' then units (CSpec.renderChar spec (Char.ofNat (v.toNat?.getD 0)) ++ rest) else "NA"
    | "s" :: h :: _ =>
      if spec.conv == 's' then units (CSpec.renderStr spec (unhex h) ++ rest) else "NA"
    | _ => "NA"

def parseKind (k : String) : Option OutKind :=
  if k == "cpl" then some .cpl else if k == "cplcpy" then some .cplcpy else if k == "cpldup" ∨ k == "oodup" ∨ k == "getoo" ∨ k == "bdup" ∨ k == "getb" then some .cpldup
  else if k == "strp" then some .strp else if k == "strpcat" then some .strpcat else none

def showVRes (buflen : Nat) : VRes → String
  | .ok t => s!"K=0 len={t.length} text={units t}"
  | .einval (some n) => s!"K=-1 len={n} text=NA"
  | .einval none => s!"K=-1 len={buflen} text=NA"

/-- `K <kind> <p|-> <buflen> <prehex> <arg> exp=<hex>`: the model of hawk_rtx_valtostr for integers (val_int_to_str), strings, characters
and nil (str_to_str) and, for a float, of the delivery of its text (given as exp=, produced by libc) -/
def stepK (fields : List String) : String :=
  match fields with
  | _ :: kind :: _ :: bl :: pre :: arg :: rest =>
    let fiv : Option Int := match arg.splitOn ":" with
      | "f" :: _ :: n :: _ => if n == "x" ∨ n == "" then none else some (parseInt n)
      | _ => none
    match parseKind kind, parseArg (if arg.startsWith "f:" then "f:0:0:" else if arg.startsWith "s:" then arg ++ ":0" else if arg.startsWith "c:" then arg ++ ":0" else arg) with
    | some k, some a =>
      let buflen := bl.toNat?.getD 0
      let pre := unhex pre
      let exp : Str := match rest with
        | e :: _ => if e.startsWith "exp=" then unhex (String.ofList (e.toList.drop 4)) else []
        | [] => []
      match a with
      | .int v => showVRes buflen (valIntToStr v k buflen pre)
      | .flt _ _ => showVRes buflen (valFltToStr fiv exp k buflen pre)
      | .str s _ => showVRes buflen (strToStr s k buflen pre)
      | .chr c _ => if kind == "cpl" then "skip" else showVRes buflen (strToStr [c] k buflen pre)
      | .nil => showVRes buflen (strToStr [] k buflen pre)
    | _, _ => "skip"
  | _ => "skip"

def step1 (_ : Unit) (line : String) : Unit × String :=
  let line := (line.toList.filter fun c => c != '\n' && c != '\r')
  let fields := (String.ofList line).splitOn "\t"
  match fields with
  | mode :: fmthex :: cfmthex :: cval :: argstrs =>
    if mode == "K" then ((), stepK fields) else
    if mode == "O" then
      -- `O <length of the text libc renders> - -`: the fb.out protocol of fmt_outv for a text of that length
      let q := fmthex.toNat?.getD 0
      match outLoop (List.replicate q 'x') 63 false 0 with
      | .oops => ((), "O=oops")
      | .ok capa heap calls buf => ((), s!"O=ok capa={capa} heap={if heap then 1 else 0} calls={calls} len={buf.length}")
    else
    if mode == "S" ∨ mode == "B" ∨ mode == "C" then
      match argstrs.mapM parseArg with
      | none => ((), "bad-arg")
      | some args =>
        let cfg : Cfg := { mbs := mode == "B", valMode := mode == "C" }
        -- mode C (val_flt_to_str): `f:<text>:<trunc>:<hex>:<integer or x>` says whether the value is an exact integer in range
        let civ : Option Int := match argstrs with
          | [a] => (match a.splitOn ":" with
            | "f" :: _ :: _ :: _ :: n :: _ => if n == "x" ∨ n == "" then none else some (parseInt n)
            | _ => none)
          | _ => none
        let res := if mode == "C" then
            (match args with
             | [a] => valFltToPieces cfg.tmpLen false (unhex fmthex) (unhex fmthex) civ a
             | _ => format cfg (unhex fmthex) args)
          else format cfg (unhex fmthex) args
        let m := match res with
          | .error .efmtarg => "!EFMTARG"
          | .ok ps => let ps := mergeText ps; if ps.isEmpty then "T:-" else ",".intercalate (ps.map (showPiece args))
        let r := if cfmthex == "-" then "NA" else cRender (unhex cfmthex) cval args
        ((), s!"M={m} R={r}")
    else ((), "skip")
  | _ => ((), "skip")

/-- `Q <S|B> <flags hex> <width> <prec|-> <conv> <value>`: one integer conversion in the runtime whose scratch buffer lengths are the
driver's state (`FmtOut.seqStep`); `Q0` starts a new runtime. -> Q=<format.tmp.len> <formatmbs.tmp.len> text=<units> calls=<size>/<len>,... -/
def step (st : Scratch) (line : String) : Scratch × String :=
  let fields := (String.ofList (line.toList.filter fun c => c != '\n' && c != '\r')).splitOn "\t"
  match fields with
  | "Q0" :: _ => ({}, "Q=4096 4096")
  | "Q" :: m :: flh :: w :: p :: c :: v :: _ =>
    let flags := flagsOf (unhex flh)
    let precGiven := p != "-"
    let prec : Int := if precGiven then parseInt p else -1
    let r := seqStep st (m == "B") flags (w.toNat?.getD 0) precGiven prec (c.toList.headD 'd') (parseInt v)
    let calls := ",".intercalate (r.2.2.map fun (a, b) => s!"{a}/{b}")
    (r.1, s!"Q={r.1.wide} {r.1.byte} text={units r.2.1} calls={calls}")
  | _ => (st, (step1 () line).2)

def main : IO Unit := do
  forLines (← IO.getStdin) Scratch {} step

end Hawk.Drv.Fmt
