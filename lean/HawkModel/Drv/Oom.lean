import HawkModel.Oom
import HawkModel.Gen.Unwind
import HawkModel.Drv.Util
/-! line-protocol driver for C10 (`hawkdrv oom`), not part of any proof.

  tables
      one line per generated constructor: name, steps, resources, wf, request count if known
  sim <ctor> <none|one|from> <k> [fn=cost,fn=cost...]
      run the constructor with allocator REQUEST number k refused (one) / all requests from k on refused
      (from); requests are counted through nested constructors exactly as the injecting allocator of
      harness/oom_h.c counts them.  `fn=cost` gives the measured request count of a non-extracted callee.
      prints: ctor=<n> mode=<m> k=<k> rc=<ok|fail|unknown> nreq=<n|?> leaked=<n> badrel=<n> stop=<step|->
  ecs lines: new <capa> <orc> | ncat <n> <orc> | ncpy <n> <orc> | setcapa <c> <orc> | setlen <n> <orc> | clear
             | nrcat <n> <orc> | nccat <n> <orc> | del <i> <n> | amend <pos> <len> <n> <orc>
      prints: ret=<n|ENOMEM> len=<n> capa=<n> ptr=<0|1> s=<contents>
  gc <p0> <p1> <p2> <p3> <t0> <t1> <t2> <orc>   /  mk <same>
      prints the event trace of gcCallocVal / makeContainerVal
-/
namespace Hawk.Drv.Oom
open Hawk.Oom

def parseOrc (s : String) : Oracle :=
  if s == "-" then [] else s.toList.map (fun c => c != 'f')

def findCtor (n : String) : Option Ctor := Gen.all.find? (fun c => c.name == n)

def parseCosts (s : String) : List (String × Nat) :=
  (s.splitOn ",").filterMap (fun kv =>
    match kv.splitOn "=" with
    | [k, v] => v.toNat?.map (fun n => (k, n))
    | _ => none)

/-- `init_rtx=@init_rtx__skip`: use another generated variant for a callee -/
def parseAliases (s : String) : List (String × String) :=
  (s.splitOn ",").filterMap (fun kv =>
    match kv.splitOn "=@" with
    | [k, v] => some (k, v)
    | _ => none)

structure Sim where
  ok : Option Bool      -- none = cannot be predicted (unknown-cost callee reached by the fault)
  made : Option Nat     -- requests made by this call (none = unknown)
  leaked : Nat
  badrel : Nat
  stop : Option Nat
deriving Inhabited

def refused (mode : String) (k : Nat) (i : Nat) : Bool :=
  if mode == "one" then i == k else if mode == "from" then k ≤ i else false

/-- first failing prefix length: the step at which control leaves the main path -/
def stopIndex (t : Table) (fail : Nat → Bool) : Option Nat :=
  (List.range t.ops.length).find? (fun i => !(run { t with ops := t.ops.take (i + 1) } fail).ok)

partial def simCtor (aliases : List (String × String)) (costs : List (String × Nat)) (mode : String) (k : Nat) (c : Ctor) (base : Option Nat) : Sim :=
  -- per step: did it fail, how many requests did it make (assuming it is reached)
  let rec walk (ops : List Op) (cs : List Callee) (cnt : Option Nat) (acc : List (Option Bool × Option Nat)) :
      List (Option Bool × Option Nat) :=
    match ops, cs with
    | [], _ => acc.reverse
    | _ :: ops', [] => walk ops' [] cnt ((some false, some 0) :: acc)
    | op :: ops', cal :: cs' =>
      let isStep := match op with | .check _ _ => false | _ => true
      if !isStep then walk ops' cs' cnt ((some false, some 0) :: acc) else
      let (f, made) : Option Bool × Option Nat :=
        match cal with
        | .prim => (cnt.map (fun n => refused mode k n), some 1)
        | .leaf _ n =>
          match cnt with
          | none => (none, none)
          | some b =>
            let idx := (List.range n).find? (fun j => refused mode k (b + j))
            match idx with
            | some j => (some true, some (j + 1))
            | none => (some false, some n)
        | .call name =>
          match findCtor ((aliases.lookup name).getD name) with
          | none => (none, none)
          | some child =>
            let r := simCtor aliases costs mode k child cnt
            (r.ok.map (fun b => !b), r.made)
        | .opaque fn =>
          match costs.lookup fn, cnt with
          | some w, some b =>
            let idx := (List.range w).find? (fun j => refused mode k (b + j))
            match idx with
            | some j => (some true, some (j + 1))   -- assumed to give up at its first refusal
            | none => (some false, some w)
          | _, _ => (none, none)
        | .none => (some false, some 0)
      let cnt' := match cnt, made with | some a, some b => some (a + b) | _, _ => none
      walk ops' cs' cnt' ((f, made) :: acc)
  let steps := walk c.table.ops c.callees base []
  -- the oracle over step indices; an unpredictable step is treated as not failing, and noted
  let fail : Nat → Bool := fun i => match steps[i]? with | some (some true, _) => true | _ => false
  let out := run c.table fail
  let stop := if out.ok then none else stopIndex c.table fail
  let upto := match stop with | some i => i + 1 | none => c.table.ops.length
  let unknownBefore := (steps.take upto).any (fun x => x.1.isNone || x.2.isNone)
  let made := if unknownBefore then none else some ((steps.take upto).foldl (fun a x => a + x.2.getD 0) 0)
  let leaked := (out.acquired.filter (fun r => !(out.released.contains r))).length
  let badrel := (out.released.filter (fun r => !(out.acquired.contains r))).length +
                (out.released.length - out.released.eraseDups.length)
  { ok := if unknownBefore then none else some out.ok, made := made,
    leaked := if out.ok then 0 else leaked, badrel := badrel, stop := stop }

def showSim (name mode : String) (k : Nat) (s : Sim) : String :=
  let rc := match s.ok with | some true => "ok" | some false => "fail" | none => "unknown"
  let nreq := match s.made with | some n => toString n | none => "?"
  let stop := match s.stop with | some n => toString n | none => "-"
  s!"ctor={name} mode={mode} k={k} rc={rc} nreq={nreq} leaked={s.leaked} badrel={s.badrel} stop={stop}"

def letters (l : List Nat) : String :=
  String.ofList (l.map (fun n => if n == 32 then '_' else Char.ofNat n))

structure St where
  ecs : Ecs := { chars := [], capa := 0, hasPtr := false }
  ctr : Nat := 0

def gen (ctr n : Nat) : List Nat := (List.range n).map (fun i => 97 + (ctr + i) % 26)

def showEcs (r : EcsRes) : String :=
  let ret := match r.ret with | .ok n => toString n | .error _ => "ENOMEM"
  s!"ret={ret} len={r.ecs.len} capa={r.ecs.capa} ptr={if r.ecs.hasPtr then 1 else 0} s={letters r.ecs.chars}"

def num (s : String) : Nat := s.toNat?.getD 0

def gcOf (w : List String) : Gc × Oracle :=
  match w with
  | [a, b, c, d, e, f, g, o] => ({ p0 := num a, p1 := num b, p2 := num c, p3 := num d, t0 := num e, t1 := num f, t2 := num g }, parseOrc o)
  | _ => ({ p0 := 0, p1 := 0, p2 := 0, p3 := 0, t0 := 100, t1 := 20, t2 := 10 }, [])

def showEv : GcEv → String
  | .collect g => s!"gc{g}"
  | .request true => "req+"
  | .request false => "req-"
  | .freeVal => "free"

def showCalloc (r : CallocRes) : String :=
  s!"granted={r.granted} evs={" ".intercalate (r.evs.map showEv)} p={r.gc.p0},{r.gc.p1},{r.gc.p2},{r.gc.p3}"

def step (st : St) (line : String) : St × String :=
  match words line with
  | ["tables"] =>
    let ls := Gen.all.map (fun c =>
      let s := simCtor [] [] "none" 0 c (some 0)
      let n := match s.made with | some n => toString n | none => "?"
      s!"ctor={c.name} file={c.file} steps={c.table.ops.length} res={c.table.resources.length} labels={c.table.labels.length} wf={c.table.wf} nreq={n}")
    (st, " ; ".intercalate ls)
  | "sim" :: name :: mode :: k :: rest =>
    match findCtor name with
    | none => (st, "bad-ctor")
    | some c =>
      let costs := match rest with | x :: _ => parseCosts x | [] => []
      let aliases := match rest with | x :: _ => parseAliases x | [] => []
      (st, showSim name mode (num k) (simCtor aliases costs mode (num k) c (some 0)))
  | ["new", capa, orc] =>
    let r := Ecs.init (num capa) (parseOrc orc)
    ({ st with ecs := r.ecs }, showEcs r)
  | ["ncat", n, orc] =>
    let r := st.ecs.ncat (gen st.ctr (num n)) (parseOrc orc)
    ({ ecs := r.ecs, ctr := st.ctr + num n }, showEcs r)
  | ["ncpy", n, orc] =>
    let r := st.ecs.ncpy (gen st.ctr (num n)) (parseOrc orc)
    ({ ecs := r.ecs, ctr := st.ctr + num n }, showEcs r)
  | ["setcapa", c, orc] =>
    let r := st.ecs.setcapa (num c) (parseOrc orc)
    ({ st with ecs := r.ecs }, showEcs r)
  | ["setlen", n, orc] =>
    let r := st.ecs.setlen (num n) (parseOrc orc)
    ({ st with ecs := r.ecs }, showEcs r)
  | ["nrcat", n, orc] =>
    let r := st.ecs.nrcat (gen st.ctr (num n)) (parseOrc orc)
    ({ ecs := r.ecs, ctr := st.ctr + num n }, showEcs r)
  | ["nccat", n, orc] =>
    let r := st.ecs.nccat 122 (num n) (parseOrc orc)
    ({ st with ecs := r.ecs }, showEcs r)
  | ["del", i, n] =>
    let e := st.ecs.del (num i) (num n)
    ({ st with ecs := e }, showEcs { ecs := e, ret := .ok e.len, rest := [] })
  | ["amend", pos, len, n, orc] =>
    let r := st.ecs.amend (num pos) (num len) (gen st.ctr (num n)) (parseOrc orc)
    ({ ecs := r.ecs, ctr := st.ctr + num n }, showEcs r)
  | ["clear"] =>
    let e := st.ecs.clear
    ({ st with ecs := e }, showEcs { ecs := e, ret := .ok 0, rest := [] })
  | "gc" :: w => let (g, o) := gcOf w; (st, showCalloc (gcCallocVal g o))
  | "mk" :: w => let (g, o) := gcOf w; (st, showCalloc (makeContainerVal g false o))
  | _ => (st, "bad-op")

def main : IO Unit := do
  let stdin ← IO.getStdin
  forLines stdin St {} step

end Hawk.Drv.Oom
