import HawkModel.Gc
import HawkModel.Drv.Util
/-! driver for the gc area (C07): one client operation per line in, canonical heap dump out.
Same protocol as harness/gc_h.c.  `new legacy` selects the model of the code before the repair. -/
namespace Hawk.Drv.Gc
open Hawk.Gc

def showGc (g : Int) : String :=
  if g = GCH_MOVED then "M" else if g = GCH_UNREACHABLE then "U"
  else if g < 0 then s!"M-{(-1 - g)}" else toString g

def insertSorted (x : Nat) : List Nat → List Nat
  | [] => [x]
  | y :: r => if x ≤ y then x :: y :: r else y :: insertSorted x r

def sortNat (l : List Nat) : List Nat := l.foldr insertSorted []

def showObj (s : St) (i : Nat) (o : Obj) : String :=
  let ch := joinWith "," ((sortNat o.children).map toString)
  s!"{i}:{o.refs}:{showGc o.gcRefs}:{o.gen}:h{s.roots.count i}:[{ch}]"

def liveIds (s : St) : List Nat := (List.range s.heap.length).filter fun i => s.live i

def dump (before : St) (s : St) : String :=
  let objs := (liveIds s).filterMap fun i => (s.heap.get i).map (showObj s i)
  let freed := (liveIds before).filter fun i => !s.live i
  s!"f={if s.fault then 1 else 0} p={s.p0},{s.p1},{s.p2},{s.p3} t={s.t0},{s.t1},{s.t2} | {joinWith " " objs} | freed=[{joinWith "," (freed.map toString)}]"

def optStep (s : St) (r : Option St) : St × String :=
  match r with
  | some s' => (s', s!"r=ok {dump s s'}")
  | none => (s, s!"r=ERR {dump s s}")

def step (s : St) (line : String) : St × String :=
  match words line with
  | ["new"] => let n : St := {}; (n, s!"r=new {dump n n}")
  | ["new", "legacy"] => let n : St := { legacy := true }; (n, s!"r=new {dump n n}")
  | ["alloc", _] => let (s', i) := alloc s; (s', s!"r={i} {dump s s'}")
  | ["link", p, c] => match p.toNat?, c.toNat? with
    | some p, some c => optStep s (link s p c)
    | _, _ => (s, "bad-op")
  | ["unlink", p, c] => match p.toNat?, c.toNat? with
    | some p, some c => optStep s (unlink s p c)
    | _, _ => (s, "bad-op")
  | ["relink", p, c, d] => match p.toNat?, c.toNat?, d.toNat? with
    | some p, some c, some d => optStep s (relink s p c d)
    | _, _, _ => (s, "bad-op")
  | ["clear", p] => match p.toNat? with
    | some p => optStep s (clear s p)
    | _ => (s, "bad-op")
  | ["root", o] => match o.toNat? with
    | some o => optStep s (addRoot s o)
    | _ => (s, "bad-op")
  | ["drop", o] => match o.toNat? with
    | some o => optStep s (dropRoot s o)
    | _ => (s, "bad-op")
  | ["gc", g] => match g.toInt? with
    | some g => let (s', r) := gc s g; (s', s!"r={r} {dump s s'}")
    | _ => (s, "bad-op")
  | ["thr", g, t] => match g.toInt?, t.toInt? with
    | some g, some t => let (s', r) := setThreshold s g t; (s', s!"r={r} {dump s s'}")
    | _, _ => (s, "bad-op")
  | ["close"] =>
    let s' := teardown s
    (s', s!"r=closed leak={(liveIds s').length}")
  | _ => (s, "bad-op")

def main : IO Unit := do
  forLines (← IO.getStdin) St {} step

end Hawk.Drv.Gc
