import HawkModel.Gc
import HawkModel.GcCall
import HawkModel.GcVal
import HawkModel.Drv.Util
/-! driver for the gc area (C07): one client operation per line in, canonical heap dump out.
Same protocol as harness/gc_h.c.  `new legacy` selects the model of the code before the repair. -/
namespace Hawk.Drv.Gc
open Hawk.Gc

def showGc (g : Int) : String :=
  if g = GCH_MOVED then "M" else if g = GCH_UNREACHABLE then "U"
  else if g < 0 then s!"M-{(-1 - g)}" else toString g

def insertSorted (x : Nat) : List Nat → List Nat
  | [] => [x]
  | y :: r => if x ≤ y then x :: y :: r else y :: insertSorted x r

def sortNat (l : List Nat) : List Nat := l.foldr insertSorted []

def showObj (s : St) (i : Nat) (o : Obj) : String :=
  let ch := joinWith "," ((sortNat o.children).map toString)
  s!"{i}:{o.refs}:{showGc o.gcRefs}:{o.gen}:h{s.roots.count i}:[{ch}]"

def liveIds (s : St) : List Nat := s.heap.zipIdx.filterMap fun (oo, i) => if oo.isSome then some i else none

def dump (before : St) (s : St) : String :=
  let objs := s.heap.zipIdx.filterMap fun (oo, i) => oo.map (showObj s i)
  let freed := (before.heap.zip s.heap).zipIdx.filterMap fun ((b, a), i) => if b.isSome && a.isNone then some i else none
  s!"f={if s.fault then 1 else 0} p={s.p0},{s.p1},{s.p2},{s.p3} t={s.t0},{s.t1},{s.t2} | {joinWith " " objs} | freed=[{joinWith "," (freed.map toString)}]"

/-- the result of one protocol line: new state, the `r=` value, and whether a dump follows
(`none` = the line is not an operation) -/
def optCore (s : St) (r : Option St) : Option (St × String × Bool) :=
  match r with
  | some s' => some (s', "ok", true)
  | none => some (s, "ERR", true)

def core (s : St) (ws : List String) : Option (St × String × Bool) :=
  match ws with
  | ["new"] => some ({}, "new", true)
  | ["new", "legacy"] => some ({ legacy := true }, "new", true)
  | ["alloc", _] => let (s', i) := alloc s; some (s', toString i, true)
  | ["link", p, c] => match p.toNat?, c.toNat? with
    | some p, some c => optCore s (link s p c)
    | _, _ => none
  | ["unlink", p, c] => match p.toNat?, c.toNat? with
    | some p, some c => optCore s (unlink s p c)
    | _, _ => none
  | ["relink", p, c, d] => match p.toNat?, c.toNat?, d.toNat? with
    | some p, some c, some d => optCore s (relink s p c d)
    | _, _, _ => none
  | ["clear", p] => match p.toNat? with
    | some p => optCore s (clear s p)
    | _ => none
  | ["root", o] => match o.toNat? with
    | some o => optCore s (addRoot s o)
    | _ => none
  | ["take", p, c] => match p.toNat?, c.toNat? with
    | some p, some c => optCore s (take s p c)
    | _, _ => none
  | ["drop", o] => match o.toNat? with
    | some o => optCore s (dropRoot s o)
    | _ => none
  | ["call", f, a, b] =>
    let fn : Option Fn := match f with
      | "keep" => some .keep | "drop2" => some .drop2 | "dropr" => some .drop2 | "store" => some .store | "wrap" => some .wrap
      | "cyc" => some .cyc | "fail" => some .cyc | "quit" => some .cyc      -- other code of run.c, same effect on the ledger
      | _ => none
    match fn, a.toNat?, b.toNat? with
    | some fn, some a, some b =>
      match call s fn a b with
      | some s' => some (s', if fn == .wrap then toString s.heap.length else "ok", true)
      | none => some (s, "ERR", true)
    | _, _, _ => none
  | ["gc", g] => match g.toInt? with
    | some g => let (s', r) := gc s g; some (s', toString r, true)
    | _ => none
  | ["thr", g, t] => match g.toInt?, t.toInt? with
    | some g, some t => let (s', r) := setThreshold s g t; some (s', toString r, true)
    | _, _ => none
  | ["close"] =>
    let s' := teardown s
    some (s', s!"closed leak={(liveIds s').length}", false)
  | _ => none

/-- a line starting with `q` is executed without a dump (long allocation loops of generated programs) -/
def step (s : St) (line : String) : St × String :=
  match words line with
  | "q" :: ws => match core s ws with
    | some (s', _, _) => (s', ".")
    | none => (s, "bad-op")
  | ws => match core s ws with
    | some (s', r, true) =>
      let before := match ws with | "new" :: _ => s' | _ => s
      (s', s!"r={r} {dump before s'}")
    | some (s', r, false) => (s', s!"r={r}")
    | none => (s, "bad-op")

/-- driver state: the containers and, separately, the leaf values the host holds (v-ops) -/
structure DS where
  s : St := {}
  v : VSt := {}

def vdump (v : VSt) : String :=
  s!"blk={v.host} ic={v.ichunks} if={v.ifree} rc={v.fchunks} rf={v.ffree} sc={joinWith "," (v.scache.map toString)}"

def stepD (d : DS) (line : String) : DS × String :=
  match words line with
  | ["vint"] => let v' := mkInt d.v; ({ d with v := v' }, s!"r={v'.tab.length - 1} {vdump v'}")
  | ["vflt"] => let v' := mkFlt d.v; ({ d with v := v' }, s!"r={v'.tab.length - 1} {vdump v'}")
  | ["vstr", n] => match n.toNat? with
    | some n => let v' := mkStr d.v (if n < 1 then 1 else if n > 4000 then 4000 else n); ({ d with v := v' }, s!"r={v'.tab.length - 1} {vdump v'}")
    | none => (d, "bad-op")
  | ["vrel", k] => match k.toNat? with
    | some k => match rel d.v k with
      | some v' => ({ d with v := v' }, s!"r=ok {vdump v'}")
      | none => (d, s!"r=ERR {vdump d.v}")
    | none => (d, s!"r=ERR {vdump d.v}")
  | ws =>
    let (s', out) := step d.s line
    match ws with
    | "new" :: _ => ({ s := s', v := {} }, out)
    | _ => ({ d with s := s' }, out)

def main : IO Unit := do
  forLines (← IO.getStdin) DS {} stepD

end Hawk.Drv.Gc
