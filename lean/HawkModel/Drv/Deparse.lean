import HawkModel.Deparse
import HawkModel.DeparseStmt
import HawkModel.Drv.Util
/-! driver for the deparse area: one expression source per line in;
    out: `ok <deparsed text>\t<stable|UNSTABLE ...>` or `err <class>` -/
namespace Hawk.Drv.Deparse
open Hawk.Deparse

def showErr : Err → String
  | .syntax => "syntax" | .eassign => "eassign" | .incdec => "incdec" | .notvar => "notvar" | .divby0 => "divby0"
  | .rparen => "rparen" | .rbrack => "rbrack" | .colon => "colon" | .comma => "comma" | .fuel => "fuel"
  | .lex => "lex" | .unsupported => "unsupported"

/-- statement mode: the line is `S ` + the text of a block `{ ... }` with newline written as U+0001 and tab as U+0002;
    answer: `ok ` + the text the model prints for the tree the model's parser reads (same encoding) -/
def stepStmt (line : String) : String :=
  let cs := (line.toList.drop 2).map (fun c => if c == Char.ofNat 1 then '\n' else if c == Char.ofNat 2 then '\t' else c)
  match lex (String.ofList cs) with
  | .error e => s!"err lex-{showErr e}"
  | .ok ts =>
    match parseBlockText ts with
    | .error e => s!"err {showErr e}"
    | .ok st =>
      let items := printS 0 0 st
      let txt := renderS items
      -- second generation inside the model: the printed tokens are read back and printed again
      let again :=
        match parseBlockText (toksS items) with
        | .error e => s!"UNSTABLE reparse-error {showErr e}"
        | .ok st2 => if renderS (printS 0 0 st2) == txt then "stable" else "UNSTABLE d2-differs"
      let enc := String.ofList (txt.toList.map (fun c => if c == '\n' then Char.ofNat 1 else if c == '\t' then Char.ofNat 2 else c))
      s!"ok {again}\t{enc}"

/-- program mode: `P <gb> ` + the whole deparsed text (same encoding): answer `ok ` + the units the model prints for the units it
    read, each followed by U+0003 -/
def stepProg (line : String) : String :=
  let body := line.toList.drop 2
  let gbs := body.takeWhile (fun c => c.isDigit)
  let gb := gbs.foldl (fun a c => a * 10 + (c.toNat - '0'.toNat)) 0
  let cs := (body.drop (gbs.length + 1)).map (fun c => if c == Char.ofNat 1 then '\n' else if c == Char.ofNat 2 then '\t' else c)
  match lex (String.ofList cs) with
  | .error e => s!"err lex-{showErr e}"
  | .ok ts =>
    match parseProg (ts.length + 2) gb ts with
    | .error e => s!"err {showErr e}"
    | .ok items =>
      let again :=
        match parseProg (ts.length + 2) gb (toksS (printProg items)) with
        | .error e => s!"UNSTABLE reparse-error {showErr e}"
        | .ok items2 => if renderS (printProg items2) == renderS (printProg items) then "stable" else "UNSTABLE d2-differs"
      let enc (t : String) : String :=
        String.ofList (t.toList.map (fun c => if c == '\n' then Char.ofNat 1 else if c == '\t' then Char.ofNat 2 else c))
      let txt := String.join (items.map (fun i => enc (renderS (printItem i)) ++ String.singleton (Char.ofNat 3)))
      s!"ok {again}\t{txt}"

def step (_ : Unit) (line : String) : Unit × String :=
  if line.startsWith "S " then ((), stepStmt line) else
  if line.startsWith "P " then ((), stepProg line) else
  let src := String.ofList (line.toList.filter (fun c => c != (Char.ofNat 10) && c != (Char.ofNat 13)))
  match lex src with
  | .error e => ((), s!"err {showErr e}")
  | .ok ts =>
    match parse ts with
    | .error e => ((), s!"err {showErr e}")
    | .ok a =>
      let d1 := printStr a
      -- second generation: parse the printed tokens again, and also re-lex the printed text
      let st :=
        match parse (print a) with
        | .error e => s!"UNSTABLE reparse-error {showErr e}"
        | .ok a2 =>
          let d2 := printStr a2
          match parse (print a2) with
          | .error e => s!"UNSTABLE reparse2-error {showErr e}"
          | .ok a3 =>
            if printStr a3 != d2 then s!"UNSTABLE d3 {printStr a3}"
            else match lex d1 with
              | .error e => s!"UNSTABLE relex-error {showErr e}"
              | .ok ts2 => if ts2 == print a then (if d2 == d1 then "stable" else s!"stable d2 {d2}") else "UNSTABLE relex-differs"
      ((), s!"ok {d1}\t{st}")

def main : IO Unit := do
  let h ← IO.getStdin
  forLines h Unit () step

end Hawk.Drv.Deparse
