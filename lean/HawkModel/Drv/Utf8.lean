import HawkModel.Utf8
import HawkModel.Tio
import HawkModel.Drv.Util
/-! driver for the utf8/tio area (C15): one op per line in, one canonical line out.
Bytes are written as contiguous lower-case hex pairs (`-` = none), characters as comma separated hex
(`-` = none), chunk/segment lists are `/`-separated.  See harness/utf8_h.c for the C side. -/
namespace Hawk.Drv.Utf8
open Hawk.Gen Hawk.Utf8 Hawk.Tio

def hexDigit (c : Char) : Option Nat :=
  if '0' ≤ c ∧ c ≤ '9' then some (c.toNat - '0'.toNat)
  else if 'a' ≤ c ∧ c ≤ 'f' then some (c.toNat - 'a'.toNat + 10)
  else if 'A' ≤ c ∧ c ≤ 'F' then some (c.toNat - 'A'.toNat + 10)
  else none

def parseHex (s : String) : Option Nat :=
  if s.isEmpty then none else
  s.toList.foldl (fun acc c => match acc, hexDigit c with
    | some a, some d => some (a * 16 + d)
    | _, _ => none) (some 0)

def parseBytes (s : String) : Option (List UInt8) :=
  if s == "-" then some [] else
  let rec go : List Char → List UInt8 → Option (List UInt8)
    | [], acc => some acc.reverse
    | [_], _ => none
    | a :: b :: r, acc => match hexDigit a, hexDigit b with
      | some x, some y => go r (UInt8.ofNat (x * 16 + y) :: acc)
      | _, _ => none
  go s.toList []

def parseChars (s : String) : Option (List Nat) :=
  if s == "-" then some [] else (s.splitOn ",").mapM parseHex

def parseChunks (s : String) : Option (List (List UInt8)) :=
  if s == "." then some [] else (s.splitOn "/").mapM parseBytes

def parseSegs (s : String) : Option (List (List Nat)) :=
  if s == "." then some [] else (s.splitOn "/").mapM parseChars

def hexNib (n : Nat) : Char := "0123456789abcdef".toList.getD n '?'

def hex2 (b : UInt8) : String := String.ofList [hexNib (b.toNat / 16), hexNib (b.toNat % 16)]

def hexNat (n : Nat) : String := String.ofList (Nat.toDigits 16 n)

def showBytes (bs : List UInt8) : String := if bs.isEmpty then "-" else String.join (bs.map hex2)

def showChars (cs : List Nat) : String := if cs.isEmpty then "-" else joinWith "," (cs.map hexNat)

def showFault : Fault → String
  | .oobRead => "FAULT-oob-read" | .overlap => "FAULT-memcpy-overlap" | .hang => "FAULT-hang" | .oobWrite => "FAULT-oob-write"

def showErr : Err → String
  | .eecerr => "EECERR" | .ebuffull => "EBUFFULL" | .eioerr => "EIOERR"

def T := utf8Table

def mkCfg (capa : Nat) (flags : String) : Cfg :=
  { capa := capa, ignoreEcerr := flags.contains 'i', noAutoFlush := flags.contains 'n', legacy := flags.contains 'L' }

def showIn (st : InSt) : String :=
  s!"{st.cur},{st.buf.length},{if st.illseq then "I" else ""}{if st.eof then "E" else ""}:{showBytes (st.buf.drop st.cur)}"

/-- caller's loop over hawk_tio_readuchars with a per-call trace; at most `fuel` calls (the harness uses the same cap) -/
def traceRead (cfg : Cfg) (size : Nat) : Nat → InSt → List String → List String × String
  | 0, _, acc => (acc.reverse, "cap")
  | fuel + 1, st, acc =>
    match readUchars cfg size st with
    | (st', .n []) => ((s!"0|{showIn st'}" :: acc).reverse, "eof")
    | (st', .n out) => traceRead cfg size fuel st' (s!"{out.length}:{showChars out}|{showIn st'}" :: acc)
    | (st', .err e) => ((s!"{showErr e}|{showIn st'}" :: acc).reverse, "err")
    | (st', .fault f) => ((s!"{showFault f}|{showIn st'}" :: acc).reverse, "fault")

def traceReadB (cfg : Cfg) (size : Nat) : Nat → InSt → List String → List String × String
  | 0, _, acc => (acc.reverse, "cap")
  | fuel + 1, st, acc =>
    match readBchars cfg size st with
    | (st', []) => ((s!"0|{st'.cur},{st'.buf.length}" :: acc).reverse, "eof")
    | (st', out) => traceReadB cfg size fuel st' (s!"{out.length}:{showBytes out}|{st'.cur},{st'.buf.length}" :: acc)

def showWErr : Option (Sum Err Fault) → String
  | none => "ok" | some (.inl e) => showErr e | some (.inr f) => showFault f

def showSink (l : List (List UInt8)) : String := if l.isEmpty then "." else joinWith "/" (l.map showBytes)

/-- handler script: comma separated, a number k > 0 = accept min(k, offered) bytes, `0` = accept nothing, `f` = fail; `-` = empty -/
def parseScript (s : String) : Option (List Reply) :=
  if s == "-" then some [] else
  (s.splitOn ",").mapM fun t =>
    if t == "f" then some Reply.fail
    else match t.toNat? with
      | some 0 => some Reply.zero
      | some (k + 1) => some (Reply.acc k)
      | none => none

/-- write-side calls, `/`-separated: `u:<chars>`, `b:<bytes>`, `F` (flush) -/
def parseWOps (s : String) : Option (List (Sum (Sum (List Nat) (List UInt8)) Unit)) :=
  if s == "." then some [] else
  (s.splitOn "/").mapM fun t =>
    if t == "F" then some (.inr ())
    else if t.startsWith "u:" then (parseChars (t.drop 2).toString).map fun ws => .inl (.inl ws)
    else if t.startsWith "b:" then (parseBytes (t.drop 2).toString).map fun bs => .inl (.inr bs)
    else none

def step (_ : Unit) (line : String) : Unit × String :=
  ((), match words line with
  | ["enc", c, size] => match parseHex c, size.toNat? with
    | some c, some size =>
      let e := ucToUtf8 T (c % uchMod) size
      s!"ret={e.ret} bytes={match e.bytes with | some b => showBytes b | none => "-"}"
    | _, _ => "bad-op"
  | ["dec", bs] => match parseBytes bs with
    | some s => match utf8ToUc T s with
      | .ok (n, w) => s!"ret={n} uc={if n ≠ 0 ∧ n ≤ s.length then hexNat w else "-"}"
      | .error f => showFault f
    | none => "bad-op"
  | ["upto", wcap, bs] => match wcap.toNat?, parseBytes bs with
    | some wcap, some s => match convUpto T 0x0A wcap s with
      | .ok (x, m, out) => s!"x={x} mlen={m} out={showChars out}"
      | .error f => showFault f
    | _, _ => "bad-op"
  | ["btou", all, wcap, bs] => match wcap.toNat?, parseBytes bs with
    | some wcap, some s => match convBtoU T (all == "1") wcap s with
      | .ok (x, m, out) => s!"x={x} mlen={m} out={showChars out}"
      | .error f => showFault f
    | _, _ => "bad-op"
  | ["utob", rem, cs] => match rem.toNat?, parseChars cs with
    | some rem, some cs =>
      let r := convUtoB T (cs.map (· % uchMod)) rem
      s!"x={r.1} ulen={r.2.1} bytes={showBytes r.2.2}"
    | _, _ => "bad-op"
  | ["tior", capa, flags, size, chunks] => match capa.toNat?, size.toNat?, parseChunks chunks with
    | some capa, some size, some cs =>
      let (tr, e) := traceRead (mkCfg capa flags) size 100000 { src := cs } []
      s!"{joinWith " " tr} end={e}"
    | _, _, _ => "bad-op"
  | ["ident", capa, flags, size, chunks] => match capa.toNat?, size.toNat?, parseChunks chunks with
    | some capa, some size, some cs =>
      -- what an identity program prints for this input: every character read, encoded again; and the
      -- character count of every line
      let (chars, e) := readAll (mkCfg capa flags) size { src := cs }
      let lens := (chars.splitOn 0x0A).map List.length
      let lens := if chars.getLast? = some 0x0A then lens.dropLast else lens
      let es := match e with | .eof => "eof" | .err x => showErr x | .fault f => showFault f | .stuck => "stuck"
      s!"out={showBytes (encodeAll T chars)} lens={joinWith "," (lens.map toString)} end={es}"
    | _, _, _ => "bad-op"
  | ["tiob", capa, size, chunks] => match capa.toNat?, size.toNat?, parseChunks chunks with
    | some capa, some size, some cs =>
      let (tr, e) := traceReadB (mkCfg capa "") size 100000 { src := cs } []
      s!"{joinWith " " tr} end={e}"
    | _, _, _ => "bad-op"
  | ["tiow", capa, flags, segs] => match capa.toNat?, parseSegs segs with
    | some capa, some segs =>
      let cfg := mkCfg capa flags
      let (o, tr) := segs.foldl (fun (p : OutSt × List String) ws =>
        let r := writeUchars cfg (ws.map (· % uchMod)) p.1
        (r.1, s!"{showWErr r.2}|{r.1.buf.length}|{r.1.sink.length}" :: p.2)) (({} : OutSt), [])
      s!"{joinWith " " tr.reverse} sink={showSink o.sink} rest={showBytes o.buf}"
    | _, _ => "bad-op"
  | ["tiowb", capa, flags, segs] => match capa.toNat?, parseChunks segs with
    | some capa, some segs =>
      let cfg := mkCfg capa flags
      let (o, tr) := segs.foldl (fun (p : OutSt × List String) bs =>
        let r := writeBchars cfg bs p.1
        (r.1, s!"{showWErr r.2}|{r.1.buf.length}|{r.1.sink.length}" :: p.2)) (({} : OutSt), [])
      s!"{joinWith " " tr.reverse} sink={showSink o.sink} rest={showBytes o.buf}"
    | _, _ => "bad-op"
  | ["tiox", capa, flags, script, ops] => match capa.toNat?, parseScript script, parseWOps ops with
    | some capa, some sc, some ops =>
      -- write-side calls against a scripted (adversarial) output handler; after every call: return value, outbuf_len,
      -- the staged bytes and the number of handler calls so far
      let cfg := mkCfg capa flags
      let (o, tr) := ops.foldl (fun (p : OutSt × List String) op =>
        let (o', ret) : OutSt × String := match op with
          | .inl (.inl ws) => let r := writeUchars cfg (ws.map (· % uchMod)) p.1; (r.1, showWErr r.2)
          | .inl (.inr bs) => let r := writeBchars cfg bs p.1; (r.1, showWErr r.2)
          | .inr () => let r := flush p.1; (r.1, match r.2 with | some c => s!"n{c}" | none => "EIOERR")
        (o', s!"{ret}|{o'.buf.length}|{showBytes o'.buf}|{o'.ncalls}" :: p.2)) (({ script := sc } : OutSt), [])
      s!"{joinWith " " tr.reverse} sink={showSink o.sink}"
    | _, _, _ => "bad-op"
  | ["prt", script, texts] => match parseScript script, parseChunks texts with
    | some sc, some ts =>
      -- `print T1; print T2; …` on the console of the standard runtime (sio staging buffer 2048, IGNOREECERR, autoflush):
      -- each print is the value and then ORS (also after a failed value write), each a hawk_tio_writeuchars; the program exits at the first print that
      -- reports failure; when the run returns every stream gets a FLUSH whose failure makes the std handler discard what is
      -- staged (std.c: hawk_sio_drain, by design, the failure is not reported: hawk_rtx_flushallios is void); closing then
      -- flushes three more times (hawk_sio_fini, hawk_tio_fini, detach_out)
      let cfg := mkCfg 2048 "i"
      let rec go (ts : List (List UInt8)) (i : Nat) (o : OutSt) : OutSt × Nat :=
        match ts with
        | [] => (o, 0)
        | t :: rest =>
          let cs := match convBtoU T true t.length t with | .ok (_, _, cs) => cs | .error _ => []
          let r1 := writeUchars cfg cs o
          -- (HAWK_TOLERANT) run.c goes on to write ORS after a failed value write; the print reports the failure
          let r2 := writeUchars cfg [0x0A] r1.1
          if r1.2.isSome || r2.2.isSome then (r2.1, 101 + i) else go rest (i + 1) r2.1
      let (o, ec) := go ts 0 { script := sc }
      let r := flush o
      let o : OutSt := match r.2 with | none => { r.1 with buf := [] } | some _ => r.1
      let o := (flush (flush (flush o).1).1).1
      s!"ec={ec} calls={o.ncalls} sink={showSink o.sink}"
    | _, _ => "bad-op"
  | _ => "bad-op")

def main : IO Unit := do
  forLines (← IO.getStdin) Unit () step

end Hawk.Drv.Utf8
