import HawkModel.Utf8
import HawkModel.Tio
import HawkModel.Drv.Util
/-! driver for the utf8/tio area (C15): one op per line in, one canonical line out.
Bytes are written as contiguous lower-case hex pairs (`-` = none), characters as comma separated hex
(`-` = none), chunk/segment lists are `/`-separated.  See harness/utf8_h.c for the C side. -/
namespace Hawk.Drv.Utf8
open Hawk.Gen Hawk.Utf8 Hawk.Tio

def hexDigit (c : Char) : Option Nat :=
  if '0' ≤ c ∧ c ≤ '9' then some (c.toNat - '0'.toNat)
  else if 'a' ≤ c ∧ c ≤ 'f' then some (c.toNat - 'a'.toNat + 10)
  else if 'A' ≤ c ∧ c ≤ 'F' then some (c.toNat - 'A'.toNat + 10)
  else none

def parseHex (s : String) : Option Nat :=
  if s.isEmpty then none else
  s.toList.foldl (fun acc c => match acc, hexDigit c with
    | some a, some d => some (a * 16 + d)
    | _, _ => none) (some 0)

def parseBytes (s : String) : Option (List UInt8) :=
  if s == "-" then some [] else
  let rec go : List Char → List UInt8 → Option (List UInt8)
    | [], acc => some acc.reverse
    | [_], _ => none
    | a :: b :: r, acc => match hexDigit a, hexDigit b with
      | some x, some y => go r (UInt8.ofNat (x * 16 + y) :: acc)
      | _, _ => none
  go s.toList []

def parseChars (s : String) : Option (List Nat) :=
  if s == "-" then some [] else (s.splitOn ",").mapM parseHex

def parseChunks (s : String) : Option (List (List UInt8)) :=
  if s == "." then some [] else (s.splitOn "/").mapM parseBytes

def parseSegs (s : String) : Option (List (List Nat)) :=
  if s == "." then some [] else (s.splitOn "/").mapM parseChars

def hexNib (n : Nat) : Char := "0123456789abcdef".toList.getD n '?'

def hex2 (b : UInt8) : String := String.ofList [hexNib (b.toNat / 16), hexNib (b.toNat % 16)]

def hexNat (n : Nat) : String := String.ofList (Nat.toDigits 16 n)

def showBytes (bs : List UInt8) : String := if bs.isEmpty then "-" else String.join (bs.map hex2)

def showChars (cs : List Nat) : String := if cs.isEmpty then "-" else joinWith "," (cs.map hexNat)

def showFault : Fault → String
  | .oobRead => "FAULT-oob-read" | .overlap => "FAULT-memcpy-overlap" | .hang => "FAULT-hang" | .oobWrite => "FAULT-oob-write"

def showErr : Err → String
  | .eecerr => "EECERR" | .ebuffull => "EBUFFULL" | .eioerr => "EIOERR"

def T := utf8Table
def CT : Cmgr := utf8Cmgr T

/-- manager by the name used on the protocol (`utf16L` = utf16.c before the repairs) -/
def cmOf (name : String) : Option Cmgr :=
  if name == "utf8" then some CT else if name == "utf16" then some (utf16Cmgr false) else if name == "utf16L" then some (utf16Cmgr true)
  else if name == "mb8" then some mb8Cmgr else none

/-- flags: i = IGNOREECERR, n = NOAUTOFLUSH, U / M = utf16 / mb8 manager, L = tio.c before its repairs, K = utf16.c before its repairs -/
def mkCfg (capa : Nat) (flags : String) : Cfg :=
  let legacy := flags.contains 'L'
  { capa := capa, ignoreEcerr := flags.contains 'i', noAutoFlush := flags.contains 'n', legacy := legacy,
    cm := if flags.contains 'U' then utf16Cmgr (flags.contains 'K') else if flags.contains 'M' then mb8Cmgr else CT }

def showIn (st : InSt) : String :=
  s!"{st.cur},{st.buf.length},{if st.illseq then "I" else ""}{if st.eof then "E" else ""}:{showBytes (st.buf.drop st.cur)}"

/-- caller's loop over hawk_tio_readuchars with a per-call trace; at most `fuel` calls (the harness uses the same cap) -/
def traceRead (cfg : Cfg) (size : Nat) : Nat → InSt → List String → List String × String
  | 0, _, acc => (acc.reverse, "cap")
  | fuel + 1, st, acc =>
    match readUchars cfg size st with
    | (st', .n []) => ((s!"0|{showIn st'}" :: acc).reverse, "eof")
    | (st', .n out) => traceRead cfg size fuel st' (s!"{out.length}:{showChars out}|{showIn st'}" :: acc)
    | (st', .err e) => ((s!"{showErr e}|{showIn st'}" :: acc).reverse, "err")
    | (st', .fault f) => ((s!"{showFault f}|{showIn st'}" :: acc).reverse, "fault")

def traceReadB (cfg : Cfg) (size : Nat) : Nat → InSt → List String → List String × String
  | 0, _, acc => (acc.reverse, "cap")
  | fuel + 1, st, acc =>
    match readBchars cfg size st with
    | (st', []) => ((s!"0|{st'.cur},{st'.buf.length}" :: acc).reverse, "eof")
    | (st', out) => traceReadB cfg size fuel st' (s!"{out.length}:{showBytes out}|{st'.cur},{st'.buf.length}" :: acc)

def showWErr : Option (Sum Err Fault) → String
  | none => "ok" | some (.inl e) => showErr e | some (.inr f) => showFault f

def showSink (l : List (List UInt8)) : String := if l.isEmpty then "." else joinWith "/" (l.map showBytes)

/-- handler script: comma separated, a number k > 0 = accept min(k, offered) bytes, `0` = accept nothing, `f` = fail; `-` = empty -/
def parseScript (s : String) : Option (List Reply) :=
  if s == "-" then some [] else
  (s.splitOn ",").mapM fun t =>
    if t == "f" then some Reply.fail
    else match t.toNat? with
      | some 0 => some Reply.zero
      | some (k + 1) => some (Reply.acc k)
      | none => none

/-- write-side calls, `/`-separated: `u:<chars>`, `b:<bytes>`, `s:<bytes>` (null-terminated source), `F` (flush) -/
def parseWOps (s : String) : Option (List (Sum (Sum (List Nat) (List UInt8 × Bool)) Unit)) :=
  if s == "." then some [] else
  (s.splitOn "/").mapM fun t =>
    if t == "F" then some (.inr ())
    else if t.startsWith "u:" then (parseChars (t.drop 2).toString).map fun ws => .inl (.inl ws)
    else if t.startsWith "b:" then (parseBytes (t.drop 2).toString).map fun bs => .inl (.inr (bs, false))
    else if t.startsWith "s:" then (parseBytes (t.drop 2).toString).map fun bs => .inl (.inr (bs, true))
    else none

def doDupB (cm all bs : String) : String :=
  match cmOf cm, parseBytes bs with
  | some cm, some s => match dupBtoU cm (all == "1") s with
    | .ok (.ok out) => s!"ok len={out.length} out={showChars out}"
    | .ok .eecerr => "EECERR" | .ok .ebuffull => "EBUFFULL" | .ok (.overflow _) => "FAULT-overflow"
    | .error f => showFault f
  | _, _ => "bad-op"

def doDupU (cm cs : String) : String :=
  match cmOf cm, parseChars cs with
  | some cm, some cs => match dupUtoB cm (cs.map (· % uchMod)) with
    | .ok out => s!"ok len={out.length} out={showBytes out}"
    | .eecerr => "EECERR" | .ebuffull => "EBUFFULL" | .overflow _ => "FAULT-overflow"
  | _, _ => "bad-op"

def step (_ : Unit) (line : String) : Unit × String :=
  ((), match words line with
  | ["enc", c, size] => match parseHex c, size.toNat? with
    | some c, some size =>
      let e := ucToUtf8 T (c % uchMod) size
      s!"ret={e.ret} bytes={match e.bytes with | some b => showBytes b | none => "-"}"
    | _, _ => "bad-op"
  | ["dec", bs] => match parseBytes bs with
    | some s => match utf8ToUc T s with
      | .ok (n, w) => s!"ret={n} uc={if n ≠ 0 ∧ n ≤ s.length then hexNat w else "-"}"
      | .error f => showFault f
    | none => "bad-op"
  | ["upto", wcap, bs] => match wcap.toNat?, parseBytes bs with
    | some wcap, some s => match convUpto CT 0x0A wcap s with
      | .ok (x, m, out) => s!"x={x} mlen={m} out={showChars out}"
      | .error f => showFault f
    | _, _ => "bad-op"
  | ["btou", all, wcap, bs] => match wcap.toNat?, parseBytes bs with
    | some wcap, some s => match convBtoU CT (all == "1") wcap s with
      | .ok (x, m, out) => s!"x={x} mlen={m} out={showChars out}"
      | .error f => showFault f
    | _, _ => "bad-op"
  | ["utob", rem, cs] => match rem.toNat?, parseChars cs with
    | some rem, some cs =>
      let r := convUtoB CT (cs.map (· % uchMod)) rem
      s!"x={r.1} ulen={r.2.1} bytes={showBytes r.2.2}"
    | _, _ => "bad-op"
  | ["tior", capa, flags, size, chunks] => match capa.toNat?, size.toNat?, parseChunks chunks with
    | some capa, some size, some cs =>
      let (tr, e) := traceRead (mkCfg capa flags) size 100000 { src := cs } []
      s!"{joinWith " " tr} end={e}"
    | _, _, _ => "bad-op"
  | ["ident", capa, flags, size, chunks] => match capa.toNat?, size.toNat?, parseChunks chunks with
    | some capa, some size, some cs =>
      -- what an identity program prints for this input: every character read, encoded again; and the
      -- character count of every line
      let cfg := mkCfg capa flags
      let (chars, e) := readAll cfg size { src := cs }
      let lens := (chars.splitOn 0x0A).map List.length
      let lens := if chars.getLast? = some 0x0A then lens.dropLast else lens
      let es := match e with | .eof => "eof" | .err x => showErr x | .fault f => showFault f | .stuck => "stuck"
      s!"out={showBytes (encodeAllC cfg.cm chars)} lens={joinWith "," (lens.map toString)} end={es}"
    | _, _, _ => "bad-op"
  | ["tiob", capa, size, chunks] => match capa.toNat?, size.toNat?, parseChunks chunks with
    | some capa, some size, some cs =>
      let (tr, e) := traceReadB (mkCfg capa "") size 100000 { src := cs } []
      s!"{joinWith " " tr} end={e}"
    | _, _, _ => "bad-op"
  | ["tiow", capa, flags, segs] => match capa.toNat?, parseSegs segs with
    | some capa, some segs =>
      let cfg := mkCfg capa flags
      let (o, tr) := segs.foldl (fun (p : OutSt × List String) ws =>
        let r := writeUchars cfg (ws.map (· % uchMod)) p.1
        (r.1, s!"{showWErr r.2}|{r.1.buf.length}|{r.1.sink.length}" :: p.2)) (({} : OutSt), [])
      s!"{joinWith " " tr.reverse} sink={showSink o.sink} rest={showBytes o.buf}"
    | _, _ => "bad-op"
  | ["tiowb", capa, flags, segs] => match capa.toNat?, parseChunks segs with
    | some capa, some segs =>
      let cfg := mkCfg capa flags
      let (o, tr) := segs.foldl (fun (p : OutSt × List String) bs =>
        let r := writeBchars cfg bs p.1
        (r.1, s!"{showWErr r.2}|{r.1.buf.length}|{r.1.sink.length}" :: p.2)) (({} : OutSt), [])
      s!"{joinWith " " tr.reverse} sink={showSink o.sink} rest={showBytes o.buf}"
    | _, _ => "bad-op"
  | ["tiox", capa, flags, script, ops] => match capa.toNat?, parseScript script, parseWOps ops with
    | some capa, some sc, some ops =>
      -- write-side calls against a scripted (adversarial) output handler; after every call: return value, outbuf_len,
      -- the staged bytes and the number of handler calls so far
      let cfg := mkCfg capa flags
      let (o, tr) := ops.foldl (fun (p : OutSt × List String) op =>
        let (o', ret) : OutSt × String := match op with
          | .inl (.inl ws) => let r := writeUchars cfg (ws.map (· % uchMod)) p.1; (r.1, showWErr r.2)
          | .inl (.inr (bs, false)) => let r := writeBchars cfg bs p.1; (r.1, showWErr r.2)
          | .inl (.inr (bs, true)) => let r := writeBcstr cfg bs p.1; (r.1, showWErr r.2)
          | .inr () => let r := flush p.1; (r.1, match r.2 with | some c => s!"n{c}" | none => "EIOERR")
        (o', s!"{ret}|{o'.buf.length}|{showBytes o'.buf}|{o'.ncalls}" :: p.2)) (({ script := sc } : OutSt), [])
      s!"{joinWith " " tr.reverse} sink={showSink o.sink}"
    | _, _, _ => "bad-op"
  | ["cenc", cm, c, size] => match cmOf cm, parseHex c, size.toNat? with
    | some cm, some c, some size =>
      let e := cm.uctobc (c % uchMod) size
      -- bytes stored beyond `size` (unrepaired utf16 encoder) are shown with a marker
      s!"ret={e.ret} bytes={match e.bytes with | some b => (if b.length > size then "OOB:" else "") ++ showBytes b | none => "-"}"
    | _, _, _ => "bad-op"
  | ["cdec", cm, bs] => match cmOf cm, parseBytes bs with
    | some cm, some s => match cm.bctouc s with
      | .ok (n, w) => s!"ret={n} uc={if n ≠ 0 ∧ n ≤ s.length then hexNat w else "-"}"
      | .error f => showFault f
    | _, _ => "bad-op"
  | ["cname", name] => s!"id={match cmgrByName (if name == "-" then "" else name) with | some .utf8 => "utf8" | some .utf16 => "utf16" | some .mb8 => "mb8" | none => "NULL"}"
  | ["cbtou", cm, wcap, bs] => match cmOf cm, wcap.toNat?, parseBytes bs with
    | some cm, some wcap, some s => match convBtoU cm false wcap s with
      | .ok (x, m, out) => s!"x={x} mlen={m} out={showChars out}"
      | .error f => showFault f
    | _, _, _ => "bad-op"
  | ["cutob", cm, rem, cs] => match cmOf cm, rem.toNat?, parseChars cs with
    | some cm, some rem, some cs =>
      let r := convUtoB cm (cs.map (· % uchMod)) rem
      s!"x={r.1} ulen={r.2.1} bytes={showBytes r.2.2}"
    | _, _, _ => "bad-op"
  | ["cbtous", cm, wcap, bs] => match cmOf cm, wcap.toNat?, parseBytes bs with
    | some cm, some wcap, some s => match convBcstrToUcstr cm false wcap s with
      | .ok (x, m, out, z) => s!"x={x} mlen={m} out={showChars out} nul={if z then 1 else 0}"
      | .error f => showFault f
    | _, _, _ => "bad-op"
  | ["cutobs", cm, rem, cs] => match cmOf cm, rem.toNat?, parseChars cs with
    | some cm, some rem, some cs =>
      let r := convUcstrToBcstr cm rem (cs.map (· % uchMod))
      s!"x={r.1} ulen={r.2.1} bytes={showBytes r.2.2.1} nul={if r.2.2.2 then 1 else 0}"
    | _, _, _ => "bad-op"
  | ["dupb", cm, all, bs] => doDupB cm all bs
  | ["vstr", bs] => doDupB "utf8" "1" bs
  | ["v2u", cm, bs] => doDupB cm "1" bs
  | ["dupu", cm, cs] => doDupU cm cs
  | ["vmbs", cs] => doDupU "utf8" cs
  | ["v2b", cm, cs] => doDupU cm cs
  | ["prt", script, texts] => match parseScript script, parseChunks texts with
    | some sc, some ts =>
      -- `print T1; print T2; …` on the console of the standard runtime (sio staging buffer 2048, IGNOREECERR, autoflush):
      -- each print is the value and then ORS (also after a failed value write), each a hawk_tio_writeuchars; the program exits at the first print that
      -- reports failure; when the run returns every stream gets a FLUSH whose failure makes the std handler discard what is
      -- staged (std.c: hawk_sio_drain, by design) and the run fail (hawk_rtx_flushallios / hawk_rtx_loop); closing then
      -- flushes three more times (hawk_sio_fini, hawk_tio_fini, detach_out)
      let cfg := mkCfg 2048 "i"
      let rec go (ts : List (List UInt8)) (i : Nat) (o : OutSt) : OutSt × Nat :=
        match ts with
        | [] => (o, 0)
        | t :: rest =>
          let cs := match convBtoU CT true t.length t with | .ok (_, _, cs) => cs | .error _ => []
          let r1 := writeUchars cfg cs o
          -- (HAWK_TOLERANT) run.c goes on to write ORS after a failed value write; the print reports the failure
          let r2 := writeUchars cfg [0x0A] r1.1
          if r1.2.isSome || r2.2.isSome then (r2.1, 101 + i) else go rest (i + 1) r2.1
      let (o, ec) := go ts 0 { script := sc }
      let r := flush o
      let o : OutSt := match r.2 with | none => { r.1 with buf := [] } | some _ => r.1
      -- run.c: a run-end flush that fails makes hawk_rtx_loop fail (return NULL: -1 here), whatever the program's exit value was
      let ecs := match r.2 with | none => "-1" | some _ => toString ec
      let o := (flush (flush (flush o).1).1).1
      s!"ec={ecs} calls={o.ncalls} sink={showSink o.sink}"
    | _, _ => "bad-op"
  | _ => "bad-op")

def main : IO Unit := do
  forLines (← IO.getStdin) Unit () step

end Hawk.Drv.Utf8
