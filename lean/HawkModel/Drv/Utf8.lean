import HawkModel.Utf8
import HawkModel.Tio
import HawkModel.Drv.Util
/-! driver for the utf8/tio area (C15): one op per line in, one canonical line out.
Bytes are written as contiguous lower-case hex pairs (`-` = none), characters as comma separated hex
(`-` = none), chunk/segment lists are `/`-separated.  See harness/utf8_h.c for the C side. -/
namespace Hawk.Drv.Utf8
open Hawk.Gen Hawk.Utf8 Hawk.Tio

def hexDigit (c : Char) : Option Nat :=
  if '0' ≤ c ∧ c ≤ '9' then some (c.toNat - '0'.toNat)
  else if 'a' ≤ c ∧ c ≤ 'f' then some (c.toNat - 'a'.toNat + 10)
  else if 'A' ≤ c ∧ c ≤ 'F' then some (c.toNat - 'A'.toNat + 10)
  else none

def parseHex (s : String) : Option Nat :=
  if s.isEmpty then none else
  s.toList.foldl (fun acc c => match acc, hexDigit c with
    | some a, some d => some (a * 16 + d)
    | _, _ => none) (some 0)

def parseBytes (s : String) : Option (List UInt8) :=
  if s == "-" then some [] else
  let rec go : List Char → List UInt8 → Option (List UInt8)
    | [], acc => some acc.reverse
    | [_], _ => none
    | a :: b :: r, acc => match hexDigit a, hexDigit b with
      | some x, some y => go r (UInt8.ofNat (x * 16 + y) :: acc)
      | _, _ => none
  go s.toList []

def parseChars (s : String) : Option (List Nat) :=
  if s == "-" then some [] else (s.splitOn ",").mapM parseHex

def parseChunks (s : String) : Option (List (List UInt8)) :=
  if s == "." then some [] else (s.splitOn "/").mapM parseBytes

def parseSegs (s : String) : Option (List (List Nat)) :=
  if s == "." then some [] else (s.splitOn "/").mapM parseChars

def hexNib (n : Nat) : Char := "0123456789abcdef".toList.getD n '?'

def hex2 (b : UInt8) : String := String.ofList [hexNib (b.toNat / 16), hexNib (b.toNat % 16)]

def hexNat (n : Nat) : String := String.ofList (Nat.toDigits 16 n)

def showBytes (bs : List UInt8) : String := if bs.isEmpty then "-" else String.join (bs.map hex2)

def showChars (cs : List Nat) : String := if cs.isEmpty then "-" else joinWith "," (cs.map hexNat)

def showFault : Fault → String
  | .oobRead => "FAULT-oob-read" | .overlap => "FAULT-memcpy-overlap" | .hang => "FAULT-hang"

def showErr : Err → String
  | .eecerr => "EECERR" | .ebuffull => "EBUFFULL"

def T := utf8Table

def mkCfg (capa : Nat) (flags : String) : Cfg :=
  { capa := capa, ignoreEcerr := flags.contains 'i', noAutoFlush := flags.contains 'n', legacy := flags.contains 'L' }

def showIn (st : InSt) : String :=
  s!"{st.cur},{st.buf.length},{if st.illseq then "I" else ""}{if st.eof then "E" else ""}:{showBytes (st.buf.drop st.cur)}"

/-- caller's loop over hawk_tio_readuchars with a per-call trace; at most `fuel` calls (the harness uses the same cap) -/
def traceRead (cfg : Cfg) (size : Nat) : Nat → InSt → List String → List String × String
  | 0, _, acc => (acc.reverse, "cap")
  | fuel + 1, st, acc =>
    match readUchars cfg size st with
    | (st', .n []) => ((s!"0|{showIn st'}" :: acc).reverse, "eof")
    | (st', .n out) => traceRead cfg size fuel st' (s!"{out.length}:{showChars out}|{showIn st'}" :: acc)
    | (st', .err e) => ((s!"{showErr e}|{showIn st'}" :: acc).reverse, "err")
    | (st', .fault f) => ((s!"{showFault f}|{showIn st'}" :: acc).reverse, "fault")

def traceReadB (cfg : Cfg) (size : Nat) : Nat → InSt → List String → List String × String
  | 0, _, acc => (acc.reverse, "cap")
  | fuel + 1, st, acc =>
    match readBchars cfg size st with
    | (st', []) => ((s!"0|{st'.cur},{st'.buf.length}" :: acc).reverse, "eof")
    | (st', out) => traceReadB cfg size fuel st' (s!"{out.length}:{showBytes out}|{st'.cur},{st'.buf.length}" :: acc)

def showWErr : Option (Sum Err Fault) → String
  | none => "ok" | some (.inl e) => showErr e | some (.inr f) => showFault f

def showSink (l : List (List UInt8)) : String := if l.isEmpty then "." else joinWith "/" (l.map showBytes)

def step (_ : Unit) (line : String) : Unit × String :=
  ((), match words line with
  | ["enc", c, size] => match parseHex c, size.toNat? with
    | some c, some size =>
      let e := ucToUtf8 T (c % uchMod) size
      s!"ret={e.ret} bytes={match e.bytes with | some b => showBytes b | none => "-"}"
    | _, _ => "bad-op"
  | ["dec", bs] => match parseBytes bs with
    | some s => match utf8ToUc T s with
      | .ok (n, w) => s!"ret={n} uc={if n ≠ 0 ∧ n ≤ s.length then hexNat w else "-"}"
      | .error f => showFault f
    | none => "bad-op"
  | ["upto", wcap, bs] => match wcap.toNat?, parseBytes bs with
    | some wcap, some s => match convUpto T 0x0A wcap s with
      | .ok (x, m, out) => s!"x={x} mlen={m} out={showChars out}"
      | .error f => showFault f
    | _, _ => "bad-op"
  | ["btou", all, wcap, bs] => match wcap.toNat?, parseBytes bs with
    | some wcap, some s => match convBtoU T (all == "1") wcap s with
      | .ok (x, m, out) => s!"x={x} mlen={m} out={showChars out}"
      | .error f => showFault f
    | _, _ => "bad-op"
  | ["utob", rem, cs] => match rem.toNat?, parseChars cs with
    | some rem, some cs =>
      let r := convUtoB T (cs.map (· % uchMod)) rem
      s!"x={r.1} ulen={r.2.1} bytes={showBytes r.2.2}"
    | _, _ => "bad-op"
  | ["tior", capa, flags, size, chunks] => match capa.toNat?, size.toNat?, parseChunks chunks with
    | some capa, some size, some cs =>
      let (tr, e) := traceRead (mkCfg capa flags) size 100000 { src := cs } []
      s!"{joinWith " " tr} end={e}"
    | _, _, _ => "bad-op"
  | ["ident", capa, flags, size, chunks] => match capa.toNat?, size.toNat?, parseChunks chunks with
    | some capa, some size, some cs =>
      -- what an identity program prints for this input: every character read, encoded again; and the
      -- character count of every line
      let (chars, e) := readAll (mkCfg capa flags) size { src := cs }
      let lens := (chars.splitOn 0x0A).map List.length
      let lens := if chars.getLast? = some 0x0A then lens.dropLast else lens
      let es := match e with | .eof => "eof" | .err x => showErr x | .fault f => showFault f | .stuck => "stuck"
      s!"out={showBytes (encodeAll T chars)} lens={joinWith "," (lens.map toString)} end={es}"
    | _, _, _ => "bad-op"
  | ["tiob", capa, size, chunks] => match capa.toNat?, size.toNat?, parseChunks chunks with
    | some capa, some size, some cs =>
      let (tr, e) := traceReadB (mkCfg capa "") size 100000 { src := cs } []
      s!"{joinWith " " tr} end={e}"
    | _, _, _ => "bad-op"
  | ["tiow", capa, flags, segs] => match capa.toNat?, parseSegs segs with
    | some capa, some segs =>
      let cfg := mkCfg capa flags
      let (o, tr) := segs.foldl (fun (p : OutSt × List String) ws =>
        let r := writeUchars cfg (ws.map (· % uchMod)) p.1
        (r.1, s!"{showWErr r.2}|{r.1.buf.length}|{r.1.sink.length}" :: p.2)) (({} : OutSt), [])
      s!"{joinWith " " tr.reverse} sink={showSink o.sink} rest={showBytes o.buf}"
    | _, _ => "bad-op"
  | ["tiowb", capa, flags, segs] => match capa.toNat?, parseChunks segs with
    | some capa, some segs =>
      let cfg := mkCfg capa flags
      let (o, tr) := segs.foldl (fun (p : OutSt × List String) bs =>
        let r := writeBchars cfg bs p.1
        (r.1, s!"{showWErr r.2}|{r.1.buf.length}|{r.1.sink.length}" :: p.2)) (({} : OutSt), [])
      s!"{joinWith " " tr.reverse} sink={showSink o.sink} rest={showBytes o.buf}"
    | _, _ => "bad-op"
  | _ => "bad-op")

def main : IO Unit := do
  forLines (← IO.getStdin) Unit () step

end Hawk.Drv.Utf8
