import HawkModel.Htb
import HawkModel.Drv.Util
import HawkModel.Drv.ForIn
/-! driver for the htb area: one op per line in, canonical result + state dump out
    (same protocol as harness/htb_h.c) -/
namespace Hawk.Drv.Htb
open Hawk.Htb

structure St where
  t : Option Htb := none
  c : Cfg := { hash := id }
  raw : Bool := false
  mv : Hawk.ForIn.Val := .nil     -- `mv ...` lines: the map value driven through the val.c API (harness/mapval_h.c)
  av : Hawk.ForIn.Val := .nil     -- … and the array value

/-- hawk_htb_dflhash on the 4 little-endian bytes of an int key: FNV-1 style
    `hv = (hv ^ byte) * PRIME` over 64-bit words (hawk-utl.h, HAWK_SIZEOF_OOW_T == 8) -/
def dflHash (k : Nat) : Nat :=
  let m := 2 ^ 64
  let stepb (h b : Nat) : Nat := ((h ^^^ b) * 0x100000001B3) % m
  let b0 := k % 256
  let b1 := (k / 256) % 256
  let b2 := (k / 65536) % 256
  let b3 := (k / 16777216) % 256
  stepb (stepb (stepb (stepb 0xCBF29CE484222325 b0) b1) b2) b3

def hasherOf : String → Option (Nat → Nat)
  | "id" => some id
  | "const" => some fun _ => 7
  | "mul" => some fun k => k * 7 + 3
  | "dfl" => some dflHash
  | _ => none

def sizerOf : String → Option (Option (Nat → Nat))
  | "-" => some none
  | "plus2" => some (some fun n => n + 2)
  | "fix4" => some (some fun _ => 4)
  | _ => none

def parseOrc (s : String) : Oracle := s.toList.filterMap fun c => if c == 's' then some true else if c == 'f' then some false else none

def showErr : Err → String
  | .enoent => "ENOENT" | .eexist => "EEXIST" | .enomem => "ENOMEM" | .ecb => "ECB"

def showRet : Except Err Pair → String
  | .ok p => s!"ok({p.1},{p.2})"
  | .error e => showErr e

def showEvs (raw : Bool) (e : List Ev) : String :=
  if raw then "" else
  joinWith "," (e.map fun | .freedK k => s!"FK{k}" | .freedV v => s!"FV{v}" | .kept v => s!"K{v}")

def showPairs (l : List Pair) : String := joinWith "," (l.map fun p => s!"{p.1}={p.2}")

def dump (t : Htb) : String :=
  let rec go (bs : List Chain) (i : Nat) (acc : List String) : List String :=
    match bs with
    | [] => acc.reverse
    | [] :: r => go r (i + 1) acc
    | b :: r => go r (i + 1) (s!"{i}:{showPairs b}" :: acc)
  s!"s={t.size} c={t.capa} t={t.threshold} [{joinWith "|" (go (t.buckets.take t.capa) 0 [])}]"

/-- collect getfirstpair/getnextpair results until NULL (bounded like the harness) -/
def iterAll (t : Htb) : List Pair :=
  let rec go (fuel : Nat) (it : Option Itr) (acc : List Pair) : List Pair :=
    match fuel, it with
    | 0, _ => acc.reverse
    | _, none => acc.reverse
    | f + 1, some i => go f (getNext t i) (i.cur :: acc)
  go 100001 (getFirst t) []

def doIns (s : St) (t : Htb) (opt : Opt) (k v o : String) : St × String :=
  match k.toNat?, v.toNat? with
  | some k, some v =>
    let r := insertG s.c t k v opt (parseOrc o)
    ({ s with t := some r.tb }, s!"r={showRet r.ret} e={showEvs s.raw r.evs} {dump r.tb}")
  | _, _ => (s, "bad-op")

def valPairs : Hawk.ForIn.Val → List (Nat × Nat)
  | .map l => l
  | .arr l => l
  | _ => []

def showIter (v : Hawk.ForIn.Val) : String :=
  let l := valPairs v
  s!"{showPairs l} n={l.length}"

def showGet (v : Hawk.ForIn.Val) (k : Nat) : String :=
  match (valPairs v).find? (fun p => p.1 == k) with
  | some p => toString p.2
  | none => "-"

/-- `mv ...`: the language-level containers of HawkModel.ForIn (Val.set / Val.del / iteration order) -/
def stepMv (s : St) : List String → St × String
  | ["new"] => ({ s with mv := .map [] }, "ok")
  | ["anew"] => ({ s with av := .arr [] }, "ok")
  | ["set", k, v] => match k.toNat?, v.toNat? with
    | some k, some v => let m := s.mv.set k v; ({ s with mv := m }, s!"ok n={(valPairs m).length}")
    | _, _ => (s, "bad-op")
  | ["get", k] => match k.toNat? with
    | some k => (s, showGet s.mv k)
    | none => (s, "bad-op")
  | ["del", k] => match k.toNat? with
    | some k =>
      let m := s.mv.del k
      ({ s with mv := m }, s!"{if (valPairs m).length < (valPairs s.mv).length then "ok" else "ENOENT"} n={(valPairs m).length}")
    | none => (s, "bad-op")
  | ["clear"] => ({ s with mv := s.mv.reset }, "ok n=0")
  | ["iter"] => (s, showIter s.mv)
  | ["aset", k, v] => match k.toNat?, v.toNat? with
    | some k, some v => ({ s with av := s.av.set k v }, "ok")
    | _, _ => (s, "bad-op")
  | ["aget", k] => match k.toNat? with
    | some k => (s, showGet s.av k)
    | none => (s, "bad-op")
  | ["aiter"] => (s, showIter s.av)
  | _ => (s, "bad-op")

def step (s : St) (line : String) : St × String :=
  match words line, s.t with
  | "prog" :: toks, _ => (s, Hawk.Drv.ForIn.runProg toks)
  | "mv" :: rest, _ => stepMv s rest
  | ["new", capa, factor, style, h, sz, mode], _ =>
    match capa.toNat?, factor.toNat?, style.toNat?, hasherOf h, sizerOf sz with
    | some capa, some factor, some style, some hf, some szf =>
      if capa < 1 ∨ factor > 100 ∨ style > 3 then (s, "bad-op") else
      let raw := mode == "raw"
      let c : Cfg := { hash := hf, vinline := (style == 1 || style == 3), vlen := fun v => v % 3 + 1, sizer := szf }
      let t := init capa factor
      ({ t := some t, c := c, raw := raw }, s!"r=ok e= {dump t}")
    | _, _, _, _, _ => (s, "bad-op")
  | _, none => (s, "bad-op")
  | ["insert", k, v, o], some t => doIns s t .insert k v o
  | ["upsert", k, v, o], some t => doIns s t .upsert k v o
  | ["update", k, v, o], some t => doIns s t .update k v o
  | ["ensert", k, v, o], some t => doIns s t .ensert k v o
  | ["cbsert", k, v, mode, o], some t =>
    match k.toNat?, v.toNat? with
    | some k, some v =>
      -- the harness callback: add = create / replace the stored w by (w+v)%64 in a fresh pair; keep = create / keep; fail
      let f : Option Nat → CbAns :=
        if mode == "fail" then fun _ => .fail
        else if mode == "keep" then fun | none => .fresh v | some _ => .keep
        else fun | none => .fresh v | some w => .fresh ((w + v) % 64)
      let r := cbsert s.c t k f (parseOrc o)
      ({ s with t := some r.tb }, s!"r={showRet r.ret} e={showEvs s.raw r.evs} {dump r.tb}")
    | _, _ => (s, "bad-op")
  | ["delete", k], some t =>
    match k.toNat? with
    | some k =>
      let (t', r, e) := delete s.c t k
      ({ s with t := some t' }, s!"r={match r with | .ok _ => "ok" | .error e => showErr e} e={showEvs s.raw e} {dump t'}")
    | none => (s, "bad-op")
  | ["search", k], some t =>
    match k.toNat? with
    | some k => (s, s!"r={showRet (search s.c t k)} e= n={t.size} c={t.capa}")
    | none => (s, "bad-op")
  | ["clear"], some t =>
    let (t', e) := clear t
    ({ s with t := some t' }, s!"r=ok e={showEvs s.raw e} {dump t'}")
  | ["iter"], some t =>
    let l := iterAll t
    (s, s!"it={showPairs l} n={l.length}")
  | ["walk", n], some t =>
    match n.toNat? with
    | some n =>
      -- the walker counts the pairs it is given and answers STOP at the n-th (0 = never)
      let idx := (pairs t).zipIdx
      let l := walkList (fun (q : Pair × Nat) => !(n != 0 && q.2 + 1 ≥ n)) idx
      (s, s!"w={showPairs (l.map (·.1))} n={l.length}")
    | none => (s, "bad-op")
  | _, _ => (s, "bad-op")

def main : IO Unit := do
  forLines (← IO.getStdin) St {} step

end Hawk.Drv.Htb
