import HawkModel.Ctx
import HawkModel.Drv.Util
/-! driver for the ctx area (C09): reads the abstract program and the API op list, prints the
    observation line the C harness (harness/ctx_h.c) must print for the same op -/
namespace Hawk.Drv.Ctx
open Hawk.Ctx

structure St where
  w : World := {}
  -- program under construction
  ng : Nat := 0
  nplain : Nat := 0      -- how many of the trailing model globals the program text leaves undeclared (plain variables)
  funs : List Fun := []
  begin_ : Option Block := none
  end_ : Option Block := none
  sites : List (Nat × String) := []
  -- where `a` lines go: 0 = function (last of funs), 1 = begin, 2 = end
  target : Nat := 0

def tagVal (s : String) : String := (s.drop 2).toString

partial def parseExpr : List String → Option (Expr × List String)
  | [] => none
  | t :: rest =>
    if t == "R" then some (.rec0, rest)
    else if t == "N" then some (.nr, rest)
    else if t == "C" then
      match parseExpr rest with
      | some (a, r1) => match parseExpr r1 with
        | some (b, r2) => some (.cat a b, r2)
        | none => none
      | none => none
    else if t.startsWith "L:" then some (.lit (tagVal t), rest)
    else if t.startsWith "G:" then (tagVal t).toNat?.map fun n => (.glob n, rest)
    else if t.startsWith "A:" then (tagVal t).toNat?.map fun n => (.arg n, rest)
    else if t.startsWith "V:" then (tagVal t).toNat?.map fun n => (.loc n, rest)
    else if t.startsWith "M:" then (tagVal t).toNat?.map fun n => (.mlen n, rest)
    else if t.startsWith "P:" then
      match parseExpr rest with
      | some (e, r1) => some (.app e (tagVal t), r1)
      | none => none
    else none

partial def parseExprs (l : List String) : Option (List Expr) :=
  match l with
  | [] => some []
  | _ => match parseExpr l with
    | some (e, r) => (parseExprs r).map (e :: ·)
    | none => none

def parseAction : List String → Option (Action × Option (Nat × String))
  | "setg" :: n :: e => do let n ← n.toNat?; let (e, _) ← parseExpr e; pure (.setg n e, none)
  | "setl" :: n :: e => do let n ← n.toNat?; let (e, _) ← parseExpr e; pure (.setl n e, none)
  | "seta" :: n :: e => do let n ← n.toNat?; let (e, _) ← parseExpr e; pure (.seta n e, none)
  | "print" :: e => do let (e, _) ← parseExpr e; pure (.print e, none)
  | "printf" :: k :: e => do let k ← k.toNat?; let (e, _) ← parseExpr e; pure (.printf k e, none)
  | ["closef", k] => do let k ← k.toNat?; pure (.closef k, none)
  | ["getline"] => some (.getline, none)
  | ["fail"] => some (.fail, none)
  | ["exit"] => some (.exit none, none)
  | "exit" :: e => do let (e, _) ← parseExpr e; pure (.exit (some e), none)
  | ["ret"] => some (.ret none, none)
  | "ret" :: e => do let (e, _) ← parseExpr e; pure (.ret (some e), none)
  | "call" :: dst :: site :: fname :: es => do
    let dst ← dst.toNat?; let site ← site.toNat?; let es ← parseExprs es
    pure (.call dst site es, some (site, fname))
  | "mapset" :: n :: key :: e => do let n ← n.toNat?; let (e, _) ← parseExpr e; pure (.mapset n key e, none)
  | _ => none

def parseArg (t : String) : Arg :=
  if t == "n" then .nil
  else if t.startsWith "h:" then match (tagVal t).toNat? with | some k => .hnd k | none => .nil
  else if t.startsWith "s:" then .tmp (tagVal t)
  else .tmp t

def errName : Err → String
  | .enoerr => "ENOERR" | .eperm => "EPERM" | .estack => "ESTACK" | .edivby0 => "EDIVBY0"
  | .eargtm => "EARGTM" | .efunnf => "EFUNNF" | .eionmnf => "EIONMNF"
  | .enotref => "ENOTREF" | .enonscatopos => "ENONSCATOPOS" | .enoent => "ENOENT"

def escLine (s : String) : String := String.ofList (s.toList.map fun ch => if ch == ' ' then '_' else ch)
def showLines (l : List String) : String := String.join (l.map fun s => escLine s ++ "|")
def showFile : Option (List String) → String
  | none => "-"
  | some l => showLines l
def showRio (l : List Nat) : String :=
  if l.isEmpty then "-" else joinWith "," (l.map fun k => s!"f{k}")
def showArgs (l : List (String × Nat)) : String :=
  if l.isEmpty then "-" else joinWith ";" (l.map fun p => s!"{p.1}/{p.2}")

def tail (o : Obs) : String :=
  s!" err={errName o.err} xl={o.xl} top={o.top} base={o.base} rio={showRio o.rio} nr={o.nr}"
def tailIO (o : Obs) : String :=
  let con := showLines o.con
  tail o ++ s!" con={if con.isEmpty then "-" else con} f0={showFile o.f0} f1={showFile o.f1}"

def render (o : Obs) : String :=
  let flt := if o.fault then " FAULT" else ""
  (match o.tag with
   | "open" => "open ok" ++ tail o
   | "open-already" => "open already"
   | "closed" => "closed"
   | "close" => "close ok"
   | "call" => s!"call ret={o.ret} rc={o.rc} args={showArgs o.args}" ++ tailIO o
   | "calls" => s!"calls ret={o.ret} rc={o.rc} args=-" ++ tailIO o
   | "loop" => s!"loop ret={o.ret} rc={o.rc} args=-" ++ tailIO o
   | "exec" => s!"exec ret={o.ret} rc={o.rc} args=-" ++ tailIO o
   | "setgbl" => s!"setgbl r=0 g={showArgs o.args}" ++ tail o
   | "getgbl" => s!"getgbl g={showArgs o.args}" ++ tail o
   | "setgbl-nogbl" => "setgbl nogbl"
   | "getgbl-nogbl" => "getgbl nogbl"
   | "halt" => "halt ok" ++ tail o
   | "mkstr" => "mkstr ok"
   | "mkmap" => "mkmap ok"
   | "drop" => "drop ok"
   | "show" => s!"show {showArgs o.args}"
   | "show-none" => "show none"
   | t => t) ++ flt

def anyOpen (w : World) : Bool := (List.range 4).any fun i => (w.ctxs i).isSome

def progInfo (p : Prog) : String :=
  let names := (p.funs.map (·.name)).toArray.qsort (· < ·) |>.toList
  s!" funs={if names.isEmpty then "-" else joinWith "," names} ug={p.ng + p.hidden}"

def addAction (s : St) (a : Action) : St :=
  match s.target with
  | 0 => match s.funs.reverse with
    | f :: fs => { s with funs := ({ f with body := f.body ++ [a] } :: fs).reverse }
    | [] => s
  | 1 => { s with begin_ := s.begin_.map fun b => { b with body := b.body ++ [a] } }
  | _ => { s with end_ := s.end_.map fun b => { b with body := b.body ++ [a] } }

def ctxOp (s : St) (cid : String) (f : Nat → WOp) (opname : String) : St × String :=
  match cid.toNat? with
  | some c =>
    if c ≥ 4 then (s, "bad-op") else
    let (w, _, o) := s.w.step (f c)
    let line := render o
    ({ s with w := w }, if line == "closed" then opname ++ " closed" else line)
  | none => (s, "bad-op")

def step (s : St) (line : String) : St × String :=
  match words line with
  | [] => (s, "-")
  | ["new"] => ({}, "new ok")
  | ["fin"] => ({}, "end live=0 xfree=0 badfree=0")
  | ["prog", ng] => ({ s with ng := ng.toNat?.getD 0, nplain := 0, funs := [], begin_ := none, end_ := none, sites := [], target := 0 }, "-")
  | ["prog", ng, np] => ({ s with ng := ng.toNat?.getD 0, nplain := np.toNat?.getD 0, funs := [], begin_ := none, end_ := none, sites := [], target := 0 }, "-")
  | ["fun", name, spec, nl] =>
    let sp := if spec == "-" then [] else spec.toList.map (· == 'r')
    ({ s with funs := s.funs ++ [{ name := name, spec := sp, nlcls := nl.toNat?.getD 0, body := [] }], target := 0 }, "-")
  | ["begin", nl] => ({ s with begin_ := some { nlcls := nl.toNat?.getD 0, body := [] }, target := 1 }, "-")
  | ["end", nl] => ({ s with end_ := some { nlcls := nl.toNat?.getD 0, body := [] }, target := 2 }, "-")
  | "a" :: toks =>
    match parseAction toks with
    | some (a, site) =>
      let s1 := addAction s a
      (match site with | some p => { s1 with sites := p :: s1.sites } | none => s1, "-")
    | none => (s, "bad-action")
  | ["endprog"] => (s, "-")
  | "parse" :: _ :: _ =>
    if anyOpen s.w then (s, "parse refused") else
    let sites := s.sites
    let p : Prog := { ng := s.ng, hidden := 2 - s.nplain, funs := s.funs, begin_ := s.begin_, end_ := s.end_,
                      siteName := fun n => match sites.find? (·.1 == n) with | some q => q.2 | none => "" }
    ({ s with w := { s.w with interp := s.w.interp.parse p } }, "parse ok" ++ progInfo p)
  | "parsebad" :: _ :: _ =>
    if anyOpen s.w then (s, "parse refused") else
    ({ s with w := { s.w with interp := s.w.interp.clear } }, "parse err" ++ progInfo {})
  | ["clear"] =>
    if anyOpen s.w then (s, "clear refused") else
    ({ s with w := { s.w with interp := s.w.interp.clear } }, "clear ok" ++ progInfo {})
  | ["open", c] => ctxOp s c .open "open"
  | ["close", c] => ctxOp s c .close "close"
  | "call" :: c :: fname :: args => ctxOp s c (fun c => .op c (.call fname (args.map parseArg))) "call"
  | "calls" :: c :: fname :: args =>
    ctxOp s c (fun c => .op c (.calls fname (args.map fun t => if t.startsWith "s:" then tagVal t else t))) "calls"
  | ["incdirs", _] => (s, "incdirs ok")
  | ["loop", c] => ctxOp s c (fun c => .op c .loop) "loop"
  | ["exec", c] => ctxOp s c (fun c => .op c .exec) "exec"
  | ["setgbl", c, n, a] => ctxOp s c (fun c => .op c (.setgbl (n.toNat?.getD 0) (parseArg a))) "setgbl"
  | ["getgbl", c, n] => ctxOp s c (fun c => .op c (.getgbl (n.toNat?.getD 0))) "getgbl"
  | ["halt", c] => ctxOp s c (fun c => .op c .halt) "halt"
  | ["mkstr", c, h, t] => ctxOp s c (fun c => .op c (.mkstr (h.toNat?.getD 99) t)) "mkstr"
  | ["mkmap", c, h] => ctxOp s c (fun c => .op c (.mkmap (h.toNat?.getD 99))) "mkmap"
  | ["drop", c, h] => ctxOp s c (fun c => .op c (.drop (h.toNat?.getD 99))) "drop"
  | ["show", c, h] => ctxOp s c (fun c => .op c (.showh (h.toNat?.getD 99))) "show"
  | _ => (s, "bad-op")

def main : IO Unit := do
  forLines (← IO.getStdin) St {} step

end Hawk.Drv.Ctx
